// scope.js (property C02): projection of the two outputs of the real js.Minifier
// (KeepVarNames on / off) into the abstract domain of spec/JsScope.tla.
//
//   node --expose-internals scope.js <driver-output.ndjson> <trace.ndjson> [--exec]
//
// Independent of tdewolff/parse: both outputs are parsed with node's bundled acorn.  This file only
// records *syntactic facts* (which construct declares which identifier occurrence in which scope
// node, which occurrences are references, which are names outside the variable namespace); the
// *resolution* of references to declarations and every clause of the property is evaluated by TLC.
//
// One output line per program (see spec/C02Trace.tla for the meaning of the fields):
//   st     "ok" | "lex" | "mismatch" | "error" | "unsupported"
//   scopes [[parent, kind]]                 kind: global module function params aparams fname cname class
//                                                 field static block for switch catch with
//   decls  [[scope, dk, occ]]               positional declarations (let const class function param catch fname cname import)
//   uses   [[scope, occ]]                   references (reads, writes, initialised var declarators)
//   pubs   [occ]                            names outside the variable namespace (property names, labels, import/export names)
//   impl   [[scope, name]]                  implicit bindings (arguments)
//   vdk/vdr [[scope, name]]                 names declared by `var` in the keep / renamed output (position free)
//   keep/ren [name]                         spelling of every occurrence in the two outputs
//   inn    [name]                           identifier names and string literal contents of the INPUT
//   obsk/obsr [string]                      observations of executing the two outputs (with --exec)
'use strict';
const acorn = require('internal/deps/acorn/acorn/dist/acorn');
const fs = require('fs');
const vm = require('vm');

class Unsupported extends Error {}

function parse(src) {
  const opts = { ecmaVersion: 'latest', allowHashBang: true };
  try {
    return { ast: acorn.parse(src, Object.assign({ sourceType: 'script' }, opts)), module: false };
  } catch (e1) {
    try {
      return { ast: acorn.parse(src, Object.assign({ sourceType: 'module' }, opts)), module: true };
    } catch (e2) {
      return { err: String(e1.message) };
    }
  }
}

// ---- the walk -------------------------------------------------------------------------------
// Produces, for one parsed output: shape (array of strings: the ESTree modulo identifier spelling,
// modulo the position of `var` keywords, modulo shorthand notation), names (spelling per
// occurrence), and the scope facts.  Two outputs are comparable iff shape and facts are equal.
function project(ast, isModule) {
  const P = { shape: [], names: [], scopes: [], decls: [], uses: [], pubs: [], impl: [], vd: [], blockfn: false };
  const S = P.shape;
  function newScope(parent, kind) { P.scopes.push([parent, kind]); return P.scopes.length; }
  function occ(name) { P.names.push(name); return P.names.length; }
  function use(id, sc) { S.push('U'); P.uses.push([sc, occ(id.name)]); }
  function pub(name) { S.push('P'); P.pubs.push(occ(name)); }
  function decl(id, sc, dk) { S.push('D' + dk); P.decls.push([sc, dk, occ(id.name)]); }
  function isVarScope(sc) { const k = P.scopes[sc - 1][1]; return k === 'global' || k === 'module' || k === 'function' || k === 'static'; }

  // binding / assignment patterns.  mode: dk string => declares; 'use' => assignment target; 'var' => collect names + use
  function pattern(n, sc, mode) {
    switch (n.type) {
      case 'Identifier':
        if (mode === 'use') use(n, sc); else decl(n, sc, mode);
        return;
      case 'MemberExpression':
        if (mode !== 'use') throw new Unsupported('member in binding pattern');
        expr(n, sc); return;
      case 'ObjectPattern':
        S.push('OP' + n.properties.length);
        for (const p of n.properties) {
          if (p.type === 'RestElement') { S.push('Rest'); pattern(p.argument, sc, mode); continue; }
          propKey(p, sc);
          pattern(p.value, sc, mode);
        }
        return;
      case 'ArrayPattern':
        S.push('AP' + n.elements.length);
        for (const e of n.elements) { if (e === null) S.push('Hole'); else pattern(e, sc, mode); }
        return;
      case 'AssignmentPattern':
        S.push('Dflt'); pattern(n.left, sc, mode); expr(n.right, sc); return;
      case 'RestElement':
        S.push('Rest'); pattern(n.argument, sc, mode); return;
      default:
        throw new Unsupported('pattern ' + n.type);
    }
  }
  function boundNames(n, out) {
    switch (n.type) {
      case 'Identifier': out.push(n.name); break;
      case 'ObjectPattern': for (const p of n.properties) boundNames(p.type === 'RestElement' ? p.argument : p.value, out); break;
      case 'ArrayPattern': for (const e of n.elements) if (e) boundNames(e, out); break;
      case 'AssignmentPattern': boundNames(n.left, out); break;
      case 'RestElement': boundNames(n.argument, out); break;
      default: throw new Unsupported('bound names of ' + n.type);
    }
    return out;
  }
  // key of Property / MethodDefinition / PropertyDefinition: not in the variable namespace
  function propKey(p, sc) {
    if (p.computed) { S.push('[k]'); expr(p.key, sc); }
    else if (p.key.type === 'Identifier') pub(p.key.name);
    else if (p.key.type === 'PrivateIdentifier') pub('#' + p.key.name);
    else if (p.key.type === 'Literal') {
      // {"x":v} and {x:v} are the same property: the minifier may print either
      if (typeof p.key.value === 'string' && /^[A-Za-z_$][A-Za-z0-9_$]*$/.test(p.key.value)) pub(p.key.value);
      else S.push('K:' + String(p.key.value));
    } else throw new Unsupported('key ' + p.key.type);
  }

  // `var` declaration: names are position free (collected per world), initialisers are assignments
  function varDecl(n, sc, asList) {
    const items = [];
    for (const d of n.declarations) {
      for (const nm of boundNames(d.id, [])) P.vd.push([sc, nm]);
      if (d.init) items.push(d);
    }
    return items;
  }
  function varAssign(d, sc) { S.push('Asg='); pattern(d.id, sc, 'use'); expr(d.init, sc); }

  function lexDecl(n, sc) {   // let / const
    S.push(n.kind + n.declarations.length);
    for (const d of n.declarations) {
      pattern(d.id, sc, n.kind);
      if (d.init) { S.push('='); expr(d.init, sc); } else S.push('noinit');
    }
  }

  function func(n, sc, isDeclNameHandled) {
    // n: FunctionDeclaration | FunctionExpression | ArrowFunctionExpression
    const arrow = n.type === 'ArrowFunctionExpression';
    S.push('Fn' + (arrow ? 'A' : '') + (n.async ? 'a' : '') + (n.generator ? 'g' : '') + n.params.length);
    let outer = sc;
    if (n.type === 'FunctionExpression' && n.id) {
      outer = newScope(sc, 'fname');
      decl(n.id, outer, 'fname');
    }
    const ps = newScope(outer, arrow ? 'aparams' : 'params');
    if (!arrow) P.impl.push([ps, 'arguments']);
    for (const p of n.params) pattern(p, ps, 'param');
    const bs = newScope(ps, 'function');
    if (n.body.type === 'BlockStatement') { S.push('{'); stmts(n.body.body, bs); S.push('}'); }
    else { S.push('=>e'); expr(n.body, bs); }
  }

  function cls(n, sc) {
    S.push('Class');
    let inner = sc;
    if (n.type === 'ClassDeclaration') { if (n.id) decl(n.id, sc, 'class'); }
    else if (n.id) { inner = newScope(sc, 'cname'); decl(n.id, inner, 'cname'); }
    const cs = newScope(inner, 'class');
    if (n.superClass) { S.push('ext'); expr(n.superClass, cs); }
    S.push('CB' + n.body.body.length);
    for (const m of n.body.body) {
      if (m.type === 'MethodDefinition') {
        S.push('M' + m.kind + (m.static ? 's' : ''));
        propKey(m, cs);
        func(m.value, cs);
      } else if (m.type === 'PropertyDefinition') {
        S.push('F' + (m.static ? 's' : ''));
        propKey(m, cs);
        if (m.value) { const fsx = newScope(cs, 'field'); S.push('='); expr(m.value, fsx); }
      } else if (m.type === 'StaticBlock') {
        S.push('SB{'); const ss = newScope(cs, 'static'); stmts(m.body, ss); S.push('}');
      } else throw new Unsupported('class member ' + m.type);
    }
  }

  function stmts(list, sc) {
    for (const s of list) stmt(s, sc);
  }
  // A block that declares nothing lexically is not observable as a scope; the minifier drops or keeps its braces
  // depending on whether a `var` keyword stayed inside, so it is spliced into the surrounding list.
  function hasLexical(list) {
    return list.some(s => (s.type === 'VariableDeclaration' && s.kind !== 'var') || s.type === 'FunctionDeclaration' || s.type === 'ClassDeclaration');
  }
  function block(n, sc, braces) {   // a BlockStatement that is not a function body
    if (!hasLexical(n.body)) {
      if (braces) S.push('{'); stmts(n.body, sc); if (braces) S.push('}');
      return;
    }
    const bs = newScope(sc, 'block');
    S.push('{'); stmts(n.body, bs); S.push('}');
  }
  // E1, E2, ..., En in a position evaluated exactly once before anything else of the statement:
  // E1; ...; En-1 are statements of their own (the minifier merges preceding expression statements into such positions)
  function lead(e, sc) {
    if (e.type === 'SequenceExpression') {
      for (const x of e.expressions.slice(0, -1)) exprStmtItems(x, sc);
      return e.expressions[e.expressions.length - 1];
    }
    return e;
  }
  function exprStmtItems(e, sc) {
    // a, b, c;  ==  a; b; c;      (hoisting turns `var a=1` into `a=1` which may be merged with neighbours)
    // t ? a : b;  ==  if (t) a; else b;      t && a;  ==  if (t) a;     (the minifier prints the statement form
    // when a `var` keyword stayed inside a branch, the expression form otherwise)
    if (e.type === 'SequenceExpression') for (const x of e.expressions) exprStmtItems(x, sc);
    else if (e.type === 'ConditionalExpression') {
      S.push('if'); expr(e.test, sc);
      S.push('{'); exprStmtItems(e.consequent, sc); S.push('}');
      S.push('else'); S.push('{'); exprStmtItems(e.alternate, sc); S.push('}');
    } else if (e.type === 'LogicalExpression' && e.operator === '&&') {
      S.push('if'); expr(e.left, sc);
      S.push('{'); exprStmtItems(e.right, sc); S.push('}'); S.push('noelse');
    } else { S.push('ES'); expr(e, sc); }
  }
  // for(init;;): an init that is not a lexical declaration is evaluated once before the loop, in a scope that
  // declares nothing: it is the same as statements in front of the loop (where the minifier takes them from)
  function forInitBefore(n, outer, fsc) {
    if (n && !(n.type === 'VariableDeclaration' && n.kind !== 'var')) {
      if (n.type === 'VariableDeclaration') { for (const d of varDecl(n, fsc)) { S.push('ES'); varAssign(d, outer); } }
      else exprStmtItems(n, outer);
    }
  }
  function forInit(n, sc) {
    S.push('Init[');
    if (n && n.type === 'VariableDeclaration' && n.kind !== 'var') lexDecl(n, sc);
    S.push(']');
  }
  function forLeft(n, sc) {
    if (n.type === 'VariableDeclaration') {
      const d = n.declarations[0];
      if (n.kind === 'var') {
        for (const nm of boundNames(d.id, [])) P.vd.push([sc, nm]);
        if (d.init) throw new Unsupported('for-in initialiser');
        S.push('left'); pattern(d.id, sc, 'use');
      } else { S.push('left' + n.kind); pattern(d.id, sc, n.kind); }
    } else { S.push('left'); pattern(n, sc, 'use'); }
  }
  function body(n, sc) {   // statement position that may or may not be a block: braces are not observable
    if (n.type === 'BlockStatement') {
      if (hasLexical(n.body)) block(n, sc, true); else { S.push('{'); stmts(n.body, sc); S.push('}'); }
    } else { S.push('{'); stmt(n, sc); S.push('}'); }
  }

  function stmt(n, sc) {
    switch (n.type) {
      case 'ExpressionStatement':
        if (n.directive) { S.push('Dir:' + n.directive); return; }
        exprStmtItems(n.expression, sc); return;
      case 'VariableDeclaration':
        if (n.kind === 'var') { for (const d of varDecl(n, sc)) { S.push('ES'); varAssign(d, sc); } }
        else lexDecl(n, sc);
        return;
      case 'FunctionDeclaration':
        if (!isVarScope(sc)) P.blockfn = true;
        S.push('FD'); decl(n.id, sc, 'function'); func(n, sc); return;
      case 'ClassDeclaration': cls(n, sc); return;
      case 'BlockStatement': block(n, sc, false); return;
      case 'EmptyStatement': return;
      case 'DebuggerStatement': S.push('debugger'); return;
      case 'ReturnStatement':
        if (n.argument) { const a = lead(n.argument, sc); S.push('return'); expr(a, sc); } else { S.push('return'); S.push('-'); }
        return;
      case 'ThrowStatement': { const a = lead(n.argument, sc); S.push('throw'); expr(a, sc); return; }
      case 'BreakStatement': case 'ContinueStatement':
        S.push(n.type); if (n.label) pub(n.label.name); else S.push('-'); return;
      case 'LabeledStatement': S.push('Label'); pub(n.label.name); body(n.body, sc); return;
      case 'IfStatement':
        { const t = lead(n.test, sc); S.push('if'); expr(t, sc); } body(n.consequent, sc);
        if (n.alternate) { S.push('else'); body(n.alternate, sc); } else S.push('noelse');
        return;
      case 'WhileStatement': S.push('while'); expr(n.test, sc); body(n.body, sc); return;
      case 'DoWhileStatement': S.push('do'); body(n.body, sc); expr(n.test, sc); return;
      case 'ForStatement': {
        const fsx = newScope(sc, 'for');
        forInitBefore(n.init, sc, fsx);
        S.push('for'); forInit(n.init, fsx);
        if (n.test) expr(n.test, fsx); else S.push('-');
        if (n.update) expr(n.update, fsx); else S.push('-');
        body(n.body, fsx); return;
      }
      case 'ForInStatement': case 'ForOfStatement': {
        const fsx = newScope(sc, 'for');
        S.push(n.type + (n.await ? 'await' : '')); forLeft(n.left, fsx); expr(n.right, fsx); body(n.body, fsx); return;
      }
      case 'SwitchStatement': {
        { const d = lead(n.discriminant, sc); S.push('switch'); expr(d, sc); }
        const ss = newScope(sc, 'switch');
        for (const c of n.cases) {
          if (c.test) { S.push('case'); expr(c.test, ss); } else S.push('default');
          stmts(c.consequent, ss);
        }
        S.push('endswitch'); return;
      }
      case 'TryStatement': {
        S.push('try'); block(n.block, sc, true);
        if (n.handler) {
          const cs = newScope(sc, 'catch');
          S.push('catch');
          if (n.handler.param) pattern(n.handler.param, cs, 'catch'); else S.push('-');
          block(n.handler.body, cs, true);
        }
        if (n.finalizer) { S.push('finally'); block(n.finalizer, sc, true); }
        return;
      }
      case 'WithStatement': {
        { const o = lead(n.object, sc); S.push('with'); expr(o, sc); }
        const ws = newScope(sc, 'with');
        body(n.body, ws); return;
      }
      case 'ImportDeclaration':
        S.push('import' + n.specifiers.length);
        for (const s of n.specifiers) {
          S.push(s.type);
          if (s.type === 'ImportSpecifier') modName(s.imported);
          decl(s.local, sc, 'import');
        }
        S.push('from:' + n.source.value); return;
      case 'ExportNamedDeclaration':
        S.push('export');
        if (n.declaration) { stmt(n.declaration, sc); return; }
        for (const s of n.specifiers) {
          S.push('spec');
          if (n.source) modName(s.local); else if (s.local.type === 'Identifier') use(s.local, sc); else modName(s.local);
          modName(s.exported);
        }
        S.push(n.source ? 'from:' + n.source.value : 'local'); return;
      case 'ExportDefaultDeclaration':
        S.push('exportdefault');
        if (n.declaration.type === 'FunctionDeclaration') {
          S.push('FD'); if (n.declaration.id) decl(n.declaration.id, sc, 'function'); else S.push('anon'); func(n.declaration, sc);
        } else if (n.declaration.type === 'ClassDeclaration') cls(n.declaration, sc);
        else expr(n.declaration, sc);
        return;
      case 'ExportAllDeclaration':
        S.push('exportall'); if (n.exported) modName(n.exported); else S.push('-'); S.push('from:' + n.source.value); return;
      default:
        throw new Unsupported('statement ' + n.type);
    }
  }
  function modName(n) { if (n.type === 'Identifier') pub(n.name); else pub(String(n.value)); }

  function exprs(list, sc) { for (const e of list) { if (e === null) S.push('Hole'); else expr(e, sc); } }

  function expr(n, sc) {
    switch (n.type) {
      case 'Identifier': use(n, sc); return;
      case 'Literal':
        if (n.regex) S.push('Re:' + n.regex.pattern + '/' + n.regex.flags);
        else if (n.bigint) S.push('Big:' + n.bigint);
        else S.push('L:' + typeof n.value + ':' + String(n.value));
        return;
      case 'ThisExpression': S.push('this'); return;
      case 'Super': S.push('super'); return;
      case 'TemplateLiteral':
        S.push('Tpl' + n.quasis.length);
        for (const q of n.quasis) S.push('q:' + q.value.raw);
        exprs(n.expressions, sc); return;
      case 'TaggedTemplateExpression': S.push('Tag'); expr(n.tag, sc); expr(n.quasi, sc); return;
      case 'ArrayExpression': S.push('Arr' + n.elements.length); exprs(n.elements, sc); return;
      case 'ObjectExpression':
        S.push('Obj' + n.properties.length);
        for (const p of n.properties) {
          if (p.type === 'SpreadElement') { S.push('...'); expr(p.argument, sc); continue; }
          S.push('Prop' + p.kind + (p.method ? 'm' : ''));
          propKey(p, sc);
          if (p.method || p.kind !== 'init') func(p.value, sc); else expr(p.value, sc);
        }
        return;
      case 'FunctionExpression': case 'ArrowFunctionExpression': func(n, sc); return;
      case 'ClassExpression': cls(n, sc); return;
      case 'UnaryExpression': S.push('Un' + n.operator); expr(n.argument, sc); return;
      case 'UpdateExpression': S.push('Upd' + n.operator + (n.prefix ? 'p' : 's')); expr(n.argument, sc); return;
      case 'BinaryExpression': case 'LogicalExpression':
        S.push('Bin' + n.operator);
        if (n.left.type === 'PrivateIdentifier') pub('#' + n.left.name); else expr(n.left, sc);
        expr(n.right, sc); return;
      case 'AssignmentExpression':
        S.push('Asg' + n.operator); pattern(n.left, sc, 'use'); expr(n.right, sc); return;
      case 'ConditionalExpression': S.push('?:'); expr(n.test, sc); expr(n.consequent, sc); expr(n.alternate, sc); return;
      case 'CallExpression': S.push('Call' + n.arguments.length + (n.optional ? '?' : '')); expr(n.callee, sc); exprs(n.arguments, sc); return;
      case 'NewExpression': S.push('New' + n.arguments.length); expr(n.callee, sc); exprs(n.arguments, sc); return;
      case 'MemberExpression':
        S.push('Mem' + (n.computed ? '[]' : '.') + (n.optional ? '?' : ''));
        expr(n.object, sc);
        if (n.computed) expr(n.property, sc);
        else if (n.property.type === 'PrivateIdentifier') pub('#' + n.property.name);
        else pub(n.property.name);
        return;
      case 'ChainExpression': S.push('Chain'); expr(n.expression, sc); return;
      case 'SequenceExpression': S.push('Seq' + n.expressions.length); exprs(n.expressions, sc); return;
      case 'SpreadElement': S.push('...'); expr(n.argument, sc); return;
      case 'YieldExpression': S.push('yield' + (n.delegate ? '*' : '')); if (n.argument) expr(n.argument, sc); else S.push('-'); return;
      case 'AwaitExpression': S.push('await'); expr(n.argument, sc); return;
      case 'MetaProperty': S.push('Meta:' + n.meta.name + '.' + n.property.name); return;
      case 'ImportExpression': S.push('import()'); expr(n.source, sc); return;
      case 'ParenthesizedExpression': expr(n.expression, sc); return;
      default:
        throw new Unsupported('expression ' + n.type);
    }
  }

  const root = newScope(0, isModule ? 'module' : 'global');
  stmts(ast.body, root);
  return P;
}

// identifier names and string contents of the input (what "no identifier is changed at all" is measured against)
function inputNames(src) {
  const names = new Set();
  try {
    const tk = acorn.tokenizer(src, { ecmaVersion: 'latest', allowHashBang: true, sourceType: 'module' });
    for (let t = tk.getToken(); t.type !== acorn.tokTypes.eof; t = tk.getToken()) {
      if (t.type === acorn.tokTypes.name || t.type.keyword) names.add(t.type.keyword || t.value);
      else if (t.type === acorn.tokTypes.string) names.add(t.value);
      else if (t.type === acorn.tokTypes.privateId) names.add('#' + t.value);
    }
  } catch (e) { return null; }
  return names;
}

// token level alignment, used only when the renamed output does not parse
function tokens(src) {
  const out = [];
  try {
    const tk = acorn.tokenizer(src, { ecmaVersion: 'latest', allowHashBang: true });
    for (let t = tk.getToken(); t.type !== acorn.tokTypes.eof; t = tk.getToken()) {
      if (t.type === acorn.tokTypes.name) out.push(['n', t.value]);
      else if (t.type.keyword) out.push(['k', t.type.keyword]);
      else out.push(['o', t.type.label + (t.value !== undefined ? ':' + String(t.value) : '')]);
    }
  } catch (e) { return null; }
  return out;
}

// ---- execution (behavioural cross-check) ---------------------------------------------------------
function ser(v, d) {
  if (v === null) return 'null';
  const t = typeof v;
  if (t === 'undefined') return 'undefined';
  if (t === 'number' || t === 'boolean' || t === 'bigint') return t[0] + ':' + String(v);
  if (t === 'string') return 's:' + v;
  if (t === 'symbol') return 'symbol';
  if (t === 'function') return 'function';
  if (d > 2) return 'object';
  try {
    if (Array.isArray(v)) return '[' + Array.prototype.map.call(v, x => ser(x, d + 1)).join(',') + ']';
    return '{' + Object.keys(v).sort().map(k => k + ':' + ser(v[k], d + 1)).join(',') + '}';
  } catch (e) { return 'object!'; }
}
function execute(src, freeNames) {
  const obs = [];
  const sb = {};
  for (const n of freeNames) {
    if (/^[A-Za-z_$][A-Za-z0-9_$]*$/.test(n) && !(n in globalThis) && n !== 'out' && n !== 'arguments' && n !== 'eval')
      sb[n] = 'G_' + n;
  }
  sb.out = function () { if (obs.length < 400) obs.push('out(' + Array.prototype.map.call(arguments, x => ser(x, 0)).join(',') + ')'); };
  try {
    vm.runInNewContext(src, sb, { timeout: 5000 });
    obs.push('end');
  } catch (e) {
    // the wording of messages contains identifier spellings; only the kind of completion is an observation
    if (e && e.code === 'ERR_SCRIPT_EXECUTION_TIMEOUT') return null;   // machine load must not decide anything
    obs.push('throw:' + (e && e.constructor && e.constructor.name ? e.constructor.name : typeof e));
  }
  return obs;
}

function factsEqual(a, b) {
  return JSON.stringify([a.scopes, a.decls, a.uses, a.pubs, a.impl]) === JSON.stringify([b.scopes, b.decls, b.uses, b.pubs, b.impl]);
}

function processOne(ev, doExec) {
  const base = { id: ev.id, st: 'ok', why: '', scopes: [], decls: [], uses: [], pubs: [], impl: [], vdk: [], vdr: [],
    keep: [], ren: [], inn: [], innok: false, obsk: [], obsr: [], exec: false, tk: [], tr: [], blockfn: false, module: false };
  if (ev.panic) { base.st = 'error'; base.why = 'panic'; return base; }
  if (ev.errk || ev.errr) {
    // the minifier rejected the input: outside the quantifier unless only one mode rejects it
    base.st = (ev.errk && ev.errr) ? 'rejected' : 'error'; base.why = (ev.errk || '') + '|' + (ev.errr || ''); return base;
  }
  const inn = inputNames(ev.src);
  if (inn) { base.inn = Array.from(inn).sort(); base.innok = true; }
  const pk = parse(ev.keep);
  if (pk.err) { base.st = 'keepbad'; base.why = pk.err; return base; }
  const pr = parse(ev.ren);
  if (pr.err) {
    // the only difference between the two runs is the renaming: fall back to the token level
    base.st = 'lex'; base.why = pr.err;
    const tk = tokens(ev.keep), tr = tokens(ev.ren);
    base.tk = tk || []; base.tr = tr || [];
    return base;
  }
  base.module = pk.module;
  let a, b;
  try { a = project(pk.ast, pk.module); b = project(pr.ast, pr.module); }
  catch (e) { if (e instanceof Unsupported) { base.st = 'unsupported'; base.why = e.message; return base; } throw e; }
  base.blockfn = a.blockfn;
  let same = a.shape.length === b.shape.length && factsEqual(a, b);
  if (same) for (let i = 0; i < a.shape.length; i++) if (a.shape[i] !== b.shape[i]) { same = false; break; }
  if (doExec && !pk.module) {
    const free = new Set(base.inn);
    const ok = execute(ev.keep, free), or = execute(ev.ren, free);
    if (ok !== null && or !== null) { base.obsk = ok; base.obsr = or; base.exec = true; }
  }
  if (!same) {
    base.st = 'mismatch';
    let i = 0; while (i < a.shape.length && i < b.shape.length && a.shape[i] === b.shape[i]) i++;
    base.why = 'shape differs at ' + i + ': ' + a.shape.slice(Math.max(0, i - 3), i + 3).join(' ') + ' <> ' + b.shape.slice(Math.max(0, i - 3), i + 3).join(' ');
    base.keep = a.names; base.ren = b.names;   // still usable for the name-level clauses
    return base;
  }
  base.scopes = a.scopes; base.decls = a.decls; base.uses = a.uses; base.pubs = a.pubs; base.impl = a.impl;
  base.vdk = a.vd; base.vdr = b.vd; base.keep = a.names; base.ren = b.names;
  return base;
}

function main() {
  const args = process.argv.slice(process.argv[1] && process.argv[1].endsWith('scope.js') ? 2 : 1);
  const inp = args[0], outp = args[1], doExec = args.includes('--exec');
  const lines = fs.readFileSync(inp, 'utf8').split('\n').filter(x => x.length);
  const fd = fs.openSync(outp, 'w');
  for (const l of lines) {
    const ev = JSON.parse(l);
    fs.writeSync(fd, JSON.stringify(processOne(ev, doExec)) + '\n');
  }
  fs.closeSync(fd);
}
main();
