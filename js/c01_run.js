// C01 engine recorder + AST projector.    node --expose-internals c01_run.js <pairs.ndjson> <obs.ndjson>
//
// Each input line: {"id":n,"in":"<program>","out":"<minified>","seed":s,"nenv":k,"probe":0|1,"ast":0|1}
// For every pair the INPUT and the OUTPUT are executed by V8 (independent of the code under test) in fresh vm
// contexts under k seeded environments and the observation the property defines is recorded for both:
//   calls   : sequence of host interactions, each a sequence of atoms (kind, path, serialised args...)
//   globals : final values of global variables (sorted), each [name, serialised value]
//   comp    : completion  ["normal","",""] | ["throw", class, serialised value]
// The verdict is NOT taken here: TLC evaluates ObsEq (spec/JsObs.tla) on these records.
// Domain (property text): deterministic terminating programs; excluded and reported as skip=<reason>:
//   input does not parse as a script in V8, input times out, input is nondeterministic over two runs, input throws
//   a TDZ ReferenceError, input uses eval / Function, Annex-B block-function name clashes.
'use strict';
const vm = require('vm');
const fs = require('fs');
const path = require('path');
const acorn = require('internal/deps/acorn/acorn/dist/acorn');

const PRELUDE = new vm.Script(fs.readFileSync(path.join(__dirname, 'c01_prelude.js'), 'utf8'), { filename: 'c01_prelude.js' });
const KEY = Symbol.for('c01');
const T_IN = parseInt(process.env.C01_TIMEOUT || '25', 10);       // ms, input run
const T_OUT = Math.max(10000, T_IN * 40);   // "does not terminate" needs a 400x margin (loaded machines)                                             // output gets 20x before "does not terminate"

// names that stay bound to the realm's own builtins (never replaced by environment values)
const BUILTINS = new Set(['undefined', 'NaN', 'Infinity', 'globalThis', 'Object', 'Function', 'Array', 'Number', 'parseFloat', 'parseInt',
  'Boolean', 'String', 'Symbol', 'Date', 'Promise', 'RegExp', 'Error', 'AggregateError', 'EvalError', 'RangeError', 'ReferenceError',
  'SyntaxError', 'TypeError', 'URIError', 'JSON', 'Math', 'Intl', 'ArrayBuffer', 'Atomics', 'Uint8Array', 'Int8Array', 'Uint16Array',
  'Int16Array', 'Uint32Array', 'Int32Array', 'Float32Array', 'Float64Array', 'Uint8ClampedArray', 'BigUint64Array', 'BigInt64Array',
  'DataView', 'Map', 'BigInt', 'Set', 'WeakMap', 'WeakSet', 'WeakRef', 'Proxy', 'Reflect', 'FinalizationRegistry', 'decodeURI',
  'decodeURIComponent', 'encodeURI', 'encodeURIComponent', 'escape', 'unescape', 'eval', 'isFinite', 'isNaN', 'SharedArrayBuffer',
  'arguments', 'this', 'WebAssembly']);

// ---------------------------------------------------------------------------------------------------------
// scope analysis on the acorn AST (independent of tdewolff/parse): free identifiers, top-level lexical names,
// syntactic domain exclusions
function analyze(ast, strictProgram) {
  const free = new Set();
  const info = { free, topLex: [], usesEval: false, annexB: false, declared: new Map(), usesErrText: false };
  function mkScope(kind, parent) { return { kind, names: new Set(), parent, lexEnd: new Map() }; }
  function declare(scope, name) { scope.names.add(name); info.declared.set(name, (info.declared.get(name) || 0) + 1); }
  function patNames(p, out) {
    if (!p) return;
    switch (p.type) {
      case 'Identifier': out.push(p.name); break;
      case 'ObjectPattern': for (const pr of p.properties) patNames(pr.type === 'RestElement' ? pr.argument : pr.value, out); break;
      case 'ArrayPattern': for (const e of p.elements) patNames(e, out); break;
      case 'RestElement': patNames(p.argument, out); break;
      case 'AssignmentPattern': patNames(p.left, out); break;
    }
  }
  const blockFns = [];   // [name, fnScopeNames]
  function hoistVars(node, fscope, top) {
    // var declarations and (Annex B, sloppy) block functions belong to the function scope
    if (!node || typeof node.type !== 'string') return;
    switch (node.type) {
      case 'FunctionDeclaration':
        if (top) declare(fscope, node.id.name);
        else { blockFns.push([node.id.name, fscope]); }
        return;
      case 'FunctionExpression': case 'ArrowFunctionExpression': case 'ClassDeclaration': case 'ClassExpression':
        return;
      case 'VariableDeclaration':
        if (node.kind === 'var') for (const d of node.declarations) { const o = []; patNames(d.id, o); o.forEach((n) => declare(fscope, n)); }
        for (const d of node.declarations) hoistVars(d.init, fscope, false);
        return;
    }
    for (const k of Object.keys(node)) {
      if (k === 'type' || k === 'start' || k === 'end') continue;
      const c = node[k];
      const isTopBody = top && k === 'body' && (node.type === 'Program');
      if (Array.isArray(c)) { for (const x of c) if (x && typeof x.type === 'string') hoistVars(x, fscope, isTopBody); }
      else if (c && typeof c.type === 'string') hoistVars(c, fscope, false);
    }
  }
  function declareLexical(stmts, scope, isTopProgram) {
    for (const s of stmts) {
      let d = s;
      if (s.type === 'ExportNamedDeclaration' || s.type === 'ExportDefaultDeclaration') d = s.declaration || s;
      if (d.type === 'VariableDeclaration' && d.kind !== 'var') {
        for (const x of d.declarations) { const o = []; patNames(x.id, o); o.forEach((n) => { declare(scope, n); scope.lexEnd.set(n, x.end); if (isTopProgram) info.topLex.push(n); }); }
      } else if (d.type === 'ClassDeclaration' && d.id) { declare(scope, d.id.name); scope.lexEnd.set(d.id.name, d.end); if (isTopProgram) info.topLex.push(d.id.name); }
      else if (d.type === 'FunctionDeclaration' && d.id) declare(scope, d.id.name);
      else if (d.type === 'ImportDeclaration') for (const sp of d.specifiers) declare(scope, sp.local.name);
    }
  }
  function resolve(scope, name) {
    for (let s = scope; s; s = s.parent) if (s.names.has(name)) return true;
    return false;
  }
  function ref(scope, name, pos) {
    if (name === 'eval' || name === 'Function') info.usesEval = true;
    if (!resolve(scope, name)) { free.add(name); return; }
    // static temporal dead zone: a reference that textually precedes the end of the let/const/class declaration it resolves to,
    // in the same function activation (let y=y=1;  y;let y) - raises a TDZ ReferenceError whenever it is executed, even if the
    // program swallows the error in its own try/catch
    if (pos === undefined) return;
    let crossed = false;
    for (let sc = scope; sc; sc = sc.parent) {
      if (sc.names.has(name)) { if (!crossed && sc.lexEnd.has(name) && pos < sc.lexEnd.get(name)) info.tdzStatic = true; return; }
      if (sc.kind === 'function') crossed = true;
    }
  }
  function pattern(p, scope, isDecl) {
    if (!p) return;
    switch (p.type) {
      case 'Identifier': if (!isDecl) ref(scope, p.name, p.start); break;
      case 'ObjectPattern':
        for (const pr of p.properties) {
          if (pr.type === 'RestElement') pattern(pr.argument, scope, isDecl);
          else { if (pr.computed) expr(pr.key, scope); pattern(pr.value, scope, isDecl); }
        }
        break;
      case 'ArrayPattern': for (const e of p.elements) pattern(e, scope, isDecl); break;
      case 'RestElement': pattern(p.argument, scope, isDecl); break;
      case 'AssignmentPattern': pattern(p.left, scope, isDecl); expr(p.right, scope); break;
      default: expr(p, scope);
    }
  }
  function func(node, scope) {
    const fs = mkScope('function', scope);
    if (node.type === 'FunctionExpression' && node.id) declare(fs, node.id.name);
    if (node.type !== 'ArrowFunctionExpression') fs.names.add('arguments');
    for (const p of node.params) { const o = []; patNames(p, o); o.forEach((n) => declare(fs, n)); }
    for (const p of node.params) pattern(p, fs, true);
    if (node.body.type === 'BlockStatement') {
      hoistVars({ type: 'Program', body: node.body.body }, fs, true);
      declareLexical(node.body.body, fs, false);
      for (const s of node.body.body) stmt(s, fs);
    } else expr(node.body, fs);
  }
  function cls(node, scope) {
    const cs = mkScope('class', scope);
    if (node.id) declare(cs, node.id.name);
    if (node.superClass) expr(node.superClass, cs);
    for (const m of node.body.body) {
      if (m.type === 'StaticBlock') { const bs = mkScope('function', cs); hoistVars({ type: 'Program', body: m.body }, bs, true); declareLexical(m.body, bs, false); m.body.forEach((s) => stmt(s, bs)); continue; }
      if (m.computed) expr(m.key, cs);
      if (m.value) { if (m.type === 'PropertyDefinition') { const ps = mkScope('function', cs); ps.names.add('arguments'); expr(m.value, ps); } else expr(m.value, cs); }
    }
  }
  function expr(n, scope) {
    if (!n) return;
    switch (n.type) {
      case 'Identifier': ref(scope, n.name, n.start); return;
      case 'MemberExpression':
        expr(n.object, scope);
        if (n.computed) expr(n.property, scope);
        else if (n.property.type === 'Identifier' && (n.property.name === 'message' || n.property.name === 'stack')) info.usesErrText = true;
        return;
      case 'FunctionExpression': case 'ArrowFunctionExpression': func(n, scope); return;
      case 'ClassExpression': cls(n, scope); return;
      case 'ObjectExpression':
        for (const p of n.properties) {
          if (p.type === 'SpreadElement') { expr(p.argument, scope); continue; }
          if (p.computed) expr(p.key, scope);
          expr(p.value, scope);
        }
        return;
      case 'AssignmentExpression': pattern(n.left, scope, false); expr(n.right, scope); return;
      case 'MetaProperty': case 'Literal': case 'ThisExpression': case 'Super': case 'PrivateIdentifier': return;
      case 'TemplateLiteral': n.expressions.forEach((e) => expr(e, scope)); return;
      case 'TaggedTemplateExpression': expr(n.tag, scope); n.quasi.expressions.forEach((e) => expr(e, scope)); return;
      case 'ChainExpression': expr(n.expression, scope); return;
    }
    for (const k of Object.keys(n)) {
      if (k === 'type' || k === 'start' || k === 'end') continue;
      const c = n[k];
      if (Array.isArray(c)) c.forEach((x) => { if (x && typeof x.type === 'string') expr(x, scope); });
      else if (c && typeof c.type === 'string') expr(c, scope);
    }
  }
  function block(stmts, scope) {
    const bs = mkScope('block', scope);
    declareLexical(stmts, bs, false);
    stmts.forEach((s) => stmt(s, bs));
  }
  function stmt(n, scope) {
    if (!n) return;
    switch (n.type) {
      case 'VariableDeclaration':
        for (const d of n.declarations) { pattern(d.id, scope, true); expr(d.init, scope); }
        return;
      case 'FunctionDeclaration': func(n, scope); return;
      case 'ClassDeclaration': cls(n, scope); return;
      case 'BlockStatement': block(n.body, scope); return;
      case 'ForStatement': { const s = mkScope('block', scope); if (n.init && n.init.type === 'VariableDeclaration') { declareLexical([n.init], s, false); stmt(n.init, s); } else expr(n.init, s); expr(n.test, s); expr(n.update, s); stmt(n.body, s); return; }
      case 'ForInStatement': case 'ForOfStatement': {
        const s = mkScope('block', scope);
        if (n.left.type === 'VariableDeclaration') { declareLexical([n.left], s, false); stmt(n.left, s); } else pattern(n.left, s, false);
        expr(n.right, s); stmt(n.body, s); return;
      }
      case 'SwitchStatement': {
        expr(n.discriminant, scope);
        const s = mkScope('block', scope);
        for (const c of n.cases) declareLexical(c.consequent, s, false);
        for (const c of n.cases) { expr(c.test, s); c.consequent.forEach((x) => stmt(x, s)); }
        return;
      }
      case 'TryStatement':
        block(n.block.body, scope);
        if (n.handler) { const s = mkScope('catch', scope); const o = []; patNames(n.handler.param, o); o.forEach((x) => declare(s, x)); pattern(n.handler.param, s, true); block(n.handler.body.body, s); }
        if (n.finalizer) block(n.finalizer.body, scope);
        return;
      case 'LabeledStatement': stmt(n.body, scope); return;
      case 'BreakStatement': case 'ContinueStatement': case 'EmptyStatement': case 'DebuggerStatement': return;
      case 'ExpressionStatement': expr(n.expression, scope); return;
      case 'IfStatement': expr(n.test, scope); stmt(n.consequent, scope); stmt(n.alternate, scope); return;
      case 'WhileStatement': expr(n.test, scope); stmt(n.body, scope); return;
      case 'DoWhileStatement': stmt(n.body, scope); expr(n.test, scope); return;
      case 'ReturnStatement': case 'ThrowStatement': expr(n.argument, scope); return;
      case 'WithStatement': expr(n.object, scope); stmt(n.body, scope); return;
      case 'ImportDeclaration': return;
      case 'ExportNamedDeclaration': if (n.declaration) stmt(n.declaration, scope); else if (!n.source) n.specifiers.forEach((s) => { if (s.local.type === 'Identifier') ref(scope, s.local.name); }); return;
      case 'ExportDefaultDeclaration': if (/Declaration$/.test(n.declaration.type)) stmt(n.declaration, scope); else expr(n.declaration, scope); return;
      case 'ExportAllDeclaration': return;
      default: expr(n, scope);
    }
  }
  const top = mkScope('function', null);
  hoistVars(ast, top, true);
  declareLexical(ast.body, top, true);
  ast.body.forEach((s) => stmt(s, top));
  // Annex B.3.3: a function declared in a block of sloppy code whose name is declared anywhere else as well
  if (!strictProgram) {
    for (const [name] of blockFns) { if ((info.declared.get(name) || 0) >= 1) info.annexB = true; }
    const seen = new Set();
    for (const [name] of blockFns) { if (seen.has(name)) info.annexB = true; seen.add(name); }
  }
  info.blockFns = blockFns.length;
  return info;
}

function parseProgram(src) {
  try { return { ast: acorn.parse(src, { ecmaVersion: 2022, sourceType: 'script', allowHashBang: true }), module: false }; } catch (e) { }
  try { return { ast: acorn.parse(src, { ecmaVersion: 2022, sourceType: 'module', allowHashBang: true }), module: true }; } catch (e) { return null; }
}
function isStrictProgram(ast) {
  for (const s of ast.body) {
    if (s.type === 'ExpressionStatement' && typeof s.directive === 'string') { if (s.directive === 'use strict') return true; } else break;
  }
  return false;
}

// ---------------------------------------------------------------------------------------------------------
function mulberry32(a) {
  return function () {
    a |= 0; a = a + 0x6D2B79F5 | 0;
    let t = Math.imul(a ^ a >>> 15, 1 | a);
    t = t + Math.imul(t ^ t >>> 7, 61 | t) ^ t;
    return ((t ^ t >>> 14) >>> 0) / 4294967296;
  };
}
function hashStr(s, h) {
  h = h >>> 0;
  for (let i = 0; i < s.length; i++) h = Math.imul(h ^ s.charCodeAt(i), 16777619) >>> 0;
  return h >>> 0;
}

// environment k of a program: a binding for every free identifier that is not a builtin of the realm
function makeEnv(freeNames, seed, k, nobig) {
  const r = mulberry32(hashStr('env' + k, seed));
  const bindings = [];
  for (const name of freeNames) {
    if (BUILTINS.has(name)) continue;
    if (/^zz/.test(name)) continue;         // names starting with zz are the generators' UNDECLARED identifiers: never bound
    let b;
    if (k === 0) b = { name, kind: 'U', p: 0.7 };                                   // logging host objects everywhere
    else if (k === 1) b = { name, kind: 'fn' };                                      // logging host functions returning primitives
    else if (k === 2) b = { name, kind: 'prim', i: hashStr(name, seed) % 2 };        // undefined / null (nullish rewrites)
    else {
      const x = r();
      if (x < 0.30) b = { name, kind: 'fn' };
      else if (x < 0.65) b = { name, kind: 'prim', i: Math.floor(r() * 18) };
      else if (x < 0.80) b = { name, kind: 'U', p: 0.4 };
      else if (x < 0.88) b = { name, kind: 'obj' };
      else if (x < 0.94) b = { name, kind: 'arr' };
      else if (x < 0.96) b = nobig ? { name, kind: 'prim', i: 4 } : { name, kind: 'big' };
      else b = null;                       // stays undeclared: ReferenceError on read
    }
    if (b) bindings.push(b);
  }
  // a console is always there (logging host object) unless the program binds the name itself
  if (!freeNames.includes('console')) bindings.push({ name: 'console', kind: 'U', p: 0.0 });
  return { seed: (seed ^ (k * 0x9E3779B1)) >>> 0, bindings, budget: 3000, nobig: !!nobig };
}

let PROGRESS = null, CURRENT = '';
function tick() { if (PROGRESS) { try { fs.writeFileSync(PROGRESS, CURRENT); } catch (e) { } } }

// A vm timeout starts a watchdog thread per call (~1.5 ms), so straight-line programs run without one.  Everything that can
// run unboundedly needs it: loops, but also any callable code (recursion inside try/catch takes exponential time:
// function f(){try{f()}catch(e){f()}}) and asynchronous chains (async function f(){await 0;f()} never drains the microtasks).
function needsTimeout(src) { return /\b(for|while|do|function|class|try|async|await|yield|Promise|get|set)\b|=>/.test(src); }

function isTimeout(e) { return e && e.code === 'ERR_SCRIPT_EXECUTION_TIMEOUT'; }

// one execution: returns {obs: {calls, globals, comp}, timeout, syntax, tdz}
function execute(src, env, lexNames, probeLevel, timeout) {
  const ctx = vm.createContext({}, { microtaskMode: 'afterEvaluate' });
  const api = PRELUDE.runInContext(ctx);
  api.setup(JSON.stringify(env));
  let script;
  try { script = new vm.Script(src, { filename: 'program.js' }); } catch (e) {
    return { syntax: true, msg: String(e && e.message) };
  }
  let comp = ['normal', '', ''];
  let tdz = false;
  // a vm timeout starts a watchdog thread per call (~1.5 ms): only programs that can loop need one
  // (without for/while/do the only unbounded computation is recursion, which ends in a RangeError by itself)
  const opts = timeout > 0 ? { timeout } : {};
  try { script.runInContext(ctx, opts); } catch (e) {
    if (isTimeout(e)) return { timeout: true };
    const c = JSON.parse(api.serThrown(e));
    if (c[1] === 'ReferenceError' && /before initialization/.test(c[3] || '')) tdz = true;
    comp = [c[0], c[1], c[2]];
  }
  const lexJson = JSON.stringify(lexNames);
  ctx.__c01_args = undefined;
  let probeComp = 'ok';
  if (probeLevel > 0) {
    try {
      vm.runInContext('globalThis[Symbol.for("c01")].probe(' + JSON.stringify(lexJson) + ',' + (env.seed >>> 0) + ',' + probeLevel + ')', ctx, timeout > 0 ? { timeout: timeout * 2 } : {});
    } catch (e) {
      if (isTimeout(e)) return { timeout: true, inProbe: true };
      probeComp = 'budget';
    }
  }
  delete ctx.__c01_args;
  let snap;
  try { snap = JSON.parse(api.snapshot(lexJson)); } catch (e) { return { broken: String(e) }; }
  comp.push(probeComp);
  return { obs: { calls: snap.calls, globals: snap.globals, comp: comp.slice(0, 3).concat([probeComp]) }, tdz: tdz || !!snap.tdz, stack: !!snap.stack };
}

function withDepth(n, fn) { return n <= 0 ? fn() : [withDepth(n - 1, fn), n, n + 1, n + 2][0]; }

function sameObs(a, b) { return JSON.stringify(a) === JSON.stringify(b); }

function observePair(c) {
  const res = [];
  const parsed = parseProgram(c.in);
  if (!parsed) return [{ id: c.id, env: -1, skip: 'input rejected by acorn' }];
  if (parsed.module) return [{ id: c.id, env: -1, skip: 'module syntax (import/export/top-level await)' }];
  const strict = isStrictProgram(parsed.ast);
  let info;
  try { info = analyze(parsed.ast, strict); } catch (e) { return [{ id: c.id, env: -1, skip: 'analysis failed: ' + e.message }]; }
  if (info.usesEval) return [{ id: c.id, env: -1, skip: 'eval/Function' }];
  if (info.annexB) return [{ id: c.id, env: -1, skip: 'annex-B block function clash' }];
  if (info.tdzStatic) return [{ id: c.id, env: -1, skip: 'input TDZ' }];
  // "the wording of engine error messages" is excluded by the property: programs that read .message/.stack could carry it
  // into host calls or globals, so they are outside what this recorder can compare
  if (info.usesErrText) return [{ id: c.id, env: -1, skip: 'reads .message/.stack' }];
  const freeNames = Array.from(info.free).sort();
  // global lexical bindings are global variables too: those of the input and those the output may have added
  const lexSet = new Set(info.topLex);
  const pout = parseProgram(c.out);
  if (pout && !pout.module) { try { analyze(pout.ast, isStrictProgram(pout.ast)).topLex.forEach((n) => lexSet.add(n)); } catch (e) { } }
  info.topLex = Array.from(lexSet).sort();
  const nenv = c.nenv || 3;
  const loops = needsTimeout(c.in) || needsTimeout(c.out);
  const T = (x) => loops ? x : 0;
  for (let k = 0; k < nenv; k++) {
    tick();
    const env = makeEnv(freeNames, c.seed >>> 0, k, c.nobig);
    let probe = c.probe ? 1 : 0;
    let a = execute(c.in, env, info.topLex, probe, T(T_IN));
    if (a.timeout && a.inProbe && probe) { probe = 0; a = execute(c.in, env, info.topLex, probe, T(T_IN)); }
    if (a.syntax) { res.push({ id: c.id, env: k, skip: 'input rejected by V8: ' + a.msg }); break; }
    if (a.timeout) { res.push({ id: c.id, env: k, skip: 'input timeout' }); continue; }
    if (a.broken) { res.push({ id: c.id, env: k, skip: 'input observation broken' }); continue; }
    if (a.tdz) { res.push({ id: c.id, env: k, skip: 'input TDZ' }); continue; }
    if (a.stack) { res.push({ id: c.id, env: k, skip: 'input exhausts the stack' }); continue; }
    // determinism check: the second run of the input happens with less stack headroom (300 extra frames below it), so that
    // programs whose observation depends on WHERE the engine's stack overflows (catching RangeError of unbounded recursion) -
    // an engine resource limit, not program semantics; the minified text has other frame sizes - are recognised as
    // nondeterministic and stay outside the domain
    const a2 = withDepth(300, () => execute(c.in, env, info.topLex, probe, T(T_IN * 4)));
    if (!a2.obs || !sameObs(a.obs, a2.obs)) { res.push({ id: c.id, env: k, skip: 'input nondeterministic' }); continue; }
    let b = execute(c.out, env, info.topLex, probe, T(T_IN * 2));
    if (b.timeout) b = execute(c.out, env, info.topLex, probe, T(T_OUT));
    let bobs;
    if (b.syntax) bobs = { calls: [], globals: [], comp: ['throw', 'SyntaxError(early)', 's:' + JSON.stringify(b.msg), 'ok'] };
    else if (b.timeout) bobs = { calls: [], globals: [], comp: ['timeout', '', '', 'ok'] };
    else if (b.broken) bobs = { calls: [], globals: [], comp: ['broken', '', '', 'ok'] };
    else bobs = b.obs;
    res.push({ id: c.id, env: k, skip: '', nfree: env.bindings.length, a: a.obs, b: bobs });
  }
  // "programs whose input already throws a TDZ ReferenceError" are outside the domain: if the input raised one under ANY
  // environment (top level, host callback or probe call), the whole pair is skipped
  if (res.some((r) => r.skip === 'input TDZ')) return [{ id: c.id, env: -1, skip: 'input TDZ' }];
  return res;
}

// ---------------------------------------------------------------------------------------------------------
// promise rejections nobody handles are not part of the observation
process.on('unhandledRejection', () => { });
process.on('uncaughtException', (e) => { process.stderr.write('uncaught: ' + (e && e.stack || e) + '\n'); });

function main() {
  const [inp, outp] = process.argv.slice(2);
  const lines = fs.readFileSync(inp, 'utf8').split('\n').filter((l) => l.length > 0);
  const fd = fs.openSync(outp, 'w');
  let astmod = null;
  for (const l of lines) {
    const c = JSON.parse(l);
    // progress marker for the parent's watchdog: the pair being worked on (refreshed for every environment, see tick)
    PROGRESS = outp + '.progress';
    CURRENT = String(c.id);
    tick();
    let rs;
    try { rs = observePair(c); } catch (e) { rs = [{ id: c.id, env: -1, skip: 'runner error: ' + (e && e.stack || e) }]; }
    if (c.ast) {
      if (!astmod) astmod = require(path.join(__dirname, 'c01_ast.js'));
      try { rs.push(astmod.project(c, acorn, module.exports)); } catch (e) { rs.push({ id: c.id, env: -2, kind: 'ast', frag: false, skip: '', why: 'projector error: ' + (e && e.stack || e) }); }
    }
    fs.writeSync(fd, rs.map((r) => JSON.stringify(r)).join('\n') + '\n');
  }
  fs.closeSync(fd);
}
module.exports = { analyze, parseProgram, observePair, execute, makeEnv, BUILTINS, mulberry32, hashStr, tick, needsTimeout };
if (require.main === module) main();
