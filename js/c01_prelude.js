// C01 prelude: evaluated INSIDE every fresh vm context (same realm as the program under observation).
// It installs the deterministic environment and the observation recorder and returns an api object.
// Observation (property C01): (1) the sequence of calls into host functions with structurally serialised
// arguments, (2) the final values of global variables, (3) the completion.  Excluded by the property and
// therefore never serialised: function source text, .name/.length of functions, regular-expression source
// text, wording of engine error messages (messages of errors the PROGRAM constructs are kept).
(function () {
  'use strict';
  const G = globalThis;
  const KEY = Symbol.for('c01');
  const log = [];
  let tdzSeen = false;
  let BUDGET = 3000;
  const BUDGET_TOKEN = '__c01_budget__';
  const hostPaths = new WeakMap();      // host function/proxy -> path
  const userErrors = new WeakSet();     // errors constructed by the program (message is the program's)
  const intrinsicErr = [];              // [name, prototype]

  // ---- deterministic stubs -----------------------------------------------------------------
  function mulberry32(a) {
    return function () {
      a |= 0; a = a + 0x6D2B79F5 | 0;
      let t = Math.imul(a ^ a >>> 15, 1 | a);
      t = t + Math.imul(t ^ t >>> 7, 61 | t) ^ t;
      return ((t ^ t >>> 14) >>> 0) / 4294967296;
    };
  }
  function hashStr(s, h) {
    h = h >>> 0;
    for (let i = 0; i < s.length; i++) { h = Math.imul(h ^ s.charCodeAt(i), 16777619) >>> 0; }
    return h >>> 0;
  }
  {
    const r = mulberry32(12345);
    Math.random = function random() { return r(); };
    const RealDate = Date;
    const FIXED = 1600000000000;
    const D = function Date(...a) {
      if (new.target === undefined) return new RealDate(FIXED).toString();
      if (a.length === 0) return Reflect.construct(RealDate, [FIXED], new.target);
      return Reflect.construct(RealDate, a, new.target);
    };
    D.prototype = RealDate.prototype;
    D.now = function now() { return FIXED; };
    D.parse = RealDate.parse; D.UTC = RealDate.UTC;
    Object.defineProperty(RealDate.prototype, 'constructor', { value: D, writable: true, configurable: true, enumerable: false });
    G.Date = D;
  }
  for (const n of ['Error', 'TypeError', 'RangeError', 'SyntaxError', 'ReferenceError', 'EvalError', 'URIError', 'AggregateError']) {
    const orig = G[n];
    if (typeof orig !== 'function') continue;
    intrinsicErr.push([n, orig.prototype]);
    const p = new Proxy(orig, {
      construct(t, a, nt) { const e = Reflect.construct(t, a, nt === p ? t : nt); userErrors.add(e); return e; },
      apply(t, th, a) { const e = Reflect.apply(t, th, a); userErrors.add(e); return e; },
    });
    Object.defineProperty(G, n, { value: p, writable: true, configurable: true, enumerable: false });
  }
  // .stack is engine specific text with source positions: make it constant
  try { Error.stackTraceLimit = 0; Error.prepareStackTrace = function () { return ''; }; } catch (e) { }

  const intrinsicProtos = new Set();
  for (const k of Reflect.ownKeys(G)) {
    let v; try { v = G[k]; } catch (e) { continue; }
    if (typeof v === 'function' && typeof v.prototype === 'object' && v.prototype !== null) intrinsicProtos.add(v.prototype);
  }
  for (const x of [Object.getPrototypeOf(function* () { }).prototype, Object.getPrototypeOf(async function* () { }).prototype, Object.getPrototypeOf(Object.getPrototypeOf([][Symbol.iterator]())),
    Object.getPrototypeOf([][Symbol.iterator]()), Object.getPrototypeOf(async function () { }), Object.getPrototypeOf(function* () { })]) intrinsicProtos.add(x);
  // ---- structural serialisation ------------------------------------------------------------
  const REPROBE = ['', 'ab', 'a-b', 'a.b', 'aa', 'a\nb', 'abc', '\r\n', '\u2028', '\u00e9', 'a/b', '\\d', '\\\\'];
  for (let i = 0; i < 128; i++) REPROBE.push(String.fromCharCode(i));
  function errClass(e) {
    let p = Object.getPrototypeOf(e);
    let guard = 0;
    while (p && guard++ < 20) {
      for (const [n, proto] of intrinsicErr) if (proto === p) return n;
      p = Object.getPrototypeOf(p);
    }
    return null;
  }
  function ser(v, depth, seen) {
    switch (typeof v) {
      case 'undefined': return 'u';
      case 'boolean': return v ? 'T' : 'F';
      case 'number': return Object.is(v, -0) ? 'n:-0' : 'n:' + String(v);
      case 'bigint': return 'i:' + String(v);
      case 'string': return 's:' + JSON.stringify(v);
      case 'symbol': return 'y:' + String(v.description);
      case 'function':
        if (hostPaths.has(v)) return 'H:' + hostPaths.get(v);
        return 'fn';
    }
    if (v === null) return 'null';
    if (hostPaths.has(v)) return 'H:' + hostPaths.get(v);
    if (depth <= 0) return '...';
    if (seen.indexOf(v) >= 0) return 'cycle';
    seen = seen.concat([v]);
    try {
      const cls = errClass(v);
      if (cls !== null) {
        // domain decision only (never part of the observation): a temporal-dead-zone ReferenceError raised by the engine anywhere
        // in the run - top level, host callback, probe call - puts the INPUT outside the property's domain
        if (cls === 'ReferenceError' && !userErrors.has(v)) {
          try { const d = Object.getOwnPropertyDescriptor(v, 'message'); if (d && /before initialization/.test(String(d.value))) tdzSeen = true; } catch (x) { }
        }
        let s = 'E:' + cls;
        if (userErrors.has(v)) {
          const d = Object.getOwnPropertyDescriptor(v, 'message');
          if (d && 'value' in d) s += ':' + ser(d.value, depth - 1, seen);
        }
        return s;
      }
      if (Array.isArray(v)) {
        const n = Math.min(v.length, 40);
        const parts = [];
        for (let i = 0; i < n; i++) {
          const d = Object.getOwnPropertyDescriptor(v, i);
          parts.push(d === undefined ? 'hole' : ('value' in d ? ser(d.value, depth - 1, seen) : 'acc'));
        }
        if (v.length > n) parts.push('+' + (v.length - n));
        return '[' + parts.join(',') + ']';
      }
      const tag = Object.prototype.toString.call(v);
      if (tag === '[object RegExp]') {
        // source text of a regular expression is excluded by the property; its matching behaviour is not
        let s = 'R:' + String(RegExp.prototype.flags !== undefined ? Reflect.get(RegExp.prototype, 'flags', v) : '') + ':' + v.lastIndex;
        const li = v.lastIndex;
        const res = [];
        for (const p of REPROBE) {
          v.lastIndex = 0;
          const m = RegExp.prototype.exec.call(v, p);
          res.push(m === null ? '-' : m.index + ':' + JSON.stringify(Array.prototype.slice.call(m)));
        }
        v.lastIndex = li;
        // (compact: number of probes that matched + a hash of all match results)
        return s + ':' + res.filter((x) => x !== '-').length + ':' + hashStr(res.join('|'), 7).toString(16);
      }
      if (tag === '[object Date]') return 'D:' + Date.prototype.getTime.call(v);
      if (tag === '[object Boolean]' || tag === '[object Number]' || tag === '[object String]') return 'W' + tag + ser(v.valueOf(), 1, seen);
      if (tag === '[object Map]') { const p = []; Map.prototype.forEach.call(v, (val, k) => p.push(ser(k, depth - 1, seen) + '=>' + ser(val, depth - 1, seen))); return 'Map{' + p.join(',') + '}'; }
      if (tag === '[object Set]') { const p = []; Set.prototype.forEach.call(v, (val) => p.push(ser(val, depth - 1, seen))); return 'Set{' + p.join(',') + '}'; }
      if (tag === '[object Promise]') return 'Promise';
      if (tag === '[object Generator]') return 'Generator';
      const keys = Reflect.ownKeys(v);
      const parts = [];
      let cnt = 0;
      for (const k of keys) {
        if (cnt++ >= 40) { parts.push('+'); break; }
        const d = Object.getOwnPropertyDescriptor(v, k);
        if (!d) continue;
        const kn = typeof k === 'symbol' ? 'y:' + String(k.description) : JSON.stringify(k);
        if (!d.enumerable && typeof k !== 'symbol' && !('value' in d && typeof d.value === 'function')) { parts.push(kn + '~' + ('value' in d ? ser(d.value, depth - 1, seen) : 'acc')); continue; }
        parts.push(kn + ':' + ('value' in d ? ser(d.value, depth - 1, seen) : 'acc'));
      }
      const proto = Object.getPrototypeOf(v);
      const ptag = proto === Object.prototype ? '' : proto === null ? '^null' : '^obj';
      return '{' + parts.join(',') + '}' + ptag;
    } catch (e) {
      return 'unserialisable';
    }
  }
  const S = (v) => ser(v, 4, []);

  // domain decision only: a host interaction that happens with (almost) no stack left means the input is running into the
  // engine's stack limit (unbounded recursion whose RangeError it catches); WHERE the overflow strikes depends on the frame
  // sizes of the text, so such programs are not deterministic in the property's sense
  let stackSeen = false;
  function depthProbe(n) { return n <= 0 ? 0 : depthProbe(n - 1) + 1; }
  function record(entry) {
    if (!stackSeen) { try { depthProbe(400); } catch (e) { stackSeen = true; } }
    if (log.length >= BUDGET) throw BUDGET_TOKEN;
    log.push(entry);
  }

  // ---- environment values -------------------------------------------------------------------
  const POOL = [undefined, null, true, false, 0, 1, -1, 2, 0.5, NaN, -0, '', 'a', '1', 'abc', 7, 'x y', 3];
  let NOBIG = false;
  function poolValue(r) {
    const x = r();
    if (x < 0.02 && !NOBIG) return 10n;
    return POOL[Math.floor(r() * POOL.length)];
  }
  function callbackArgs(r) { return [poolValue(r), poolValue(r)]; }

  let cbDepth = 0;
  function runCallbacks(path, args, r) {
    // host functions call the functions they are given (deterministically), like a real host would
    if (cbDepth >= 3) return;
    for (let i = 0; i < args.length && i < 4; i++) {
      const f = args[i];
      if (typeof f === 'function' && !hostPaths.has(f)) {
        cbDepth++;
        try {
          const res = f.apply(undefined, callbackArgs(r));
          record(['cbret', path, S(res)]);
        } catch (e) {
          if (e === BUDGET_TOKEN) { cbDepth--; throw e; }
          record(['cbthrow', path, S(e)]);
        } finally { cbDepth--; }
      }
    }
  }

  function makeHostFn(path, seed) {
    const r = mulberry32(hashStr(path, seed));
    const f = function (...args) {
      record([new.target ? 'new' : 'call', path].concat(args.map(S)));
      runCallbacks(path, args, r);
      const v = poolValue(r);
      if (new.target) return undefined;
      return v;
    };
    hostPaths.set(f, path);
    return f;
  }

  function makeUniversal(path, seed, pObj, depth) {
    const r = mulberry32(hashStr(path, seed ^ 0x9e3779b9));
    const store = new Map();     // property overrides written by the program
    const kids = new Map();
    const target = (function () { }).bind();
    function child(kind, name) {
      const key = kind + name;
      if (kids.has(key)) return kids.get(key);
      const rr = mulberry32(hashStr(path + kind + name, seed));
      let v;
      if (depth < 6 && rr() < pObj) v = makeUniversal(path + kind + name, seed, pObj, depth + 1);
      else v = poolValue(rr);
      kids.set(key, v);
      return v;
    }
    let ncall = 0;
    const p = new Proxy(target, {
      apply(t, th, args) {
        record(['call', path].concat(args.map(S)));
        runCallbacks(path, args, r);
        return child('()', String(ncall++ % 3));
      },
      construct(t, args) {
        record(['new', path].concat(args.map(S)));
        runCallbacks(path, args, r);
        return makeUniversal(path + '{}', seed, pObj, depth + 1);
      },
      get(t, prop) {
        if (typeof prop === 'symbol') {
          if (prop === Symbol.toPrimitive) {
            return function (hint) {
              record(['prim', path, String(hint)]);
              const x = r();
              if (hint === 'string') return x < 0.5 ? 'abc' : '1';
              if (hint === 'number') return x < 0.3 ? 0 : x < 0.6 ? 1 : x < 0.8 ? -1 : NaN;
              return x < 0.25 ? 0 : x < 0.5 ? 1 : x < 0.75 ? 'abc' : '';
            };
          }
          if (prop === Symbol.iterator) {
            return function () {
              record(['iter', path]);
              return [child('[]', '0'), child('[]', '1')][Symbol.iterator]();
            };
          }
          return undefined;
        }
        if (store.has(prop)) { record(['get', path, prop]); return store.get(prop); }
        if (prop === 'then') return undefined;
        record(['get', path, prop]);
        if (prop === 'length') return 2;
        return child('.', prop);
      },
      set(t, prop, value) {
        if (typeof prop === 'symbol') return true;
        record(['set', path, prop, S(value)]);
        store.set(prop, value);
        return true;
      },
      has(t, prop) { return typeof prop !== 'symbol' && store.has(prop); },
      deleteProperty(t, prop) {
        if (typeof prop === 'symbol') return true;
        record(['delete', path, prop]);
        store.delete(prop);
        return true;
      },
      ownKeys() { return ['length', 'name', 'k0', 'k1']; },
      getOwnPropertyDescriptor(t, prop) {
        if (prop === 'k0' || prop === 'k1') return { value: child('.', prop), enumerable: true, configurable: true, writable: true };
        return Reflect.getOwnPropertyDescriptor(t, prop);
      },
      defineProperty(t, prop, desc) { if (typeof prop !== 'symbol' && 'value' in desc) { record(['set', path, prop, S(desc.value)]); store.set(prop, desc.value); } return true; },
      getPrototypeOf() { return Function.prototype; },
      setPrototypeOf() { return true; },
      preventExtensions() { return false; },
    });
    hostPaths.set(p, path);
    return p;
  }

  // ---- the environment values of the specification (spec/C01Ast.tla EnvVal, spec/JsCore.tla HostRet/HostGet/HostPrim)
  function specValue(name, k) {
    switch (k) {
      case 1: return undefined;
      case 2: return null;
      case 3: return 0;
      case 4: return 1;
      case 5: return 's';
      case 6: case 7: {
        const f = function (...args) { record(['call', name].concat(args.map(S))); return k === 6 ? 1 : undefined; };
        hostPaths.set(f, name);
        return f;
      }
      case 8: {
        const p = new Proxy({}, {
          get(t, prop) {
            if (prop === Symbol.toPrimitive) return function (hint) { record(['prim', name, String(hint)]); return hint === 'string' ? '1' : 1; };
            if (typeof prop === 'symbol') return undefined;
            record(['get', name, prop]);
            return 1;
          },
          set(t, prop, value) { if (typeof prop !== 'symbol') record(['set', name, prop, S(value)]); return true; },
          has() { return false; },
        });
        hostPaths.set(p, name);
        return p;
      }
      case 9: return false;
    }
    return undefined;
  }

  // ---- api ------------------------------------------------------------------------------------
  let envNames = [];
  let baseKeys = null;
  let baseVals = null;
  const api = {
    setup(specJson) {
      const spec = JSON.parse(specJson);
      BUDGET = spec.budget || BUDGET;
      NOBIG = !!spec.nobig;
      envNames = [];
      for (const b of spec.bindings) {
        let v;
        const seed = spec.seed;
        switch (b.kind) {
          case 'spec': v = specValue(b.name, b.k); break;
          case 'U': v = makeUniversal(b.name, seed, b.p, 0); break;
          case 'fn': v = makeHostFn(b.name, seed); break;
          case 'prim': v = POOL[b.i % POOL.length]; break;
          case 'big': v = 10n; break;
          case 'obj': {
            const r = mulberry32(hashStr(b.name, seed));
            v = { a: poolValue(r), b: poolValue(r), f: makeHostFn(b.name + '.f', seed), length: 2, 0: poolValue(r), 1: poolValue(r) };
            break;
          }
          case 'arr': { const r = mulberry32(hashStr(b.name, seed)); v = [poolValue(r), poolValue(r), poolValue(r)]; break; }
          default: v = undefined;
        }
        try {
          Object.defineProperty(G, b.name, { value: v, writable: true, configurable: true, enumerable: true });
          envNames.push(b.name);
        } catch (e) { }
      }
      baseKeys = new Set(Reflect.ownKeys(G));
      baseVals = new Map();
      for (const k of baseKeys) {
        if (typeof k === 'symbol') continue;
        const d = Object.getOwnPropertyDescriptor(G, k);
        if (d && 'value' in d) baseVals.set(k, d.value);
      }
      return true;
    },
    // epilogue: what a later script of the same realm could observe of the program's globals
    probe(lexJson, seed, level) {
      const lex = JSON.parse(lexJson);     // [[name, valueGetter-result]] supplied by the driver
      const r = mulberry32(seed >>> 0);
      const vals = [];
      const names = [];
      for (const k of Reflect.ownKeys(G)) {
        if (typeof k === 'symbol') continue;
        const d = Object.getOwnPropertyDescriptor(G, k);
        if (!d) continue;
        if (baseKeys.has(k) && !envNames.includes(k)) {
          if (!('value' in d) || !baseVals.has(k) || Object.is(baseVals.get(k), d.value)) continue;
        }
        names.push(k);
      }
      names.sort();
      for (const k of names) {
        const d = Object.getOwnPropertyDescriptor(G, k);
        vals.push([k, 'value' in d ? d.value : undefined, 'value' in d ? 'v' : 'acc']);
      }
      if (level > 0) {
        for (const [k, v] of vals) probeValue(k, v, r, 0);
        for (const k of lex) {
          let v, ok = true;
          try { v = api.lexget(k); } catch (e) { ok = false; }
          if (ok) probeValue('lex:' + k, v, r, 0);
        }
      }
      return true;
    },
    lexget: (function () { const ev = G.eval; return function (k) { return ev(k); }; })(),
    snapshot(lexJson) {
      const lex = JSON.parse(lexJson);
      const out = [];
      const names = [];
      for (const k of Reflect.ownKeys(G)) {
        if (typeof k === 'symbol') continue;
        const d = Object.getOwnPropertyDescriptor(G, k);
        if (!d) continue;
        if (baseKeys.has(k) && !envNames.includes(k)) {
          if (!('value' in d) || !baseVals.has(k) || Object.is(baseVals.get(k), d.value)) continue;
        }
        names.push(k);
      }
      names.sort();
      for (const k of names) {
        const d = Object.getOwnPropertyDescriptor(G, k);
        out.push([k, 'value' in d ? S(d.value) : 'acc']);
      }
      for (const k of lex) {
        let s;
        try { s = S(api.lexget(k)); } catch (e) { s = 'unreadable:' + S(e); }
        out.push(['lex:' + k, s]);
      }
      return JSON.stringify({ calls: log, globals: out, tdz: tdzSeen, stack: stackSeen });
    },
    serThrown(e) {
      if (e === BUDGET_TOKEN) return JSON.stringify(['throw', 'budget', '']);
      // node itself inspects and decorates a thrown value (reads .stack/.code, writes .stack) after the program has ended: when the thrown value is a
      // logging host object these reads are the runner's, not the program's
      if ((typeof e === 'object' || typeof e === 'function') && e !== null && hostPaths.has(e)) {
        const hp = hostPaths.get(e);
        while (log.length > 0) {
          const last = log[log.length - 1];
          if ((last[0] === 'get' || last[0] === 'set') && last[1] === hp && (last[2] === 'stack' || last[2] === 'code')) log.pop(); else break;
        }
      }
      const cls = (typeof e === 'object' && e !== null) ? errClass(e) : null;
      let msg = '';
      if (cls !== null && !userErrors.has(e)) {
        try { msg = String(Object.getOwnPropertyDescriptor(e, 'message').value); } catch (x) { }
      }
      // the class and the structural value are the observation; msg is only used by the driver to recognise
      // temporal-dead-zone errors of the INPUT (outside the property's domain), never compared
      return JSON.stringify(['throw', cls === null ? 'value' : cls, S(e), msg]);
    },
    logLength() { return log.length; },
  };

  function probeValue(name, v, r, depth) {
    if (depth > 2) return;
    if (typeof v === 'function') {
      if (hostPaths.has(v)) return;
      for (let k = 0; k < 2; k++) {
        const args = [poolValue(r), poolValue(r), poolValue(r)];
        let res, ok = true;
        try { res = v.apply(undefined, args); } catch (e) { if (e === BUDGET_TOKEN) throw e; ok = false; record(['probethrow', name].concat(args.map(S), [S(e)])); }
        if (ok) {
          record(['probe', name].concat(args.map(S), [S(res)]));
          probeResult(name + '()', res, r, depth + 1);
        }
      }
      let proto;
      try { proto = v.prototype; } catch (e) { }
      if (typeof proto === 'object' && proto !== null) {
        const args = [poolValue(r), poolValue(r)];
        let inst, ok = true;
        try { inst = Reflect.construct(v, args); } catch (e) { if (e === BUDGET_TOKEN) throw e; ok = false; record(['newthrow', name].concat(args.map(S), [S(e)])); }
        if (ok) {
          record(['newprobe', name].concat(args.map(S), [S(inst)]));
          if (typeof inst === 'object' && inst !== null && !hostPaths.has(inst)) {
            let p = Object.getPrototypeOf(inst), g = 0;
            while (p && !intrinsicProtos.has(p) && g++ < 3) {
              for (const k of Reflect.ownKeys(p)) {
                if (typeof k === 'symbol' || k === 'constructor') continue;
                const d = Object.getOwnPropertyDescriptor(p, k);
                if (d && typeof d.value === 'function' && !hostPaths.has(d.value)) {
                  const a2 = [poolValue(r), poolValue(r)];
                  try { const res = d.value.apply(inst, a2); record(['method', name + '#' + k].concat(a2.map(S), [S(res)])); probeResult(name + '#' + k + '()', res, r, depth + 2); }
                  catch (e) { if (e === BUDGET_TOKEN) throw e; record(['methodthrow', name + '#' + k].concat(a2.map(S), [S(e)])); }
                } else if (d && typeof d.get === 'function') {
                  try { const res = d.get.call(inst); record(['getter', name + '#' + k, S(res)]); }
                  catch (e) { if (e === BUDGET_TOKEN) throw e; record(['getterthrow', name + '#' + k, S(e)]); }
                }
              }
              p = Object.getPrototypeOf(p);
            }
            record(['after', name, S(inst)]);
          }
        }
      }
      // static members
      for (const k of Reflect.ownKeys(v)) {
        if (typeof k === 'symbol' || k === 'prototype' || k === 'length' || k === 'name' || k === 'arguments' || k === 'caller') continue;
        const d = Object.getOwnPropertyDescriptor(v, k);
        if (d && 'value' in d) { record(['static', name + '.' + k, S(d.value)]); if (typeof d.value === 'function') probeValue(name + '.' + k, d.value, r, depth + 1); }
      }
    } else if (typeof v === 'object' && v !== null && !hostPaths.has(v)) {
      let cnt = 0;
      let keys;
      try { keys = Reflect.ownKeys(v); } catch (e) { return; }
      for (const k of keys) {
        if (typeof k === 'symbol' || cnt++ > 12) continue;
        let d;
        try { d = Object.getOwnPropertyDescriptor(v, k); } catch (e) { continue; }
        if (d && typeof d.value === 'function' && !hostPaths.has(d.value)) {
          const args = [poolValue(r), poolValue(r)];
          try { const res = d.value.apply(v, args); record(['method', name + '.' + k].concat(args.map(S), [S(res)])); probeResult(name + '.' + k + '()', res, r, depth + 1); }
          catch (e) { if (e === BUDGET_TOKEN) throw e; record(['methodthrow', name + '.' + k].concat(args.map(S), [S(e)])); }
        } else if (d && typeof d.get === 'function') {
          try { const res = d.get.call(v); record(['getter', name + '.' + k, S(res)]); }
          catch (e) { if (e === BUDGET_TOKEN) throw e; record(['getterthrow', name + '.' + k, S(e)]); }
        } else if (d && typeof d.value === 'object' && d.value !== null && depth < 1) {
          probeValue(name + '.' + k, d.value, r, depth + 1);
        }
      }
    }
  }
  function probeResult(name, res, r, depth) {
    if (depth > 2) return;
    if (typeof res === 'function') { probeValue(name, res, r, depth); return; }
    if (typeof res !== 'object' || res === null || hostPaths.has(res)) return;
    const tag = Object.prototype.toString.call(res);
    if (tag === '[object Generator]') {
      for (let i = 0; i < 6; i++) {
        let st;
        try { st = res.next(poolValue(r)); } catch (e) { if (e === BUDGET_TOKEN) throw e; record(['genthrow', name, S(e)]); break; }
        record(['gen', name, S(st.value), st.done ? 'done' : 'more']);
        if (st.done) break;
      }
    } else if (tag === '[object Promise]') {
      Promise.prototype.then.call(res, (v) => { try { record(['resolved', name, S(v)]); } catch (e) { } }, (e) => { try { record(['rejected', name, S(e)]); } catch (x) { } });
    } else if (tag === '[object Object]' && depth < 2) {
      probeValue(name, res, r, depth + 1);
    }
  }

  Object.defineProperty(G, KEY, { value: api, enumerable: false, configurable: true, writable: false });
  return api;
})()
