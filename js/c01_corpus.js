// C01: real-world functions from tests/js/corpus as standalone programs.
//   node --expose-internals c01_corpus.js <out.ndjson> <file.js>...
// Every function declaration / function expression / arrow function of the corpus files (found with acorn) whose
// source is 40..1200 characters becomes the program  `var t=<function source>`; its free identifiers are bound by
// the environments of c01_run.js and the probes call it - so library code is really executed, which running the
// UMD wrappers of the libraries at top level does not achieve.
'use strict';
const fs = require('fs');
const acorn = require('internal/deps/acorn/acorn/dist/acorn');
const out = fs.openSync(process.argv[2], 'w');
const seen = new Set();
function visit(n, src, depth) {
  if (!n || typeof n.type !== 'string') return;
  if ((n.type === 'FunctionDeclaration' || n.type === 'FunctionExpression' || n.type === 'ArrowFunctionExpression') && !n.generator && !n.async) {
    const text = src.slice(n.start, n.end);
    if (text.length >= 40 && text.length <= 1200 && !seen.has(text)) {
      seen.add(text);
      const prog = 'var t=' + (n.type === 'ArrowFunctionExpression' ? '(' + text + ')' : text);
      fs.writeSync(out, JSON.stringify({ src: prog }) + '\n');
    }
  }
  for (const k of Object.keys(n)) {
    if (k === 'type' || k === 'start' || k === 'end') continue;
    const c = n[k];
    if (Array.isArray(c)) c.forEach((x) => visit(x, src, depth + 1));
    else if (c && typeof c.type === 'string') visit(c, src, depth + 1);
  }
}
for (const f of process.argv.slice(3)) {
  const src = fs.readFileSync(f, 'utf8');
  let ast;
  try { ast = acorn.parse(src, { ecmaVersion: 2022, sourceType: 'script', allowHashBang: true }); } catch (e) { continue; }
  visit(ast, src, 0);
}
fs.closeSync(out);
