// c16_features.js: independent projection of JavaScript source for property C16 (options).
// usage: node --expose-internals c16_features.js <trace-in.ndjson> <trace-out.ndjson>
// Every line with lang == "js" gets, for its input ("in") and output ("out") text:
//   fi/fo   syntax features present (names of the table FeatureYear in spec/Options.tla)
//   idi/ido identifier spellings in binding or reference position (not property names, not labels)
//   dci/dco spellings in binding (declaring) position
//   ni/no   numeric literal lexemes in source order (arrays of byte codes)
//   pvi/pvo least ECMAScript edition in {5,2015..2022} at which acorn accepts the text (9999: none)
//   tierr/toerr  acorn (latest edition) rejects the text
//   sk/sk0  (only when out0 is present: output under Precision = 0) token skeletons of out and out0: every token as
//           "label:text", numeric literals (not BigInt) replaced by "#"; no0: the numeric literal lexemes of out0
// Parser: the acorn bundled with Node (independent of the code under test).  Nothing is judged here.
'use strict';
const fs = require('fs');
const acorn = require('internal/deps/acorn/acorn/dist/acorn');

const EDITIONS = [5, 2015, 2016, 2017, 2018, 2019, 2020, 2021, 2022];

function minEdition(src) {
  for (const v of EDITIONS) {
    try { acorn.parse(src, {ecmaVersion: v, sourceType: 'script'}); return v; } catch (e) { /* next */ }
  }
  return 9999;
}

function bytes(s) { return Array.from(Buffer.from(s, 'utf8')); }

function skeleton(src) {
  const sk = [], nums = [];
  try {
    for (const t of acorn.tokenizer(src, {ecmaVersion: 'latest', sourceType: 'script'})) {
      const raw = src.slice(t.start, t.end);
      if (t.type.label === 'num' && !/n$/.test(raw)) { sk.push('#'); nums.push(raw); }
      else sk.push(t.type.label + ':' + raw);
    }
  } catch (e) { return {err: true, sk: [], nums: []}; }
  return {err: false, sk, nums: nums.map(bytes)};
}

function project(src) {
  const feats = new Set(), ids = new Set(), decls = new Set(), nums = [];
  let ast;
  try {
    ast = acorn.parse(src, {ecmaVersion: 'latest', sourceType: 'script', onToken: (t) => {
      if (t.type.label === 'num') {
        const raw = src.slice(t.start, t.end);
        nums.push(raw);
        if (/^0[bBoO]/.test(raw)) feats.add('binoctal');
        if (raw.includes('_')) feats.add('numsep');
        if (/n$/.test(raw)) feats.add('bigint');
      }
    }});
  } catch (e) {
    return {err: true, feats: [], ids: [], decls: [], nums: [], pv: 9999};
  }
  function declare(p) { // binding pattern
    if (!p) return;
    switch (p.type) {
      case 'Identifier': decls.add(p.name); break;
      case 'ObjectPattern': p.properties.forEach((q) => declare(q.type === 'RestElement' ? q.argument : q.value)); break;
      case 'ArrayPattern': p.elements.forEach(declare); break;
      case 'RestElement': declare(p.argument); break;
      case 'AssignmentPattern': declare(p.left); break;
    }
  }
  function walk(n, parent, key) {
    if (!n || typeof n.type !== 'string') return;
    switch (n.type) {
      case 'Identifier': {
        let isName = true;
        if (parent) {
          if (parent.type === 'MemberExpression' && key === 'property' && !parent.computed) isName = false;
          if ((parent.type === 'Property' || parent.type === 'MethodDefinition' || parent.type === 'PropertyDefinition') &&
              key === 'key' && !parent.computed && !parent.shorthand) isName = false;
          if (parent.type === 'LabeledStatement' && key === 'label') isName = false;
          if ((parent.type === 'BreakStatement' || parent.type === 'ContinueStatement') && key === 'label') isName = false;
          if (parent.type === 'MetaProperty') isName = false;
        }
        if (isName) ids.add(n.name);
        break;
      }
      case 'ArrowFunctionExpression': feats.add('arrow'); break;
      case 'ClassDeclaration': case 'ClassExpression': feats.add('class'); if (n.id) decls.add(n.id.name); break;
      case 'TemplateLiteral': feats.add('template'); break;
      case 'VariableDeclaration': if (n.kind !== 'var') feats.add('letconst'); n.declarations.forEach((d) => declare(d.id)); break;
      case 'ForOfStatement': feats.add('forof'); if (n.await) feats.add('forawait'); break;
      case 'YieldExpression': feats.add('generator'); break;
      case 'AssignmentPattern': feats.add('assignpattern'); break;
      case 'RestElement': feats.add(parent && parent.type === 'ObjectPattern' ? 'objrest' : 'rest'); break;
      case 'SpreadElement': feats.add(parent && parent.type === 'ObjectExpression' ? 'objspread' : 'spread'); break;
      case 'ObjectPattern': case 'ArrayPattern': feats.add('destructuring'); break;
      case 'Property':
        // `{a}` inside a binding/assignment pattern is the basic form of ES2015 destructuring (SingleNameBinding), not a
        // feature of its own: only object LITERAL shorthand counts as `shorthandprop`
        if (n.shorthand && !(parent && parent.type === 'ObjectPattern')) feats.add('shorthandprop');
        if (n.method) feats.add('method');
        if (n.computed) feats.add('computedkey');
        break;
      case 'MetaProperty': feats.add(n.meta.name === 'new' ? 'newtarget' : 'importmeta'); break;
      case 'Super': feats.add('super'); break;
      case 'BinaryExpression': if (n.operator === '**') feats.add('exp'); break;
      case 'AssignmentExpression':
        if (n.operator === '**=') feats.add('exp');
        if (n.operator === '||=' || n.operator === '&&=' || n.operator === '??=') feats.add('logicalassign');
        break;
      case 'AwaitExpression': feats.add('async'); break;
      case 'CatchClause': if (!n.param) feats.add('optcatch'); else declare(n.param); break;
      case 'LogicalExpression': if (n.operator === '??') feats.add('nullish'); break;
      case 'ChainExpression': feats.add('optchain'); break;
      case 'ImportExpression': feats.add('dynimport'); break;
      case 'PropertyDefinition': feats.add('classfield'); break;
      case 'PrivateIdentifier': feats.add('private'); break;
      case 'StaticBlock': feats.add('staticblock'); break;
    }
    if (n.type === 'FunctionDeclaration' || n.type === 'FunctionExpression' || n.type === 'ArrowFunctionExpression') {
      if (n.generator) feats.add('generator');
      if (n.async) feats.add('async');
      if (n.id) decls.add(n.id.name);
      n.params.forEach(declare);
    }
    for (const k of Object.keys(n)) {
      if (k === 'type' || k === 'start' || k === 'end' || k === 'loc' || k === 'range') continue;
      const v = n[k];
      if (Array.isArray(v)) v.forEach((c) => walk(c, n, k));
      else if (v && typeof v.type === 'string') walk(v, n, k);
    }
  }
  walk(ast, null, null);
  return {err: false, feats: [...feats].sort(), ids: [...ids].sort(), decls: [...decls].sort(),
          nums: nums.map(bytes), pv: minEdition(src)};
}

const out = fs.openSync(process.argv[3], 'w');
for (const line of fs.readFileSync(process.argv[2], 'utf8').split('\n')) {
  if (!line) continue;
  const e = JSON.parse(line);
  if (e.lang === 'js' && e.mode === 'lib') {
    const a = project(e.in), b = project(e.out);
    e.tierr = a.err; e.toerr = b.err;
    e.fi = a.feats; e.fo = b.feats; e.idi = a.ids; e.ido = b.ids; e.dci = a.decls; e.dco = b.decls;
    e.ni = a.nums; e.no = b.nums; e.pvi = a.pv; e.pvo = b.pv;
    e.sk = []; e.sk0 = []; e.no0 = []; e.nos = [];
    if (e.out0) {
      const x = skeleton(e.out), y = skeleton(e.out0);
      e.toerr = e.toerr || x.err || y.err;
      e.sk = x.sk; e.sk0 = y.sk; e.nos = x.nums; e.no0 = y.nums;
    }
  }
  fs.writeSync(out, JSON.stringify(e) + '\n');
}
fs.closeSync(out);
