// C01 spec recorder, projection side: acorn ESTree -> JsCore nodes <<t, s, kids, n, x>>, and V8 observations of the
// same program pair under environments of the spec's environment space (spec/C01Ast.tla: EnvVal) for the cross-check
// of the TLA+ semantics against the engine.
'use strict';
const FILL = ['empty', '', [], 0, []];
const N = (t, s, kids, n, x) => [t, s || '', kids || [], n || 0, x || []];
class Outside extends Error { }
const out = (why) => { throw new Outside(why); };
const codes = (s) => Array.from(s).map((ch) => { const c = ch.codePointAt(0); if (c > 126 || c < 32) out('non-ascii'); return c; });

const BINOPS = new Set(['==', '!=', '===', '!==', '+', '-', '<', '>', '<=', '>=']);
function expr(n) {
  switch (n.type) {
    case 'Identifier':
      if (n.name === 'Infinity' || n.name === 'arguments' || n.name === 'eval') out('identifier ' + n.name);
      return N('id', n.name);
    case 'Literal':
      if (n.regex || n.bigint !== undefined) out('literal');
      if (n.value === null) return N('lit', 'null');
      if (n.value === true) return N('lit', 'T');
      if (n.value === false) return N('lit', 'F');
      if (typeof n.value === 'number') {
        if (!Number.isInteger(n.value) || Math.abs(n.value) > 99999 || Object.is(n.value, -0)) out('number');
        return N('lit', 'n', [], n.value);
      }
      if (typeof n.value === 'string') {
        if (!/^[A-Za-z0-9 _-]*$/.test(n.value)) out('string');
        return N('lit', 's', [], 0, codes(n.value));
      }
      return out('literal');
    case 'UnaryExpression':
      if (!['!', '-', '+', 'typeof', 'void'].includes(n.operator)) out('unary ' + n.operator);
      return N('un', n.operator, [expr(n.argument)]);
    case 'BinaryExpression':
      if (!BINOPS.has(n.operator)) out('binary ' + n.operator);
      return N('bin', n.operator, [expr(n.left), expr(n.right)]);
    case 'LogicalExpression': return N('log', n.operator, [expr(n.left), expr(n.right)]);
    case 'ConditionalExpression': return N('cond', '', [expr(n.test), expr(n.consequent), expr(n.alternate)]);
    case 'SequenceExpression': return N('seq', '', n.expressions.map(expr));
    case 'AssignmentExpression':
      if (n.operator !== '=') out('assignment ' + n.operator);
      if (n.left.type === 'Identifier') return N('asg', '=', [N('id', n.left.name), expr(n.right)]);
      if (n.left.type === 'MemberExpression' && !n.left.computed && !n.left.optional) return N('asg', '=', [expr(n.left), expr(n.right)]);
      return out('assignment target');
    case 'CallExpression':
      if (n.arguments.some((a) => a.type === 'SpreadElement')) out('spread');
      if (n.callee.type === 'Super' || n.callee.type === 'Import') out('callee');
      return N('call', '', [expr(n.callee)].concat(n.arguments.map(expr)), n.optional ? 1 : 0);
    case 'MemberExpression':
      if (n.object.type === 'Super') out('super');
      if (n.computed) { if (n.optional) out('optional index'); return N('idx', '', [expr(n.object), expr(n.property)]); }
      if (n.property.type !== 'Identifier') out('private name');
      return N('mem', n.property.name, [expr(n.object)], n.optional ? 1 : 0);
    case 'ChainExpression': return N('chain', '', [expr(n.expression)]);
    default: return out(n.type);
  }
}
function block(n) { return N('block', '', n.body.map(stmt)); }
function stmt(n) {
  switch (n.type) {
    case 'ExpressionStatement': return N('expr', '', [expr(n.expression)]);
    case 'IfStatement': return N('if', '', n.alternate ? [expr(n.test), stmt(n.consequent), stmt(n.alternate)] : [expr(n.test), stmt(n.consequent)]);
    case 'ReturnStatement': return N('ret', '', n.argument ? [expr(n.argument)] : []);
    case 'ThrowStatement': return N('throw', '', [expr(n.argument)]);
    case 'VariableDeclaration':
      if (n.kind === 'const') out('const');
      return N('var', n.kind, n.declarations.map((d) => { if (d.id.type !== 'Identifier') out('pattern'); return N('decl', d.id.name, d.init ? [expr(d.init)] : []); }));
    case 'BlockStatement': return block(n);
    case 'EmptyStatement': return FILL;
    case 'BreakStatement': if (n.label) out('label'); return N('break');
    case 'ContinueStatement': if (n.label) out('label'); return N('cont');
    case 'ForStatement':
      return N('for', '', [n.init ? (n.init.type === 'VariableDeclaration' ? stmt(n.init) : expr(n.init)) : FILL, n.test ? expr(n.test) : FILL,
        n.update ? expr(n.update) : FILL, stmt(n.body)]);
    case 'WhileStatement': return N('while', '', [expr(n.test), stmt(n.body)]);
    case 'TryStatement':
      if (n.finalizer || !n.handler) out('finally');
      if (n.handler.param && n.handler.param.type !== 'Identifier') out('catch pattern');
      return N('try', '', [block(n.block), n.handler.param ? N('id', n.handler.param.name) : FILL, block(n.handler.body)]);
    case 'FunctionDeclaration':
      if (n.generator || n.async) out('generator/async');
      if (n.params.some((p) => p.type !== 'Identifier')) out('parameter pattern');
      return N('func', n.id.name, [N('params', '', n.params.map((p) => N('id', p.name))), block(n.body)]);
    default: return out(n.type);
  }
}
function program(ast) {
  let strict = false;
  for (const s of ast.body) { if (s.type === 'ExpressionStatement' && typeof s.directive === 'string') { if (s.directive === 'use strict') strict = true; } else break; }
  // function-level "use strict" directives change the mode of that function only: outside the model
  (function walk(n, top) {
    if (!n || typeof n.type !== 'string') return;
    if (!top && n.type === 'ExpressionStatement' && typeof n.directive === 'string') out('inner directive');
    for (const k of Object.keys(n)) { const c = n[k]; if (Array.isArray(c)) c.forEach((x) => walk(x, false)); else if (c && typeof c.type === 'string' && k !== 'loc') walk(c, false); }
  })({ type: 'X', body: ast.body.map((s) => s.type === 'FunctionDeclaration' ? s.body : null) }, true);
  return N('prog', strict ? 'strict' : '', ast.body.map(stmt));
}

// V8 observation -> vocabulary of JsCore.Run
function atom(s) {
  if (s.startsWith('H:')) return [[72, 58], s.slice(2)];
  if (s.startsWith('E:')) { if (s.indexOf(':', 2) >= 0) out('user error'); return [[69, 58], s.slice(2)]; }
  return [Array.from(s).map((ch) => ch.codePointAt(0)), ''];
}
function convObs(o) {
  const calls = o.calls.map((e) => {
    if (e[0] === 'call') return ['call', e[1]].concat(e.slice(2).map(atom));
    if (e[0] === 'set') return ['set', e[1], e[2], atom(e[3])];
    return e;
  });
  // (global lexical bindings that were never initialised are not globals of the run)
  const globals = o.globals.filter(([nm, v]) => !v.startsWith('unreadable:')).map(([nm, v]) => nm.startsWith('lex:') ? [nm.slice(4), 'lex', atom(v)] : [nm, 'var', atom(v)]);
  let comp;
  if (o.comp[0] === 'normal') comp = ['normal', '', []];
  else if (o.comp[0] === 'throw') comp = ['throw', o.comp[1], o.comp[1] === 'SyntaxError(early)' ? [] : atom(o.comp[2])[0]];
  else comp = [o.comp[0], '', []];
  if (o.comp[0] === 'throw' && o.comp[1] === 'SyntaxError(early)') comp = ['syntax', '', []];
  return { calls, globals, comp };
}

const SPEC_BUILTINS = new Set(['undefined', 'NaN', 'isNaN']);
const NENV = 10;
function project(c, acorn, run) {
  const res = { id: c.id, env: -2, kind: 'ast', frag: false, skip: '' };
  try {
    const pin = run.parseProgram(c.in), pout = run.parseProgram(c.out);
    if (!pin || pin.module) out('input not a script');
    if (!pout || pout.module) out('output not a script');
    const info = run.analyze(pin.ast, false);
    if (info.usesEval || info.annexB || info.tdzStatic) out('domain');
    const free = Array.from(info.free).filter((n) => !SPEC_BUILTINS.has(n)).sort();
    const infoOut = run.analyze(pout.ast, false);
    for (const n of infoOut.free) if (!SPEC_BUILTINS.has(n) && !free.includes(n)) out('output has new free name ' + n);
    for (const n of free) if (run.BUILTINS.has(n)) out('builtin ' + n);
    // the environment space varies at most three free names (a, b, ... in alphabetical order); `out` is the sink
    // (logging host function) and the other free names stay undeclared
    const vary = free.filter((n) => n !== 'out').slice(0, c.maxvary || 3);
    res.inp = program(pin.ast);
    res.outp = program(pout.ast);
    res.free = free;
    res.vary = vary;
    // V8 under some environments of the spec's space
    const vectors = [];
    const r = run.mulberry32(run.hashStr('specenv', c.seed >>> 0) ^ c.id);
    const pick = (n, k) => n === 'out' ? 7 : (vary.includes(n) ? k : 10);
    vectors.push(free.map((n) => pick(n, 6))); vectors.push(free.map((n) => pick(n, 8))); vectors.push(free.map((n) => pick(n, 1)));
    for (let i = 0; i < (c.nspec || 3); i++) vectors.push(free.map((n) => pick(n, 1 + Math.floor(r() * NENV))));
    const seen = new Set();
    res.v8 = [];
    const lex = Array.from(new Set(info.topLex.concat(infoOut.topLex))).sort();
    for (const ks of vectors) {
      run.tick();
      const key = ks.join(',');
      if (seen.has(key)) continue;
      seen.add(key);
      const env = { seed: 1, budget: 3000, spec: true, bindings: free.map((name, i) => ({ name, kind: 'spec', k: ks[i] })).filter((b) => b.k !== 10) };
      const loops = run.needsTimeout(c.in) || run.needsTimeout(c.out);
      const a = run.execute(c.in, env, lex, 0, loops ? 200 : 0);
      if (!a.obs || a.tdz || a.stack) continue;      // outside the domain under this environment
      let b = run.execute(c.out, env, lex, 0, loops ? 10000 : 0);
      let bobs;
      if (b.syntax) bobs = { calls: [], globals: [], comp: ['throw', 'SyntaxError(early)', '', 'ok'] };
      else if (!b.obs) continue;
      else bobs = b.obs;
      res.v8.push({ env: ks, a: convObs(a.obs), b: convObs(bobs) });
    }
    res.frag = true;
  } catch (e) {
    if (!(e instanceof Outside)) throw e;
    res.why = e.message;
  }
  return res;
}
module.exports = { project };
