// C01 generators: which of the given snippets are syntactically valid scripts (acorn, sloppy mode)?
//   node --expose-internals c01_syntax.js <in.json: array of strings> <out.json: array of booleans>
'use strict';
const fs = require('fs');
const acorn = require('internal/deps/acorn/acorn/dist/acorn');
const xs = JSON.parse(fs.readFileSync(process.argv[2], 'utf8'));
const ok = xs.map((s) => { try { acorn.parse(s, { ecmaVersion: 2022, sourceType: 'script' }); return true; } catch (e) { return false; } });
fs.writeFileSync(process.argv[3], JSON.stringify(ok));
