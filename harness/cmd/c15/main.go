// c15: replays registration histories and media type queries on a real minify.M (property C15).
//
// Input : ndjson behaviours
//
//	{"id":n,"items":[{"k":"Add|AddFunc|AddCmd|AddRegexp|AddFuncRegexp|AddCmdRegexp","lit":[bytes],"pat":p,"cmd":c}
//	               | {"op":"Match|Minify|MinifyMimetype","q":[bytes],"inp":[bytes]} ...]}
//
// Output: one ndjson line per behaviour {"id":n,"steps":[...]} with one uniform record per action,
// holding what the real code returned after that action (see spec/C15Trace.tla).
//
// The minifiers are recording stubs (ordinary minify.Minifier / minify.MinifierFunc values) and
// real external commands (sh -c ...) for AddCmd/AddCmdRegexp.  Nothing here decides anything:
// the relation is evaluated by TLC on the recorded steps.
package main

import (
	"bytes"
	"encoding/json"
	"errors"
	"fmt"
	"io"
	"os"
	"os/exec"
	"regexp"
	"runtime"
	"sort"
	"strconv"
	"sync"
	"sync/atomic"
	"syscall"

	"github.com/tdewolff/minify/v2"
	"github.com/tdewolff/parse/v2"
	"verifharness/lib"
)

// index -> concrete regular expression (meaning in spec/Registry.tla PatMatch)
var patSrc = []string{"", `^text/`, `[/+]xml$`, `.*`, `^(application|text)/(x-)?(java|ecma)script$`, `image/.*`, `[/+]json$`}

// one action: a registration (K set) or a query (Op set)
type Item struct {
	K   string    `json:"k"`
	Lit lib.Bytes `json:"lit"`
	Pat int       `json:"pat"`
	Cmd int       `json:"cmd"`
	Op  string    `json:"op"`
	Q   lib.Bytes `json:"q"`
	Inp lib.Bytes `json:"inp"`
}
type Case struct {
	ID    int    `json:"id"`
	Items []Item `json:"items"`
}

type KV [2]lib.Bytes

type Step struct {
	Op      string    `json:"op"`
	Sid     int       `json:"sid"`     // stub id given to this registration (its position in the history)
	Lit     lib.Bytes `json:"lit"`     // registered literal mimetype
	Pat     int       `json:"pat"`     // registered pattern index
	Cmd     int       `json:"cmd"`     // command form 0 none 1 stdin/stdout 2 $in 3 $in $out 4 $in.txt --o=$out.txt
	Q       lib.Bytes `json:"q"`       // media type string of the query
	Inp     lib.Bytes `json:"inp"`     // bytes offered on the reader
	RPat    lib.Bytes `json:"rpat"`    // Match: returned pattern string
	RNil    bool      `json:"rnil"`    // Match: returned func is nil
	RParams []KV      `json:"rparams"` // Match: returned params (sorted by key)
	Ran     int       `json:"ran"`     // id of the stub/command that ran (0 none)
	NRan    int       `json:"nran"`    // how many stub invocations happened during this action
	GParams []KV      `json:"gparams"` // params the stub received (sorted by key)
	GIn     lib.Bytes `json:"gin"`     // bytes the stub read
	Out     lib.Bytes `json:"out"`     // bytes written to the writer
	Err     string    `json:"err"`     // nil | notexist | stub | other
	ErrID   int       `json:"errid"`   // id carried by a stub error
	PMime   lib.Bytes `json:"pmime"`   // parse.Mediatype(q) called directly (oracle cross-check of Split)
	PParams []KV      `json:"pparams"`
	Msg     string    `json:"msg"`
}

type stubErr struct{ id int }

func (e *stubErr) Error() string { return "stub " + strconv.Itoa(e.id) + " failed" }

type call struct {
	id     int
	params []KV
	in     []byte
}
type recorder struct {
	mu    sync.Mutex
	calls []call
}

func kvs(m map[string]string) []KV {
	out := []KV{}
	keys := make([]string, 0, len(m))
	for k := range m {
		keys = append(keys, k)
	}
	sort.Strings(keys)
	for _, k := range keys {
		out = append(out, KV{lib.Bytes(k), lib.Bytes(m[k])})
	}
	return out
}

func (rec *recorder) run(id int, w io.Writer, r io.Reader, params map[string]string) error {
	in, err := io.ReadAll(r)
	if err != nil {
		return err
	}
	rec.mu.Lock()
	rec.calls = append(rec.calls, call{id, kvs(params), in})
	rec.mu.Unlock()
	if len(in) > 0 && in[0] == 'E' {
		w.Write([]byte("P"))
		return &stubErr{id}
	}
	w.Write([]byte("F" + strconv.Itoa(id) + ":"))
	w.Write(in)
	return nil
}

// a Minifier value (Add / AddRegexp)
type stubMinifier struct {
	id  int
	rec *recorder
}

func (s *stubMinifier) Minify(_ *minify.M, w io.Writer, r io.Reader, params map[string]string) error {
	return s.rec.run(s.id, w, r, params)
}

// tagDir holds one file per stub id containing "C<id>:"; the commands are plain `cat` processes that
// emit the tag followed by their input, so that the caller can see which registered command ran.
var tagDir string

func tagFile(id int) string {
	p := tagDir + "/tag" + strconv.Itoa(id)
	if _, err := os.Stat(p); err != nil {
		if err := os.WriteFile(p, []byte("C"+strconv.Itoa(id)+":"), 0o644); err != nil {
			lib.Fatal("tag file: %v", err)
		}
	}
	return p
}

func command(form, id int) *exec.Cmd {
	tag := tagFile(id)
	switch form {
	case 1: // stdin -> stdout
		return exec.Command("cat", tag, "-")
	case 2: // input through a temp file named by $in
		return exec.Command("cat", tag, "$in")
	case 3: // input and output through temp files
		return exec.Command("sh", "-c", "cat \"$0\" \"$1\" > \"$2\"", tag, "$in", "$out")
	case 4: // $in/$out embedded in arguments and followed by an extension (README esbuild example)
		return exec.Command("sh", "-c", "cat \"$0\" \"$1\" > \"${2#--o=}\"", tag, "$in.txt", "--o=$out.txt")
	}
	lib.Fatal("bad command form %d", form)
	return nil
}

func errName(err error) (string, int, string) {
	if err == nil {
		return "nil", 0, ""
	}
	if err == minify.ErrNotExist {
		return "notexist", 0, ""
	}
	var se *stubErr
	if errors.As(err, &se) {
		if err == error(se) {
			return "stub", se.id, ""
		}
		return "other", se.id, err.Error()
	}
	return "other", 0, err.Error()
}

// what ran: from the recorder for stubs, from the C<id>: tag for commands
func (st *Step) observe(rec *recorder, out []byte) {
	rec.mu.Lock()
	calls := rec.calls
	rec.calls = nil
	rec.mu.Unlock()
	st.NRan = len(calls)
	st.GParams = []KV{}
	st.GIn = lib.Bytes{}
	if len(calls) > 0 {
		c := calls[0]
		st.Ran, st.GParams, st.GIn = c.id, c.params, c.in
		return
	}
	if len(out) >= 3 && out[0] == 'C' && out[2] == ':' && out[1] >= '1' && out[1] <= '9' {
		st.Ran = int(out[1] - '0')
		st.NRan = 1
		st.GIn = append(lib.Bytes{}, out[3:]...)
	}
}

func blank(op string) Step {
	return Step{Op: op, Lit: lib.Bytes{}, Q: lib.Bytes{}, Inp: lib.Bytes{}, RPat: lib.Bytes{}, RParams: []KV{},
		GParams: []KV{}, GIn: lib.Bytes{}, Out: lib.Bytes{}, Err: "nil", PMime: lib.Bytes{}, PParams: []KV{}}
}

func runCase(c Case) map[string]interface{} {
	m := minify.New()
	rec := &recorder{}
	steps := []Step{}
	id := 0
	for _, it := range c.Items {
		if it.K != "" {
			id++
			steps = append(steps, register(m, rec, it, id))
		} else {
			steps = append(steps, query(m, rec, it))
		}
	}
	return map[string]interface{}{"id": c.ID, "steps": steps}
}

func register(m *minify.M, rec *recorder, r Item, id int) Step {
	st := blank(r.K)
	st.Sid, st.Lit, st.Pat, st.Cmd = id, append(lib.Bytes{}, r.Lit...), r.Pat, r.Cmd
	var re *regexp.Regexp
	if r.Pat > 0 {
		re = regexp.MustCompile(patSrc[r.Pat])
	}
	switch r.K {
	case "Add":
		m.Add(string(r.Lit), &stubMinifier{id, rec})
	case "AddFunc":
		m.AddFunc(string(r.Lit), func(_ *minify.M, w io.Writer, rd io.Reader, params map[string]string) error {
			return rec.run(id, w, rd, params)
		})
	case "AddCmd":
		m.AddCmd(string(r.Lit), command(r.Cmd, id))
	case "AddRegexp":
		m.AddRegexp(re, &stubMinifier{id, rec})
	case "AddFuncRegexp":
		m.AddFuncRegexp(re, func(_ *minify.M, w io.Writer, rd io.Reader, params map[string]string) error {
			return rec.run(id, w, rd, params)
		})
	case "AddCmdRegexp":
		m.AddCmdRegexp(re, command(r.Cmd, id))
	default:
		lib.Fatal("bad registration kind %q", r.K)
	}
	return st
}

// the params handed to MinifyMimetype (the caller has already split the media type)
var givenParams = map[string]string{"given": "1", "k": "v w"}

func query(m *minify.M, rec *recorder, q Item) Step {
	st := blank(q.Op)
	st.Q, st.Inp = append(lib.Bytes{}, q.Q...), append(lib.Bytes{}, q.Inp...)
	pm, pp := parse.Mediatype(append([]byte{}, q.Q...))
	st.PMime, st.PParams = append(lib.Bytes{}, pm...), kvs(pp)
	var out bytes.Buffer
	panicked, msg := lib.Guard(func() {
		switch q.Op {
		case "Match":
			pat, params, fn := m.Match(string(q.Q))
			st.RPat, st.RParams, st.RNil = lib.Bytes(pat), kvs(params), fn == nil
			if fn != nil {
				// the only way to learn which minifier was returned is to call it
				err := fn(m, &out, bytes.NewReader(q.Inp), params)
				st.Err, st.ErrID, st.Msg = errName(err)
			}
		case "Minify":
			err := m.Minify(string(q.Q), &out, bytes.NewReader(q.Inp))
			st.Err, st.ErrID, st.Msg = errName(err)
		case "MinifyMimetype":
			// lower level entry: q is taken as the mimetype as is, params are the caller's
			st.RParams = kvs(givenParams)
			err := m.MinifyMimetype(append([]byte{}, q.Q...), &out, bytes.NewReader(q.Inp), givenParams)
			st.Err, st.ErrID, st.Msg = errName(err)
		default:
			lib.Fatal("bad query op %q", q.Op)
		}
	})
	if panicked {
		st.Err, st.Msg = "panic", msg
	}
	st.Out = append(lib.Bytes{}, out.Bytes()...)
	st.observe(rec, out.Bytes())
	return st
}

func main() {
	if len(os.Args) < 3 {
		lib.Fatal("usage: c15 <behaviours.ndjson> <trace.ndjson> [workers]")
	}
	workers := runtime.NumCPU()
	if len(os.Args) > 3 {
		workers, _ = strconv.Atoi(os.Args[3])
	}
	if workers < 1 {
		workers = 1
	}
	var err error
	if tagDir, err = os.MkdirTemp("", "c15tags"); err != nil {
		lib.Fatal("tag dir: %v", err)
	}
	for id := 1; id <= 9; id++ {
		tagFile(id)
	}
	var cases []Case
	lib.ReadJSONLines(os.Args[1], func(line []byte) {
		var c Case
		if err := json.Unmarshal(line, &c); err != nil {
			lib.Fatal("bad case: %v", err)
		}
		cases = append(cases, c)
	})
	// The command minifier under test never closes (or removes) the temp files it creates for $in/$out; their
	// descriptors are only released by the os.File finalizers.  Not a subject of C15, but the driver must survive
	// hundreds of thousands of calls: raise the descriptor limit and let the collector run regularly.
	var lim syscall.Rlimit
	if syscall.Getrlimit(syscall.RLIMIT_NOFILE, &lim) == nil && lim.Cur < lim.Max {
		lim.Cur = lim.Max
		syscall.Setrlimit(syscall.RLIMIT_NOFILE, &lim)
	}
	var done int64
	results := make([]map[string]interface{}, len(cases))
	var wg sync.WaitGroup
	next := make(chan int)
	for w := 0; w < workers; w++ {
		wg.Add(1)
		go func() {
			defer wg.Done()
			for i := range next {
				results[i] = runCase(cases[i])
				if atomic.AddInt64(&done, 1)%32 == 0 {
					runtime.GC()
				}
			}
		}()
	}
	for i := range cases {
		next <- i
	}
	close(next)
	wg.Wait()
	tw := lib.NewTraceWriter(os.Args[2])
	for _, r := range results {
		tw.Emit(r)
	}
	tw.Close()
	fmt.Fprintf(os.Stderr, "c15: %d behaviours\n", len(cases))
}
