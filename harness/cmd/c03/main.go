// c03: drives the real html.Minifier for property C03 and projects input and output
// documents to DOM event lists with an HTML5 parser that is independent of the code
// under test (golang.org/x/net/html: tokenizer + tree builder, scripting disabled so that
// noscript content is seen as elements on both sides).
//
// usage: c03 <cases.ndjson> <trace.ndjson>
//        c03 -show <html text> [opts [frag [tmpl]]]      (debugging aid: prints output + both trees)
//
// case : {"id":n,"src":[bytes]|"text","opts":bitmask,"frag":bool,"tmpl":0|1|2|3}
//        opts bits: 1 KeepComments 2 KeepSpecialComments 4 KeepDefaultAttrVals 8 KeepDocumentTags
//                   16 KeepEndTags 32 KeepQuotes 64 KeepWhitespace
//        tmpl: 0 none, 1 {{ }}, 2 <% %>, 3 <? ?>
// trace: {"id":n,"opts":..,"frag":..,"err":bool,"panic":bool,"in":[ev],"out":[ev]}
//        ev = {"k":"O"|"C"|"T"|"M","t":tag,"a":[{"n":name,"v":[bytes]}],"x":[bytes]}
//        (pre-order: O open element, C close element, T text node, M comment node; doctype
//        nodes are not projected: "any doctype -> <!doctype html>" is a documented rewrite and the
//        doctype is no part of the element tree the property talks about)
// Only text/html is registered on the minify.M (embedded CSS/JS/SVG pass through: C11's subject).
package main

import (
	"bytes"
	"encoding/json"
	"fmt"
	"os"
	"strconv"
	"strings"

	"github.com/tdewolff/minify/v2"
	mhtml "github.com/tdewolff/minify/v2/html"
	xhtml "golang.org/x/net/html"
	"golang.org/x/net/html/atom"
	"verifharness/lib"
)

type Case struct {
	ID   int       `json:"id"`
	Src  lib.Bytes `json:"src"`
	Opts int       `json:"opts"`
	Frag bool      `json:"frag"`
	Tmpl int       `json:"tmpl"`
}

type Attr struct {
	N string    `json:"n"`
	V lib.Bytes `json:"v"`
}

type Ev struct {
	K string    `json:"k"`
	T string    `json:"t"`
	A []Attr    `json:"a"`
	X lib.Bytes `json:"x"`
}

type Event struct {
	ID    int    `json:"id"`
	Opts  int    `json:"opts"`
	Frag  bool   `json:"frag"`
	Err   bool   `json:"err"`
	Panic bool   `json:"panic"`
	In    []Ev   `json:"in"`
	Out   []Ev   `json:"out"`
	Msg   string `json:"msg,omitempty"`
}

// Side record kept next to the trace for reporting (not read by TLC).
type Side struct {
	ID  int    `json:"id"`
	Min string `json:"min"`
}

var delims = [][2]string{{"", ""}, {"{{", "}}"}, {"<%", "%>"}, {"<?", "?>"}}

func minifier(opts, tmpl int) *mhtml.Minifier {
	return &mhtml.Minifier{
		KeepComments:        opts&1 != 0,
		KeepSpecialComments: opts&2 != 0,
		KeepDefaultAttrVals: opts&4 != 0,
		KeepDocumentTags:    opts&8 != 0,
		KeepEndTags:         opts&16 != 0,
		KeepQuotes:          opts&32 != 0,
		KeepWhitespace:      opts&64 != 0,
		TemplateDelims:      delims[tmpl],
	}
}

func doMinify(src []byte, opts, tmpl int) (out []byte, err error) {
	m := minify.New()
	o := minifier(opts, tmpl)
	m.Add("text/html", o)
	var w bytes.Buffer
	// the minifier works in place on the reader's buffer: hand it a private copy
	cp := append([]byte{}, src...)
	err = m.Minify("text/html", &w, bytes.NewReader(cp))
	return w.Bytes(), err
}

func project(n *xhtml.Node, evs *[]Ev) {
	switch n.Type {
	case xhtml.TextNode:
		*evs = append(*evs, Ev{K: "T", A: []Attr{}, X: lib.Bytes(n.Data)})
		return
	case xhtml.CommentNode:
		*evs = append(*evs, Ev{K: "M", A: []Attr{}, X: lib.Bytes(n.Data)})
		return
	case xhtml.DoctypeNode:
		return
	case xhtml.ElementNode:
		tag := n.Data
		if n.Namespace != "" {
			tag = n.Namespace + ":" + n.Data
		}
		as := make([]Attr, 0, len(n.Attr))
		for _, a := range n.Attr {
			name := a.Key
			if a.Namespace != "" {
				name = a.Namespace + ":" + a.Key
			}
			as = append(as, Attr{N: name, V: lib.Bytes(a.Val)})
		}
		*evs = append(*evs, Ev{K: "O", T: tag, A: as, X: lib.Bytes{}})
		for c := n.FirstChild; c != nil; c = c.NextSibling {
			project(c, evs)
		}
		*evs = append(*evs, Ev{K: "C", T: tag, A: []Attr{}, X: lib.Bytes{}})
		return
	}
	for c := n.FirstChild; c != nil; c = c.NextSibling {
		project(c, evs)
	}
}

func parse(b []byte, frag bool) ([]Ev, error) {
	evs := []Ev{{K: "O", T: "#root", A: []Attr{}, X: lib.Bytes{}}}
	if frag {
		ctx := &xhtml.Node{Type: xhtml.ElementNode, Data: "body", DataAtom: atom.Body}
		ns, err := xhtml.ParseFragmentWithOptions(bytes.NewReader(b), ctx, xhtml.ParseOptionEnableScripting(false))
		if err != nil {
			return nil, err
		}
		for _, n := range ns {
			project(n, &evs)
		}
	} else {
		doc, err := xhtml.ParseWithOptions(bytes.NewReader(b), xhtml.ParseOptionEnableScripting(false))
		if err != nil {
			return nil, err
		}
		project(doc, &evs)
	}
	evs = append(evs, Ev{K: "C", T: "#root", A: []Attr{}, X: lib.Bytes{}})
	return evs, nil
}

func run(c Case) (Event, Side) {
	ev := Event{ID: c.ID, Opts: c.Opts, Frag: c.Frag, In: []Ev{}, Out: []Ev{}}
	var out []byte
	var err error
	ev.Panic, ev.Msg = lib.Guard(func() { out, err = doMinify(c.Src, c.Opts, c.Tmpl) })
	side := Side{ID: c.ID, Min: string(out)}
	if ev.Panic {
		return ev, side
	}
	if err != nil {
		ev.Err = true
		ev.Msg = err.Error()
		return ev, side
	}
	in, e1 := parse(c.Src, c.Frag)
	o, e2 := parse(out, c.Frag)
	if e1 != nil || e2 != nil {
		lib.Fatal("x/net/html parse error: %v %v", e1, e2)
	}
	ev.In, ev.Out = in, o
	return ev, side
}

func dump(evs []Ev) string {
	var sb strings.Builder
	d := 0
	for _, e := range evs {
		switch e.K {
		case "O":
			sb.WriteString(strings.Repeat("  ", d) + "<" + e.T)
			for _, a := range e.A {
				sb.WriteString(" " + a.N + "=" + strconv.Quote(string(a.V)))
			}
			sb.WriteString(">\n")
			d++
		case "C":
			d--
		case "T":
			sb.WriteString(strings.Repeat("  ", d) + strconv.Quote(string(e.X)) + "\n")
		case "M":
			sb.WriteString(strings.Repeat("  ", d) + "<!--" + string(e.X) + "-->\n")
		}
	}
	return sb.String()
}

func main() {
	if len(os.Args) >= 3 && os.Args[1] == "-show" {
		c := Case{Src: lib.Bytes(os.Args[2])}
		if len(os.Args) > 3 {
			c.Opts, _ = strconv.Atoi(os.Args[3])
		}
		if len(os.Args) > 4 {
			c.Frag = os.Args[4] == "1" || os.Args[4] == "true"
		}
		if len(os.Args) > 5 {
			c.Tmpl, _ = strconv.Atoi(os.Args[5])
		}
		ev, side := run(c)
		fmt.Printf("in : %q\nout: %q\nerr=%v panic=%v %s\n", string(c.Src), side.Min, ev.Err, ev.Panic, ev.Msg)
		a, b := dump(ev.In), dump(ev.Out)
		if a == b {
			fmt.Printf("-- trees identical --\n%s", a)
		} else {
			fmt.Printf("-- input tree --\n%s-- output tree --\n%s", a, b)
		}
		return
	}
	if len(os.Args) < 3 {
		lib.Fatal("usage: c03 <cases.ndjson> <trace.ndjson> [side.ndjson]")
	}
	tw := lib.NewTraceWriter(os.Args[2])
	var sw *lib.TraceWriter
	if len(os.Args) > 3 {
		sw = lib.NewTraceWriter(os.Args[3])
	}
	lib.ReadJSONLines(os.Args[1], func(line []byte) {
		var c Case
		if err := json.Unmarshal(line, &c); err != nil {
			lib.Fatal("bad case: %v", err)
		}
		if c.Tmpl < 0 || c.Tmpl >= len(delims) {
			lib.Fatal("bad tmpl")
		}
		ev, side := run(c)
		tw.Emit(ev)
		if sw != nil {
			sw.Emit(side)
		}
	})
	tw.Close()
	if sw != nil {
		sw.Close()
	}
}
