// c12: drives the real stream entry points of minify for properties C12 and C14.
//
//	c12 [-nowatchdog] <cases.ndjson> <trace.ndjson>
//
// Every case is one session on the real public API
// ((*M).Minify / Bytes / String / Reader / Writer / ResponseWriter / Middleware /
// MiddlewareWithError) with instrumented readers, writers and http.ResponseWriter
// doubles.  The session's events (harness events and the hook events of
// minify.VerifTrace, in one mutex-protected log, i.e. totally ordered) are written
// as one JSON object per session; spec/C12Trace.tla steps through them.  Cases with
// "sum":true are written as one flat fault record (spec/C14Trace.tla), cases with
// "enum" are expanded here into one record per fault position.
//
// The driver decides nothing: it renders abstract choices (chunk sizes, fault
// points, gates, headers) into calls, and projects results (error identity by
// errors.Is against the injected sentinels, bytes, digests).
package main

import (
	"bufio"
	"bytes"
	"crypto/sha1"
	"encoding/hex"
	"encoding/json"
	"errors"
	"hash"
	"io"
	"mime"
	"net/http"
	"net/url"
	"os"
	"path"
	"regexp"
	"runtime"
	"strconv"
	"sync"
	"sync/atomic"
	"time"

	"github.com/tdewolff/minify/v2"
	"github.com/tdewolff/minify/v2/css"
	"github.com/tdewolff/minify/v2/html"
	"github.com/tdewolff/minify/v2/js"
	mjson "github.com/tdewolff/minify/v2/json"
	"github.com/tdewolff/minify/v2/svg"
	"github.com/tdewolff/minify/v2/xml"
	"verifharness/lib"
)

type Case struct {
	ID     int       `json:"id"`
	Mode   string    `json:"mode"` // writer reader response mw mwerr bytes string plain
	MT     string    `json:"mt"`   // mediatype given to the entry point (not used by the response modes)
	Reg    string    `json:"reg"`  // literal | regexp | mixed
	In     lib.Bytes `json:"in"`
	Chunks []int     `json:"chunks"` // producer chunk / source read sizes; a remainder becomes one last chunk
	RBufs  []int     `json:"rbufs"`  // consumer buffer sizes, cycled (reader mode)
	Pace   string    `json:"pace"`   // reader mode: "" | consumerfirst | workerfirst
	FF     int       `json:"ff"`     // sink fails from its FF-th call on (0: never)
	SF     int       `json:"sf"`     // source fails after SF bytes (-1: never)
	Short  bool      `json:"short"`  // the failing read also returns the last bytes (n>0, err)
	SErr   string    `json:"serr"`   // plain | unexpected | wrapeof
	Gate   bool      `json:"gate"`   // hold the sink closed while Close is in flight
	CT     string    `json:"ct"`     // response modes: Content-Type set by the handler ("" none)
	URI    string    `json:"uri"`    // response modes: request URI
	CL     int       `json:"cl"`     // response modes: Content-Length set by the handler (-1 none)
	WH     string    `json:"wh"`     // response modes: handler calls WriteHeader: no | first | last
	Status int       `json:"status"`
	Sum    bool      `json:"sum"`    // emit a flat fault record (C14)
	Enum   string    `json:"enum"`   // "", "sink", "src", "both": expand over fault positions (C14)
	Stride int       `json:"stride"` // enumeration stride for long inputs (<=1: every position)
	Small  int       `json:"small"`  // byte payloads are recorded when input and output are at most this long
	Tag    string    `json:"tag"`
	After  bool      `json:"after"`  // after Close: one more Write, then Close again (writer; response with a minifier)
	Pre    []PreCall `json:"pre"`    // bytes/string: helper calls made before the call that is judged (call history)
	WShape string    `json:"wshape"` // method set of the sink double: "" (Write only) | bytes | stringwriter | readfrom | response | all
}

type PreCall struct {
	Mode string    `json:"mode"`
	MT   string    `json:"mt"`
	In   lib.Bytes `json:"in"`
}

type Ev struct {
	K string    `json:"k"`
	N int       `json:"n"`
	C int       `json:"c"`
	E string    `json:"e"`
	T string    `json:"t"`
	B lib.Bytes `json:"b"`
}

type Want struct {
	N int       `json:"n"`
	H string    `json:"h"`
	B lib.Bytes `json:"b"`
	E string    `json:"e"`
	T string    `json:"t"`
}

type Session struct {
	ID     int       `json:"id"`
	Mode   string    `json:"mode"`
	MT     string    `json:"mt"`
	Reg    string    `json:"reg"`
	Tag    string    `json:"tag"`
	FF     int       `json:"ff"`
	SF     int       `json:"sf"`
	Gate   bool      `json:"gate"`
	After  bool      `json:"after"` // the late Write and the second Close were actually performed
	Small  bool      `json:"small"`
	In     lib.Bytes `json:"in"`
	InN    int       `json:"inn"`
	InH    string    `json:"inh"`
	H0     string    `json:"h0"`
	NWrite int       `json:"nwrite"` // Write calls made by the producer / handler
	Want   Want      `json:"want"`
	CT     string    `json:"ct"`
	XT     string    `json:"xt"`
	CL     int       `json:"cl"`
	WCT    Want      `json:"wct"`
	WXT    Want      `json:"wxt"`
	Ev     []Ev      `json:"ev"`
}

// Fault is the flat record of one fault-injection run (C14).
type Fault struct {
	ID      int      `json:"id"`
	CID     int      `json:"cid"`
	Mode    string   `json:"mode"`
	MT      string   `json:"mt"`
	InN     int      `json:"inn"`
	SF      int      `json:"sf"`
	Short   bool     `json:"short"`
	SErr    string   `json:"serr"`
	FF      int      `json:"ff"`
	WShape  string   `json:"wshape"`
	Chunks  []int    `json:"chunks"`
	RHit    bool     `json:"rhit"`   // the source double returned its error at least once
	WHit    bool     `json:"whit"`   // the sink double returned its error at least once
	NReads  int      `json:"nreads"` // calls seen by the source double
	NWrites int      `json:"nwrites"`
	Res     []string `json:"res"` // error classes surfaced to the caller (Ret; Write*/Close; final Read)
	Ret     string   `json:"ret"` // class of the call's own result (plain: return value; writer: Close; reader: final Read)
	RetT    string   `json:"rett"`
	Closed  bool     `json:"closed"` // the call (Close, for the writer wrapper) returned
	DelN    int      `json:"deln"`
	DelH    string   `json:"delh"`
	WantN   int      `json:"wantn"`
	WantH   string   `json:"wanth"`
	WantE   string   `json:"wante"` // class of the fault-free plain call's result
	Panic   bool     `json:"panic"`
	Blocked bool     `json:"blocked"`
	Msg     string   `json:"msg"`
}

type faultErr struct {
	what string
	wrap error
}

func (e *faultErr) Error() string { return "injected " + e.what + " fault" }
func (e *faultErr) Unwrap() error { return e.wrap }

var watchdog = 20 * time.Second
var noWatchdog = false
var blockedSeen = false

// ---------------------------------------------------------------- session log
type sess struct {
	mu      sync.Mutex
	ev      []Ev
	small   bool
	sinkErr error
	srcErr  error
	blocked bool
}

var current atomic.Value // *sess

func (s *sess) add(e Ev) {
	s.mu.Lock()
	s.ev = append(s.ev, e)
	s.mu.Unlock()
}

func (s *sess) has(kind string) bool {
	s.mu.Lock()
	defer s.mu.Unlock()
	for _, e := range s.ev {
		if e.K == kind {
			return true
		}
	}
	return false
}

func (s *sess) class(err error) string {
	switch {
	case err == nil:
		return "nil"
	case s.sinkErr != nil && errors.Is(err, s.sinkErr):
		return "sink"
	case s.srcErr != nil && errors.Is(err, s.srcErr):
		return "src"
	case err == minify.ErrNotExist:
		return "notexist"
	case err == io.ErrClosedPipe:
		return "closedpipe"
	case err == io.EOF:
		return "eof"
	}
	return "other"
}

func text(err error) string {
	if err == nil {
		return ""
	}
	return err.Error()
}

func hx(h hash.Hash) string { return hex.EncodeToString(h.Sum(nil)) }
func digest(b []byte) string {
	h := sha1.Sum(b)
	return hex.EncodeToString(h[:])
}

// wait blocks until ch is closed; with the watchdog it gives up after a long time and marks
// the session blocked (the verdict is confirmed by a rerun without timers, where the Go
// runtime itself proves the deadlock).
func (s *sess) wait(ch <-chan struct{}) bool {
	if noWatchdog {
		<-ch
		return true
	}
	select {
	case <-ch:
		return true
	case <-time.After(watchdog):
		s.blocked = true
		blockedSeen = true
		s.add(Ev{K: "Blocked"})
		return false
	}
}

// ---------------------------------------------------------------- doubles
type sink struct {
	s       *sess
	mu      sync.Mutex
	calls   int
	ff      int
	hit     bool
	h       hash.Hash
	n       int
	acc     []byte
	gateOn  bool
	gate    chan struct{}
	arrived chan struct{}
	arrOnce sync.Once
}

func newSink(s *sess, ff int) *sink {
	return &sink{s: s, ff: ff, h: sha1.New(), gate: make(chan struct{}), arrived: make(chan struct{})}
}

func (k *sink) closeGate() {
	k.mu.Lock()
	k.gateOn = true
	k.mu.Unlock()
}

func (k *sink) Write(p []byte) (int, error) {
	k.mu.Lock()
	on := k.gateOn
	k.mu.Unlock()
	if on {
		k.arrOnce.Do(func() { close(k.arrived) })
		<-k.gate
	}
	k.s.mu.Lock()
	defer k.s.mu.Unlock()
	k.calls++
	if k.ff > 0 && k.calls >= k.ff {
		k.hit = true
		k.s.ev = append(k.s.ev, Ev{K: "SinkWrite", N: len(p), E: "sink", T: hx(k.h)})
		return 0, k.s.sinkErr
	}
	k.h.Write(p)
	k.n += len(p)
	k.acc = append(k.acc, p...)
	e := Ev{K: "SinkWrite", N: len(p), E: "nil", T: hx(k.h)}
	if k.s.small {
		e.B = append(lib.Bytes{}, p...)
	}
	k.s.ev = append(k.s.ev, e)
	return len(p), nil
}

// sink doubles with richer method sets: minifiers and parse may duck-type the writer they are given (Bytes(),
// WriteString, ReadFrom, ...).  Every method goes through the same fault logic as Write.
func (k *sink) accepted() []byte {
	k.s.mu.Lock()
	defer k.s.mu.Unlock()
	return append([]byte{}, k.acc...)
}

type sinkBytes struct{ *sink }

func (k sinkBytes) Bytes() []byte  { return k.accepted() }
func (k sinkBytes) String() string { return string(k.accepted()) }
func (k sinkBytes) Len() int       { return len(k.accepted()) }

type sinkSW struct{ *sink }

func (k sinkSW) WriteString(x string) (int, error) { return k.Write([]byte(x)) }

type sinkRF struct{ *sink }

func (k sinkRF) ReadFrom(r io.Reader) (int64, error) {
	b, err := io.ReadAll(r)
	if err != nil {
		return 0, err
	}
	n, err := k.Write(b)
	return int64(n), err
}

type sinkRW struct {
	*sink
	hdr http.Header
}

func (k sinkRW) Header() http.Header { return k.hdr }
func (k sinkRW) WriteHeader(int)     {}

type sinkAll struct {
	sinkBytes
	hdr http.Header
}

func (k sinkAll) WriteString(x string) (int, error)   { return k.Write([]byte(x)) }
func (k sinkAll) ReadFrom(r io.Reader) (int64, error) { return sinkRF{k.sink}.ReadFrom(r) }
func (k sinkAll) WriteTo(w io.Writer) (int64, error) {
	n, err := w.Write(k.accepted())
	return int64(n), err
}
func (k sinkAll) Header() http.Header { return k.hdr }
func (k sinkAll) WriteHeader(int)     {}
func (k sinkAll) Cap() int            { return 1 << 20 }
func (k sinkAll) Reset()              {}

func shaped(k *sink, shape string) io.Writer {
	switch shape {
	case "bytes":
		return sinkBytes{k}
	case "stringwriter":
		return sinkSW{k}
	case "readfrom":
		return sinkRF{k}
	case "response":
		return sinkRW{k, http.Header{}}
	case "all":
		return sinkAll{sinkBytes{k}, http.Header{}}
	}
	return k
}

type source struct {
	s      *sess
	data   []byte
	pos    int
	chunks []int
	ci     int
	rem    int // rest of the current chunk
	sf     int
	short  bool
	hit    bool
	reads  int
	log    bool
	done   chan struct{} // closed when EOF or the error has been returned once
	dOnce  sync.Once
	before chan struct{} // if set, the first Read waits for it (consumer-first pacing)
}

func (r *source) fin() { r.dOnce.Do(func() { close(r.done) }) }

func (r *source) Read(p []byte) (n int, err error) {
	if r.before != nil && r.reads == 0 {
		select {
		case <-r.before:
		case <-time.After(2 * time.Millisecond):
		}
		runtime.Gosched()
	}
	r.reads++
	defer func() {
		if r.log {
			r.s.add(Ev{K: "SrcRead", N: n, E: r.s.class(err)})
		}
		if err != nil {
			r.fin()
		}
	}()
	if r.sf >= 0 && r.pos >= r.sf {
		r.hit = true
		return 0, r.s.srcErr
	}
	if r.pos >= len(r.data) {
		return 0, io.EOF
	}
	if r.rem == 0 {
		if r.ci < len(r.chunks) {
			r.rem = r.chunks[r.ci]
			r.ci++
			if r.rem == 0 {
				return 0, nil // an empty read is allowed by io.Reader
			}
		} else {
			r.rem = len(r.data) - r.pos
		}
	}
	n = r.rem
	if n > len(p) {
		n = len(p)
	}
	if n > len(r.data)-r.pos {
		n = len(r.data) - r.pos
		r.rem = n
	}
	if r.sf >= 0 && n > r.sf-r.pos {
		n = r.sf - r.pos
		r.rem = n
	}
	copy(p, r.data[r.pos:r.pos+n])
	r.pos += n
	r.rem -= n
	if r.sf >= 0 && r.pos == r.sf && r.short && n > 0 {
		r.hit = true
		return n, r.s.srcErr
	}
	return n, nil
}

type respw struct {
	s         *sess
	k         *sink
	hdr       http.Header
	committed bool
}

func (r *respw) Header() http.Header { return r.hdr }
func (r *respw) commit(status int) {
	r.s.mu.Lock()
	defer r.s.mu.Unlock()
	if r.committed {
		return
	}
	r.committed = true
	c := -1
	v := r.hdr.Get("Content-Length")
	if _, ok := r.hdr["Content-Length"]; ok {
		if x, err := strconv.Atoi(v); err == nil && x >= 0 {
			c = x
		} else {
			c = -2
		}
	}
	r.s.ev = append(r.s.ev, Ev{K: "Commit", N: status, C: c, T: r.hdr.Get("Content-Type")})
}
func (r *respw) WriteHeader(status int) { r.commit(status) }
func (r *respw) Write(p []byte) (int, error) {
	r.commit(200)
	return r.k.Write(p)
}

// ---------------------------------------------------------------- registry
var regs = map[string]*minify.M{}

func registry(kind string) *minify.M {
	if m, ok := regs[kind]; ok {
		return m
	}
	m := minify.New()
	switch kind {
	case "regexp":
		m.AddFuncRegexp(regexp.MustCompile("^text/css$"), css.Minify)
		m.AddFuncRegexp(regexp.MustCompile("^text/html$"), html.Minify)
		m.AddFuncRegexp(regexp.MustCompile("^image/svg\\+xml$"), svg.Minify)
		m.AddFuncRegexp(regexp.MustCompile("^(application|text)/(x-)?(java|ecma)script$"), js.Minify)
		m.AddFuncRegexp(regexp.MustCompile("[/+]json$"), mjson.Minify)
		m.AddFuncRegexp(regexp.MustCompile("[/+]xml$"), xml.Minify)
	case "mixed": // as in the README
		m.AddFunc("text/css", css.Minify)
		m.AddFunc("text/html", html.Minify)
		m.AddFunc("image/svg+xml", svg.Minify)
		m.AddFuncRegexp(regexp.MustCompile("^(application|text)/(x-)?(java|ecma)script$"), js.Minify)
		m.AddFuncRegexp(regexp.MustCompile("[/+]json$"), mjson.Minify)
		m.AddFuncRegexp(regexp.MustCompile("[/+]xml$"), xml.Minify)
	default: // literal
		m.AddFunc("text/css", css.Minify)
		m.AddFunc("text/html", html.Minify)
		m.AddFunc("image/svg+xml", svg.Minify)
		m.AddFunc("application/javascript", js.Minify)
		m.AddFunc("text/javascript", js.Minify)
		m.AddFunc("application/json", mjson.Minify)
		m.AddFunc("text/xml", xml.Minify)
		m.AddFunc("application/xml", xml.Minify)
	}
	regs[kind] = m
	return m
}

// the plain reader-to-writer call on the whole input: the reference of C12
func plainWant(s *sess, m *minify.M, mt string, in []byte, small bool) Want {
	var b bytes.Buffer
	cp := append([]byte{}, in...)
	var err error
	p, msg := lib.Guard(func() { err = m.Minify(mt, &b, bytes.NewReader(cp)) })
	w := Want{N: b.Len(), H: digest(b.Bytes()), E: s.class(err), T: text(err), B: lib.Bytes{}}
	if p {
		w.E, w.T = "panic", msg
	}
	if small {
		w.B = append(lib.Bytes{}, b.Bytes()...)
	}
	return w
}

func split(in []byte, sizes []int) [][]byte {
	var out [][]byte
	pos := 0
	for _, n := range sizes {
		if n > len(in)-pos {
			n = len(in) - pos
		}
		out = append(out, in[pos:pos+n])
		pos += n
	}
	if pos < len(in) {
		out = append(out, in[pos:])
	}
	return out
}

func mkSrcErr(kind string) error {
	switch kind {
	case "unexpected":
		return io.ErrUnexpectedEOF
	case "wrapeof":
		return &faultErr{what: "source (wrapping io.EOF)", wrap: io.EOF}
	}
	return &faultErr{what: "source"}
}

// graceThenOpen: Close (or ServeHTTP) is in flight in another goroutine and the sink gate is
// closed.  Correct code cannot finish before the gate opens; wrong code is given a short while
// to do so.  The length of the grace period never turns a correct run into a rejected one.
func graceThenOpen(s *sess, k *sink, done <-chan struct{}) {
	select {
	case <-k.arrived:
	case <-done:
	case <-time.After(50 * time.Millisecond):
	}
	for i := 0; i < 10; i++ {
		select {
		case <-done:
			i = 10
		default:
			runtime.Gosched()
			time.Sleep(100 * time.Microsecond)
		}
	}
	s.add(Ev{K: "GateOpen"})
	close(k.gate)
}

// ---------------------------------------------------------------- sessions
func runSession(c Case) (*sess, *sink, *source, Session) {
	m := registry(c.Reg)
	small := len(c.In) <= c.Small
	s := &sess{small: small}
	s.sinkErr = &faultErr{what: "sink"}
	s.srcErr = mkSrcErr(c.SErr)
	S := Session{ID: c.ID, Mode: c.Mode, MT: c.MT, Reg: c.Reg, Tag: c.Tag, FF: c.FF, SF: c.SF, Gate: c.Gate,
		InN: len(c.In), InH: digest(c.In), H0: digest(nil), In: lib.Bytes{}, CT: c.CT, CL: c.CL,
		Want: Want{B: lib.Bytes{}}, WCT: Want{B: lib.Bytes{}}, WXT: Want{B: lib.Bytes{}}}
	resp := c.Mode == "response" || c.Mode == "mw" || c.Mode == "mwerr"
	if resp {
		// type of the request *path* extension, by the standard library only (independent of the code under test)
		if u, err := url.ParseRequestURI(c.URI); err == nil {
			S.XT = mime.TypeByExtension(path.Ext(u.Path))
		}
		S.WCT = plainWant(s, m, c.CT, c.In, true)
		S.WXT = plainWant(s, m, S.XT, c.In, true)
		if S.WCT.N > c.Small || S.WXT.N > c.Small {
			small = false
		}
		if !small {
			S.WCT.B, S.WXT.B = lib.Bytes{}, lib.Bytes{}
		}
	} else {
		S.Want = plainWant(s, m, c.MT, c.In, true)
		if S.Want.N > c.Small {
			small = false
		}
		if !small {
			S.Want.B = lib.Bytes{}
		}
	}
	s.small = small
	S.Small = small
	if small {
		S.In = c.In
	}
	k := newSink(s, c.FF)
	src := &source{s: s, data: c.In, chunks: c.Chunks, sf: c.SF, short: c.Short, done: make(chan struct{}), log: !c.Sum}
	current.Store(s)
	defer current.Store((*sess)(nil))

	body := func() {
		switch c.Mode {
		case "writer":
			wc := m.Writer(c.MT, shaped(k, c.WShape))
			for _, ch := range split(c.In, c.Chunks) {
				s.add(Ev{K: "WriteCall", N: len(ch)})
				n, err := wc.Write(ch)
				S.NWrite++
				s.add(Ev{K: "WriteRet", N: n, E: s.class(err), T: text(err)})
			}
			closeIt := func() {
				s.add(Ev{K: "CloseCall"})
				err := wc.Close()
				s.add(Ev{K: "CloseRet", E: s.class(err), T: text(err)})
			}
			if c.Gate {
				k.closeGate()
				done := make(chan struct{})
				go func() { closeIt(); close(done) }()
				graceThenOpen(s, k, done)
				if !s.wait(done) {
					return
				}
			} else {
				closeIt()
			}
			if c.After {
				S.After = true
				n, err := wc.Write([]byte("x"))
				s.add(Ev{K: "LateWriteRet", N: n, E: s.class(err), T: text(err)})
				err = wc.Close()
				s.add(Ev{K: "Close2Ret", E: s.class(err), T: text(err)})
			}
		case "reader":
			var first chan struct{}
			if c.Pace == "consumerfirst" {
				first = make(chan struct{})
				src.before = first
			}
			rd := m.Reader(c.MT, src)
			if c.Pace == "workerfirst" {
				select {
				case <-src.done:
				case <-time.After(2 * time.Millisecond):
				}
				runtime.Gosched()
			}
			bufs := c.RBufs
			if len(bufs) == 0 {
				bufs = []int{4096}
			}
			h := sha1.New()
			for i := 0; ; i++ {
				buf := make([]byte, bufs[i%len(bufs)])
				if first != nil && i == 0 {
					close(first)
				}
				n, err := rd.Read(buf)
				h.Write(buf[:n])
				e := Ev{K: "Read", N: n, C: len(buf), E: s.class(err), T: hx(h)}
				if err != nil {
					e.T = text(err)
				}
				if s.small {
					e.B = append(lib.Bytes{}, buf[:n]...)
				}
				s.add(e)
				if err != nil {
					break
				}
				if i > 4*len(c.In)+4*S.Want.N+1000 {
					s.add(Ev{K: "Blocked", T: "consumer sees no end of the stream"})
					s.blocked = true
					break
				}
			}
		case "response", "mw", "mwerr":
			rw := &respw{s: s, k: k, hdr: http.Header{}}
			// a server-side request as net/http builds it: RequestURI as received, URL parsed from it
			req := &http.Request{Method: "GET", RequestURI: c.URI, Header: http.Header{}, Proto: "HTTP/1.1", ProtoMajor: 1, ProtoMinor: 1, Host: "example.test"}
			if u, err := url.ParseRequestURI(c.URI); err == nil {
				req.URL = u
			} else {
				req.URL = &url.URL{Path: c.URI}
			}
			status := c.Status
			if status == 0 {
				status = 200
			}
			handler := http.HandlerFunc(func(w http.ResponseWriter, r *http.Request) {
				if c.CT != "" {
					w.Header().Set("Content-Type", c.CT)
				}
				if c.CL >= 0 {
					w.Header().Set("Content-Length", strconv.Itoa(c.CL))
				}
				if c.WH == "first" {
					w.WriteHeader(status)
				}
				for _, ch := range split(c.In, c.Chunks) {
					s.add(Ev{K: "WriteCall", N: len(ch)})
					n, err := w.Write(ch)
					S.NWrite++
					s.add(Ev{K: "WriteRet", N: n, E: s.class(err), T: text(err)})
				}
				if c.WH == "last" {
					w.WriteHeader(status)
				}
				s.add(Ev{K: "HandlerRet"})
				if c.Gate {
					k.closeGate()
				}
			})
			serve := func() {
				switch c.Mode {
				case "response":
					mw := m.ResponseWriter(rw, req)
					handler(mw, req)
					s.add(Ev{K: "CloseCall"})
					err := mw.Close()
					s.add(Ev{K: "CloseRet", E: s.class(err), T: text(err)})
					if c.After && s.has("hook.response.select") {
						S.After = true
						n, err := mw.Write([]byte("x"))
						s.add(Ev{K: "LateWriteRet", N: n, E: s.class(err), T: text(err)})
						err = mw.Close()
						s.add(Ev{K: "Close2Ret", E: s.class(err), T: text(err)})
					}
				case "mw":
					s.add(Ev{K: "CloseCall"})
					m.Middleware(handler).ServeHTTP(rw, req)
					s.add(Ev{K: "CloseRet", E: "unseen"})
				case "mwerr":
					s.add(Ev{K: "CloseCall"})
					m.MiddlewareWithError(handler, func(w http.ResponseWriter, r *http.Request, err error) {
						same := 0
						if w == http.ResponseWriter(rw) {
							same = 1
						}
						s.add(Ev{K: "ErrFunc", N: same, E: s.class(err), T: text(err)})
					}).ServeHTTP(rw, req)
					s.add(Ev{K: "CloseRet", E: "unseen"})
				}
			}
			if c.Gate {
				done := make(chan struct{})
				go func() { serve(); close(done) }()
				graceThenOpen(s, k, done)
				s.wait(done)
			} else {
				serve()
			}
		case "bytes":
			preCalls(s, m, c)
			v := append(make([]byte, 0, len(c.In)+8), c.In...)
			out, err := m.Bytes(c.MT, v)
			e := Ev{K: "Ret", N: len(out), E: s.class(err), T: text(err), C: 0}
			if err == nil {
				e.T = digest(out)
			}
			if s.small {
				e.B = append(lib.Bytes{}, out...)
			}
			s.add(e)
		case "string":
			preCalls(s, m, c)
			out, err := m.String(c.MT, string(c.In))
			e := Ev{K: "Ret", N: len(out), E: s.class(err), T: text(err)}
			if err == nil {
				e.T = digest([]byte(out))
			}
			if s.small {
				e.B = lib.Bytes(out)
			}
			s.add(e)
		case "plain":
			err := m.Minify(c.MT, shaped(k, c.WShape), src)
			s.add(Ev{K: "Ret", E: s.class(err), T: text(err)})
		default:
			lib.Fatal("unknown mode %q", c.Mode)
		}
	}
	baseG := runtime.NumGoroutine()
	// the session body runs in its own goroutine so that a blocked call is observed, not suffered
	done := make(chan struct{})
	go func() {
		defer close(done)
		p, msg := lib.Guard(body)
		if p {
			s.add(Ev{K: "Panic", T: msg})
		}
	}()
	s.wait(done)
	// let goroutines of the code under test that outlive the call (none, if Close waits) finish, so that whatever they
	// still do is recorded in this session's log and not in the next one's
	for i := 0; i < 300 && !s.blocked && runtime.NumGoroutine() > baseG; i++ {
		time.Sleep(100 * time.Microsecond)
	}
	s.mu.Lock()
	S.Ev = append([]Ev{}, s.ev...)
	s.mu.Unlock()
	for i := range S.Ev {
		if S.Ev[i].B == nil {
			S.Ev[i].B = lib.Bytes{}
		}
	}
	return s, k, src, S
}

// preCalls: the helper calls that precede the judged one (a helper must not carry anything over from an earlier call)
func preCalls(s *sess, m *minify.M, c Case) {
	for _, p := range c.Pre {
		if p.Mode == "string" {
			out, err := m.String(p.MT, string(p.In))
			s.add(Ev{K: "PreRet", N: len(out), E: s.class(err), T: text(err)})
		} else {
			out, err := m.Bytes(p.MT, append(make([]byte, 0, len(p.In)+8), p.In...))
			s.add(Ev{K: "PreRet", N: len(out), E: s.class(err), T: text(err)})
		}
	}
}

func hook(ev string, id interface{}, err error) {
	s, _ := current.Load().(*sess)
	if s == nil {
		return
	}
	k, t := ev, ""
	for i := 0; i < len(ev); i++ {
		if ev[i] == ':' {
			k, t = ev[:i], ev[i+1:]
			break
		}
	}
	e := Ev{K: "hook." + k, E: s.class(err), T: t}
	if err != nil {
		e.T = text(err)
	}
	s.add(e)
}

// summarise one session into the flat fault record of C14
func summarise(c Case, s *sess, k *sink, src *source, S Session) Fault {
	f := Fault{ID: c.ID, CID: c.ID, Mode: c.Mode, MT: c.MT, InN: len(c.In), SF: c.SF, Short: c.Short, SErr: c.SErr, FF: c.FF, WShape: c.WShape,
		Chunks: c.Chunks, RHit: src.hit, WHit: k.hit, NReads: src.reads, NWrites: k.calls, Res: []string{}, Ret: "none",
		DelN: k.n, DelH: hx(k.h), WantN: S.Want.N, WantH: S.Want.H, WantE: S.Want.E, Blocked: s.blocked}
	if f.Chunks == nil {
		f.Chunks = []int{}
	}
	if f.SErr == "" {
		f.SErr = "plain"
	}
	got, goth := 0, sha1.New()
	for _, e := range S.Ev {
		switch e.K {
		case "Ret":
			f.Ret, f.RetT, f.Closed = e.E, e.T, true
			f.Res = append(f.Res, e.E)
		case "WriteRet":
			f.Res = append(f.Res, e.E)
		case "CloseRet":
			f.Ret, f.RetT, f.Closed = e.E, e.T, true
			f.Res = append(f.Res, e.E)
		case "Read":
			got += e.N
			if e.E != "nil" {
				f.Ret, f.RetT, f.Closed = e.E, e.T, true
				f.Res = append(f.Res, e.E)
			} else {
				f.DelH = e.T
			}
		case "Panic":
			f.Panic, f.Msg = true, e.T
		case "Blocked":
			f.Blocked = true
		}
	}
	_ = goth
	if c.Mode == "reader" {
		f.DelN = got
		if got == 0 {
			f.DelH = digest(nil)
		}
	}
	return f
}

func positions(n, stride int, lo int) []int {
	var ks []int
	for k := lo; k <= n; k++ {
		if stride <= 1 || k <= lo+2 || k >= n-2 || (k-lo)%stride == 0 {
			ks = append(ks, k)
		}
	}
	return ks
}

// tw: ndjson output, flushed after every session so that a crash of the process (a panic inside
// a goroutine of the code under test cannot be recovered here) loses nothing already observed.
type tw struct {
	f *os.File
	w *bufio.Writer
}

func newTW(p string) *tw {
	f, err := os.Create(p)
	if err != nil {
		lib.Fatal("create trace: %v", err)
	}
	return &tw{f, bufio.NewWriterSize(f, 1<<20)}
}
func (t *tw) Emit(v interface{}) {
	b, err := json.Marshal(v)
	if err != nil {
		lib.Fatal("marshal: %v", err)
	}
	t.w.Write(b)
	t.w.WriteByte('\n')
}
func (t *tw) Flush() { t.w.Flush() }
func (t *tw) Close() { t.w.Flush(); t.f.Close() }

func main() {
	args := os.Args[1:]
	if len(args) > 0 && args[0] == "-nowatchdog" {
		noWatchdog = true
		args = args[1:]
	}
	if len(args) < 2 {
		lib.Fatal("usage: c12 [-nowatchdog] <cases.ndjson> <trace.ndjson>")
	}
	if v := os.Getenv("C12_WATCHDOG_MS"); v != "" {
		if x, err := strconv.Atoi(v); err == nil {
			watchdog = time.Duration(x) * time.Millisecond
		}
	}
	minify.VerifTrace = hook
	tw := newTW(args[1])
	nextID := 0
	emit := func(c Case) {
		s, k, src, S := runSession(c)
		if c.Sum {
			f := summarise(c, s, k, src, S)
			tw.Emit(f)
		} else {
			tw.Emit(S)
		}
		tw.Flush()
	}
	lib.ReadJSONLines(args[0], func(line []byte) {
		if blockedSeen {
			return // goroutines of a blocked session are still around: stop, the caller resumes in a new process
		}
		c := Case{SF: -1, CL: -1, Small: 64}
		if err := json.Unmarshal(line, &c); err != nil {
			lib.Fatal("bad case: %v", err)
		}
		if c.Enum == "" {
			emit(c)
			return
		}
		// fault enumeration: a fault-free run gives the number of sink calls, then every position
		base := c
		base.Enum, base.Sum, base.FF, base.SF = "", true, 0, -1
		s, k, src, S := runSession(base)
		prof := summarise(base, s, k, src, S)
		prof.ID = c.ID*1000000 + nextID
		prof.CID = c.ID
		tw.Emit(prof)
		if prof.Panic || prof.Blocked {
			tw.Flush()
			return // the fault-free run itself fails: not an I/O matter, nothing to enumerate
		}
		sub := 1
		run := func(x Case) {
			if blockedSeen {
				return // the remaining positions of this case are not run; the caller resumes with the next case
			}
			x.Enum, x.Sum = "", true
			s, k, src, S := runSession(x)
			f := summarise(x, s, k, src, S)
			f.ID = c.ID*1000000 + sub
			f.CID = c.ID
			sub++
			tw.Emit(f)
		}
		nw := prof.NWrites
		if c.Mode == "reader" {
			nw = 0
		}
		if c.Enum == "sink" || c.Enum == "both" {
			for _, kk := range positions(nw+1, c.Stride, 1) {
				x := c
				x.FF, x.SF = kk, -1
				run(x)
			}
		}
		if c.Enum == "src" || c.Enum == "both" {
			for _, kk := range positions(len(c.In), c.Stride, 0) {
				for _, short := range []bool{false, true} {
					if short && kk == 0 {
						continue
					}
					for _, se := range []string{"plain", "unexpected", "wrapeof"} {
						x := c
						x.SF, x.Short, x.SErr, x.FF = kk, short, se, 0
						run(x)
					}
				}
			}
		}
		if c.Enum == "both" {
			// both faults armed: a few source positions against every sink position
			for _, sf := range positions(len(c.In), (len(c.In)+2)/3, 0) {
				for _, kk := range positions(nw+1, c.Stride, 1) {
					x := c
					x.SF, x.Short, x.SErr, x.FF = sf, sf%2 == 1, []string{"plain", "unexpected", "wrapeof"}[(sf+kk)%3], kk
					run(x)
				}
			}
		}
		tw.Flush()
	})
	tw.Close()
	if blockedSeen {
		os.Exit(3)
	}
}
