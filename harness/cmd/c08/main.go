// c08: drives the real minify.Number / minify.Decimal for property C08.
// Input: ndjson cases {"id":n,"fn":"Number"|"Decimal","in":[bytes],"prec":p}
// Output: ndjson trace lines, one per call, as described in spec/C08Trace.tla.
package main

import (
	"encoding/json"
	"os"
	"unsafe"

	"github.com/tdewolff/minify/v2"
	"verifharness/lib"
)

type Case struct {
	ID   int       `json:"id"`
	Fn   string    `json:"fn"`
	In   lib.Bytes `json:"in"`
	Prec int       `json:"prec"`
}

type Event struct {
	ID      int       `json:"id"`
	Fn      string    `json:"fn"`
	In      lib.Bytes `json:"in"`
	Prec    int       `json:"prec"`
	Out     lib.Bytes `json:"out"`
	Panic   bool      `json:"panic"`
	Canary  bool      `json:"canary"`
	Inplace bool      `json:"inplace"`
	Msg     string    `json:"msg,omitempty"`
}

const guard = 8

func run(c Case) Event {
	// the lexeme sits in the middle of a larger buffer with guard bytes on both sides;
	// the slice handed to the helper has cap == len so that an append cannot hide a write
	buf := make([]byte, guard+len(c.In)+guard)
	for i := range buf {
		buf[i] = 0xA5
	}
	copy(buf[guard:], c.In)
	arg := buf[guard : guard+len(c.In) : guard+len(c.In)]
	ev := Event{ID: c.ID, Fn: c.Fn, In: c.In, Prec: c.Prec, Canary: true}
	var out []byte
	ev.Panic, ev.Msg = lib.Guard(func() {
		if c.Fn == "Number" {
			out = minify.Number(arg, c.Prec)
		} else {
			out = minify.Decimal(arg, c.Prec)
		}
	})
	for i := 0; i < guard; i++ {
		if buf[i] != 0xA5 || buf[guard+len(c.In)+i] != 0xA5 {
			ev.Canary = false
		}
	}
	if !ev.Panic {
		ev.Out = append(lib.Bytes{}, out...)
		if len(out) > 0 && len(arg) > 0 {
			lo := uintptr(unsafe.Pointer(&arg[0]))
			p := uintptr(unsafe.Pointer(&out[0]))
			ev.Inplace = p >= lo && p+uintptr(len(out)) <= lo+uintptr(len(arg))
			if !ev.Inplace {
				// result outside the slice it was given: bytes outside were exposed/touched
				ev.Canary = ev.Canary && false
			}
		} else {
			ev.Inplace = true
		}
	} else {
		ev.Out = lib.Bytes{}
	}
	return ev
}

func main() {
	if len(os.Args) < 3 {
		lib.Fatal("usage: c08 <cases.ndjson> <trace.ndjson>")
	}
	tw := lib.NewTraceWriter(os.Args[2])
	lib.ReadJSONLines(os.Args[1], func(line []byte) {
		var c Case
		if err := json.Unmarshal(line, &c); err != nil {
			lib.Fatal("bad case: %v", err)
		}
		tw.Emit(run(c))
	})
	tw.Close()
}
