// c02: drives the real js.Minifier for property C02 (identifier shortening).
// Input : ndjson cases {"id":n,"src":"<program text>","ver":<js.Minifier.Version, 0 = latest>}
// Output: ndjson, one line per case:
//   {"id":n,"src":..,"keep":<output with KeepVarNames=true>,"ren":<output with KeepVarNames=false>,
//    "errk":<error text or "">,"errr":<error text or "">,"panic":bool}
// Nothing is judged here: the outputs are projected by /verif/js/scope.js (acorn, independent of
// tdewolff/parse) and the relation is evaluated by TLC (spec/C02Trace.tla).
package main

import (
	"bytes"
	"encoding/json"
	"os"

	"github.com/tdewolff/minify/v2"
	"github.com/tdewolff/minify/v2/js"
	"verifharness/lib"
)

type Case struct {
	ID  int    `json:"id"`
	Src string `json:"src"`
	Ver int    `json:"ver"` // js.Minifier.Version (0 = latest); the renamer's input depends on it (catch binding removal)
}

type Event struct {
	ID    int    `json:"id"`
	Src   string `json:"src"`
	Ver   int    `json:"ver"`
	Keep  string `json:"keep"`
	Ren   string `json:"ren"`
	ErrK  string `json:"errk"`
	ErrR  string `json:"errr"`
	Panic bool   `json:"panic"`
	Msg   string `json:"msg,omitempty"`
}

func minifyOnce(src string, keep bool, ver int) (string, string) {
	m := minify.New()
	o := &js.Minifier{KeepVarNames: keep, Version: ver}
	var w bytes.Buffer
	// a fresh copy of the input for every call: the parser works in place on the caller's buffer
	in := bytes.NewBufferString(src)
	if err := o.Minify(m, &w, in, nil); err != nil {
		return "", err.Error()
	}
	return w.String(), ""
}

func run(c Case) Event {
	ev := Event{ID: c.ID, Src: c.Src, Ver: c.Ver}
	ev.Panic, ev.Msg = lib.Guard(func() {
		ev.Keep, ev.ErrK = minifyOnce(c.Src, true, c.Ver)
		ev.Ren, ev.ErrR = minifyOnce(c.Src, false, c.Ver)
	})
	return ev
}

func main() {
	if len(os.Args) < 3 {
		lib.Fatal("usage: c02 <cases.ndjson> <out.ndjson>")
	}
	tw := lib.NewTraceWriter(os.Args[2])
	lib.ReadJSONLines(os.Args[1], func(line []byte) {
		var c Case
		if err := json.Unmarshal(line, &c); err != nil {
			lib.Fatal("bad case: %v", err)
		}
		tw.Emit(run(c))
	})
	tw.Close()
}
