// c13: drives ONE shared, fully registered minify.M from many goroutines (property C13).
//
// usage: c13 <scenarios.ndjson> <trace.ndjson>          (built with -race; GORACE log_path=$C13_RACELOG)
//
// scenario file: first line {"kind":"docs","docs":[{"id":..,"b":base64}]}, then one scenario per line
//   base    every call on its OWN fresh registry with fresh option structs (the sequential reference)
//   seq     all calls one after the other on ONE registry (order independence without concurrency)
//   sched   a history generated from the TLC model spec/Conc.tla: script of start/parked/release/done
//           steps; parked = a goroutine sits inside a gate minifier (possibly nested below the real
//           HTML minifier) holding the registry's read lock while the other calls must complete
//   stress  G goroutines x their call lists on one registry while some readers stay parked in gates
//   cold    like stress without parked readers, run as the very first scenario of a fresh process (lazy initialisation)
//   cmdin   AddCmd with $in/$out placeholders (own registry; pinned known defect, own process)
//   htmldep shared *html.Minifier with the deprecated KeepConditionalComments (pinned known defect)
//   shape   sequential, instrumented registry: the tree of nested registry calls each document causes
// trace lines are uniform records {ev,sc,g,k,sh,key,h,err,races,o1,o2,note,tree}; the relation is in
// spec/ConcTrace.tla.  This program only calls the real public API and hashes what comes back.
package main

import (
	"bytes"
	"crypto/sha256"
	"encoding/base64"
	"encoding/hex"
	"encoding/json"
	"fmt"
	"io"
	"net/url"
	"os"
	"os/exec"
	"regexp"
	"runtime"
	"sort"
	"strconv"
	"strings"
	"sync"
	"sync/atomic"
	"time"

	"github.com/tdewolff/minify/v2"
	"github.com/tdewolff/minify/v2/css"
	"github.com/tdewolff/minify/v2/html"
	"github.com/tdewolff/minify/v2/js"
	mjson "github.com/tdewolff/minify/v2/json"
	"github.com/tdewolff/minify/v2/svg"
	mxml "github.com/tdewolff/minify/v2/xml"
	"github.com/tdewolff/parse/v2"
	"verifharness/lib"
)

// ---------------------------------------------------------------- input format

type Doc struct {
	ID string `json:"id"`
	B  string `json:"b"`
}

type Call struct {
	E    string `json:"e"`    // Minify | MinifyMimetype | Bytes | String | Reader | Writer | Match
	MT   string `json:"mt"`   // media type string handed to the API
	Doc  string `json:"doc"`  // document id
	Gate int    `json:"gate"` // id of the gate this call parks in (0 = none)
	Sh   string `json:"sh"`   // shape name of spec/Conc.tla (sched scenarios)
	Hold bool   `json:"hold"` // Writer/Reader only: stall the pipe at gate Gate (worker parked inside the real minifier)
	At   int    `json:"at"`   // Reader hold: bytes of output to read before stalling (the worker then blocks wherever its
	// next write is: possibly inside a nested minifier that writes an embedded resource)
}

type Op struct {
	Op string `json:"op"` // start | parked | release | done
	G  int    `json:"g"`
	K  int    `json:"k"`
}

type Scenario struct {
	Kind       string   `json:"kind"`
	ID         string   `json:"id"`
	Optset     int      `json:"optset"`
	Gomaxprocs int      `json:"gomaxprocs"`
	Calls      []Call   `json:"calls"`  // base, seq, cmdin, htmldep
	Progs      [][]Call `json:"progs"`  // sched, stress: program of goroutine g = Progs[g-1]
	Script     []Op     `json:"script"` // sched
	Parked     []Call   `json:"parked"` // stress: calls that stay parked during the whole run
	Docs       []Doc    `json:"docs"`   // kind == docs
	Args       []string `json:"args"`   // cmdin: command line
	Conc       bool     `json:"conc"`   // cmdin/htmldep: run the calls concurrently
}

// ---------------------------------------------------------------- trace format

type Line struct {
	Ev    string `json:"ev"`
	Sc    string `json:"sc"`
	G     int    `json:"g"`
	K     int    `json:"k"`
	Sh    string `json:"sh"`
	Key   string `json:"key"`
	H     string `json:"h"`
	Err   string `json:"err"`
	Races int    `json:"races"`
	O1    string `json:"o1"`
	O2    string `json:"o2"`
	Note  string `json:"note"`
	Tree  []any  `json:"tree"` // shape lines: [mediatype class, inline, [children]] of the nested calls
}

var (
	tw       *os.File
	docs     = map[string][]byte{}
	deadline = 20 * time.Second
	raceLog  string
	raceOff  int
	poisoned bool // a deadline expired: goroutines may be stuck for good, later scenarios are not run in this process
)

// emit writes one trace line unbuffered (a stuck scenario must not lose what was observed before it).
func emit(l Line) {
	if l.Tree == nil {
		l.Tree = []any{}
	}
	if l.Ev == "blocked" {
		poisoned = true
	}
	b, err := json.Marshal(l)
	if err != nil {
		lib.Fatal("marshal: %v", err)
	}
	tw.Write(append(b, '\n'))
}

// ---------------------------------------------------------------- gates

type gate struct {
	arrived chan struct{}
	release chan struct{}
	once    sync.Once
}

func (g *gate) open() { g.once.Do(func() { close(g.release) }) }

const maxGates = 256

type gateTable [maxGates]*gate

var curGates atomic.Pointer[gateTable]

// gateFn is a user minifier: it parks the calling goroutine (which holds the registry's read
// lock, twice when reached through an embedding minifier) until the script releases it.
func gateFn(_ *minify.M, w io.Writer, r io.Reader, params map[string]string) error {
	b, err := io.ReadAll(r)
	if err != nil {
		return err
	}
	id, _ := strconv.Atoi(params["id"])
	if t := curGates.Load(); t != nil && 0 < id && id < maxGates && t[id] != nil {
		g := t[id]
		select {
		case g.arrived <- struct{}{}:
		default:
		}
		<-g.release
	}
	w.Write([]byte("gate("))
	w.Write(b)
	_, err = w.Write([]byte(")"))
	return err
}

// failFn is a user minifier that fails AFTER it has written part of its output.
func failFn(_ *minify.M, w io.Writer, r io.Reader, params map[string]string) error {
	b, err := io.ReadAll(r)
	if err != nil {
		return err
	}
	if len(b) > 8 {
		b = b[:8]
	}
	w.Write([]byte("partial:"))
	w.Write(b)
	return fmt.Errorf("failfn: giving up after %d bytes of input", len(b))
}

func upperFn(_ *minify.M, w io.Writer, r io.Reader, params map[string]string) error {
	b, err := io.ReadAll(r)
	if err != nil {
		return err
	}
	_, err = w.Write(bytes.ToUpper(b))
	return err
}

// ---------------------------------------------------------------- the registry under test

var (
	reJS     = regexp.MustCompile("^(application|text)/(x-)?(java|ecma)script$")
	reJSON   = regexp.MustCompile("[/+]json$")
	reXML    = regexp.MustCompile("[/+]xml$")
	reGate   = regexp.MustCompile("^x-gatere/")
	reCmd    = regexp.MustCompile("^x-cmdre/")
	reCmdIO  = regexp.MustCompile("^x-cmdio/")
	reCmdOut = regexp.MustCompile("^x-cmdout/")
	reFail   = regexp.MustCompile("^x-failre/")
	reUpper  = regexp.MustCompile("/x-upper$")
	matchMTs = []string{"text/html", "text/css; inline=1", "image/svg+xml", "application/javascript", "text/x-ecmascript",
		"application/ld+json", "application/rss+xml", "text/xml; charset=utf-8", "x-gatere/a; id=0", "x-cmdre/q", "a/x-upper", "text/plain", "x-cmd/cat"}
)

type reg struct {
	m    *minify.M
	html *html.Minifier
	css  *css.Minifier
	svg  *svg.Minifier
	js   *js.Minifier
	json *mjson.Minifier
	xml  *mxml.Minifier
	cmd1 *exec.Cmd
	cmd2 *exec.Cmd
	cmd3 *exec.Cmd // $in placeholder
	cmd4 *exec.Cmd // $in and $out placeholders
	cmd5 *exec.Cmd // $out only: stdin in, result file out
	cmd6 *exec.Cmd // $out.ext only, served by a pattern
	cmd7 *exec.Cmd // copies its input to its output, then exits with status 3
}

// newReg builds the fully registered registry; the option structs are the SHARED values the
// property talks about (registered by pointer with m.Add / m.AddRegexp).
func newReg(optset int) *reg {
	r := &reg{m: minify.New()}
	switch optset {
	case 0:
		r.html, r.css, r.svg = &html.Minifier{}, &css.Minifier{}, &svg.Minifier{}
		r.js, r.json, r.xml = &js.Minifier{}, &mjson.Minifier{}, &mxml.Minifier{}
	case 1:
		r.html = &html.Minifier{KeepDocumentTags: true, KeepQuotes: true, KeepSpecialComments: true}
		r.css = &css.Minifier{Precision: 3}
		r.svg = &svg.Minifier{Precision: 4, KeepComments: true}
		r.js = &js.Minifier{Precision: 5, Version: 2019}
		r.json = &mjson.Minifier{Precision: 6}
		r.xml = &mxml.Minifier{KeepWhitespace: true}
		r.m.URL = &url.URL{Scheme: "https", Host: "example.com"} // shared, read by the html minifier
	default:
		r.html = &html.Minifier{KeepEndTags: true, KeepDefaultAttrVals: true, KeepWhitespace: true, KeepComments: true,
			TemplateDelims: html.GoTemplateDelims}
		r.css = &css.Minifier{KeepCSS2: true, Precision: 1}
		r.svg = &svg.Minifier{Precision: 1}
		r.js = &js.Minifier{KeepVarNames: true}
		r.json = &mjson.Minifier{KeepNumbers: true}
		r.xml = &mxml.Minifier{}
	}
	r.cmd1 = exec.Command("cat")
	r.cmd2 = exec.Command("cat", "-")
	r.cmd3 = exec.Command("cat", "$in.txt")
	r.cmd4 = exec.Command("cp", "$in", "$out")
	r.cmd5 = exec.Command("sh", "-c", "cat > $out")
	r.cmd6 = exec.Command("sh", "-c", "tr a-z A-Z > $out.txt")
	r.cmd7 = exec.Command("sh", "-c", "cat; exit 3")
	m := r.m
	m.Add("text/html", r.html)
	m.Add("text/css", r.css)
	m.Add("image/svg+xml", r.svg)
	m.AddRegexp(reJS, r.js)
	m.AddRegexp(reJSON, r.json)
	m.AddRegexp(reXML, r.xml)
	m.AddFunc("application/x-gate", gateFn)
	m.AddFuncRegexp(reGate, gateFn)
	m.AddCmd("x-cmd/cat", r.cmd1)
	m.AddCmdRegexp(reCmd, r.cmd2)
	m.AddCmd("x-cmd/in", r.cmd3)
	m.AddCmdRegexp(reCmdIO, r.cmd4)
	m.AddCmd("x-cmd/out", r.cmd5)
	m.AddCmdRegexp(reCmdOut, r.cmd6)
	m.AddCmd("x-cmd/fail", r.cmd7)
	m.AddFunc("text/x-failafter", failFn)
	m.AddFuncRegexp(reFail, failFn)
	m.AddFuncRegexp(reUpper, upperFn)
	return r
}

func cmdSnap(c *exec.Cmd) string {
	return fmt.Sprintf("{Path:%q Args:%q Env:%q Dir:%q Stdin:%v Stdout:%v Stderr:%v Process:%v State:%v}",
		c.Path, c.Args, c.Env, c.Dir, c.Stdin == nil, c.Stdout == nil, c.Stderr == nil, c.Process == nil, c.ProcessState == nil)
}

// snapshot renders every user-supplied option value (unexported fields included).
func (r *reg) snapshot() string {
	return fmt.Sprintf("html=%#v css=%#v svg=%#v js=%#v json=%#v xml=%#v cmd1=%s cmd2=%s cmd3=%s cmd4=%s cmd5=%s cmd6=%s cmd7=%s url=%v",
		*r.html, *r.css, *r.svg, *r.js, *r.json, *r.xml, cmdSnap(r.cmd1), cmdSnap(r.cmd2), cmdSnap(r.cmd3), cmdSnap(r.cmd4),
		cmdSnap(r.cmd5), cmdSnap(r.cmd6), cmdSnap(r.cmd7), r.m.URL)
}

// ---------------------------------------------------------------- one call through one entry point

type result struct {
	h, err, o1 string
}

func hashOf(parts ...[]byte) string {
	s := sha256.New()
	for _, p := range parts {
		s.Write([]byte(strconv.Itoa(len(p))))
		s.Write([]byte{':'})
		s.Write(p)
	}
	return hex.EncodeToString(s.Sum(nil)[:12])
}

func errStr(e error) string {
	if e == nil {
		return ""
	}
	return e.Error()
}

func paramStr(p map[string]string) string {
	ks := make([]string, 0, len(p))
	for k := range p {
		ks = append(ks, k)
	}
	sort.Strings(ks)
	var sb strings.Builder
	for _, k := range ks {
		sb.WriteString(k + "=" + p[k] + ";")
	}
	return sb.String()
}

// park stalls a stream wrapper at the call's gate: by now the wrapper's worker goroutine is inside the real
// minifier (it has consumed input we wrote / produced output we read) and holds the registry's read lock.
func park(c Call) {
	if !c.Hold || c.Gate <= 0 || c.Gate >= maxGates {
		return
	}
	if t := curGates.Load(); t != nil && t[c.Gate] != nil {
		g := t[c.Gate]
		select {
		case g.arrived <- struct{}{}:
		default:
		}
		<-g.release
	}
}

func doCall(m *minify.M, c Call) (res result) {
	src, ok := docs[c.Doc]
	if !ok {
		lib.Fatal("unknown doc %q", c.Doc)
	}
	in := make([]byte, len(src)) // per-call private copy of the input
	copy(in, src)
	var out []byte
	var err error
	extra := ""
	panicked, msg := lib.Guard(func() {
		switch c.E {
		case "Minify":
			var buf bytes.Buffer
			err = m.Minify(c.MT, &buf, bytes.NewReader(in))
			out = buf.Bytes()
		case "MinifyMimetype":
			var buf bytes.Buffer
			mimetype, params := parse.Mediatype([]byte(c.MT))
			err = m.MinifyMimetype(mimetype, &buf, bytes.NewReader(in), params)
			out = buf.Bytes()
		case "Bytes":
			out, err = m.Bytes(c.MT, in)
		case "String":
			var s string
			s, err = m.String(c.MT, string(in))
			out = []byte(s)
		case "Reader":
			rd := m.Reader(c.MT, bytes.NewReader(in))
			var first []byte
			if c.Hold {
				// read one byte: the worker has started writing its output and blocks on the rest of it
				k := c.At
				if k < 1 {
					k = 1
				}
				b1 := make([]byte, k)
				n, _ := io.ReadFull(rd, b1)
				first = b1[:n]
				park(c) // (a shorter output: the worker has already returned; parking then only delays the caller)
			}
			out, err = io.ReadAll(rd)
			out = append(first, out...)
		case "Writer":
			var buf bytes.Buffer
			w := m.Writer(c.MT, &buf)
			n := len(in)
			cut1, cut2 := n/3, 2*n/3
			if cut1 == 0 && n > 0 {
				cut1 = 1
				if cut2 < cut1 {
					cut2 = cut1
				}
			}
			for i, ch := range [][]byte{in[:cut1], in[cut1:cut2], in[cut2:]} {
				if _, werr := w.Write(ch); werr != nil {
					break // the minifier stopped reading; its error is what Close returns
				}
				if i == 0 && len(ch) > 0 {
					park(c) // the first chunk was consumed: the worker is reading inside the minifier
				}
			}
			err = w.Close()
			out = buf.Bytes()
		case "Match":
			s, params, fn := m.Match(c.MT)
			extra = s + "|" + paramStr(params) + "|" + strconv.FormatBool(fn != nil)
			if fn != nil {
				var buf bytes.Buffer
				err = fn(m, &buf, bytes.NewReader(in), params)
				out = buf.Bytes()
			}
		default:
			lib.Fatal("unknown entry %q", c.E)
		}
	})
	if panicked {
		return result{h: "PANIC", err: msg}
	}
	res.h = hashOf(out, []byte(extra), []byte(errStr(err)))
	res.err = errStr(err)
	o := out
	if len(o) > 160 {
		o = o[:160]
	}
	res.o1 = extra + "|" + strconv.Quote(string(o))
	return res
}

// doCallDL runs a sequential call under the deadline: a call that never returns (e.g. blocks on a lock it
// holds itself) must not hang the driver.  ok=false: the deadline expired (the goroutine is abandoned).
func doCallDL(m *minify.M, c Call) (res result, ok bool) {
	ch := make(chan result, 1)
	go func() { ch <- doCall(m, c) }()
	select {
	case res = <-ch:
		return res, true
	case <-time.After(deadline):
		return result{}, false
	}
}

func blockedSeq(sc *Scenario, i int, c Call) {
	emit(Line{Ev: "blocked", Sc: sc.ID, G: 0, K: i + 1, Key: keyOf(sc, c), Note: "sequential call did not return within the deadline (nothing else was running)"})
}

func keyOf(sc *Scenario, c Call) string {
	if sc.Kind == "cmdin" || sc.Kind == "htmldep" {
		return sc.Kind + ":" + strings.Join(sc.Args, " ") + ":" + c.E + "|" + c.MT + "|" + c.Doc
	}
	return c.E + "|" + c.MT + "|" + c.Doc + "|o" + strconv.Itoa(sc.Optset)
}

// ---------------------------------------------------------------- race log

func raceDelta() (int, string) {
	if raceLog == "" {
		return 0, ""
	}
	b, err := os.ReadFile(raceLog + "." + strconv.Itoa(os.Getpid()))
	if err != nil || len(b) <= raceOff {
		return 0, ""
	}
	fresh := b[raceOff:] // what the detector wrote during this scenario
	raceOff = len(b)
	n := bytes.Count(fresh, []byte("WARNING: DATA RACE"))
	if n == 0 {
		return 0, ""
	}
	if len(fresh) > 12000 {
		fresh = fresh[:12000] // the first reports, complete with both stacks
	}
	return n, string(fresh)
}

func endLine(sc *Scenario, before, after string, note string) {
	runtime.Gosched()
	d, rep := raceDelta()
	if rep != "" {
		note = note + "\n" + rep
	}
	emit(Line{Ev: "end", Sc: sc.ID, Races: d, O1: before, O2: after, Note: note})
}

// ---------------------------------------------------------------- scenario runners

func runBase(sc *Scenario) {
	emit(Line{Ev: "begin", Sc: sc.ID, Note: sc.Kind})
	for i, c := range sc.Calls {
		r := newReg(sc.Optset) // fresh registry and fresh option structs for every reference call
		before := r.snapshot()
		res, ok := doCallDL(r.m, c)
		if !ok {
			blockedSeq(sc, i, c)
			break
		}
		after := r.snapshot()
		emit(Line{Ev: "base", Sc: sc.ID, G: 0, K: i + 1, Key: keyOf(sc, c), H: res.h, Err: res.err, O1: before, O2: after, Note: res.o1})
	}
	endLine(sc, "", "", "")
}

func runSeq(sc *Scenario) {
	emit(Line{Ev: "begin", Sc: sc.ID, Note: sc.Kind})
	r := newReg(sc.Optset)
	before := r.snapshot()
	after := before
	for i, c := range sc.Calls {
		res, ok := doCallDL(r.m, c)
		if !ok {
			blockedSeq(sc, i, c)
			break
		}
		emit(Line{Ev: "ret", Sc: sc.ID, G: 0, K: i + 1, Key: keyOf(sc, c), H: res.h, Err: res.err, Note: res.o1})
	}
	if !poisoned {
		after = r.snapshot()
	}
	endLine(sc, before, after, "")
}

func runSched(sc *Scenario) {
	emit(Line{Ev: "begin", Sc: sc.ID, Note: sc.Kind})
	r := newReg(sc.Optset)
	before := r.snapshot()
	n := len(sc.Progs)
	var tbl gateTable
	starts := make([][]chan struct{}, n)
	dones := make([][]chan result, n)
	for g := 0; g < n; g++ {
		starts[g] = make([]chan struct{}, len(sc.Progs[g]))
		dones[g] = make([]chan result, len(sc.Progs[g]))
		for k, c := range sc.Progs[g] {
			starts[g][k] = make(chan struct{})
			dones[g][k] = make(chan result, 1)
			if c.Gate != 0 {
				tbl[c.Gate] = &gate{arrived: make(chan struct{}, 1), release: make(chan struct{})}
			}
		}
	}
	curGates.Store(&tbl)
	var wg sync.WaitGroup
	for g := 0; g < n; g++ {
		wg.Add(1)
		go func(g int) {
			defer wg.Done()
			for k, c := range sc.Progs[g] {
				<-starts[g][k]
				dones[g][k] <- doCall(r.m, c)
			}
		}(g)
	}
	started := make([][]bool, n)
	for g := range started {
		started[g] = make([]bool, len(sc.Progs[g]))
	}
	aborted := false
	for _, op := range sc.Script {
		g, k := op.G-1, op.K-1
		if g < 0 || g >= n || k < 0 || k >= len(sc.Progs[g]) {
			lib.Fatal("script step out of range in %s", sc.ID)
		}
		c := sc.Progs[g][k]
		switch op.Op {
		case "start":
			started[g][k] = true
			close(starts[g][k])
			emit(Line{Ev: "start", Sc: sc.ID, G: op.G, K: op.K, Sh: c.Sh, Key: keyOf(sc, c)})
		case "parked":
			select {
			case <-tbl[c.Gate].arrived:
				// the option structs while a call is parked half-way (e.g. below html, inside a nested call): they
				// must render as before the scenario - a change that is undone before the call returns shows here
				emit(Line{Ev: "parked", Sc: sc.ID, G: op.G, K: op.K, Sh: c.Sh, Key: keyOf(sc, c), O1: before, O2: r.snapshot()})
			case <-time.After(deadline):
				emit(Line{Ev: "blocked", Sc: sc.ID, G: op.G, K: op.K, Sh: c.Sh, Key: keyOf(sc, c), Note: "did not reach its gate within the deadline"})
				aborted = true
			}
		case "release":
			tbl[c.Gate].open()
			emit(Line{Ev: "release", Sc: sc.ID, G: op.G, K: op.K, Sh: c.Sh, Key: keyOf(sc, c)})
		case "done":
			select {
			case res := <-dones[g][k]:
				emit(Line{Ev: "done", Sc: sc.ID, G: op.G, K: op.K, Sh: c.Sh, Key: keyOf(sc, c), H: res.h, Err: res.err, Note: res.o1})
			case <-time.After(deadline):
				emit(Line{Ev: "blocked", Sc: sc.ID, G: op.G, K: op.K, Sh: c.Sh, Key: keyOf(sc, c), Note: "did not return within the deadline while only other calls were parked"})
				aborted = true
			}
		default:
			lib.Fatal("unknown op %q", op.Op)
		}
		if aborted {
			break
		}
	}
	// let everything drain (after an abort: open every gate and start every call)
	for id := range tbl {
		if tbl[id] != nil {
			tbl[id].open()
		}
	}
	for g := 0; g < n; g++ {
		for k := range starts[g] {
			if !started[g][k] {
				close(starts[g][k])
			}
		}
	}
	fin := make(chan struct{})
	go func() { wg.Wait(); close(fin) }()
	note := ""
	drain := deadline
	if aborted && drain > 5*time.Second {
		drain = 5 * time.Second // every gate is open and every call started: correct code is done in milliseconds
	}
	select {
	case <-fin:
	case <-time.After(drain):
		note = "goroutines still running after the scenario (leaked)"
		if !aborted {
			emit(Line{Ev: "blocked", Sc: sc.ID, Note: note})
		}
	}
	after := ""
	if note == "" {
		after = r.snapshot()
	} else {
		after = before // cannot read the structs race-free while calls are stuck; the blocked line is the verdict
	}
	endLine(sc, before, after, note)
}

func runStress(sc *Scenario) {
	emit(Line{Ev: "begin", Sc: sc.ID, Note: sc.Kind})
	r := newReg(sc.Optset)
	before := r.snapshot()
	var tbl gateTable
	for _, c := range sc.Parked {
		tbl[c.Gate] = &gate{arrived: make(chan struct{}, 1), release: make(chan struct{})}
	}
	curGates.Store(&tbl)
	pres := make([]chan result, len(sc.Parked))
	for i, c := range sc.Parked {
		pres[i] = make(chan result, 1)
		go func(i int, c Call) { pres[i] <- doCall(r.m, c) }(i, c)
	}
	ok := true
	for i, c := range sc.Parked {
		select {
		case <-tbl[c.Gate].arrived:
			emit(Line{Ev: "parkedx", Sc: sc.ID, G: -(i + 1), K: 1, Key: keyOf(sc, c), O1: before, O2: r.snapshot()})
		case <-time.After(deadline):
			emit(Line{Ev: "blocked", Sc: sc.ID, G: -(i + 1), K: 1, Key: keyOf(sc, c), Note: "parked reader did not reach its gate"})
			ok = false
		}
	}
	n := len(sc.Progs)
	results := make([][]result, n)
	finished := make([]int32, n)
	if ok {
		var wg sync.WaitGroup
		startAll := make(chan struct{})
		for g := 0; g < n; g++ {
			results[g] = make([]result, len(sc.Progs[g]))
			wg.Add(1)
			go func(g int) {
				defer wg.Done()
				<-startAll
				for k, c := range sc.Progs[g] {
					results[g][k] = doCall(r.m, c)
				}
				atomic.StoreInt32(&finished[g], 1)
			}(g)
		}
		close(startAll)
		fin := make(chan struct{})
		go func() { wg.Wait(); close(fin) }()
		select {
		case <-fin:
			for g := 0; g < n; g++ {
				for k, c := range sc.Progs[g] {
					res := results[g][k]
					emit(Line{Ev: "ret", Sc: sc.ID, G: g + 1, K: k + 1, Key: keyOf(sc, c), H: res.h, Err: res.err, Note: res.o1})
				}
			}
		case <-time.After(2 * deadline):
			ok = false
			for g := 0; g < n; g++ {
				if atomic.LoadInt32(&finished[g]) == 0 {
					emit(Line{Ev: "blocked", Sc: sc.ID, G: g + 1, Note: "goroutine did not finish its calls while readers were parked"})
				}
			}
		}
	}
	for id := range tbl {
		if tbl[id] != nil {
			tbl[id].open()
		}
	}
	for i, c := range sc.Parked {
		drain := deadline
		if !ok && drain > 5*time.Second {
			drain = 5 * time.Second
		}
		select {
		case res := <-pres[i]:
			emit(Line{Ev: "ret", Sc: sc.ID, G: -(i + 1), K: 1, Key: keyOf(sc, c), H: res.h, Err: res.err, Note: res.o1})
		case <-time.After(drain):
			if ok {
				emit(Line{Ev: "blocked", Sc: sc.ID, G: -(i + 1), K: 1, Key: keyOf(sc, c), Note: "released reader did not return"})
			}
			ok = false
		}
	}
	after := before
	if ok {
		after = r.snapshot()
	}
	endLine(sc, before, after, "")
}

// ---------------------------------------------------------------- shape of a call (sequential, instrumented)

type recNode struct {
	mt   string
	inl  bool
	kids []*recNode
}

func (n *recNode) tree() []any {
	ks := []any{}
	for _, k := range n.kids {
		ks = append(ks, k.tree())
	}
	return []any{n.mt, n.inl, ks}
}

var (
	recRoot  *recNode
	recStack []*recNode
	recSnap  func() string // renders the user's option structs (set per shape call)
	recWant  string        // their rendering before the call
	recSeen  string        // first different rendering seen while a NESTED registry call was entered
)

// wrapRec records the tree of nested registry calls; only used by the sequential "shape" scenarios (the
// registries of all other scenarios hold the real minifiers unwrapped).
func wrapRec(class string, f minify.MinifierFunc) minify.MinifierFunc {
	return func(m *minify.M, w io.Writer, r io.Reader, params map[string]string) error {
		n := &recNode{mt: class, inl: params != nil && params["inline"] == "1"}
		if len(recStack) == 0 {
			recRoot = n
		} else {
			// inside a nested call: the option structs must look exactly as before the outer call (a change that
			// is undone before the outer call returns is visible only here)
			if recSnap != nil && recSeen == "" {
				if now := recSnap(); now != recWant {
					recSeen = now
				}
			}
			p := recStack[len(recStack)-1]
			p.kids = append(p.kids, n)
		}
		recStack = append(recStack, n)
		err := f(m, w, r, params)
		recStack = recStack[:len(recStack)-1]
		return err
	}
}

// runShape: which nested registry calls does this document cause?  Compared by ConcTrace with the call
// shape the design model assumes for it (a difference is DRIFT information, not a verdict).
func runShape(sc *Scenario) {
	emit(Line{Ev: "begin", Sc: sc.ID, Note: sc.Kind})
	for i, c := range sc.Calls {
		r := newReg(sc.Optset)
		_, _, cmdFn := r.m.Match("x-cmd/cat")
		_, _, cmd2Fn := r.m.Match("x-cmdre/x")
		// the same registrations in the same order, each minifier wrapped by the recorder
		m2 := minify.New()
		m2.AddFunc("text/html", wrapRec("html", r.html.Minify))
		m2.AddFunc("text/css", wrapRec("css", r.css.Minify))
		m2.AddFunc("image/svg+xml", wrapRec("svg", r.svg.Minify))
		m2.AddFuncRegexp(reJS, wrapRec("js", r.js.Minify))
		m2.AddFuncRegexp(reJSON, wrapRec("json", r.json.Minify))
		m2.AddFuncRegexp(reXML, wrapRec("xml", r.xml.Minify))
		m2.AddFunc("application/x-gate", wrapRec("gate", gateFn))
		m2.AddFuncRegexp(reGate, wrapRec("gatere", gateFn))
		m2.AddFunc("x-cmd/cat", wrapRec("cmd", cmdFn))
		m2.AddFuncRegexp(reCmd, wrapRec("cmd", cmd2Fn))
		_, _, cmd3Fn := r.m.Match("x-cmd/in")
		_, _, cmd4Fn := r.m.Match("x-cmdio/x")
		m2.AddFunc("x-cmd/in", wrapRec("cmdin", cmd3Fn))
		m2.AddFuncRegexp(reCmdIO, wrapRec("cmdin", cmd4Fn))
		_, _, cmd5Fn := r.m.Match("x-cmd/out")
		_, _, cmd6Fn := r.m.Match("x-cmdout/x")
		m2.AddFunc("x-cmd/out", wrapRec("cmdin", cmd5Fn))
		m2.AddFuncRegexp(reCmdOut, wrapRec("cmdin", cmd6Fn))
		_, _, cmd7Fn := r.m.Match("x-cmd/fail")
		m2.AddFunc("x-cmd/fail", wrapRec("cmd", cmd7Fn))
		m2.AddFunc("text/x-failafter", wrapRec("failfn", failFn))
		m2.AddFuncRegexp(reFail, wrapRec("failfn", failFn))
		m2.AddFuncRegexp(reUpper, wrapRec("upper", upperFn))
		recRoot, recStack = nil, nil
		recSnap, recWant, recSeen = r.snapshot, r.snapshot(), ""
		entry := "Bytes"
		if c.E == "Match" {
			entry = "Match" // the recorder sits in the function Match returns
		}
		res, ok := doCallDL(m2, Call{E: entry, MT: c.MT, Doc: c.Doc})
		if !ok {
			blockedSeq(sc, i, c)
			break
		}
		tree := []any{"none", false, []any{}}
		if recRoot != nil {
			tree = recRoot.tree()
		}
		during := recSeen
		if during == "" {
			during = r.snapshot() // nothing different seen inside: the rendering after the call
		}
		emit(Line{Ev: "shape", Sc: sc.ID, K: i + 1, Sh: c.Sh, Key: keyOf(sc, c), H: res.h, Err: res.err, Tree: tree, O1: recWant, O2: during, Note: res.o1})
		recSnap = nil
	}
	endLine(sc, "", "", "")
}

// runCmdIn: AddCmd with $in/$out placeholders on a registry of its own.
func runCmdIn(sc *Scenario) {
	emit(Line{Ev: "begin", Sc: sc.ID, Note: sc.Kind})
	mk := func() (*minify.M, *exec.Cmd) {
		m := minify.New()
		cmd := exec.Command(sc.Args[0], sc.Args[1:]...)
		m.AddCmd("x-cmd/in", cmd)
		return m, cmd
	}
	for i, c := range sc.Calls {
		m, cmd := mk()
		b := cmdSnap(cmd)
		res := doCall(m, c)
		emit(Line{Ev: "base", Sc: sc.ID, K: i + 1, Key: keyOf(sc, c), H: res.h, Err: res.err, O1: b, O2: cmdSnap(cmd), Note: res.o1})
	}
	m, cmd := mk()
	before := cmdSnap(cmd)
	if sc.Conc {
		results := make([]result, len(sc.Calls))
		var wg sync.WaitGroup
		for i, c := range sc.Calls {
			wg.Add(1)
			go func(i int, c Call) { defer wg.Done(); results[i] = doCall(m, c) }(i, c)
		}
		wg.Wait()
		for i, c := range sc.Calls {
			emit(Line{Ev: "ret", Sc: sc.ID, G: i + 1, K: 1, Key: keyOf(sc, c), H: results[i].h, Err: results[i].err, Note: results[i].o1})
		}
	} else {
		for i, c := range sc.Calls {
			res := doCall(m, c)
			emit(Line{Ev: "ret", Sc: sc.ID, G: 1, K: i + 1, Key: keyOf(sc, c), H: res.h, Err: res.err, Note: res.o1})
		}
	}
	endLine(sc, before, cmdSnap(cmd), "")
}

// runHtmlDep: one shared *html.Minifier with the deprecated option KeepConditionalComments.
func runHtmlDep(sc *Scenario) {
	emit(Line{Ev: "begin", Sc: sc.ID, Note: sc.Kind})
	mk := func() (*minify.M, *html.Minifier) {
		m := minify.New()
		o := &html.Minifier{KeepConditionalComments: true}
		m.Add("text/html", o)
		return m, o
	}
	// the deprecation notice goes to os.Stdout; keep it out of the way
	devnull, _ := os.OpenFile(os.DevNull, os.O_WRONLY, 0)
	saved := os.Stdout
	if devnull != nil {
		os.Stdout = devnull
	}
	for i, c := range sc.Calls {
		m, o := mk()
		b := fmt.Sprintf("%#v", *o)
		res := doCall(m, c)
		emit(Line{Ev: "base", Sc: sc.ID, K: i + 1, Key: keyOf(sc, c), H: res.h, Err: res.err, O1: b, O2: fmt.Sprintf("%#v", *o), Note: res.o1})
	}
	m, o := mk()
	before := fmt.Sprintf("%#v", *o)
	if sc.Conc {
		results := make([]result, len(sc.Calls))
		var wg sync.WaitGroup
		for i, c := range sc.Calls {
			wg.Add(1)
			go func(i int, c Call) { defer wg.Done(); results[i] = doCall(m, c) }(i, c)
		}
		wg.Wait()
		for i, c := range sc.Calls {
			emit(Line{Ev: "ret", Sc: sc.ID, G: i + 1, K: 1, Key: keyOf(sc, c), H: results[i].h, Err: results[i].err, Note: results[i].o1})
		}
	} else {
		for i, c := range sc.Calls {
			res := doCall(m, c)
			emit(Line{Ev: "ret", Sc: sc.ID, G: 1, K: i + 1, Key: keyOf(sc, c), H: res.h, Err: res.err, Note: res.o1})
		}
	}
	after := fmt.Sprintf("%#v", *o)
	os.Stdout = saved
	if devnull != nil {
		devnull.Close()
	}
	endLine(sc, before, after, "")
}

func main() {
	if len(os.Args) < 3 {
		lib.Fatal("usage: c13 <scenarios.ndjson> <trace.ndjson>")
	}
	if ms, err := strconv.Atoi(os.Getenv("C13_DEADLINE_MS")); err == nil && ms > 0 {
		deadline = time.Duration(ms) * time.Millisecond
	}
	raceLog = os.Getenv("C13_RACELOG")
	var err error
	if tw, err = os.Create(os.Args[2]); err != nil {
		lib.Fatal("create trace: %v", err)
	}
	defaultProcs := runtime.GOMAXPROCS(0)
	lib.ReadJSONLines(os.Args[1], func(line []byte) {
		var sc Scenario
		if err := json.Unmarshal(line, &sc); err != nil {
			lib.Fatal("bad scenario: %v", err)
		}
		if sc.Kind == "docs" {
			for _, d := range sc.Docs {
				b, err := base64.StdEncoding.DecodeString(d.B)
				if err != nil {
					lib.Fatal("bad doc %s: %v", d.ID, err)
				}
				docs[d.ID] = b
			}
			return
		}
		if sc.Gomaxprocs > 0 {
			runtime.GOMAXPROCS(sc.Gomaxprocs)
		} else {
			runtime.GOMAXPROCS(defaultProcs)
		}
		if poisoned {
			emit(Line{Ev: "begin", Sc: sc.ID, Note: sc.Kind})
			emit(Line{Ev: "end", Sc: sc.ID, Note: "skipped"})
			return
		}
		switch sc.Kind {
		case "base":
			runBase(&sc)
		case "seq":
			runSeq(&sc)
		case "sched":
			runSched(&sc)
		case "stress", "cold":
			// cold: the same runner, but the scenario is the FIRST thing a fresh process does (no reference call, no
			// other scenario before it): every goroutine makes its first call of a media type at the same moment
			runStress(&sc)
		case "cmdin":
			runCmdIn(&sc)
		case "htmldep":
			runHtmlDep(&sc)
		case "shape":
			runShape(&sc)
		default:
			lib.Fatal("unknown scenario kind %q", sc.Kind)
		}
	})
	tw.Close()
}
