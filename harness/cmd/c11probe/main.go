package main

import (
	"bufio"
	"fmt"
	"os"
	"regexp"
	"strings"

	"github.com/tdewolff/minify/v2"
	"github.com/tdewolff/minify/v2/css"
	"github.com/tdewolff/minify/v2/html"
	"github.com/tdewolff/minify/v2/js"
	"github.com/tdewolff/minify/v2/json"
)

func main() {
	m := minify.New()
	m.AddFunc("text/css", css.Minify)
	m.Add("text/html", &html.Minifier{TemplateDelims: [2]string{"{{", "}}"}})
	m.AddFuncRegexp(regexp.MustCompile("^(application|text)/(x-)?(java|ecma)script$"), js.Minify)
	m.AddFuncRegexp(regexp.MustCompile("[/+]json$"), json.Minify)
	sc := bufio.NewScanner(os.Stdin)
	for sc.Scan() {
		s := strings.ReplaceAll(sc.Text(), `\n`, "\n")
		out, err := m.String("text/html", s)
		fmt.Printf("IN : %q\nOUT: %q\nERR: %v\n", s, out, err)
	}
}
