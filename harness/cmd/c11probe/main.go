package main

import (
	"bufio"
	"fmt"
	"os"
	"regexp"

	"github.com/tdewolff/minify/v2"
	"github.com/tdewolff/minify/v2/css"
	"github.com/tdewolff/minify/v2/html"
	"github.com/tdewolff/minify/v2/js"
	"github.com/tdewolff/minify/v2/json"
	"github.com/tdewolff/minify/v2/svg"
	"github.com/tdewolff/minify/v2/xml"
)

func main() {
	m := minify.New()
	m.AddFunc("text/css", css.Minify)
	m.AddFunc("text/html", html.Minify)
	m.AddFunc("image/svg+xml", svg.Minify)
	m.AddFuncRegexp(regexp.MustCompile("^(application|text)/(x-)?(java|ecma)script$"), js.Minify)
	m.AddFuncRegexp(regexp.MustCompile("[/+]json$"), json.Minify)
	m.AddFuncRegexp(regexp.MustCompile("[/+]xml$"), xml.Minify)
	sc := bufio.NewScanner(os.Stdin)
	sc.Buffer(make([]byte, 1<<20), 1<<20)
	for sc.Scan() {
		line := sc.Text()
		var mt, in string
		fmt.Sscanf(line, "%s", &mt)
		in = line[len(mt)+1:]
		s, err := regexp.MustCompile(`\\n`).ReplaceAllString(in, "\n"), error(nil)
		out, err := m.String(mt, s)
		fmt.Printf("%s\n   IN : %q\n   OUT: %q\n   ERR: %v\n", mt, s, out, err)
	}
}
