// c11: embedded resources (property C11).
//
// Input : ndjson cases
//
//	{"id":n,"host":"html|svg|css","regs":[{"k":"Add|AddFunc|AddRegexp|AddFuncRegexp","lit":[bytes],"pat":p,
//	  "beh":"stub|fail|fail2|plainfail|real","real":"css|js|html|svg|json|xml"}],
//	 "parts":[{"lit":[bytes]} | {"kind":K,"hastype":b,"type":[bytes],"payload":[bytes],"mt":[bytes],"enc":"pct|b64","quote":"dq|sq",
//	           "attrs":[bytes],"tmpl":b}]}   opts: html.Minifier options bit mask, 32 = TemplateDelims {{ }}
//
// The driver renders the host document (escaping each payload for its host syntax), builds a real
// minify.M with recording stub minifiers / recording wrappers around the real minifiers, calls the
// real host minifier, and projects the output back with parsers that are independent of the code
// under test (golang.org/x/net/html tokenizer, encoding/xml, a small url() scanner, RFC 2397 decoding
// with encoding/base64).  It records, per case: the rendered input, the slot table, the nested
// call log (who ran, params, payload received, bytes returned, failure), the decoded output slots
// and the returned error.  Nothing is judged here; spec/C11Trace.tla evaluates the relation.
package main

import (
	"bytes"
	"encoding/base64"
	"encoding/json"
	"encoding/xml"
	"fmt"
	"io"
	"os"
	"regexp"
	"runtime"
	"sort"
	"strconv"
	"strings"
	"sync"

	"github.com/tdewolff/minify/v2"
	"github.com/tdewolff/minify/v2/css"
	mhtml "github.com/tdewolff/minify/v2/html"
	"github.com/tdewolff/minify/v2/js"
	mjson "github.com/tdewolff/minify/v2/json"
	"github.com/tdewolff/minify/v2/svg"
	mxml "github.com/tdewolff/minify/v2/xml"
	"github.com/tdewolff/parse/v2"
	xhtml "golang.org/x/net/html"
	"verifharness/lib"
)

// index -> concrete regular expression (meaning in spec/Registry.tla PatMatch)
var patSrc = []string{"", `^text/`, `[/+]xml$`, `.*`, `^(application|text)/(x-)?(java|ecma)script$`, `image/.*`, `[/+]json$`}

type Reg struct {
	K    string    `json:"k"`
	Lit  lib.Bytes `json:"lit"`
	Pat  int       `json:"pat"`
	Beh  string    `json:"beh"`
	Real string    `json:"real"`
}

type Part struct {
	Lit     lib.Bytes `json:"lit"`
	Kind    string    `json:"kind"`
	HasType bool      `json:"hastype"`
	Type    lib.Bytes `json:"type"`
	Payload lib.Bytes `json:"payload"`
	MT      lib.Bytes `json:"mt"`
	Enc     string    `json:"enc"`
	Quote   string    `json:"quote"`
	Attrs   lib.Bytes `json:"attrs"` // raw elements: further attributes, written after type= (e.g. " src=x.json")
	Tmpl    bool      `json:"tmpl"`  // the payload holds a template delimiter and TemplateDelims is set (opts&32)
}

type Case struct {
	ID    int    `json:"id"`
	Host  string `json:"host"`
	Opts  int    `json:"opts"`
	Regs  []Reg  `json:"regs"`
	Parts []Part `json:"parts"`
	// an earlier document minified on the same registry before the judged one (its own result is not judged)
	WarmHost  string `json:"warmhost"`
	WarmParts []Part `json:"warmparts"`
}

type KV [2]lib.Bytes

// ---- trace records -----------------------------------------------------------------------

type RegStep struct {
	Op   string    `json:"op"`
	Sid  int       `json:"sid"`
	Lit  lib.Bytes `json:"lit"`
	Pat  int       `json:"pat"`
	Cmd  int       `json:"cmd"`
	Beh  string    `json:"beh"`
	Real string    `json:"real"`
}

type Slot struct {
	Kind    string    `json:"kind"`
	HasType bool      `json:"hastype"`
	Type    lib.Bytes `json:"type"`
	Payload lib.Bytes `json:"payload"` // the embedded content (what the host syntax decodes to)
	MT      lib.Bytes `json:"mt"`      // data URI: media type text
	Tmpl    bool      `json:"tmpl"`    // text with a template delimiter under TemplateDelims: written as is, never minified
	Raw     lib.Bytes `json:"raw"`     // data URI: the URI as written (after host-level unescaping)
	Lo      int       `json:"lo"`      // byte range of the slot's construct in the rendered input (0-based, [lo,hi))
	Hi      int       `json:"hi"`
	LoLine  int       `json:"loline"` // the same range as 1-based line/column (bytes; the rendered hosts are ASCII around slots)
	LoCol   int       `json:"locol"`
	HiLine  int       `json:"hiline"`
	HiCol   int       `json:"hicol"`
}

type Call struct {
	Sid        int       `json:"sid"`
	Depth      int       `json:"depth"`
	Params     []KV      `json:"params"`
	Payload    lib.Bytes `json:"payload"`
	PayloadDec lib.Bytes `json:"payloaddec"` // payload with the host's character references resolved (independent decoder)
	Out        lib.Bytes `json:"out"`
	OutDec     lib.Bytes `json:"outdec"`
	Fail       bool      `json:"fail"`
	Direct     lib.Bytes `json:"direct"` // real minifiers: result of calling the same minifier directly on the payload
	DirectFail bool      `json:"directfail"`
	HasDirect  bool      `json:"hasdirect"`
}

type OutSlot struct {
	Found bool      `json:"found"`
	Raw   lib.Bytes `json:"raw"`  // attribute value / element text / URI as decoded by the host parser
	Data  lib.Bytes `json:"data"` // embedded content (for data URIs: RFC 2397 decoded)
	MT    lib.Bytes `json:"mt"`
	Bad   string    `json:"bad"` // why the slot could not be projected ("" if fine)
}

type ErrRec struct {
	Kind string `json:"kind"` // nil | parse | stub | other | panic
	Line int    `json:"line"`
	Col  int    `json:"col"`
	Sid  int    `json:"sid"`
	Msg  string `json:"msg"`
}

type Event struct {
	ID       int       `json:"id"`
	Host     string    `json:"host"`
	Opts     int       `json:"opts"`
	Warm     lib.Bytes `json:"warm"` // the earlier document on the same registry ("" if none)
	Regs     []RegStep `json:"regs"`
	Slots    []Slot    `json:"slots"`
	Input    lib.Bytes `json:"input"`
	Output   lib.Bytes `json:"output"`
	Err      ErrRec    `json:"err"`
	Calls    []Call    `json:"calls"`
	OutSlots []OutSlot `json:"outslots"`
	OutBad   string    `json:"outbad"`   // output as a whole not parseable by the independent host parser
	LineLens []int     `json:"linelens"` // byte length of every line of the input (lines end at \n)
}

// ---- recording stubs and wrappers ---------------------------------------------------------

type plainErr struct{ sid int }

func (e *plainErr) Error() string { return "stub " + strconv.Itoa(e.sid) + " failed" }

type recorder struct {
	calls  []*Call
	depth  int
	silent bool
	host   string
	fails  map[*parse.Error]int
}

func kvs(m map[string]string) []KV {
	out := []KV{}
	keys := make([]string, 0, len(m))
	for k := range m {
		keys = append(keys, k)
	}
	sort.Strings(keys)
	for _, k := range keys {
		out = append(out, KV{lib.Bytes(k), lib.Bytes(m[k])})
	}
	return out
}

func despace(b []byte) []byte {
	out := make([]byte, 0, len(b))
	for _, c := range b {
		if c != ' ' && c != '\n' {
			out = append(out, c)
		}
	}
	return out
}

type teeWriter struct {
	w   io.Writer
	buf *bytes.Buffer
}

func (t teeWriter) Write(b []byte) (int, error) {
	t.buf.Write(b)
	return t.w.Write(b)
}

type realFn func(*minify.M, io.Writer, io.Reader, map[string]string) error

func realMinifier(name string) realFn {
	switch name {
	case "css":
		return css.Minify
	case "js":
		return js.Minify
	case "html":
		return mhtml.Minify
	case "svg":
		return svg.Minify
	case "json":
		return mjson.Minify
	case "xml":
		return mxml.Minify
	}
	lib.Fatal("unknown real minifier %q", name)
	return nil
}

// payloadOf copies what the reader will deliver without consuming it when the reader exposes its
// buffer (buffer.Reader does: the nested real minifier then works in place on the host's bytes
// exactly as it does without a recorder); otherwise the reader is drained and replaced.
func payloadOf(r io.Reader) ([]byte, io.Reader) {
	if br, ok := r.(interface{ Bytes() []byte }); ok {
		return append([]byte{}, br.Bytes()...), r
	}
	b, _ := io.ReadAll(r)
	return b, bytes.NewReader(b)
}

// sharedMinifier returns ONE minifier value per registration, as in m.Add("image/svg+xml", &svg.Minifier{}):
// every nested call on the registry goes to the same value (options that a call derives from its params must
// not stick to it).  The direct call of the commutation law uses the package-level function, i.e. a fresh value.
func sharedMinifier(name string) minify.Minifier {
	switch name {
	case "css":
		return &css.Minifier{}
	case "js":
		return &js.Minifier{}
	case "html":
		return &mhtml.Minifier{}
	case "svg":
		return &svg.Minifier{}
	case "json":
		return &mjson.Minifier{}
	case "xml":
		return &mxml.Minifier{}
	}
	lib.Fatal("unknown real minifier %q", name)
	return nil
}

func (rec *recorder) minifier(sid int, reg Reg) minify.MinifierFunc {
	var real realFn
	var fresh realFn
	if reg.Beh == "real" {
		real = sharedMinifier(reg.Real).Minify
		fresh = realMinifier(reg.Real)
	}
	return func(m *minify.M, w io.Writer, r io.Reader, params map[string]string) error {
		payload, rd := payloadOf(r)
		if rec.silent {
			if real != nil {
				return real(m, w, rd, params)
			}
			return rec.stub(sid, reg.Beh, w, payload, nil)
		}
		c := &Call{Sid: sid, Depth: rec.depth, Params: kvs(params), Payload: payload, Out: lib.Bytes{}, Direct: lib.Bytes{}}
		rec.calls = append(rec.calls, c)
		rec.depth++
		defer func() { rec.depth-- }()
		var buf bytes.Buffer
		var err error
		if real != nil {
			err = real(m, teeWriter{w, &buf}, rd, params)
		} else {
			err = rec.stub(sid, reg.Beh, teeWriter{w, &buf}, payload, c)
		}
		c.Out = append(lib.Bytes{}, buf.Bytes()...)
		c.Fail = err != nil
		if real != nil {
			// its own minifier (a fresh value) called directly on a private copy of the payload with the same params
			rec.silent = true
			var dbuf bytes.Buffer
			derr := fresh(m, &dbuf, bytes.NewReader(append([]byte{}, payload...)), params)
			rec.silent = false
			c.HasDirect, c.Direct, c.DirectFail = true, append(lib.Bytes{}, dbuf.Bytes()...), derr != nil
		}
		return err
	}
}

// test fixture (mirrored in spec/Embed.tla StubOut): "S<sid>:" followed by the payload without blanks/newlines
func (rec *recorder) stub(sid int, beh string, w io.Writer, payload []byte, c *Call) error {
	switch beh {
	case "stub":
		w.Write([]byte("S" + strconv.Itoa(sid) + ":"))
		w.Write(despace(payload))
		return nil
	case "fail": // error at the first byte of the payload
		e := parse.NewError(bytes.NewReader(payload), 0, "stub %d failed", sid)
		rec.fails[e] = sid
		return e
	case "fail2": // error on the second line of the payload (first byte after the first newline)
		off := bytes.IndexByte(payload, '\n') + 1
		e := parse.NewError(bytes.NewReader(payload), off, "stub %d failed", sid)
		rec.fails[e] = sid
		return e
	case "plainfail": // an error without position information
		return &plainErr{sid}
	}
	lib.Fatal("bad stub behaviour %q", beh)
	return nil
}

// ---- rendering -----------------------------------------------------------------------------

func escAttr(b []byte, quote string) []byte {
	return escAttrX(b, quote, false)
}

func escAttrX(b []byte, quote string, isXML bool) []byte {
	var out []byte
	for _, c := range b {
		switch {
		case c == '&':
			out = append(out, "&amp;"...)
		case c == '<' && isXML:
			out = append(out, "&lt;"...)
		case c == '"' && quote == "dq":
			out = append(out, "&quot;"...)
		case c == '\'' && quote == "sq":
			out = append(out, "&#39;"...)
		default:
			out = append(out, c)
		}
	}
	return out
}

func q(quote string) string {
	if quote == "sq" {
		return "'"
	}
	return "\""
}

const hexd = "0123456789ABCDEF"

// percent-encoding of a data URI payload by the test renderer: everything outside a conservative
// unreserved set is escaped (independent of the table in the code under test)
func pctEncode(b []byte, plus bool) []byte {
	var out []byte
	for _, c := range b {
		if plus && c == '+' { // RFC 2397 data is URL-escaped, not form-encoded: a literal + is a plus sign
			out = append(out, c)
		} else if c >= 'a' && c <= 'z' || c >= 'A' && c <= 'Z' || c >= '0' && c <= '9' || strings.IndexByte("-_.~:/{}=", c) >= 0 {
			out = append(out, c)
		} else {
			out = append(out, '%', hexd[c>>4], hexd[c&15])
		}
	}
	return out
}

func dataURI(p Part) []byte {
	out := append([]byte("data:"), p.MT...)
	if p.Enc == "b64" {
		out = append(out, ";base64,"...)
		out = append(out, base64.StdEncoding.EncodeToString(p.Payload)...)
	} else {
		out = append(out, ',')
		out = append(out, pctEncode(p.Payload, p.Enc == "pctplus")...)
	}
	return out
}

func containsFold(b []byte, s string) bool {
	return bytes.Contains(bytes.ToLower(b), []byte(s))
}

func render(c Case) ([]byte, []Slot) {
	var in bytes.Buffer
	slots := []Slot{}
	if c.Host == "svg" {
		in.WriteString(`<svg xmlns="http://www.w3.org/2000/svg">`)
	}
	for _, p := range c.Parts {
		if p.Kind == "" {
			in.Write(p.Lit)
			continue
		}
		k := len(slots) + 1
		id := "s" + strconv.Itoa(k)
		s := Slot{Kind: p.Kind, HasType: p.HasType, Type: append(lib.Bytes{}, p.Type...), Payload: append(lib.Bytes{}, p.Payload...),
			MT: append(lib.Bytes{}, p.MT...), Tmpl: p.Tmpl, Raw: lib.Bytes{}}
		typ := ""
		if p.HasType {
			typ = ` type="` + string(escAttr(p.Type, "dq")) + `"`
		}
		// pre + construct + post: the slot range [Lo,Hi) is the construct alone (the embedded element or the
		// attribute), not the wrapper that only carries the id
		var pre, construct, post string
		switch p.Kind {
		case "script", "style", "iframe":
			if containsFold(p.Payload, "</"+p.Kind) || containsFold(p.Payload, "<!--") {
				lib.Fatal("case %d: payload not representable in <%s>", c.ID, p.Kind)
			}
			pre, post = "<div id="+id+">", "</div>"
			construct = fmt.Sprintf("<%s%s%s>%s</%s>", p.Kind, typ, p.Attrs, p.Payload, p.Kind)
		case "svg", "math":
			pre, construct, post = "<div id="+id+">", string(p.Payload), "</div>"
		case "styleAttr":
			pre, post = "<div id="+id+" ", ">x</div>"
			construct = fmt.Sprintf("style=%s%s%s", q(p.Quote), escAttr(p.Payload, p.Quote), q(p.Quote))
		case "onAttr":
			pre, post = "<div id="+id+" ", ">x</div>"
			construct = fmt.Sprintf("onclick=%s%s%s", q(p.Quote), escAttr(p.Payload, p.Quote), q(p.Quote))
		case "dataUriAttr":
			s.Raw = dataURI(p)
			pre, post = "<img id="+id+" ", ">"
			construct = fmt.Sprintf("src=%s%s%s", q(p.Quote), escAttr(s.Raw, p.Quote), q(p.Quote))
		case "svgStyleText":
			if bytes.ContainsAny(p.Payload, "<&") {
				lib.Fatal("case %d: svg style text payload with < or &", c.ID)
			}
			construct = fmt.Sprintf(`<style id="%s"%s>%s</style>`, id, typ, p.Payload)
		case "svgStyleCdata":
			if bytes.Contains(p.Payload, []byte("]]>")) {
				lib.Fatal("case %d: CDATA payload with ]]>", c.ID)
			}
			construct = fmt.Sprintf(`<style id="%s"%s><![CDATA[%s]]></style>`, id, typ, p.Payload)
		case "svgStyleAttr":
			pre, post = `<rect id="`+id+`" `, "/>"
			construct = fmt.Sprintf(`style=%s%s%s`, q(p.Quote), escAttrX(p.Payload, p.Quote, true), q(p.Quote))
		case "cssDataUri":
			s.Raw = dataURI(p)
			qq := q(p.Quote)
			if p.Quote == "none" {
				qq = ""
			}
			pre, post = "."+id+"{background:", "}"
			construct = fmt.Sprintf("url(%s%s%s)", qq, s.Raw, qq)
		default:
			lib.Fatal("case %d: unknown slot kind %q", c.ID, p.Kind)
		}
		in.WriteString(pre)
		s.Lo = in.Len()
		in.WriteString(construct)
		s.Hi = in.Len()
		in.WriteString(post)
		slots = append(slots, s)
	}
	if c.Host == "svg" {
		in.WriteString(`</svg>`)
	}
	b := in.Bytes()
	for i := range slots {
		slots[i].LoLine, slots[i].LoCol = lineCol(b, slots[i].Lo)
		slots[i].HiLine, slots[i].HiCol = lineCol(b, slots[i].Hi)
	}
	return append([]byte{}, b...), slots
}

// 1-based line and column (in bytes) of an offset; newlines are \n (the hosts are rendered with \n only)
func lineCol(b []byte, off int) (int, int) {
	line, col := 1, 1
	for i := 0; i < off && i < len(b); i++ {
		if b[i] == '\n' {
			line++
			col = 1
		} else {
			col++
		}
	}
	return line, col
}

// ---- independent projections of the output ---------------------------------------------------

// RFC 2397: data:[<mediatype>][;base64],<data>
func decodeDataURI(u []byte) (mt, data []byte, ok bool) {
	if len(u) < 5 || !strings.EqualFold(string(u[:5]), "data:") {
		return nil, nil, false
	}
	rest := u[5:]
	i := bytes.IndexByte(rest, ',')
	if i < 0 {
		return nil, nil, false
	}
	head, body := rest[:i], rest[i+1:]
	if n := len(head); n >= 7 && strings.EqualFold(string(head[n-7:]), ";base64") {
		head = head[:n-7]
		d, err := base64.StdEncoding.DecodeString(string(body))
		if err != nil {
			if d, err = base64.RawStdEncoding.DecodeString(string(body)); err != nil {
				return nil, nil, false
			}
		}
		return append([]byte{}, head...), d, true
	}
	var d []byte
	for j := 0; j < len(body); j++ {
		if body[j] == '%' && j+2 < len(body) && ishex(body[j+1]) && ishex(body[j+2]) {
			d = append(d, unhex(body[j+1])<<4|unhex(body[j+2]))
			j += 2
		} else {
			d = append(d, body[j])
		}
	}
	return append([]byte{}, head...), d, true
}

func ishex(c byte) bool {
	return c >= '0' && c <= '9' || c >= 'a' && c <= 'f' || c >= 'A' && c <= 'F'
}
func unhex(c byte) byte {
	switch {
	case c >= '0' && c <= '9':
		return c - '0'
	case c >= 'a' && c <= 'f':
		return c - 'a' + 10
	}
	return c - 'A' + 10
}

func uriSlot(u []byte) OutSlot {
	o := OutSlot{Found: true, Raw: append(lib.Bytes{}, u...), Data: lib.Bytes{}, MT: lib.Bytes{}}
	u = bytes.TrimSpace(u)
	mt, data, ok := decodeDataURI(u)
	if !ok {
		o.Bad = "not a decodable data URI"
		return o
	}
	o.MT, o.Data = append(lib.Bytes{}, mt...), append(lib.Bytes{}, data...)
	return o
}

func blankOut(n int) []OutSlot {
	out := make([]OutSlot, n)
	for i := range out {
		out[i] = OutSlot{Raw: lib.Bytes{}, Data: lib.Bytes{}, MT: lib.Bytes{}}
	}
	return out
}

func slotIndex(id string, n int) int {
	if len(id) < 2 || id[0] != 's' {
		return -1
	}
	k, err := strconv.Atoi(id[1:])
	if err != nil || k < 1 || k > n {
		return -1
	}
	return k - 1
}

// HTML: golang.org/x/net/html tokenizer.  Every slot sits in (or on) an element with id=s<k>.
func projectHTML(out []byte, slots []Slot) ([]OutSlot, string) {
	res := blankOut(len(slots))
	z := xhtml.NewTokenizer(bytes.NewReader(out))
	cur := -1        // element slot whose region is being collected
	var inner string // raw text element expected inside the region
	state := 0       // 0 before inner start tag, 1 inside inner element, 2 after
	for {
		tt := z.Next()
		if tt == xhtml.ErrorToken {
			if z.Err() == io.EOF {
				return res, ""
			}
			return res, "html tokenizer: " + z.Err().Error()
		}
		raw := append([]byte{}, z.Raw()...)
		if cur >= 0 {
			// inside the region of an element slot: ends at </div>
			name := ""
			if tt == xhtml.StartTagToken || tt == xhtml.EndTagToken || tt == xhtml.SelfClosingTagToken {
				n, _ := z.TagName() // (can be asked only once per token)
				name = string(n)
			}
			if tt == xhtml.EndTagToken && name == "div" {
				cur = -1
				continue
			}
			kind := slots[cur].Kind
			if kind == "svg" || kind == "math" {
				res[cur].Found = true
				res[cur].Raw = append(res[cur].Raw, raw...)
				res[cur].Data = res[cur].Raw
				continue
			}
			switch tt {
			case xhtml.StartTagToken:
				if state == 0 && name == inner {
					state = 1
					res[cur].Found = true
				} else {
					res[cur].Bad = "unexpected tag in slot region"
				}
			case xhtml.TextToken:
				if state == 1 {
					res[cur].Raw = append(res[cur].Raw, raw...)
					res[cur].Data = res[cur].Raw
				} else {
					res[cur].Bad = "text outside the embedded element"
				}
			case xhtml.EndTagToken:
				if state == 1 && name == inner {
					state = 2
				} else {
					res[cur].Bad = "unexpected end tag in slot region"
				}
			default:
				res[cur].Bad = "unexpected token in slot region"
			}
			continue
		}
		if tt != xhtml.StartTagToken && tt != xhtml.SelfClosingTagToken {
			continue
		}
		_, hasAttr := z.TagName()
		attrs := map[string][]byte{}
		for hasAttr {
			var k, v []byte
			k, v, hasAttr = z.TagAttr()
			attrs[string(k)] = append([]byte{}, v...)
		}
		i := slotIndex(string(attrs["id"]), len(slots))
		if i < 0 {
			continue
		}
		switch slots[i].Kind {
		case "styleAttr":
			if v, ok := attrs["style"]; ok {
				res[i] = OutSlot{Found: true, Raw: v, Data: v, MT: lib.Bytes{}}
			}
		case "onAttr":
			if v, ok := attrs["onclick"]; ok {
				res[i] = OutSlot{Found: true, Raw: v, Data: v, MT: lib.Bytes{}}
			}
		case "dataUriAttr":
			if v, ok := attrs["src"]; ok {
				res[i] = uriSlot(v)
			}
		default:
			cur, state, inner = i, 0, slots[i].Kind
		}
	}
}

// SVG: encoding/xml.  style elements and rect elements carry id="s<k>".
func projectSVG(out []byte, slots []Slot) ([]OutSlot, string) {
	res := blankOut(len(slots))
	d := xml.NewDecoder(bytes.NewReader(out))
	d.Strict = true
	cur := -1
	depth := 0
	for {
		tok, err := d.Token()
		if err == io.EOF {
			return res, ""
		}
		if err != nil {
			return res, "encoding/xml: " + err.Error()
		}
		switch t := tok.(type) {
		case xml.StartElement:
			if cur >= 0 {
				depth++
				res[cur].Bad = "element inside style"
				continue
			}
			id, style, hasStyle := "", "", false
			for _, a := range t.Attr {
				if a.Name.Local == "id" {
					id = a.Value
				}
				if a.Name.Local == "style" {
					style, hasStyle = a.Value, true
				}
			}
			i := slotIndex(id, len(slots))
			if i < 0 {
				continue
			}
			if slots[i].Kind == "svgStyleAttr" {
				if hasStyle {
					res[i] = OutSlot{Found: true, Raw: lib.Bytes(style), Data: lib.Bytes(style), MT: lib.Bytes{}}
				}
			} else if t.Name.Local == "style" {
				cur, depth = i, 0
				res[i].Found = true
			}
		case xml.EndElement:
			if cur >= 0 {
				if depth == 0 {
					cur = -1
				} else {
					depth--
				}
			}
		case xml.CharData:
			if cur >= 0 {
				res[cur].Raw = append(res[cur].Raw, t...)
				res[cur].Data = res[cur].Raw
			}
		}
	}
}

// CSS: a purpose-written scanner: rule ".s<k>{" ... "url(" [quote] uri [quote] ")"
func projectCSS(out []byte, slots []Slot) ([]OutSlot, string) {
	res := blankOut(len(slots))
	for i := range slots {
		sel := []byte(".s" + strconv.Itoa(i+1) + "{")
		p := bytes.Index(out, sel)
		if p < 0 {
			continue
		}
		rest := out[p+len(sel):]
		u := bytes.Index(rest, []byte("url("))
		if u < 0 {
			continue
		}
		j := u + 4
		for j < len(rest) && (rest[j] == ' ' || rest[j] == '\n' || rest[j] == '\t') {
			j++
		}
		var uri []byte
		closed := false
		if j < len(rest) && (rest[j] == '"' || rest[j] == '\'') {
			qc := rest[j]
			for j++; j < len(rest); j++ {
				if rest[j] == '\\' && j+1 < len(rest) {
					if rest[j+1] == '\n' {
						j++
						continue
					}
					uri = append(uri, rest[j+1])
					j++
				} else if rest[j] == qc {
					closed = true
					break
				} else {
					uri = append(uri, rest[j])
				}
			}
		} else {
			for ; j < len(rest); j++ {
				if rest[j] == '\\' && j+1 < len(rest) {
					uri = append(uri, rest[j+1])
					j++
				} else if rest[j] == ')' {
					closed = true
					break
				} else {
					uri = append(uri, rest[j])
				}
			}
		}
		if !closed {
			res[i] = OutSlot{Found: true, Raw: lib.Bytes{}, Data: lib.Bytes{}, MT: lib.Bytes{}, Bad: "unterminated url()"}
			continue
		}
		res[i] = uriSlot(uri)
	}
	return res, ""
}

// character references of the host syntax, resolved by an independent decoder
func unescapeFor(host string, b []byte) lib.Bytes {
	if host == "html" {
		return lib.Bytes(xhtml.UnescapeString(string(b)))
	}
	if host == "svg" {
		return xmlUnescape(b)
	}
	return append(lib.Bytes{}, b...)
}

// the five predefined XML entities and numeric character references
func xmlUnescape(b []byte) lib.Bytes {
	out := lib.Bytes{}
	for i := 0; i < len(b); i++ {
		if b[i] == '&' {
			if j := bytes.IndexByte(b[i:], ';'); j > 1 && j <= 10 {
				name := string(b[i+1 : i+j])
				rep := ""
				switch name {
				case "amp":
					rep = "&"
				case "lt":
					rep = "<"
				case "gt":
					rep = ">"
				case "quot":
					rep = "\""
				case "apos":
					rep = "'"
				default:
					if name[0] == '#' {
						var n int64
						var err error
						if len(name) > 2 && (name[1] == 'x' || name[1] == 'X') {
							n, err = strconv.ParseInt(name[2:], 16, 32)
						} else {
							n, err = strconv.ParseInt(name[1:], 10, 32)
						}
						if err == nil && n > 0 {
							rep = string(rune(n))
						}
					}
				}
				if rep != "" {
					out = append(out, rep...)
					i += j
					continue
				}
			}
		}
		out = append(out, b[i])
	}
	return out
}

func runHost(m *minify.M, host string, opts int, w io.Writer, rd io.Reader) error {
	switch host {
	case "html":
		return (&mhtml.Minifier{}).Minify(m, w, rd, nil)
	case "svg":
		return (&svg.Minifier{}).Minify(m, w, rd, nil)
	case "css":
		return (&css.Minifier{}).Minify(m, w, rd, nil)
	}
	lib.Fatal("bad host %q", host)
	return nil
}

// ---- one case -------------------------------------------------------------------------------

func runCase(c Case) Event {
	input, slots := render(c)
	ev := Event{ID: c.ID, Host: c.Host, Opts: c.Opts, Slots: slots, Input: input, Regs: []RegStep{}, Calls: []Call{}}
	ev.LineLens = []int{}
	for _, ln := range bytes.Split(input, []byte("\n")) {
		ev.LineLens = append(ev.LineLens, len(ln))
	}
	m := minify.New()
	rec := &recorder{host: c.Host, fails: map[*parse.Error]int{}}
	for i, r := range c.Regs {
		sid := i + 1
		ev.Regs = append(ev.Regs, RegStep{Op: r.K, Sid: sid, Lit: append(lib.Bytes{}, r.Lit...), Pat: r.Pat, Beh: r.Beh, Real: r.Real})
		fn := rec.minifier(sid, r)
		switch r.K {
		case "Add":
			m.Add(string(r.Lit), fn) // a MinifierFunc is a Minifier
		case "AddFunc":
			m.AddFunc(string(r.Lit), fn)
		case "AddRegexp":
			m.AddRegexp(regexp.MustCompile(patSrc[r.Pat]), fn)
		case "AddFuncRegexp":
			m.AddFuncRegexp(regexp.MustCompile(patSrc[r.Pat]), fn)
		default:
			lib.Fatal("case %d: bad registration kind %q", c.ID, r.K)
		}
	}
	ev.Warm = lib.Bytes{}
	if c.WarmHost != "" {
		winput, _ := render(Case{ID: c.ID, Host: c.WarmHost, Parts: c.WarmParts})
		ev.Warm = winput
		rec.silent = true
		lib.Guard(func() { runHost(m, c.WarmHost, 0, io.Discard, bytes.NewReader(append([]byte{}, winput...))) })
		rec.silent = false
	}
	var out bytes.Buffer
	var err error
	panicked, msg := lib.Guard(func() {
		rd := bytes.NewReader(append([]byte{}, input...))
		switch c.Host {
		case "html":
			o := &mhtml.Minifier{KeepQuotes: c.Opts&1 != 0, KeepDefaultAttrVals: c.Opts&2 != 0, KeepWhitespace: c.Opts&4 != 0,
				KeepEndTags: c.Opts&8 != 0, KeepDocumentTags: c.Opts&16 != 0}
			if c.Opts&32 != 0 {
				o.TemplateDelims = [2]string{"{{", "}}"}
			}
			err = o.Minify(m, &out, rd, nil)
		case "svg":
			err = (&svg.Minifier{}).Minify(m, &out, rd, nil)
		case "css":
			err = (&css.Minifier{}).Minify(m, &out, rd, nil)
		default:
			lib.Fatal("case %d: bad host %q", c.ID, c.Host)
		}
	})
	ev.Output = append(lib.Bytes{}, out.Bytes()...)
	ev.Err = ErrRec{Kind: "nil"}
	if panicked {
		ev.Err = ErrRec{Kind: "panic", Msg: msg}
	} else if err != nil {
		ev.Err = ErrRec{Kind: "other", Msg: err.Error()}
		if pe, ok := err.(*parse.Error); ok {
			ev.Err.Kind, ev.Err.Line, ev.Err.Col = "parse", pe.Line, pe.Column
			ev.Err.Sid = rec.fails[pe]
		} else if se, ok := err.(*plainErr); ok {
			ev.Err.Kind, ev.Err.Sid = "stub", se.sid
		}
		if len(ev.Err.Msg) > 200 {
			ev.Err.Msg = ev.Err.Msg[:200]
		}
	}
	for _, cl := range rec.calls {
		cl.PayloadDec = unescapeFor(c.Host, cl.Payload)
		cl.OutDec = unescapeFor(c.Host, cl.Out)
		ev.Calls = append(ev.Calls, *cl)
	}
	switch c.Host {
	case "html":
		ev.OutSlots, ev.OutBad = projectHTML(out.Bytes(), slots)
	case "svg":
		ev.OutSlots, ev.OutBad = projectSVG(out.Bytes(), slots)
	case "css":
		ev.OutSlots, ev.OutBad = projectCSS(out.Bytes(), slots)
	}
	return ev
}

func main() {
	if len(os.Args) < 3 {
		lib.Fatal("usage: c11 <cases.ndjson> <trace.ndjson> [workers]")
	}
	workers := runtime.NumCPU()
	if len(os.Args) > 3 {
		workers, _ = strconv.Atoi(os.Args[3])
	}
	if workers < 1 {
		workers = 1
	}
	var cases []Case
	lib.ReadJSONLines(os.Args[1], func(line []byte) {
		var c Case
		if err := json.Unmarshal(line, &c); err != nil {
			lib.Fatal("bad case: %v", err)
		}
		cases = append(cases, c)
	})
	results := make([]Event, len(cases))
	var wg sync.WaitGroup
	next := make(chan int)
	for w := 0; w < workers; w++ {
		wg.Add(1)
		go func() {
			defer wg.Done()
			for i := range next {
				results[i] = runCase(cases[i])
			}
		}()
	}
	for i := range cases {
		next <- i
	}
	close(next)
	wg.Wait()
	tw := lib.NewTraceWriter(os.Args[2])
	for _, r := range results {
		tw.Emit(r)
	}
	tw.Close()
	fmt.Fprintf(os.Stderr, "c11: %d cases\n", len(cases))
}
