// c10: call/return driver for property C10 (minifiers are total).
//
// usage: c10 <cases.ndjson> <trace.ndjson> <start index>
//
// case : {"id":n,"api":"Minify|Bytes|String|Number|Decimal|Mediatype|DataURI","lang":"html|css|js|json|svg|xml|-",
//         "opts":"default|keep|pm1|p0|p1|p17|p1000000|...","prec":p,"in":[bytes] | "file":"path",
//         "pre":[bytes],"post":[bytes],"depth":d,"origin":"..."}            input = pre^depth . in . post^depth
// event: one line per call (see spec/C10Trace.tla), flushed before the next call starts:
//   {"id","api","lang","opts","prec","n","outcome":"ok|err|panic|timeout|mem","cpu_us","wall_us","alloc","nout",
//    "orig_sha","ret_sha","orig":[bytes],"ret":[bytes],"small":bool,"tail_ok":bool,"msg"}
//
// Calls run one at a time (so that process CPU time and the allocation counter belong to the call) in a goroutine
// with recover and a wall-clock deadline; a heap watchdog ends runaway allocation.  After a timeout / memory event the
// process exits with status 3 (the goroutine cannot be killed) and tools/props/c10.py restarts it at the next case;
// if the process dies (Go stack overflow is fatal, not recoverable) the missing event is recorded by c10.py as "crash".
// Nothing here decides a verdict.
package main

import (
	"crypto/sha1"
	"encoding/hex"
	"encoding/json"
	"fmt"
	"io"
	"os"
	"runtime"
	"runtime/debug"
	"runtime/metrics"
	"strconv"
	"sync/atomic"
	"syscall"
	"time"

	"github.com/tdewolff/minify/v2"
	"github.com/tdewolff/parse/v2/buffer"
	"verifharness/cmd/c09/reg"
	"verifharness/lib"
)

type Case struct {
	ID     int       `json:"id"`
	Api    string    `json:"api"`
	Lang   string    `json:"lang"`
	Opts   string    `json:"opts"`
	Prec   int       `json:"prec"`
	In     lib.Bytes `json:"in"`
	File   string    `json:"file"`
	Pre    lib.Bytes `json:"pre"`
	Post   lib.Bytes `json:"post"`
	Depth  int       `json:"depth"`
	Origin string    `json:"origin"`
}

type Event struct {
	ID      int       `json:"id"`
	Api     string    `json:"api"`
	Lang    string    `json:"lang"`
	Opts    string    `json:"opts"`
	Prec    int       `json:"prec"`
	N       int       `json:"n"`
	Outcome string    `json:"outcome"`
	CPU     int64     `json:"cpu_us"`
	Wall    int64     `json:"wall_us"`
	Alloc   int64     `json:"alloc"`
	Stack   int64     `json:"stack"`
	Nout    int       `json:"nout"`
	OrigSha string    `json:"orig_sha"`
	RetSha  string    `json:"ret_sha"`
	Orig    lib.Bytes `json:"orig"`
	Ret     lib.Bytes `json:"ret"`
	Small   bool      `json:"small"`
	TailOK  bool      `json:"tail_ok"`
	Msg     string    `json:"msg"`
}

const tail = 16
const smallLen = 48
const heapLimit = 6 << 30

type plainReader struct{ r io.Reader }

func (p plainReader) Read(b []byte) (int, error) { return p.r.Read(b) }

func cpuMicros() int64 {
	var ru syscall.Rusage
	syscall.Getrusage(syscall.RUSAGE_SELF, &ru)
	return ru.Utime.Sec*1e6 + int64(ru.Utime.Usec) + ru.Stime.Sec*1e6 + int64(ru.Stime.Usec)
}

var allocSample = []metrics.Sample{{Name: "/gc/heap/allocs:bytes"}, {Name: "/memory/classes/heap/stacks:bytes"}}

// allocBytes returns the cumulative heap allocation counter and the memory currently used by goroutine stacks.
func allocBytes() (int64, int64) {
	metrics.Read(allocSample)
	return int64(allocSample[0].Value.Uint64()), int64(allocSample[1].Value.Uint64())
}

func sha(b []byte) string {
	h := sha1.Sum(b)
	return hex.EncodeToString(h[:])
}

type outcome struct {
	ret     []byte
	err     error
	panic   bool
	msg     string
	hasOrig bool
}

func build(c Case) []byte {
	body := []byte(c.In)
	if c.File != "" {
		b, err := os.ReadFile(c.File)
		if err != nil {
			lib.Fatal("read %s: %v", c.File, err)
		}
		body = b
	}
	if c.Depth <= 0 {
		return body
	}
	out := make([]byte, 0, len(body)+c.Depth*(len(c.Pre)+len(c.Post)))
	for i := 0; i < c.Depth; i++ {
		out = append(out, c.Pre...)
	}
	out = append(out, body...)
	for i := 0; i < c.Depth; i++ {
		out = append(out, c.Post...)
	}
	return out
}

var running int32

func call(c Case, buf []byte) (o outcome) {
	defer func() {
		if p := recover(); p != nil {
			o.panic = true
			o.msg = fmt.Sprintf("%v\n%s", p, debug.Stack())
			if len(o.msg) > 1500 {
				o.msg = o.msg[:1500]
			}
		}
	}()
	switch c.Api {
	case "Number":
		o.ret = minify.Number(buf, c.Prec)
	case "Decimal":
		o.ret = minify.Decimal(buf, c.Prec)
	case "Mediatype":
		o.ret = minify.Mediatype(buf)
	case "DataURI":
		o.ret = minify.DataURI(reg.New(c.Opts), buf)
	case "Minify":
		w := buffer.NewWriter(make([]byte, 0, len(buf)))
		o.err = reg.New(c.Opts).Minify(reg.Mediatype(c.Lang), w, plainReader{buffer.NewReader(buf)})
		o.ret = w.Bytes()
	case "Bytes":
		o.ret, o.err = reg.New(c.Opts).Bytes(reg.Mediatype(c.Lang), buf)
		o.hasOrig = true
	case "String":
		var s string
		s, o.err = reg.New(c.Opts).String(reg.Mediatype(c.Lang), string(buf))
		o.ret = []byte(s)
		o.hasOrig = true
	default:
		lib.Fatal("unknown api %q", c.Api)
	}
	return
}

func main() {
	if len(os.Args) < 4 {
		lib.Fatal("usage: c10 <cases.ndjson> <trace.ndjson> <start>")
	}
	start, _ := strconv.Atoi(os.Args[3])
	f, err := os.OpenFile(os.Args[2], os.O_APPEND|os.O_CREATE|os.O_WRONLY, 0644)
	if err != nil {
		lib.Fatal("open trace: %v", err)
	}
	emit := func(e Event) {
		b, _ := json.Marshal(e)
		b = append(b, '\n')
		if _, err := f.Write(b); err != nil {
			lib.Fatal("write trace: %v", err)
		}
	}
	// heap watchdog: ends the process when a call allocates without bound ("mem" event written by the main loop's
	// pending pointer, see below)
	var pending atomic.Value
	go func() {
		var ms runtime.MemStats
		for {
			time.Sleep(100 * time.Millisecond)
			runtime.ReadMemStats(&ms)
			if ms.HeapAlloc > heapLimit || ms.StackInuse > heapLimit {
				if e, ok := pending.Load().(Event); ok && atomic.LoadInt32(&running) == 1 {
					e.Outcome = "mem"
					e.Msg = fmt.Sprintf("heap %d stack %d", ms.HeapAlloc, ms.StackInuse)
					e.Alloc = int64(ms.HeapAlloc)
					emit(e)
					f.Close()
					os.Exit(3)
				}
			}
		}
	}()
	idx := 0
	lib.ReadJSONLines(os.Args[1], func(line []byte) {
		if idx < start {
			idx++
			return
		}
		idx++
		var c Case
		if err := json.Unmarshal(line, &c); err != nil {
			lib.Fatal("bad case: %v", err)
		}
		in := build(c)
		n := len(in)
		orig := make([]byte, n)
		copy(orig, in)
		// the argument has spare capacity behind it (as a slice of a larger read buffer has): canary bytes in the tail
		arr := make([]byte, n+tail)
		copy(arr, in)
		for i := n; i < n+tail; i++ {
			arr[i] = 0xA5
		}
		buf := arr[:n]
		if c.Api != "Bytes" {
			// helpers and the other entry points get a slice with cap == len: an index past the end panics instead of
			// silently landing in spare capacity (Bytes keeps spare capacity: that is the in-place path of parse.NewInput)
			buf = arr[:n:n]
		}
		ev := Event{ID: c.ID, Api: c.Api, Lang: c.Lang, Opts: c.Opts, Prec: c.Prec, N: n, OrigSha: sha(orig), Orig: lib.Bytes{}, Ret: lib.Bytes{}, TailOK: true}
		pending.Store(ev)
		deadline := 30*time.Second + time.Duration(n)*40*time.Microsecond
		ch := make(chan outcome, 1)
		a0, s0 := allocBytes()
		c0, t0 := cpuMicros(), time.Now()
		atomic.StoreInt32(&running, 1)
		go func() { ch <- call(c, buf) }()
		var o outcome
		timedOut := false
		select {
		case o = <-ch:
		case <-time.After(deadline):
			timedOut = true
		}
		atomic.StoreInt32(&running, 0)
		ev.Wall = time.Since(t0).Microseconds()
		ev.CPU = cpuMicros() - c0
		a1, s1 := allocBytes()
		ev.Alloc = a1 - a0
		if s1 > s0 {
			ev.Stack = s1 - s0 // stacks shrink only at GC: growth during the call is still visible here
		}
		if timedOut {
			ev.Outcome = "timeout"
			emit(ev)
			f.Close()
			os.Exit(3)
		}
		switch {
		case o.panic:
			ev.Outcome, ev.Msg = "panic", o.msg
		case o.err != nil:
			ev.Outcome = "err"
			ev.Msg = o.err.Error()
			if len(ev.Msg) > 200 {
				ev.Msg = ev.Msg[:200]
			}
		default:
			ev.Outcome = "ok"
		}
		if !o.panic {
			ev.Nout = len(o.ret)
			if o.hasOrig {
				// "When the byte/string convenience entry points report an error they return the caller's original data"
				ev.RetSha = sha(o.ret)
				if n <= smallLen && len(o.ret) <= smallLen {
					ev.Small = true
					ev.Orig = lib.Bytes(orig)
					ev.Ret = append(lib.Bytes{}, o.ret...)
				}
			}
		}
		if c.Api == "Bytes" {
			for i := n; i < n+tail; i++ {
				if arr[i] != 0xA5 {
					ev.TailOK = false
				}
			}
		}
		emit(ev)
	})
	f.Close()
}
