// c01: drives the real js.Minifier for property C01 (JS minification preserves behaviour).
//
// Input : ndjson cases {"id":n,"src":"<program text>","cfgs":[[keep,version],...]}   (cfgs optional:
//         default = {KeepVarNames false,true} x {Version 0, 2015..2022}); Precision is always 0 (exact).
// Output: ndjson, one line per case and per DISTINCT result among its configurations:
//         {"id":n,"cfgs":[[keep,version],...],"out":"<minified>","err":"", "panic":false}
// The driver only calls the public API ((*js.Minifier).Minify on bytes) and groups equal outputs; the two
// texts are executed by an independent engine (js/c01_run.js) and judged by TLC (spec/JsObs.tla, C01Ast.tla).
package main

import (
	"bytes"
	"encoding/json"
	"os"

	"github.com/tdewolff/minify/v2"
	"github.com/tdewolff/minify/v2/js"
	"verifharness/lib"
)

type Case struct {
	ID   int      `json:"id"`
	Src  string   `json:"src"`
	Cfgs [][2]int `json:"cfgs"`
}

type Result struct {
	ID    int      `json:"id"`
	Cfgs  [][2]int `json:"cfgs"`
	Out   string   `json:"out"`
	Err   string   `json:"err"`
	Panic bool     `json:"panic"`
}

var defaultCfgs = func() [][2]int {
	var c [][2]int
	for _, keep := range []int{0, 1} {
		for _, v := range []int{0, 2015, 2016, 2017, 2018, 2019, 2020, 2021, 2022} {
			c = append(c, [2]int{keep, v})
		}
	}
	return c
}()

func minifyOne(src string, keep bool, version int) (out string, errs string, panicked bool) {
	m := minify.New()
	o := &js.Minifier{KeepVarNames: keep, Version: version, Precision: 0}
	var w bytes.Buffer
	// the parser works in place on the buffer it is given: every call gets a private copy
	in := append([]byte(nil), src...)
	p, msg := lib.Guard(func() {
		if err := o.Minify(m, &w, bytes.NewReader(in), nil); err != nil {
			errs = err.Error()
		}
	})
	if p {
		return "", msg, true
	}
	return w.String(), errs, false
}

func main() {
	if len(os.Args) < 3 {
		lib.Fatal("usage: c01 <cases.ndjson> <results.ndjson>")
	}
	tw := lib.NewTraceWriter(os.Args[2])
	lib.ReadJSONLines(os.Args[1], func(line []byte) {
		var c Case
		if err := json.Unmarshal(line, &c); err != nil {
			lib.Fatal("bad case: %v", err)
		}
		cfgs := c.Cfgs
		if len(cfgs) == 0 {
			cfgs = defaultCfgs
		}
		var results []*Result
		index := map[string]*Result{}
		for _, cf := range cfgs {
			out, errs, p := minifyOne(c.Src, cf[0] != 0, cf[1])
			key := out + "\x00" + errs
			if p {
				key = "\x01panic"
			}
			r := index[key]
			if r == nil {
				r = &Result{ID: c.ID, Out: out, Err: errs, Panic: p}
				index[key] = r
				results = append(results, r)
			}
			r.Cfgs = append(r.Cfgs, cf)
		}
		for _, r := range results {
			tw.Emit(r)
		}
	})
	tw.Close()
}
