// c09: two-pass driver for property C09 (accepted input yields valid output that is accepted again).
//
// usage: c09 <cases.ndjson> <trace.ndjson> <jsjobs.ndjson> <outdir> [workers]
//
// case : {"id":n,"lang":"html|css|js|json|svg|xml","opts":"default|...","file":"path","origin":"...","inline":bool}
// trace: one record per case (see spec/C09Trace.tla):
//
//	{"id","lang","opts","origin","n0","acc1","panic1","timeout1","err1","n1","ran2","acc2","panic2","timeout2","err2","n2",
//	 "goals":[{"g":"json","bad0":0,"bad1":0},...], "paths0":[[bytes]..],"pv0":[bool..],"paths1":..,"pv1":..}
//
// The JavaScript judgements are made by V8/acorn afterwards: the driver writes one job per JS part
// {"case":id,"side":0|1,"kind":"script|module|function","src":"..."} and tools/props/c09.py merges the results
// into the goals before TLC sees the record.  Nothing here decides a verdict.
package main

import (
	"bytes"
	"encoding/json"
	"fmt"
	"os"
	"path/filepath"
	"runtime/debug"
	"sort"
	"strconv"
	"sync"
	"time"

	"github.com/tdewolff/minify/v2"
	"github.com/tdewolff/parse/v2/buffer"
	"verifharness/cmd/c09/judge"
	"verifharness/cmd/c09/reg"
	"verifharness/lib"
)

type Case struct {
	ID     int    `json:"id"`
	Lang   string `json:"lang"`
	Opts   string `json:"opts"`
	File   string `json:"file"`
	Origin string `json:"origin"`
	Inline bool   `json:"inline"`
}

type Goal struct {
	G    string `json:"g"`
	Bad0 int    `json:"bad0"`
	Bad1 int    `json:"bad1"`
}

type Event struct {
	ID       int         `json:"id"`
	Lang     string      `json:"lang"`
	Opts     string      `json:"opts"`
	Origin   string      `json:"origin"`
	N0       int         `json:"n0"`
	Acc1     bool        `json:"acc1"`
	Panic1   bool        `json:"panic1"`
	Timeout1 bool        `json:"timeout1"`
	Err1     string      `json:"err1"`
	N1       int         `json:"n1"`
	Ran2     bool        `json:"ran2"`
	Acc2     bool        `json:"acc2"`
	Panic2   bool        `json:"panic2"`
	Timeout2 bool        `json:"timeout2"`
	Err2     string      `json:"err2"`
	N2       int         `json:"n2"`
	Same12   bool        `json:"same12"` // pass 2 reproduced pass 1 byte for byte (information only)
	Goals    []Goal      `json:"goals"`
	Paths0   []lib.Bytes `json:"paths0"`
	Pv0      []bool      `json:"pv0"`
	Paths1   []lib.Bytes `json:"paths1"`
	Pv1      []bool      `json:"pv1"`
	Out      lib.Bytes   `json:"out"` // output bytes for small adjacency programs only
	In       lib.Bytes   `json:"in"`
}

type Job struct {
	Case int    `json:"case"`
	Side int    `json:"side"`
	Kind string `json:"kind"`
	Src  string `json:"src"`
}

const deadline = 120 * time.Second

type result struct {
	out     []byte
	err     error
	panic   bool
	timeout bool
	msg     string
}

// minifyOnce calls the public API (M.Minify on reader/writer) in a goroutine with recover and a deadline.
func minifyOnce(m *minify.M, mediatype string, in []byte) result {
	ch := make(chan result, 1)
	go func() {
		var r result
		defer func() {
			if p := recover(); p != nil {
				r.panic = true
				r.msg = fmt.Sprintf("%v\n%s", p, debug.Stack())
				if len(r.msg) > 800 {
					r.msg = r.msg[:800]
				}
				ch <- r
			}
		}()
		buf := make([]byte, len(in), len(in)+1)
		copy(buf, in)
		w := buffer.NewWriter(make([]byte, 0, len(in)))
		r.err = m.Minify(mediatype, w, buffer.NewReader(buf))
		r.out = w.Bytes()
		ch <- r
	}()
	select {
	case r := <-ch:
		return r
	case <-time.After(deadline):
		return result{timeout: true}
	}
}

func errStr(r result) string {
	if r.panic {
		return "panic: " + r.msg
	}
	if r.timeout {
		return "timeout"
	}
	if r.err != nil {
		s := r.err.Error()
		if len(s) > 300 {
			s = s[:300]
		}
		return s
	}
	return ""
}

func b2i(b bool) int {
	if b {
		return 1
	}
	return 0
}

const maxTlaPath = 160
const maxTlaPaths = 12

// judgeSide returns the goal counts of one side and the JS jobs of that side.
func judgeSide(c Case, side int, b []byte) (map[string]int, []Job, []lib.Bytes, []bool) {
	g := map[string]int{}
	var jobs []Job
	var paths []lib.Bytes
	var pv []bool
	switch c.Lang {
	case "json":
		g["json"] = b2i(!judge.JSONValid(b))
	case "xml":
		g["xml"] = b2i(!judge.XMLWellFormed(b))
	case "svg":
		ps, ok := judge.SVGPaths(b)
		g["svg.xml"] = b2i(!ok)
		bad := 0
		for _, p := range ps {
			v := judge.PathValid(p)
			if !v {
				bad++
			}
			if len(p) <= maxTlaPath && len(paths) < maxTlaPaths {
				paths = append(paths, lib.Bytes(p))
				pv = append(pv, v)
			}
		}
		g["svg.path"] = bad
		// embedded style sheets and style attributes: number of parts the CSS tokenizer rejects
		sheets, decls, _ := judge.SVGStyles(b)
		nb := 0
		for _, sh := range sheets {
			r := judge.CSSCheck(sh)
			nb += b2i(r.BadString+r.BadURL+r.Closers+r.Open+r.OpenStr > 0)
		}
		for _, d := range decls {
			r := judge.CSSCheck(d)
			nb += b2i(r.BadString+r.BadURL+r.Closers+r.OpenStr > 0)
		}
		g["svg.css"] = nb
	case "css":
		r := judge.CSSCheck(b)
		g["css"] = b2i(r.BadString+r.BadURL+r.Closers+r.Open+r.OpenStr > 0)
	case "js":
		if c.Inline {
			jobs = append(jobs, Job{c.ID, side, "function", string(b)})
		} else {
			jobs = append(jobs, Job{c.ID, side, "script", string(b)}, Job{c.ID, side, "module", string(b)})
		}
	case "html":
		parts, scripts := judge.HTMLParts(b)
		g["html.scripts"] = scripts
		for _, k := range []string{"html.css", "html.json"} {
			g[k] = 0
		}
		for _, p := range parts {
			switch p.Kind {
			case "script":
				jobs = append(jobs, Job{c.ID, side, "script", string(p.Text)})
			case "module":
				jobs = append(jobs, Job{c.ID, side, "module", string(p.Text)})
			case "handler":
				jobs = append(jobs, Job{c.ID, side, "function", string(p.Text)})
			case "style", "styleattr":
				// one judgement per part: the count of rejected parts is what must not grow
				r := judge.CSSCheck(p.Text)
				n := r.BadString + r.BadURL + r.Closers + r.OpenStr
				if p.Kind == "style" {
					n += r.Open
				}
				g["html.css"] += b2i(n > 0)
				g["#html.css"]++
			case "json":
				if len(bytes.TrimSpace(p.Text)) > 0 {
					g["html.json"] += b2i(!judge.JSONValid(p.Text))
					g["#html.json"]++
				}
			}
		}
	}
	return g, jobs, paths, pv
}

func runCase(c Case, outdir string) (Event, []Job) {
	ev := Event{ID: c.ID, Lang: c.Lang, Opts: c.Opts, Origin: c.Origin, Goals: []Goal{}, Paths0: []lib.Bytes{}, Paths1: []lib.Bytes{},
		Pv0: []bool{}, Pv1: []bool{}, Out: lib.Bytes{}, In: lib.Bytes{}}
	in, err := os.ReadFile(c.File)
	if err != nil {
		lib.Fatal("read %s: %v", c.File, err)
	}
	ev.N0 = len(in)
	m := reg.New(c.Opts)
	mt := reg.Mediatype(c.Lang)
	if c.Inline {
		mt += ";inline=1"
	}
	r1 := minifyOnce(m, mt, in)
	ev.Acc1 = !r1.panic && !r1.timeout && r1.err == nil
	ev.Panic1, ev.Timeout1, ev.Err1 = r1.panic, r1.timeout, errStr(r1)
	if !ev.Acc1 {
		return ev, nil
	}
	out1 := r1.out
	ev.N1 = len(out1)
	if outdir != "" {
		if err := os.WriteFile(filepath.Join(outdir, strconv.Itoa(c.ID)+".out"), out1, 0644); err != nil {
			lib.Fatal("write out: %v", err)
		}
	}
	g0, j0, p0, v0 := judgeSide(c, 0, in)
	g1, j1, p1, v1 := judgeSide(c, 1, out1)
	if c.Lang == "svg" && g0["svg.xml"] != 0 {
		// the input is not well-formed XML: its path data cannot be enumerated, so the path goal has no "valid input" side
		delete(g0, "svg.path")
		delete(g0, "svg.css")
		p0, v0, p1, v1 = nil, nil, nil, nil
	}
	var names []string
	for k := range g0 {
		names = append(names, k)
	}
	sort.Strings(names)
	for _, k := range names {
		if k == "html.scripts" || k[0] == '#' {
			continue // information: the number of script elements may legitimately shrink (empty scripts are dropped)
		}
		if g1["#"+k] > g0["#"+k] {
			// the output has MORE parts of this kind than the independent tokenizer finds in the input: the minifier's lexer and the
			// HTML5 tokenizer disagree about the (malformed) input, e.g. a tag cut off by EOF inside an attribute value is dropped by
			// the standard but completed by the minifier; the added part has no input counterpart to be judged against
			continue
		}
		ev.Goals = append(ev.Goals, Goal{k, g0[k], g1[k]})
	}
	if p0 != nil {
		ev.Paths0, ev.Pv0 = p0, v0
	}
	if p1 != nil {
		ev.Paths1, ev.Pv1 = p1, v1
	}
	if len(in) <= 96 && len(out1) <= 96 {
		ev.In, ev.Out = lib.Bytes(in), lib.Bytes(out1)
	}
	// second pass: "feeding that output to the same minifier again succeeds"
	m2 := reg.New(c.Opts)
	r2 := minifyOnce(m2, mt, out1)
	ev.Ran2 = true
	ev.Acc2 = !r2.panic && !r2.timeout && r2.err == nil
	ev.Panic2, ev.Timeout2, ev.Err2 = r2.panic, r2.timeout, errStr(r2)
	if ev.Acc2 {
		ev.N2 = len(r2.out)
		ev.Same12 = bytes.Equal(r2.out, out1)
	}
	return ev, append(j0, j1...)
}

func main() {
	if len(os.Args) < 5 {
		lib.Fatal("usage: c09 <cases.ndjson> <trace.ndjson> <jsjobs.ndjson> <outdir> [workers]")
	}
	workers := 8
	if len(os.Args) > 5 {
		workers, _ = strconv.Atoi(os.Args[5])
	}
	var cases []Case
	lib.ReadJSONLines(os.Args[1], func(line []byte) {
		var c Case
		if err := json.Unmarshal(line, &c); err != nil {
			lib.Fatal("bad case: %v", err)
		}
		cases = append(cases, c)
	})
	outdir := os.Args[4]
	if outdir == "-" {
		outdir = ""
	}
	evs := make([]Event, len(cases))
	jobs := make([][]Job, len(cases))
	var wg sync.WaitGroup
	ch := make(chan int)
	for w := 0; w < workers; w++ {
		wg.Add(1)
		go func() {
			defer wg.Done()
			for i := range ch {
				evs[i], jobs[i] = runCase(cases[i], outdir)
			}
		}()
	}
	for i := range cases {
		ch <- i
	}
	close(ch)
	wg.Wait()
	tw := lib.NewTraceWriter(os.Args[2])
	for _, e := range evs {
		tw.Emit(e)
	}
	tw.Close()
	jw := lib.NewTraceWriter(os.Args[3])
	for _, js := range jobs {
		for _, j := range js {
			jw.Emit(j)
		}
	}
	jw.Close()
}
