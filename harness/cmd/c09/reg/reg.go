// Package reg builds a minify.M with all six minifiers registered the way cmd/minify does,
// under a named option set (C09/C10: "default and non-default options").
package reg

import (
	"regexp"
	"strconv"
	"strings"

	"github.com/tdewolff/minify/v2"
	"github.com/tdewolff/minify/v2/css"
	"github.com/tdewolff/minify/v2/html"
	"github.com/tdewolff/minify/v2/js"
	"github.com/tdewolff/minify/v2/json"
	"github.com/tdewolff/minify/v2/svg"
	"github.com/tdewolff/minify/v2/xml"
)

// Mediatype of a language tag used in case files.
func Mediatype(lang string) string {
	switch lang {
	case "html":
		return "text/html"
	case "css":
		return "text/css"
	case "js":
		return "application/javascript"
	case "json":
		return "application/json"
	case "svg":
		return "image/svg+xml"
	case "xml":
		return "text/xml"
	}
	return lang
}

// New returns a registry for an option set.  Option sets are '+'-separated words:
//
//	default | keep (every Keep* flag of every minifier) | quotes | ws | endtags | doctags | comments |
//	defattr | tmpl | css2 | names | es5 | es2015 | es2019 | keepnum | pN (precision N, may be negative: pm1)
func New(optset string) *minify.M {
	h := &html.Minifier{}
	c := &css.Minifier{}
	j := &js.Minifier{}
	o := &json.Minifier{}
	s := &svg.Minifier{}
	x := &xml.Minifier{}
	for _, w := range strings.Split(optset, "+") {
		switch {
		case w == "" || w == "default":
		case w == "keep":
			h.KeepComments, h.KeepSpecialComments, h.KeepDefaultAttrVals, h.KeepDocumentTags = true, true, true, true
			h.KeepEndTags, h.KeepQuotes, h.KeepWhitespace = true, true, true
			c.KeepCSS2 = true
			j.KeepVarNames = true
			o.KeepNumbers = true
			s.KeepComments = true
			x.KeepWhitespace = true
		case w == "quotes":
			h.KeepQuotes = true
		case w == "ws":
			h.KeepWhitespace = true
			x.KeepWhitespace = true
		case w == "endtags":
			h.KeepEndTags = true
		case w == "doctags":
			h.KeepDocumentTags = true
		case w == "comments":
			h.KeepComments = true
			s.KeepComments = true
		case w == "special":
			h.KeepSpecialComments = true
		case w == "defattr":
			h.KeepDefaultAttrVals = true
		case w == "tmpl":
			h.TemplateDelims = [2]string{"{{", "}}"}
		case w == "css2":
			c.KeepCSS2 = true
		case w == "names":
			j.KeepVarNames = true
		case w == "es5":
			j.Version = 5
		case w == "es2015":
			j.Version = 2015
		case w == "es2019":
			j.Version = 2019
		case w == "keepnum":
			o.KeepNumbers = true
		case strings.HasPrefix(w, "p"):
			t := strings.Replace(w[1:], "m", "-", 1)
			if n, err := strconv.Atoi(t); err == nil {
				c.Precision, j.Precision, o.Precision, s.Precision = n, n, n, n
			}
		}
	}
	m := minify.New()
	m.Add("text/css", c)
	m.Add("text/html", h)
	m.Add("image/svg+xml", s)
	m.AddRegexp(regexp.MustCompile("^(application|text)/(x-)?(java|ecma|j|live)script(1\\.[0-5])?$|^module$"), j)
	m.AddRegexp(regexp.MustCompile("[/+]json$"), o)
	m.AddRegexp(regexp.MustCompile("[/+]xml$"), x)
	return m
}
