// jsvalid.js: independent JavaScript syntax judgements for C09.
// usage: node --expose-internals --experimental-vm-modules --no-lazy --no-warnings --stack-size=4000 jsvalid.js <jobs.ndjson> <results.ndjson> [shard nshards]
// job   : {"case":id,"side":0|1,"kind":"script"|"module"|"function","src":"..."}
// result: {"case","side","kind","v8":true|false|null,"acorn":true|false|null,"msg":"...","toks":[...]}   (null = the parser could not
//          judge, e.g. RangeError from nesting depth; such a judgement is dropped on both sides, never counted as invalid)
// V8 is run with --no-lazy so that inner functions are fully parsed (the preparser skips some early errors).
'use strict';
const fs = require('fs');
const vm = require('vm');
const readline = require('readline');
let acorn = null;
try { acorn = require('internal/deps/acorn/acorn/dist/acorn'); } catch (e) { acorn = null; }

function v8Judge(kind, src) {
  try {
    if (kind === 'script') new vm.Script(src);
    else if (kind === 'module') new vm.SourceTextModule(src);
    else vm.compileFunction(src, ['event']);
    return [true, ''];
  } catch (e) {
    if (e instanceof SyntaxError || (e && e.name === 'SyntaxError')) return [false, String(e.message)];
    return [null, String(e && e.name)];
  }
}

function acornJudge(kind, src) {
  if (!acorn) return [null, 'no acorn'];
  try {
    if (kind === 'script') acorn.parse(src, {ecmaVersion: 'latest', sourceType: 'script', allowHashBang: true});
    else if (kind === 'module') acorn.parse(src, {ecmaVersion: 'latest', sourceType: 'module', allowHashBang: true});
    else acorn.parse(src, {ecmaVersion: 'latest', sourceType: 'script', allowReturnOutsideFunction: true});
    return [true, ''];
  } catch (e) {
    if (e instanceof SyntaxError) return [false, String(e.message)];
    return [null, String(e && e.name)];
  }
}

// token list of small programs (adjacency programs): [[type label, text, gapBefore(0|1)], ...]
function tokens(src) {
  if (!acorn || src.length > 200) return null;
  try {
    const out = [];
    let last = 0;
    for (const t of acorn.tokenizer(src, {ecmaVersion: 'latest', sourceType: 'script'})) {
      out.push([t.type.label, src.slice(t.start, t.end), t.start > last ? 1 : 0]);
      last = t.end;
    }
    return out;
  } catch (e) { return null; }
}

async function main() {
  const [jobsPath, outPath, shardS, nshardsS] = process.argv.slice(2);
  const shard = shardS ? parseInt(shardS, 10) : 0, nshards = nshardsS ? parseInt(nshardsS, 10) : 1;
  const out = fs.createWriteStream(outPath);
  const rl = readline.createInterface({input: fs.createReadStream(jobsPath), crlfDelay: Infinity});
  let n = 0;
  for await (const line of rl) {
    if (!line) continue;
    const mine = (n % nshards) === shard;
    n++;
    if (!mine) continue;
    const j = JSON.parse(line);
    const [v, vm_] = v8Judge(j.kind, j.src);
    const [a, am] = acornJudge(j.kind, j.src);
    const r = {case: j.case, side: j.side, kind: j.kind, n: n - 1, v8: v, acorn: a, msg: (vm_ || am || '').slice(0, 200)};
    if (j.toks) r.toks = tokens(j.src);
    if (!out.write(JSON.stringify(r) + '\n')) await new Promise(res => out.once('drain', res));
  }
  await new Promise(res => out.end(res));
}
main().catch(e => { console.error(e); process.exit(2); });
