package judge
import "testing"
func TestX(t *testing.T){
 for _,c:=range []struct{s string; ok bool}{
  {`<a/>`,true},{`<a/><b/>`,true},{`x<a> y </a>z`,true},{`<?xml version="1.0"?><a/>`,true},{`<?xml version="1.0" encoding="UTF-8"?>
<!DOCTYPE svg PUBLIC "-//W3C//DTD SVG 1.1//EN" "http://x/y.dtd"><svg/>`,true},{`<a>`,false},{`</a>`,false},{`<a></b>`,false},{`<style> <!</e[CDATA[ x ]]> </style>`,false},
  {`<?xml ve--></rsion="1.0"?>`,false},{`<a><!DATA[ a ]]></a>`,false},{`<x><!.-y--></x>`,false},{`<a>&lt</a>`,false},{`</verif-root><verif-root>`,false},{`<a><?xml version="1.0"?></a>`,false},
  {`<!DOCTYPE a [<!ENTITY x "y">]><a>&lt;</a>`,true},{`<a b="1" b="2"/>`,true},{`<path d="M0 0"/>`,true},{`<svg><?p a>b?><g/></svg>`,true},
 }{ if got:=XMLWellFormed([]byte(c.s)); got!=c.ok { t.Errorf("%q got %v", c.s, got) } }
 ps,ok:=SVGPaths([]byte(`<svg><path d="M0 0"/><g><path d='L1'/></g></svg>`)); if !ok||len(ps)!=2 {t.Errorf("paths %v %v",ps,ok)}
 for _,c:=range []struct{s string; ok bool}{{"M0 0",true},{"",true},{" ",true},{"M0 0z L1 1",true},{"M2 2z 3 3",false},{"M1,1",true},{"M1,,1",false},{"M1 1,",false},{"L1 1",false},{"M1",false},{"M1 1 2",false},{"M1 1 2 2",true},{"M1-1",true},{"M.5.5",true},{"M1e2 1e-2",true},{"M1 1a1 1 0 0110 10",true},{"M1 1a1 1 0 2 1 10 10",false},{"M1 1hInfz",false},{"M1 1H3 2e308z",true},{"M 1 1 Z",true},{"M1 1ZZ",true},{"M1 1L",false},{"M0,0L1,1",true},{"M0 0,L1 1",false}}{
   if got:=PathValid([]byte(c.s)); got!=c.ok { t.Errorf("path %q got %v", c.s, got) } }
}
