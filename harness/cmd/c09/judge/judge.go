// Package judge holds the validators of C09 that are independent of the code under test:
// encoding/json, encoding/xml, the x/net/html tokenizer (HTML5 raw-text handling), a small CSS
// tokenizer written from css-syntax-3 section 4, and a recogniser of the SVG 1.1 path grammar.
// JavaScript is judged by V8 and acorn in harness/cmd/c09/jsvalid.js.
package judge

import (
	"bytes"
	"encoding/json"
	"encoding/xml"
	"io"
	"regexp"
	"strings"

	"golang.org/x/net/html"
)

// ---------------------------------------------------------------- JSON / XML

func JSONValid(b []byte) bool { return json.Valid(b) }

var xmlDeclRe = regexp.MustCompile(`^xml\s+version\s*=\s*("1\.[0-9]+"|'1\.[0-9]+')(\s+encoding\s*=\s*("[A-Za-z][A-Za-z0-9._-]*"|'[A-Za-z][A-Za-z0-9._-]*'))?(\s+standalone\s*=\s*("(yes|no)"|'(yes|no)'))?\s*$`)

// xmlTokens reads every token with the strict decoder of encoding/xml and adds well-formedness rules that decoder does
// not enforce: a markup declaration "<!...>" outside the DTD must be a DOCTYPE declaration before the first element, and the
// target "xml" is reserved for the XML declaration at the very start.  The text is judged as a FRAGMENT (the minifiers
// are used on fragments too, e.g. inline SVG): several top-level elements and top-level text are allowed, tags must match.
func xmlTokens(b []byte, each func(t xml.Token)) bool {
	const open, shut = "<verif-root>", "</verif-root>"
	// the XML declaration and the DOCTYPE must stay in front of the synthetic root
	head := 0
	if m := regexp.MustCompile(`^(<\?xml[^>]*\?>)?\s*(<!DOCTYPE[^\[>]*(\[[^\]]*\])?[^>]*>)?`).FindIndex(b); m != nil {
		head = m[1]
	}
	doc := append(append(append(append([]byte{}, b[:head]...), open...), b[head:]...), shut...)
	d := xml.NewDecoder(bytes.NewReader(doc))
	d.Strict = true
	d.CharsetReader = func(label string, input io.Reader) (io.Reader, error) { return input, nil }
	depth, seenRoot, first := 0, false, true
	for {
		off := d.InputOffset()
		t, err := d.Token()
		if err == io.EOF {
			return depth == 0 && seenRoot
		}
		if err != nil {
			return false
		}
		switch v := t.(type) {
		case xml.Directive:
			s := string(v)
			if seenRoot || !strings.HasPrefix(s, "DOCTYPE") || len(s) < 9 || !strings.ContainsAny(s[7:8], " \t\r\n") {
				return false
			}
		case xml.ProcInst:
			if strings.EqualFold(v.Target, "xml") {
				if !first || off != 0 || v.Target != "xml" || !xmlDeclRe.MatchString("xml "+strings.TrimSpace(string(v.Inst))) {
					return false
				}
			}
		case xml.StartElement:
			if depth == 0 {
				if seenRoot || v.Name.Local != "verif-root" {
					return false // content after the synthetic root was closed: the input closed it itself
				}
				seenRoot = true
			}
			depth++
		case xml.EndElement:
			depth--
		case xml.CharData:
			if depth == 0 && len(bytes.TrimSpace(v)) > 0 {
				return false
			}
		}
		first = false
		if each != nil && depth >= 1 {
			each(t)
		}
	}
}

// XMLWellFormed judges a document or fragment.
func XMLWellFormed(b []byte) bool { return xmlTokens(b, nil) }

// SVGStyles returns the text of style elements (whole sheets) and the style attributes (declaration lists).
func SVGStyles(b []byte) (sheets, decls [][]byte, ok bool) {
	inStyle := 0
	var cur []byte
	ok = xmlTokens(b, func(t xml.Token) {
		switch v := t.(type) {
		case xml.StartElement:
			if v.Name.Local == "style" {
				inStyle++
				cur = nil
			}
			for _, a := range v.Attr {
				if a.Name.Local == "style" && a.Name.Space == "" {
					decls = append(decls, []byte(a.Value))
				}
			}
		case xml.EndElement:
			if v.Name.Local == "style" && inStyle > 0 {
				inStyle--
				sheets = append(sheets, cur)
			}
		case xml.CharData:
			if inStyle > 0 {
				cur = append(cur, v...)
			}
		}
	})
	return
}

// SVGPaths returns the d attributes of path elements (nil, false when not well-formed).
func SVGPaths(b []byte) ([][]byte, bool) {
	var out [][]byte
	ok := xmlTokens(b, func(t xml.Token) {
		if st, ok := t.(xml.StartElement); ok && st.Name.Local == "path" {
			for _, a := range st.Attr {
				if a.Name.Local == "d" && a.Name.Space == "" {
					out = append(out, []byte(a.Value))
				}
			}
		}
	})
	if !ok {
		return nil, false
	}
	return out, true
}

// ---------------------------------------------------------------- SVG path grammar (SVG 1.1, 8.3.9)

func pathArgc(c byte) int {
	switch c {
	case 'M', 'm', 'L', 'l', 'T', 't':
		return 2
	case 'H', 'h', 'V', 'v':
		return 1
	case 'C', 'c':
		return 6
	case 'S', 's', 'Q', 'q':
		return 4
	case 'A', 'a':
		return 7
	case 'Z', 'z':
		return 0
	}
	return -1
}

func isDigit(c byte) bool { return '0' <= c && c <= '9' }

// number DFA of [+-]?(d+.?d*|.d+)([eE][+-]?d+)?  (same states as spec/NumVal.tla Delta)
func numDelta(s int, c byte) int {
	sign := c == '+' || c == '-'
	e := c == 'e' || c == 'E'
	switch s {
	case 0:
		if sign {
			return 1
		} else if isDigit(c) {
			return 2
		} else if c == '.' {
			return 5
		}
	case 1:
		if isDigit(c) {
			return 2
		} else if c == '.' {
			return 5
		}
	case 2:
		if isDigit(c) {
			return 2
		} else if c == '.' {
			return 3
		} else if e {
			return 6
		}
	case 3, 4:
		if isDigit(c) {
			return 4
		} else if e {
			return 6
		}
	case 5:
		if isDigit(c) {
			return 4
		}
	case 6:
		if sign {
			return 7
		} else if isDigit(c) {
			return 8
		}
	case 7, 8:
		if isDigit(c) {
			return 8
		}
	}
	return -1
}

func numAccepting(s int) bool { return s == 2 || s == 3 || s == 4 || s == 8 }

// PathValid recognises the SVG 1.1 path data grammar (empty / whitespace-only data is valid).
// The same machine is written in TLA+ in spec/C09Path.tla; the two are cross-checked on every run.
func PathValid(b []byte) bool {
	cmd := byte(0)
	n, k, cnt := 0, 0, 0
	num := 0
	comma := false
	finish := func() bool { // a number ended
		if !numAccepting(num) {
			return false
		}
		num = 0
		comma = false
		k++
		if k == n {
			k = 0
			cnt++
		}
		return true
	}
	for i := 0; i < len(b); i++ {
		c := b[i]
		if num != 0 {
			// exponent letters: SVG has no e/E command, so the DFA may take them
			if nx := numDelta(num, c); nx != -1 {
				num = nx
				continue
			}
			if !finish() {
				return false
			}
		}
		switch {
		case c == ' ' || c == '\t' || c == '\n' || c == '\r' || c == '\f':
		case c == ',':
			if comma || cmd == 0 || n == 0 || (k == 0 && cnt == 0) {
				return false
			}
			comma = true
		case c == '+' || c == '-' || c == '.' || isDigit(c):
			if cmd == 0 || n == 0 {
				return false
			}
			if (cmd == 'A' || cmd == 'a') && (k == 3 || k == 4) {
				if c != '0' && c != '1' {
					return false
				}
				comma = false
				k++
				continue
			}
			num = numDelta(0, c)
		case pathArgc(c) >= 0:
			if comma || k != 0 {
				return false
			}
			if cmd == 0 && c != 'M' && c != 'm' {
				return false
			}
			if cmd != 0 && n != 0 && cnt == 0 {
				return false
			}
			cmd, n, k, cnt = c, pathArgc(c), 0, 0
		default:
			return false
		}
	}
	if num != 0 && !finish() {
		return false
	}
	if comma || k != 0 {
		return false
	}
	return cmd == 0 || n == 0 || cnt > 0
}

// ---------------------------------------------------------------- CSS tokenizer (css-syntax-3, section 4.3)

// CSSReport counts the tokens that make a style sheet syntactically broken.
type CSSReport struct {
	BadString int // unescaped newline inside a string
	BadURL    int // bad-url-token
	Closers   int // ) ] } without a matching opener
	Open      int // blocks still open at EOF
	OpenStr   int // a string still open at EOF (the rest of the sheet was swallowed by it)
}

func cssNewline(c byte) bool { return c == '\n' || c == '\r' || c == '\f' }
func cssWS(c byte) bool      { return c == ' ' || c == '\t' || cssNewline(c) }
func cssHex(c byte) bool {
	return isDigit(c) || 'a' <= c && c <= 'f' || 'A' <= c && c <= 'F'
}
func cssNameStart(c byte) bool {
	return 'a' <= c && c <= 'z' || 'A' <= c && c <= 'Z' || c == '_' || c >= 0x80
}
func cssName(c byte) bool { return cssNameStart(c) || isDigit(c) || c == '-' }

type cssLex struct {
	b []byte
	i int
}

func (l *cssLex) at(k int) byte {
	if l.i+k < len(l.b) {
		return l.b[l.i+k]
	}
	return 0
}
func (l *cssLex) has(k int) bool { return l.i+k < len(l.b) }

// valid escape at offset k: backslash not followed by a newline (EOF counts as valid per spec when inside tokens)
func (l *cssLex) validEscape(k int) bool {
	return l.has(k) && l.at(k) == '\\' && l.has(k+1) && !cssNewline(l.at(k+1))
}

func (l *cssLex) consumeEscape() { // at the backslash
	l.i++
	if !l.has(0) {
		return
	}
	if cssHex(l.at(0)) {
		n := 0
		for n < 6 && l.has(0) && cssHex(l.at(0)) {
			l.i++
			n++
		}
		if l.has(0) && cssWS(l.at(0)) {
			if l.at(0) == '\r' && l.at(1) == '\n' {
				l.i++
			}
			l.i++
		}
		return
	}
	l.i++
}

func (l *cssLex) wouldStartIdent() bool {
	c := l.at(0)
	if !l.has(0) {
		return false
	}
	if c == '-' {
		return l.has(1) && (cssNameStart(l.at(1)) || l.at(1) == '-' || l.validEscape(1))
	}
	return cssNameStart(c) || l.validEscape(0)
}

func (l *cssLex) consumeName() []byte {
	start := l.i
	for l.has(0) {
		if cssName(l.at(0)) {
			l.i++
		} else if l.validEscape(0) {
			l.consumeEscape()
		} else {
			break
		}
	}
	return l.b[start:l.i]
}

// CSSCheck tokenizes a style sheet (or a declaration list) and reports broken tokens and block balance.
func CSSCheck(b []byte) CSSReport {
	var r CSSReport
	l := &cssLex{b: b}
	var stack []byte
	for l.has(0) {
		c := l.at(0)
		switch {
		case c == '/' && l.at(1) == '*' && l.has(1):
			l.i += 2
			for l.has(0) && !(l.at(0) == '*' && l.has(1) && l.at(1) == '/') {
				l.i++
			}
			l.i += 2
		case c == '"' || c == '\'':
			q := c
			l.i++
			for {
				if !l.has(0) {
					r.OpenStr++
					break
				}
				d := l.at(0)
				if d == q {
					l.i++
					break
				}
				if cssNewline(d) {
					r.BadString++
					break
				}
				if d == '\\' {
					if !l.has(1) {
						l.i++
						break
					}
					if cssNewline(l.at(1)) {
						if l.at(1) == '\r' && l.at(2) == '\n' {
							l.i++
						}
						l.i += 2
						continue
					}
					l.consumeEscape()
					continue
				}
				l.i++
			}
		case c == '#':
			l.i++
			if l.has(0) && (cssName(l.at(0)) || l.validEscape(0)) {
				l.consumeName()
			}
		case l.wouldStartIdent():
			name := l.consumeName()
			if l.has(0) && l.at(0) == '(' {
				l.i++
				if strings.EqualFold(string(name), "url") {
					// look past whitespace: a quote makes it a function token
					k := 0
					for l.has(k) && cssWS(l.at(k)) {
						k++
					}
					if l.has(k) && (l.at(k) == '"' || l.at(k) == '\'') {
						stack = append(stack, ')')
						continue
					}
					l.i += k
					bad := false
				url:
					for {
						if !l.has(0) {
							break
						}
						d := l.at(0)
						switch {
						case d == ')':
							l.i++
							break url
						case cssWS(d):
							for l.has(0) && cssWS(l.at(0)) {
								l.i++
							}
							if !l.has(0) {
								break url
							}
							if l.at(0) == ')' {
								l.i++
								break url
							}
							bad = true
							break url
						case d == '"' || d == '\'' || d == '(' || d <= 8 || d == 0x0B || 0x0E <= d && d <= 0x1F || d == 0x7F:
							bad = true
							break url
						case d == '\\':
							if l.validEscape(0) {
								l.consumeEscape()
							} else {
								bad = true
								break url
							}
						default:
							l.i++
						}
					}
					if bad {
						r.BadURL++
						for l.has(0) { // consume the remnants of a bad url
							if l.at(0) == ')' {
								l.i++
								break
							}
							if l.validEscape(0) {
								l.consumeEscape()
							} else {
								l.i++
							}
						}
					}
				} else {
					stack = append(stack, ')')
				}
			}
		case c == '(':
			stack = append(stack, ')')
			l.i++
		case c == '[':
			stack = append(stack, ']')
			l.i++
		case c == '{':
			stack = append(stack, '}')
			l.i++
		case c == ')' || c == ']' || c == '}':
			if len(stack) > 0 && stack[len(stack)-1] == c {
				stack = stack[:len(stack)-1]
			} else {
				r.Closers++
			}
			l.i++
		case c == '\\':
			// not a valid escape (would have started an ident): delim
			l.i++
		default:
			l.i++
		}
	}
	r.Open = len(stack)
	return r
}

// ---------------------------------------------------------------- HTML parts

// Part is an embedded resource found by the HTML5 tokenizer of x/net/html.
type Part struct {
	Kind string // "script" | "module" | "handler" | "style" | "styleattr" | "json"
	Text []byte
}

// the JavaScript MIME type essence list of the HTML standard (mimesniff 4.6)
var jsTypes = map[string]bool{
	"application/ecmascript": true, "application/javascript": true, "application/x-ecmascript": true,
	"application/x-javascript": true, "text/ecmascript": true, "text/javascript": true,
	"text/javascript1.0": true, "text/javascript1.1": true, "text/javascript1.2": true,
	"text/javascript1.3": true, "text/javascript1.4": true, "text/javascript1.5": true,
	"text/jscript": true, "text/livescript": true, "text/x-ecmascript": true, "text/x-javascript": true,
}

// HTMLParts tokenizes a document the way a browser does (raw text elements, script data escaped
// states) and returns the embedded resources in document order, plus the number of script elements.
func HTMLParts(b []byte) (parts []Part, scripts int) {
	z := html.NewTokenizer(bytes.NewReader(b))
	z.SetMaxBuf(0)
	pending := "" // kind of the raw text element whose text comes next
	inSVG := 0
	for {
		tt := z.Next()
		switch tt {
		case html.ErrorToken:
			return
		case html.StartTagToken, html.SelfClosingTagToken:
			name, hasAttr := z.TagName()
			tag := string(name)
			typ, hasType := "", false
			lang := ""
			var attrs [][2][]byte
			for hasAttr {
				var k, v []byte
				k, v, hasAttr = z.TagAttr()
				attrs = append(attrs, [2][]byte{append([]byte{}, k...), append([]byte{}, v...)})
				if string(k) == "type" && !hasType {
					typ, hasType = strings.ToLower(strings.TrimSpace(string(v))), true
				}
				if string(k) == "language" {
					lang = string(v)
				}
			}
			_ = lang
			if tag == "svg" && tt == html.StartTagToken {
				inSVG++
			}
			pending = ""
			if inSVG == 0 {
				for _, a := range attrs {
					k := string(a[0])
					if len(k) > 2 && k[0] == 'o' && k[1] == 'n' {
						parts = append(parts, Part{"handler", a[1]})
					} else if k == "style" {
						parts = append(parts, Part{"styleattr", a[1]})
					}
				}
			}
			if tt == html.StartTagToken && inSVG == 0 {
				switch tag {
				case "script":
					scripts++
					if i := strings.IndexByte(typ, ';'); i >= 0 {
						typ = strings.TrimSpace(typ[:i])
					}
					switch {
					case !hasType || typ == "" || jsTypes[typ]:
						pending = "script"
					case typ == "module":
						pending = "module"
					case strings.HasSuffix(typ, "/json") || strings.HasSuffix(typ, "+json"):
						pending = "json"
					}
				case "style":
					if !hasType || typ == "" || typ == "text/css" {
						pending = "style"
					}
				}
			}
		case html.TextToken:
			if pending != "" {
				parts = append(parts, Part{pending, append([]byte{}, z.Raw()...)})
			}
			pending = ""
		case html.EndTagToken:
			name, _ := z.TagName()
			if string(name) == "svg" && inSVG > 0 {
				inSVG--
			}
			pending = ""
		default:
			// comments and doctype do not occur inside raw text
		}
	}
}
