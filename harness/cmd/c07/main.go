// c07: drives the real JSON minifier (github.com/tdewolff/minify/v2/json) for property C07.
//
//	c07 run <cases.ndjson> <trace.ndjson> [window]
//	    case:  {"id":n,"keep":bool,"api":"func|method|reg|bytes","rd":"buf|rdr",
//	            "text":[bytes]}   or   {..., "file":"/path","off":o,"len":n}  (len 0 = to the end)
//	    trace: one or more lines per case as described in spec/C07Trace.tla
//	c07 spans <file> <maxbytes>
//	    prints {"off":o,"len":n} for every JSON value of the file that spans <= maxbytes
//
// The Go side only (1) calls the public API on a private copy of the input, (2) splits input and
// output into raw lexemes at whitespace / structural bytes / string boundaries - it does not
// judge validity or equality, that is JsonDoc.tla's job, evaluated by TLC -, and (3) records
// second opinions (encoding/json.Valid, an exact comparison written independently in Go, and
// encoding/json's decoder) which are only ever used to detect a broken oracle (exit 2).
package main

import (
	"bytes"
	stdjson "encoding/json"
	"fmt"
	"io"
	"math/big"
	"os"
	"regexp"
	"strconv"

	"github.com/tdewolff/minify/v2"
	minjson "github.com/tdewolff/minify/v2/json"
	"verifharness/lib"
)

type Case struct {
	ID   int       `json:"id"`
	Keep bool      `json:"keep"`
	API  string    `json:"api"`
	Rd   string    `json:"rd"`
	Text lib.Bytes `json:"text"`
	File string    `json:"file"`
	Off  int       `json:"off"`
	Len  int       `json:"len"`
}

type Event struct {
	ID    int    `json:"id"`
	First bool   `json:"first"`
	Last  bool   `json:"last"`
	Keep  bool   `json:"keep"`
	API   string `json:"api"`
	Rd    string `json:"rd"`
	Ilen  int    `json:"ilen"`
	Olen  int    `json:"olen"`
	Igo   bool   `json:"igo"`
	Ogo   bool   `json:"ogo"`
	Panic bool   `json:"panic"`
	Err   bool   `json:"err"`
	// second opinions / design-model drift, not used by the trace spec
	EqRaw  bool   `json:"eqraw"`
	EqDec  bool   `json:"eqdec"`
	Ows    int    `json:"ows"`  // bytes of the output that belong to no lexeme (whitespace)
	NumChg int    `json:"nchg"` // number lexemes whose spelling changed
	Msg    string `json:"msg"`
	// results of the public minify.Number(lexeme, 0) on the input's number lexemes, in order (texts of one
	// window without number keeping; design-model drift only)
	Nn []lib.Bytes `json:"nn"`
	// raw lexemes of this window (kept last: the driver reads the fields above without parsing these)
	It []lib.Bytes `json:"it"`
	Ot []lib.Bytes `json:"ot"`
}

func isWS(c byte) bool { return c == ' ' || c == '\t' || c == '\n' || c == '\r' }
func isStruct(c byte) bool {
	return c == '{' || c == '}' || c == '[' || c == ']' || c == ':' || c == ','
}

// split cuts b into raw lexemes; offs[i] is the offset of lexeme i.
func split(b []byte) (toks [][]byte, offs []int) {
	n := len(b)
	i := 0
	for i < n {
		c := b[i]
		switch {
		case isWS(c):
			i++
		case isStruct(c):
			toks = append(toks, b[i:i+1])
			offs = append(offs, i)
			i++
		case c == '"':
			j := i + 1
			for j < n {
				if b[j] == '\\' {
					j += 2
					continue
				}
				if b[j] == '"' {
					j++
					break
				}
				j++
			}
			if j > n {
				j = n
			}
			toks = append(toks, b[i:j])
			offs = append(offs, i)
			i = j
		default:
			j := i
			for j < n && !isWS(b[j]) && !isStruct(b[j]) && b[j] != '"' {
				j++
			}
			toks = append(toks, b[i:j])
			offs = append(offs, i)
			i = j
		}
	}
	return
}

type plainReader struct{ r io.Reader } // hides Bytes(): parse.NewInput must io.ReadAll

func (p plainReader) Read(b []byte) (int, error) { return p.r.Read(b) }

func call(c Case, in []byte) (out []byte, err error, panicked bool, msg string) {
	w := &bytes.Buffer{}
	priv := append(make([]byte, 0, len(in)), in...) // the minifier rewrites its input buffer in place
	var r io.Reader = bytes.NewBuffer(priv)
	if c.Rd == "rdr" {
		r = plainReader{bytes.NewReader(priv)}
	}
	o := &minjson.Minifier{KeepNumbers: c.Keep, Precision: 0}
	panicked, msg = lib.Guard(func() {
		switch c.API {
		case "func":
			if c.Keep {
				lib.Fatal("api func has no options")
			}
			err = minjson.Minify(minify.New(), w, r, nil)
		case "reg":
			m := minify.New()
			m.Add("application/json", o)
			err = m.Minify("application/json", w, r)
		case "bytes":
			m := minify.New()
			m.Add("application/json", o)
			var ob []byte
			ob, err = m.Bytes("application/json", priv)
			w.Write(ob)
		default:
			err = o.Minify(minify.New(), w, r, nil)
		}
	})
	out = append([]byte{}, w.Bytes()...)
	return
}

// ---- second opinions ------------------------------------------------------------------

type canon struct {
	zero, neg bool
	digits    string
	exp       *big.Int
}

// canonNum: exact value of a JSON number lexeme as (sign, digits without leading/trailing zeros, exponent of ten).
func canonNum(s []byte) (canon, bool) {
	i := 0
	c := canon{exp: new(big.Int)}
	if i < len(s) && s[i] == '-' {
		c.neg = true
		i++
	}
	st := i
	for i < len(s) && s[i] >= '0' && s[i] <= '9' {
		i++
	}
	ip := s[st:i]
	var fp []byte
	if i < len(s) && s[i] == '.' {
		i++
		st = i
		for i < len(s) && s[i] >= '0' && s[i] <= '9' {
			i++
		}
		fp = s[st:i]
	}
	if len(ip)+len(fp) == 0 {
		return c, false
	}
	if i < len(s) {
		if s[i] != 'e' && s[i] != 'E' {
			return c, false
		}
		if _, ok := c.exp.SetString(string(bytes.TrimPrefix(s[i+1:], []byte("+"))), 10); !ok {
			return c, false
		}
	}
	all := bytes.TrimLeft(append(append([]byte{}, ip...), fp...), "0")
	if len(all) == 0 {
		return canon{zero: true}, true
	}
	t := bytes.TrimRight(all, "0")
	c.exp.Add(c.exp, big.NewInt(int64(len(all)-len(t)-len(fp))))
	c.digits = string(t)
	return c, true
}

var jsonNumber = regexp.MustCompile(`^-?(0|[1-9][0-9]*)(\.[0-9]+)?([eE][+-]?[0-9]+)?$`)

func numEq(a, b []byte, keep bool) bool {
	if !jsonNumber.Match(a) || !jsonNumber.Match(b) {
		return false // `.5`, `-.5`, `01`, `1.` are not JSON numbers, whatever their value
	}
	if keep {
		return bytes.Equal(a, b)
	}
	x, ok1 := canonNum(a)
	y, ok2 := canonNum(b)
	if !ok1 || !ok2 {
		return false
	}
	if x.zero || y.zero {
		return x.zero && y.zero
	}
	return x.neg == y.neg && x.digits == y.digits && x.exp.Cmp(y.exp) == 0
}

func looksNum(t []byte) bool { return len(t) > 0 && (t[0] == '-' || (t[0] >= '0' && t[0] <= '9')) }

func eqRaw(a, b [][]byte, keep bool) (bool, int) {
	chg := 0
	ok := len(a) == len(b)
	for i := 0; i < len(a) && i < len(b); i++ {
		if looksNum(a[i]) && looksNum(b[i]) {
			if !bytes.Equal(a[i], b[i]) {
				chg++
			}
			if !numEq(a[i], b[i], keep) {
				ok = false
			}
		} else if !bytes.Equal(a[i], b[i]) {
			ok = false
		}
	}
	return ok, chg
}

func decTokens(b []byte) ([]stdjson.Token, bool) {
	d := stdjson.NewDecoder(bytes.NewReader(b))
	d.UseNumber()
	var ts []stdjson.Token
	for {
		t, err := d.Token()
		if err == io.EOF {
			return ts, true
		}
		if err != nil {
			return ts, false
		}
		ts = append(ts, t)
	}
}

func eqDec(a, b []byte, keep bool) bool {
	x, ok1 := decTokens(a)
	y, ok2 := decTokens(b)
	if !ok1 || !ok2 || len(x) != len(y) {
		return false
	}
	for i := range x {
		switch u := x[i].(type) {
		case stdjson.Number:
			v, ok := y[i].(stdjson.Number)
			if !ok || !numEq([]byte(u), []byte(v), keep) {
				return false
			}
		default:
			if x[i] != y[i] {
				return false
			}
		}
	}
	return true
}

// ---- running ---------------------------------------------------------------------------

func toBytes(ts [][]byte) []lib.Bytes {
	r := make([]lib.Bytes, len(ts))
	for i, t := range ts {
		r[i] = lib.Bytes(t)
	}
	return r
}

func runCase(c Case, tw *lib.TraceWriter, window int) {
	in := []byte(c.Text)
	if c.File != "" {
		b, err := os.ReadFile(c.File)
		if err != nil {
			lib.Fatal("read %s: %v", c.File, err)
		}
		if c.Len > 0 {
			b = b[c.Off : c.Off+c.Len]
		} else {
			b = b[c.Off:]
		}
		in = b
	}
	saved := append([]byte{}, in...)
	out, err, panicked, msg := call(c, in)
	if !bytes.Equal(saved, in) {
		lib.Fatal("case %d: the harness's own copy of the input was modified", c.ID)
	}
	it, _ := split(in)
	ot, _ := split(out)
	ev := Event{ID: c.ID, Keep: c.Keep, API: c.API, Rd: c.Rd, Ilen: len(in), Olen: len(out),
		Igo: stdjson.Valid(in), Ogo: stdjson.Valid(out), Panic: panicked, Err: err != nil}
	if panicked {
		ev.Msg = msg
	} else if err != nil {
		ev.Msg = err.Error()
		if len(ev.Msg) > 300 {
			ev.Msg = ev.Msg[:300]
		}
	}
	ev.EqRaw, ev.NumChg = eqRaw(it, ot, c.Keep)
	ev.EqDec = eqDec(in, out, c.Keep)
	ev.Ows = len(out)
	for _, t := range ot {
		ev.Ows -= len(t)
	}
	ev.Nn = []lib.Bytes{}
	if !c.Keep && !panicked && err == nil && len(it) <= window && len(ot) <= window {
		for _, t := range it {
			if jsonNumber.Match(t) {
				var r []byte
				cp := append(make([]byte, 0, len(t)), t...)
				if p, _ := lib.Guard(func() { r = minify.Number(cp, 0) }); !p {
					ev.Nn = append(ev.Nn, append(lib.Bytes{}, r...))
				}
			}
		}
	}
	n := len(it)
	if len(ot) > n {
		n = len(ot)
	}
	if n == 0 {
		n = 1
	}
	for lo := 0; lo < n; lo += window {
		hi := lo + window
		if hi > n {
			hi = n
		}
		e := ev
		e.First = lo == 0
		e.Last = hi == n
		e.It = toBytes(clip(it, lo, hi))
		e.Ot = toBytes(clip(ot, lo, hi))
		if !e.Last {
			e.Msg = ""
		}
		tw.Emit(e)
	}
}

func clip(ts [][]byte, lo, hi int) [][]byte {
	if lo > len(ts) {
		lo = len(ts)
	}
	if hi > len(ts) {
		hi = len(ts)
	}
	return ts[lo:hi]
}

// spans: every value of the text with its byte extent (containers by bracket matching, scalars
// by lexeme); used to cut the big corpus documents into many self-contained JSON texts.
func spans(file string, max int) {
	b, err := os.ReadFile(file)
	if err != nil {
		lib.Fatal("read %s: %v", file, err)
	}
	if !stdjson.Valid(b) {
		return
	}
	toks, offs := split(b)
	var stack []int
	w := lib.NewTraceWriter("/dev/stdout")
	type span struct {
		Off int `json:"off"`
		Len int `json:"len"`
	}
	for i, t := range toks {
		switch t[0] {
		case '{', '[':
			stack = append(stack, offs[i])
		case '}', ']':
			st := stack[len(stack)-1]
			stack = stack[:len(stack)-1]
			if n := offs[i] + 1 - st; n <= max {
				w.Emit(span{st, n})
			}
		case ':', ',':
		default:
			if i+1 < len(toks) && toks[i+1][0] == ':' {
				continue // a key is not a value
			}
			if len(t) <= max {
				w.Emit(span{offs[i], len(t)})
			}
		}
	}
	w.Close()
}

func main() {
	if len(os.Args) >= 4 && os.Args[1] == "spans" {
		max, _ := strconv.Atoi(os.Args[3])
		spans(os.Args[2], max)
		return
	}
	if len(os.Args) < 4 || os.Args[1] != "run" {
		fmt.Fprintln(os.Stderr, "usage: c07 run <cases.ndjson> <trace.ndjson> [window] | c07 spans <file> <maxbytes>")
		os.Exit(2)
	}
	window := 256
	if len(os.Args) > 4 {
		window, _ = strconv.Atoi(os.Args[4])
		if window < 1 {
			window = 256
		}
	}
	tw := lib.NewTraceWriter(os.Args[3])
	lib.ReadJSONLines(os.Args[2], func(line []byte) {
		var c Case
		if err := stdjson.Unmarshal(line, &c); err != nil {
			lib.Fatal("bad case: %v", err)
		}
		runCase(c, tw, window)
	})
	tw.Close()
}
