// c17: dumps every entry of the built-in rewrite tables of tdewolff/minify (html, xml, css,
// svg) and probes every entry black-box through the public minifiers, for property C17
// ("Built-in replacement tables agree with the standards").
//
//	c17 <repo> <universe.json> <out.ndjson> <tier> [<filter-file>]
//
// <universe.json> is written by TLC from spec/TablesMC.tla (the standards' names: elements,
// attributes, units, colours, ...); the probe universe is that plus every name found in the
// tables themselves.  One ndjson line per table entry / probe, as described in
// spec/TableAudit.tla.  With a filter file (one cid per line) only those lines are produced
// (used to re-run rejected cases alone in a fresh process).
//
// This program renders inputs, calls the real API and projects outputs with parsers that are
// independent of the code under test (golang.org/x/net/html, encoding/xml, go/parser, a
// trivial "a{p:v}" splitter).  It judges nothing; the relation is spec/TableAudit.tla.
// Reference data: Go standard library html.UnescapeString (HTML5 entity table), cross-checked
// against golang.org/x/net/html.UnescapeString (disagreement = exit 2).
package main

import (
	"math"
	"bufio"
	"bytes"
	"encoding/json"
	"encoding/xml"
	"fmt"
	"go/ast"
	"go/parser"
	"go/token"
	stdhtml "html"
	"os"
	"path/filepath"
	"regexp"
	"sort"
	"strconv"
	"strings"

	"github.com/tdewolff/minify/v2"
	mcss "github.com/tdewolff/minify/v2/css"
	mhtml "github.com/tdewolff/minify/v2/html"
	mjs "github.com/tdewolff/minify/v2/js"
	msvg "github.com/tdewolff/minify/v2/svg"
	mxml "github.com/tdewolff/minify/v2/xml"
	xhtml "golang.org/x/net/html"

	"verifharness/lib"
)

type Universe struct {
	Elements    []string         `json:"elements"`
	Void        []string         `json:"void"`
	Attrs       []string         `json:"attrs"`
	Units       []string         `json:"units"`
	Colours     []string         `json:"colours"`
	SvgAttrs    []string         `json:"svgattrs"`
	XmlEntities []string         `json:"xmlentities"`
	ColourRGB   map[string][]int `json:"colourrgb"`
}

type obj = map[string]interface{}

var (
	tw       *lib.TraceWriter
	filter   map[string]bool
	nextID   int
	thorough bool
)

func emit(cid string, o obj) {
	if filter != nil && !filter[cid] {
		return
	}
	o["cid"] = cid
	o["id"] = nextID
	nextID++
	tw.Emit(o)
}

func cps(s string) []int {
	out := []int{}
	for _, r := range s {
		out = append(out, int(r))
	}
	return out
}

func ints(b []byte) []int {
	out := make([]int, len(b))
	for i, c := range b {
		out[i] = int(c)
	}
	return out
}

func sortedKeys(m map[string][]byte) []string {
	ks := make([]string, 0, len(m))
	for k := range m {
		ks = append(ks, k)
	}
	sort.Strings(ks)
	return ks
}

func uniqSorted(xs ...[]string) []string {
	seen := map[string]bool{}
	out := []string{}
	for _, l := range xs {
		for _, x := range l {
			if !seen[x] {
				seen[x] = true
				out = append(out, x)
			}
		}
	}
	sort.Strings(out)
	return out
}

// ---- reference entity data (independent of /repo) ----------------------------------------

// refEntity returns the reference decoding of "&name" + term (term is ";" or "") by the Go
// standard library, and whether the name is known (the text changed).
func refEntity(name, term string) (string, bool) {
	in := "&" + name + term
	a := stdhtml.UnescapeString(in)
	b := xhtml.UnescapeString(in)
	if a != b {
		lib.Fatal("reference oracles disagree on %q: stdlib %q, x/net/html %q", in, a, b)
	}
	return a, a != in
}

var reNamed = regexp.MustCompile(`^&([0-9A-Za-z]+);$`)

// replRecord describes one replacement byte string for the TLA+ side: its bytes and, when it has
// the outer shape &name; , that inner name together with the reference code points of &name;.
func replRecord(b []byte) obj {
	r := obj{"b": lib.Bytes(b), "iname": lib.Bytes{}, "inames": "", "iknown": false, "iref": []int{}}
	if m := reNamed.FindSubmatch(b); m != nil {
		name := string(m[1])
		dec, known := refEntity(name, ";")
		r["iname"] = lib.Bytes(name)
		r["inames"] = name
		r["iknown"] = known
		if known {
			r["iref"] = cps(dec)
		}
	}
	return r
}

// refNames reads the names of the HTML5 entity table from the Go standard library's source
// (html/entity.go); only the names are taken from the file, the decoding goes through the API.
func refNames(goroot string) (semi []string, legacy []string) {
	p := filepath.Join(goroot, "src", "html", "entity.go")
	data, err := os.ReadFile(p)
	if err != nil {
		lib.Fatal("cannot read the reference entity names: %v", err)
	}
	re := regexp.MustCompile(`(?m)^\s*"([0-9A-Za-z]+)(;?)":\s`)
	for _, m := range re.FindAllStringSubmatch(string(data), -1) {
		if m[2] == ";" {
			semi = append(semi, m[1])
		} else {
			legacy = append(legacy, m[1])
		}
	}
	if len(semi) < 2000 || len(legacy) < 100 {
		lib.Fatal("reference entity table looks truncated: %d + %d names", len(semi), len(legacy))
	}
	sort.Strings(semi)
	sort.Strings(legacy)
	return
}

// ---- direct dump -------------------------------------------------------------------------

func dumpEntities(table string, m map[string][]byte, rev map[byte][]byte) {
	for _, name := range sortedKeys(m) {
		repl := m[name]
		dec, known := refEntity(name, ";")
		text := repl
		if len(repl) == 1 {
			if q, ok := rev[repl[0]]; ok {
				text = q
			}
		}
		ref := []int{}
		if known {
			ref = cps(dec)
		}
		emit("entity|"+table+"|"+name, obj{"kind": "entity", "table": table, "name": name,
			"known": known, "ref": ref, "a": replRecord(repl), "t": replRecord(text)})
	}
	chs := []int{}
	for c := range rev {
		chs = append(chs, int(c))
	}
	sort.Ints(chs)
	for _, c := range chs {
		noteRev(table+":text", c)
		emit(fmt.Sprintf("reventity|%s|%d", table, c), obj{"kind": "reventity", "table": table, "ch": c,
			"r": replRecord(rev[byte(c)])})
	}
}

// revChars collects the characters that have an entry in some reverse entity map of a language (for the probes).
var revChars = map[string]map[int]bool{}

// table is "<lang>:text" / "<lang>:attr": the context the map is used in (TextRev... / AttrRev...; other names: both)
func noteRev(table string, ch int) {
	if revChars[table] == nil {
		revChars[table] = map[int]bool{}
	}
	revChars[table][ch] = true
}

// byteKey evaluates a map key of type byte written as a char literal ('<', '\t') or an integer literal (0, 0x3c).
func byteKey(e ast.Expr) (int, bool) {
	bl, ok := e.(*ast.BasicLit)
	if !ok {
		return 0, false
	}
	switch bl.Kind {
	case token.CHAR:
		ch, _, _, err := strconv.UnquoteChar(bl.Value[1:len(bl.Value)-1], '\'')
		if err != nil || ch > 255 {
			return 0, false
		}
		return int(ch), true
	case token.INT:
		v, err := strconv.ParseUint(bl.Value, 0, 8)
		if err != nil {
			return 0, false
		}
		return int(v), true
	}
	return 0, false
}

// bytesValue evaluates a []byte value written as []byte("...") or []byte{'a', 0x62, ...}.
func bytesValue(e ast.Expr) ([]byte, bool) {
	switch v := e.(type) {
	case *ast.CallExpr:
		if len(v.Args) != 1 {
			return nil, false
		}
		bl, ok := v.Args[0].(*ast.BasicLit)
		if !ok || bl.Kind != token.STRING {
			return nil, false
		}
		s, err := strconv.Unquote(bl.Value)
		if err != nil {
			return nil, false
		}
		return []byte(s), true
	case *ast.CompositeLit:
		out := []byte{}
		for _, el := range v.Elts {
			c, ok := byteKey(el)
			if !ok {
				return nil, false
			}
			out = append(out, byte(c))
		}
		return out, true
	}
	return nil, false
}

// dumpExtraRevMaps audits every further package-level `var X = map[byte][]byte{...}` of <repo>/<pkg>/table.go
// (reverse entity maps added besides TextRevEntitiesMap, e.g. xml.AttrRevEntitiesMap).  Such a variable
// may not exist in every version of the tree, so it cannot be referenced from Go code here: the entries
// are read from the source of the tree under test (go/parser), char / integer / string literals evaluated by
// strconv.  An entry whose key or value is written in a form this reader cannot evaluate is not skipped
// silently: it is emitted as a "tablenote" line (reported by the check, counted in the evidence).
func dumpExtraRevMaps(repo, pkg, table string) int {
	fset := token.NewFileSet()
	f, err := parser.ParseFile(fset, filepath.Join(repo, pkg, "table.go"), nil, 0)
	if err != nil {
		lib.Fatal("parse %s/table.go: %v", pkg, err)
	}
	src, _ := os.ReadFile(filepath.Join(repo, pkg, "table.go"))
	text := func(n ast.Node) string {
		a, b := fset.Position(n.Pos()).Offset, fset.Position(n.End()).Offset
		if 0 <= a && a <= b && b <= len(src) {
			return string(src[a:b])
		}
		return "?"
	}
	n := 0
	for _, d := range f.Decls {
		gd, ok := d.(*ast.GenDecl)
		if !ok || gd.Tok != token.VAR {
			continue
		}
		for _, sp := range gd.Specs {
			vs := sp.(*ast.ValueSpec)
			if len(vs.Names) != 1 || len(vs.Values) != 1 || vs.Names[0].Name == "TextRevEntitiesMap" {
				continue
			}
			cl, ok := vs.Values[0].(*ast.CompositeLit)
			if !ok {
				continue
			}
			mt, ok := cl.Type.(*ast.MapType)
			if !ok {
				continue
			}
			if k, ok := mt.Key.(*ast.Ident); !ok || k.Name != "byte" {
				continue
			}
			if at, ok := mt.Value.(*ast.ArrayType); !ok || at.Len != nil {
				continue
			} else if e, ok := at.Elt.(*ast.Ident); !ok || e.Name != "byte" {
				continue
			}
			name := vs.Names[0].Name
			for idx, el := range cl.Elts {
				kv, ok := el.(*ast.KeyValueExpr)
				if !ok {
					emit(fmt.Sprintf("tablenote|%s.%s|%d", table, name, idx), obj{"kind": "tablenote", "table": table, "map": name,
						"text": text(el), "why": "element is not key: value"})
					continue
				}
				ch, ok1 := byteKey(kv.Key)
				val, ok2 := bytesValue(kv.Value)
				if !ok1 || !ok2 {
					emit(fmt.Sprintf("tablenote|%s.%s|%d", table, name, idx), obj{"kind": "tablenote", "table": table, "map": name,
						"text": text(el), "why": "key or value is not a literal this reader evaluates"})
					continue
				}
				if !strings.HasPrefix(name, "Attr") {
					noteRev(table+":text", ch)
				}
				if !strings.HasPrefix(name, "Text") {
					noteRev(table+":attr", ch)
				}
				emit(fmt.Sprintf("reventity|%s.%s|%d", table, name, ch), obj{"kind": "reventity", "table": table,
					"map": name, "ch": ch, "r": replRecord(val)})
				n++
			}
		}
	}
	return n
}

// probeXMLRev: every character that has a reverse entry, referenced numerically in text and in an attribute value
// of an XML document, through the public XML minifier.
func probeXMLRev() {
	for _, where := range []string{"text", "attr"} {
		chs := []int{}
		for c := range revChars["xml:"+where] {
			chs = append(chs, c)
		}
		sort.Ints(chs)
		for _, c := range chs {
			for _, form := range []string{"dec", "hex"} {
				ref := fmt.Sprintf("&#%d;", c)
				if form == "hex" {
					ref = fmt.Sprintf("&#x%X;", c)
				}
				in := "<a>1" + ref + "2</a>"
				if where == "attr" {
					in = `<a b="1` + ref + `2"/>`
				}
				out, errs := mimeMin("text/xml", in)
				it, ia, iok := projectXML([]byte(in))
				ot, oa, ook := projectXML(out)
				if errs != "" {
					ook = false
				}
				emit(fmt.Sprintf("revprobe|xml|%s|%s|%d", where, form, c), obj{"kind": "revprobe", "lang": "xml", "where": where, "ch": c, "form": form,
					"in": in, "out": string(out), "err": errs, "inb": lib.Bytes(in), "outb": lib.Bytes(out), "inok": iok, "outok": ook,
					"intext": cps(it), "outtext": cps(ot), "inattr": cps(ia), "outattr": cps(oa)})
			}
		}
	}
}

func has(l []string, s string) bool {
	for _, x := range l {
		if x == s {
			return true
		}
	}
	return false
}

func sortedStrKeys(m interface{}) []string {
	out := []string{}
	switch mm := m.(type) {
	case map[string][]string:
		for k := range mm {
			out = append(out, k)
		}
	case map[string]bool:
		for k := range mm {
			out = append(out, k)
		}
	}
	sort.Strings(out)
	return out
}

func dumpTraits() (tags, attrs, units, colourNames, hexes, svgattrs []string) {
	tt := mhtml.VerifTagTraits()
	for _, tag := range sortedStrKeys(tt) {
		l := tt[tag]
		emit("tagtrait|"+tag, obj{"kind": "tagtrait", "tag": tag, "raw": has(l, "raw"), "block": has(l, "block"),
			"object": has(l, "object"), "normal": has(l, "normal"), "omitp": has(l, "omitP"), "keepp": has(l, "keepP")})
		tags = append(tags, tag)
	}
	at := mhtml.VerifAttrTraits()
	for _, a := range sortedStrKeys(at) {
		l := at[a]
		emit("attrtrait|"+a, obj{"kind": "attrtrait", "attr": a, "boolean": has(l, "boolean"), "url": has(l, "url"), "trim": has(l, "trim")})
		attrs = append(attrs, a)
	}
	jm := mhtml.VerifJSMimetypes()
	for _, k := range sortedStrKeys(jm) {
		if jm[k] {
			emit("jsmime|"+k, obj{"kind": "jsmime", "mime": k})
		}
	}
	zu := mcss.VerifOptionalZeroDimension()
	for _, k := range sortedStrKeys(zu) {
		if zu[k] {
			emit("zerounit|"+k, obj{"kind": "zerounit", "unit": k})
			units = append(units, k)
		}
	}
	cn := mcss.VerifShortenColorName()
	for _, k := range sortedKeys(cn) {
		emit("colourname|"+k, obj{"kind": "colourname", "name": k, "hex": lib.Bytes(cn[k])})
		colourNames = append(colourNames, k)
		hexes = append(hexes, string(cn[k]))
	}
	for _, k := range sortedKeys(mcss.ShortenColorHex) {
		emit("colourhex|"+k, obj{"kind": "colourhex", "hex": lib.Bytes(k), "name": string(mcss.ShortenColorHex[k])})
		colourNames = append(colourNames, string(mcss.ShortenColorHex[k]))
		hexes = append(hexes, k)
	}
	sa := msvg.VerifColorAttrs()
	sort.Strings(sa)
	for _, a := range sa {
		emit("svgcolourattr|"+a, obj{"kind": "svgcolourattr", "attr": a})
		svgattrs = append(svgattrs, a)
	}
	return
}

// dumpHashes enumerates the names of a perfect-hash table from the constant block of
// <repo>/<pkg>/hash.go (go/parser) and runs each through the package's exported API.
func dumpHashes(repo, pkg string, toHash func([]byte) uint32, str func(uint32) string) int {
	fset := token.NewFileSet()
	f, err := parser.ParseFile(fset, filepath.Join(repo, pkg, "hash.go"), nil, parser.ParseComments)
	if err != nil {
		lib.Fatal("parse %s/hash.go: %v", pkg, err)
	}
	n := 0
	for _, d := range f.Decls {
		gd, ok := d.(*ast.GenDecl)
		if !ok || gd.Tok != token.CONST {
			continue
		}
		for _, s := range gd.Specs {
			vs := s.(*ast.ValueSpec)
			id, ok := vs.Type.(*ast.Ident)
			if !ok || id.Name != "Hash" || len(vs.Values) != 1 {
				continue
			}
			lit, ok := vs.Values[0].(*ast.BasicLit)
			if !ok {
				continue
			}
			v, err := strconv.ParseUint(lit.Value, 0, 32)
			if err != nil {
				lib.Fatal("hash constant %s: %v", vs.Names[0].Name, err)
			}
			comment := ""
			if vs.Comment != nil {
				comment = strings.TrimSpace(vs.Comment.Text())
			}
			name := str(uint32(v))
			emit("hash|"+pkg+"|"+vs.Names[0].Name, obj{"kind": "hash", "pkg": pkg, "cname": vs.Names[0].Name,
				"val": int(v), "str": name, "comment": comment, "strlen": len(name), "tohash": int(toHash([]byte(name)))})
			n++
		}
	}
	if n < 50 {
		lib.Fatal("%s/hash.go: only %d hash constants found", pkg, n)
	}
	return n
}

// ---- running the real minifiers ----------------------------------------------------------

func htmlMin(o mhtml.Minifier, in string) ([]byte, string) {
	m := minify.New() // nothing registered: embedded resources stay verbatim
	var buf bytes.Buffer
	var err error
	oo := o
	p, msg := lib.Guard(func() { err = oo.Minify(m, &buf, bytes.NewReader([]byte(in)), nil) })
	if p {
		return nil, "panic: " + msg
	}
	if err != nil {
		return nil, err.Error()
	}
	return buf.Bytes(), ""
}

var mAll *minify.M

func mimeMin(mime, in string) ([]byte, string) {
	var out []byte
	var err error
	p, msg := lib.Guard(func() { out, err = mAll.Bytes(mime, []byte(in)) })
	if p {
		return nil, "panic: " + msg
	}
	if err != nil {
		return nil, err.Error()
	}
	return out, ""
}

// ---- HTML element probes -----------------------------------------------------------------

// flatten renders markup as the independent tokenizer sees it: text bytes as they are, the
// probed element's start tag as -1, its end tag as -2, anything else that is not text as -9.
func flatten(doc []byte, tag string) []int {
	flat := []int{}
	z := xhtml.NewTokenizer(bytes.NewReader(doc))
	for {
		switch z.Next() {
		case xhtml.ErrorToken:
			return flat
		case xhtml.TextToken:
			flat = append(flat, ints(z.Raw())...)
		case xhtml.StartTagToken, xhtml.SelfClosingTagToken:
			n, _ := z.TagName()
			if string(n) == tag {
				flat = append(flat, -1)
			} else {
				flat = append(flat, -9)
			}
		case xhtml.EndTagToken:
			n, _ := z.TagName()
			if string(n) == tag {
				flat = append(flat, -2)
			} else {
				flat = append(flat, -9)
			}
		default:
			flat = append(flat, -9)
		}
	}
}

// textAfterEnd returns the raw source of the text token that directly follows the first end tag named tag.
func textAfterEnd(doc []byte, tag string) ([]byte, bool) {
	z := xhtml.NewTokenizer(bytes.NewReader(doc))
	for {
		tt := z.Next()
		if tt == xhtml.ErrorToken {
			return nil, false
		}
		if tt == xhtml.EndTagToken {
			n, _ := z.TagName()
			if string(n) == tag {
				if z.Next() == xhtml.TextToken {
					return append([]byte{}, z.Raw()...), true
				}
				return nil, false
			}
		}
	}
}

// textAfterStart returns the raw source of the text token that directly follows the first
// start tag named tag.
func textAfterStart(doc []byte, tag string) ([]byte, bool) {
	z := xhtml.NewTokenizer(bytes.NewReader(doc))
	for {
		tt := z.Next()
		if tt == xhtml.ErrorToken {
			return nil, false
		}
		if tt == xhtml.StartTagToken {
			n, _ := z.TagName()
			if string(n) == tag {
				if z.Next() == xhtml.TextToken {
					return append([]byte{}, z.Raw()...), true
				}
				return nil, false
			}
		}
	}
}

type hcfg struct {
	name string
	o    mhtml.Minifier
}

func htmlConfigs() []hcfg {
	c := []hcfg{{"keeptags", mhtml.Minifier{KeepEndTags: true, KeepDocumentTags: true}}}
	if thorough {
		c = append(c, hcfg{"default", mhtml.Minifier{}},
			hcfg{"keepall", mhtml.Minifier{KeepEndTags: true, KeepDocumentTags: true, KeepDefaultAttrVals: true, KeepQuotes: true, KeepComments: true}})
	}
	return c
}

func probeTags(tags []string) {
	for _, c := range htmlConfigs() {
		for _, tag := range tags {
			forms := []string{"1 <" + tag + "> 2", "1 <" + tag + "> 2 </" + tag + "> 3"}
			if thorough {
				forms = append(forms, "<div>1 <"+tag+"> 2 </"+tag+"> 3</div>", "1 <"+tag+" data-x=y> 2 </"+tag+"> 3")
			}
			for fi, in := range forms {
				out, errs := htmlMin(c.o, in)
				emit(fmt.Sprintf("tagprobe|%s|%d|%s", c.name, fi+1, tag), obj{"kind": "tagprobe", "tag": tag, "cfg": c.name, "form": fi + 1,
					"in": in, "out": string(out), "err": errs, "inflat": flatten([]byte(in), tag), "flat": flatten(out, tag)})
			}
			// the element box in inline flow: every combination of a blank before the start tag, after it, before the
			// end tag and after it; and a block child as fallback content
			for mask := 0; mask < 16; mask++ {
				if !thorough && c.name != "keeptags" {
					continue
				}
				b := func(i int) string {
					if mask&(1<<i) != 0 {
						return " "
					}
					return ""
				}
				in := "<p>1" + b(0) + "<" + tag + ">" + b(1) + "2" + b(2) + "</" + tag + ">" + b(3) + "3</p>"
				out, errs := htmlMin(c.o, in)
				emit(fmt.Sprintf("sideprobe|%s|%d|%s", c.name, mask, tag), obj{"kind": "sideprobe", "tag": tag, "cfg": c.name, "form": mask,
					"in": in, "out": string(out), "err": errs, "inflat": flatten([]byte(in), tag), "flat": flatten(out, tag)})
			}
			for fi, in := range []string{"<p>1 <" + tag + " src=a><p>f</p></" + tag + "> 3", "<div>1 <" + tag + "><div>f</div> </" + tag + "> 3</div>"} {
				out, errs := htmlMin(c.o, in)
				emit(fmt.Sprintf("sideprobe|%s|b%d|%s", c.name, fi, tag), obj{"kind": "sideprobe", "tag": tag, "cfg": c.name, "form": 100 + fi,
					"in": in, "out": string(out), "err": errs, "inflat": flatten([]byte(in), tag), "flat": flatten(out, tag)})
			}
			// text directly after the element (empty, and with content) inside a non-raw parent: must be handled as
			// normal text, with and without JS/CSS minifiers registered
			for fi, body := range []string{"", "x"} {
				for _, reg := range []bool{false, true} {
					in := "<div><" + tag + ">" + body + "</" + tag + ">1  &quot;  2</div>"
					var out []byte
					var errs string
					if reg {
						if c.name != "keeptags" {
							continue
						}
						out, errs = mimeMin("text/html", in)
					} else {
						out, errs = htmlMin(c.o, in)
					}
					inraw, infound := textAfterEnd([]byte(in), tag)
					outraw, found := textAfterEnd(out, tag)
					if !found {
						outraw, found = textAfterStart(out, "div")
					}
					emit(fmt.Sprintf("rawafter|%s|%d|%v|%s", c.name, fi, reg, tag), obj{"kind": "rawafter", "tag": tag, "cfg": c.name, "reg": reg,
						"in": in, "out": string(out), "err": errs, "found": found && infound, "inraw": lib.Bytes(inraw), "outraw": lib.Bytes(outraw)})
				}
			}
			in := "<" + tag + ">1  &quot;  2</" + tag + ">"
			out, errs := htmlMin(c.o, in)
			inraw, _ := textAfterStart([]byte(in), tag)
			outraw, found := textAfterStart(out, tag)
			emit(fmt.Sprintf("rawprobe|%s|%s", c.name, tag), obj{"kind": "rawprobe", "tag": tag, "cfg": c.name, "in": in, "out": string(out),
				"err": errs, "found": found, "inraw": lib.Bytes(inraw), "outraw": lib.Bytes(outraw)})
		}
	}
}

// ---- HTML attribute probes ---------------------------------------------------------------

func attrOf(doc []byte, elem, attr string) ([]byte, bool) {
	z := xhtml.NewTokenizer(bytes.NewReader(doc))
	for {
		tt := z.Next()
		if tt == xhtml.ErrorToken {
			return nil, false
		}
		if tt == xhtml.StartTagToken || tt == xhtml.SelfClosingTagToken {
			n, more := z.TagName()
			if string(n) != elem {
				continue
			}
			for more {
				var k, v []byte
				k, v, more = z.TagAttr()
				if string(k) == attr {
					return append([]byte{}, v...), true
				}
			}
			return nil, false
		}
	}
}

func probeAttrs(attrs []string) {
	o := mhtml.Minifier{KeepEndTags: true, KeepDocumentTags: true}
	type pr struct{ probe, elem, val, quote string }
	for _, a := range attrs {
		ps := []pr{
			{"bool", "p", a, ""}, {"bool", "input", a, `"`},
			{"http", "a", " HTTP://h.example/P?Q ", `"`}, {"data", "a", "data:text/plain;charset=us-ascii,abc", `"`},
		}
		// URL-valued attributes: blanks at the ends may be trimmed, runs of blanks / tabs / newlines inside must survive
		// (as far as the URL parser keeps them): a collapsed run is a different URL
		ps = append(ps, pr{"urlws", "img", "  files/annual  report.pdf  ", `"`}, pr{"urlws", "a", "files/a\t\tb   c.pdf", `"`},
			pr{"urlws", "a", " \n files/a\n\n  b \t c.pdf\n", `'`})
		if thorough {
			ps = append(ps, pr{"urlws", "p", "files/annual  report.pdf", `'`}, pr{"urlws", "form", "\tq?x=1  2\t\t3 ", `"`},
				pr{"urlws", "video", "a  b", `"`}, pr{"urlws", "x-unknown", "a  b\n\nc", `"`})
			ps = append(ps, pr{"bool", "x-unknown", a, `'`}, pr{"bool", "video", "true", `"`},
				pr{"http", "img", "HTTPS://h.example/P?Q", `"`}, pr{"http", "p", " HTTP://h.example/P?Q", `'`},
				pr{"data", "img", "data:text/plain;charset=us-ascii,abc", ``})
		}
		for _, p := range ps {
			in := "<" + p.elem + " " + a + "=" + p.quote + p.val + p.quote + ">x</" + p.elem + ">"
			out, errs := htmlMin(o, in)
			inval, inpresent := attrOf([]byte(in), p.elem, a)
			outval, present := attrOf(out, p.elem, a)
			if !inpresent {
				lib.Fatal("attribute probe %q: the independent tokenizer does not see the attribute", in)
			}
			label := p.val
			if p.probe == "urlws" {
				label = strconv.Quote(p.val) // the cid must stay on one line
			}
			emit(fmt.Sprintf("attrprobe|%s|%s|%s|%s", p.probe, p.elem, label, a), obj{"kind": "attrprobe", "attr": a, "elem": p.elem, "probe": p.probe,
				"in": in, "out": string(out), "err": errs, "inval": lib.Bytes(inval), "present": present, "outval": lib.Bytes(outval)})
		}
	}
}

// ---- CSS probes --------------------------------------------------------------------------

// declValue splits the minified "a{prop:value}" (or inline "prop:value") with a trivial splitter.
func declValue(out []byte, inline bool) []byte {
	s := string(out)
	if !inline {
		i, j := strings.Index(s, "{"), strings.LastIndex(s, "}")
		if i < 0 {
			return []byte(s)
		}
		if j < i {
			j = len(s)
		}
		s = s[i+1 : j]
	}
	s = strings.TrimSuffix(s, ";")
	if i := strings.Index(s, ":"); i >= 0 {
		s = s[i+1:]
	}
	return []byte(s)
}

func probeUnits(units []string) {
	props := []string{"width", "margin", "x-unknown"}
	zeros := []string{"0"}
	if thorough {
		props = append(props, "transition-delay", "rotate", "top", "line-height", "border-width", "font-size", "padding")
		zeros = append(zeros, "0.0", "-0", ".0", "00")
	}
	for _, u := range units {
		for _, z := range zeros {
			for _, p := range props {
				for _, inline := range []bool{false, true} {
					if inline && !thorough {
						continue
					}
					val := z + u
					in, mime, ctx := "a{"+p+":"+val+"}", "text/css", "sheet"
					if inline {
						in, mime, ctx = p+":"+val, "text/css;inline=1", "inline"
					}
					out, errs := mimeMin(mime, in)
					emit(fmt.Sprintf("unitprobe|%s|%s|%s", ctx, p, val), obj{"kind": "unitprobe", "unit": u, "prop": p, "ctx": ctx, "in": in, "out": string(out),
						"err": errs, "inval": lib.Bytes(val), "outval": lib.Bytes(declValue(out, inline))})
				}
			}
		}
	}
	if thorough {
		for _, u := range units {
			up := strings.ToUpper(u)
			in := "a{width:0" + up + "}"
			out, errs := mimeMin("text/css", in)
			emit("unitprobe|sheet|width|0"+up, obj{"kind": "unitprobe", "unit": u, "prop": "width", "ctx": "sheet", "in": in, "out": string(out),
				"err": errs, "inval": lib.Bytes("0" + up), "outval": lib.Bytes(declValue(out, false))})
		}
	}
}

func svgAttr(doc []byte, elem, attr string) ([]byte, bool, bool) {
	d := xml.NewDecoder(bytes.NewReader(doc))
	for {
		t, err := d.Token()
		if err != nil {
			return nil, false, err.Error() == "EOF"
		}
		if se, ok := t.(xml.StartElement); ok && se.Name.Local == elem {
			for _, a := range se.Attr {
				if a.Name.Local == attr && a.Name.Space == "" {
					return []byte(a.Value), true, true
				}
			}
			return nil, false, true
		}
	}
}

// colourWant: for functional spellings (rgb(), rgba(), hsl()) the colour the driver rendered, <<r,g,b,a>>; hex and
// keyword spellings are decoded by the TLA+ side itself (empty).
var colourWant = map[string][]int{}

func probeColours(values []string) {
	for _, v := range values {
		type cx struct{ ctx, in, mime string }
		cs := []cx{{"css", "a{color:" + v + "}", "text/css"},
			{"svgfill", `<svg xmlns="http://www.w3.org/2000/svg"><rect fill="` + v + `"/></svg>`, "image/svg+xml"}}
		if thorough {
			cs = append(cs, cx{"cssinline", "color:" + v, "text/css;inline=1"},
				cx{"cssbg", "a{background:" + v + "}", "text/css"},
				cx{"cssborder", "a{border-color:" + v + "}", "text/css"},
				cx{"svgstroke", `<svg xmlns="http://www.w3.org/2000/svg"><path stroke="` + v + `"/></svg>`, "image/svg+xml"},
				cx{"svgstop", `<svg xmlns="http://www.w3.org/2000/svg"><stop stop-color="` + v + `"/></svg>`, "image/svg+xml"})
		}
		for _, c := range cs {
			out, errs := mimeMin(c.mime, c.in)
			var ov []byte
			switch c.ctx {
			case "svgfill":
				ov, _, _ = svgAttr(out, "rect", "fill")
			case "svgstroke":
				ov, _, _ = svgAttr(out, "path", "stroke")
			case "svgstop":
				ov, _, _ = svgAttr(out, "stop", "stop-color")
			default:
				ov = declValue(out, c.ctx == "cssinline")
			}
			emit("colourprobe|"+c.ctx+"|"+v, obj{"kind": "colourprobe", "ctx": c.ctx, "in": c.in, "out": string(out), "err": errs,
				"inb": lib.Bytes(v), "inlow": strings.ToLower(v), "outb": lib.Bytes(ov), "outlow": strings.ToLower(string(ov)),
				"inrgba": wantOf(v)})
		}
	}
}

func wantOf(v string) []int {
	if w, ok := colourWant[v]; ok {
		return w
	}
	return []int{}
}

// hslOf: h (integer degrees), s, l (percent with one decimal) of an sRGB colour, only if that spelling converts back
// to exactly the same bytes by the CSS Color 4 algorithm (section 7.1, hslToRgb)
func hslOf(r, g, b int) (string, bool) {
	rf, gf, bf := float64(r)/255, float64(g)/255, float64(b)/255
	mx, mn := math.Max(rf, math.Max(gf, bf)), math.Min(rf, math.Min(gf, bf))
	l := (mx + mn) / 2
	h, sat := 0.0, 0.0
	if d := mx - mn; d > 0 {
		sat = d / (1 - math.Abs(2*l-1))
		switch mx {
		case rf:
			h = math.Mod((gf-bf)/d+6, 6)
		case gf:
			h = (bf-rf)/d + 2
		default:
			h = (rf-gf)/d + 4
		}
		h *= 60
	}
	hi, s1, l1 := math.Round(h), math.Round(sat*1000)/10, math.Round(l*1000)/10
	f := func(n float64) float64 {
		k := math.Mod(n+hi/30, 12)
		a := s1 / 100 * math.Min(l1/100, 1-l1/100)
		return l1/100 - a*math.Max(-1, math.Min(k-3, math.Min(9-k, 1)))
	}
	back := func(x float64) int { return int(math.Round(x * 255)) }
	// exact only: the three channels must come back well inside the rounding interval
	for i, n := range []float64{0, 8, 4} {
		x := f(n) * 255
		want := float64([]int{r, g, b}[i])
		if math.Abs(x-want) > 0.2 || back(f(n)) != []int{r, g, b}[i] {
			return "", false
		}
	}
	return fmt.Sprintf("hsl(%d,%s%%,%s%%)", int(hi), strconv.FormatFloat(s1, 'f', -1, 64), strconv.FormatFloat(l1, 'f', -1, 64)), true
}

// colourNotations: every notation of one table colour: #rgb(a), #rrggbb(aa) with the alphas ff f0 fe 0f 80 00,
// rgb()/rgba()/hsl() spellings of the opaque colour
func colourNotations(r, g, b int) []string {
	out := []string{}
	h6 := fmt.Sprintf("#%02x%02x%02x", r, g, b)
	for _, a := range []string{"ff", "f0", "fe", "0f", "80", "00", "FF", "F0"} {
		out = append(out, h6+a)
	}
	out = append(out, h6, strings.ToUpper(h6))
	if r%17 == 0 && g%17 == 0 && b%17 == 0 {
		h3 := fmt.Sprintf("#%x%x%x", r/17, g/17, b/17)
		out = append(out, h3)
		for _, a := range []string{"f", "e", "8", "0"} {
			out = append(out, h3+a)
		}
	}
	fn := []string{fmt.Sprintf("rgb(%d,%d,%d)", r, g, b), fmt.Sprintf("rgb(%d %d %d)", r, g, b), fmt.Sprintf("rgba(%d,%d,%d,1)", r, g, b),
		fmt.Sprintf("rgba(%d, %d, %d, 100%%)", r, g, b), fmt.Sprintf("RGB(%d,%d,%d)", r, g, b)}
	if hs, ok := hslOf(r, g, b); ok {
		fn = append(fn, hs, strings.Replace(hs, "hsl(", "hsla(", 1)[:len(hs)]+",1)")
	}
	for _, f := range fn {
		colourWant[f] = []int{r, g, b, 255}
		out = append(out, f)
	}
	return out
}

func probeSvgAttrs(attrs []string) {
	for _, a := range attrs {
		for _, v := range []string{"red", "#ff0000", "darkblue"} {
			in := `<svg xmlns="http://www.w3.org/2000/svg"><g ` + a + `="` + v + `"/></svg>`
			out, errs := mimeMin("image/svg+xml", in)
			ov, present, _ := svgAttr(out, "g", a)
			emit("svgattrprobe|"+a+"|"+v, obj{"kind": "svgattrprobe", "attr": a, "in": in, "out": string(out), "err": errs,
				"inval": lib.Bytes(v), "present": present, "outval": lib.Bytes(ov), "outlow": strings.ToLower(string(ov))})
		}
	}
}

// ---- entity probes -----------------------------------------------------------------------

func findElem(n *xhtml.Node, name string) *xhtml.Node {
	if n.Type == xhtml.ElementNode && n.Data == name {
		return n
	}
	for c := n.FirstChild; c != nil; c = c.NextSibling {
		if r := findElem(c, name); r != nil {
			return r
		}
	}
	return nil
}

func nodeText(n *xhtml.Node, sb *strings.Builder) {
	if n.Type == xhtml.TextNode {
		sb.WriteString(n.Data)
	}
	for c := n.FirstChild; c != nil; c = c.NextSibling {
		nodeText(c, sb)
	}
}

// projectHTML parses doc with the independent HTML5 parser and returns the text content of the
// first <elem> element and the value of its attribute attr.
func projectHTML(doc []byte, elem, attr string) (text string, av string, ok bool) {
	root, err := xhtml.Parse(bytes.NewReader(doc))
	if err != nil {
		return "", "", false
	}
	e := findElem(root, elem)
	if e == nil {
		return "", "", false
	}
	var sb strings.Builder
	nodeText(e, &sb)
	for _, a := range e.Attr {
		if a.Key == attr && a.Namespace == "" {
			av = a.Val
		}
	}
	return sb.String(), av, true
}

type ectx struct {
	name, elem, attr string
	render           func(ref string) string // ref = "&name;" (or "&name" for legacy probes)
}

func entityContexts() (quick []ectx, full []ectx) {
	text := func(pre, suf string) func(string) string {
		return func(r string) string { return "<p>1" + pre + r + suf + "2</p>" }
	}
	at := func(elem, attr, q, pre, suf string) func(string) string {
		return func(r string) string {
			return "<" + elem + " " + attr + "=" + q + "1" + pre + r + suf + "2" + q + ">x</" + elem + ">"
		}
	}
	quick = []ectx{
		{"text", "p", "title", text("", "")},
		{"attr-dq", "p", "title", at("p", "title", `"`, "", "")},
		{"attr-trim", "p", "class", at("p", "class", `"`, "", "")},
	}
	full = append(full, quick...)
	for _, s := range [][2]string{{"eq", "="}, {"lt", "lt;"}, {"num", "#38;"}, {"amp", "amp;"}, {"sp", " "}, {"semi", ";"}, {"alpha", "x"}} {
		full = append(full, ectx{"text-suf-" + s[0], "p", "title", text("", s[1])},
			ectx{"attr-dq-suf-" + s[0], "p", "title", at("p", "title", `"`, "", s[1])})
	}
	// prefixes that end in an unterminated reference.  "&#" and "&#x" directly followed by a non-digit are
	// NOT used: golang.org/x/net/html (and the standard library) decode "&#x;" to U+FFFD where the HTML
	// standard (13.2.5.76/77, absence-of-digits) leaves the text as it is, so the oracle is unreliable there.
	for _, s := range [][2]string{{"amp", "&"}, {"ampname", "&amp"}, {"ampnum", "&#38"}, {"ltname", "&lt"}, {"copyname", "&copy"}} {
		full = append(full, ectx{"text-pre-" + s[0], "p", "title", text(s[1], "")},
			ectx{"attr-dq-pre-" + s[0], "p", "title", at("p", "title", `"`, s[1], "")})
	}
	// a bare ampersand before and digits after: the replacement must not complete a numeric reference
	for _, s := range [][3]string{{"amp-dec", "&", "38;"}, {"amp-hex", "&", "x26;"}} {
		full = append(full, ectx{"text-" + s[0], "p", "title", text(s[1], s[2])},
			ectx{"attr-dq-" + s[0], "p", "title", at("p", "title", `"`, s[1], s[2])})
	}
	full = append(full, ectx{"attr-dq-quotes", "p", "title", at("p", "title", `"`, "", "&quot;&apos;")},
		ectx{"attr-sq-quotes", "p", "title", at("p", "title", `'`, "&apos;", "&quot;")})
	full = append(full,
		ectx{"attr-sq", "p", "title", at("p", "title", `'`, "", "")},
		ectx{"attr-uq", "p", "title", at("p", "title", ``, "", "")},
		ectx{"attr-url", "a", "href", at("a", "href", `"`, "?a=", "=")},
		ectx{"attr-trim-sq", "p", "class", at("p", "class", `'`, "", "x")})
	return
}

func probeEntities(names []string, term string, ctxs []ectx, o mhtml.Minifier, cfgname string) {
	for _, name := range names {
		_, known := refEntity(name, term)
		for _, c := range ctxs {
			in := c.render("&" + name + term)
			out, errs := htmlMin(o, in)
			it, ia, iok := projectHTML([]byte(in), c.elem, c.attr)
			ot, oa, ook := projectHTML(out, c.elem, c.attr)
			if errs != "" {
				ook = false
			}
			emit(fmt.Sprintf("entprobe|html|%s|%s|%s%s", cfgname, c.name, name, term), obj{"kind": "entprobe", "lang": "html", "ctx": c.name, "cfg": cfgname,
				"name": name + term, "known": known, "in": in, "out": string(out), "err": errs,
				"inok": iok, "outok": ook, "intext": cps(it), "outtext": cps(ot), "inattr": cps(ia), "outattr": cps(oa)})
		}
	}
}

func projectXML(doc []byte) (text string, av string, ok bool) {
	d := xml.NewDecoder(bytes.NewReader(doc))
	d.Strict = true
	var sb strings.Builder
	seen := false
	for {
		t, err := d.Token()
		if err != nil {
			return sb.String(), av, err.Error() == "EOF" && seen
		}
		switch x := t.(type) {
		case xml.StartElement:
			seen = true
			for _, a := range x.Attr {
				if a.Name.Local == "b" {
					av = a.Value
				}
			}
		case xml.CharData:
			sb.Write(x)
		}
	}
}

func probeXMLEntities(names []string) {
	for _, name := range names {
		ref := "&" + name + ";"
		ins := map[string]string{
			"text":    "<a>1" + ref + "2</a>",
			"attr-dq": `<a b="1` + ref + `2"/>`,
			"attr-sq": `<a b='1` + ref + `2'/>`,
			"both":    `<a b="` + ref + `'` + ref + `">` + ref + ref + `x</a>`,
			"amp-suf": "<a>1" + ref + "lt;2</a>",
		}
		keys := []string{}
		for k := range ins {
			keys = append(keys, k)
		}
		sort.Strings(keys)
		for _, k := range keys {
			in := ins[k]
			out, errs := mimeMin("text/xml", in)
			it, ia, iok := projectXML([]byte(in))
			ot, oa, ook := projectXML(out)
			if errs != "" {
				ook = false
			}
			emit("entprobe|xml|"+k+"|"+name, obj{"kind": "entprobe", "lang": "xml", "ctx": k, "cfg": "default", "name": name, "known": true,
				"in": in, "out": string(out), "err": errs, "inok": iok, "outok": ook,
				"intext": cps(it), "outtext": cps(ot), "inattr": cps(ia), "outattr": cps(oa)})
		}
	}
}

// ---- main --------------------------------------------------------------------------------

func main() {
	if len(os.Args) < 5 {
		lib.Fatal("usage: c17 <repo> <universe.json> <out.ndjson> <tier> [<filter-file>]")
	}
	repo := os.Args[1]
	var u Universe
	data, err := os.ReadFile(os.Args[2])
	if err != nil {
		lib.Fatal("universe: %v", err)
	}
	if err := json.Unmarshal(data, &u); err != nil {
		lib.Fatal("universe: %v", err)
	}
	if len(u.Elements) < 100 || len(u.Attrs) < 150 || len(u.Colours) != 148 || len(u.Units) < 40 {
		lib.Fatal("universe looks incomplete: %d elements %d attrs %d colours %d units", len(u.Elements), len(u.Attrs), len(u.Colours), len(u.Units))
	}
	tw = lib.NewTraceWriter(os.Args[3])
	thorough = os.Args[4] == "thorough"
	if len(os.Args) > 5 {
		filter = map[string]bool{}
		f, err := os.Open(os.Args[5])
		if err != nil {
			lib.Fatal("filter: %v", err)
		}
		sc := bufio.NewScanner(f)
		sc.Buffer(make([]byte, 1<<20), 1<<26)
		for sc.Scan() {
			if sc.Text() != "" {
				filter[sc.Text()] = true
			}
		}
		f.Close()
	}
	goroot := os.Getenv("C17_GOROOT")
	if goroot == "" {
		lib.Fatal("C17_GOROOT not set")
	}
	mAll = minify.New()
	mAll.AddFunc("text/css", mcss.Minify)
	mAll.Add("text/html", &mhtml.Minifier{KeepEndTags: true, KeepDocumentTags: true})
	mAll.AddFuncRegexp(regexp.MustCompile("^(application|text)/(x-)?(java|ecma)script$"), mjs.Minify)
	mAll.AddFunc("image/svg+xml", msvg.Minify)
	mAll.AddFunc("text/xml", mxml.Minify)

	// (1) direct dump of every table entry
	dumpEntities("html", mhtml.EntitiesMap, mhtml.TextRevEntitiesMap)
	dumpEntities("xml", mxml.EntitiesMap, mxml.TextRevEntitiesMap)
	dumpExtraRevMaps(repo, "html", "html")
	dumpExtraRevMaps(repo, "xml", "xml")
	tTags, tAttrs, tUnits, tColours, tHexes, tSvg := dumpTraits()
	dumpHashes(repo, "html", func(b []byte) uint32 { return uint32(mhtml.ToHash(b)) }, func(v uint32) string { return mhtml.Hash(v).String() })
	dumpHashes(repo, "css", func(b []byte) uint32 { return uint32(mcss.ToHash(b)) }, func(v uint32) string { return mcss.Hash(v).String() })
	dumpHashes(repo, "svg", func(b []byte) uint32 { return uint32(msvg.ToHash(b)) }, func(v uint32) string { return msvg.Hash(v).String() })

	// (2) black-box probes of every name of the standards' universe and of the tables
	probeTags(uniqSorted(u.Elements, tTags, []string{"x-custom", "foo"}))
	probeAttrs(uniqSorted(u.Attrs, tAttrs, []string{"data-x", "aria-label", "onclick"}))
	probeUnits(uniqSorted(u.Units, tUnits, []string{"%", "foo"}))
	values := uniqSorted(u.Colours, tColours, []string{"transparent", "currentcolor", "lightslateblue", "notacolour"})
	hexes := append([]string{}, tHexes...)
	for _, n := range u.Colours {
		// the hex notations of every colour of the standard (6 digits, and 3 digits where they exist)
		c := u.ColourRGB[n]
		if len(c) != 3 {
			lib.Fatal("universe: no rgb for %s", n)
		}
		hexes = append(hexes, fmt.Sprintf("#%02x%02x%02x", c[0], c[1], c[2]))
		if c[0]%17 == 0 && c[1]%17 == 0 && c[2]%17 == 0 {
			hexes = append(hexes, fmt.Sprintf("#%x%x%x", c[0]/17, c[1]/17, c[2]/17))
		}
		// every hex notation with and without alpha, and the functional spellings: the code that USES the tables
		// (alpha shortcut, hex <-> keyword) must keep colour and alpha
		hexes = append(hexes, colourNotations(c[0], c[1], c[2])...)
	}
	for _, h := range tHexes {
		hexes = append(hexes, strings.ToUpper(h))
		if len(h) == 4 {
			hexes = append(hexes, "#"+strings.Repeat(h[1:2], 2)+strings.Repeat(h[2:3], 2)+strings.Repeat(h[3:4], 2))
		}
		if len(h) == 7 {
			hexes = append(hexes, h+"ff")
		}
	}
	upper := []string{}
	for _, v := range values {
		upper = append(upper, strings.ToUpper(v), strings.ToUpper(v[:1])+v[1:])
	}
	probeColours(uniqSorted(values, upper, hexes))
	probeSvgAttrs(uniqSorted(u.SvgAttrs, tSvg))

	semi, legacy := refNames(goroot)
	quick, full := entityContexts()
	ctxs := quick
	if thorough {
		ctxs = full
	}
	names := uniqSorted(semi, sortedKeys(mhtml.EntitiesMap))
	probeEntities(names, ";", ctxs, mhtml.Minifier{KeepEndTags: true, KeepDocumentTags: true}, "keeptags")
	if thorough {
		probeEntities(names, ";", quick, mhtml.Minifier{}, "default")
		probeEntities(legacy, "", full, mhtml.Minifier{KeepEndTags: true, KeepDocumentTags: true}, "keeptags")
	}
	probeXMLEntities(uniqSorted(u.XmlEntities, sortedKeys(mxml.EntitiesMap)))
	probeXMLRev()
	tw.Close()
}
