// c19: driver for properties C19 (and the library side of C20).
//
//	c19 lib <requests.ndjson> <results.ndjson>
//	    each request {"id":n,"type":"text/css","in":[bytes]} is minified through the LIBRARY
//	    (public API, set up as the library README documents) -> {"id","type","ok","out","err"}
//
//	c19 run <minify-binary> <scenarios.ndjson> <trace.ndjson> <workroot> <jobs>
//	    each scenario {"id","tree":[{p,k,c,t}],"argv":[...],"stdin":[bytes]|null,"libreq":[{type,srcs,sep}],...}
//	    is materialised in <workroot>/<id>, the library requests are computed from the files on
//	    disk, the REAL command is run with cwd = that directory, and the final tree, exit status,
//	    stdout are recorded as {"sc":<scenario verbatim>,"obs":{...}}.  No judgement is made here:
//	    the relation lives in spec/C19Trace.tla.
package main

import (
	"bytes"
	"context"
	"encoding/json"
	"os"
	"os/exec"
	"path/filepath"
	"regexp"
	"sort"
	"strconv"
	"sync"
	"time"

	"github.com/tdewolff/minify/v2"
	"github.com/tdewolff/minify/v2/css"
	"github.com/tdewolff/minify/v2/html"
	"github.com/tdewolff/minify/v2/js"
	mjson "github.com/tdewolff/minify/v2/json"
	"github.com/tdewolff/minify/v2/svg"
	"github.com/tdewolff/minify/v2/xml"
	"verifharness/lib"
)

// newLib sets the library up the way its README documents (default options).
func newLib() *minify.M {
	m := minify.New()
	m.AddFunc("text/css", css.Minify)
	m.AddFunc("text/html", html.Minify)
	m.AddFunc("image/svg+xml", svg.Minify)
	m.AddFuncRegexp(regexp.MustCompile("^(application|text)/(x-)?(java|ecma)script$"), js.Minify)
	m.AddFuncRegexp(regexp.MustCompile("[/+]json$"), mjson.Minify)
	m.AddFuncRegexp(regexp.MustCompile("[/+]xml$"), xml.Minify)
	return m
}

type LibReq struct {
	ID   int       `json:"id"`
	Type string    `json:"type"`
	In   lib.Bytes `json:"in"`
}

type LibRes struct {
	ID   int       `json:"id"`
	Type string    `json:"type"`
	OK   bool      `json:"ok"`
	Out  lib.Bytes `json:"out"`
	Err  string    `json:"err"`
}

func libCall(m *minify.M, typ string, in []byte) (bool, []byte, string) {
	// the library gets its own copy so that nothing it does to the buffer can leak
	cp := append([]byte{}, in...)
	var out bytes.Buffer
	var err error
	p, msg := lib.Guard(func() { err = m.Minify(typ, &out, bytes.NewReader(cp)) })
	if p {
		return false, []byte{}, "panic: " + msg
	}
	if err != nil {
		return false, []byte{}, err.Error()
	}
	return true, out.Bytes(), ""
}

func mainLib(in, out string) {
	m := newLib()
	tw := lib.NewTraceWriter(out)
	lib.ReadJSONLines(in, func(line []byte) {
		var r LibReq
		if err := json.Unmarshal(line, &r); err != nil {
			lib.Fatal("bad request: %v", err)
		}
		ok, o, e := libCall(m, r.Type, r.In)
		tw.Emit(LibRes{ID: r.ID, Type: r.Type, OK: ok, Out: append(lib.Bytes{}, o...), Err: e})
	})
	tw.Close()
}

type Entry struct {
	P lib.Bytes `json:"p"` // path relative to the scenario root, '/' separated
	K string    `json:"k"` // "f" file, "d" directory, "l" symlink, "h" hard link to T
	C lib.Bytes `json:"c"` // content (files)
	T lib.Bytes `json:"t"` // link target (symlink: text of the link; hard link: path of the other name)
	M int       `json:"m"` // permission bits (files; 0 = 0644)
}

type Req struct {
	Type string      `json:"type"`
	Srcs []lib.Bytes `json:"srcs"`
	Sep  lib.Bytes   `json:"sep"`
}

type Scenario struct {
	ID     int        `json:"id"`
	Tree   []Entry    `json:"tree"`
	Argv   []string   `json:"argv"`
	Stdin  *lib.Bytes `json:"stdin"`
	LibReq []Req      `json:"libreq"`
}

type LibObs struct {
	Type string      `json:"type"`
	Srcs []lib.Bytes `json:"srcs"`
	Sep  lib.Bytes   `json:"sep"`
	In   lib.Bytes   `json:"in"`
	OK   bool        `json:"ok"`
	Out  lib.Bytes   `json:"out"`
}

type Obs struct {
	Exit   int       `json:"exit"`
	Stdout lib.Bytes `json:"stdout"`
	Stderr string    `json:"stderr"`
	Final  []Entry   `json:"final"`
	Lib    []LibObs  `json:"lib"`
}

type Record struct {
	Sc  json.RawMessage `json:"sc"`
	Obs Obs             `json:"obs"`
}

func materialise(root string, tree []Entry) {
	if err := os.MkdirAll(root, 0777); err != nil {
		lib.Fatal("mkdir %s: %v", root, err)
	}
	// directories, then files, then links (hard links need their target to exist)
	for pass := 0; pass < 3; pass++ {
		for _, e := range tree {
			p := filepath.Join(root, filepath.FromSlash(string(e.P)))
			switch {
			case pass == 0 && e.K == "d":
				if err := os.MkdirAll(p, 0777); err != nil {
					lib.Fatal("mkdir: %v", err)
				}
			case pass == 1 && e.K == "f":
				if err := os.MkdirAll(filepath.Dir(p), 0777); err != nil {
					lib.Fatal("mkdir: %v", err)
				}
				mode := os.FileMode(0644)
				if e.M != 0 {
					mode = os.FileMode(e.M)
				}
				if err := os.WriteFile(p, e.C, mode); err != nil {
					lib.Fatal("write: %v", err)
				}
				os.Chmod(p, mode)
			case pass == 2 && e.K == "l":
				os.MkdirAll(filepath.Dir(p), 0777)
				if err := os.Symlink(string(e.T), p); err != nil {
					lib.Fatal("symlink: %v", err)
				}
			case pass == 2 && e.K == "h":
				os.MkdirAll(filepath.Dir(p), 0777)
				if err := os.Link(filepath.Join(root, filepath.FromSlash(string(e.T))), p); err != nil {
					lib.Fatal("link: %v", err)
				}
			}
		}
	}
}

func snapshot(root string) []Entry {
	out := []Entry{}
	err := filepath.Walk(root, func(p string, info os.FileInfo, err error) error {
		if err != nil {
			return err
		}
		rel, _ := filepath.Rel(root, p)
		if rel == "." {
			return nil
		}
		e := Entry{P: lib.Bytes(filepath.ToSlash(rel)), C: lib.Bytes{}, T: lib.Bytes{}, M: int(info.Mode().Perm())}
		switch {
		case info.Mode()&os.ModeSymlink != 0:
			t, err := os.Readlink(p)
			if err != nil {
				return err
			}
			e.K, e.T = "l", lib.Bytes(t)
		case info.IsDir():
			e.K = "d"
		case info.Mode().IsRegular():
			b, err := os.ReadFile(p)
			if err != nil {
				return err
			}
			e.K, e.C = "f", append(lib.Bytes{}, b...)
		default:
			e.K = "o"
		}
		out = append(out, e)
		return nil
	})
	if err != nil {
		lib.Fatal("snapshot: %v", err)
	}
	sort.Slice(out, func(i, j int) bool { return string(out[i].P) < string(out[j].P) })
	return out
}

func runOne(m *minify.M, bin, workroot string, raw []byte) Record {
	var sc Scenario
	if err := json.Unmarshal(raw, &sc); err != nil {
		lib.Fatal("bad scenario: %v", err)
	}
	root := filepath.Join(workroot, "s"+strconv.Itoa(sc.ID))
	os.RemoveAll(root)
	materialise(root, sc.Tree)
	obs := Obs{Lib: []LibObs{}}
	// the library's own output for what the plan says is minified (read from disk BEFORE the run)
	for _, r := range sc.LibReq {
		var in []byte
		for i, s := range r.Srcs {
			if i > 0 {
				in = append(in, r.Sep...)
			}
			var b []byte
			var err error
			if len(s) == 0 { // stdin
				if sc.Stdin != nil {
					b = *sc.Stdin
				}
			} else if b, err = os.ReadFile(filepath.Join(root, filepath.FromSlash(string(s)))); err != nil {
				lib.Fatal("scenario %d: library input %s: %v", sc.ID, s, err)
			}
			in = append(in, b...)
		}
		ok, o, _ := libCall(m, r.Type, in)
		obs.Lib = append(obs.Lib, LibObs{Type: r.Type, Srcs: r.Srcs, Sep: append(lib.Bytes{}, r.Sep...),
			In: append(lib.Bytes{}, in...), OK: ok, Out: append(lib.Bytes{}, o...)})
	}
	ctx, cancel := context.WithTimeout(context.Background(), 30*time.Second)
	defer cancel()
	cmd := exec.CommandContext(ctx, bin, sc.Argv...)
	cmd.Dir = root
	var so, se bytes.Buffer
	cmd.Stdout, cmd.Stderr = &so, &se
	if sc.Stdin != nil {
		cmd.Stdin = bytes.NewReader(*sc.Stdin)
	}
	err := cmd.Run()
	if ctx.Err() != nil {
		// a command that does not finish has not written its outputs: recorded (exit 255) and judged like any other run
		obs.Exit = 255
		se.WriteString("\nTIMEOUT: command killed after 30s")
	} else if err != nil {
		if ee, ok := err.(*exec.ExitError); ok {
			obs.Exit = ee.ExitCode()
			if obs.Exit < 0 {
				obs.Exit = 255
			}
		} else {
			lib.Fatal("scenario %d: cannot run command: %v", sc.ID, err)
		}
	}
	obs.Stdout = append(lib.Bytes{}, so.Bytes()...)
	obs.Stderr = se.String()
	if len(obs.Stderr) > 400 {
		obs.Stderr = obs.Stderr[:400]
	}
	obs.Final = snapshot(root)
	if os.Getenv("VERIF_KEEP") == "" {
		os.RemoveAll(root)
	}
	return Record{Sc: json.RawMessage(raw), Obs: obs}
}

func mainRun(bin, in, out, workroot string, jobs int) {
	var lines [][]byte
	lib.ReadJSONLines(in, func(line []byte) { lines = append(lines, line) })
	res := make([]Record, len(lines))
	var wg sync.WaitGroup
	ch := make(chan int)
	for j := 0; j < jobs; j++ {
		wg.Add(1)
		go func() {
			defer wg.Done()
			m := newLib()
			for i := range ch {
				res[i] = runOne(m, bin, workroot, lines[i])
			}
		}()
	}
	for i := range lines {
		ch <- i
	}
	close(ch)
	wg.Wait()
	tw := lib.NewTraceWriter(out)
	for i := range res {
		tw.Emit(res[i])
	}
	tw.Close()
}

func main() {
	if len(os.Args) >= 4 && os.Args[1] == "lib" {
		mainLib(os.Args[2], os.Args[3])
		return
	}
	if len(os.Args) >= 7 && os.Args[1] == "run" {
		jobs, _ := strconv.Atoi(os.Args[6])
		if jobs < 1 {
			jobs = 1
		}
		mainRun(os.Args[2], os.Args[3], os.Args[4], os.Args[5], jobs)
		return
	}
	lib.Fatal("usage: c19 lib <req> <res> | c19 run <bin> <scenarios> <trace> <workroot> <jobs>")
}
