// c16: drives the real minifiers under an option configuration (property C16) and projects
// input and output to token streams with tokenizers that are independent of the code under
// test (golang.org/x/net/html Tokenizer, encoding/xml RawToken, and two small purpose-written
// lexers for JSON and CSS).  The relations themselves live in spec/Options.tla and
// spec/CliFlags.tla and are evaluated by TLC; nothing is judged here.
//
// usage: c16 <cases.ndjson> <trace.ndjson> [minify-binary]
// case : {"id":n,"mode":"lib"|"cli","lang":"html|xml|svg|json|css|js","o":{options},"in":"text",
//
//	"flags":[...cli flags...],"exp":{...copied to the event...}}
//
// event: see spec/C16Trace.tla (lib) and spec/CliFlags.tla (cli)
package main

import (
	"bytes"
	"encoding/json"
	"encoding/xml"
	"io"
	"os"
	"os/exec"
	"path/filepath"
	"regexp"
	"strconv"
	"strings"
	"time"

	"github.com/tdewolff/minify/v2"
	mcss "github.com/tdewolff/minify/v2/css"
	mhtml "github.com/tdewolff/minify/v2/html"
	mjs "github.com/tdewolff/minify/v2/js"
	mjson "github.com/tdewolff/minify/v2/json"
	msvg "github.com/tdewolff/minify/v2/svg"
	mxml "github.com/tdewolff/minify/v2/xml"
	xhtml "golang.org/x/net/html"
	"verifharness/lib"
)

type Opts struct {
	KeepComments            bool     `json:"KeepComments"`
	KeepConditionalComments bool     `json:"KeepConditionalComments"`
	KeepSpecialComments     bool     `json:"KeepSpecialComments"`
	KeepDefaultAttrVals     bool     `json:"KeepDefaultAttrVals"`
	KeepDocumentTags        bool     `json:"KeepDocumentTags"`
	KeepEndTags             bool     `json:"KeepEndTags"`
	KeepQuotes              bool     `json:"KeepQuotes"`
	KeepWhitespace          bool     `json:"KeepWhitespace"`
	Delims                  []string `json:"Delims"` // [] or [open, close]
	KeepCSS2                bool     `json:"KeepCSS2"`
	Precision               int      `json:"Precision"`
	KeepVarNames            bool     `json:"KeepVarNames"`
	Version                 int      `json:"Version"`
	KeepNumbers             bool     `json:"KeepNumbers"`
}

type Case struct {
	ID    int             `json:"id"`
	Mode  string          `json:"mode"`
	Lang  string          `json:"lang"`
	O     Opts            `json:"o"`
	In    string          `json:"in"`
	Flags []string        `json:"flags"`
	Type  []string        `json:"typeargs"` // cli: replaces --type=<lang> (e.g. ["--mime=text/css"])
	Exp   json.RawMessage `json:"exp"`
}

// Tok is the uniform token record handed to TLC (all fields always present).
type Tok struct {
	K string    `json:"k"` // kind
	N string    `json:"n"` // name (tag / attribute key / ident, lower-cased where the language is case-insensitive)
	T string    `json:"t"` // owner tag of an attribute
	V string    `json:"v"` // attribute value: ASCII-lower-cased, blank-trimmed; unit of a dimension
	Q int       `json:"q"` // attribute: 0 no value, 1 unquoted, 2 double-quoted, 3 single-quoted; element ordinal for xml/svg
	B lib.Bytes `json:"b"` // text / comment data / number lexeme
}

type Event struct {
	ID    int             `json:"id"`
	Mode  string          `json:"mode"`
	Lang  string          `json:"lang"`
	O     Opts            `json:"o"`
	In    string          `json:"in"`
	Out   string          `json:"out"`
	Out0  string          `json:"out0"` // js with Precision != 0: output under the same options with Precision = 0
	Err   bool            `json:"err"`
	Panic bool            `json:"panic"`
	Msg   string          `json:"msg"`
	TiErr bool            `json:"tierr"` // the independent tokenizer failed on the input
	ToErr bool            `json:"toerr"` // ... on the output
	Ti    []Tok           `json:"ti"`
	To    []Tok           `json:"to"`
	Tz    []Tok           `json:"tz"` // html: tokens of the output with the comment / attribute options switched off
	Si    []string        `json:"si"` // template spans of the input, in order
	So    []string        `json:"so"`
	Flags []string        `json:"flags"`
	Cli   string          `json:"cli"`   // cli mode: bytes written by the real binary
	CliRC int             `json:"clirc"` // its exit status
	Dflt  string          `json:"dflt"`  // library output under default options
	Exp   json.RawMessage `json:"exp"`
}

var mediatype = map[string]string{
	"html": "text/html", "xml": "text/xml", "svg": "image/svg+xml", "json": "application/json",
	"css": "text/css", "js": "application/javascript",
}

// registry as the command line tool builds it: every minifier registered, the one under test
// with the option configuration, the others with their defaults.
func registry(lang string, o Opts) *minify.M {
	m := minify.New()
	cssM := &mcss.Minifier{}
	htmlM := &mhtml.Minifier{}
	jsM := &mjs.Minifier{}
	jsonM := &mjson.Minifier{}
	svgM := &msvg.Minifier{}
	xmlM := &mxml.Minifier{}
	switch lang {
	case "html":
		htmlM.KeepComments = o.KeepComments
		htmlM.KeepConditionalComments = o.KeepConditionalComments
		htmlM.KeepSpecialComments = o.KeepSpecialComments
		htmlM.KeepDefaultAttrVals = o.KeepDefaultAttrVals
		htmlM.KeepDocumentTags = o.KeepDocumentTags
		htmlM.KeepEndTags = o.KeepEndTags
		htmlM.KeepQuotes = o.KeepQuotes
		htmlM.KeepWhitespace = o.KeepWhitespace
		if len(o.Delims) == 2 {
			htmlM.TemplateDelims = [2]string{o.Delims[0], o.Delims[1]}
		}
	case "xml":
		xmlM.KeepWhitespace = o.KeepWhitespace
	case "svg":
		svgM.KeepComments = o.KeepComments
		svgM.Precision = o.Precision
	case "json":
		jsonM.KeepNumbers = o.KeepNumbers
		jsonM.Precision = o.Precision
	case "css":
		cssM.KeepCSS2 = o.KeepCSS2
		cssM.Precision = o.Precision
	case "js":
		jsM.KeepVarNames = o.KeepVarNames
		jsM.Precision = o.Precision
		jsM.Version = o.Version
	}
	m.Add("text/css", cssM)
	m.Add("text/html", htmlM)
	m.Add("image/svg+xml", svgM)
	m.AddRegexp(regexp.MustCompile("^(application|text)/(x-)?(java|ecma|j|live)script(1\\.[0-5])?$|^module$"), jsM)
	m.AddRegexp(regexp.MustCompile("[/+]json$"), jsonM)
	m.AddRegexp(regexp.MustCompile("[/+]xml$"), xmlM)
	return m
}

func minifyLib(lang string, o Opts, in string) (out string, failed bool, panicked bool, msg string) {
	var w bytes.Buffer
	panicked, msg = lib.Guard(func() {
		m := registry(lang, o)
		if err := m.Minify(mediatype[lang], &w, strings.NewReader(in)); err != nil {
			failed = true
			msg = err.Error()
		}
	})
	return w.String(), failed, panicked, msg
}

// ---------------------------------------------------------------- HTML (x/net/html Tokenizer)

func lowerTrim(s string) string {
	return strings.ToLower(strings.Trim(s, " \t\n\f\r"))
}

func isHTMLSpace(c byte) bool { return c == ' ' || c == '\t' || c == '\n' || c == '\f' || c == '\r' }

// quoting of each attribute of a raw start tag, by the attribute syntax of HTML 13.1.2.3
func attrQuotes(raw []byte) []int {
	var qs []int
	i := 1
	for i < len(raw) && !isHTMLSpace(raw[i]) && raw[i] != '>' && raw[i] != '/' { // tag name
		i++
	}
	for i < len(raw) {
		for i < len(raw) && (isHTMLSpace(raw[i]) || raw[i] == '/') {
			i++
		}
		if i >= len(raw) || raw[i] == '>' {
			break
		}
		j := i
		if raw[j] == '=' { // an attribute name may start with '='
			j++
		}
		for j < len(raw) && !isHTMLSpace(raw[j]) && raw[j] != '=' && raw[j] != '>' && raw[j] != '/' {
			j++
		}
		i = j
		for i < len(raw) && isHTMLSpace(raw[i]) {
			i++
		}
		if i < len(raw) && raw[i] == '=' {
			i++
			for i < len(raw) && isHTMLSpace(raw[i]) {
				i++
			}
			if i < len(raw) && (raw[i] == '"' || raw[i] == '\'') {
				q := raw[i]
				i++
				for i < len(raw) && raw[i] != q {
					i++
				}
				i++
				if q == '"' {
					qs = append(qs, 2)
				} else {
					qs = append(qs, 3)
				}
			} else {
				for i < len(raw) && !isHTMLSpace(raw[i]) && raw[i] != '>' {
					i++
				}
				qs = append(qs, 1)
			}
		} else {
			qs = append(qs, 0)
		}
	}
	return qs
}

var rawTextElems = map[string]bool{"script": true, "style": true, "textarea": true, "title": true, "iframe": true,
	"xmp": true, "noembed": true, "noframes": true, "plaintext": true}

func htmlTokens(src string) (toks []Tok, bad bool) {
	toks = []Tok{}
	z := xhtml.NewTokenizer(strings.NewReader(src))
	inPre := 0
	rawNext := false
	for {
		tt := z.Next()
		switch tt {
		case xhtml.ErrorToken:
			if z.Err() != io.EOF {
				bad = true
			}
			return
		case xhtml.TextToken:
			k := "T"
			if rawNext || inPre > 0 {
				k = "R"
			}
			toks = append(toks, Tok{K: k, B: append(lib.Bytes{}, z.Text()...)})
		case xhtml.StartTagToken, xhtml.SelfClosingTagToken:
			raw := append([]byte{}, z.Raw()...)
			nameB, hasAttr := z.TagName()
			name := string(nameB)
			type kv struct{ k, v string }
			var attrs []kv
			for hasAttr {
				var k, v []byte
				k, v, hasAttr = z.TagAttr()
				attrs = append(attrs, kv{string(k), string(v)})
			}
			toks = append(toks, Tok{K: "S", N: name, B: lib.Bytes{}})
			qs := attrQuotes(raw)
			for i, a := range attrs {
				q := 1 // conservative when the two scanners disagree: treated as unquoted
				if len(qs) == len(attrs) {
					q = qs[i]
				}
				toks = append(toks, Tok{K: "A", N: a.k, T: name, V: lowerTrim(a.v), Q: q, B: lib.Bytes{}})
			}
			rawNext = tt == xhtml.StartTagToken && rawTextElems[name]
			if name == "pre" && tt == xhtml.StartTagToken {
				inPre++
			}
			continue
		case xhtml.EndTagToken:
			nameB, _ := z.TagName()
			name := string(nameB)
			if name == "pre" && inPre > 0 {
				inPre--
			}
			toks = append(toks, Tok{K: "E", N: name, B: lib.Bytes{}})
		case xhtml.CommentToken:
			toks = append(toks, Tok{K: "C", B: append(lib.Bytes{}, z.Text()...)})
		case xhtml.DoctypeToken:
			toks = append(toks, Tok{K: "D", B: append(lib.Bytes{}, z.Text()...)})
		}
		rawNext = false
	}
}

// template spans: maximal open ... close stretches, left to right
func spans(src string, d []string) []string {
	out := []string{}
	if len(d) != 2 || d[0] == "" {
		return out
	}
	for {
		i := strings.Index(src, d[0])
		if i < 0 {
			return out
		}
		j := strings.Index(src[i+len(d[0]):], d[1])
		if j < 0 {
			return out
		}
		end := i + len(d[0]) + j + len(d[1])
		out = append(out, src[i:end])
		src = src[end:]
	}
}

// ---------------------------------------------------------------- XML / SVG (encoding/xml RawToken)

var numRe = regexp.MustCompile(`[+-]?(?:[0-9]+\.?[0-9]*|\.[0-9]+)(?:[eE][+-]?[0-9]+)?`)
var numListRe = regexp.MustCompile(`^(?:[+-]?(?:[0-9]+\.?[0-9]*|\.[0-9]+)(?:[eE][+-]?[0-9]+)?)(?:[ ,]+[+-]?(?:[0-9]+\.?[0-9]*|\.[0-9]+)(?:[eE][+-]?[0-9]+)?)+$`)
var numUnitRe = regexp.MustCompile(`^([+-]?(?:[0-9]+\.?[0-9]*|\.[0-9]+)(?:[eE][+-]?[0-9]+)?)([a-zA-Z%]*)$`)

func qname(n xml.Name) string {
	if n.Space != "" {
		return n.Space + ":" + n.Local
	}
	return n.Local
}

func xmlTokens(src string) (toks []Tok, bad bool) {
	toks = []Tok{}
	d := xml.NewDecoder(strings.NewReader(src))
	d.Strict = false
	ord := 0
	for {
		t, err := d.RawToken()
		if err != nil {
			if err != io.EOF {
				bad = true
			}
			return
		}
		switch v := t.(type) {
		case xml.StartElement:
			ord++
			name := qname(v.Name)
			toks = append(toks, Tok{K: "S", N: name, Q: ord, B: lib.Bytes{}})
			for _, a := range v.Attr {
				tok := Tok{K: "A", N: qname(a.Name), T: name, V: "", Q: ord, B: lib.Bytes{}}
				val := strings.Trim(a.Value, " \t\n\r")
				if m := numUnitRe.FindStringSubmatch(val); m != nil {
					tok.K = "AN" // attribute whose whole value is number + optional unit
					tok.B = lib.Bytes(m[1])
					tok.V = strings.ToLower(m[2])
				} else if numListRe.MatchString(val) {
					// a list of numbers (viewBox, points, ...): one AN token per number, named key#index
					for i, n := range numRe.FindAllString(val, -1) {
						toks = append(toks, Tok{K: "AN", N: qname(a.Name) + "#" + strconv.Itoa(i+1), T: name, Q: ord, B: lib.Bytes(n)})
					}
					continue
				}
				toks = append(toks, tok)
			}
		case xml.EndElement:
			toks = append(toks, Tok{K: "E", N: qname(v.Name), B: lib.Bytes{}})
		case xml.CharData:
			toks = append(toks, Tok{K: "T", B: append(lib.Bytes{}, v...)})
		case xml.Comment:
			toks = append(toks, Tok{K: "C", B: append(lib.Bytes{}, v...)})
		case xml.ProcInst:
			toks = append(toks, Tok{K: "P", N: v.Target, B: append(lib.Bytes{}, v.Inst...)})
		case xml.Directive:
			toks = append(toks, Tok{K: "D", B: append(lib.Bytes{}, v...)})
		}
	}
}

// ---------------------------------------------------------------- JSON (RFC 8259 lexer, lenient on number spelling)

func jsonTokens(src string) (toks []Tok, bad bool) {
	toks = []Tok{}
	i := 0
	for i < len(src) {
		c := src[i]
		switch {
		case c == ' ' || c == '\t' || c == '\n' || c == '\r':
			i++
		case strings.IndexByte("{}[]:,", c) >= 0:
			toks = append(toks, Tok{K: "p", N: string(c), B: lib.Bytes{}})
			i++
		case c == '"':
			j := i + 1
			for j < len(src) && src[j] != '"' {
				if src[j] == '\\' {
					j++
				}
				j++
			}
			if j >= len(src) {
				return toks, true
			}
			toks = append(toks, Tok{K: "str", B: lib.Bytes(src[i : j+1])})
			i = j + 1
		case c == '-' || c == '+' || c == '.' || ('0' <= c && c <= '9'):
			j := i
			for j < len(src) && strings.IndexByte("+-.0123456789eE", src[j]) >= 0 {
				j++
			}
			toks = append(toks, Tok{K: "num", B: lib.Bytes(src[i:j])})
			i = j
		case 'a' <= c && c <= 'z':
			j := i
			for j < len(src) && 'a' <= src[j] && src[j] <= 'z' {
				j++
			}
			toks = append(toks, Tok{K: "lit", N: src[i:j], B: lib.Bytes{}})
			i = j
		default:
			return toks, true
		}
	}
	return
}

// ---------------------------------------------------------------- CSS (CSS Syntax Level 3, section 4, reduced)

func isDigit(c byte) bool { return '0' <= c && c <= '9' }
func isNameStart(c byte) bool {
	return c == '_' || c >= 0x80 || ('a' <= c && c <= 'z') || ('A' <= c && c <= 'Z')
}
func isName(c byte) bool { return isNameStart(c) || isDigit(c) || c == '-' }

func startsNumber(s string, i int) bool {
	if i < len(s) && (s[i] == '+' || s[i] == '-') {
		i++
	}
	if i < len(s) && isDigit(s[i]) {
		return true
	}
	return i+1 < len(s) && s[i] == '.' && isDigit(s[i+1])
}

func startsIdent(s string, i int) bool {
	if i < len(s) && s[i] == '-' {
		i++
		if i < len(s) && s[i] == '-' {
			return true
		}
	}
	return i < len(s) && (isNameStart(s[i]) || s[i] == '\\')
}

func cssTokens(src string) (toks []Tok, bad bool) {
	toks = []Tok{}
	i := 0
	for i < len(src) {
		c := src[i]
		switch {
		case c == '/' && i+1 < len(src) && src[i+1] == '*':
			j := strings.Index(src[i+2:], "*/")
			if j < 0 {
				return toks, true
			}
			toks = append(toks, Tok{K: "cmt", B: lib.Bytes(src[i : i+2+j+2])})
			i += 2 + j + 2
		case c == ' ' || c == '\t' || c == '\n' || c == '\r' || c == '\f':
			i++
		case c == '"' || c == '\'':
			j := i + 1
			for j < len(src) && src[j] != c {
				if src[j] == '\\' {
					j++
				}
				j++
			}
			if j >= len(src) {
				return toks, true
			}
			toks = append(toks, Tok{K: "str", B: lib.Bytes(src[i : j+1])})
			i = j + 1
		case startsNumber(src, i):
			j := i
			if src[j] == '+' || src[j] == '-' {
				j++
			}
			for j < len(src) && isDigit(src[j]) {
				j++
			}
			if j+1 < len(src) && src[j] == '.' && isDigit(src[j+1]) {
				j++
				for j < len(src) && isDigit(src[j]) {
					j++
				}
			}
			if j < len(src) && (src[j] == 'e' || src[j] == 'E') {
				k := j + 1
				if k < len(src) && (src[k] == '+' || src[k] == '-') {
					k++
				}
				if k < len(src) && isDigit(src[k]) {
					for k < len(src) && isDigit(src[k]) {
						k++
					}
					j = k
				}
			}
			num := src[i:j]
			unit := ""
			if j < len(src) && src[j] == '%' {
				unit = "%"
				j++
			} else if startsIdent(src, j) {
				k := j
				for k < len(src) && isName(src[k]) {
					k++
				}
				unit = strings.ToLower(src[j:k])
				j = k
			}
			toks = append(toks, Tok{K: "num", V: unit, B: lib.Bytes(num)})
			i = j
		case startsIdent(src, i):
			j := i
			for j < len(src) && (isName(src[j]) || src[j] == '\\') {
				if src[j] == '\\' {
					j++
				}
				j++
			}
			name := strings.ToLower(src[i:j])
			if j < len(src) && src[j] == '(' {
				j++
				if name == "url" { // url( ... ) is one token
					k := strings.IndexByte(src[j:], ')')
					if k < 0 {
						return toks, true
					}
					toks = append(toks, Tok{K: "url", B: lib.Bytes(src[i : j+k+1])})
					i = j + k + 1
					continue
				}
				toks = append(toks, Tok{K: "fn", N: name, B: lib.Bytes{}})
			} else {
				toks = append(toks, Tok{K: "id", N: name, B: lib.Bytes{}})
			}
			i = j
		case c == '#' || c == '@':
			j := i + 1
			for j < len(src) && isName(src[j]) {
				j++
			}
			k := "hash"
			if c == '@' {
				k = "at"
			}
			toks = append(toks, Tok{K: k, N: strings.ToLower(src[i:j]), B: lib.Bytes{}})
			i = j
		default:
			toks = append(toks, Tok{K: "p", N: string(c), B: lib.Bytes{}})
			i++
		}
	}
	return
}

// ----------------------------------------------------------------

func tokens(lang, src string) ([]Tok, bool) {
	switch lang {
	case "html":
		return htmlTokens(src)
	case "xml", "svg":
		return xmlTokens(src)
	case "json":
		return jsonTokens(src)
	case "css":
		return cssTokens(src)
	}
	return []Tok{}, false // js: annotated by the node runner (acorn)
}

var cliType = map[string]string{"html": "html", "xml": "xml", "svg": "svg", "json": "json", "css": "css", "js": "js"}

func runCLI(bin, dir string, c Case) (out string, rc int, msg string) {
	d, err := os.MkdirTemp(dir, "cli")
	if err != nil {
		lib.Fatal("mkdtemp: %v", err)
	}
	defer os.RemoveAll(d)
	src := filepath.Join(d, "in.txt")
	dst := filepath.Join(d, "out.txt")
	if err := os.WriteFile(src, []byte(c.In), 0644); err != nil {
		lib.Fatal("write: %v", err)
	}
	args := []string{"--type=" + cliType[c.Lang]}
	if len(c.Type) > 0 {
		args = append([]string{}, c.Type...)
	}
	args = append(args, c.Flags...)
	args = append(args, "-o", dst, src)
	cmd := exec.Command(bin, args...)
	var eb bytes.Buffer
	cmd.Stderr = &eb
	cmd.Stdout = io.Discard
	done := make(chan error, 1)
	if err := cmd.Start(); err != nil {
		lib.Fatal("start %s: %v", bin, err)
	}
	go func() { done <- cmd.Wait() }()
	select {
	case err = <-done:
	case <-time.After(60 * time.Second):
		cmd.Process.Kill()
		lib.Fatal("cli timeout")
	}
	if err != nil {
		if ee, ok := err.(*exec.ExitError); ok {
			rc = ee.ExitCode()
		} else {
			lib.Fatal("cli: %v", err)
		}
	}
	b, rerr := os.ReadFile(dst)
	if rerr != nil {
		rc = 100 + rc
	}
	return string(b), rc, eb.String()
}

func main() {
	if len(os.Args) < 3 {
		lib.Fatal("usage: c16 <cases.ndjson> <trace.ndjson> [minify-binary]")
	}
	bin := ""
	if len(os.Args) > 3 {
		bin = os.Args[3]
	}
	scratch := filepath.Dir(os.Args[2])
	tw := lib.NewTraceWriter(os.Args[2])
	lib.ReadJSONLines(os.Args[1], func(line []byte) {
		var c Case
		if err := json.Unmarshal(line, &c); err != nil {
			lib.Fatal("bad case: %v", err)
		}
		if c.O.Delims == nil {
			c.O.Delims = []string{}
		}
		if c.Flags == nil {
			c.Flags = []string{}
		}
		if c.Exp == nil {
			c.Exp = json.RawMessage("{}")
		}
		ev := Event{ID: c.ID, Mode: c.Mode, Lang: c.Lang, O: c.O, In: c.In, Flags: c.Flags, Exp: c.Exp,
			Ti: []Tok{}, To: []Tok{}, Tz: []Tok{}, Si: []string{}, So: []string{}}
		ev.Out, ev.Err, ev.Panic, ev.Msg = minifyLib(c.Lang, c.O, c.In)
		if len(ev.Msg) > 300 {
			ev.Msg = ev.Msg[:300]
		}
		if c.Mode == "cli" {
			if bin == "" {
				lib.Fatal("cli case without binary")
			}
			ev.Dflt, _, _, _ = minifyLib(c.Lang, Opts{}, c.In)
			var msg string
			ev.Cli, ev.CliRC, msg = runCLI(bin, scratch, c)
			if ev.CliRC != 0 {
				ev.Msg = msg
			}
		} else {
			if c.Lang == "js" && c.O.Precision != 0 {
				n := c.O
				n.Precision = 0
				ev.Out0, _, _, _ = minifyLib(c.Lang, n, c.In)
			}
			ev.Ti, ev.TiErr = tokens(c.Lang, c.In)
			ev.To, ev.ToErr = tokens(c.Lang, ev.Out)
			if c.Lang == "html" && (c.O.KeepComments || c.O.KeepSpecialComments || c.O.KeepDefaultAttrVals || c.O.KeepQuotes) {
				n := c.O
				n.KeepComments, n.KeepSpecialComments, n.KeepDefaultAttrVals, n.KeepQuotes = false, false, false, false
				outN, _, _, _ := minifyLib(c.Lang, n, c.In)
				ev.Tz, _ = tokens(c.Lang, outN)
			}
			if c.Lang == "html" {
				ev.Si = spans(c.In, c.O.Delims)
				ev.So = spans(ev.Out, c.O.Delims)
			}
		}
		tw.Emit(ev)
	})
	tw.Close()
}
