// CSS Syntax Level 3 parser (section 5) on top of tokenizer.go: component values, rule
// lists, declaration lists, declarations with !important.  Independent of the code under test.
// The result is a FLAT list of items (at-rule / qualified rule / declaration / custom property /
// raw run / end of block) so that the specification can compare input and output position by
// position.
package main

import (
	"bytes"
	"encoding/base64"
	"strings"

	"verifharness/lib"
)

// Tok is a component value as it travels to TLC: uniform record.
type Tok struct {
	K string    `json:"k"`
	S lib.Bytes `json:"s"` // source text (functions/blocks: opening token only)
	V lib.Bytes `json:"v"` // decoded value / function name / unit
	N lib.Bytes `json:"n"` // number lexeme
	D lib.Bytes `json:"d"` // data: URL payload (decoded), else empty
	W string    `json:"w"` // ASCII-lowercased decoded value as an atomic string (keyword matching only)
	A []Tok     `json:"a"` // arguments of a function / contents of a simple block
}

type Item struct {
	T    string    `json:"t"` // at | rule | decl | cust | raw | end | none
	Name lib.Bytes `json:"name"`
	PN   string    `json:"pn"` // ASCII-lowercased name as an atomic string
	Imp  bool      `json:"imp"`
	Blk  string    `json:"blk"` // for at: none | rules | decls | raw
	Pre  []Tok     `json:"pre"`
	Raw  lib.Bytes `json:"raw"`
}

func nb(b []byte) lib.Bytes {
	if b == nil {
		return lib.Bytes{}
	}
	return lib.Bytes(b)
}

type node struct {
	tok  RawTok
	kids []node // for func and blocks
	open bool   // block not closed before EOF
	end  int    // source offset after the closing token
}

type Parser struct {
	src  []byte
	Errs []string
}

func closerOf(k Kind) Kind {
	switch k {
	case KFunc, KLParen:
		return KRParen
	case KLBrack:
		return KRBrack
	case KLBrace:
		return KRBrace
	}
	return ""
}

// build the component value forest
func (p *Parser) nest(toks []RawTok) []node {
	pos := 0
	var list func(closer Kind, depth int) ([]node, bool, int)
	list = func(closer Kind, depth int) ([]node, bool, int) {
		var out []node
		for pos < len(toks) {
			t := toks[pos]
			pos++
			if closer != "" && t.K == closer {
				return out, true, t.End
			}
			if c := closerOf(t.K); c != "" && depth < 200 {
				kids, closed, end := list(c, depth+1)
				n := node{tok: t, kids: kids, open: !closed, end: end}
				if !closed {
					p.Errs = append(p.Errs, "eof-in-block")
					n.end = len(p.src)
				}
				out = append(out, n)
				continue
			}
			if t.K == KRParen || t.K == KRBrack || t.K == KRBrace {
				p.Errs = append(p.Errs, "stray-closer")
			}
			out = append(out, node{tok: t, end: t.End})
		}
		return out, false, len(p.src)
	}
	out, _, _ := list("", 0)
	return out
}

func dataPayload(v []byte) []byte {
	if len(v) < 5 || !strings.EqualFold(string(v[:5]), "data:") {
		return nil
	}
	rest := v[5:]
	i := bytes.IndexByte(rest, ',')
	if i < 0 {
		return append([]byte("?nocomma:"), rest...)
	}
	mt := strings.TrimSpace(string(rest[:i]))
	data := rest[i+1:]
	if len(mt) >= 7 && strings.EqualFold(strings.TrimSpace(mt[len(mt)-6:]), "base64") && strings.HasSuffix(strings.TrimSpace(mt[:len(mt)-6]), ";") {
		clean := bytes.Map(func(r rune) rune {
			if r == ' ' || r == '\n' || r == '\t' || r == '\r' {
				return -1
			}
			return r
		}, data)
		clean = bytes.TrimRight(clean, "=")
		dec, err := base64.RawStdEncoding.DecodeString(string(clean))
		if err != nil {
			return append([]byte("?badbase64:"), data...)
		}
		return append([]byte("="), dec...)
	}
	// percent-decoding
	out := []byte("=")
	for j := 0; j < len(data); j++ {
		if data[j] == '%' && j+2 < len(data) && isHex(int(data[j+1])) && isHex(int(data[j+2])) {
			h := func(c byte) byte {
				switch {
				case c >= '0' && c <= '9':
					return c - '0'
				case c >= 'a':
					return c - 'a' + 10
				}
				return c - 'A' + 10
			}
			out = append(out, h(data[j+1])<<4|h(data[j+2]))
			j += 2
		} else {
			out = append(out, data[j])
		}
	}
	return out
}

func (p *Parser) toTok(n node) Tok {
	t := Tok{K: string(n.tok.K), S: nb(n.tok.S), V: nb(n.tok.V), N: nb(n.tok.N), D: lib.Bytes{}, A: []Tok{}, W: lowerStr(n.tok.V)}
	if n.tok.K == KURL {
		t.D = nb(dataPayload(n.tok.V))
	}
	if c := closerOf(n.tok.K); c != "" {
		t.A = p.toToks(n.kids)
		if n.tok.K == KFunc && lowerEq(n.tok.V, "url") {
			for _, a := range t.A {
				if a.K == "str" {
					t.D = nb(dataPayload(a.V))
					break
				}
			}
		}
	}
	return t
}

func (p *Parser) toToks(ns []node) []Tok {
	out := make([]Tok, 0, len(ns))
	for _, n := range ns {
		out = append(out, p.toTok(n))
	}
	return out
}

// lowerStr: ASCII lower-casing (CSS "ASCII case-insensitive"); bytes that are not printable
// ASCII are replaced so that the result is a plain string for keyword matching only.
func lowerStr(b []byte) string {
	out := make([]byte, len(b))
	for i, c := range b {
		switch {
		case c >= 'A' && c <= 'Z':
			out[i] = c + 32
		case c < 0x20 || c >= 0x7F || c == '"' || c == '\\':
			out[i] = '?'
		default:
			out[i] = c
		}
	}
	return string(out)
}

func stripVendor(name string) string {
	name = strings.ToLower(name)
	if len(name) > 1 && name[0] == '-' {
		if i := strings.IndexByte(name[1:], '-'); i >= 0 {
			return name[i+2:]
		}
	}
	return name
}

// which kind of block an at-rule has (CSS specifications of the at-rules concerned)
func blockKind(name string) string {
	switch stripVendor(name) {
	case "media", "supports", "document", "keyframes":
		return "rules"
	case "font-face", "page":
		return "decls"
	}
	return "raw"
}

func trimWS(ns []node) []node {
	for len(ns) > 0 && ns[0].tok.K == KWS {
		ns = ns[1:]
	}
	for len(ns) > 0 && ns[len(ns)-1].tok.K == KWS {
		ns = ns[:len(ns)-1]
	}
	return ns
}

func (p *Parser) atRule(ns []node, i int, items *[]Item) int {
	name := ns[i].tok.V
	i++
	st := i
	for i < len(ns) && ns[i].tok.K != KSemi && ns[i].tok.K != KLBrace {
		i++
	}
	pre := p.toToks(ns[st:i])
	if i >= len(ns) || ns[i].tok.K == KSemi {
		*items = append(*items, Item{T: "at", PN: lowerStr(name), Name: nb(name), Blk: "none", Pre: pre, Raw: lib.Bytes{}})
		return i + 1
	}
	bk := blockKind(string(name))
	*items = append(*items, Item{T: "at", PN: lowerStr(name), Name: nb(name), Blk: bk, Pre: pre, Raw: lib.Bytes{}})
	switch bk {
	case "rules":
		p.ruleList(ns[i].kids, false, items)
	case "decls":
		p.declList(ns[i].kids, items)
	default:
		*items = append(*items, Item{T: "raw", Name: lib.Bytes{}, Blk: "none", Pre: p.toToks(ns[i].kids), Raw: lib.Bytes{}})
	}
	*items = append(*items, Item{T: "end", Name: lib.Bytes{}, Blk: "none", Pre: []Tok{}, Raw: lib.Bytes{}})
	return i + 1
}

func (p *Parser) ruleList(ns []node, top bool, items *[]Item) {
	i := 0
	for i < len(ns) {
		k := ns[i].tok.K
		switch {
		case k == KWS:
			i++
		case top && (k == KCDO || k == KCDC):
			i++
		case k == KAt:
			i = p.atRule(ns, i, items)
		default:
			st := i
			for i < len(ns) && ns[i].tok.K != KLBrace {
				i++
			}
			if i >= len(ns) {
				// no block: parse error, the tokens are kept as a raw run
				p.Errs = append(p.Errs, "rule-without-block")
				*items = append(*items, Item{T: "raw", Name: lib.Bytes{}, Blk: "none", Pre: p.toToks(ns[st:i]), Raw: lib.Bytes{}})
				return
			}
			*items = append(*items, Item{T: "rule", Name: lib.Bytes{}, Blk: "decls", Pre: p.toToks(ns[st:i]), Raw: lib.Bytes{}})
			p.declList(ns[i].kids, items)
			*items = append(*items, Item{T: "end", Name: lib.Bytes{}, Blk: "none", Pre: []Tok{}, Raw: lib.Bytes{}})
			i++
		}
	}
}

func isCustom(name []byte) bool { return len(name) >= 2 && name[0] == '-' && name[1] == '-' }

func (p *Parser) declList(ns []node, items *[]Item) {
	i := 0
	for i < len(ns) {
		k := ns[i].tok.K
		switch {
		case k == KWS || k == KSemi:
			i++
		case k == KAt:
			i = p.atRule(ns, i, items)
		default:
			st := i
			for i < len(ns) && ns[i].tok.K != KSemi {
				i++
			}
			p.declaration(ns[st:i], items)
		}
	}
}

func (p *Parser) declaration(ns []node, items *[]Item) {
	raw := func() {
		*items = append(*items, Item{T: "raw", Name: lib.Bytes{}, Blk: "none", Pre: p.toToks(ns), Raw: lib.Bytes{}})
	}
	if len(ns) == 0 {
		return
	}
	if ns[0].tok.K != KIdent {
		raw()
		return
	}
	j := 1
	for j < len(ns) && ns[j].tok.K == KWS {
		j++
	}
	if j >= len(ns) || ns[j].tok.K != KColon {
		raw()
		return
	}
	name := ns[0].tok.V
	colonEnd := ns[j].end
	val := ns[j+1:]
	if isCustom(name) {
		end := colonEnd
		if len(val) > 0 {
			end = val[len(val)-1].end
		}
		*items = append(*items, Item{T: "cust", PN: lowerStr(name), Name: nb(name), Blk: "none", Pre: []Tok{}, Raw: nb(p.src[colonEnd:end])})
		return
	}
	val = trimWS(val)
	imp := false
	if n := len(val); n >= 2 && val[n-1].tok.K == KIdent && lowerEq(val[n-1].tok.V, "important") {
		m := n - 2
		for m >= 0 && val[m].tok.K == KWS {
			m--
		}
		if m >= 0 && val[m].tok.K == KDelim && string(val[m].tok.S) == "!" {
			imp = true
			val = trimWS(val[:m])
		}
	}
	if lowerEq(name, "unicode-range") && len(val) > 0 {
		// the unicode-range descriptor is tokenized with the <urange> production enabled
		span := p.src[val[0].tok.Start:val[len(val)-1].end]
		toks, errs := Tokenize(span, true)
		sub := &Parser{src: span}
		val = sub.nest(toks)
		p.Errs = append(p.Errs, errs...)
		p.Errs = append(p.Errs, sub.Errs...)
		*items = append(*items, Item{T: "decl", PN: lowerStr(name), Name: nb(name), Imp: imp, Blk: "none", Pre: sub.toToks(val), Raw: lib.Bytes{}})
		return
	}
	*items = append(*items, Item{T: "decl", PN: lowerStr(name), Name: nb(name), Imp: imp, Blk: "none", Pre: p.toToks(val), Raw: lib.Bytes{}})
}

// ParseCSS projects a text into items; errs are the parse errors of CSS Syntax that make
// the text fall outside the checked input domain (tokenizer errors, unbalanced brackets).
func ParseCSS(text []byte, inline bool) (items []Item, errs []string) {
	pre := Preprocess(text)
	toks, terrs := Tokenize(pre, false)
	p := &Parser{src: pre}
	ns := p.nest(toks)
	items = []Item{}
	if inline {
		p.declList(ns, &items)
	} else {
		p.ruleList(ns, true, &items)
	}
	errs = append(errs, terrs...)
	errs = append(errs, p.Errs...)
	return
}
