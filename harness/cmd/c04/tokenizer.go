// CSS Syntax Module Level 3 tokenizer (section 4), written for the verification harness.
// It is deliberately independent of github.com/tdewolff/parse/v2/css (the code under test
// uses that package): nothing is imported from it.
//
// Tokens carry their source text (s), their decoded value (v: identifier / function name /
// at-keyword name / hash name / string / url after escape decoding; the unit for dimensions)
// and the number lexeme (n) for number / percentage / dimension tokens.
// The unicode-range token of the 2014 CR is produced only when the caller enables it (the
// 2021 CR moved it into the parse of the unicode-range descriptor).
package main

import (
	"unicode/utf8"
)

type Kind string

const (
	KIdent  Kind = "ident"
	KFunc   Kind = "func"
	KAt     Kind = "at"
	KHash   Kind = "hash"
	KStr    Kind = "str"
	KBadStr Kind = "badstr"
	KURL    Kind = "url"
	KBadURL Kind = "badurl"
	KDelim  Kind = "delim"
	KNum    Kind = "num"
	KPct    Kind = "pct"
	KDim    Kind = "dim"
	KWS     Kind = "ws"
	KCDO    Kind = "cdo"
	KCDC    Kind = "cdc"
	KColon  Kind = "colon"
	KSemi   Kind = "semi"
	KComma  Kind = "comma"
	KLBrack Kind = "["
	KRBrack Kind = "]"
	KLParen Kind = "("
	KRParen Kind = ")"
	KLBrace Kind = "{"
	KRBrace Kind = "}"
	KURange Kind = "urange"
	KEOF    Kind = "eof"
)

type RawTok struct {
	K     Kind
	S     []byte // source text
	V     []byte // decoded value (see above)
	N     []byte // number lexeme
	IDish bool   // hash token of type "id"
	Start int
	End   int
}

type Tokenizer struct {
	b      []byte
	p      int
	URange bool
	Errs   []string // tokenizer-level parse errors (bad string, bad url, EOF in string/url/comment)
	prevK  Kind     // kind of the previous token
}

// a comment that is the only separator between two tokens which would form different tokens
// once the comment is removed (ab from a/**/b): such inputs are outside the checked domain
func glueLeft(k Kind) bool {
	switch k {
	case KIdent, KAt, KHash, KDim, KNum, KPct, KDelim:
		return true
	}
	return false
}
func glueRight(k Kind) bool {
	switch k {
	case KIdent, KFunc, KURL, KBadURL, KNum, KPct, KDim, KDelim, KURange:
		return true
	}
	return false
}

// Preprocess: CR, FF, CRLF -> LF ; NUL -> U+FFFD  (section 3.3)
func Preprocess(in []byte) []byte {
	out := make([]byte, 0, len(in))
	for i := 0; i < len(in); i++ {
		c := in[i]
		switch c {
		case '\r':
			out = append(out, '\n')
			if i+1 < len(in) && in[i+1] == '\n' {
				i++
			}
		case '\f':
			out = append(out, '\n')
		case 0:
			out = append(out, 0xEF, 0xBF, 0xBD)
		default:
			out = append(out, c)
		}
	}
	return out
}

func NewTokenizer(pre []byte) *Tokenizer { return &Tokenizer{b: pre} }

func (t *Tokenizer) at(i int) int {
	if t.p+i < len(t.b) {
		return int(t.b[t.p+i])
	}
	return -1
}

func isDigit(c int) bool  { return c >= '0' && c <= '9' }
func isHex(c int) bool    { return isDigit(c) || (c >= 'a' && c <= 'f') || (c >= 'A' && c <= 'F') }
func isLetter(c int) bool { return (c >= 'a' && c <= 'z') || (c >= 'A' && c <= 'Z') }
func isNonASCII(c int) bool {
	return c >= 0x80
}
func isIdentStart(c int) bool { return isLetter(c) || isNonASCII(c) || c == '_' }
func isIdentChar(c int) bool  { return isIdentStart(c) || isDigit(c) || c == '-' }
func isWS(c int) bool         { return c == ' ' || c == '\t' || c == '\n' }
func isNonPrintable(c int) bool {
	return (c >= 0 && c <= 8) || c == 0x0B || (c >= 0x0E && c <= 0x1F) || c == 0x7F
}

func validEscape(a, b int) bool { return a == '\\' && b != '\n' && b != -1 }

// "would start an identifier" (4.3.9)
func (t *Tokenizer) startsIdent(i int) bool {
	a, b, c := t.at(i), t.at(i+1), t.at(i+2)
	if a == '-' {
		return isIdentStart(b) || b == '-' || validEscape(b, c)
	}
	if isIdentStart(a) {
		return true
	}
	if a == '\\' {
		return validEscape(a, b)
	}
	return false
}

// "would start a number" (4.3.10)
func (t *Tokenizer) startsNumber(i int) bool {
	a, b, c := t.at(i), t.at(i+1), t.at(i+2)
	if a == '+' || a == '-' {
		if isDigit(b) {
			return true
		}
		return b == '.' && isDigit(c)
	}
	if a == '.' {
		return isDigit(b)
	}
	return isDigit(a)
}

// consume an escaped code point; the backslash has been consumed already
func (t *Tokenizer) consumeEscape(out []byte) []byte {
	c := t.at(0)
	if c == -1 {
		t.Errs = append(t.Errs, "eof-in-escape")
		return append(out, 0xEF, 0xBF, 0xBD)
	}
	if isHex(c) {
		v := 0
		n := 0
		for n < 6 && isHex(t.at(0)) {
			h := t.at(0)
			d := 0
			switch {
			case isDigit(h):
				d = h - '0'
			case h >= 'a':
				d = h - 'a' + 10
			default:
				d = h - 'A' + 10
			}
			v = v*16 + d
			t.p++
			n++
		}
		if isWS(t.at(0)) {
			t.p++
		}
		if v == 0 || v > 0x10FFFF || (v >= 0xD800 && v <= 0xDFFF) {
			v = 0xFFFD
		}
		var buf [4]byte
		k := utf8.EncodeRune(buf[:], rune(v))
		return append(out, buf[:k]...)
	}
	t.p++
	return append(out, byte(c))
}

func (t *Tokenizer) consumeName() []byte {
	out := []byte{}
	for {
		c := t.at(0)
		if isIdentChar(c) {
			out = append(out, byte(c))
			t.p++
		} else if validEscape(c, t.at(1)) {
			t.p++
			out = t.consumeEscape(out)
		} else {
			return out
		}
	}
}

func (t *Tokenizer) consumeNumberLexeme() []byte {
	st := t.p
	if t.at(0) == '+' || t.at(0) == '-' {
		t.p++
	}
	for isDigit(t.at(0)) {
		t.p++
	}
	if t.at(0) == '.' && isDigit(t.at(1)) {
		t.p += 2
		for isDigit(t.at(0)) {
			t.p++
		}
	}
	if t.at(0) == 'e' || t.at(0) == 'E' {
		if isDigit(t.at(1)) {
			t.p += 2
			for isDigit(t.at(0)) {
				t.p++
			}
		} else if (t.at(1) == '+' || t.at(1) == '-') && isDigit(t.at(2)) {
			t.p += 3
			for isDigit(t.at(0)) {
				t.p++
			}
		}
	}
	return t.b[st:t.p]
}

func (t *Tokenizer) consumeNumeric(st int) RawTok {
	n := t.consumeNumberLexeme()
	if t.startsIdent(0) {
		u := t.consumeName()
		return RawTok{K: KDim, N: n, V: u, Start: st}
	}
	if t.at(0) == '%' {
		t.p++
		return RawTok{K: KPct, N: n, Start: st}
	}
	return RawTok{K: KNum, N: n, Start: st}
}

func (t *Tokenizer) consumeString(q int, st int) RawTok {
	val := []byte{}
	for {
		c := t.at(0)
		switch {
		case c == q:
			t.p++
			return RawTok{K: KStr, V: val, Start: st}
		case c == -1:
			t.Errs = append(t.Errs, "eof-in-string")
			return RawTok{K: KStr, V: val, Start: st}
		case c == '\n':
			t.Errs = append(t.Errs, "bad-string")
			return RawTok{K: KBadStr, V: val, Start: st}
		case c == '\\':
			if t.at(1) == -1 {
				t.p++
				t.Errs = append(t.Errs, "eof-in-string")
			} else if t.at(1) == '\n' {
				t.p += 2
			} else {
				t.p++
				val = t.consumeEscape(val)
			}
		default:
			val = append(val, byte(c))
			t.p++
		}
	}
}

func (t *Tokenizer) consumeBadURLRemnants() {
	for {
		c := t.at(0)
		if c == ')' || c == -1 {
			if c == ')' {
				t.p++
			}
			return
		}
		if validEscape(c, t.at(1)) {
			t.p++
			t.consumeEscape(nil)
		} else {
			t.p++
		}
	}
}

func (t *Tokenizer) consumeURL(st int) RawTok {
	for isWS(t.at(0)) {
		t.p++
	}
	val := []byte{}
	for {
		c := t.at(0)
		switch {
		case c == ')':
			t.p++
			return RawTok{K: KURL, V: val, Start: st}
		case c == -1:
			t.Errs = append(t.Errs, "eof-in-url")
			return RawTok{K: KURL, V: val, Start: st}
		case isWS(c):
			for isWS(t.at(0)) {
				t.p++
			}
			if t.at(0) == ')' {
				t.p++
				return RawTok{K: KURL, V: val, Start: st}
			}
			if t.at(0) == -1 {
				t.Errs = append(t.Errs, "eof-in-url")
				return RawTok{K: KURL, V: val, Start: st}
			}
			t.Errs = append(t.Errs, "bad-url")
			t.consumeBadURLRemnants()
			return RawTok{K: KBadURL, Start: st}
		case c == '"' || c == '\'' || c == '(' || isNonPrintable(c):
			t.Errs = append(t.Errs, "bad-url")
			t.consumeBadURLRemnants()
			return RawTok{K: KBadURL, Start: st}
		case c == '\\':
			if validEscape(c, t.at(1)) {
				t.p++
				val = t.consumeEscape(val)
			} else {
				t.Errs = append(t.Errs, "bad-url")
				t.consumeBadURLRemnants()
				return RawTok{K: KBadURL, Start: st}
			}
		default:
			val = append(val, byte(c))
			t.p++
		}
	}
}

func lowerEq(b []byte, s string) bool {
	if len(b) != len(s) {
		return false
	}
	for i := range b {
		c := b[i]
		if c >= 'A' && c <= 'Z' {
			c += 32
		}
		if c != s[i] {
			return false
		}
	}
	return true
}

func (t *Tokenizer) consumeIdentLike(st int) RawTok {
	name := t.consumeName()
	if lowerEq(name, "url") && t.at(0) == '(' {
		t.p++
		// while the next two are whitespace, consume one
		for isWS(t.at(0)) && isWS(t.at(1)) {
			t.p++
		}
		a, b := t.at(0), t.at(1)
		if a == '"' || a == '\'' || (isWS(a) && (b == '"' || b == '\'')) {
			return RawTok{K: KFunc, V: name, Start: st}
		}
		return t.consumeURL(st)
	}
	if t.at(0) == '(' {
		t.p++
		return RawTok{K: KFunc, V: name, Start: st}
	}
	return RawTok{K: KIdent, V: name, Start: st}
}

// unicode-range token of the 2014 CR: U+ followed by hex digits / ? and an optional -hex part
func (t *Tokenizer) tryURange(st int) (RawTok, bool) {
	c := t.at(0)
	if !(c == 'u' || c == 'U') || t.at(1) != '+' || !(isHex(t.at(2)) || t.at(2) == '?') {
		return RawTok{}, false
	}
	t.p += 2
	n := 0
	for n < 6 && isHex(t.at(0)) {
		t.p++
		n++
	}
	q := 0
	for n+q < 6 && t.at(0) == '?' {
		t.p++
		q++
	}
	if q == 0 && t.at(0) == '-' && isHex(t.at(1)) {
		t.p++
		m := 0
		for m < 6 && isHex(t.at(0)) {
			t.p++
			m++
		}
	}
	return RawTok{K: KURange, Start: st}, true
}

func (t *Tokenizer) Next() RawTok {
	// comments
	hadComment := false
	for t.at(0) == '/' && t.at(1) == '*' {
		hadComment = true
		t.p += 2
		closed := false
		for t.p < len(t.b) {
			if t.at(0) == '*' && t.at(1) == '/' {
				t.p += 2
				closed = true
				break
			}
			t.p++
		}
		if !closed {
			t.Errs = append(t.Errs, "eof-in-comment")
		}
	}
	st := t.p
	tok := t.next1(st)
	tok.Start = st
	tok.End = t.p
	tok.S = t.b[st:t.p]
	if hadComment && glueLeft(t.prevK) && glueRight(tok.K) {
		t.Errs = append(t.Errs, "comment-as-separator")
	}
	t.prevK = tok.K
	return tok
}

func (t *Tokenizer) next1(st int) RawTok {
	c := t.at(0)
	if c == -1 {
		return RawTok{K: KEOF}
	}
	switch {
	case isWS(c):
		for isWS(t.at(0)) {
			t.p++
		}
		return RawTok{K: KWS}
	case c == '"' || c == '\'':
		t.p++
		return t.consumeString(c, st)
	case c == '#':
		if isIdentChar(t.at(1)) || validEscape(t.at(1), t.at(2)) {
			t.p++
			id := t.startsIdent(0)
			name := t.consumeName()
			return RawTok{K: KHash, V: name, IDish: id}
		}
		t.p++
		return RawTok{K: KDelim}
	case c == '(':
		t.p++
		return RawTok{K: KLParen}
	case c == ')':
		t.p++
		return RawTok{K: KRParen}
	case c == '+':
		if t.startsNumber(0) {
			return t.consumeNumeric(st)
		}
		t.p++
		return RawTok{K: KDelim}
	case c == ',':
		t.p++
		return RawTok{K: KComma}
	case c == '-':
		if t.startsNumber(0) {
			return t.consumeNumeric(st)
		}
		if t.at(1) == '-' && t.at(2) == '>' {
			t.p += 3
			return RawTok{K: KCDC}
		}
		if t.startsIdent(0) {
			return t.consumeIdentLike(st)
		}
		t.p++
		return RawTok{K: KDelim}
	case c == '.':
		if t.startsNumber(0) {
			return t.consumeNumeric(st)
		}
		t.p++
		return RawTok{K: KDelim}
	case c == ':':
		t.p++
		return RawTok{K: KColon}
	case c == ';':
		t.p++
		return RawTok{K: KSemi}
	case c == '<':
		if t.at(1) == '!' && t.at(2) == '-' && t.at(3) == '-' {
			t.p += 4
			return RawTok{K: KCDO}
		}
		t.p++
		return RawTok{K: KDelim}
	case c == '@':
		if t.startsIdent(1) {
			t.p++
			name := t.consumeName()
			return RawTok{K: KAt, V: name}
		}
		t.p++
		return RawTok{K: KDelim}
	case c == '[':
		t.p++
		return RawTok{K: KLBrack}
	case c == '\\':
		if validEscape(c, t.at(1)) {
			return t.consumeIdentLike(st)
		}
		t.Errs = append(t.Errs, "bad-escape")
		t.p++
		return RawTok{K: KDelim}
	case c == ']':
		t.p++
		return RawTok{K: KRBrack}
	case c == '{':
		t.p++
		return RawTok{K: KLBrace}
	case c == '}':
		t.p++
		return RawTok{K: KRBrace}
	case isDigit(c):
		return t.consumeNumeric(st)
	case c == 'u' || c == 'U':
		if t.URange {
			if tok, ok := t.tryURange(st); ok {
				return tok
			}
		}
		return t.consumeIdentLike(st)
	case isIdentStart(c):
		return t.consumeIdentLike(st)
	default:
		t.p++
		return RawTok{K: KDelim}
	}
}

// Tokenize returns all tokens (without EOF) and the tokenizer-level parse errors.
func Tokenize(pre []byte, urange bool) ([]RawTok, []string) {
	t := NewTokenizer(pre)
	t.URange = urange
	var out []RawTok
	for {
		tok := t.Next()
		if tok.K == KEOF {
			break
		}
		out = append(out, tok)
	}
	return out, t.Errs
}
