// c04: drives the real css.Minifier for property C04 and projects input and output text
// into items (rules, at-rules, declarations, component values) with an independent CSS
// Syntax Level 3 tokenizer/parser (tokenizer.go, parser.go).
//
// Input : ndjson cases {"id":n,"src":[bytes],"inline":bool,"css2":bool}
// Output: ndjson trace lines, one per item position k of a case:
//   {"id":n,"idx":k,"inline":b,"css2":b,"mal":b,"omal":b,"err":s,"panic":b,"i":item,"o":item}
// The items of input and output are paired by position only (a missing item is {"t":"none"});
// whether a pair is equivalent is decided by the TLA+ relation (spec/C04Trace.tla).
// mode "dump": print the items of the texts given in the case file (for alphabets / debugging).
package main

import (
	"bytes"
	"encoding/json"
	"os"

	"github.com/tdewolff/minify/v2"
	"github.com/tdewolff/minify/v2/css"
	"verifharness/lib"
)

type Case struct {
	ID     int       `json:"id"`
	Src    lib.Bytes `json:"src"`
	Inline bool      `json:"inline"`
	CSS2   bool      `json:"css2"`
}

type Line struct {
	ID     int       `json:"id"`
	Idx    int       `json:"idx"`
	Inline bool      `json:"inline"`
	CSS2   bool      `json:"css2"`
	Mal    bool      `json:"mal"`
	OMal   bool      `json:"omal"`
	Err    string    `json:"err"`
	Panic  bool      `json:"panic"`
	Out    lib.Bytes `json:"out"`
	I      Item      `json:"i"`
	O      Item      `json:"o"`
}

var none = Item{T: "none", Name: lib.Bytes{}, Blk: "none", Pre: []Tok{}, Raw: lib.Bytes{}}

func runCase(c Case, tw *lib.TraceWriter) {
	in := append([]byte{}, c.Src...)
	var out bytes.Buffer
	var err error
	m := minify.New()
	o := &css.Minifier{KeepCSS2: c.CSS2, Precision: 0, Inline: c.Inline}
	panicked, msg := lib.Guard(func() {
		err = o.Minify(m, &out, bytes.NewReader(in), nil)
	})
	base := Line{ID: c.ID, Inline: c.Inline, CSS2: c.CSS2, Panic: panicked, I: none, O: none, Out: lib.Bytes{}}
	if panicked {
		base.Err = msg
		tw.Emit(base)
		return
	}
	if err != nil {
		base.Err = err.Error()
	}
	iItems, iErrs := ParseCSS(c.Src, c.Inline)
	oItems, oErrs := ParseCSS(out.Bytes(), c.Inline)
	base.Mal = len(iErrs) > 0
	base.OMal = len(oErrs) > 0
	n := len(iItems)
	if len(oItems) > n {
		n = len(oItems)
	}
	if base.Mal || n == 0 {
		// outside the checked domain (input has CSS Syntax parse errors) or nothing to compare:
		// one line so that the case is accounted for
		base.Out = nb(out.Bytes())
		tw.Emit(base)
		return
	}
	for k := 0; k < n; k++ {
		l := base
		l.Idx = k
		if k == 0 {
			l.Out = nb(out.Bytes())
		}
		if k < len(iItems) {
			l.I = iItems[k]
		}
		if k < len(oItems) {
			l.O = oItems[k]
		}
		tw.Emit(l)
	}
}

func main() {
	if len(os.Args) >= 2 && os.Args[1] == "dump" {
		// dump <cases> <out>: items of the given texts, no minifier involved
		tw := lib.NewTraceWriter(os.Args[3])
		lib.ReadJSONLines(os.Args[2], func(line []byte) {
			var c Case
			if err := json.Unmarshal(line, &c); err != nil {
				lib.Fatal("bad case: %v", err)
			}
			items, errs := ParseCSS(c.Src, c.Inline)
			tw.Emit(map[string]interface{}{"id": c.ID, "items": items, "errs": errs})
		})
		tw.Close()
		return
	}
	if len(os.Args) < 3 {
		lib.Fatal("usage: c04 <cases.ndjson> <trace.ndjson> | c04 dump <cases> <out>")
	}
	tw := lib.NewTraceWriter(os.Args[2])
	lib.ReadJSONLines(os.Args[1], func(line []byte) {
		var c Case
		if err := json.Unmarshal(line, &c); err != nil {
			lib.Fatal("bad case: %v", err)
		}
		runCase(c, tw)
	})
	tw.Close()
}
