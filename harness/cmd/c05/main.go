// c05: drives the real SVG minifier (public API: svg.Minify through minify.M, standalone, and
// html.Minify with the SVG minifier registered for inline SVG) for property C05 and projects
// input and output documents with parsers that are independent of the code under test:
// encoding/xml (Strict, namespace resolving) for standalone documents and golang.org/x/net/html
// for SVG embedded in HTML.  The property relation itself is evaluated by TLC
// (spec/C05Trace.tla, SvgPath.tla, SvgDoc.tla); nothing is judged here.
//
// Input : ndjson cases
//   {"id":n,"kind":"path","mode":"standalone"|"inline","paths":[[bytes],...],"gen":bool}
//        a document holding one <path d="..."/> per entry
//   {"id":n,"kind":"doc","mode":...,"css":bool,"src":[bytes]}   or   ... "file":"/path/to.svg"
//   optional on both: "session":k (cases of a session share one registry with one registered
//   minifier instance, in file order), "history":[{mode,src}] (unjudged calls made first)
// Output: ndjson lines
//   {"kind":"path", id, sub, mode, ok, err, gen, geo, in:[bytes], out:[bytes]}
//        one per `d` attribute (paired in document order); geo = the input fits the fixed-point
//        range of spec/SvgPath.tla (decided from the INPUT only)
//   {"kind":"doc", id, mode, css, ok, err, wfin, wfout, ein:[ev], eout:[ev]}
//        ev = {t:"s"|"e"|"x", ns, name, attrs:[{ns,name,val:[bytes],lc,decls:[{name,val,lc}]}], txt:[bytes]}
// usage: c05 <cases.ndjson> <trace.ndjson>     |    c05 -show [-inline] [-css] <file or ->
package main

import (
	"bytes"
	"encoding/json"
	"encoding/xml"
	"fmt"
	"io"
	"math"
	"os"
	"regexp"
	"strconv"
	"strings"

	"github.com/tdewolff/minify/v2"
	"github.com/tdewolff/minify/v2/css"
	mhtml "github.com/tdewolff/minify/v2/html"
	msvg "github.com/tdewolff/minify/v2/svg"
	"golang.org/x/net/html"
	"verifharness/lib"
)

const (
	svgNS   = "http://www.w3.org/2000/svg"
	xlinkNS = "http://www.w3.org/1999/xlink"
	xmlNS   = "http://www.w3.org/XML/1998/namespace"
	xhtmlNS = "http://www.w3.org/1999/xhtml"
	mathNS  = "http://www.w3.org/1998/Math/MathML"
)

// Session: all cases of one session (> 0) are minified, in file order, through ONE registry with ONE
// registered *svg.Minifier / *html.Minifier instance - the way an application uses the library;
// standalone and inline calls interleave on it.  Session 0: a fresh registry for this case alone.
// History: calls made on the (fresh) registry before the case itself; they are not judged.
type Call struct {
	Mode string    `json:"mode"`
	Src  lib.Bytes `json:"src"`
}

type Case struct {
	ID      int         `json:"id"`
	Kind    string      `json:"kind"`
	Mode    string      `json:"mode"`
	CSS     bool        `json:"css"`
	Gen     bool        `json:"gen"`
	Paths   []lib.Bytes `json:"paths"`
	Src     lib.Bytes   `json:"src"`
	File    string      `json:"file"`
	Session int         `json:"session"`
	History []Call      `json:"history"`
}

type Decl struct {
	Name string    `json:"name"`
	Val  lib.Bytes `json:"val"`
	LC   string    `json:"lc"`
}

type Attr struct {
	NS    string    `json:"ns"`
	Name  string    `json:"name"`
	Val   lib.Bytes `json:"val"`
	LC    string    `json:"lc"`
	Decls []Decl    `json:"decls"` // style attribute: its declarations (name lower-cased), else empty
}

// declsOf splits a style attribute value into declarations (CSS Style Attributes: a
// declaration list; `;` and `:` inside strings or parentheses do not separate).
func declsOf(v string) []Decl {
	out := []Decl{}
	depth := 0
	var quote byte
	start := 0
	flush := func(end int) {
		d := v[start:end]
		colon := -1
		dp := 0
		var q byte
		for i := 0; i < len(d); i++ {
			c := d[i]
			switch {
			case q != 0:
				if c == q {
					q = 0
				}
			case c == '"' || c == '\'':
				q = c
			case c == '(':
				dp++
			case c == ')':
				dp--
			case c == ':' && dp == 0 && colon < 0:
				colon = i
			}
		}
		if colon < 0 {
			if strings.TrimSpace(d) != "" {
				out = append(out, Decl{Name: "?", Val: lib.Bytes(d), LC: lcShort([]byte(d))})
			}
			return
		}
		val := d[colon+1:]
		out = append(out, Decl{Name: strings.ToLower(strings.TrimSpace(d[:colon])), Val: lib.Bytes(val), LC: lcShort([]byte(val))})
	}
	for i := 0; i < len(v); i++ {
		c := v[i]
		switch {
		case quote != 0:
			if c == quote {
				quote = 0
			}
		case c == '"' || c == '\'':
			quote = c
		case c == '(':
			depth++
		case c == ')':
			depth--
		case c == ';' && depth == 0:
			flush(i)
			start = i + 1
		}
	}
	flush(len(v))
	return out
}

func mkAttr(ns, name, val string) Attr {
	a := Attr{NS: ns, Name: name, Val: lib.Bytes(val), LC: lcShort([]byte(val)), Decls: []Decl{}}
	if ns == "" && name == "style" {
		a.Decls = declsOf(val)
	}
	return a
}

type Ev struct {
	T     string    `json:"t"`
	NS    string    `json:"ns"`
	Name  string    `json:"name"`
	Attrs []Attr    `json:"attrs"`
	Txt   lib.Bytes `json:"txt"`
}

type PathLine struct {
	Kind string    `json:"kind"`
	ID   int       `json:"id"`
	Sub  int       `json:"sub"`
	Mode string    `json:"mode"`
	OK   bool      `json:"ok"`
	Err  string    `json:"err"`
	Gen  bool      `json:"gen"`
	Geo  bool      `json:"geo"`
	Ints bool      `json:"ints"` // statistics only: every number of the input is an integer (drift comparison applies)
	In   lib.Bytes `json:"in"`
	Out  lib.Bytes `json:"out"`
}

type DocLine struct {
	Kind  string `json:"kind"`
	ID    int    `json:"id"`
	Mode  string `json:"mode"`
	CSS   bool   `json:"css"`
	OK    bool   `json:"ok"`
	Err   string `json:"err"`
	WfIn  bool   `json:"wfin"`
	WfOut bool   `json:"wfout"`
	NPath int    `json:"npath"`
	EIn   []Ev   `json:"ein"`
	EOut  []Ev   `json:"eout"`
	// not part of the relation: the raw output for human readers of replays
	Raw string `json:"raw,omitempty"`
}

// ---- projection: encoding/xml ------------------------------------------------------------

var entityRe = regexp.MustCompile(`<!ENTITY\s+([A-Za-z_][\w.-]*)\s+(?:"([^"]*)"|'([^']*)')\s*>`)

func lcShort(v []byte) string {
	t := strings.Join(strings.Fields(string(v)), " ")
	if len(t) > 40 {
		return ""
	}
	for i := 0; i < len(t); i++ {
		if t[i] >= 0x80 || t[i] < 0x20 || t[i] == '"' || t[i] == '\\' {
			return ""
		}
	}
	return strings.ToLower(t)
}

// encoding/xml leaves the prefix in Name.Space when no declaration for it is in scope; a namespace
// name is a URI reference and in practice contains ':' or '/', a prefix cannot contain ':'.
// Such a document is not namespace-well-formed (Namespaces in XML 1.0, section 5).
func unbound(space string) bool {
	return space != "" && !strings.ContainsAny(space, ":/")
}

// projectXML reads a standalone document.  wf=false when it is not well-formed (Strict decoder:
// mismatched tags, undefined entities, illegal characters, `<` in attribute values ...).
func projectXML(src []byte) (evs []Ev, ds [][]byte, wf bool, why string) {
	dec := xml.NewDecoder(bytes.NewReader(src))
	dec.Strict = true
	dec.Entity = map[string]string{}
	dec.CharsetReader = func(label string, input io.Reader) (io.Reader, error) { return input, nil }
	depth := 0
	roots := 0
	addText := func(b []byte) {
		if n := len(evs); n > 0 && evs[n-1].T == "x" {
			evs[n-1].Txt = append(evs[n-1].Txt, b...)
			return
		}
		evs = append(evs, Ev{T: "x", Attrs: []Attr{}, Txt: append(lib.Bytes{}, b...)})
	}
	for {
		tok, err := dec.Token()
		if err == io.EOF {
			break
		}
		if err != nil {
			return nil, nil, false, err.Error()
		}
		switch t := tok.(type) {
		case xml.StartElement:
			if depth == 0 {
				roots++
			}
			depth++
			e := Ev{T: "s", Name: t.Name.Local, Attrs: []Attr{}, Txt: lib.Bytes{}}
			switch t.Name.Space {
			case svgNS:
				e.NS = "svg"
			case "":
				e.NS = "none"
			case xhtmlNS:
				e.NS = "html" // rendered content of foreignObject, not editor metadata
			case mathNS:
				e.NS = "math"
			default:
				e.NS = "foreign"
				if unbound(t.Name.Space) {
					return nil, nil, false, "unbound namespace prefix " + t.Name.Space
				}
			}
			for _, a := range t.Attr {
				at := mkAttr("", a.Name.Local, a.Value)
				if a.Name.Space != "" {
					at.Decls = []Decl{}
				}
				switch {
				case a.Name.Space == "" && a.Name.Local == "xmlns", a.Name.Space == "xmlns":
					at.NS = "xmlns"
				case a.Name.Space == "":
					at.NS = ""
				case a.Name.Space == xmlNS:
					at.NS = "xml"
				case a.Name.Space == xlinkNS:
					at.NS = "xlink"
				default:
					at.NS = "foreign"
					if unbound(a.Name.Space) {
						return nil, nil, false, "unbound namespace prefix " + a.Name.Space
					}
				}
				if at.NS == "" && at.Name == "d" {
					ds = append(ds, []byte(a.Value))
					at.Val = lib.Bytes{}
					at.LC = ""
				}
				e.Attrs = append(e.Attrs, at)
			}
			evs = append(evs, e)
		case xml.EndElement:
			depth--
			evs = append(evs, Ev{T: "e", Name: t.Name.Local, Attrs: []Attr{}, Txt: lib.Bytes{}})
		case xml.CharData:
			if depth > 0 {
				addText([]byte(t))
			} else if len(bytes.TrimSpace([]byte(t))) > 0 {
				// character data outside the root element: not a well-formed document, but the
				// repository's own tests use such fragments; keep it as top-level text
				addText([]byte(t))
			}
		case xml.Directive:
			for _, m := range entityRe.FindAllSubmatch([]byte(t), -1) {
				v := m[2]
				if m[2] == nil {
					v = m[3]
				}
				dec.Entity[string(m[1])] = string(v)
			}
		}
	}
	if depth != 0 {
		return nil, nil, false, "unclosed element"
	}
	_ = roots
	return evs, ds, true, ""
}

// ---- projection: x/net/html (inline SVG) ---------------------------------------------------

func findSVG(n *html.Node) *html.Node {
	if n.Type == html.ElementNode && n.Namespace == "svg" && n.Data == "svg" {
		return n
	}
	for c := n.FirstChild; c != nil; c = c.NextSibling {
		if r := findSVG(c); r != nil {
			return r
		}
	}
	return nil
}

func projectHTML(src []byte) (evs []Ev, ds [][]byte, wf bool, why string) {
	doc, err := html.Parse(bytes.NewReader(src))
	if err != nil {
		return nil, nil, false, err.Error()
	}
	root := findSVG(doc)
	if root == nil {
		return nil, nil, false, "no svg element in the HTML tree"
	}
	var walk func(n *html.Node)
	walk = func(n *html.Node) {
		switch n.Type {
		case html.TextNode:
			if k := len(evs); k > 0 && evs[k-1].T == "x" {
				evs[k-1].Txt = append(evs[k-1].Txt, n.Data...)
			} else {
				evs = append(evs, Ev{T: "x", Attrs: []Attr{}, Txt: lib.Bytes(n.Data)})
			}
		case html.ElementNode:
			e := Ev{T: "s", Name: n.Data, Attrs: []Attr{}, Txt: lib.Bytes{}}
			switch {
			case n.Namespace == "svg" && !strings.Contains(n.Data, ":"):
				e.NS = "svg"
			case n.Namespace == "svg":
				e.NS = "foreign" // <sodipodi:namedview> inside inline SVG
			case n.Namespace == "":
				e.NS = "html"
			default:
				e.NS = n.Namespace
			}
			for _, a := range n.Attr {
				at := mkAttr("", a.Key, a.Val)
				if a.Namespace != "" {
					at.Decls = []Decl{}
				}
				switch {
				case a.Namespace == "xmlns" || (a.Namespace == "" && a.Key == "xmlns"):
					at.NS = "xmlns"
				case a.Namespace == "xlink":
					at.NS = "xlink"
				case a.Namespace == "xml":
					at.NS = "xml"
				case a.Namespace == "" && strings.HasPrefix(a.Key, "xmlns:"):
					at.NS = "xmlns"
				case a.Namespace == "" && strings.Contains(a.Key, ":"):
					at.NS = "foreign"
				case a.Namespace == "":
					at.NS = ""
				default:
					at.NS = "foreign"
				}
				if at.NS == "" && at.Name == "d" {
					ds = append(ds, []byte(a.Val))
					at.Val = lib.Bytes{}
					at.LC = ""
				}
				e.Attrs = append(e.Attrs, at)
			}
			evs = append(evs, e)
			for c := n.FirstChild; c != nil; c = c.NextSibling {
				walk(c)
			}
			evs = append(evs, Ev{T: "e", Name: n.Data, Attrs: []Attr{}, Txt: lib.Bytes{}})
		}
	}
	walk(root)
	return evs, ds, true, ""
}

// ---- running the real code -------------------------------------------------------------------

// One registry with one registered minifier INSTANCE per media type (m.Add, not AddFunc): state that
// a call leaves behind on the instance is seen by the next call.
func newM(withCSS bool) *minify.M {
	m := minify.New()
	m.Add("image/svg+xml", &msvg.Minifier{})
	m.Add("text/html", &mhtml.Minifier{})
	if withCSS {
		m.Add("text/css", &css.Minifier{})
	}
	return m
}

type regKey struct {
	session int
	css     bool
}

var registries = map[regKey]*minify.M{}

func registryFor(session int, withCSS bool) *minify.M {
	if session == 0 {
		return newM(withCSS)
	}
	k := regKey{session, withCSS}
	if registries[k] == nil {
		registries[k] = newM(withCSS)
	}
	return registries[k]
}

const htmlPre = "<!doctype html><html><head><title>t</title></head><body><p>before</p>"
const htmlPost = "<p>after</p></body></html>"

// minifyDoc returns the full input as given to the real code and the full output.
func minifyDoc(m *minify.M, src []byte, mode string) (in []byte, out []byte, err error, panicked bool, msg string) {
	mt := "image/svg+xml"
	in = src
	if mode == "inline" {
		mt = "text/html"
		in = []byte(htmlPre + string(src) + htmlPost)
	}
	var w bytes.Buffer
	// the minifier works in place on the reader's buffer: give it a private copy
	cp := append([]byte{}, in...)
	panicked, msg = lib.Guard(func() {
		err = m.Minify(mt, &w, bytes.NewReader(cp))
	})
	return in, w.Bytes(), err, panicked, msg
}

func project(b []byte, mode string) ([]Ev, [][]byte, bool, string) {
	if mode == "inline" {
		return projectHTML(b)
	}
	return projectXML(b)
}

// ---- fixed-point range prefilter (input only; the verdict never depends on it) ------------------
// spec/SvgPath.tla interprets a path over 32-bit integers at the scale of its most precise number.
// Whether the INPUT fits is decided here with a small float interpreter (current point, sub-path
// start, reflected control points); when it does not fit only the grammar clause is evaluated.
// If this estimate were wrong TLC reports "machinery-range" (exit 2), never a verdict.

var numRe = regexp.MustCompile(`^[+-]?(?:\d+\.?\d*|\.\d+)(?:[eE][+-]?\d+)?`)

func fitsFixedPoint(d []byte) bool {
	fits, _ := rangeInfo(d)
	return fits
}

// rangeInfo: does the input fit the fixed-point range, and K = decimals of its most precise number.
func rangeInfo(d []byte) (bool, int) {
	arity := map[byte]int{'M': 2, 'L': 2, 'T': 2, 'H': 1, 'V': 1, 'S': 4, 'Q': 4, 'C': 6, 'A': 7, 'Z': 0}
	K := 0
	maxabs := 0.0
	see := func(vs ...float64) {
		for _, v := range vs {
			if a := math.Abs(v); a > maxabs {
				maxabs = a
			}
		}
	}
	var x, y, sx, sy, px, py float64
	pk := byte('N')
	var cmd byte
	var args []float64
	step := func(c byte, v []float64) {
		u := c &^ 0x20
		rel := c >= 'a'
		bx, by := 0.0, 0.0
		if rel {
			bx, by = x, y
		}
		switch u {
		case 'M', 'L':
			x, y = bx+v[0], by+v[1]
			if u == 'M' {
				sx, sy = x, y
			}
			pk = 'N'
		case 'H':
			x = bx + v[0]
			pk = 'N'
		case 'V':
			y = by + v[0]
			pk = 'N'
		case 'C':
			see(bx+v[0], by+v[1], bx+v[2], by+v[3])
			px, py = bx+v[2], by+v[3]
			x, y = bx+v[4], by+v[5]
			pk = 'C'
		case 'S':
			if pk == 'C' {
				see(2*x-px, 2*y-py)
			}
			see(bx+v[0], by+v[1])
			px, py = bx+v[0], by+v[1]
			x, y = bx+v[2], by+v[3]
			pk = 'C'
		case 'Q':
			see(bx+v[0], by+v[1])
			px, py = bx+v[0], by+v[1]
			x, y = bx+v[2], by+v[3]
			pk = 'Q'
		case 'T':
			if pk == 'Q' {
				px, py = 2*x-px, 2*y-py
			} else {
				px, py = x, y
			}
			see(px, py)
			x, y = bx+v[0], by+v[1]
			pk = 'Q'
		case 'A':
			see(v[0], v[1], v[2])
			x, y = bx+v[5], by+v[6]
			pk = 'N'
		}
		see(x, y)
	}
	i := 0
	for i < len(d) {
		c := d[i]
		switch {
		case c == ' ' || c == ',' || c == '\t' || c == '\n' || c == '\r':
			i++
		case arity[c&^0x20] > 0 || c == 'Z' || c == 'z':
			if c != 'e' && c != 'E' {
				cmd = c
				args = args[:0]
				if c == 'Z' || c == 'z' {
					x, y = sx, sy
					pk = 'N'
				}
				i++
				continue
			}
			return true, -1
		default:
			if cmd == 0 {
				return true, -1 // not path data: the relation says so itself
			}
			if (cmd == 'A' || cmd == 'a') && (len(args)%7 == 3 || len(args)%7 == 4) && (c == '0' || c == '1') {
				args = append(args, float64(c-'0'))
				i++
			} else {
				m := numRe.Find(d[i:])
				if m == nil {
					return true, -1
				}
				s := string(m)
				mant, exp := s, 0
				if j := strings.IndexAny(s, "eE"); j >= 0 {
					mant = s[:j]
					e, err := strconv.Atoi(s[j+1:])
					if err != nil || e > 400 || e < -400 {
						return false, -1
					}
					exp = e
				}
				frac := ""
				if j := strings.IndexByte(mant, '.'); j >= 0 {
					frac = strings.TrimRight(mant[j+1:], "0")
				}
				f, err := strconv.ParseFloat(s, 64)
				if err != nil || math.IsInf(f, 0) {
					return false, -1
				}
				if f != 0 {
					if k := len(frac) - exp; k > K {
						K = k
					}
				}
				see(f)
				args = append(args, f)
				i += len(m)
			}
			ar := arity[cmd&^0x20]
			if ar > 0 && len(args) == ar {
				step(cmd, args)
				args = args[:0]
				if cmd == 'M' {
					cmd = 'L'
				} else if cmd == 'm' {
					cmd = 'l'
				}
			}
		}
	}
	if K > 8 {
		return false, K
	}
	return maxabs*math.Pow(10, float64(K)) < 4.5e8, K
}

// ---- cases ------------------------------------------------------------------------------------

func pathDoc(paths []lib.Bytes, mode string) []byte {
	var b bytes.Buffer
	if mode == "inline" {
		b.WriteString(`<svg viewBox="0 0 9 9">`)
	} else {
		b.WriteString(`<svg xmlns="http://www.w3.org/2000/svg" viewBox="0 0 9 9">`)
	}
	for _, p := range paths {
		b.WriteString(`<path d="`)
		b.Write(p)
		b.WriteString(`"/>`)
	}
	b.WriteString(`</svg>`)
	return b.Bytes()
}

func emitPaths(tw *lib.TraceWriter, c Case, din, dout [][]byte, okDoc bool, why string) {
	if !okDoc || len(din) != len(dout) {
		if why == "" {
			why = fmt.Sprintf("%d d attributes in, %d out", len(din), len(dout))
		}
		for i, p := range din {
			fits, k := rangeInfo(p)
			tw.Emit(PathLine{Kind: "path", ID: c.ID, Sub: i, Mode: c.Mode, OK: false, Err: why, Gen: c.Gen,
				Geo: fits, Ints: fits && k == 0, In: p, Out: lib.Bytes{}})
		}
		return
	}
	for i := range din {
		fits, k := rangeInfo(din[i])
		tw.Emit(PathLine{Kind: "path", ID: c.ID, Sub: i, Mode: c.Mode, OK: true, Gen: c.Gen,
			Geo: fits, Ints: fits && k == 0, In: din[i], Out: dout[i]})
	}
}

func runCase(tw *lib.TraceWriter, c Case, raw bool) {
	src := []byte(c.Src)
	if c.Kind == "path" {
		src = pathDoc(c.Paths, c.Mode)
	} else if c.File != "" {
		b, err := os.ReadFile(c.File)
		if err != nil {
			lib.Fatal("read %s: %v", c.File, err)
		}
		src = b
	}
	m := registryFor(c.Session, c.CSS)
	for _, h := range c.History {
		minifyDoc(m, []byte(h.Src), h.Mode)
	}
	in, out, err, panicked, msg := minifyDoc(m, src, c.Mode)
	ein, din, wfin, whyin := project(in, c.Mode)
	var eout []Ev
	var dout [][]byte
	wfout, whyout := false, ""
	status := ""
	if panicked {
		status = "panic: " + msg
	} else if err != nil {
		status = "error: " + err.Error()
	} else {
		eout, dout, wfout, whyout = project(out, c.Mode)
	}
	if c.Kind == "path" {
		if !wfin {
			lib.Fatal("case %d: generated path document is not well-formed: %s", c.ID, whyin)
		}
		why := status
		if why == "" && !wfout {
			why = "output not well-formed: " + whyout
		}
		emitPaths(tw, c, din, dout, status == "" && wfout, why)
		return
	}
	if ein == nil {
		ein = []Ev{}
	}
	if eout == nil {
		eout = []Ev{}
	}
	dl := DocLine{Kind: "doc", ID: c.ID, Mode: c.Mode, CSS: c.CSS, OK: status == "", Err: status, WfIn: wfin, WfOut: wfout,
		NPath: len(din), EIn: ein, EOut: eout}
	if !wfin {
		dl.Err = "input: " + whyin
	} else if status == "" && !wfout {
		dl.Err = "output not well-formed: " + whyout
	}
	if raw && len(out) < 4000 {
		dl.Raw = string(out)
	}
	tw.Emit(dl)
	if wfin && status == "" && wfout && len(din) == len(dout) {
		emitPaths(tw, c, din, dout, true, "")
	}
}

func show(args []string) {
	c := Case{Kind: "doc", Mode: "standalone"}
	for len(args) > 0 && strings.HasPrefix(args[0], "-") && args[0] != "-" {
		switch args[0] {
		case "-inline":
			c.Mode = "inline"
		case "-css":
			c.CSS = true
		}
		args = args[1:]
	}
	var src []byte
	if len(args) == 0 || args[0] == "-" {
		src, _ = io.ReadAll(os.Stdin)
	} else {
		src, _ = os.ReadFile(args[0])
	}
	in, out, err, p, msg := minifyDoc(newM(c.CSS), src, c.Mode)
	fmt.Printf("in : %s\nout: %s\nerr=%v panic=%v %s\n", in, out, err, p, msg)
	for _, side := range [][]byte{in, out} {
		evs, ds, wf, why := project(side, c.Mode)
		fmt.Printf("wf=%v %s\n", wf, why)
		for _, e := range evs {
			fmt.Printf("  %s %s:%s %q", e.T, e.NS, e.Name, string(e.Txt))
			for _, a := range e.Attrs {
				fmt.Printf(" [%s:%s=%q]", a.NS, a.Name, string(a.Val))
			}
			fmt.Println()
		}
		for _, d := range ds {
			fmt.Printf("  d=%q fits=%v\n", d, fitsFixedPoint(d))
		}
	}
}

func main() {
	if len(os.Args) >= 2 && os.Args[1] == "-show" {
		show(os.Args[2:])
		return
	}
	if len(os.Args) < 3 {
		lib.Fatal("usage: c05 <cases.ndjson> <trace.ndjson>")
	}
	raw := os.Getenv("C05_RAW") != ""
	tw := lib.NewTraceWriter(os.Args[2])
	lib.ReadJSONLines(os.Args[1], func(line []byte) {
		var c Case
		if err := json.Unmarshal(line, &c); err != nil {
			lib.Fatal("bad case: %v", err)
		}
		if c.Mode == "" {
			c.Mode = "standalone"
		}
		runCase(tw, c, raw)
	})
	tw.Close()
}
