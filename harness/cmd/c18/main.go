// c18: drives the real minify.DataURI / minify.Mediatype for property C18, directly and
// through the CSS (url()) and HTML (URL attribute, media type attribute) minifiers.
//
// Input : ndjson cases
//   {"id":n,"fn":"DataURI"|"Mediatype","via":"direct"|"css"|"html","in":[bytes],"quote":"\""|"'"|"",
//    "reg":[{"how":"literal"|"regexp","key":"text/x","stub":"id|shrink|grow3|grow64|css|json|svg"}],
//    "regs":[[bytes]...]}            (regs = media types the registrations cover; passed through)
// Output: ndjson trace lines as described in spec/C18Trace.tla.
//
// The Go side only renders the case, calls the real public API, records what the registered
// (stub or real) minifier saw, and - for the embedded channels - finds the URL in the host
// minifier's output with a tokenizer of its own (CSS) or golang.org/x/net/html (HTML).  The
// relation is evaluated by TLC.
package main

import (
	"bytes"
	"encoding/base64"
	"encoding/json"
	"io"
	"net/url"
	"os"
	"regexp"
	"strings"

	"github.com/tdewolff/minify/v2"
	"github.com/tdewolff/minify/v2/css"
	mhtml "github.com/tdewolff/minify/v2/html"
	mjson "github.com/tdewolff/minify/v2/json"
	"github.com/tdewolff/minify/v2/svg"
	xhtml "golang.org/x/net/html"
	"verifharness/lib"
)

type Reg struct {
	How  string `json:"how"`
	Key  string `json:"key"`
	Stub string `json:"stub"`
}

type Case struct {
	ID    int         `json:"id"`
	Fn    string      `json:"fn"`
	Via   string      `json:"via"`
	In    lib.Bytes   `json:"in"`
	Quote string      `json:"quote"`
	Reg   []Reg       `json:"reg"`
	Regs  []lib.Bytes `json:"regs"`
}

type Call struct {
	In  lib.Bytes `json:"in"`
	Out lib.Bytes `json:"out"`
	Err bool      `json:"err"`
}

type Event struct {
	ID      int         `json:"id"`
	Fn      string      `json:"fn"`
	Via     string      `json:"via"`
	In      lib.Bytes   `json:"in"`
	Out     lib.Bytes   `json:"out"`
	Regs    []lib.Bytes `json:"regs"`
	Calls   []Call      `json:"calls"`
	HasRef  bool        `json:"hasref"`
	RefPay  lib.Bytes   `json:"refpay"`
	Panic   bool        `json:"panic"`
	Msg     string      `json:"msg,omitempty"`
	HostIn  string      `json:"host_in,omitempty"`
	HostOut string      `json:"host_out,omitempty"`
}

// recorder wraps a minifier function and records the outermost calls.
type recorder struct {
	depth int
	calls []Call
}

func stubFunc(kind string) func(in []byte) []byte {
	switch kind {
	case "id":
		return func(in []byte) []byte { return in }
	case "shrink": // drops every 'a'
		return func(in []byte) []byte { return bytes.ReplaceAll(in, []byte("a"), nil) }
	case "grow3":
		return func(in []byte) []byte { return append(append([]byte{}, in...), "ggg"...) }
	case "grow64":
		return func(in []byte) []byte { return append(append([]byte{}, in...), strings.Repeat("g", 64)...) }
	}
	return nil
}

func (rec *recorder) wrap(kind string) minify.MinifierFunc {
	return func(m *minify.M, w io.Writer, r io.Reader, params map[string]string) error {
		in, err := io.ReadAll(r)
		if err != nil {
			return err
		}
		in = append([]byte{}, in...)
		rec.depth++
		defer func() { rec.depth-- }()
		var out []byte
		if f := stubFunc(kind); f != nil {
			out = f(in)
		} else {
			var buf bytes.Buffer
			rd := bytes.NewReader(append([]byte{}, in...))
			switch kind {
			case "css":
				err = css.Minify(m, &buf, rd, params)
			case "json":
				err = mjson.Minify(m, &buf, rd, params)
			case "svg":
				err = svg.Minify(m, &buf, rd, params)
			default:
				lib.Fatal("unknown stub %q", kind)
			}
			out = buf.Bytes()
		}
		if rec.depth == 1 {
			rec.calls = append(rec.calls, Call{In: in, Out: append(lib.Bytes{}, out...), Err: err != nil})
		}
		if err != nil {
			return err
		}
		_, err = w.Write(out)
		return err
	}
}

func registry(c Case, rec *recorder) *minify.M {
	m := minify.New()
	for _, r := range c.Reg {
		switch r.How {
		case "literal":
			m.AddFunc(r.Key, rec.wrap(r.Stub))
		case "regexp":
			m.AddFuncRegexp(regexp.MustCompile(r.Key), rec.wrap(r.Stub))
		default:
			lib.Fatal("unknown registration %q", r.How)
		}
	}
	return m
}

// refPayload decodes the payload of a plainly spelled data URI with the Go standard library
// (second oracle for the TLA+ decoders).
func refPayload(u []byte) (bool, []byte) {
	if !bytes.HasPrefix(u, []byte("data:")) {
		return false, nil
	}
	comma := bytes.IndexByte(u, ',')
	if comma < 0 {
		return false, nil
	}
	head, raw := u[5:comma], u[comma+1:]
	if bytes.HasSuffix(head, []byte(";base64")) {
		if bytes.ContainsAny(raw, "\r\n") {
			return false, nil
		}
		p, err := base64.StdEncoding.DecodeString(string(raw))
		if err != nil {
			return false, nil
		}
		return true, p
	}
	if i := bytes.LastIndexByte(head, ';'); i >= 0 && bytes.Equal(bytes.TrimSpace(head[i+1:]), []byte("base64")) {
		return false, nil // marker spelled with blanks: left to the TLA+ side alone
	}
	p, err := url.PathUnescape(string(raw))
	if err != nil {
		return false, nil
	}
	return true, []byte(p)
}

// cssURL finds the first url(...) in CSS text: contents without the quotes.
func cssURL(s []byte) ([]byte, bool) {
	i := bytes.Index(s, []byte("url("))
	if i < 0 {
		return nil, false
	}
	s = s[i+4:]
	if len(s) > 0 && (s[0] == '"' || s[0] == '\'') {
		j := bytes.IndexByte(s[1:], s[0])
		if j < 0 {
			return nil, false
		}
		return s[1 : 1+j], true
	}
	j := bytes.IndexByte(s, ')')
	if j < 0 {
		return nil, false
	}
	return bytes.TrimSpace(s[:j]), true
}

func htmlEscapeAttr(v []byte, q string) string {
	s := strings.ReplaceAll(string(v), "&", "&amp;")
	if q == "'" {
		return strings.ReplaceAll(s, "'", "&#39;")
	}
	return strings.ReplaceAll(s, "\"", "&quot;")
}

func htmlAttr(doc []byte, tag, attr string) ([]byte, bool) {
	root, err := xhtml.Parse(bytes.NewReader(doc))
	if err != nil {
		return nil, false
	}
	var res []byte
	found := false
	var walk func(n *xhtml.Node)
	walk = func(n *xhtml.Node) {
		if n.Type == xhtml.ElementNode && n.Data == tag && !found {
			for _, a := range n.Attr {
				if a.Key == attr {
					res, found = []byte(a.Val), true
				}
			}
		}
		for ch := n.FirstChild; ch != nil; ch = ch.NextSibling {
			walk(ch)
		}
	}
	walk(root)
	return res, found
}

func run(c Case) Event {
	ev := Event{ID: c.ID, Fn: c.Fn, Via: c.Via, In: c.In, Regs: c.Regs, Calls: []Call{}, Out: lib.Bytes{}, RefPay: lib.Bytes{}}
	if ev.Regs == nil {
		ev.Regs = []lib.Bytes{}
	}
	rec := &recorder{}
	m := registry(c, rec)
	var out []byte
	ok := true
	ev.Panic, ev.Msg = lib.Guard(func() {
		arg := append(make([]byte, 0, len(c.In)), c.In...) // cap == len: an append cannot scribble behind it
		switch c.Fn + "/" + c.Via {
		case "Mediatype/direct":
			out = minify.Mediatype(arg)
		case "DataURI/direct":
			out = minify.DataURI(m, arg)
		case "DataURI/css":
			doc := []byte("a{b:url(" + c.Quote + string(arg) + c.Quote + ")}")
			ev.HostIn = string(doc)
			var buf bytes.Buffer
			if err := css.Minify(m, &buf, bytes.NewReader(doc), nil); err != nil {
				lib.Fatal("css host failed on %q: %v", doc, err)
			}
			ev.HostOut = buf.String()
			out, ok = cssURL(buf.Bytes())
		case "DataURI/html":
			q := c.Quote
			if q == "" {
				q = "\""
			}
			doc := []byte("<img src=" + q + htmlEscapeAttr(arg, q) + q + ">")
			ev.HostIn = string(doc)
			var buf bytes.Buffer
			if err := mhtml.Minify(m, &buf, bytes.NewReader(doc), nil); err != nil {
				lib.Fatal("html host failed on %q: %v", doc, err)
			}
			ev.HostOut = buf.String()
			out, ok = htmlAttr(buf.Bytes(), "img", "src")
		case "Mediatype/html":
			q := c.Quote
			if q == "" {
				q = "'"
			}
			doc := []byte("<a type=" + q + htmlEscapeAttr(arg, q) + q + ">x</a>")
			ev.HostIn = string(doc)
			var buf bytes.Buffer
			if err := mhtml.Minify(m, &buf, bytes.NewReader(doc), nil); err != nil {
				lib.Fatal("html host failed on %q: %v", doc, err)
			}
			ev.HostOut = buf.String()
			out, ok = htmlAttr(buf.Bytes(), "a", "type")
		default:
			lib.Fatal("unknown case kind %s/%s", c.Fn, c.Via)
		}
	})
	if !ok {
		lib.Fatal("case %d: cannot find the URL/attribute in the host output %q (host input %q)", c.ID, ev.HostOut, ev.HostIn)
	}
	if !ev.Panic {
		ev.Out = append(lib.Bytes{}, out...)
	}
	ev.Calls = append(ev.Calls, rec.calls...)
	if c.Fn == "DataURI" {
		var p []byte
		ev.HasRef, p = refPayload(c.In)
		ev.RefPay = append(lib.Bytes{}, p...)
	}
	return ev
}

func main() {
	if len(os.Args) < 3 {
		lib.Fatal("usage: c18 <cases.ndjson> <trace.ndjson>")
	}
	tw := lib.NewTraceWriter(os.Args[2])
	lib.ReadJSONLines(os.Args[1], func(line []byte) {
		var c Case
		if err := json.Unmarshal(line, &c); err != nil {
			lib.Fatal("bad case: %v", err)
		}
		tw.Emit(run(c))
	})
	tw.Close()
}
