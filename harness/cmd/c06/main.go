// c06: drives the real xml.Minifier for property C06 and projects input and output to
// infoset events with a reader that is independent of the code under test
// (encoding/xml in Strict mode for tokenising and well-formedness, plus a small scanner of
// the raw start tags that keeps apart literal characters and characters produced by
// references, which XML 1.0 section 3.3.3 attribute-value normalisation needs and
// encoding/xml does not expose).
//
// Input : ndjson cases {"id":n,"keep":bool,"path":0|1|2,"in":[bytes]}
// Output: two ndjson files with one line per case each:
//
//	trace (what TLC reads, see spec/C06Trace.tla): {keep, panic, err, outwf, ein:[ev], eout:[ev]}
//	meta  (what the driver script reads):          {id, keep, panic, err, inwf, inwhy, outwf, outwhy, rerr, nin, out:[bytes]}
//	ev = {k:"S"|"E"|"T"|"P"|"D"|"C", d:depth, name:[bytes], attrs:[{n:[bytes], v:[atoms]}], data:[atoms]}
//	text atoms: byte c from character data, c+1000 when the byte comes from a CDATA section
//	attribute value atoms: literal byte c, c+1000 when produced by a character/entity reference
//
// usage: c06 <cases.ndjson> <trace.ndjson> <meta.ndjson>   |   c06 -buffer <histories.ndjson> <trace.ndjson>   |      c06 -show [-keep] <file or ->   (human readable)
package main

import (
	"bytes"
	"encoding/json"
	"encoding/xml"
	"fmt"
	"io"
	"os"
	"strconv"
	"strings"
	"unicode/utf8"

	"github.com/tdewolff/minify/v2"
	mxml "github.com/tdewolff/minify/v2/xml"
	"github.com/tdewolff/parse/v2"
	pxml "github.com/tdewolff/parse/v2/xml"
	"verifharness/lib"
)

type Case struct {
	ID   int       `json:"id"`
	Keep bool      `json:"keep"`
	Path int       `json:"path"` // entry point: 0 Minifier.Minify, 1 package-level Minify (default options only), 2 registry M.Add + M.Bytes
	In   lib.Bytes `json:"in"`
}

type Attr struct {
	N lib.Bytes `json:"n"`
	V []int     `json:"v"`
}

type Ev struct {
	K     string    `json:"k"`
	D     int       `json:"d"`
	Name  lib.Bytes `json:"name"`
	Attrs []Attr    `json:"attrs"`
	Data  []int     `json:"data"`
}

type Event struct {
	ID     int       `json:"id"`
	Keep   bool      `json:"keep"`
	Panic  bool      `json:"panic"`
	Err    string    `json:"err"`
	InWF   bool      `json:"inwf"`
	InWhy  string    `json:"inwhy"`
	OutWF  bool      `json:"outwf"`
	OutWhy string    `json:"outwhy"`
	RErr   string    `json:"rerr"`
	NIn    int       `json:"nin"`
	EIn    []Ev      `json:"-"`
	EOut   []Ev      `json:"-"`
	Out    lib.Bytes `json:"out"`
	Msg    string    `json:"msg,omitempty"`
}

// TraceLine is one step of the trace specification.
type TraceLine struct {
	Keep  bool   `json:"keep"`
	Panic bool   `json:"panic"`
	Err   string `json:"err"`
	OutWF bool   `json:"outwf"`
	EIn   []Ev   `json:"ein"`
	EOut  []Ev   `json:"eout"`
}

func ints(b []byte, add int) []int {
	r := make([]int, len(b))
	for i, c := range b {
		r[i] = int(c) + add
	}
	return r
}

func isWS(c byte) bool { return c == ' ' || c == '\t' || c == '\n' || c == '\r' }

var predefined = map[string]string{"lt": "<", "gt": ">", "amp": "&", "apos": "'", "quot": "\""}

// entityDecls reads <!ENTITY name "value"> declarations of an internal DTD subset (general,
// internal entities only).  ok=false when a declaration is beyond what this reader supports
// (replacement text with markup or references): the document is then left out (stated limit).
func entityDecls(directive []byte) (map[string]string, bool) {
	ents := map[string]string{}
	s := directive
	for {
		i := bytes.Index(s, []byte("<!ENTITY"))
		if i < 0 {
			return ents, true
		}
		s = s[i+8:]
		j := 0
		for j < len(s) && isWS(s[j]) {
			j++
		}
		if j == 0 {
			return nil, false
		}
		if j < len(s) && s[j] == '%' { // parameter entity: never referenced in content
			return nil, false
		}
		k := j
		for k < len(s) && !isWS(s[k]) {
			k++
		}
		name := string(s[j:k])
		for k < len(s) && isWS(s[k]) {
			k++
		}
		if k >= len(s) || (s[k] != '"' && s[k] != '\'') {
			return nil, false // external entity
		}
		q := s[k]
		e := bytes.IndexByte(s[k+1:], q)
		if e < 0 {
			return nil, false
		}
		val := s[k+1 : k+1+e]
		if bytes.ContainsAny(val, "<&%") {
			return nil, false
		}
		if _, dup := ents[name]; !dup {
			ents[name] = string(val)
		}
		s = s[k+1+e:]
	}
}

var errNoSpace = fmt.Errorf("no whitespace before attribute")

// scanAttrs reads the attributes of one raw start tag (already accepted by encoding/xml).
func scanAttrs(raw []byte, ents map[string]string) ([]Attr, error) {
	attrs := []Attr{}
	i := 1
	for i < len(raw) && !isWS(raw[i]) && raw[i] != '>' && !(raw[i] == '/' && i+1 < len(raw) && raw[i+1] == '>') {
		i++
	}
	for {
		ws := i
		for i < len(raw) && isWS(raw[i]) {
			i++
		}
		if i >= len(raw) {
			return nil, fmt.Errorf("start tag not closed")
		}
		if raw[i] == '>' || raw[i] == '/' {
			return attrs, nil
		}
		if i == ws {
			return nil, errNoSpace // XML 1.0 [40] STag: S before every attribute (encoding/xml does not insist)
		}
		s := i
		for i < len(raw) && !isWS(raw[i]) && raw[i] != '=' {
			i++
		}
		name := raw[s:i]
		for i < len(raw) && isWS(raw[i]) {
			i++
		}
		if i >= len(raw) || raw[i] != '=' {
			return nil, fmt.Errorf("attribute without =")
		}
		i++
		for i < len(raw) && isWS(raw[i]) {
			i++
		}
		if i >= len(raw) || (raw[i] != '"' && raw[i] != '\'') {
			return nil, fmt.Errorf("unquoted attribute value")
		}
		q := raw[i]
		i++
		s = i
		for i < len(raw) && raw[i] != q {
			i++
		}
		if i >= len(raw) {
			return nil, fmt.Errorf("unterminated attribute value")
		}
		v, err := valueAtoms(raw[s:i], ents)
		if err != nil {
			return nil, err
		}
		attrs = append(attrs, Attr{N: append(lib.Bytes{}, name...), V: v})
		i++
	}
}

func valueAtoms(raw []byte, ents map[string]string) ([]int, error) {
	out := []int{}
	for i := 0; i < len(raw); i++ {
		c := raw[i]
		if c != '&' {
			out = append(out, int(c))
			continue
		}
		e := bytes.IndexByte(raw[i:], ';')
		if e < 0 {
			return nil, fmt.Errorf("bare & in attribute value")
		}
		ref := string(raw[i+1 : i+e])
		i += e
		if strings.HasPrefix(ref, "#") {
			var n uint64
			var err error
			if strings.HasPrefix(ref, "#x") {
				n, err = strconv.ParseUint(ref[2:], 16, 32)
			} else {
				n, err = strconv.ParseUint(ref[1:], 10, 32)
			}
			if err != nil {
				return nil, fmt.Errorf("bad character reference")
			}
			var buf [4]byte
			k := utf8.EncodeRune(buf[:], rune(n))
			out = append(out, ints(buf[:k], 1000)...)
		} else if p, ok := predefined[ref]; ok {
			out = append(out, ints([]byte(p), 1000)...)
		} else if v, ok := ents[ref]; ok {
			// XML 1.0 3.3.3: the replacement text is processed recursively; it holds no references here
			out = append(out, ints([]byte(v), 0)...)
		} else {
			return nil, fmt.Errorf("undeclared entity")
		}
	}
	return out, nil
}

// decoded value as encoding/xml reports it (cross-check of the two readers)
func flatten(atoms []int) []byte {
	out := []byte{}
	for i := 0; i < len(atoms); i++ {
		a := atoms[i]
		if a >= 1000 {
			out = append(out, byte(a-1000))
		} else if a == '\r' {
			out = append(out, '\n')
			if i+1 < len(atoms) && atoms[i+1] == '\n' {
				i++
			}
		} else {
			out = append(out, byte(a))
		}
	}
	return out
}

func qname(n xml.Name) lib.Bytes {
	if n.Space != "" {
		return lib.Bytes(n.Space + ":" + n.Local)
	}
	return lib.Bytes(n.Local)
}

func passthrough(label string, input io.Reader) (io.Reader, error) { return input, nil }

// project reads src; wf=false with a reason when src is not a well-formed document for this
// reader; rerr is set when the two readers disagree with each other (machinery problem).
func project(src []byte) (evs []Ev, wf bool, why string, rerr string) {
	evs = []Ev{}
	if !utf8.Valid(src) {
		return evs, false, "invalid UTF-8", ""
	}
	// internal subset entities (so that encoding/xml accepts references to them)
	ents := map[string]string{}
	{
		d := xml.NewDecoder(bytes.NewReader(src))
		d.CharsetReader = passthrough
		for {
			t, err := d.RawToken()
			if err != nil {
				break
			}
			if dir, ok := t.(xml.Directive); ok && bytes.HasPrefix(dir, []byte("DOCTYPE")) {
				m, ok := entityDecls(dir)
				if !ok {
					return evs, false, "DTD entity declarations beyond this reader", ""
				}
				ents = m
				break
			}
			if _, ok := t.(xml.StartElement); ok {
				break
			}
		}
	}
	// pass 1: encoding/xml with tag matching
	{
		d := xml.NewDecoder(bytes.NewReader(src))
		d.CharsetReader = passthrough
		d.Entity = ents
		for {
			_, err := d.Token()
			if err == io.EOF {
				break
			}
			if err != nil {
				return evs, false, "encoding/xml: " + err.Error(), ""
			}
		}
	}
	// pass 2: raw tokens with offsets
	d := xml.NewDecoder(bytes.NewReader(src))
	d.CharsetReader = passthrough
	d.Entity = ents
	depth, roots, doctypes := 0, 0, 0
	for {
		start := d.InputOffset()
		t, err := d.RawToken()
		if err == io.EOF {
			break
		}
		if err != nil {
			return evs, false, "encoding/xml raw: " + err.Error(), ""
		}
		end := d.InputOffset()
		raw := src[start:end]
		switch v := t.(type) {
		case xml.StartElement:
			if depth == 0 {
				roots++
				if roots > 1 {
					return evs, false, "more than one root element", ""
				}
			}
			attrs, err := scanAttrs(raw, ents)
			if err == errNoSpace {
				return evs, false, "no whitespace before attribute", ""
			}
			if err != nil {
				return evs, false, "", "attribute scanner: " + err.Error() + " on " + string(raw)
			}
			if len(attrs) != len(v.Attr) {
				return evs, false, "", "attribute count differs from encoding/xml on " + string(raw)
			}
			seen := map[string]bool{}
			for i, a := range attrs {
				if string(a.N) != string(qname(v.Attr[i].Name)) || string(flatten(a.V)) != v.Attr[i].Value {
					return evs, false, "", "attribute differs from encoding/xml on " + string(raw)
				}
				if seen[string(a.N)] {
					return evs, false, "duplicate attribute", ""
				}
				seen[string(a.N)] = true
			}
			evs = append(evs, Ev{K: "S", D: depth, Name: qname(v.Name), Attrs: attrs, Data: []int{}})
			depth++
		case xml.EndElement:
			depth--
			evs = append(evs, Ev{K: "E", D: depth, Name: qname(v.Name), Attrs: []Attr{}, Data: []int{}})
		case xml.CharData:
			hard := bytes.HasPrefix(raw, []byte("<![CDATA["))
			if depth == 0 {
				if hard {
					return evs, false, "CDATA outside the root element", ""
				}
				for _, c := range v {
					if !isWS(c) {
						return evs, false, "text outside the root element", ""
					}
				}
			}
			add := 0
			if hard {
				add = 1000
			}
			evs = append(evs, Ev{K: "T", D: depth, Name: lib.Bytes{}, Attrs: []Attr{}, Data: ints(v, add)})
		case xml.Comment:
			evs = append(evs, Ev{K: "C", D: depth, Name: lib.Bytes{}, Attrs: []Attr{}, Data: ints(v, 0)})
		case xml.ProcInst:
			if v.Target == "xml" && start != 0 {
				return evs, false, "XML declaration not at the start", ""
			}
			evs = append(evs, Ev{K: "P", D: depth, Name: lib.Bytes(v.Target), Attrs: []Attr{}, Data: ints(v.Inst, 0)})
		case xml.Directive:
			if !bytes.HasPrefix(v, []byte("DOCTYPE")) || depth != 0 || roots != 0 || doctypes != 0 {
				return evs, false, "directive other than one DOCTYPE in the prolog", ""
			}
			doctypes++
			evs = append(evs, Ev{K: "D", D: depth, Name: lib.Bytes{}, Attrs: []Attr{}, Data: ints(v, 0)})
		}
	}
	if roots != 1 || depth != 0 {
		return evs, false, "no root element", ""
	}
	return evs, true, "", ""
}

func runCase(c Case) Event {
	ev := Event{ID: c.ID, Keep: c.Keep, EIn: []Ev{}, EOut: []Ev{}, Out: lib.Bytes{}}
	var rerr1, rerr2 string
	ev.EIn, ev.InWF, ev.InWhy, rerr1 = project(c.In)
	var out bytes.Buffer
	var err error
	// the minifier may write into its input buffer: give it a private copy
	in := append([]byte{}, c.In...)
	ev.Panic, ev.Msg = lib.Guard(func() {
		o := &mxml.Minifier{KeepWhitespace: c.Keep}
		switch {
		case c.Path == 1 && !c.Keep:
			// the package-level entry point (default options)
			err = mxml.Minify(minify.New(), &out, bytes.NewReader(in), nil)
		case c.Path == 2:
			// through the registry: M.Add + M.Bytes with an XML media type
			m := minify.New()
			m.Add("application/xml", o)
			var b []byte
			b, err = m.Bytes("application/xml", in)
			out.Write(b)
		default:
			err = o.Minify(minify.New(), &out, bytes.NewReader(in), nil)
		}
	})
	if err != nil {
		ev.Err = err.Error()
	}
	ev.Out = append(lib.Bytes{}, out.Bytes()...)
	if ev.InWF && !ev.Panic {
		ev.EOut, ev.OutWF, ev.OutWhy, rerr2 = project(out.Bytes())
	}
	if !ev.InWF {
		ev.EIn = []Ev{} // not in the quantification; keep the line small
	}
	ev.RErr = rerr1 + rerr2
	ev.NIn = len(ev.EIn)
	return ev
}

func show(e Ev) string {
	flat := func(a []int) string {
		var sb strings.Builder
		for _, x := range a {
			if x >= 1000 {
				sb.WriteString(fmt.Sprintf("{%q}", string(rune(x-1000))))
			} else {
				sb.WriteString(strconv.Quote(string(rune(x)))[1:])
				s := sb.String()
				sb.Reset()
				sb.WriteString(s[:len(s)-1])
			}
		}
		return sb.String()
	}
	s := fmt.Sprintf("%s d=%d %s", e.K, e.D, string(e.Name))
	for _, a := range e.Attrs {
		s += fmt.Sprintf(" %s=[%s]", string(a.N), flat(a.V))
	}
	if len(e.Data) > 0 || e.K == "T" {
		s += " [" + flat(e.Data) + "]"
	}
	return s
}

// BufCase is one call history for the real xml.TokenBuffer (spec/XmlBuffer.tla): ops[j] = -1 Shift, i >= 0 Peek(i),
// over a stream of n tokens (comments <!--1--> .. <!--n-->); rets[j] = number of the token returned, 0 = ErrorToken.
type BufCase struct {
	N    int   `json:"n"`
	Ops  []int `json:"ops"`
	Rets []int `json:"rets"`
}

func tokNum(t *mxml.Token) int {
	if t.TokenType == pxml.ErrorToken {
		return 0
	}
	if t.TokenType != pxml.CommentToken || len(t.Data) < 7 {
		return -2
	}
	n, err := strconv.Atoi(string(t.Data[4 : len(t.Data)-3]))
	if err != nil {
		return -2
	}
	return n
}

func runBuffer(c BufCase) BufCase {
	var doc bytes.Buffer
	for i := 1; i <= c.N; i++ {
		fmt.Fprintf(&doc, "<!--%d-->", i)
	}
	c.Rets = []int{}
	lib.Guard(func() {
		z := parse.NewInput(bytes.NewReader(doc.Bytes()))
		tb := mxml.NewTokenBuffer(pxml.NewLexer(z))
		for _, op := range c.Ops {
			if op < 0 {
				c.Rets = append(c.Rets, tokNum(tb.Shift()))
			} else {
				c.Rets = append(c.Rets, tokNum(tb.Peek(op)))
			}
		}
	})
	return c
}

func main() {
	if len(os.Args) == 4 && os.Args[1] == "-buffer" {
		tw := lib.NewTraceWriter(os.Args[3])
		lib.ReadJSONLines(os.Args[2], func(line []byte) {
			var c BufCase
			if err := json.Unmarshal(line, &c); err != nil {
				lib.Fatal("bad case: %v", err)
			}
			tw.Emit(runBuffer(c))
		})
		tw.Close()
		return
	}
	if len(os.Args) >= 3 && os.Args[1] == "-show" {
		keep := false
		arg := os.Args[2]
		if arg == "-keep" {
			keep = true
			arg = os.Args[3]
		}
		var b []byte
		if arg == "-" {
			b, _ = io.ReadAll(os.Stdin)
		} else {
			b, _ = os.ReadFile(arg)
		}
		ev := runCase(Case{Keep: keep, In: b})
		fmt.Printf("in : %q\nout: %q\nkeep=%v panic=%v err=%q inwf=%v (%s) outwf=%v (%s) rerr=%q\n", string(b), string(ev.Out), keep, ev.Panic, ev.Err, ev.InWF, ev.InWhy, ev.OutWF, ev.OutWhy, ev.RErr)
		for _, e := range ev.EIn {
			fmt.Println("  in  ", show(e))
		}
		for _, e := range ev.EOut {
			fmt.Println("  out ", show(e))
		}
		return
	}
	if len(os.Args) < 4 {
		lib.Fatal("usage: c06 <cases.ndjson> <trace.ndjson> <meta.ndjson>")
	}
	tw := lib.NewTraceWriter(os.Args[2])
	mw := lib.NewTraceWriter(os.Args[3])
	lib.ReadJSONLines(os.Args[1], func(line []byte) {
		var c Case
		if err := json.Unmarshal(line, &c); err != nil {
			lib.Fatal("bad case: %v", err)
		}
		ev := runCase(c)
		tw.Emit(TraceLine{Keep: ev.Keep, Panic: ev.Panic, Err: ev.Err, OutWF: ev.OutWF, EIn: ev.EIn, EOut: ev.EOut})
		mw.Emit(ev)
	})
	tw.Close()
	mw.Close()
}
