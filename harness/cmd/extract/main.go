// extract: collects the input strings of the repository's own table-driven tests.
// usage: extract <dir with *_test.go> > inputs.ndjson
// Every composite literal with >= 2 elements whose first element is a string literal (the
// usual {input, expected} row) inside a _test.go file contributes its first string; rows of
// the form {"mime", "input", "expected"} contribute all leading strings but the last.
// Output: one JSON object per line {"file":..., "func":..., "strings":[...]} (all string elements of the row).
package main

import (
	"encoding/json"
	"go/ast"
	"go/parser"
	"go/token"
	"os"
	"path/filepath"
	"strconv"
	"strings"
)

type Row struct {
	File    string   `json:"file"`
	Func    string   `json:"func"`
	Strings []string `json:"strings"`
}

func strLit(e ast.Expr) (string, bool) {
	switch v := e.(type) {
	case *ast.BasicLit:
		if v.Kind == token.STRING {
			s, err := strconv.Unquote(v.Value)
			return s, err == nil
		}
	case *ast.BinaryExpr: // "a" + "b"
		if v.Op == token.ADD {
			a, ok1 := strLit(v.X)
			b, ok2 := strLit(v.Y)
			return a + b, ok1 && ok2
		}
	case *ast.ParenExpr:
		return strLit(v.X)
	}
	return "", false
}

func main() {
	dir := os.Args[1]
	files, _ := filepath.Glob(filepath.Join(dir, "*_test.go"))
	enc := json.NewEncoder(os.Stdout)
	enc.SetEscapeHTML(false)
	for _, f := range files {
		fset := token.NewFileSet()
		af, err := parser.ParseFile(fset, f, nil, 0)
		if err != nil {
			continue
		}
		for _, d := range af.Decls {
			fd, ok := d.(*ast.FuncDecl)
			if !ok || fd.Body == nil {
				continue
			}
			ast.Inspect(fd.Body, func(n ast.Node) bool {
				cl, ok := n.(*ast.CompositeLit)
				if !ok || len(cl.Elts) < 2 {
					return true
				}
				var ss []string
				for _, e := range cl.Elts {
					if kv, ok := e.(*ast.KeyValueExpr); ok {
						e = kv.Value
					}
					if s, ok := strLit(e); ok {
						ss = append(ss, s)
					}
				}
				if len(ss) >= 2 {
					enc.Encode(Row{File: strings.TrimPrefix(f, dir+"/"), Func: fd.Name.Name, Strings: ss})
					return false
				}
				return true
			})
		}
	}
}
