module verifharness

go 1.18

require (
	github.com/tdewolff/minify/v2 v2.0.0
	github.com/tdewolff/parse/v2 v2.7.23
	golang.org/x/net v0.34.0
)

replace github.com/tdewolff/minify/v2 => /repo
