// Package lib holds what every harness command shares: ndjson trace output,
// byte-sequence encoding for TLC (strings are atomic in TLA+, so text the
// specification must look inside travels as JSON arrays of byte codes), seeded
// choice, and guarded calls.
package lib

import (
	"bufio"
	"encoding/json"
	"fmt"
	"os"
	"runtime/debug"
	"strconv"
)

// Bytes is marshalled as a JSON array of ints (TLA+ sequence of byte codes).
type Bytes []byte

func (b Bytes) MarshalJSON() ([]byte, error) {
	out := make([]byte, 0, 2+4*len(b))
	out = append(out, '[')
	for i, c := range b {
		if i > 0 {
			out = append(out, ',')
		}
		out = strconv.AppendInt(out, int64(c), 10)
	}
	out = append(out, ']')
	return out, nil
}

func (b *Bytes) UnmarshalJSON(data []byte) error {
	var xs []int
	if err := json.Unmarshal(data, &xs); err != nil {
		// also accept a plain JSON string
		var s string
		if err2 := json.Unmarshal(data, &s); err2 != nil {
			return err
		}
		*b = []byte(s)
		return nil
	}
	r := make([]byte, len(xs))
	for i, x := range xs {
		r[i] = byte(x)
	}
	*b = r
	return nil
}

// TraceWriter writes one JSON object per line.
type TraceWriter struct {
	f *os.File
	w *bufio.Writer
	N int
}

func NewTraceWriter(path string) *TraceWriter {
	f, err := os.Create(path)
	if err != nil {
		Fatal("create trace: %v", err)
	}
	return &TraceWriter{f: f, w: bufio.NewWriterSize(f, 1<<20)}
}

func (t *TraceWriter) Emit(v interface{}) {
	b, err := json.Marshal(v)
	if err != nil {
		Fatal("marshal: %v", err)
	}
	t.w.Write(b)
	t.w.WriteByte('\n')
	t.N++
}

func (t *TraceWriter) Close() {
	t.w.Flush()
	t.f.Close()
}

// Fatal reports an infrastructure problem (exit 2: never a verdict).
func Fatal(format string, a ...interface{}) {
	fmt.Fprintf(os.Stderr, "harness: "+format+"\n", a...)
	os.Exit(2)
}

// Guard runs f and reports whether it panicked (with the panic text).
func Guard(f func()) (panicked bool, msg string) {
	defer func() {
		if r := recover(); r != nil {
			panicked = true
			msg = fmt.Sprintf("%v\n%s", r, debug.Stack())
			if len(msg) > 600 {
				msg = msg[:600]
			}
		}
	}()
	f()
	return
}

// ReadJSONLines reads an ndjson file into out (pointer to slice handled by caller via callback).
func ReadJSONLines(path string, each func(line []byte)) {
	f, err := os.Open(path)
	if err != nil {
		Fatal("open %s: %v", path, err)
	}
	defer f.Close()
	sc := bufio.NewScanner(f)
	sc.Buffer(make([]byte, 1<<20), 1<<28)
	for sc.Scan() {
		if len(sc.Bytes()) == 0 {
			continue
		}
		b := make([]byte, len(sc.Bytes()))
		copy(b, sc.Bytes())
		each(b)
	}
}
