SPECIFICATION Spec
CONSTANTS
 Input <- In2
 MaxOut = 2
 PieceLen = 2
 MaxBuf = 3
 Modes <- ModesH
 PatchCL = TRUE
 Mut = "extfirst"
 RecordHist = FALSE
 Monitor = TRUE
 FullProduct = FALSE
INVARIANTS ChunkingInvariance PassThrough CloseWaits ContentLengthGone SelectionRule FaultSurfaces NoSilentTruncation NotExistSurfaces NoPartialInput MonitorQuiet MonitorFinal
PROPERTIES NoWriteAfterClose CloseReturned
