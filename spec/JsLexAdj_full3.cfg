SPECIFICATION Spec
CONSTANTS MaxLen = 3
Core = FALSE
INVARIANTS SpacedLexesBack FusesAgree AllJudged
CHECK_DEADLOCK FALSE
