SPECIFICATION Spec
CONSTANTS MaxLen = 2
Alphabet <- Alpha11
Kinds <- KindsQuick
INVARIANTS DesignOK DesignIdem CodecOK ReflexiveOK AsIsOKOutsideKnown
CHECK_DEADLOCK FALSE
