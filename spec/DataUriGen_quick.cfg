SPECIFICATION Spec
CONSTANTS MaxLen = 3
Alphabet <- Alpha11
Kinds <- KindsQuick
INVARIANTS DesignOK DesignIdem CodecOK ReflexiveOK AsIsOKOutsideKnown
CHECK_DEADLOCK FALSE
