SPECIFICATION Spec
CONSTANTS MaxLen = 5
Emit = TRUE
Vocab <- VocabQuick
INVARIANTS TypeOK DesignRefinesInfoset EmitCase
CHECK_DEADLOCK FALSE
