SPECIFICATION Spec
CONSTANTS MaxLen = 5
EmitMod = 1
Prefix <- PrefixNone
Emit = TRUE
Vocab <- VocabQuick
INVARIANTS TypeOK DesignRefinesInfoset EmitCase
CHECK_DEADLOCK FALSE
