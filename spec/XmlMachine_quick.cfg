SPECIFICATION Spec
CONSTANTS MaxLen = 5
EmitMod = 1
Emit = TRUE
Vocab <- VocabQuick
INVARIANTS TypeOK DesignRefinesInfoset EmitCase
CHECK_DEADLOCK FALSE
