SPECIFICATION ESpec
CONSTANTS MaxRegs = 1
MaxSlots = 3
INVARIANTS ETypeOK NoLeak OneEnterPerServedSlot FailStops AbsentPassesThrough EEmitAll
CHECK_DEADLOCK FALSE
