SPECIFICATION ESpec
CONSTANTS MaxRegs = 1
MaxSlots = 3
INVARIANTS ETypeOK NoLeak UnconsumedTypeDoesNotLeak OneEnterPerServedSlot FailStops AbsentPassesThrough EEmitAll
CHECK_DEADLOCK FALSE
