SPECIFICATION Spec
CONSTANTS
  NG = 2
  MaxCalls = 1
  ShapeNames <- InlineShapes
  AllowReg = FALSE
  CopyOpts = FALSE
  TightCap = TRUE
  CopyArgs = TRUE
  HtmlDep = FALSE
  LazyInit = FALSE
VIEW View
INVARIANT SharedReadOnly
CHECK_DEADLOCK FALSE
