SPECIFICATION Spec
CONSTANTS MaxOps = 1
Ops2 <- NoOps
InjectBytes <- InjFew
Depths <- DepthsFew
AllowInPlace = FALSE
SeedsUsed <- ShortSeeds
Precs <- PrecsFew
INVARIANTS TypeOK ErrGivesOriginalInv
CHECK_DEADLOCK FALSE
