SPECIFICATION Spec
CONSTANTS
  NG = 2
  MaxCalls = 1
  ShapeNames <- CssOnly
  AllowReg = FALSE
  CopyOpts = TRUE
  TightCap = FALSE
  CopyArgs = TRUE
  HtmlDep = FALSE
  LazyInit = FALSE
  PoolBuf = FALSE
VIEW View
INVARIANT Deterministic
CHECK_DEADLOCK FALSE
