------------------------------ MODULE TablesMC ------------------------------
(* Design-level self-check of the standards transcription (Tables.tla) and of the text
   operators (TableText.tla) used by the C17 audit.  TLC enumerates every entry of every
   standards table plus a sample of code points (one initial state each) and checks the
   consistency invariants below; the ASSUMEs are the global (set-level) facts and the
   40-element performance tests of the recursive operators.  It also writes the probe
   universe (all element / attribute / unit / colour names of the standards' side) to the
   file named by the environment variable C17_UNIVERSE, which is where the generated
   black-box probes of tools/props/c17.py come from.
   A failure here is a defect of the verification machinery (exit 2), never a verdict. *)
EXTENDS TableText, FiniteSets, Json, IOUtils

VARIABLE e
AllUnits == LengthUnits \cup AngleUnits \cup OtherUnits
CodePoints == (0..2304) \cup (55200..55400) \cup (57300..57400) \cup (65400..65700)
              \cup (1114000..1114111) \cup {8364, 119964, 128512}
Entries ==
     [k : {"elem"}, s : AllElements, i : {0}] \cup [k : {"attr"}, s : AllAttrs, i : {0}]
  \cup [k : {"colour"}, s : ColourNames, i : {0}] \cup [k : {"unit"}, s : AllUnits, i : {0}]
  \cup [k : {"mime"}, s : JsMimeTypes, i : {0}] \cup [k : {"cp"}, s : {""}, i : CodePoints]
Init == e \in Entries
Next == UNCHANGED e
Spec == Init /\ [][Next]_e

AllDisplays == WsInsignificantDisplays \cup {"inline", "inline-block", "ruby", "ruby-text", "contents"}

ElemOK == e.k = "elem" =>
  /\ Display(e.s) \in AllDisplays
  /\ (e.s \in VoidElements => e.s \notin RawOKElements /\ e.s \notin PreformattedElements)   \* a void element has no content
  /\ (e.s \in RawTextElements \cup EscapableRawTextElements => Display(e.s) \in {"none", "inline-block"})
  /\ (BlockOKTag(e.s) <=> Display(e.s) \notin {"inline", "inline-block", "ruby", "ruby-text", "contents"})
AttrOK == e.k = "attr" => ~(e.s \in BooleanAttrs /\ e.s \in UrlAttrs)
Hex2(n) == IF n < 16 THEN <<48>> \o DigitsOf(n, 16, <<>>) ELSE DigitsOf(n, 16, <<>>)
ColourOK == e.k = "colour" =>
  LET c == CssColours[e.s] IN
  /\ Len(c) = 3 /\ \A j \in 1..3 : c[j] \in 0..255
  /\ HexRGBA(<<35>> \o Hex2(c[1]) \o Hex2(c[2]) \o Hex2(c[3])) = c \o <<255>>
  /\ NamedRGBA(e.s) = c \o <<255>>
UnitOK == e.k = "unit" => (ZeroUnitOKUnit(e.s) <=> e.s \notin OtherUnits)
MimeOK == e.k = "mime" => e.s \in JsMimeTypes
Surrogate(cp) == cp \in 55296..57343
CpOK == e.k = "cp" =>
  /\ (~Surrogate(e.i) => U8Decode(U8Encode(e.i)) = <<e.i>>)
  /\ (Surrogate(e.i) => U8Decode(U8Encode(e.i)) = <<-1>>)
  /\ DecValue(DigitsOf(e.i, 10, <<>>)) = e.i
  /\ HexValue(DigitsOf(e.i, 16, <<>>)) = e.i
  /\ IsDecRef(<<38, 35>> \o DigitsOf(e.i, 10, <<>>) \o <<59>>)
  /\ IsHexRef(<<38, 35, 120>> \o DigitsOf(e.i, 16, <<>>) \o <<59>>)
  /\ ~IsNamedRef(<<38, 35>> \o DigitsOf(e.i, 10, <<>>) \o <<59>>)
  /\ (e.i \in 1..127 \/ e.i \in 160..55295 => HtmlNumericCP(e.i) = e.i)
  /\ (e.i = 0 \/ Surrogate(e.i) => HtmlNumericCP(e.i) = 65533)
  /\ (e.i \in 128..159 => HtmlNumericCP(e.i) \notin 128..159 \/ e.i \in {129, 141, 143, 144, 157})

(* global facts of the transcription *)
ASSUME VoidElements \subseteq AllElements
ASSUME RawOKElements \subseteq AllElements
ASSUME PreformattedElements \subseteq AllElements
ASSUME DOMAIN HtmlDisplay \subseteq AllElements
ASSUME CurrentElements \cap ObsoleteElements = {}
ASSUME BooleanAttrs \subseteq AllAttrs
ASSUME UrlAttrs \subseteq AllAttrs
ASSUME BooleanAttrs \cap UrlAttrs = {}
ASSUME Cardinality(ColourNames) = 148
ASSUME \A p \in GreyPairs : p[1] \in ColourNames /\ p[2] \in ColourNames /\ CssColours[p[1]] = CssColours[p[2]]
ASSUME CssColours["aqua"] = CssColours["cyan"] /\ CssColours["fuchsia"] = CssColours["magenta"]
ASSUME LengthUnits \cap AngleUnits = {} /\ (LengthUnits \cup AngleUnits) \cap OtherUnits = {}
ASSUME Cardinality(JsMimeTypes) = 16
ASSUME SvgColourAttrs \cap SvgOtherAttrs = {}
ASSUME DOMAIN XmlPredefined = {"lt", "gt", "amp", "apos", "quot"}
ASSUME Cardinality(DOMAIN NumericRefC1) = 27

(* performance / correctness tests of every recursive or folding operator on 40-element inputs *)
A40 == [j \in 1..40 |-> 65]
ASSUME U8Decode(A40) = A40
ASSUME U8Decode([j \in 1..40 |-> IF j % 2 = 1 THEN 195 ELSE 169]) = [j \in 1..20 |-> 233]
ASSUME U8Decode(<<226, 130, 172, 240, 159, 152, 128>>) = <<8364, 128512>>
ASSUME U8Decode(<<192, 128>>) = <<-1>> /\ U8Decode(<<65, 237, 160, 128>>) = <<65, -1>> /\ U8Decode(<<65, 200>>) = <<65, -1>>
ASSUME DecValue([j \in 1..40 |-> 57]) > MaxCP
ASSUME HexValue([j \in 1..40 |-> 102]) > MaxCP
ASSUME DecValue(<<56, 55, 50, 54>>) = 8726 /\ HexValue(<<50, 50, 49, 54>>) = 8726 /\ HexValue(<<70, 102>>) = 255
ASSUME TrimWs([j \in 1..40 |-> 32]) = <<>>
ASSUME TrimWs([j \in 1..40 |-> IF j \in 15..25 THEN 65 ELSE 32]) = [j \in 1..11 |-> 65]
ASSUME Len(DigitsOf(MaxCP, 10, <<>>)) = 7
ASSUME IsNamedRef(<<38>> \o A40 \o <<59>>) /\ ~IsNamedRef(<<38>> \o A40) /\ IsUnterminatedRef(<<38>> \o A40)
ASSUME HexRGBA(<<35, 102, 48, 48>>) = <<255, 0, 0, 255>> /\ HexRGBA(<<35, 70, 70, 48, 48, 48, 48>>) = <<255, 0, 0, 255>>
ASSUME HexRGBA(<<35, 102, 48>>) = NoColour /\ HexRGBA(<<35, 103, 48, 48>>) = NoColour /\ NamedRGBA("lightslateblue") = NoColour

(* the probe universe (GEN stage): written once, when TLC evaluates the assumptions *)
Universe == [ elements |-> AllElements, void |-> VoidElements, attrs |-> AllAttrs,
              booleans |-> BooleanAttrs, urls |-> UrlAttrs,
              units |-> AllUnits, colours |-> ColourNames, colourrgb |-> CssColours, mimes |-> JsMimeTypes,
              svgattrs |-> SvgColourAttrs \cup SvgOtherAttrs, xmlentities |-> DOMAIN XmlPredefined ]
ASSUME IF "C17_UNIVERSE" \in DOMAIN IOEnv THEN JsonSerialize(IOEnv.C17_UNIVERSE, Universe) ELSE TRUE
=============================================================================
