SPECIFICATION Spec
CONSTANTS MaxLen = 2
BitSets <- BitsAll
Fault = "wsblock"
INVARIANTS Refines
CHECK_DEADLOCK FALSE
