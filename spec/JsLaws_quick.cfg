SPECIFICATION Spec
CONSTANTS NOps = 4
EnvKinds = {1, 3, 5, 6, 8, 10}
INVARIANT LawHolds
CHECK_DEADLOCK FALSE
