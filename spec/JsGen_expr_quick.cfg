SPECIFICATION Spec
CONSTANTS MaxSym = 6
MaxS = 0
MaxE = 2
MaxList = 1
Enabled <- ExprNames
INVARIANTS WellFormed Bounded Emit
CHECK_DEADLOCK FALSE
