------------------------------ MODULE ConcNeg ------------------------------
(* Negative controls for Conc (C13): with one design switch flipped, or with registration running
   concurrently with use (documented as unsupported, outside the property), TLC must find the
   violation named in the configuration.  tools/props/c13.py fails with an infrastructure error
   if one of them passes - the invariants of Conc would have lost their teeth. *)
(* ConcNeg_cmdin_*: CopyArgs = FALSE is the cmdMinifier before fix fd040d4 (the struct copy shared the argument
   array); it stays here as a negative control.  ConcNeg_cmdin_fixed = the code as it is now. *)
EXTENDS Conc
RegShapes == {"htmlS", "add"}
InlineShapes == {"cssi", "css"}
SvgOrder == {"htmlS", "svg0"}
CssOnly == {"css"}
CmdIn == {"cmdin"}
HtmlOnly == {"html0"}
\* ConcNeg_lazy_*: two goroutines whose FIRST js minification (direct or below html) coincides; ConcNeg_lazy_warm:
\* one goroutine, two calls - results stay right (Deterministic holds), which is why a reference call made first hides it
JsCold == {"js", "htmlC"}
\* ConcNeg_pool_*: a call that fails after output, then (or beside) a well-formed one
FailThenGood == {"jsonF", "htmlF", "css"}
=============================================================================
