----------------------------- MODULE C09Trace -----------------------------
(* Trace validation for C09.  One line = one two-pass record of the real code
   (harness/cmd/c09): input -> Minify -> independent judgement of input and output ->
   Minify again.  See Closure.tla for the pipeline machine and the property (PipeInv).

     [id, lang, opts, origin, acc1, ran2, acc2,
      goals : <<[g, bad0, bad1]>>            judgements of the independent parsers (V8, acorn,
                                             encoding/json, encoding/xml, x/net/html parts, CSS tokenizer,
                                             Go path recogniser), counts of rejected parts
      paths0, paths1 : short path data (bytes) of input / output, pv0, pv1 : the Go recogniser's verdicts
      in, out : bytes of small JavaScript programs (adjacency programs), adj = 1 for those
      v8s0, v8s1, v8m0, v8m1 : V8's verdict on them (script / module goal), 1 valid 0 invalid -1 not judged]

   What TLC decides here, per record:
     * the pipeline invariant of Closure on the recorded events,
     * byte-level judgements written in TLA+: the SVG path grammar (C09Path) on every short path,
       the ECMAScript lexical grammar (JsLexAdj.Lex) on small JS programs - each is one more goal,
     * the TLA+ judgements agree with the independent implementations where both exist
       (a disagreement is reported as "oracle" and is a machinery error, never a verdict). *)
EXTENDS C09Path, TraceIO, FiniteSets
VARIABLE l
Init0 == l = 1
Next0 == l <= N /\ l' = l + 1
TSpec == Init0 /\ [][Next0]_l

Cl == INSTANCE Closure WITH D <- 1, M <- <<0>>, V <- {}, d0 <- 1, d <- 1, pass <- 0
Lx == INSTANCE JsLexAdj WITH MaxLen <- 0, Core <- FALSE, seq <- <<>>, st <- "E", depth <- 0, lock <- 0

Count(bs) == Cardinality({i \in DOMAIN bs : ~bs[i]})
PathGoal(e) == [g |-> "tla.svg.path",
                bad0 |-> Cardinality({i \in DOMAIN e.paths0 : ~PathValid(e.paths0[i])}),
                bad1 |-> Cardinality({i \in DOMAIN e.paths1 : ~PathValid(e.paths1[i])})]
PathOracle(e) == /\ \A i \in DOMAIN e.paths0 : PathValid(e.paths0[i]) = e.pv0[i]
                 /\ \A i \in DOMAIN e.paths1 : PathValid(e.paths1[i]) = e.pv1[i]

B2I(b) == IF b THEN 0 ELSE 1
\* (t0, t1 are bound by a quantifier over a singleton set so that TLC lexes each text once)
LexGoals(t0, t1) ==
  IF Lx!LexJudged(t0) /\ Lx!LexJudged(t1)
  THEN << [g |-> "tla.lex.script", bad0 |-> B2I(Lx!LexValidScript(t0)), bad1 |-> B2I(Lx!LexValidScript(t1))],
          [g |-> "tla.lex.module", bad0 |-> B2I(Lx!LexValidModule(t0)), bad1 |-> B2I(Lx!LexValidModule(t1))] >>
  ELSE <<>>
\* lexical validity is necessary for syntactic validity: V8 accepting what the TLA+ lexer rejects is a machinery error
LexOracle(e, t0, t1) ==
  /\ (Lx!LexJudged(t0) /\ e.v8s0 = 1) => Lx!LexValidScript(t0)
  /\ (Lx!LexJudged(t0) /\ e.v8m0 = 1) => Lx!LexValidModule(t0)
  /\ (Lx!LexJudged(t1) /\ e.v8s1 = 1) => Lx!LexValidScript(t1)
  /\ (Lx!LexJudged(t1) /\ e.v8m1 = 1) => Lx!LexValidModule(t1)

Events(e, gs) ==
  <<[k |-> "min1", ok |-> e.acc1]>> \o
  (IF e.acc1 THEN <<[k |-> "judge", ok |-> \A i \in DOMAIN gs : Cl!GoalOK(gs[i])]>> \o
                  (IF e.ran2 THEN <<[k |-> "min2", ok |-> e.acc2]>> ELSE <<>>)
   ELSE <<>>)

Judge(e, gs) ==
  \E ps \in {Cl!PipeStates(Events(e, gs))} :
     /\ (ps[Len(ps)].stage \in Cl!Terminal \/ Reject(l, "pipeline did not terminate"))
     \* name the judgement(s) behind a Valid1 rejection
     /\ (~e.acc1 \/ \A i \in DOMAIN gs : Cl!GoalOK(gs[i]) \/ Reject(l, gs[i].g))
     \* the property: PipeInv in every state the record drives the pipeline through
     /\ ((\A i \in DOMAIN ps : ps[i].stage \notin {"Judged", "Out2", "Err2"} \/ ps[i].valid) \/ Reject(l, "Valid1"))
     /\ ((\A i \in DOMAIN ps : ps[i].stage \notin {"Out2", "Err2"} \/ ps[i].acc2) \/ Reject(l, "Accepted2"))
     /\ ((\A i \in DOMAIN ps : Cl!PipeInv(ps[i])) \/ Reject(l, "PipeInv"))

LineOK(e) ==
  IF e.adj = 1 /\ e.acc1 THEN
     \E t0 \in {Lx!Lex(e.in)}, t1 \in {Lx!Lex(e.out)} :
        /\ (LexOracle(e, t0, t1) \/ Reject(l, "oracle: V8 accepts what the TLA+ lexer rejects"))
        /\ \E gs \in {e.goals \o LexGoals(t0, t1)} : Judge(e, gs)
  ELSE IF e.lang = "svg" /\ e.acc1 /\ (\E i \in DOMAIN e.goals : e.goals[i].g = "svg.path") THEN
     /\ (PathOracle(e) \/ Reject(l, "oracle: TLA+ and Go path recognisers disagree"))
     /\ \E gs \in {e.goals \o <<PathGoal(e)>>} : Judge(e, gs)
  ELSE Judge(e, e.goals)
Conforms == l <= N => LineOK(Trace[l])
=============================================================================
