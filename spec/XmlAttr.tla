----------------------------- MODULE XmlAttr -----------------------------
(* Design model (level D) of the attribute branch of /repo/xml/xml.go (AttributeToken case) together
   with what the lexer does to a quoted value, checked against the attribute clause of XmlInfoset
   ("same attributes with the same normalized values", "the minified document is well-formed"),
   and generator of the attribute values that are run through the real code.

   A value is a quote character q (34 or 39) and a sequence of items:
     c          literal byte c             1000 + c   decimal reference &#c;
     2000 + c   named reference (&lt; &gt; &amp; &apos; &quot;)      3000 + c   hex reference &#xc; *)
EXTENDS XmlInfoset, TLC, Json
CONSTANTS MaxLen, Alphabet, Emit, EmitMod
VARIABLES q, val, phase, oq, oval
vars == <<q, val, phase, oq, oval>>

IsRef(x) == x >= 1000
IsNumRef(x) == (x >= 1000 /\ x < 2000) \/ x >= 3000
IsAlnum(c) == (c >= 48 /\ c <= 57) \/ (c >= 65 /\ c <= 90) \/ (c >= 97 /\ c <= 122)
\* items as the atoms of XmlInfoset: literal c, or c + 1000 when produced by a reference
Atoms(v) == [i \in 1..Len(v) |-> IF v[i] < 1000 THEN v[i] ELSE (v[i] % 1000) + 1000]

Init == /\ q \in {34, 39} /\ val = <<>> /\ phase = "gen" /\ oq = 0 /\ oval = <<>>
Gen(x) == /\ phase = "gen" /\ Len(val) < MaxLen
          /\ x # q                               \* the delimiter cannot occur literally (well-formedness)
          /\ val' = Append(val, x) /\ UNCHANGED <<q, phase, oq, oval>>

\* lexer (parse/v2/xml shiftAttribute): literal tab/LF/CR inside the quotes are overwritten with a blank
Lexed == [i \in 1..Len(val) |-> IF val[i] \in {9, 10, 13} THEN 32 ELSE val[i]]
\* parse.ReplaceEntities(val, EntitiesMap = {apos, gt, quot}, AttrRevEntitiesMap): named references of the
\* map and numeric references below 128 become the byte itself, except the bytes of the reverse map
\* (fix 83190a6), which are written as  &lt;  &amp;  &#9;  &#10;  &#13;
Decode(v) ==
  [i \in 1..Len(v) |->
     LET x == v[i] c == x % 1000
     IN IF x >= 2000 /\ x < 3000 THEN (IF c \in {39, 62, 34} THEN c ELSE x)
        ELSE IF IsNumRef(x) /\ c < 128
             THEN (IF c \in {60, 38} THEN 2000 + c ELSE IF c \in {9, 10, 13} THEN 1000 + c ELSE c)
             ELSE x]
\* xml.EscapeAttrVal: the quote that needs fewer escapes; the chosen quote is written &#34; / &#39;
Count(v, c) == Cardinality({i \in 1..Len(v) : v[i] = c})
Requote(v) ==
  LET qq == IF Count(v, 34) > Count(v, 39) THEN 39 ELSE 34
  IN [q |-> qq, v |-> [i \in 1..Len(v) |-> IF v[i] = qq THEN 1000 + qq ELSE v[i]]]
Rewrite ==
  /\ phase = "gen" /\ phase' = "done"
  /\ IF q = 39 THEN oq' = 39 /\ oval' = Lexed           \* not double-quoted: written verbatim
     ELSE LET r == Requote(Decode(Lexed)) IN oq' = r.q /\ oval' = r.v
  /\ UNCHANGED <<q, val>>
Next == (\E x \in Alphabet : Gen(x)) \/ Rewrite
Spec == Init /\ [][Next]_vars

---------------------------------------------------------------------------------------------
\* XML 1.0 [10] AttValue: no literal '<', no '&' that does not start a reference, no literal delimiter
WellFormed(qq, v) == \A i \in 1..Len(v) : v[i] \notin {60, 38, qq}
SameValue == AttrNorm(Atoms(val)) = AttrNorm(Atoms(oval))
Holds == WellFormed(oq, oval) /\ SameValue

(* Constructs on which the real code is known to break the property (known/C06.txt). *)
\* (K1-K3 - numeric references to < & tab LF CR written literally - were excepted here until fix 83190a6)
\* K4: a literal CR LF pair (one line break, XML 1.0 2.11) is written as two blanks
KnownCrLf == \E i \in 1..Len(val) - 1 : val[i] = 13 /\ val[i+1] = 10
Known == KnownCrLf

DesignRefinesInfoset == phase = "done" => (Holds \/ Known)
TypeOK == phase \in {"gen", "done"} /\ Len(val) <= MaxLen

Digits(n) == IF n >= 100 THEN <<48 + (n \div 100), 48 + ((n \div 10) % 10), 48 + (n % 10)>>
             ELSE IF n >= 10 THEN <<48 + (n \div 10), 48 + (n % 10)>> ELSE <<48 + n>>
HexDigit(d) == IF d < 10 THEN 48 + d ELSE 87 + d
Hex(n) == IF n >= 16 THEN <<HexDigit(n \div 16), HexDigit(n % 16)>> ELSE <<HexDigit(n)>>
Named(c) == CASE c = 60 -> <<108, 116>> [] c = 62 -> <<103, 116>> [] c = 38 -> <<97, 109, 112>>
              [] c = 39 -> <<97, 112, 111, 115>> [] c = 34 -> <<113, 117, 111, 116>>
RenderItem(x) == IF x < 1000 THEN <<x>>
                 ELSE IF x < 2000 THEN <<38, 35>> \o Digits(x - 1000) \o <<59>>
                 ELSE IF x < 3000 THEN <<38>> \o Named(x - 2000) \o <<59>>
                 ELSE <<38, 35, 120>> \o Hex(x - 3000) \o <<59>>
RenderVal(qq, v) == <<qq>> \o FoldLeft(LAMBDA acc, x : acc \o RenderItem(x), <<>>, v) \o <<qq>>
Doc(qq, v) == <<60, 97, 32, 98, 61>> \o RenderVal(qq, v) \o <<47, 62>>          \* <a b=...  />
\* (EmitMod > 1: of the longest values only a deterministic 1/EmitMod sample is handed out)
EmitCase == (Emit /\ phase = "done" /\ (Len(val) < MaxLen \/ FoldLeft(LAMBDA a, b : a + b, 0, val) % EmitMod = 0)) =>
              PrintT(ToJson([keep |-> FALSE, in |-> Doc(q, val), out |-> Doc(oq, oval), known |-> Known, holds |-> Holds]))

\*  a blank " ' > tab LF CR | &lt; &amp; &gt; &quot; &apos; | &#60; &#38; &#9; &#10; &#13; &#39; &#34; | &#x41; &#x26;
AlphaQuick == {97, 32, 34, 39, 62, 9, 10, 13} \cup {2060, 2038, 2062, 2034, 2039}
              \cup {1060, 1038, 1009, 1010, 1013, 1039, 1034} \cup {3065, 3038}
AlphaThorough == AlphaQuick \cup {35, 59, 1035, 1097, 3010, 3060}
=============================================================================
