SPECIFICATION Spec
CONSTANTS MaxLen = 5
Alphabet <- Alpha5D
Precs <- PrecsQ
OldCarry = TRUE
INVARIANTS NoPanic SliceInside DoneOK
CHECK_DEADLOCK FALSE
