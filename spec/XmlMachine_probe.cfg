SPECIFICATION Spec
CONSTANTS MaxLen = 5
EmitMod = 1
Emit = FALSE
Vocab <- VocabQuick
INVARIANTS TypeOK DesignStrict
CHECK_DEADLOCK FALSE
