\* development aid, not run by the check: WITHOUT the Known exceptions the design model violates XmlEq;
\* TLC stops at the first design-level counterexample (<a> </a> under KeepWhitespace), which shows that the
\* exceptions of DesignRefinesInfoset are not vacuous.
SPECIFICATION Spec
CONSTANTS MaxLen = 5
EmitMod = 1
Prefix <- PrefixNone
Emit = FALSE
Vocab <- VocabQuick
INVARIANTS TypeOK DesignStrict
CHECK_DEADLOCK FALSE
