SPECIFICATION Spec
CONSTANTS MaxLen = 5
Emit = FALSE
Vocab <- VocabQuick
INVARIANTS TypeOK DesignStrict
CHECK_DEADLOCK FALSE
