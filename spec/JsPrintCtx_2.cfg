SPECIFICATION Spec
CONSTANTS MaxD = 2
INVARIANT TypeOK
CHECK_DEADLOCK FALSE
