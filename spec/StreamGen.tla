----------------------------- MODULE StreamGen -----------------------------
(* Generator for C12/C14 (spec -> code).  TLC enumerates
     - every initial state of Stream (mode x chunking x fault points x gate x header choices):
       these are exactly the choices the harness controls in a real session;
     - Cuts(1..n) for n <= MaxN: every partition of an n-byte input into consecutive chunks,
       empty chunks included (at most one in a row), for the exhaustive chunking of short inputs.
   The driver renders abstract bytes as segments of real inputs. *)
EXTENDS Stream
CONSTANT MaxN
SizesOf(c) == [k \in 1..Len(c) |-> Len(c[k])]
ASSUME \A n \in 1..MaxN : PrintT(<<"CUTS", n, ToJson({SizesOf(c) : c \in Cuts([k \in 1..n |-> k], TRUE)})>>)
=============================================================================
