----------------------------- MODULE SvgCallSeq -----------------------------
(* C05 - "standalone and inline (embedded in HTML) mode": an application registers ONE
   *svg.Minifier on ONE registry and then minifies documents of both kinds in any order (inline SVG
   arrives through html.Minifier with params inline=1).  The abstract behaviour: the options of the
   registered instance are configuration, a call works on a private copy (effective inline =
   configured Inline or the call's own parameter), so the result of a call depends on its own
   arguments only - the relation of C05Trace per call is independent of the calls before it.

   TLC enumerates every call sequence over {standalone, inline} up to MaxLen (the order of calls is a
   generator dimension); the driver performs each sequence on a fresh registry with one registered
   instance and C05Trace judges every call with the unchanged per-call relation.
   Encoding: 1 = standalone call, 2 = inline call.                                     *)
EXTENDS Integers, Sequences, TLC, Json
CONSTANTS MaxLen
VARIABLES calls, registered, effective
vars == <<calls, registered, effective>>

Configured == [inline |-> FALSE]                       \* &svg.Minifier{}
Init == calls = <<>> /\ registered = Configured /\ effective = Configured
Call(mode) ==
  /\ Len(calls) < MaxLen
  /\ calls' = Append(calls, mode)
  /\ effective' = [inline |-> registered.inline \/ mode = 2]     \* the private copy of this call
  /\ registered' = registered                                      \* never written
Next == \E mode \in {1, 2} : Call(mode)
Spec == Init /\ [][Next]_vars

\* a call sees the mode it was made in, whatever was called before
OwnMode == calls # <<>> => effective.inline = (calls[Len(calls)] = 2)
Stateless == registered = Configured
Emit == calls # <<>> => PrintT(ToJson(calls))
=============================================================================
