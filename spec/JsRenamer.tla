----------------------------- MODULE JsRenamer -----------------------------
(* Design model (level D) of identifier shortening in /repo/js/vars.go (renameScope, isReserved,
   getName) and of the order in which /repo/js/js.go calls it, checked against the abstract scoping
   relation of JsScope (level A) for ALL small scope trees.  It is also the generator of the scope
   trees that are rendered to programs and run through the real minifier.

   A tree is a sequence of units below the top level.  A unit is one scope *as the minifier sees it*:
     kind "F"  a function: parameters ps (ordered) and body declarations ls (let) in ONE minifier scope
     kind "B"  a block: lexical declarations ls, and vs = names declared with `var` inside the block
               (they bind in the nearest enclosing function or at the top level, and the parser
               registers them as *undeclared* in every block in between)
     par       index of the parent unit, 0 = top level;   us = names referenced in the unit
     w         (F only) the function body is wrapped in a with statement
   Top-level: the names in Top are declared at the top level (never renamed).

   The renamer (one action per minifier scope, parents before children):
     Declared(i)   = parameters in order, then the other bindings in non-increasing order of use count
                     (sort.Sort is not stable: ties are nondeterministic here)
     Undeclared(i) = everything referenced in the subtree of i that is not bound in i (outer bindings
                     under their *new* names - parents are renamed first -, free names), plus the vars
                     declared in i's subtree that bind above i
     each declared binding gets the next generated name that is neither reserved nor the current
     name of an Undeclared entry.
   Alphabet and reserved words are constants so that two-letter names, keywords and names of free
   variables are all reached with four bindings. *)
EXTENDS JsScope, Json

CONSTANTS MaxUnits,      \* number of units below the top level
          LocalNames,    \* spellings available to declarations
          FreeNames,     \* further spellings available to references (never declared: free variables)
          Top,           \* names declared at the top level
          MaxParams, MaxDecl,
          Start, Cont,   \* sequences of one-character strings: first / following characters of generated names
          DReserved,     \* reserved words of the reduced alphabet
          AllowWith, AllowVars, MaxUses,
          AllowFlat,       \* B units may be *flattened* (fl): optimizeStmtList dissolves the block (else-block after a flow
                           \* statement, single-statement block, switch case ...) and its lexical bindings, references and
                           \* children move into the enclosing function scope
          MoveAfterRename, \* FALSE = the code: the bindings have moved BEFORE renameScope(parent) runs, so they are renamed with
                           \* the parent.  TRUE = wrong-design guard (renameScope first, optimise afterwards): the moved
                           \* bindings keep their original spelling - JsRenamer_flatguard.cfg must violate CaptureFree
          OldWith,       \* FALSE = the code since fix 1b51557: every function that contains a with statement *anywhere
                         \* below it* keeps its names, and so does the top level when the program has a with.
                         \* TRUE = the behaviour before the fix (only the innermost function of a with is exempt): kept as
                         \* wrong-design guard - JsRenamer_withcross.cfg / JsRenamer_withinner.cfg must still violate
          RestoreOwn     \* FALSE = the code; TRUE = self-test mutant: on leaving a function the rename flag is restored
                         \* to the function's own value instead of the saved one (the two lines at the top of
                         \* minifyArrowFunc/minifyFuncDecl/minifyMethodDecl swapped)

Names == LocalNames \cup FreeNames

VARIABLES units,   \* the tree (chosen in Init, constant afterwards)
          pc,      \* 0 = not analysed yet; then index of the next event of aux.ev; Len(aux.ev)+1 = done
          newname, \* function: binding <<scope, keep name>> -> generated name (for renamed bindings)
          aux,     \* facts derived from the tree (computed once)
          fin,     \* when done: the program with both worlds and their resolutions
          flag,    \* renamer.rename: is shortening switched on right now
          stack    \* the parentRename values saved by the functions that are being minified
vars == <<units, pc, newname, aux, fin, flag, stack>>

(* ---------------- the space of trees ---------------- *)
SeqsUpTo(S, n) == UNION {[1..k -> S] : k \in 0..n}
Injective(s) == \A i, j \in DOMAIN s : i # j => s[i] # s[j]
SubsetsUpTo(S, n) == {x \in SUBSET S : Cardinality(x) <= n}

FUnits == {[kind |-> "F", ps |-> ps, ls |-> ls, vs |-> {}, us |-> us, w |-> w, fl |-> FALSE] :
             ps \in {s \in SeqsUpTo(LocalNames, MaxParams) : Injective(s)},
             ls \in SUBSET LocalNames, us \in SubsetsUpTo(Names, MaxUses), w \in (IF AllowWith THEN BOOLEAN ELSE {FALSE})}
BUnits == {[kind |-> "B", ps |-> <<>>, ls |-> ls, vs |-> vs, us |-> us, w |-> FALSE, fl |-> fl] :
             ls \in SUBSET LocalNames, vs \in (IF AllowVars THEN SubsetsUpTo(LocalNames, 1) ELSE {{}}),
             us \in SubsetsUpTo(Names, MaxUses), fl \in (IF AllowFlat THEN BOOLEAN ELSE {FALSE})}
UnitOK(u) == /\ Range(u.ps) \cap u.ls = {}
             /\ Len(u.ps) + Cardinality(u.ls) <= MaxDecl
             /\ u.vs \cap u.ls = {}                 \* `let x; var x` in one block is a syntax error
             /\ u.fl => u.vs = {}
Bodies == {u \in FUnits \cup BUnits : UnitOK(u)}

\* parent vectors: unit i hangs below the top level or below an earlier unit
ParentVecs(n) == {pv \in [1..n -> 0..(n - 1)] : \A i \in 1..n : pv[i] < i}

\* a var declared in a block must not meet a lexical declaration of the same name on its way up
\* (`{let x; {var x}}` is a syntax error) and binds in the first F unit or at the top level
RECURSIVE VarPathOK(_, _, _)
VarPathOK(us, i, name) ==
  IF i = 0 THEN name \notin Top           \* Top names are lexical declarations of the top level
  ELSE IF us[i].kind = "F" THEN name \notin us[i].ls     \* may join a parameter, not a let of the body
  ELSE name \notin us[i].ls /\ VarPathOK(us, us[i].par, name)
RECURSIVE Below(_, _, _)
Below(us, j, i) == IF j = i THEN TRUE ELSE IF j = 0 THEN FALSE ELSE Below(us, us[j].par, i)
\* a flattened block sits directly in a function without with, what it declares must be new there, and no code of that
\* function outside the block refers to those names (they would come under the moved declaration: the flattening
\* itself would change the meaning of the name-keeping output - a C01 matter, reported - and there is no reference world)
FlatOK(us, i) ==
  us[i].fl => /\ us[i].par # 0 /\ us[us[i].par].kind = "F" /\ ~us[us[i].par].w
              /\ us[i].ls \cap (us[us[i].par].ls \cup {us[us[i].par].ps[k] : k \in DOMAIN us[us[i].par].ps}) = {}
              /\ \A j \in DOMAIN us : (j # i /\ us[j].fl /\ us[j].par = us[i].par) => us[j].ls \cap us[i].ls = {}
              /\ \A j \in DOMAIN us : (Below(us, j, us[i].par) /\ ~Below(us, j, i)) => us[j].us \cap us[i].ls = {}
TreeOK(us) == /\ \A i \in DOMAIN us : \A v \in us[i].vs : VarPathOK(us, us[i].par, v)
              /\ \A i \in DOMAIN us : FlatOK(us, i)

(* ---------------- the tree as a JsScope program (keep world) ----------------
   scope numbering: 1 = top level; unit i of kind F owns scopes fs[i] (parameters), fs[i]+1 (body) and
   fs[i]+2 (with body) if w; a unit of kind B owns one scope.  Occurrence = position in the entry list.
   Everything derived from the tree is computed once (Init) and carried in the variable aux:
     fs   unit -> first scope          es  entries <<what, scope, name>>, what \in param let var use
     kp   the keep-world program       kr  occurrence -> binding scope in the keep world (0 = free)
     uo   entry -> unit whose code contains it (0 = top level) *)
NScopes(u) == IF u.kind = "F" THEN (IF u.w THEN 3 ELSE 2) ELSE IF u.fl THEN 0 ELSE 1   \* a flattened block has no scope
FirstScopes(us) == FoldLeft(LAMBDA acc, i : Append(acc, IF i = 1 THEN 2 ELSE acc[i - 1] + NScopes(us[i - 1])),
                            <<>>, [i \in 1..Len(us) |-> i])
\* where children and references live / where let declarations live (flattened block: in its function, see FlatOK)
Inner(us, fs, i) == IF us[i].fl THEN fs[us[i].par] + NScopes(us[us[i].par]) - 1 ELSE fs[i] + NScopes(us[i]) - 1
DeclScope(us, fs, i) == IF us[i].kind = "F" THEN fs[i] + 1 ELSE IF us[i].fl THEN fs[us[i].par] + 1 ELSE fs[i]
OuterOf(us, fs, i) == IF us[i].par = 0 THEN 1 ELSE Inner(us, fs, us[i].par)

ScopesOf(us, fs, i) ==
  IF us[i].kind = "B" THEN (IF us[i].fl THEN <<>> ELSE << <<OuterOf(us, fs, i), "block">> >>)
  ELSE << <<OuterOf(us, fs, i), "params">>, <<fs[i], "function">> >> \o (IF us[i].w THEN << <<fs[i] + 1, "with">> >> ELSE <<>>)

EntriesOf(us, fs, i) ==
  LET ls == SetToSeq(us[i].ls)
      vs == SetToSeq(us[i].vs)
      uu == SetToSeq(us[i].us)
  IN  [k \in 1..Len(us[i].ps) |-> <<"param", fs[i], us[i].ps[k], i>>]
      \o [k \in 1..Len(ls) |-> <<"let", DeclScope(us, fs, i), ls[k], i>>]
      \o [k \in 1..Len(vs) |-> <<"var", DeclScope(us, fs, i), vs[k], i>>]
      \o [k \in 1..Len(uu) |-> <<"use", Inner(us, fs, i), uu[k], i>>]
TopEntries == LET t == SetToSeq(Top) IN [k \in 1..Len(t) |-> <<"let", 1, t[k], 0>>]
Entries(us, fs) == FoldLeft(LAMBDA acc, i : acc \o EntriesOf(us, fs, i), TopEntries, [i \in 1..Len(us) |-> i])

Program(us, fs, es, nm) ==
  LET idx == [k \in 1..Len(es) |-> k]
      iu == SelectSeq(idx, LAMBDA k : es[k][1] = "use")
      iv == SelectSeq(idx, LAMBDA k : es[k][1] = "var")
      dl == SelectSeq(idx, LAMBDA k : es[k][1] \in {"param", "let"})
  IN [scopes |-> FoldLeft(LAMBDA acc, i : acc \o ScopesOf(us, fs, i), << <<0, "global">> >>, [i \in 1..Len(us) |-> i]),
      decls  |-> [k \in 1..Len(dl) |-> <<es[dl[k]][2], es[dl[k]][1], dl[k]>>],
      \* a var with an initialiser is an assignment reference plus a position-free declared name
      uses   |-> [k \in 1..Len(iu) |-> <<es[iu[k]][2], iu[k]>>] \o [k \in 1..Len(iv) |-> <<es[iv[k]][2], iv[k]>>],
      pubs   |-> <<>>, impl |-> <<>>,
      vdk    |-> [k \in 1..Len(iv) |-> <<es[iv[k]][2], es[iv[k]][3]>>],
      vdr    |-> [k \in 1..Len(iv) |-> <<es[iv[k]][2], nm[iv[k]]>>],
      keep   |-> [k \in 1..Len(es) |-> es[k][3]],
      ren    |-> nm, innok |-> FALSE, inn |-> <<>>]

\* The order in which js.go walks the tree: a scope is renamed when it is entered (parents before children, siblings in
\* source order); a function additionally saves and sets the rename flag on entry and restores it when it is left.
Kids(us, i) == SelectSeq([k \in 1..Len(us) |-> k], LAMBDA k : us[k].par = i)
RECURSIVE EvOf(_, _)
EvOf(us, i) == << <<"enter", i>> >> \o FoldLeft(LAMBDA acc, k : acc \o EvOf(us, k), <<>>, Kids(us, i))
               \o (IF us[i].kind = "F" THEN << <<"leave", i>> >> ELSE <<>>)
Events(us) == FoldLeft(LAMBDA acc, k : acc \o EvOf(us, k), <<>>, Kids(us, 0))

Aux(us) ==
  LET fs == FirstScopes(us)
      es == Entries(us, fs)
      kp == Program(us, fs, es, [k \in 1..Len(es) |-> es[k][3]])
      r  == ResolveAll(kp, World(kp, "keep"))
  IN [fs |-> fs, es |-> es, kp |-> kp, ev |-> Events(us),
      kr |-> FoldLeft(LAMBDA f, i : f @@ (r[i].occ :> r[i].bind), <<>>, [i \in 1..Len(r) |-> i])]

(* ---------------- the renamer ---------------- *)
\* getName(index) of vars.go over the alphabet Start/Cont (names of length 1, 2, 3)
NS == Len(Start)
NC == Len(Cont)
GetName(i) ==
  IF i < NS THEN Start[i + 1]
  ELSE IF i - NS < NS * NC THEN Start[((i - NS) % NS) + 1] \o Cont[((i - NS) \div NS) + 1]
  ELSE LET j == i - NS - NS * NC IN
       Start[(j % NS) + 1] \o Cont[((j \div NS) % NC) + 1] \o Cont[((j \div (NS * NC)) % NC) + 1]

\* is unit j in the subtree of unit i (j = 0: top level)
RECURSIVE IsUnder(_, _, _)
IsUnder(us, j, i) == IF j = i THEN TRUE ELSE IF j = 0 THEN FALSE ELSE IsUnder(us, us[j].par, i)
OwnScopes(us, fs, i) == fs[i]..(fs[i] + NScopes(us[i]) - 1)

\* the bindings <<scope, keep name>> unit i owns (the minifier's Declared) ...
BindingsOf(us, a, i) ==
  LET own == OwnScopes(us, a.fs, i) IN
  {<<a.kr[k], a.es[k][3]>> : k \in {j \in DOMAIN a.kr : a.kr[j] \in own}}
\* ... with their use counts (declaration + references, as Var.Uses)
UsesOf(a, b) == Cardinality({k \in DOMAIN a.kr : a.kr[k] = b[1] /\ a.es[k][3] = b[2]})
\* everything referenced from the subtree of i that i does not bind: <<binding scope (0 free), keep name>>
\* (bindings of scopes *below* i are declared there and never reach i's list - the code does not avoid them)
UndeclaredOf(us, a, i) ==
  LET below == UNION {OwnScopes(us, a.fs, j) : j \in {u \in DOMAIN us : IsUnder(us, u, i)}} IN
  {<<a.kr[k], a.es[k][3]>> : k \in {j \in DOMAIN a.kr : IsUnder(us, a.es[j][4], i) /\ a.kr[j] \notin below}}

\* Does the code of unit i contain a with statement?  (parser: HasWith of the innermost function only; since fix
\* 1b51557 a pre-walk marks every enclosing function as well)
HasWith(us, i) == IF OldWith THEN us[i].w ELSE \E j \in DOMAIN us : IsUnder(us, j, i) /\ us[j].w
TopFlag(us) == IF OldWith THEN TRUE ELSE \A j \in DOMAIN us : ~us[j].w
\* What the flag is MEANT to be when unit i is entered (js.go: rename = !HasWith of the *function* being minified,
\* restored on exit; blocks inherit the flag of the function they are in; the top level starts with TopFlag).
\* The actions below keep the flag the way the code does (save / set / restore); FlagAsMeant relates the two.
RECURSIVE RenameOn(_, _)
RenameOn(us, i) == IF i = 0 THEN TopFlag(us) ELSE IF us[i].kind = "F" THEN ~HasWith(us, i) ELSE RenameOn(us, us[i].par)

CurName(nn, b) == IF b \in DOMAIN nn THEN nn[b] ELSE b[2]
\* renameScope: walk the ordered bindings, skipping reserved / undeclared names
RECURSIVE Assign(_, _, _, _, _)
Assign(order, k, idx, taken, acc) ==
  IF k > Len(order) THEN acc
  ELSE IF GetName(idx) \in DReserved \/ GetName(idx) \in taken THEN Assign(order, k, idx + 1, taken, acc)
  ELSE Assign(order, k + 1, idx + 1, taken, acc @@ (order[k] :> GetName(idx)))

Orders(us, a, i) ==
  LET ps == [k \in 1..Len(us[i].ps) |-> <<a.fs[i], us[i].ps[k]>>]
      \* bindings that flattened blocks bring into this scope: on the scope's list only if they moved before it is renamed
      moved == {<<a.kr[k], a.es[k][3]>> : k \in {j \in DOMAIN a.kr : a.es[j][1] = "let" /\ a.es[j][4] # 0 /\ a.es[j][4] # i
                                                                       /\ us[a.es[j][4]].fl /\ us[a.es[j][4]].par = i}}
      rest == (BindingsOf(us, a, i) \ {ps[k] : k \in DOMAIN ps}) \ (IF MoveAfterRename THEN moved ELSE {})
      cnt == [b \in rest |-> UsesOf(a, b)]
  IN {ps \o o : o \in {s \in [1..Cardinality(rest) -> rest] :
                         /\ Injective(s)
                         /\ \A x, y \in DOMAIN s : x < y => cnt[s[x]] >= cnt[s[y]]}}

RenSpelling(a, nn) ==
  [k \in 1..Len(a.es) |-> IF k \in DOMAIN a.kr THEN CurName(nn, <<a.kr[k], a.es[k][3]>>) ELSE a.es[k][3]]
Finish(us, a, nn) ==
  LET p == Program(us, a.fs, a.es, RenSpelling(a, nn)) IN
  [p |-> p, rk |-> ResolveAll(p, World(p, "keep")), rr |-> ResolveAll(p, World(p, "ren"))]

Init == /\ \E n \in 1..MaxUnits : \E pv \in ParentVecs(n) : \E bs \in [1..n -> Bodies] :
             units = [i \in 1..n |-> [par |-> pv[i]] @@ bs[i]]
        /\ TreeOK(units)
        /\ pc = 0
        /\ newname = <<>>
        /\ aux = <<>>
        /\ fin = <<>>
        /\ flag = TopFlag(units) \* newRenamer(!KeepVarNames && !wm.found, ...)
        /\ stack = <<>>

\* the parser's pass: resolve every reference of the input (kept out of Init so that TLC's workers share it)
Analyse ==
  /\ pc = 0
  /\ pc' = 1
  /\ aux' = Aux(units)
  /\ fin' = IF Len(aux'.ev) = 0 THEN Finish(units, aux', newname) ELSE <<>>
  /\ UNCHANGED <<units, newname, flag, stack>>

\* renameScope(scope of unit i) under the current flag
Renamed(i, on) ==
  IF ~on THEN newname' = newname
  ELSE \E order \in Orders(units, aux, i) :
          newname' = Assign(order, 1, 0, {CurName(newname, b) : b \in UndeclaredOf(units, aux, i)}, newname)

\* minifyBlockStmt / for / switch / catch ...: renameScope on entry, the flag is not touched
EnterBlock(i) ==
  /\ units[i].kind = "B"
  /\ Renamed(i, flag)
  /\ UNCHANGED <<flag, stack>>
\* minifyFuncDecl / minifyMethodDecl / minifyArrowFunc:  parentRename := rename; rename = !HasWith && !KeepVarNames; renameScope
EnterFunction(i) ==
  /\ units[i].kind = "F"
  /\ stack' = Append(stack, IF RestoreOwn THEN ~HasWith(units, i) ELSE flag)
  /\ flag' = ~HasWith(units, i)
  /\ Renamed(i, flag')
\* ... rename = parentRename
LeaveFunction(i) ==
  /\ flag' = stack[Len(stack)]
  /\ stack' = SubSeq(stack, 1, Len(stack) - 1)
  /\ newname' = newname

Step ==
  /\ pc >= 1
  /\ pc <= Len(aux.ev)
  /\ pc' = pc + 1
  /\ UNCHANGED <<units, aux>>
  /\ LET e == aux.ev[pc] IN
       IF e[1] = "enter" THEN EnterBlock(e[2]) \/ EnterFunction(e[2]) ELSE LeaveFunction(e[2])
  /\ fin' = IF pc' = Len(aux.ev) + 1 THEN Finish(units, aux, newname') ELSE <<>>
Next == Analyse \/ Step
Spec == Init /\ [][Next]_vars

(* ---------------- D => A : the finished renaming satisfies the clauses of C02 ---------------- *)
Done == pc >= 1 /\ pc = Len(aux.ev) + 1

\* call-order invariant: whenever a scope is about to be entered, the flag the code carries is the flag it is meant to
\* have (for a function the flag is set on entry, so the claim is about blocks and about what a function restores)
FlagAsMeant ==
  (pc >= 1 /\ pc <= Len(aux.ev) /\ aux.ev[pc][1] = "enter") =>
     LET i == aux.ev[pc][2] IN units[i].kind = "B" => flag = RenameOn(units, i)
StackDepth == Done => stack = <<>>

CaptureFree == Done => /\ BadScope(fin.rk, fin.rr) = {}
                       /\ Bijective(Pairs(fin.p, fin.rk, fin.rr))
NoCollision == Done => SameBindingCount(fin.p)
PublicUnchanged == Done => /\ BadFree(fin.p, fin.rk, fin.rr) = {}
                           /\ BadTop(fin.p, fin.rk) = {}
                           /\ TopNames(fin.p, World(fin.p, "keep")) = TopNames(fin.p, World(fin.p, "ren"))
NoReserved == Done => \A k \in DOMAIN fin.p.ren : fin.p.ren[k] \in DReserved => fin.p.keep[k] = fin.p.ren[k]
WithOwn == Done => BadWithOwn(fin.p, fin.rk) = {}
WithCross == Done => BadWithCross(fin.p, fin.rk) = {}

\* generator output: one JSON line per finished tree (always TRUE)
Emit == Done => PrintT(<<"TREE", ToJson([units |-> units, top |-> SetToSeq(Top), ren |-> fin.p.ren])>>)
\* constant definitions for the .cfg files (sequences cannot be written there)
StartAB == <<"a", "b">>
ContABC == <<"a", "b", "c">>
StartA == <<"a">>
ContAB == <<"a", "b">>
=============================================================================
