----------------------------- MODULE JsonGen -----------------------------
(* Generator of JSON texts for C07: the reachable states are exactly the viable prefixes
   (token sequences that can still be completed within the bound) of valid JSON texts over
   a fixed lexeme table; the complete ones (p.ph = "done") are rendered - with whitespace
   variants - and handed to the real json.Minify.  Token count = grammar tokens as the
   minifier's parser delivers them (containers open/close, keys, scalars); the separators
   ':' and ',' are implied and not counted.

   The invariants are the design-level sanity of JsonDoc on every generated text: the
   incremental recogniser state equals the one computed from scratch from the raw bytes,
   complete <=> valid under both formulations of the grammar, the value relation accepts
   the legitimate number rewrites and discriminates the illegitimate ones. *)
EXTENDS JsonDoc, TLC
CONSTANTS MaxTok, ScalarIds, KeyIds

LexTab == <<
  <<123>>, <<125>>, <<91>>, <<93>>, <<58>>, <<44>>,          \*  1..6   { } [ ] : ,
  <<48>>,                                                    \*  7  0
  <<45, 48>>,                                                \*  8  -0
  <<49, 46, 48>>,                                            \*  9  1.0
  <<49, 101, 50>>,                                           \* 10  1e2
  <<48, 46, 53, 48>>,                                        \* 11  0.50
  <<49, 48, 48>>,                                            \* 12  100
  <<49, 69, 43, 50>>,                                        \* 13  1E+2
  <<34, 34>>,                                                \* 14  ""
  <<34, 97, 34>>,                                            \* 15  "a"
  <<34, 92, 34, 34>>,                                        \* 16  "\""
  <<34, 65, 34>>,                                            \* 17  "A"
  <<116, 114, 117, 101>>,                                    \* 18  true
  <<110, 117, 108, 108>>,                                    \* 19  null
  <<102, 97, 108, 115, 101>>,                                \* 20  false
  <<49, 101, 45, 51>>,                                       \* 21  1e-3   (minified form is longer: 0.001)
  <<45, 53, 69, 45, 49>>,                                    \* 22  -5E-1  (Number gives -.5, repaired to -0.5)
  <<34, 92, 117, 48, 48, 52, 49, 92, 92, 34>> >>             \* 23  "A\\"
NIds == Len(LexTab)
KindOf == [i \in 1..NIds |-> Kind(LexTab[i])]
AllScalars == 7..23
Scalars14 == 7..20
Scalars9 == {7, 8, 9, 11, 13, 15, 16, 18, 21}
Scalars6 == {8, 11, 13, 16, 19, 22}
AllKeys == {14, 15, 16, 17, 23}
Keys3 == {14, 15, 16}
Keys2 == {15, 16}

VARIABLES toks, p, ng
vars == <<toks, p, ng>>
Lexemes(ids) == [i \in 1..Len(ids) |-> LexTab[ids[i]]]

\* grammar tokens still needed to complete a prefix in state q
Need(q) == Len(q.stk) + (CASE q.ph \in {"val", "colon"} -> 1 [] q.ph = "key" -> 2 [] OTHER -> 0)

Init == toks = <<>> /\ p = PInit /\ ng = 0
Next ==
  \E id \in 1..NIds :
    LET k == KindOf[id]
        q == Step(p, k)
        n == ng + (IF k \in {":", ","} THEN 0 ELSE 1)
    IN /\ q.ph # "bad"
       /\ (IsScalar(k) /\ p.ph \in {"keyOrEnd", "key"}) => id \in KeyIds
       /\ (IsScalar(k) /\ p.ph \in {"val", "valOrEnd"}) => id \in ScalarIds
       /\ n + Need(q) <= MaxTok
       /\ toks' = Append(toks, id) /\ p' = q /\ ng' = n
Spec == Init /\ [][Next]_vars
(* Biased variant for random walks far beyond the exhaustive bound (TLC -simulate): no scalar
   at the top level and containers are closed reluctantly, so that a walk is a long, deeply
   nested text.  Every state of a walk is completed to a valid text by the driver (scalar for
   a pending value, then the closers that p.stk asks for). *)
NextSim == /\ Next
           /\ LET k == KindOf[toks'[Len(toks')]] IN
              /\ p.stk = <<>> => ~IsScalar(k)
              /\ k \in {"}", "]"} => (ng' % 4 = 0 \/ ng' + Need(p') + 3 > MaxTok)
SpecSim == Init /\ [][NextSim]_vars

Complete == p.ph = "done"
\* ---- invariants (design-level sanity of JsonDoc) ----
TableOK == \A i \in 1..NIds : KindOf[i] # "junk"
PdaAgrees == p = RunPDA(Kinds(Lexemes(toks)))
CompleteIffValid == /\ Complete = ValidText(Lexemes(toks))
                    /\ Complete = RDValid(Kinds(Lexemes(toks)))
\* legitimate rewrites of the number lexemes of the table (value preserved) ...
Short == [i \in 1..NIds |->
           CASE i = 8 -> <<48>> [] i = 9 -> <<49>> [] i = 10 -> <<49, 48, 48>> [] i = 11 -> <<48, 46, 53>>
             [] i = 13 -> <<49, 101, 50>> [] i = 21 -> <<48, 46, 48, 48, 49>> [] i = 22 -> <<45, 48, 46, 53>>
             [] OTHER -> LexTab[i]]
\* ... and illegitimate ones: value changed, or not a JSON number, or a string spelled differently
Wrong == [i \in 1..NIds |->
           CASE i = 7 -> <<49>> [] i = 8 -> <<45, 49>> [] i = 9 -> <<49, 48>> [] i = 10 -> <<49, 101, 51>>
             [] i = 11 -> <<46, 53>> [] i = 12 -> <<49, 48>> [] i = 13 -> <<49, 101, 45, 50>>
             [] i = 21 -> <<46, 48, 48, 49>> [] i = 22 -> <<45, 46, 53>>
             [] i = 17 -> <<34, 92, 117, 48, 48, 52, 49, 34>>      \* "A" spelled "A": not byte-identical
             [] i = 18 -> LitFalse [] i = 19 -> <<48>> [] i = 20 -> LitNull
             [] OTHER -> LexTab[i]]
Changes(tab) == \E i \in 1..Len(toks) : tab[toks[i]] # LexTab[toks[i]]
RelationOK ==
  Complete =>
    LET L == Lexemes(toks)
        S == [i \in 1..Len(toks) |-> Short[toks[i]]]
        W == [i \in 1..Len(toks) |-> Wrong[toks[i]]]
    IN /\ JsonEq(L, L, TRUE) /\ JsonEq(L, L, FALSE)
       /\ JsonEq(L, S, FALSE) /\ ValidText(S)
       /\ Changes(Short) => ~JsonEq(L, S, TRUE)          \* number keeping: byte identity
       /\ Changes(Wrong) => (~JsonEq(L, W, FALSE) /\ ~JsonEq(L, W, TRUE))
       /\ ~JsonEq(L, SubSeq(L, 1, Len(L) - 1), FALSE)    \* a lost token is noticed
       /\ ~JsonEq(L, Append(L, <<93>>), FALSE)
       /\ FirstDiff(L, S, FALSE) = 0
ASSUME \A i \in 1..NIds : PrintT(<<"LEX", i, LexTab[i]>>)
=============================================================================
