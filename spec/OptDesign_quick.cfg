SPECIFICATION Spec
CONSTANTS MaxLen = 2
BitSets <- BitsCover3
Fault = "none"
INVARIANTS RefinesNamed Reflexive BranchesKnown BranchLog
CHECK_DEADLOCK FALSE
