----------------------------- MODULE OptDesign -----------------------------
(* Design model for the HTML part of C16: a transcription, on abstract token streams, of the
   token loop of html/html.go restricted to what the options decide (comment keeping, document
   tags, optional end tags with the </p> look-ahead, attribute defaults and quoting, the
   omitSpace / trailing-blank look-ahead machine).  TLC checks  D => A :  for EVERY token stream
   up to MaxLen symbols over Sigma and EVERY one of the 2^7 option sets, the output of the
   design satisfies every option relation of spec/Options.tla (invariant Refines).  So the
   relations accept the documented behaviour on the whole enumerated space (no false alarm
   by construction there), and each seeded fault of the design (constant Fault) must be
   caught by them (run with Fault # "none": TLC has to report Refines violated).
   The same state space is rendered to bytes and run through the real minifier
   (tools/props/c16.py); a difference between design and code is DRIFT information only.
   Every branch of the design is an entry of `br` in the step result; invariant-free
   bookkeeping of the branches taken is reported through BranchesSeen. *)
EXTENDS Options, TLC, Json

CONSTANTS MaxLen, Fault, BitSets
VARIABLES bits, syms
vars == <<bits, syms>>

Tk(k, n, t, v, q, b) == [k |-> k, n |-> n, t |-> t, v |-> v, q |-> q, b |-> b]
St(n) == Tk("S", n, "", "", 0, <<>>)
En(n) == Tk("E", n, "", "", 0, <<>>)
At(key, owner, val, q) == Tk("A", key, owner, val, q, <<>>)
Tx(b) == Tk("T", "", "", "", 0, b)
Cm(b) == Tk("C", "", "", "", 0, b)

(* the alphabet: each symbol is a short token sequence (a start tag brings its attributes) *)
Sigma == <<
  <<St("p")>>, <<En("p")>>, <<St("li")>>, <<En("li")>>, <<St("b")>>, <<En("b")>>, <<St("div")>>, <<En("div")>>,
  <<St("html")>>, <<En("html")>>, <<St("body"), At("class", "body", "c", 2)>>, <<En("body")>>,
  <<Tx(<<120>>)>>, <<Tx(<<32, 120>>)>>, <<Tx(<<120, 32>>)>>, <<Tx(<<32>>)>>, <<Tx(<<120, 32, 32, 121>>)>>,
  <<Cm(<<32, 99, 32>>)>>,                                                       \* <!-- c -->
  <<Cm(<<35, 105, 110, 99, 32, 102>>)>>,                                         \* <!--#inc f-->
  <<Cm(<<91, 105, 102, 32, 73, 69, 93, 62, 120, 60, 33, 91, 101, 110, 100, 105, 102, 93>>)>>,   \* <!--[if IE]>x<![endif]-->
  <<St("input"), At("type", "input", "text", 2)>>,
  <<St("a"), At("title", "a", "t t", 2)>>, <<En("a")>>,
  <<St("a"), At("id", "a", "i", 3), At("class", "a", "c", 1)>>,
  <<St("td"), At("colspan", "td", "1", 2)>>, <<En("td")>> >>
NSym == Len(Sigma)
\* printed once so that the renderer's table can be checked against the alphabet (tools/props/c16.py)
ASSUME PrintT(<<"SIGMA", ToJson(Sigma)>>)
Flatten(ss) == FoldLeft(LAMBDA acc, i : acc \o Sigma[i], <<>>, ss)

(* tag traits, transcribed from html/table.go for the tags of Sigma *)
BlockT == {"p", "li", "div", "html", "body", "td"}
ObjectT == {"input"}
NormalT == {"b"}
OmitPT == {"p", "div"}
KeepPT == {"a"}
AlwaysOmitEnd == {"li", "td"}

OptNames == <<"KeepComments", "KeepSpecialComments", "KeepDefaultAttrVals", "KeepDocumentTags",
              "KeepEndTags", "KeepQuotes", "KeepWhitespace">>
P2(n) == IF n = 0 THEN 1 ELSE IF n = 1 THEN 2 ELSE IF n = 2 THEN 4 ELSE IF n = 3 THEN 8 ELSE IF n = 4 THEN 16
         ELSE IF n = 5 THEN 32 ELSE 64
Has(b, i) == (b \div P2(i - 1)) % 2 = 1
Opt(b) == [KeepComments |-> Has(b, 1), KeepSpecialComments |-> Has(b, 2), KeepDefaultAttrVals |-> Has(b, 3),
           KeepDocumentTags |-> Has(b, 4), KeepEndTags |-> Has(b, 5), KeepQuotes |-> Has(b, 6),
           KeepWhitespace |-> Has(b, 7), KeepConditionalComments |-> FALSE, Delims |-> <<>>]

BitsAll == 0..127
X3(a, b, c) == (a + b + c) % 2
\* strength-3 covering array of the seven options (see OptGen!Cover3)
BitsCover3 == {a + 2*b + 4*c + 8*d + 16*X3(a, b, c) + 32*X3(a, b, d) + 64*X3(a, c, d) :
                 a \in {0, 1}, b \in {0, 1}, c \in {0, 1}, d \in {0, 1}}
AllWs(b) == \A i \in 1..Len(b) : b[i] \in HtmlWs
CollapseWs(b) ==
  FoldLeft(LAMBDA acc, c : IF c \in HtmlWs THEN (IF acc # <<>> /\ acc[Len(acc)] = 32 THEN acc ELSE Append(acc, 32))
                           ELSE Append(acc, c), <<>>, b)

\* html.go, text token, "whitespace removal; trim right": look ahead over comments and blank text
RECURSIVE Trail(_, _, _)
Trail(toks, j, keepWs) ==
  IF j > Len(toks) THEN "trim"
  ELSE IF toks[j].k = "T" /\ ~AllWs(toks[j].b) THEN "keep"
  ELSE IF toks[j].k \in {"S", "E"} THEN
         (IF keepWs /\ Fault # "ws" /\ ~(Fault = "wsblock" /\ toks[j].n \in BlockT) THEN "keep"
          ELSE IF toks[j].n \in BlockT THEN "trim"
          ELSE IF toks[j].k = "S" THEN "keep"
          ELSE Trail(toks, j + 1, keepWs))
  ELSE Trail(toks, j + 1, keepWs)
\* html.go, end tag of p: omitted when followed by EOF, an end tag (not keepPTag) or an omitPTag start tag
RECURSIVE OmitPEnd(_, _)
OmitPEnd(toks, j) ==
  IF j > Len(toks) THEN TRUE
  ELSE IF toks[j].k = "T" /\ AllWs(toks[j].b) THEN OmitPEnd(toks, j + 1)
  ELSE (toks[j].k = "E" /\ toks[j].n \notin KeepPT) \/ (toks[j].k = "S" /\ toks[j].n \in OmitPT)

SpecialD(b) ==   \* html.go, comment token under KeepSpecialComments
  \/ Len(b) > 6 /\ (HasPrefixB(b, BIf) \/ HasSuffixB(b, BEndif))
  \/ Len(b) > 1 /\ b[1] = 35 /\ Fault # "ssi"
DefaultD(a) ==   \* html.go, "default attribute values can be omitted"
  \/ a.t = "input" /\ a.n = "type" /\ a.v = "text"
  \/ a.n = "colspan" /\ a.v = "1"
NeedsQuote(v) == v = "t t"
AfterTag(st, n, o) == IF o.KeepWhitespace \/ n \in ObjectT THEN FALSE ELSE IF n \in BlockT THEN TRUE ELSE st.omit
Emit(st, t, om, b) == [out |-> Append(st.out, t), omit |-> om, br |-> st.br \cup {b}]
Skip(st, om, b) == [st EXCEPT !.omit = om, !.br = @ \cup {b}]

Step(st, toks, i, o) ==
  LET t == toks[i]
      hasAttr == i < Len(toks) /\ toks[i + 1].k = "A"
      dropDoc == (~o.KeepDocumentTags /\ t.n \in DocTags) \/ (Fault = "doc" /\ t.n = "html") \/ t.n = "colgroup"
  IN
  CASE t.k = "C" ->
         IF o.KeepComments THEN Emit(st, t, st.omit, "comment-all")
         ELSE IF o.KeepSpecialComments /\ SpecialD(t.b) THEN Emit(st, t, st.omit, "comment-special")
         ELSE Skip(st, st.omit, "comment-drop")
    [] t.k = "T" ->
         LET d0 == CollapseWs(t.b)
             d1 == IF st.omit /\ d0 # <<>> /\ d0[1] = 32 THEN Tail(d0) ELSE d0
         IN IF d1 = <<>> THEN Skip(st, TRUE, "text-empty")
            ELSE IF d1[Len(d1)] # 32 THEN Emit(st, Tx(d1), FALSE, "text-plain")
            ELSE IF Trail(toks, i + 1, o.KeepWhitespace) = "trim"
                 THEN (IF Len(d1) = 1 THEN Skip(st, FALSE, "text-trim-all")
                       ELSE Emit(st, Tx(SubSeq(d1, 1, Len(d1) - 1)), FALSE, "text-trim-right"))
                 ELSE Emit(st, Tx(d1), TRUE, "text-keep-right")
    [] t.k = "S" ->
         IF ~hasAttr /\ dropDoc THEN Skip(st, st.omit, "start-doc-drop")
         ELSE LET om == AfterTag(st, t.n, o)
                  j == i + 1 + Cardinality({m \in (i+1)..Len(toks) : toks[m].k = "A" /\ \A q \in (i+1)..m : toks[q].k = "A"})
                  phr == t.n \in NormalT /\ j <= Len(toks) /\ toks[j].k = "E" /\ toks[j].n = t.n
              IN Emit(st, t, IF phr THEN FALSE ELSE om, IF phr THEN "start-phrasing-pair" ELSE "start")
    [] t.k = "A" ->
         IF ((~o.KeepDefaultAttrVals /\ ~(Fault = "crosstalk" /\ o.KeepQuotes)) \/ (Fault = "defaults" /\ t.n = "colspan")) /\ DefaultD(t)
         THEN Skip(st, st.omit, "attr-default-drop")
         ELSE LET q == IF t.q = 0 THEN 0
                       ELSE IF NeedsQuote(t.v) \/ (o.KeepQuotes /\ t.q \in {2, 3} /\ Fault # "quotes") THEN 2 ELSE 1
              IN Emit(st, [t EXCEPT !.q = q], st.omit, IF q = 1 THEN "attr-unquoted" ELSE "attr-quoted")
    [] t.k = "E" ->
         IF dropDoc THEN Skip(st, st.omit, "end-doc-drop")
         ELSE IF (~o.KeepEndTags \/ (Fault = "endtag" /\ t.n = "li")) /\
                 (t.n \in AlwaysOmitEnd \/ (t.n = "p" /\ OmitPEnd(toks, i + 1)))
              THEN Skip(st, st.omit, IF t.n = "p" THEN "end-p-omit" ELSE "end-omit")
              ELSE Emit(st, t, AfterTag(st, t.n, o), "end")

Run(toks, o) ==
  FoldLeft(LAMBDA st, i : Step(st, toks, i, o), [out |-> <<>>, omit |-> TRUE, br |-> {}], [i \in 1..Len(toks) |-> i])

Init == bits \in BitSets /\ syms = <<>>
Next == Len(syms) < MaxLen /\ \E s \in 1..NSym : syms' = Append(syms, s) /\ UNCHANGED bits
Spec == Init /\ [][Next]_vars

\* D => A: the design's output satisfies every option relation under every option set
Neutral(o) == [o EXCEPT !.KeepComments = FALSE, !.KeepSpecialComments = FALSE, !.KeepDefaultAttrVals = FALSE,
                          !.KeepQuotes = FALSE]
Refines ==
  LET in == Flatten(syms)  o == Opt(bits)  r == Run(in, o)
      cl == HtmlClauses(in, r.out, o, <<>>, <<>>, Run(in, Neutral(o)).out)
  IN \A i \in 1..Len(cl) : cl[i].ok
\* a failing clause is named in TLC's output
RefinesNamed ==
  LET in == Flatten(syms)  o == Opt(bits)  r == Run(in, o)
      cl == HtmlClauses(in, r.out, o, <<>>, <<>>, Run(in, Neutral(o)).out)
  IN \A i \in 1..Len(cl) : cl[i].ok \/ PrintT(<<"DESIGN-REJECT", cl[i].name, bits, syms>>) = FALSE
\* the identity transformation honours every Keep option (relations are reflexive)
Reflexive ==
  LET in == Flatten(syms)  o == Opt(bits)
      cl == HtmlClauses(in, in, o, <<>>, <<>>, in)
  IN /\ \A i \in 1..Len(cl) : cl[i].name \in {"Comments", "KeepWhitespace"} \/ cl[i].ok   \* these two demand a change
     /\ SigKept(HtmlSig(in), HtmlSig(in))
\* branch coverage of the design: which branches of Step the current stream takes; every worker
\* prints a branch the first time it meets it (register 7 is initialised for all workers by the ASSUME)
ASSUME TLCSet(7, {})
Branches == Run(Flatten(syms), Opt(bits)).br
BranchLog == LET seen == TLCGet(7)  new == Branches \ seen
             IN new = {} \/ (PrintT(<<"BRANCH", new>>) /\ TLCSet(7, seen \cup new))
AllBranches == {"comment-all", "comment-special", "comment-drop", "text-empty", "text-plain", "text-trim-all",
                "text-trim-right", "text-keep-right", "start-doc-drop", "start", "start-phrasing-pair",
                "attr-default-drop", "attr-unquoted", "attr-quoted", "end-doc-drop", "end-p-omit", "end-omit", "end"}
BranchesKnown == Branches \subseteq AllBranches
=============================================================================
