------------------------------ MODULE JsScope ------------------------------
(* ECMAScript static scoping on an abstract scope tree (property C02).

   A program p is a record of purely syntactic facts (who declares what where); nothing
   in it says which declaration a reference denotes - that is what this module defines.

     p.scopes : sequence of <<parent, kind>>     parent = 0 for the root, parents precede children
         kind \in global module          the script / module top level              (var scope)
                  fname cname            scope holding the own name of a named function / class expression
                  params aparams         parameter scope of a function / arrow function
                  function               function body (child of params/aparams)    (var scope)
                  static                 class static block                         (var scope)
                  class field            class body / field initialiser
                  block for switch catch lexical scopes
                  with                   body of a with statement: binds nothing statically, but every
                                         lookup that passes through it is decided at run time
     p.decls  : sequence of <<scope, dk, occ>>   positional declarations; dk \in let const class function
                                                 param catch fname cname import
     p.uses   : sequence of <<scope, occ>>       references
     p.pubs   : sequence of occ                  names outside the variable namespace
     p.impl   : sequence of <<scope, name>>      implicit bindings (`arguments` of a non-arrow function)
     p.vdk, p.vdr : sequences of <<scope, name>> names declared with `var` in world keep / ren
     p.keep, p.ren : occurrence -> spelling       the two worlds: name keeping output, shortened output

   A *world* w is a record [nm |-> occurrence spelling, vd |-> var declared names].
   Bound(p,w) is the set of bindings <<scope, name>> of the world; Resolve walks outwards. *)
EXTENDS Integers, Sequences, FiniteSets, TLC, SequencesExt, Functions, FiniteSetsExt

Parent(p, s) == p.scopes[s][1]
Kind(p, s)   == p.scopes[s][2]
VarKinds     == {"global", "module", "function", "static"}
ParamKinds   == {"params", "aparams"}

World(p, which) == IF which = "keep" THEN [nm |-> p.keep, vd |-> p.vdk] ELSE [nm |-> p.ren, vd |-> p.vdr]

\* nearest enclosing scope in which `var` and function declarations create their binding
RECURSIVE VarScopeOf(_, _)
VarScopeOf(p, s) == IF Kind(p, s) \in VarKinds THEN s ELSE VarScopeOf(p, Parent(p, s))

\* the scope table as a function scope -> var scope, computed once per program
VarScopeMap(p) == [s \in DOMAIN p.scopes |-> VarScopeOf(p, s)]

\* bindings created in parameter scopes (needed first: `var x` in the body of f(x) joins the parameter)
ParamBound(p, w) == {<<p.decls[i][1], w.nm[p.decls[i][3]]>> : i \in {j \in DOMAIN p.decls : p.decls[j][2] = "param"}}

\* where a var-like declaration of `name` written in scope s binds (ECMA-262 FunctionDeclarationInstantiation:
\* a var named like a parameter does not create a second variable visible to the body's references)
VarBind(p, vsm, pb, s, name) ==
  LET vs == vsm[s] IN
  IF Kind(p, vs) = "function" /\ <<Parent(p, vs), name>> \in pb THEN Parent(p, vs) ELSE vs

\* function declarations hoist like var when they are statements of a var scope; elsewhere they are lexical
DeclBind(p, vsm, pb, w, d) ==
  IF d[2] = "function" /\ Kind(p, d[1]) \in VarKinds THEN VarBind(p, vsm, pb, d[1], w.nm[d[3]]) ELSE d[1]

Bound(p, w) ==
  LET vsm == VarScopeMap(p)
      pb  == ParamBound(p, w)
  IN  {<<DeclBind(p, vsm, pb, w, p.decls[i]), w.nm[p.decls[i][3]]>> : i \in DOMAIN p.decls}
      \cup {<<VarBind(p, vsm, pb, w.vd[i][1], w.vd[i][2]), w.vd[i][2]>> : i \in DOMAIN w.vd}
      \cup {<<p.impl[i][1], p.impl[i][2]>> : i \in DOMAIN p.impl}

\* static lookup: the scope that binds `name` seen from scope s, 0 if none (free: global object / ReferenceError)
RECURSIVE Lookup(_, _, _, _)
Lookup(p, B, s, name) ==
  IF s = 0 THEN 0
  ELSE IF <<s, name>> \in B THEN s
  ELSE Lookup(p, B, Parent(p, s), name)

\* does the walk from s up to (excluding) scope b pass a with body?   (b = 0: walk to the top)
RECURSIVE CrossesWith(_, _, _)
CrossesWith(p, s, b) ==
  IF s = 0 \/ s = b THEN FALSE
  ELSE IF Kind(p, s) = "with" THEN TRUE
  ELSE CrossesWith(p, Parent(p, s), b)

\* the function a scope belongs to, identified by its parameter scope (0: not inside any function)
RECURSIVE FuncOf(_, _)
FuncOf(p, s) ==
  IF s = 0 THEN 0
  ELSE IF Kind(p, s) \in ParamKinds THEN s
  \* the own name of a named function expression is a name of THAT function (visible only inside it), not of the
  \* function around it: its scope wraps exactly one parameter scope
  ELSE IF Kind(p, s) = "fname" THEN CHOOSE c \in DOMAIN p.scopes : Parent(p, c) = s /\ Kind(p, c) \in ParamKinds
  ELSE FuncOf(p, Parent(p, s))

\* functions whose own code (not a nested function's) contains a with statement
WithFuncs(p) == {FuncOf(p, s) : s \in {t \in DOMAIN p.scopes : Kind(p, t) = "with"}} \ {0}

(* Resolution of every positional occurrence in one world:
   a sequence (over uses then decls) of records [occ, scope (where written), bind (binding scope or 0)] *)
ResolveAll(p, w) ==
  LET B   == Bound(p, w)
      vsm == VarScopeMap(p)
      pb  == ParamBound(p, w)
  IN  [i \in 1..Len(p.uses) |->
          [occ |-> p.uses[i][2], scope |-> p.uses[i][1],
           bind |-> Lookup(p, B, p.uses[i][1], w.nm[p.uses[i][2]])]]
      \o
      [i \in 1..Len(p.decls) |->
          [occ |-> p.decls[i][3], scope |-> p.decls[i][1],
           bind |-> DeclBind(p, vsm, pb, w, p.decls[i])]]

Reserved == {"await", "break", "case", "catch", "class", "const", "continue", "debugger", "default", "delete",
             "do", "else", "enum", "export", "extends", "false", "finally", "for", "function", "if", "import",
             "in", "instanceof", "new", "null", "return", "super", "switch", "this", "throw", "true", "try",
             "typeof", "var", "void", "while", "with", "yield",
             "let", "static", "implements", "interface", "package", "private", "protected", "public"}

(* ---- the clauses of C02 on a program with both worlds resolved -------------------------------
   rk, rr : ResolveAll in world keep / ren (same length, same order).  Each clause returns the
   set of offending indices/occurrences so that a rejection can say where. *)

\* "Shortening never changes which declaration an identifier occurrence refers to": same binding scope ...
BadScope(rk, rr) == {i \in DOMAIN rk : rk[i].bind # rr[i].bind}
\* ... "to the name of a free (global or enclosing undeclared) variable": free stays free and keeps its name
BadFree(p, rk, rr) == {i \in DOMAIN rk : rk[i].bind = 0 /\ rr[i].bind = 0 /\ p.keep[rk[i].occ] # p.ren[rk[i].occ]}
\* ... and within one scope, occurrences denote the same binding in one world iff they do in the other:
\* the relation {(scope, keep name, ren name)} is one-to-one in both directions
Pairs(p, rk, rr) == {<<rk[i].bind, p.keep[rk[i].occ], p.ren[rk[i].occ]>> : i \in {j \in DOMAIN rk : rk[j].bind # 0 /\ rk[j].bind = rr[j].bind}}
Bijective(P) == /\ Cardinality({<<x[1], x[2]>> : x \in P}) = Cardinality(P)
                /\ Cardinality({<<x[1], x[3]>> : x \in P}) = Cardinality(P)
\* "collides with another binding visible where it is used": no two bindings collapse into one, none splits
SameBindingCount(p) == Cardinality(Bound(p, World(p, "keep"))) = Cardinality(Bound(p, World(p, "ren")))

\* "Names that are observable outside the function bodies - top-level declarations, undeclared globals,
\*  property names, labels, import/export names - ... are emitted unchanged"
BadPublic(p) == {i \in DOMAIN p.pubs : p.keep[p.pubs[i]] # p.ren[p.pubs[i]]}
BadTop(p, rk) == {i \in DOMAIN rk : rk[i].bind = 1 /\ p.keep[rk[i].occ] # p.ren[rk[i].occ]}
TopNames(p, w) == {b[2] : b \in {x \in Bound(p, w) : x[1] = 1}}

\* "no local is renamed to a reserved word"
BadReserved(p) == {k \in DOMAIN p.ren : p.ren[k] \in Reserved /\ p.keep[k] # p.ren[k]}

\* "every name in a function that contains `with` [is] emitted unchanged": the function's own bindings ...
BadWithOwn(p, rk) ==
  LET wf == WithFuncs(p) IN
  IF wf = {} THEN {} ELSE {i \in DOMAIN rk : rk[i].bind # 0 /\ FuncOf(p, rk[i].bind) \in wf /\ p.keep[rk[i].occ] # p.ren[rk[i].occ]}
\* ... and (first sentence) a reference evaluated inside a with body whose static binding lies outside that
\* body is looked up by its spelling at run time, so it keeps its meaning only if it keeps its spelling
BadWithCross(p, rk) ==
  IF \A s \in DOMAIN p.scopes : Kind(p, s) # "with" THEN {}
  ELSE {i \in DOMAIN rk : CrossesWith(p, rk[i].scope, rk[i].bind) /\ p.keep[rk[i].occ] # p.ren[rk[i].occ]}

\* "with name keeping enabled no identifier is changed at all": every identifier of the name-keeping output
\* is an identifier (or the content of a string used as property name) of the input
\* (ECMA-262 19.1 value properties of the global object may be spelled out by constant folding, e.g.
\*  Number(undefined) -> NaN: that is new code (C01), not a changed identifier)
GlobalValueNames == {"NaN", "Infinity", "undefined"}
BadKept(p) == IF ~p.innok THEN {} ELSE
  LET I == {p.inn[i] : i \in DOMAIN p.inn} \cup GlobalValueNames IN
  {k \in DOMAIN p.keep : p.keep[k] \notin I} \cup {-i : i \in {j \in DOMAIN p.vdk : p.vdk[j][2] \notin I}}
=============================================================================
