SPECIFICATION Spec
CONSTANTS MaxLen = 4
Core = FALSE
INVARIANTS SpacedLexesBack FusesAgree AllJudged
CHECK_DEADLOCK FALSE
