SPECIFICATION Spec
CONSTANTS MaxLen = 40
Alphabet <- AlphaAll
CHECK_DEADLOCK FALSE
