SPECIFICATION Spec
CONSTANTS
  NWorkers = 3
  MaxChunks = 1
  FaultTasks = 1
  SetupIds = {"inplace3", "mixed3"}
INVARIANTS NeverLost ReadOnlyUntouched OthersUntouched DoneClean DestinationsComplete NoDescriptorLeak
PROPERTY BakRemovedOnlyAfterComplete
CHECK_DEADLOCK FALSE
