SPECIFICATION Spec
CONSTANTS
  NWorkers = 3
  MaxChunks = 1
  Protocol = "fixed2"
  FaultTasks = 0
  SetupIds = {"inplace3", "mixed3"}
INVARIANTS NeverLost ReadOnlyUntouched OthersUntouched DoneClean NoLeftoverBackup DestinationsComplete NoDescriptorLeak
CHECK_DEADLOCK FALSE
