SPECIFICATION Spec
CONSTANTS MaxLen = 4
Pieces <- AllPieces
Bugs <- NoBugs
INVARIANTS PlainOK TrimOK TextOK Emit
CHECK_DEADLOCK FALSE
