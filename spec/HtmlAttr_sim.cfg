SPECIFICATION Spec
CONSTANTS MaxLen = 4
Pieces <- AllPieces
INVARIANTS PlainOK TrimOK TextOK Emit
CHECK_DEADLOCK FALSE
