----------------------------- MODULE JsPrintCtx -----------------------------
(* C09, JavaScript printer: printing state.

   The JS printer carries flags from token to token (inFor: an "in" operator must be
   parenthesised inside a for-initialiser; expectExpr / groupedStmt: an expression statement may
   not start with "{", "function", "class", "let["; needsSpace / needsSemicolon; the
   precedence passed down).  Sub-expressions that save, clear and restore such a flag (index,
   call, grouping, array, object, template, function, arrow) can DISTURB it for what follows.

   This module enumerates programs  context[ disturber(s) , payload ]:
     * Contexts  - every syntactic position whose printing depends on a flag or on precedence,
                   with a slot @D for state-disturbing siblings printed BEFORE the payload in the
                   same context and a slot @P for the payload,
     * Disturbers - expression forms that touch the flags while they are printed,
     * Payloads  - expression forms whose correct printing depends on the flags (written fully
                   parenthesised in the input, so the input is valid whatever the context).
   A state is one choice; TLC enumerates all of them (no transitions); the harness renders
   each state by textual substitution and the real minifier's output must stay valid
   JavaScript and be accepted again (Closure.PipeInv, judged by V8 and acorn). *)
EXTENDS Integers, Sequences, FiniteSets, TLC

CONSTANT MaxD          \* number of disturbers in front of the payload: 1..MaxD

Contexts == {
  "for(var a=@D,d=@P;;);",          \* for-initialiser, var list: inFor
  "for(a=@D,d=@P;;);",              \* for-initialiser, expression
  "for(@D,@P;;);",
  "for(let a=@D,d=@P;;);",
  "for(var a=@D;d=@P;)c()",         \* condition and update are not inFor
  "for(var a=@D;;d=@P)c()",
  "var a=@D;for(var d=@P;;);",      \* a preceding var is merged into the loop initialiser
  "var a=@D,d=@P;for(;;);",
  "var a=@D;for(;d=@P;);",
  "for(var a of[@D,@P]);",
  "for(var a in @D,@P);",
  "for(var a=@D,d=@P in e);",       \* Annex B initialiser
  "x=@D,@P;",                       \* comma expression statement
  "@D;@P;",                         \* payload at statement start
  "@D,@P;",
  "x=()=>(@D,@P);",                 \* arrow body
  "x=()=>@P;",
  "x=()=>{@D;return @P}",
  "x=a=>{return @D,@P}",
  "new(@P)(@D);",                   \* new callee
  "new(@D)(@P);",
  "x=new(@D,@P);",
  "x=(@P)`t${@D}`;",                \* template tag
  "x=`${@D}${@P}`;",
  "x=a?.[@D]?.(@P);",               \* optional chain tail
  "x=(@P)?.b[@D];",
  "x=(@P)**@D;",                    \* exponent base / exponent
  "x=@D**(@P);",
  "x=-(@P)+@D;",
  "x=@D?@P:c;",
  "x=c?@D:@P;",
  "x=[@D,@P];",
  "x={a:@D,b:@P};",
  "x={[@D]:@P};",
  "f(@D,@P);",
  "f(...[@D],@P);",
  "if(@D)@P;else c()",
  "if(@D)c();else @P;",
  "do @P;while(@D)",
  "while(@D)@P;",
  "switch(@D){case @P:c()}",
  "function f(a=@D,b=@P){}",
  "class A extends(@P){[@D](){}}",
  "x=function(){return @D,@P};",
  "x=function(){throw @D,@P};",
  "x=function*(){yield @D,@P};",
  "x=async function(){await @D;await(@P)};",
  "x=typeof(@P)+@D;",
  "x=(@P).a+@D;",
  "x=(@P)[@D];",
  "x=(@P)(@D);",
  "x=@D in(@P);",
  "x=(@P)in @D;",
  "x=@D instanceof(@P);",
  "a:for(;;){@D;@P;break a}",
  "try{@D;@P}catch(e){}",
  "export default(@P);",
  "x=@D||(@P);",
  "x=(@P)??@D;",
  "x=(@D,@P);"
}

Disturbers == {
  "b['c']",            \* string-key index rewritten to a dot
  "b['1']",            \* string-key index rewritten to a number
  "b['c d']",          \* string-key index kept
  "b[c]",
  "b()",
  "b(c,d)",
  "(b)",
  "(b,c)",
  "[b]",
  "({})",
  "b?.c",
  "b.c",
  "`t${b}`",
  "b`t`",
  "function(){}",
  "b=>c",
  "new b",
  "new b(c)",
  "!b",
  "b++",
  "'s'",
  "1",
  "/r/",
  "('e'in b)",
  "b?c:d",
  "b=c",
  "class{}"
}

Payloads == {
  "('e'in f)",
  "(e in f)",
  "(!('e'in f))",
  "(g,'e'in f)",
  "(e?'e'in f:g)",
  "(()=>'e'in f)",
  "([e in f])",
  "(e[g in f])",
  "(e(g in f))",
  "(`${e in f}`)",
  "(function(){return e in f})",
  "(function(){})",
  "(function(){}())",
  "(class{})",
  "({})",
  "({a:1}.a)",
  "(let[0])",
  "(let)",
  "(async()=>{})",
  "(()=>{})",
  "(e=>e)",
  "(e,f)",
  "(e?f:g)",
  "(e=f)",
  "(e||f)",
  "(e??f)",
  "(-e)",
  "(+e)",
  "(e++)",
  "(++e)",
  "(new e)",
  "(new e())",
  "(new e.f)",
  "(e?.f)",
  "(e?.[f])",
  "(e`t`)",
  "(e**f)",
  "((-e)**f)",
  "(e<f)",
  "(/r/)",
  "('s')",
  "(1)",
  "(1.5)",
  "(e['f'])",
  "(e.f)",
  "(e())",
  "(typeof e)",
  "(void 0)",
  "(e instanceof f)"
}

VARIABLES ctx, ds, p
vars == <<ctx, ds, p>>
Init == /\ ctx \in Contexts
        /\ \E k \in 1..MaxD : ds \in [1..k -> Disturbers]
        /\ p \in Payloads
Next == FALSE /\ UNCHANGED vars
Spec == Init /\ [][Next]_vars
TypeOK == ctx \in Contexts /\ Len(ds) \in 1..MaxD /\ p \in Payloads
=============================================================================
