----------------------------- MODULE CliFsSem -----------------------------
(* C20, layer 1: POSIX file-system semantics of the system calls the command issues, as pure
   operators on a file-system value

     fs = [names : path (bytes, "d/c.js") -> node,   node = [k |-> "f", ino |-> n] | [k |-> "d", ino |-> 0]
                                                            | [k |-> "l", ino |-> 0, t |-> link text]
           data  : inode number -> content (a sequence: bytes in traces, abstract chunks in the design model)
           fds   : descriptor -> [ino, off, wr]          (descriptors of files inside the tree only)
           next  : next free inode number]

   Used by the design model (CliFs) and by the validator of strace logs (C20Trace), so that the
   crash-safety invariant is evaluated on the same notion of "what is on disk" in both.            *)
EXTENDS CliPath

\* what is found at a path: Some(content) or Absent ("no such file")
Some(c) == [ok |-> TRUE, c |-> c]
Absent  == [ok |-> FALSE, c |-> <<>>]
DirNode == [k |-> "d", ino |-> 0, t |-> <<>>]
NoNode  == [k |-> "none", ino |-> 0, t |-> <<>>]
FileNode(i) == [k |-> "f", ino |-> i, t |-> <<>>]
LinkNode(t) == [k |-> "l", ino |-> 0, t |-> t]

NodeAt(fs, cs) == IF cs = <<>> THEN DirNode
                  ELSE LET p == JoinComps(cs) IN IF p \in DOMAIN fs.names THEN fs.names[p] ELSE NoNode

(* path resolution: symbolic links in the directory part are always followed, the last component only
   when followLast (open, stat) and not for rename/unlink/symlink/lstat *)
RECURSIVE FsRes(_, _, _, _, _)
FsRes(fs, done, todo, followLast, fuel) ==
  IF todo = <<>> THEN done
  ELSE IF fuel = 0 THEN <<DotDot>>                \* resolves to nothing that exists
  ELSE LET cand == Append(done, Head(todo))
           nd == NodeAt(fs, cand)
       IN IF nd.k = "l" /\ (Len(todo) > 1 \/ followLast)
          THEN FsRes(fs, <<>>, CleanOnto(done, nd.t) \o Tail(todo), followLast, fuel - 1)
          ELSE FsRes(fs, cand, Tail(todo), followLast, fuel - 1)
Real(fs, p, followLast) == FsRes(fs, <<>>, Comps(p), followLast, 24)
RealPath(fs, p, followLast) == JoinComps(Real(fs, p, followLast))

\* what a reader finds at path p (links followed): the content, or Absent
ContentAt(fs, p) ==
  LET nd == NodeAt(fs, Real(fs, p, TRUE)) IN IF nd.k = "f" THEN Some(fs.data[nd.ino]) ELSE Absent
InodeAt(fs, p) ==
  LET nd == NodeAt(fs, Real(fs, p, TRUE)) IN IF nd.k = "f" THEN nd.ino ELSE 0
Exists(fs, p) == NodeAt(fs, Real(fs, p, TRUE)).k # "none"
ParentIsDir(fs, cs) == cs # <<>> /\ NodeAt(fs, FrontOf(cs)).k = "d"

SetName(names, p, nd) == [q \in (DOMAIN names) \cup {p} |-> IF q = p THEN nd ELSE names[q]]
DelName(names, p) == [q \in (DOMAIN names) \ {p} |-> names[q]]

\* rename(2): the name `to` now denotes what `from` denoted (atomically replacing `to`); files and links only
CanRename(fs, from, to) ==
  LET f == Real(fs, from, FALSE) t == Real(fs, to, FALSE)
  IN NodeAt(fs, f).k \in {"f", "l"} /\ ParentIsDir(fs, t) /\ NodeAt(fs, t).k # "d"
DoRename(fs, from, to) ==
  LET f == RealPath(fs, from, FALSE) t == RealPath(fs, to, FALSE)
  IN IF f = t THEN fs ELSE [fs EXCEPT !.names = SetName(DelName(@, f), t, fs.names[f])]

\* open(2) for reading, or for writing with O_CREAT and/or O_TRUNC; returns the new file system (fd bound)
CanOpen(fs, p, creat) ==
  LET r == Real(fs, p, TRUE) IN NodeAt(fs, r).k = "f" \/ (creat /\ NodeAt(fs, r).k = "none" /\ ParentIsDir(fs, r))
DoOpen(fs, p, fd, wr, creat, trunc) ==
  LET r == Real(fs, p, TRUE)
      nd == NodeAt(fs, r)
      new == nd.k = "none"
      ino == IF new THEN fs.next ELSE nd.ino
  IN [names |-> IF new THEN SetName(fs.names, JoinComps(r), FileNode(ino)) ELSE fs.names,
      data  |-> IF new \/ (trunc /\ wr) THEN [i \in (DOMAIN fs.data) \cup {ino} |-> IF i = ino THEN <<>> ELSE fs.data[i]]
                ELSE fs.data,
      fds   |-> [d \in (DOMAIN fs.fds) \cup {fd} |-> IF d = fd THEN [ino |-> ino, off |-> 0, wr |-> wr] ELSE fs.fds[d]],
      next  |-> IF new THEN fs.next + 1 ELSE fs.next]

\* write(2) of `chunk` at the descriptor's offset (descriptors we do not track: no effect on the tree)
Overwrite(old, off, chunk) ==
  SubSeq(old, 1, off) \o chunk \o SubSeq(old, off + Len(chunk) + 1, Len(old))
DoWrite(fs, fd, chunk) ==
  IF fd \notin DOMAIN fs.fds THEN fs
  ELSE LET d == fs.fds[fd] IN
       [fs EXCEPT !.data[d.ino] = Overwrite(@, d.off, chunk), !.fds[fd].off = d.off + Len(chunk)]
DoRead(fs, fd, n) ==
  IF fd \notin DOMAIN fs.fds THEN fs ELSE [fs EXCEPT !.fds[fd].off = @ + n]
\* copy_file_range(2)/sendfile(2) with file offsets: n bytes from fdin's position to fdout's position
DoCopyRange(fs, fdin, fdout, n) ==
  IF fdin \notin DOMAIN fs.fds \/ fdout \notin DOMAIN fs.fds THEN fs
  ELSE LET i == fs.fds[fdin] IN
       DoRead(DoWrite(fs, fdout, SubSeq(fs.data[i.ino], i.off + 1, i.off + n)), fdin, n)
\* pwrite(2): like write at an explicit offset, the descriptor's position does not move
DoPWrite(fs, fd, chunk, off) ==
  IF fd \notin DOMAIN fs.fds THEN fs
  ELSE LET d == fs.fds[fd]
           old == fs.data[d.ino]
           pad == IF off > Len(old) THEN old \o [i \in 1..(off - Len(old)) |-> 0] ELSE old
       IN [fs EXCEPT !.data[d.ino] = Overwrite(pad, off, chunk)]
\* truncate(2)/ftruncate(2) of an inode to n bytes
TruncIno(fs, ino, n) ==
  IF ino \notin DOMAIN fs.data THEN fs
  ELSE LET old == fs.data[ino] IN
       [fs EXCEPT !.data[ino] = IF n <= Len(old) THEN SubSeq(old, 1, n) ELSE old \o [i \in 1..(n - Len(old)) |-> 0]]
DoFTruncate(fs, fd, n) == IF fd \notin DOMAIN fs.fds THEN fs ELSE TruncIno(fs, fs.fds[fd].ino, n)
DoTruncate(fs, p, n) == TruncIno(fs, InodeAt(fs, p), n)
\* link(2): a second name for the same inode;  rmdir(2)
DoLink(fs, from, to) == [fs EXCEPT !.names = SetName(@, RealPath(fs, to, FALSE), NodeAt(fs, Real(fs, from, FALSE)))]
DoRmdir(fs, p) == [fs EXCEPT !.names = DelName(@, RealPath(fs, p, FALSE))]
DoClose(fs, fd) == [fs EXCEPT !.fds = [d \in (DOMAIN fs.fds) \ {fd} |-> fs.fds[d]]]
\* unlink(2): the name goes away (the data stays reachable through other names / open descriptors)
CanUnlink(fs, p) == NodeAt(fs, Real(fs, p, FALSE)).k \in {"f", "l"}
DoUnlink(fs, p) == [fs EXCEPT !.names = DelName(@, RealPath(fs, p, FALSE))]
DoMkdir(fs, p) == LET r == RealPath(fs, p, FALSE) IN
                  IF r \in DOMAIN fs.names THEN fs ELSE [fs EXCEPT !.names = SetName(@, r, DirNode)]
DoSymlink(fs, text, p) == [fs EXCEPT !.names = SetName(@, RealPath(fs, p, FALSE), LinkNode(text))]

\* names of files and links (not directories), for comparing the model with a snapshot of the disk
Leaves(fs) == {p \in DOMAIN fs.names : fs.names[p].k # "d"}
=============================================================================
