----------------------------- MODULE MediatypeGen -----------------------------
(* C18 generator for media type strings: the reachable states are all byte strings of length
   <= MaxLen over Alphabet (quotes, backslash, blanks, separators, both letter cases - the
   in-place copy logic of minify.Mediatype is a finite-alphabet target).  TLC enumerates them
   exhaustively (state dump = inputs of the real helper) and checks the sanity of the two
   readings of the relation on every string: the normal form is itself a "safe" result, is a
   fixed point, and is the only safe result without blanks/upper case outside strings. *)
EXTENDS MtMachine, TLC
CONSTANTS MaxLen, Alphabet
VARIABLES s, known            \* known = s is an input construct on which the pre-fix design was wrong
vars == <<s, known>>
Init == s = <<>> /\ known = FALSE
Next == Len(s) < MaxLen /\ \E c \in Alphabet : s' = Append(s, c) /\ known' = Known(s')
Spec == Init /\ [][Next]_vars
\* (RandomElement must be mentioned once: TLC re-evaluates a LET definition at every mention, two mentions are two draws)
NextSim == Len(s) < MaxLen /\ s' = Append(s, RandomElement(Alphabet)) /\ known' = Known(s')
SpecSim == Init /\ [][NextSim]_vars

(* design models of the helper (MtMachine): the transcription of the current code satisfies the relation on
   every string and is a projection; the old (pre-fix) design kept its indices inside the buffer and is wrong
   only on the Known constructs (wrong-design guard) *)
AsIsOK == MediatypeOK(s, AsIs(s))
AsIsIdem == AsIs(AsIs(s)) = AsIs(s)
OldIndexSafe == OldRun(s).safe
OldWrongOnlyOnKnown == ~MediatypeOK(s, OldAsIs(s)) => known
NormalFormSafe == MtSafe(s, MtExpected(s)) /\ MediatypeOK(s, MtExpected(s))
NormalFormFixed == MtExpected(MtExpected(s)) = MtExpected(s)
IdentitySafe == MtSafe(s, s)                      \* doing nothing is "only lower-casing and stripping"
\* touching a byte inside a quoted string is never accepted
InsideProtected ==
  UnterminatedAt(s) = 0 =>
  \A i \in 1..Len(MtExpected(s)) :
     LET e == MtExpected(s) IN
     (e[i] = 65 /\ i > 1) => ~MediatypeOK(s, [e EXCEPT ![i] = 97])
Alpha8 == {65, 97, 32, 34, 59, 61, 47, 92}        \* A a space " ; = / \
Alpha10 == Alpha8 \cup {9, 66}                    \* + tab B
AlphaAll == (32..126) \cup {9, 10, 13}
=============================================================================
