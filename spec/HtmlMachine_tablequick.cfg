SPECIFICATION Spec
CONSTANTS MaxNodes = 4
MaxDepth = 4
DocMode = FALSE
Vocab <- VocabTable
TextKinds <- TK3
OptSets <- Opts4
Bugs <- NoBugs
INVARIANTS BuilderSound DesignRefines Emit
CHECK_DEADLOCK FALSE
