SPECIFICATION Spec
CONSTANTS Langs <- LangsAll
MaxF <- MaxFQuick
AllBits = FALSE
FullPairs = FALSE
Precs <- PrecsAll
Vers <- VersAll
INVARIANTS CoverOK Slice TypeOK Discriminating CompletionSmall
CHECK_DEADLOCK FALSE
