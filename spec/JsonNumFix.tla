----------------------------- MODULE JsonNumFix -----------------------------
(* Design model (level D) of the number branch of json.Minify for C07:

       text = minify.Number(text, o.Precision)
       if text[0] == '.'                        { write "0" }
       else if text[0] == '-' && text[1] == '.' { text = text[1:]; write "-0" }
       write text

   minify.Number works for CSS/SVG/JS too and prints `.5` / `-.5`; JSON forbids that
   (RFC 8259 section 6: int is mandatory), so the minifier repairs the result.  C08 only
   promises that Number returns a lexeme of the WIDER grammar [+-]?(d+.?d*|.d+)([eE][+-]?d+)?
   with the same value.  Checked here, over every lexeme t of that grammar up to MaxLen (the
   states of NumGen): the repair yields a JSON number EXACTLY when t is in Number's normal form
   (no '+', no superfluous leading zero, no dot without fraction digits) - so this, beyond
   C08's contract, is what C07 relies on -, it never changes the value, and it is the
   identity on JSON numbers.  The same automaton is the source of the number lexemes that
   are handed to the real minifier (dump of lex/st). *)
EXTENDS NumGen, JsonNumFn     \* Repair, NormalForm: JsonNumFn (shared with the trace specification)

IsLexeme == st \in Accepting
RepairOK == IsLexeme => /\ IsJsonNumber(Repair(lex)) = NormalForm(lex)
                        /\ ValueEq(lex, Repair(lex))
                        /\ Len(Repair(lex)) <= Len(lex) + 1
                        /\ IsNumber(Repair(lex))
JsonIsNormal == IsJsonNumber(lex) => (IsLexeme /\ NormalForm(lex) /\ Repair(lex) = lex /\ Kind(lex) = "num")
\* the recogniser's number DFA and the wider DFA agree where they must
NotJson == (IsLexeme /\ ~NormalForm(lex) /\ lex[1] # 46 /\ ~(Len(lex) > 1 /\ lex[1] = 45 /\ lex[2] = 46)) => Kind(lex) = "junk"
=============================================================================
