SPECIFICATION Spec
CONSTANTS MaxLen = 5
Alphabet <- Alpha4E
Precs <- PrecsQ
INVARIANTS NoPanic SliceInside DoneOK EmitDone
CHECK_DEADLOCK FALSE
