SPECIFICATION Spec
CONSTANTS MaxLen = 5
Core = TRUE
INVARIANTS SpacedLexesBack FusesAgree AllJudged
CHECK_DEADLOCK FALSE
