\* window family (see VocabWindow in XmlMachine.tla)
SPECIFICATION Spec
CONSTANTS MaxLen = 6
EmitMod = 1
Prefix <- PrefixOpenCdata
Emit = TRUE
Vocab <- VocabWindow
INVARIANTS TypeOK DesignRefinesInfoset EmitCase
CHECK_DEADLOCK FALSE
