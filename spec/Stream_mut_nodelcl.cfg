SPECIFICATION Spec
CONSTANTS
 Input <- In2
 MaxOut = 2
 PieceLen = 2
 MaxBuf = 3
 Modes <- ModesH
 PatchCL = FALSE
 Mut = "none"
 RecordHist = FALSE
 Monitor = TRUE
 FullProduct = FALSE
INVARIANTS ContentLengthGone MonitorFinal
