----------------------------- MODULE CssGen -----------------------------
(* Generator automaton and design-level model checking for C04.

   The families of the value grammar the minifier rewrites (DESIGN.md section 4, C04) are
   read from the ndjson file named by the environment variable ALPHA (written by
   tools/props/c04.py, lexemes tokenized by the harness tokenizer).  A family has slots, each
   with a small alphabet; a state is a family together with a prefix of slot choices.  TLC
   enumerates every state (exhaustive within the bounds of the cfg / alphabet file); the
   state dump is the set of inputs handed to the real minifier.

   In every state the meaning functions are evaluated (variable ok = "the value is inside the
   domain of the meaning functions"), so a meaning function that is not total on its family
   makes model checking fail.  The invariants are the design model: each rewrite the
   minifier documents for a family (side merging, default removal, keyword expansion,
   pair collapsing ...) is transcribed as an operator D on token lists and must preserve
   the meaning:  Meaning(D(x)) = Meaning(x)  for every enumerated x inside the domain. *)
EXTENDS CssEq, IOUtils, Json

Fams == ndJsonDeserialize(IOEnv.ALPHA)
NF == Len(Fams)
VARIABLES f, seq, ok
vars == <<f, seq, ok>>

WsTok == [k |-> "ws", s |-> <<32>>, v |-> <<>>, n |-> <<>>, d |-> <<>>, w |-> "", a |-> <<>>]
PunctTok(k, c) == [k |-> k, s |-> <<c>>, v |-> <<>>, n |-> <<>>, d |-> <<>>, w |-> "", a |-> <<>>]
FuncTok(w, args) == [k |-> "func", s |-> <<>>, v |-> <<>>, n |-> <<>>, d |-> <<>>, w |-> w, a |-> args]

Slot(fi, j) == LET F == Fams[fi] IN IF F.kind \in {"list", "sel", "clist", "at"} THEN F.slots[1] ELSE F.slots[j]
Entry(fi, s, j) == Slot(fi, j)[s[j]]
MaxLen(fi) == LET F == Fams[fi] IN IF F.kind \in {"list", "sel", "clist", "at"} THEN F.max ELSE Len(F.slots)
Complete(fi, s) == LET F == Fams[fi] IN IF F.kind \in {"list", "sel", "clist", "at"} THEN Len(s) >= F.min ELSE Len(s) = Len(F.slots)

(* the token list a state stands for *)
JoinWs(tl) == Flatten([i \in 1..Len(tl) |-> IF i = 1 THEN tl[i] ELSE <<WsTok>> \o tl[i]])
NumTok(numE, unitE) ==
  LET nt == numE.toks[1] IN
  IF unitE.lex = "" THEN nt
  ELSE IF unitE.lex = "%" THEN [nt EXCEPT !.k = "pct"]
  ELSE [nt EXCEPT !.k = "dim", !.w = unitE.w, !.v = unitE.v]
Toks(fi, s) ==
  LET F == Fams[fi]
      E(j) == Entry(fi, s, j)
  IN
  CASE F.kind \in {"list", "at"} -> JoinWs([j \in 1..Len(s) |-> E(j).toks])
    [] F.kind = "sel" -> Flatten([j \in 1..Len(s) |-> E(j).toks])
    [] F.kind = "clist" -> Flatten([j \in 1..Len(s) |-> IF j = 1 THEN E(j).toks ELSE <<PunctTok("comma", 44)>> \o E(j).toks])
    [] F.kind = "func" ->
         LET n == IF Len(E(4).toks) = 0 THEN 3 ELSE 4
             sepc(j) == IF F.sep = "comma" THEN <<PunctTok("comma", 44)>>
                        ELSE IF j = 4 THEN <<PunctTok("delim", 47)>> ELSE <<WsTok>>
         IN <<FuncTok(F.fn, Flatten([j \in 1..n |-> IF j = 1 THEN E(j).toks ELSE sepc(j) \o E(j).toks]))>>
    [] F.kind = "num" ->
         LET t == NumTok(E(1), E(2)) IN
         IF E(3).lex = "top" THEN <<t>> ELSE <<FuncTok(E(3).lex, <<t>>)>>
    [] OTHER -> <<>>

(* selectors: compound = type? sub*, complex = compound (combinator compound)* *)
SelValid(fi, s) ==
  LET c == [j \in 1..Len(s) |-> Entry(fi, s, j).cls] IN
  /\ Len(s) >= 1 /\ c[1] # "comb" /\ c[Len(s)] # "comb"
  /\ \A j \in 2..Len(s) : ~(c[j] = "comb" /\ c[j - 1] = "comb") /\ ~(c[j] = "type" /\ c[j - 1] # "comb")

(* at-rule preludes (media / supports conditions): no connective or comma at either end, no two
   of them in a row (a loose filter: the prelude grammar itself is not the subject here, the
   relation compares the token streams) *)
AtValid(fi, s) ==
  LET con(j) == Entry(fi, s, j).lex \in {"and", "or", ","}
      neg(j) == Entry(fi, s, j).lex \in {"not", "only"}
  IN /\ Len(s) >= 1 /\ ~con(1) /\ ~con(Len(s)) /\ ~neg(Len(s))
     /\ \A j \in 2..Len(s) : ~(con(j) /\ con(j - 1)) /\ ~(neg(j) /\ neg(j - 1)) /\ (con(j) \/ con(j - 1) \/ neg(j - 1))

InDomain(fi, s) ==
  LET F == Fams[fi] IN
  IF ~Complete(fi, s) THEN FALSE
  ELSE IF F.kind = "sel" THEN SelValid(fi, s) /\ Len(SelCanon(Toks(fi, s), FALSE)) >= 0
  ELSE IF F.kind = "at" THEN AtValid(fi, s) /\ ~HasOOD(PreludeCanon(F.pn, Toks(fi, s)))
  ELSE ~HasOOD(DeclMeaning(F.pn, Toks(fi, s)))

Init == f \in 1..NF /\ seq = <<>> /\ ok = FALSE
Next == /\ Len(seq) < MaxLen(f)
        /\ \E c \in 1..Len(Slot(f, Len(seq) + 1)) :
              /\ seq' = Append(seq, c)
              /\ ok' = InDomain(f, seq')
        /\ f' = f
Spec == Init /\ [][Next]_vars

(* ---------------- design model: the documented rewrites preserve the meaning ---------------- *)
M(fi, toks) == DeclMeaning(Fams[fi].pn, toks)
Sub(s, idx) == [j \in 1..Len(idx) |-> s[idx[j]]]
CtOf(fi, s, j) == CanonList(Entry(fi, s, j).toks, "top", TRUE)

\* margin/padding/border-width: merge equal sides (css.go, case Margin, Padding, Border_Width)
DTrbl(fi, s) ==
  LET e(i, j) == CtOf(fi, s, i) = CtOf(fi, s, j)  n == Len(s) IN
  CASE n = 2 /\ e(1, 2) -> Sub(s, <<1>>)
    [] n = 3 /\ e(1, 2) /\ e(1, 3) -> Sub(s, <<1>>)
    [] n = 3 /\ e(1, 3) -> Sub(s, <<1, 2>>)
    [] n = 4 /\ e(1, 2) /\ e(1, 3) /\ e(1, 4) -> Sub(s, <<1>>)
    [] n = 4 /\ e(1, 3) /\ e(2, 4) -> Sub(s, <<1, 2>>)
    [] n = 4 /\ e(2, 4) -> Sub(s, <<1, 2, 3>>)
    [] OTHER -> s
\* border*, outline, column-rule, text-decoration, text-emphasis: drop components at their initial value
DDrop(fi, s, initials) == SelectSeq(s, LAMBDA c : LET e == Slot(fi, 1)[c] IN ~(Len(e.toks) = 1 /\ e.toks[1].k = "ident" /\ e.toks[1].w \in initials))
InitialsOf(pn) ==
  CASE pn \in BorderProps \/ pn = "column-rule" -> {"none", "currentcolor", "medium"}
    [] pn = "outline" -> {"none", "invert", "medium"}
    [] pn = "text-decoration" -> {"none", "currentcolor", "solid"}
    [] pn = "text-emphasis" -> {"none", "currentcolor"}
    [] OTHER -> {}
\* background-size / background-repeat of one layer: x auto -> x ; k k -> k
LexOf(fi, s, j) == Entry(fi, s, j).lex
DPair(fi, s) ==
  IF Len(s) = 2 /\ Fams[fi].pn = "background-size" /\ LexOf(fi, s, 2) = "auto" /\ LexOf(fi, s, 1) \notin {"cover", "contain", ","} THEN Sub(s, <<1>>)
  ELSE IF Len(s) = 2 /\ Fams[fi].pn = "background-repeat" /\ LexOf(fi, s, 1) = LexOf(fi, s, 2) /\ LexOf(fi, s, 1) \in RepKw THEN Sub(s, <<1>>)
  ELSE s
\* background-position: the two axes of a 4-value / keyword pair may be written in either order
DSwap(fi, s) ==
  LET c(j) == PosClass(CtOf(fi, s, j)[1]) IN
  IF Len(s) = 4 /\ c(1) \in {"H", "V"} /\ c(2) = "L" /\ c(3) \in {"H", "V"} /\ c(4) = "L" THEN Sub(s, <<3, 4, 1, 2>>)
  ELSE IF Len(s) = 2 /\ c(1) \in {"H", "V"} /\ c(2) \in {"H", "V"} THEN Sub(s, <<2, 1>>)
  ELSE s

\* box-shadow (one layer): a zero spread, then a zero blur, may be left out (css.go, case Box_Shadow)
DShadow(fi, s) ==
  LET hasComma == \E j \in 1..Len(s) : LexOf(fi, s, j) = ","
      isLen(j) == Len(CtOf(fi, s, j)) = 1 /\ IsLen(CtOf(fi, s, j)[1])
      zero(j) == IsZeroCT(CtOf(fi, s, j)[1])
      li == SelectSeq([j \in 1..Len(s) |-> j], isLen)
      drop(t, k) == [j \in 1..Len(t) - 1 |-> IF j < k THEN t[j] ELSE t[j + 1]]
      s1 == IF Len(li) = 4 /\ zero(li[4]) THEN drop(s, li[4]) ELSE s
      n1 == IF Len(li) = 4 /\ zero(li[4]) THEN 3 ELSE Len(li)
  IN IF hasComma THEN s
     ELSE IF n1 = 3 /\ zero(li[3]) THEN drop(s1, li[3]) ELSE s1
\* flex: zero basis / shrink 1 / the keyword forms (css.go, case Flex)
IdxOfLex(fi, x) == CHOOSE c \in 1..Len(Slot(fi, 1)) : Slot(fi, 1)[c].lex = x
DFlex(fi, s) ==
  LET tk(j) == Entry(fi, s, j).toks[1]
      num(j) == tk(j).k = "num"
      zero(j) == tk(j).k \in {"num", "pct", "dim"} /\ NumCanon(tk(j).n) = <<>>
      is(j, x) == LexOf(fi, s, j) = x
  IN
  IF Len(s) = 2 /\ num(1) /\ ~num(2) /\ zero(2) THEN Sub(s, <<1>>)
  ELSE IF Len(s) = 3 /\ num(1) /\ num(2) THEN
       IF is(3, "auto") /\ is(1, "0") /\ is(2, "1") THEN <<IdxOfLex(fi, "initial")>>
       ELSE IF is(3, "auto") /\ is(1, "1") /\ is(2, "1") THEN <<IdxOfLex(fi, "auto")>>
       ELSE IF is(3, "auto") /\ is(1, "0") /\ is(2, "0") THEN <<IdxOfLex(fi, "none")>>
       ELSE IF is(2, "1") /\ zero(3) THEN Sub(s, <<1>>)
       ELSE IF zero(3) THEN Sub(s, <<1, 2>>)
       ELSE s
  ELSE s

Law(D(_, _)) == (ok /\ Fams[f].kind = "list") => M(f, Toks(f, D(f, seq))) = M(f, Toks(f, seq))
DesignTrbl == Fams[f].pn \in TRBLProps => Law(DTrbl)
DesignDrop == InitialsOf(Fams[f].pn) # {} =>
                 ((ok /\ Fams[f].kind = "list") => M(f, Toks(f, DDrop(f, seq, InitialsOf(Fams[f].pn)))) = M(f, Toks(f, seq)))
DesignPair == Fams[f].pn \in {"background-size", "background-repeat"} => Law(DPair)
DesignSwap == Fams[f].pn = "background-position" => Law(DSwap)
DesignShadow == Fams[f].pn = "box-shadow" => Law(DShadow)
DesignFlex == Fams[f].pn = "flex" => Law(DFlex)
\* the relation is reflexive on everything that is enumerated (a pass-through is always accepted)
Reflexive == Complete(f, seq) /\ Fams[f].kind \notin {"sel", "at"} =>
               ItemVerdict([t |-> "decl", name |-> <<>>, pn |-> Fams[f].pn, imp |-> FALSE, pre |-> Toks(f, seq)],
                           [t |-> "decl", name |-> <<>>, pn |-> Fams[f].pn, imp |-> FALSE, pre |-> Toks(f, seq)]) = ""
\* colour functions: every channel of a computed colour is an 8-bit value
ColourRange == (ok /\ Fams[f].kind = "func") =>
                 LET m == M(f, Toks(f, seq)) IN
                 Len(m) = 1 /\ (m[1].c = "colour" => \A i \in 1..3 : m[1].b[i] \in 0..255)
=============================================================================
