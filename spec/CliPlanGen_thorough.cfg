SPECIFICATION Spec
CONSTANTS MaxFiles = 4
INVARIANTS TypeOK EachSourceOnce Mirror FreshOutputIsSafe SyncCoversAll RefuseOnlyInPlace Emit
CHECK_DEADLOCK FALSE
