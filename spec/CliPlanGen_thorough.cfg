SPECIFICATION Spec
CONSTANTS MaxFiles = 4
INVARIANTS TypeOK EachSourceOnce Mirror FreshOutputIsSafe SyncCoversAll KnownOnlyInPlace Emit
CHECK_DEADLOCK FALSE
