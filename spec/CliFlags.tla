----------------------------- MODULE CliFlags -----------------------------
(* Property C16, command line part: "CLI flags mapped onto the option structs".  The table
   below is transcribed from the usage text in cmd/minify/README.md (flag, the minifier it
   belongs to, the option of that minifier's documentation it stands for); the last row is
   documented in the library README (option KeepSpecialComments) and in `minify --help`.
   For a set of flags the real BINARY's output must equal the LIBRARY's output under exactly
   the options the table assigns - and, on an input that contains the guarded constructs, it
   must differ from the output under default options (the flag is not ignored). *)
EXTENDS Integers, Sequences, FiniteSets

Row(f, l, o, k) == [flag |-> f, lang |-> l, opt |-> o, kind |-> k]
FlagTable == <<
  Row("css-precision", "css", "Precision", "int"),
  Row("html-keep-comments", "html", "KeepComments", "bool"),
  Row("html-keep-conditional-comments", "html", "KeepConditionalComments", "bool"),
  Row("html-keep-default-attrvals", "html", "KeepDefaultAttrVals", "bool"),
  Row("html-keep-document-tags", "html", "KeepDocumentTags", "bool"),
  Row("html-keep-end-tags", "html", "KeepEndTags", "bool"),
  Row("html-keep-quotes", "html", "KeepQuotes", "bool"),
  Row("html-keep-whitespace", "html", "KeepWhitespace", "bool"),
  Row("js-keep-var-names", "js", "KeepVarNames", "bool"),
  Row("js-precision", "js", "Precision", "int"),
  Row("js-version", "js", "Version", "int"),
  Row("json-keep-numbers", "json", "KeepNumbers", "bool"),
  Row("json-precision", "json", "Precision", "int"),
  Row("svg-keep-comments", "svg", "KeepComments", "bool"),
  Row("svg-precision", "svg", "Precision", "int"),
  Row("xml-keep-whitespace", "xml", "KeepWhitespace", "bool"),
  Row("html-keep-special-comments", "html", "KeepSpecialComments", "bool") >>
Rows == 1..Len(FlagTable)
RowOf(f) == FlagTable[CHOOSE i \in Rows : FlagTable[i].flag = f]
Langs == {FlagTable[i].lang : i \in Rows}

\* values for which the rich input of the language is discriminating
Values(r) ==
  IF r.kind = "bool" THEN {1}
  ELSE IF r.opt = "Version" THEN {5, 2015, 2019} ELSE {1, 2, 4}

BoolNames == {"KeepComments", "KeepConditionalComments", "KeepSpecialComments", "KeepDefaultAttrVals",
              "KeepDocumentTags", "KeepEndTags", "KeepQuotes", "KeepWhitespace", "KeepCSS2", "KeepVarNames", "KeepNumbers"}
IntNames == {"Precision", "Version"}

(* The option record that a sequence fl of [flag, val] denotes: every option at its default
   except those the table assigns. *)
Denoted(fl, name) ==
  LET hit == {i \in 1..Len(fl) : RowOf(fl[i].flag).opt = name} IN
  IF hit = {} THEN 0 ELSE fl[CHOOSE i \in hit : TRUE].val
\* the library run recorded in event e used exactly the denoted options
OptionsAgree(e) ==
  /\ \A n \in BoolNames : e.o[n] = (Denoted(e.exp.fl, n) = 1)
  /\ \A n \in IntNames : e.o[n] = Denoted(e.exp.fl, n)
  /\ e.o.Delims = <<>>
  /\ \A i \in 1..Len(e.exp.fl) : RowOf(e.exp.fl[i].flag).lang = e.lang

(* --type / --mime.  cmd/minify/README.md: "--type string  Filetype (eg. css or text/css), optional when
   specifying inputs", "--mime string  Mimetype (eg. text/css) ... (DEPRECATED, use --type)", and section
   "Types": "Default extension mapping to mimetype (and thus minifier)" with the table transcribed here.
   lang is the minifier the README's own description of the library assigns to the mimetype (HTML text/html,
   CSS text/css, JS application/javascript, JSON [/+]json$, SVG image/svg+xml, XML [/+]xml$).  For a row the
   real binary's output under --type=<type>, --type=<mimetype> and --mime=<mimetype> must equal the library's
   output of that minifier with default options, and the input must actually have been minified. *)
TRow(t, m, l) == [type |-> t, mime |-> m, lang |-> l]
TypeTable == <<
  TRow("css", "text/css", "css"), TRow("htm", "text/html", "html"), TRow("html", "text/html", "html"),
  TRow("js", "application/javascript", "js"), TRow("json", "application/json", "json"),
  TRow("mjs", "application/javascript", "js"), TRow("rss", "application/rss+xml", "xml"),
  TRow("svg", "image/svg+xml", "svg"), TRow("webmanifest", "application/manifest+json", "json"),
  TRow("xhtml", "application/xhtml+xml", "xml"), TRow("xml", "text/xml", "xml") >>
TypeRows == 1..Len(TypeTable)
Hows == <<"type", "type-mime", "mime">>
TypeArgOK(e) ==
  LET r == TypeTable[e.exp.ty] IN
  /\ e.lang = r.lang
  /\ \A n \in BoolNames : e.o[n] = FALSE
  /\ \A n \in IntNames : e.o[n] = 0
  /\ e.exp.arg = (IF e.exp.how = 1 THEN r.type ELSE r.mime)
=============================================================================
