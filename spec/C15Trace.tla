----------------------------- MODULE C15Trace -----------------------------
(* Trace validation for C15.  One trace line = one behaviour replayed on a real minify.M:
     [id, steps]   steps = registrations followed by queries, one uniform record per action
   (fields: see harness/cmd/c15/main.go Step).  TLC consumes the steps one state at a time,
   carrying the abstract registry (lit, pats of Registry.tla) through the registrations and
   judging every query against Lookup on that state.  A new line starts from the empty registry. *)
EXTENDS Registry, TraceIO
VARIABLES l, k
tvars == <<l, k, lit, pats, hist>>

Steps(i) == Trace[i].steps
TInit == l = 1 /\ k = 1 /\ RInit
Apply(s) ==
  IF s.op \in LitKinds THEN RegLit(s.op, s.lit, s.sid, s.cmd)
  ELSE IF s.op \in PatKinds THEN RegPat(s.op, s.pat, s.sid, s.cmd)
  ELSE UNCHANGED <<lit, pats>>
TNext ==
  /\ l <= N
  /\ hist' = hist
  /\ IF k <= Len(Steps(l))
     THEN l' = l /\ k' = k + 1 /\ Apply(Steps(l)[k])
     ELSE l' = l + 1 /\ k' = 1 /\ lit' = <<>> /\ pats' = <<>>
TSpec == TInit /\ [][TNext]_tvars

-----------------------------------------------------------------------------
\* short codes (PrintT wraps long tuples; the texts are in tools/props/c15.py CLAUSES)
RejectAt(code) == Reject(l, code \o "@" \o ToString(k))
bytesC == 67  bytesF == 70  bytesP == 80  bytesE == 69  COLON == 58
Digit(n) == 48 + n
Pairs(kvs) == {<<kvs[i][1], kvs[i][2]>> : i \in DOMAIN kvs}
SameParams(kvs, ps) == Pairs(kvs) = ParamSet(ps) /\ Len(kvs) = Cardinality(ParamSet(ps))

\* what the registered stub / command does with its input (test fixture, mirrored in the driver)
Fails(e, inp) == e.kind \notin {"AddCmd", "AddCmdRegexp"} /\ Len(inp) > 0 /\ inp[1] = bytesE
StubOut(e, inp) ==
  IF e.kind \in {"AddCmd", "AddCmdRegexp"} THEN <<bytesC, Digit(e.id), COLON>> \o inp
  ELSE IF Fails(e, inp) THEN <<bytesP>> ELSE <<bytesF, Digit(e.id), COLON>> \o inp

\* pattern string that Match reports: the literal mimetype, or the source of the regular expression
PatSrc(p) ==
  CASE p = 1 -> <<94,116,101,120,116,47>>                                     \* ^text/
    [] p = 2 -> <<91,47,43,93,120,109,108,36>>                                \* [/+]xml$
    [] p = 3 -> <<46,42>>                                                     \* .*
    [] p = 4 -> <<94,40,97,112,112,108,105,99,97,116,105,111,110,124,116,101,120,116,41,47,40,120,45,41,63,40,106,97,118,97,124,101,99,109,97,41,115,99,114,105,112,116,36>>
    [] p = 5 -> <<105,109,97,103,101,47,46,42>>                               \* image/.*
    [] p = 6 -> <<91,47,43,93,106,115,111,110,36>>                            \* [/+]json$

\* the run of the selected minifier as observed by the caller
Served(s, e, sp) ==
  /\ (s.ran = e.id /\ s.nran = 1) \/ RejectAt("WRONGMIN")
  /\ (e.kind \in {"AddCmd", "AddCmdRegexp"} \/ SameParams(s.gparams, sp.params)) \/ RejectAt("PARAMS")
  /\ (s.gin = s.inp) \/ RejectAt("INPUT")
  /\ (s.out = StubOut(e, s.inp)) \/ RejectAt("OUTPUT")
  /\ (IF Fails(e, s.inp) THEN s.err = "stub" /\ s.errid = e.id ELSE s.err = "nil") \/ RejectAt("ERROR")

QueryOK(s) ==
  LET low == s.op = "MinifyMimetype"       \* lower level entry: mimetype and params already split by the caller
      sp == IF low THEN [mime |-> s.q, params |-> s.rparams] ELSE Split(s.q)
      e  == Lookup(sp.mime)
  IN /\ (low \/ (sp.mime = s.pmime /\ SameParams(s.pparams, sp.params))) \/ RejectAt("ORACLE")
     /\ IF s.op \in {"Minify", "MinifyMimetype"}
        THEN IF e = None
             \* "otherwise it fails with the not-exist error and writes nothing"
             THEN (s.err = "notexist" /\ s.out = <<>> /\ s.nran = 0) \/ RejectAt("NOTEXIST")
             ELSE Served(s, e, sp)
        ELSE \* Match: "the match query answers exactly what a call would use"
             IF e = None
             THEN (s.rnil /\ s.nran = 0) \/ RejectAt("MATCHNOTNIL")
             ELSE /\ (~s.rnil) \/ RejectAt("MATCHNIL")
                  /\ SameParams(s.rparams, sp.params) \/ RejectAt("MATCHPARAMS")
                  /\ (s.rpat = IF e.via = 0 THEN sp.mime ELSE PatSrc(e.via)) \/ RejectAt("MATCHPAT")
                  /\ s.rnil \/ Served(s, e, sp)

Conforms ==
  (l <= N /\ k <= Len(Steps(l))) =>
     LET s == Steps(l)[k] IN
       IF s.op \in LitKinds \cup PatKinds THEN TRUE
       ELSE (s.err # "panic" \/ RejectAt("PANIC")) /\ (s.err = "panic" \/ QueryOK(s))

\* acceptance: every step of every line was consumed
TotalStates == FoldLeft(LAMBDA a, r : a + Len(r.steps) + 1, 1, Trace)
AcceptedAll == TLCGet("stats").diameter = TotalStates
=============================================================================
