SPECIFICATION Spec
CONSTANTS
 Input <- In3
 MaxOut = 3
 PieceLen = 2
 MaxBuf = 3
 Modes <- ModesAll
 PatchCL = FALSE
 Mut = "none"
 RecordHist = FALSE
 Monitor = TRUE
 FullProduct = TRUE
INVARIANTS ChunkingInvariance PassThrough CloseWaits SelectionRule FaultSurfaces NoSilentTruncation NotExistSurfaces NoPartialInput MonitorQuiet MonitorFinal
PROPERTIES NoWriteAfterClose CloseReturned
