SPECIFICATION Spec
CONSTANTS
 Input <- In3
 MaxOut = 3
 PieceLen = 2
 MaxBuf = 3
 Modes <- ModesAll
 PatchCL = FALSE
 Mut = "none"
 RecordHist = FALSE
 FullProduct = TRUE
VIEW View
INVARIANTS ChunkingInvariance PassThrough CloseWaits SelectionRule FaultSurfaces NoSilentTruncation NotExistSurfaces NoPartialInput
PROPERTIES NoWriteAfterClose CloseReturned
