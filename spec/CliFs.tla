----------------------------- MODULE CliFs -----------------------------
(* C20, layer 2: design model of cmd/minify/main.go minify(t) run by NWorkers parallel workers over a
   queue of tasks, on top of the file-system semantics of CliFsSem.  One action per system call the
   code issues (SameFile -> rename to .bak -> open input -> open output with truncate -> read all
   (bundles open the next source lazily) -> minify -> write chunk by chunk -> close both -> unlink .bak
   | unlink destination + rename .bak back -> attributes), with the failure branches the code has
   (open of the output fails, a write fails, the minifier fails) and a crash enabled in every state.

   Contents are abstract: the original content of the file created at path p is the one-chunk sequence
   << <<"o", p>> >> (or empty), the complete new output of task t is New(t), nch chunks.

   Invariants (the property statement of C20):
     NeverLost          "for every input file either its original path still holds the complete original
                         bytes, or a sibling backup (<name>.bak) holds them, or the path already holds the
                         complete new output"
     ReadOnlyUntouched  "files that are only read are never modified"
     BakRemovedOnlyAfterComplete (action property)  the backup disappears only when the destination is complete
                         or the original is back
     DoneClean          after an undisturbed run: new content in place, no backup left
   OthersUntouched (files that are neither read nor written keep their bytes) is NOT an invariant of the
   design in the setups with a stale <name>.bak: CliFs_bak.cfg lets TLC find that counterexample, the
   check replays it on the real binary (known finding of C19/C20).                                     *)
EXTENDS CliFsSem

CONSTANTS NWorkers, MaxChunks, SetupIds, FaultTasks, Protocol
          \* FaultTasks: how many of the first tasks may suffer faults (0 = fault-free model)
          \* Protocol: "fixed" = the code since bdbfbd6/282e2ab (refuse when <src>.bak exists; the renamed source is
          \*           remembered by index), "old" = before (rename over an existing <src>.bak; backup recognised by the
          \*           spelling dst+".bak").  The "old" configurations are vacuity guards: they MUST violate.
          \*           "fixed2" = the code since f452f5d (the default): "fixed" + a task whose backup name belongs to another
          \*           task of the run is not started at all (decided before any worker runs).  "fixed" alone is a guard too:
          \*           two workers race for the name (CliFs_bakinput_fixed.cfg MUST violate NeverLost).

A    == <<97>>                         \* "a"
Bf   == <<98>>                         \* "b"
Nn   == <<110>>                        \* "n"
Lk   == <<108>>                        \* "l"
Gh   == <<103>>                        \* "g"
Out  == <<111>>                        \* "o"
OutA == <<111, 47, 97>>                \* "o/a"
OutB == <<111, 47, 98>>                \* "o/b"
OutN == <<111, 47, 110>>               \* "o/n"
Bak(p) == p \o BakSuffix
Orig(p) == << <<"o", p>> >>

F(p)     == [p |-> p, k |-> "f", t |-> <<>>]
L(p, t)  == [p |-> p, k |-> "l", t |-> t]
H(p, t)  == [p |-> p, k |-> "h", t |-> t]
T(srcs, dst, sync) == [srcs |-> srcs, dst |-> dst, sync |-> sync]

Setup(id) ==
  CASE id = "inplace2"      -> [files |-> <<F(A), F(Bf)>>,            tasks |-> <<T(<<A>>, A, FALSE), T(<<Bf>>, Bf, FALSE)>>]
    [] id = "separate"      -> [files |-> <<F(A), F(Bf)>>,            tasks |-> <<T(<<A>>, OutA, FALSE), T(<<Bf>>, OutB, FALSE)>>]
    [] id = "inplace3"      -> [files |-> <<F(A), F(Bf), F(Nn)>>,     tasks |-> <<T(<<A>>, A, FALSE), T(<<Bf>>, Bf, FALSE), T(<<Nn>>, Nn, FALSE)>>]
    [] id = "mixed3"        -> [files |-> <<F(A), F(Bf), F(Nn)>>,     tasks |-> <<T(<<A>>, A, FALSE), T(<<Bf>>, OutB, FALSE), T(<<Nn>>, OutN, TRUE)>>]
    [] id = "bundle"        -> [files |-> <<F(A), F(Bf)>>,            tasks |-> <<T(<<A, Bf>>, Out, FALSE)>>]
    [] id = "bundleinplace" -> [files |-> <<F(A), F(Bf)>>,            tasks |-> <<T(<<A, Bf>>, Bf, FALSE)>>]
    [] id = "sync"          -> [files |-> <<F(A), F(Nn)>>,            tasks |-> <<T(<<A>>, OutA, FALSE), T(<<Nn>>, OutN, TRUE)>>]
    [] id = "syncinplace"   -> [files |-> <<F(A), F(Nn)>>,            tasks |-> <<T(<<A>>, A, FALSE), T(<<Nn>>, Nn, TRUE)>>]
    [] id = "alias"         -> [files |-> <<F(A), L(Lk, A)>>,         tasks |-> <<T(<<Lk>>, A, FALSE)>>]
    [] id = "hard"          -> [files |-> <<F(A), H(Gh, A)>>,         tasks |-> <<T(<<A>>, A, FALSE)>>]
    [] id = "overwrite"     -> [files |-> <<F(A), F(Out)>>,           tasks |-> <<T(<<A>>, Out, FALSE)>>]
    [] id = "bak"           -> [files |-> <<F(A), F(Bak(A))>>,        tasks |-> <<T(<<A>>, A, FALSE)>>]
    [] id = "bakinput"      -> [files |-> <<F(A), F(Bak(A))>>,        tasks |-> <<T(<<A>>, A, FALSE), T(<<Bak(A)>>, Bak(A), FALSE)>>]

VARIABLES fs, setup, nch, queue, wk, faults, crashed
vars == <<fs, setup, nch, queue, wk, faults, crashed>>

Workers == 1..NWorkers
Tasks == setup.tasks
New(t) == [i \in 1..nch |-> <<"n", t, i>>]
Idle == [pc |-> "idle", t |-> 0, srcs |-> <<>>, bak |-> 0, buf |-> <<>>, rd |-> 0, out |-> <<>>, wn |-> 0, err |-> FALSE]
FdIn(x) == 10 * x + 1
FdOut(x) == 10 * x + 2
NoFault == [min |-> FALSE, wr |-> 0, open |-> FALSE]

InitFs(files) ==
  LET n == Len(files)
      InoOf(i) == IF files[i].k = "h" THEN Min({j \in 1..n : files[j].p = files[i].t}) ELSE i
  IN [names |-> [p \in {files[i].p : i \in 1..n} |->
                   LET i == Min({j \in 1..n : files[j].p = p}) IN
                   IF files[i].k = "l" THEN LinkNode(files[i].t) ELSE FileNode(InoOf(i))],
      data  |-> [i \in {j \in 1..n : files[j].k = "f"} |-> Orig(files[i].p)],
      fds   |-> <<>>,
      next  |-> n + 1]

Init ==
  /\ \E id \in SetupIds : setup = Setup(id)
  /\ nch \in 0..MaxChunks
  /\ fs = InitFs(setup.files)
  /\ queue = [i \in 1..Len(setup.tasks) |-> i]
  /\ wk = [x \in Workers |-> Idle]
  /\ faults \in [1..Len(setup.tasks) -> [min : BOOLEAN, wr : 0..MaxChunks, open : BOOLEAN]]
  /\ \A t \in 1..Len(setup.tasks) : (t > FaultTasks => faults[t] = NoFault) /\ faults[t].wr <= nch
  /\ crashed = FALSE

Upd(x, r) == wk' = [wk EXCEPT ![x] = r]
Same(x) == UNCHANGED <<setup, nch, faults, crashed>>

\* (fixed2) decided from the task list before any worker starts: the backup name of a file minified onto itself is a
\* source or destination of another task
SkippedUpFront(t) ==
  LET g == InitFs(setup.files) IN
  \E i \in 1..Len(Tasks[t].srcs) :
     /\ InodeAt(g, Tasks[t].srcs[i]) # 0 /\ InodeAt(g, Tasks[t].srcs[i]) = InodeAt(g, Tasks[t].dst)
     /\ \E u \in 1..Len(Tasks) : u # t /\ Bak(Tasks[t].srcs[i]) \in ({Tasks[u].srcs[j] : j \in 1..Len(Tasks[u].srcs)} \cup {Tasks[u].dst})
\* take the next task; a sync task whose source IS its destination (same spelling) needs no action
Take(x) ==
  /\ wk[x].pc = "idle" /\ queue # <<>>
  /\ LET t == Head(queue) tk == Tasks[t] IN
       /\ queue' = Tail(queue)
       /\ Upd(x, IF (tk.sync /\ tk.srcs[1] = tk.dst) \/ (Protocol = "fixed2" /\ SkippedUpFront(t)) THEN Idle
                 ELSE [Idle EXCEPT !.pc = "same", !.t = t, !.srcs = tk.srcs])
  /\ UNCHANGED fs /\ Same(x)

\* SameFile(srcs[i], dst) for i = 1.. : the first source that is the destination (os.Stat identity)
SameFileStep(x) ==
  /\ wk[x].pc = "same"
  /\ LET w == wk[x] dst == Tasks[w.t].dst
         hit == {i \in DOMAIN w.srcs : InodeAt(fs, w.srcs[i]) # 0 /\ InodeAt(fs, w.srcs[i]) = InodeAt(fs, dst)}
     IN Upd(x, IF hit = {} THEN [w EXCEPT !.pc = "openin"] ELSE [w EXCEPT !.pc = "rename", !.bak = Min(hit)])
  /\ UNCHANGED <<fs, queue>> /\ Same(x)

\* os.Rename(t.dst, srcs[i] + ".bak")
RenameToBak(x) ==
  /\ wk[x].pc = "rename"
  /\ LET w == wk[x] dst == Tasks[w.t].dst b == Bak(w.srcs[w.bak]) IN
       IF Protocol \in {"fixed", "fixed2"} /\ NodeAt(fs, Real(fs, b, FALSE)).k # "none"
       THEN /\ UNCHANGED fs /\ Upd(x, Idle)                         \* os.Lstat(b) succeeds: "backup file already exists", return false
       ELSE IF CanRename(fs, dst, b)
       THEN /\ fs' = DoRename(fs, dst, b)
            /\ Upd(x, [w EXCEPT !.pc = "openin", !.srcs[w.bak] = b])
       ELSE /\ UNCHANGED fs /\ Upd(x, Idle)                         \* Error, return false
  /\ UNCHANGED queue /\ Same(x)

OpenIn(x) ==
  /\ wk[x].pc = "openin"
  /\ LET w == wk[x] IN
       IF CanOpen(fs, w.srcs[1], FALSE)
       THEN /\ fs' = DoOpen(fs, w.srcs[1], FdIn(x), FALSE, FALSE, FALSE)
            /\ Upd(x, [w EXCEPT !.pc = "openout", !.rd = 1])
       ELSE /\ UNCHANGED fs /\ Upd(x, Idle)
  /\ UNCHANGED queue /\ Same(x)

\* MkdirAll(dir of dst) + OpenFile(dst, O_WRONLY|O_TRUNC|O_CREATE); on failure the input is closed and that is all
MkParents(f, p) == LET cs == Comps(p) IN
  FoldLeft(LAMBDA acc, n : DoMkdir(acc, JoinComps(SubSeq(cs, 1, n))), f, [n \in 1..(Len(cs) - 1) |-> n])
OpenOut(x) ==
  /\ wk[x].pc = "openout"
  /\ LET w == wk[x] dst == Tasks[w.t].dst f1 == MkParents(fs, dst) IN
       IF faults[w.t].open \/ ~CanOpen(f1, dst, TRUE)
       THEN /\ fs' = DoClose(fs, FdIn(x)) /\ Upd(x, Idle)
       ELSE /\ fs' = DoOpen(f1, dst, FdOut(x), TRUE, TRUE, TRUE)
            /\ Upd(x, [w EXCEPT !.pc = "read"])
  /\ UNCHANGED queue /\ Same(x)

\* io.ReadAll: the current source is read to its end; a bundle then closes it and opens the next one
ReadSrc(x) ==
  /\ wk[x].pc = "read"
  /\ LET w == wk[x]
         got == fs.data[fs.fds[FdIn(x)].ino]
         more == w.rd < Len(w.srcs)
     IN IF ~more THEN /\ UNCHANGED fs
                      /\ Upd(x, [w EXCEPT !.pc = "minify", !.buf = @ \o got])
        ELSE LET f1 == DoClose(fs, FdIn(x)) nxt == w.srcs[w.rd + 1] IN
             IF CanOpen(f1, nxt, FALSE)
             THEN /\ fs' = DoOpen(f1, nxt, FdIn(x), FALSE, FALSE, FALSE)
                  /\ Upd(x, [w EXCEPT !.buf = @ \o got, !.rd = @ + 1])
             ELSE /\ fs' = DoClose(f1, FdOut(x)) /\ Upd(x, Idle)      \* "cannot minify": both closed, return false
  /\ UNCHANGED queue /\ Same(x)

\* m.Minify into memory; on error the original bytes are written instead; sync copies
Minify(x) ==
  /\ wk[x].pc = "minify"
  /\ LET w == wk[x] IN
       Upd(x, [w EXCEPT !.pc = "write", !.out = IF Tasks[w.t].sync \/ faults[w.t].min THEN w.buf ELSE New(w.t)])
  /\ UNCHANGED <<fs, queue>> /\ Same(x)

\* io.Copy(fw, w): one write(2) per chunk; a failing write ends the copy with err # nil
WriteChunk(x) ==
  /\ wk[x].pc = "write"
  /\ LET w == wk[x] IN
       IF w.wn = Len(w.out) THEN UNCHANGED fs /\ Upd(x, [w EXCEPT !.pc = "closein"])
       ELSE IF faults[w.t].wr = w.wn + 1 THEN UNCHANGED fs /\ Upd(x, [w EXCEPT !.pc = "closein", !.err = TRUE])
       ELSE /\ fs' = DoWrite(fs, FdOut(x), <<w.out[w.wn + 1]>>)
            /\ Upd(x, [w EXCEPT !.wn = @ + 1])
  /\ UNCHANGED queue /\ Same(x)

CloseIn(x) ==
  /\ wk[x].pc = "closein"
  /\ fs' = DoClose(fs, FdIn(x)) /\ Upd(x, [wk[x] EXCEPT !.pc = "closeout"])
  /\ UNCHANGED queue /\ Same(x)

\* after both are closed: sync tasks are done; otherwise look for srcs[i] == dst + ".bak"
CloseOut(x) ==
  /\ wk[x].pc = "closeout"
  /\ fs' = DoClose(fs, FdOut(x))
  /\ LET w == wk[x] dst == Tasks[w.t].dst
         mine == w.bak # 0 /\ (Protocol \in {"fixed", "fixed2"} \/ w.srcs[w.bak] = Bak(dst))
     IN Upd(x, [w EXCEPT !.pc = IF Tasks[w.t].sync \/ ~mine THEN "attrs" ELSE IF w.err THEN "unlinkdst" ELSE "unlinkbak"])
  /\ UNCHANGED queue /\ Same(x)

UnlinkBak(x) ==
  /\ wk[x].pc = "unlinkbak"
  /\ LET w == wk[x] IN
       IF CanUnlink(fs, w.srcs[w.bak]) THEN fs' = DoUnlink(fs, w.srcs[w.bak]) /\ Upd(x, [w EXCEPT !.pc = "attrs"])
       ELSE UNCHANGED fs /\ Upd(x, Idle)
  /\ UNCHANGED queue /\ Same(x)

UnlinkDst(x) ==
  /\ wk[x].pc = "unlinkdst"
  /\ LET w == wk[x] dst == Tasks[w.t].dst IN
       IF CanUnlink(fs, dst) THEN fs' = DoUnlink(fs, dst) /\ Upd(x, [w EXCEPT !.pc = "restore"])
       ELSE UNCHANGED fs /\ Upd(x, Idle)
  /\ UNCHANGED queue /\ Same(x)

Restore(x) ==
  /\ wk[x].pc = "restore"
  /\ LET w == wk[x] dst == Tasks[w.t].dst IN
       IF CanRename(fs, w.srcs[w.bak], dst) THEN fs' = DoRename(fs, w.srcs[w.bak], dst) /\ Upd(x, [w EXCEPT !.pc = "attrs"])
       ELSE UNCHANGED fs /\ Upd(x, Idle)
  /\ UNCHANGED queue /\ Same(x)

\* preserveAttributes: chmod/chown/utimes of the destination - no effect on contents
Attrs(x) ==
  /\ wk[x].pc = "attrs"
  /\ Upd(x, Idle)
  /\ UNCHANGED <<fs, queue>> /\ Same(x)

\* the process is killed: every worker stops where it is, open descriptors vanish, the disk stays as it is
Crash ==
  /\ ~crashed
  /\ crashed' = TRUE
  /\ wk' = [x \in Workers |-> [wk[x] EXCEPT !.pc = "dead"]]
  /\ fs' = [fs EXCEPT !.fds = <<>>]
  /\ UNCHANGED <<setup, nch, queue, faults>>

\* one named disjunct per system call of the code, so that TLC's coverage shows that each one is exercised
Live(Act(_)) == ~crashed /\ \E x \in Workers : Act(x)
ATake == Live(Take)
ASame == Live(SameFileStep)
ARename == Live(RenameToBak)
AOpenIn == Live(OpenIn)
AOpenOut == Live(OpenOut)
ARead == Live(ReadSrc)
AMinify == Live(Minify)
AWrite == Live(WriteChunk)
ACloseIn == Live(CloseIn)
ACloseOut == Live(CloseOut)
AUnlinkBak == Live(UnlinkBak)
AUnlinkDst == Live(UnlinkDst)
ARestore == Live(Restore)
AAttrs == Live(Attrs)
Next == \/ ATake \/ ASame \/ ARename \/ AOpenIn \/ AOpenOut \/ ARead \/ AMinify \/ AWrite \/ ACloseIn \/ ACloseOut
        \/ AUnlinkBak \/ AUnlinkDst \/ ARestore \/ AAttrs \/ Crash
Spec == Init /\ [][Next]_vars

\* ---------------------------------------------------------------------------------------------------
f0 == InitFs(setup.files)
\* sources that are (initially) the same file as their task's destination: the files minified onto themselves
OntoItself == {<<t, i>> \in {<<t, i>> \in (1..Len(Tasks)) \X (1..2) : i <= Len(Tasks[t].srcs)} :
                 InodeAt(f0, Tasks[t].srcs[i]) # 0 /\ InodeAt(f0, Tasks[t].srcs[i]) = InodeAt(f0, Tasks[t].dst)}
FirstOnto(t) == Min({i \in 1..Len(Tasks[t].srcs) : <<t, i>> \in OntoItself})
\* the complete content the destination of task t is meant to receive
Complete(t) ==
  IF Tasks[t].sync \/ faults[t].min
  THEN FoldLeft(LAMBDA acc, p : acc \o ContentAt(f0, p).c, <<>>, Tasks[t].srcs)
  ELSE New(t)
Dsts == {RealPath(f0, Tasks[t].dst, TRUE) : t \in 1..Len(Tasks)}

NeverLost ==
  \A ti \in OntoItself :
    LET p == Tasks[ti[1]].srcs[ti[2]] o == ContentAt(f0, p) IN
      \/ ContentAt(fs, p) = o
      \/ ContentAt(fs, Bak(p)) = o
      \/ ContentAt(fs, p) = Some(Complete(ti[1]))

\* sources that are not written by any task keep their bytes
ReadOnlyUntouched ==
  \A t \in 1..Len(Tasks) : \A i \in 1..Len(Tasks[t].srcs) :
    LET p == Tasks[t].srcs[i] IN
      (InodeAt(f0, p) \notin {InodeAt(f0, Tasks[u].dst) : u \in 1..Len(Tasks)}) => ContentAt(fs, p) = ContentAt(f0, p)

\* files that are neither sources nor destinations nor (would-be) backups keep their bytes - includes second
\* names (hard links) of a file minified onto itself
Involved == UNION {{RealPath(f0, Tasks[t].srcs[i], TRUE) : i \in 1..Len(Tasks[t].srcs)} : t \in 1..Len(Tasks)} \cup Dsts
OthersUntouched ==
  \A p \in Leaves(f0) : (RealPath(f0, p, TRUE) \notin Involved) => ContentAt(fs, p) = ContentAt(f0, p)

\* the sibling backup of a file minified onto itself goes away only once the destination is complete or the
\* original is back at its path
BakRemovedOnlyAfterComplete ==
  [][\A ti \in OntoItself :
       LET p == Tasks[ti[1]].srcs[ti[2]] o == ContentAt(f0, p) IN
         (ContentAt(fs, Bak(p)) = o /\ ContentAt(fs', Bak(p)) # o /\ ~crashed')
            => (ContentAt(fs, p) = Some(Complete(ti[1])) \/ ContentAt(fs', p) = o)]_vars

AllDone == ~crashed /\ queue = <<>> /\ \A x \in Workers : wk[x].pc = "idle"
\* one task's backup name is another task's file: the tasks interfere (setup "bakinput")
Interfering == \E t, u \in 1..Len(Tasks) : t # u /\ \E i \in 1..Len(Tasks[t].srcs) :
                  RealPath(f0, Bak(Tasks[t].srcs[i]), FALSE) \in ({RealPath(f0, Tasks[u].srcs[j], FALSE) : j \in 1..Len(Tasks[u].srcs)} \cup {RealPath(f0, Tasks[u].dst, FALSE)})
\* a file minified onto itself whose backup name is taken from the start is refused (fixed protocol)
RefusedAtStart(t) == \E ti \in OntoItself : ti[1] = t /\ ti[2] = FirstOnto(t) /\ ~Tasks[t].sync
                                              /\ NodeAt(f0, Real(f0, Bak(Tasks[t].srcs[ti[2]]), FALSE)).k # "none"
\* after an undisturbed run a file minified onto itself holds the new content (the original after a failed write or
\* when it was refused), and the backup is gone - also when the destination names the source through a link
DoneClean ==
  AllDone => \A ti \in OntoItself :
    LET t == ti[1] p == Tasks[t].srcs[ti[2]] IN
      (ti[2] = FirstOnto(t) /\ ~Tasks[t].sync /\ ~faults[t].open /\ ~Interfering) =>
         IF RefusedAtStart(t) THEN ContentAt(fs, p) = ContentAt(f0, p) /\ ContentAt(fs, Bak(p)) = ContentAt(f0, Bak(p))
         ELSE /\ ~Exists(fs, Bak(p))
              /\ ContentAt(fs, Tasks[t].dst) = IF faults[t].wr # 0 THEN ContentAt(f0, Tasks[t].dst) ELSE Some(Complete(t))
\* no backup is left behind by an undisturbed run (nothing named <x>.bak that was not there before)
NoLeftoverBackup ==
  (AllDone /\ \A t \in 1..Len(Tasks) : ~faults[t].open /\ ~Tasks[t].sync) =>
     \A t \in 1..Len(Tasks) : \A i \in 1..Len(Tasks[t].srcs) :
        LET b == RealPath(f0, Bak(Tasks[t].srcs[i]), FALSE) IN (b \in Leaves(fs)) => (b \in Leaves(f0))
\* every destination of an undisturbed, fault-free task that is not refused is complete
DestinationsComplete ==
  AllDone => \A t \in 1..Len(Tasks) :
    ((faults[t] = NoFault \/ faults[t] = [NoFault EXCEPT !.min = TRUE]) /\ ~RefusedAtStart(t) /\ ~Interfering)
       => ContentAt(fs, Tasks[t].dst) = Some(Complete(t))
NoDescriptorLeak == AllDone => fs.fds = <<>>
=============================================================================
