----------------------------- MODULE CssValue -----------------------------
(* Canonical meaning of CSS component values (property C04).

   A token as recorded by the harness tokenizer (CSS Syntax Level 3) is a record
     [k: kind, s: source bytes, v: decoded value bytes (unit for dimensions), n: number lexeme,
      d: data-URL payload, w: ASCII-lower-cased v as an atomic string, a: arguments/contents]
   A canonical token (CT) is a record [c, u, b, a] with c a class string, u a lower-case
   keyword/unit/function-name string, b a tuple of integers and a a sequence of CTs, built so
   that two component values "mean the same" in the sense of the property statement iff
   their CTs are equal:
     - numbers, percentages, dimensions: exact rational value (NumVal.Canon) and the unit,
       ASCII case-insensitive ("equal numbers and units");
     - a zero <length> is the number zero ("a zero length may lose its unit only where the
       grammar allows": CSS Values 3 section 5.1 - a unit-less 0 is a valid <length> wherever
       the grammar takes one), except inside math functions (calc() etc. are type-checked:
       `0 + 1px` is invalid) and substitution functions (var/env/attr fallbacks are token
       streams).  A zero <angle> is the number zero only inside (non-math) functions:
       transform functions, hue-rotate(), gradients and hue arguments take <angle> | <zero>
       (CSS Transforms 1, Filter Effects 1, CSS Images 4), a bare property value does not
       (CSS Values 3 section 6.1).  Times, frequencies, resolutions, fr never lose the unit.
       The zero-mode zm says where a token is: "top" (directly in the declaration value),
       "fn" (inside a function), "keep" (inside a math/substitution function, or in `flex`
       where a unit-less zero is a <number>);
     - colours in every notation: CssColor ("equal sRGB colour and alpha");
     - strings and urls: their decoded value ("equal strings, URLs"); data: URLs by payload;
     - everything else: the token itself ("passed through"), white space dropped except that
       white space around + and - is recorded (it is significant in math functions). *)
EXTENDS CssColor

Mk(c, u, b, a) == [c |-> c, u |-> u, b |-> b, a |-> a]
Marker(s) == Mk(s, "", <<>>, <<>>)
ZeroCT == Mk("num", "", <<>>, <<>>)
OOD == Marker("OOD")           \* "outside the domain of the meaning functions" (input side only)

\* absolute and relative length units of CSS Values and Units 3/4 (section 5: <length>)
LengthUnits == {"px", "cm", "mm", "q", "in", "pt", "pc", "em", "ex", "ch", "rem", "vw", "vh", "vmin", "vmax",
                "cap", "ic", "lh", "rlh", "vi", "vb", "svw", "svh", "lvw", "lvh", "dvw", "dvh"}

(* canonical number: <<>> for zero, else <<neg, exp10>> \o mantissa digits (no leading or
   trailing zeros).  When the decimal exponent does not fit an Int it is carried as a signed
   digit sequence: <<2, neg>> \o mantissa \o <<10, expneg>> \o exponent digits (10 separates,
   digits are 0..9), so that 00.250E+1234567890123456789 = 25e1234567890123456787. *)
RECURSIVE NatOfInt(_)
NatOfInt(n) == IF n < 10 THEN <<n>> ELSE NatOfInt(n \div 10) \o <<n % 10>>
SIntOfInt(k) == SInt(k < 0, NatOfInt(IF k < 0 THEN 0 - k ELSE k))
NumCanon(lex) ==
  IF ~IsNumber(lex) THEN <<3>> \o lex
  ELSE LET c == Canon(lex)  se == Small(c.exp) IN
       IF c.zero THEN <<>>
       ELSE IF IsFar(se)
       THEN LET E == SSub(c.exp, SIntOfInt(0 - c.k)) IN
            <<2, IF c.neg THEN 1 ELSE 0>> \o c.mant \o <<10, IF E.neg THEN 1 ELSE 0>> \o E.mag
       ELSE <<IF c.neg THEN 1 ELSE 0, se + c.k>> \o c.mant

IsWs(t) == t.k = "ws"
IsPM(t) == t.k = "delim" /\ (t.s = <<43>> \/ t.s = <<45>>)
IsSlash(t) == t.k = "delim" /\ t.s = <<47>>

HasPrefixCI(s, p) == Len(s) >= Len(p) /\ LowerS(SubSeq(s, 1, Len(p))) = p
DataPrefix == <<100, 97, 116, 97, 58>>      \* "data:"

AngleUnits == {"deg", "grad", "rad", "turn"}
KeepUnitFuncs == {"calc", "min", "max", "clamp", "round", "mod", "rem", "sin", "cos", "tan", "asin", "acos", "atan",
                  "atan2", "pow", "sqrt", "hypot", "log", "exp", "abs", "sign", "calc-size", "var", "env", "attr"}
ZeroLoses(zm, unit) == (zm \in {"top", "fn"} /\ unit \in LengthUnits) \/ (zm = "fn" /\ unit \in AngleUnits)
Inner(zm, w) == IF zm = "keep" \/ w \in KeepUnitFuncs THEN "keep" ELSE "fn"

RECURSIVE CanonList(_, _, _)
RECURSIVE CanonTok(_, _, _, _, _)

(* url: the decoded target; data: URLs are compared by their decoded payload (the media type
   part is the business of property C18) *)
UrlCT(v, d) == IF HasPrefixCI(v, DataPrefix) THEN Mk("durl", "", d, <<>>) ELSE Mk("url", "", v, <<>>)

(* nc: named colour keywords denote colours (FALSE for font family names) *)
(* local(<family-name>) of @font-face src: a quoted name and the same words written as
   identifiers name the same font (CSS Fonts 3 section 4.3) *)
JoinSp(parts) == FoldLeft(LAMBDA acc, p : IF acc = <<>> THEN p ELSE acc \o <<32>> \o p, <<>>, parts)
LocalCT(cts) ==
  IF Len(cts) = 1 /\ cts[1].c = "str" THEN Mk("func", "local", cts[1].b, <<>>)
  ELSE IF Len(cts) >= 1 /\ \A i \in 1..Len(cts) : cts[i].c = "ident"
  THEN Mk("func", "local", JoinSp([i \in 1..Len(cts) |-> cts[i].b]), <<>>)
  ELSE Mk("func", "local", <<>>, cts)

CanonTok(t, zm, nc, wsB, wsA) ==
  CASE t.k = "num" -> Mk("num", "", NumCanon(t.n), <<>>)
    [] t.k = "pct" -> Mk("pct", "", NumCanon(t.n), <<>>)
    [] t.k = "dim" ->
         LET b == NumCanon(t.n) IN
         IF b = <<>> /\ ZeroLoses(zm, t.w) THEN ZeroCT
         ELSE Mk("dim", t.w, b, <<>>)
    [] t.k = "ident" ->
         IF nc /\ t.w \in NamedSet THEN Mk("colour", "", NamedColour[t.w], <<>>)
         ELSE IF nc /\ t.w = "transparent" THEN Mk("colour", "", <<0, 0, 0, 0, 0>>, <<>>)
         ELSE Mk("ident", t.w, t.v, <<>>)
    [] t.k = "hash" ->
         IF IsHexColour(t.v) THEN Mk("colour", "", HexColour(t.v), <<>>) ELSE Mk("hash", "", t.v, <<>>)
    [] t.k = "str" -> Mk("str", "", t.v, <<>>)
    [] t.k = "url" -> UrlCT(t.v, t.d)
    [] t.k = "func" ->
         IF t.w = "url" /\ \E i \in 1..Len(t.a) : t.a[i].k = "str"
         THEN LET i == CHOOSE i \in 1..Len(t.a) : t.a[i].k = "str" IN UrlCT(t.a[i].v, t.d)
         ELSE LET fc == FuncColour(t) IN
              IF fc.st = "ok" THEN Mk("colour", "", fc.b, <<>>)
              ELSE IF fc.st = "ood" THEN OOD
              ELSE IF t.w = "local" THEN LocalCT(CanonList(t.a, "keep", FALSE))
              ELSE Mk("func", t.w, <<>>, CanonList(t.a, Inner(zm, t.w), nc))
    [] t.k \in {"(", "[", "{"} -> Mk("blk", t.k, <<>>, CanonList(t.a, Inner(zm, ""), nc))
    [] t.k = "delim" -> IF IsPM(t) THEN Mk("delim", "", t.s \o <<IF wsB THEN 1 ELSE 0, IF wsA THEN 1 ELSE 0>>, <<>>)
                        ELSE Mk("delim", "", t.s, <<>>)
    [] t.k = "urange" -> Mk("urange", "", LowerS(t.s), <<>>)
    [] t.k = "at" -> Mk("at", t.w, t.v, <<>>)
    [] OTHER -> Mk(t.k, "", IF t.k \in {"badstr", "badurl"} THEN t.s ELSE <<>>, <<>>)

CanonList(toks, zm, nc) ==
  LET n == Len(toks)
      all == [i \in 1..n |-> IF IsWs(toks[i]) THEN OOD
                             ELSE CanonTok(toks[i], zm, nc, i > 1 /\ IsWs(toks[i - 1]), i < n /\ IsWs(toks[i + 1]))]
      keep == SelectSeq([i \in 1..n |-> i], LAMBDA i : ~IsWs(toks[i]))
  IN [j \in 1..Len(keep) |-> all[keep[j]]]

\* INVALID: the value is not valid for its property (CSS-wide keyword inside a list, ...).  On the
\* input side this is outside the domain like OOD; an output that is INVALID for a valid input differs.
Invalid == Marker("INVALID")
RECURSIVE HasOOD(_)
HasOOD(cts) == \E i \in 1..Len(cts) : cts[i].c \in {"OOD", "INVALID"} \/ HasOOD(cts[i].a)

IsComma(ct) == ct.c = "comma"
IsSlashCT(ct) == ct.c = "delim" /\ ct.b = <<47>>
IsIdentCT(ct, kw) == ct.c = "ident" /\ ct.u = kw
IsZeroCT(ct) == ct.c \in {"num", "pct", "dim"} /\ ct.b = <<>>

(* split a CT list at top-level commas: sequence of (possibly empty) layers *)
SplitCommas(cts) ==
  LET n == Len(cts)
      cpos == SelectSeq([i \in 1..n |-> i], LAMBDA i : IsComma(cts[i]))
      m == Len(cpos)
      lo(j) == IF j = 1 THEN 1 ELSE cpos[j - 1] + 1
      hi(j) == IF j = m + 1 THEN n ELSE cpos[j] - 1
  IN [j \in 1..m + 1 |-> SubSeq(cts, lo(j), hi(j))]

Flatten(ss) == FoldLeft(LAMBDA acc, x : acc \o x, <<>>, ss)

\* trim CSS white space (space, tab, LF, CR, FF) from a byte sequence
IsWsByte(c) == c \in {32, 9, 10, 13, 12}
TrimBytes(s) ==
  LET n == Len(s)
      f[i \in 1..n + 1] == IF i > n THEN i ELSE IF IsWsByte(s[i]) THEN f[i + 1] ELSE i
      g[i \in 0..n] == IF i = 0 THEN 0 ELSE IF IsWsByte(s[i]) THEN g[i - 1] ELSE i
  IN IF f[1] > n THEN <<>> ELSE SubSeq(s, f[1], g[n])
=============================================================================
