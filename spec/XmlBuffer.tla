----------------------------- MODULE XmlBuffer -----------------------------
(* Design model (level D) of /repo/xml/buffer.go TokenBuffer (Peek / Shift over pos, len(buf), cap(buf)),
   checked against a plain queue over the lexer's token stream (level A): Peek(i) is the i-th unread token,
   Shift is the first unread token and consumes it; after the last token the lexer answers ErrorToken forever.

   The stream is 1, 2, .., n followed by Err (0).  Every behaviour is a sequence of calls; the history is handed
   out and replayed on the real TokenBuffer (comments <!--1--><!--2-->.. as tokens).  A deviation of the real
   buffer from the queue is reported as DRIFT information only: the property speaks about documents, and the
   minifier does not issue every call sequence (the window family of XmlMachine turns the interesting buffer
   states - unread tokens at pos > 0 while more are fetched, with and without growth - into documents). *)
EXTENDS Integers, Sequences, SequencesExt, TLC, Json
CONSTANTS N, MaxPeek, Depth, Emit, EmitMod
VARIABLES n, rd, buf, cap, pos, k, hist, ret
vars == <<n, rd, buf, cap, pos, k, hist, ret>>
Err == 0

Stream(i) == IF i <= n THEN i ELSE Err                         \* i-th token of the lexer (1-based)
Init == /\ n \in 0..N /\ rd = 0 /\ buf = <<>> /\ cap = 8 /\ pos = 0 /\ k = 0 /\ hist = <<>> /\ ret = -1

\* z.read: the next token of the lexer (Err again and again at the end)
ReadSeq(from, cnt) == [j \in 1..cnt |-> Stream(from + j)]

Peek(i) ==
  /\ Len(hist) < Depth
  /\ hist' = Append(hist, i) /\ UNCHANGED <<n, k>>
  /\ LET p0 == i + pos IN
     IF p0 < Len(buf) THEN ret' = buf[p0 + 1] /\ UNCHANGED <<rd, buf, cap, pos>>               \* buffered
     ELSE IF Len(buf) > 0 /\ buf[Len(buf)] = Err THEN ret' = Err /\ UNCHANGED <<rd, buf, cap, pos>>
     ELSE LET d == Len(buf) - pos
              p == i + 1                                               \* required peek length
              grow == 2 * p > cap
              kept == SubSeq(buf, pos + 1, Len(buf))                   \* copy(buf[:d], z.buf[z.pos:])
              fresh == ReadSeq(rd, p - d)
              \* reading stops at the first Err: buf = buf[:i+1], pos = i
              cut == IF \E j \in 1..Len(fresh) : fresh[j] = Err
                     THEN CHOOSE j \in 1..Len(fresh) : fresh[j] = Err /\ \A h \in 1..(j-1) : fresh[h] # Err
                     ELSE Len(fresh)
              nb == kept \o SubSeq(fresh, 1, cut)
          IN /\ cap' = IF grow THEN 2 * cap + p ELSE cap
             /\ buf' = nb /\ pos' = 0 /\ rd' = rd + cut
             /\ ret' = nb[Len(nb)]                                     \* &z.buf[pos]: the requested one, or the Err that stopped the reading
Shift ==
  /\ Len(hist) < Depth
  /\ hist' = Append(hist, -1) /\ k' = k + 1 /\ UNCHANGED <<n, cap>>
  /\ IF pos >= Len(buf)
     THEN /\ ret' = Stream(rd + 1) /\ rd' = rd + 1                    \* read into z.buf[:1][0]; len and pos stay
          /\ buf' = IF Len(buf) > 0 THEN [buf EXCEPT ![1] = Stream(rd + 1)] ELSE buf
          /\ UNCHANGED pos
     ELSE ret' = buf[pos + 1] /\ pos' = pos + 1 /\ UNCHANGED <<rd, buf>>
Next == Shift \/ \E i \in 0..MaxPeek : Peek(i)
Spec == Init /\ [][Next]_vars

\* the queue: what the last call must have returned
Expected == IF hist = <<>> THEN -1
            ELSE IF hist[Len(hist)] = -1 THEN Stream(k) ELSE Stream(k + 1 + hist[Len(hist)])
RefinesQueue == ret = Expected
TypeOK == pos <= Len(buf) /\ Len(buf) <= cap /\ rd >= 0
\* (EmitMod > 1: a deterministic 1/EmitMod sample of the histories is handed out)
Emitted == (Emit /\ Len(hist) = Depth /\ (n + FoldLeft(LAMBDA a, b : a + b, Depth, hist)) % EmitMod = 0) => PrintT(ToJson([n |-> n, ops |-> hist]))
=============================================================================
