SPECIFICATION Spec
CONSTANTS MaxTok = 40
MinTok = 24
MaxDepth = 5
Els <- ElsAll
Ats <- AtsAll
NVals = 1
MaxAttrs = 4
NTexts = 1
SvgPrefixChildren = TRUE
INVARIANTS Fits EmitDone
CHECK_DEADLOCK FALSE
