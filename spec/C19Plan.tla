----------------------------- MODULE C19Plan -----------------------------
(* C19, rendering step: every request line is either [id, gen |-> [k, S]] (a scenario of the
   generator's universe, named by shape number and entry numbers) or [id, sc] (a complete scenario
   written by the driver: bundles around read-buffer boundaries, late failures, pinned witnesses).
   TLC prints the (generated) scenario together with Plan(scenario); the driver needs the plan to know which
   library calls to make and drops scenarios the documentation does not determine.               *)
EXTENDS CliUniverse, TraceIO
VARIABLE l
Init == l = 1
Next == l <= N /\ l' = l + 1
Spec == Init /\ [][Next]_l
Scen(r) == IF Has(r, "gen") THEN Mk({r.gen.S[i] : i \in DOMAIN r.gen.S}, r.gen.k) ELSE r.sc
Out(r) == LET s == Scen(r)
              p == Plan(s)
          IN [id |-> r.id, sc |-> IF Has(r, "gen") THEN s ELSE <<>>, tasks |-> p.tasks, unspec |-> p.unspec, hazard |-> p.hazard,
              known |-> p.known, inplace |-> p.inplace]
Emit == l <= N => PrintT(<<"PLAN", ToJson(Out(Trace[l]))>>)
=============================================================================
