----------------------------- MODULE C19Plan -----------------------------
(* C19, rendering step: every request line is either [id, gen |-> [k, S]] (a scenario of the
   generator's universe, named by shape number and entry numbers) or [id, sc] (a complete scenario
   written by the driver: bundles around read-buffer boundaries, late failures, pinned witnesses).
   TLC prints the (generated) scenario together with Plan(scenario); the driver needs the plan to know which
   library calls to make and drops scenarios the documentation does not determine.               *)
EXTENDS CliUniverse, TraceIO
VARIABLES l, cur          \* cur = scenario and plan of line l, computed once per line
vars == <<l, cur>>
Scen(r) == IF Has(r, "gen") THEN Mk({r.gen.S[i] : i \in DOMAIN r.gen.S}, r.gen.k) ELSE r.sc
Render(i) == IF i > N THEN <<>> ELSE LET s == Scen(Trace[i]) IN [s |-> s, p |-> Plan(s)]
Init == l = 1 /\ cur = Render(1)
Next == l <= N /\ l' = l + 1 /\ cur' = Render(l + 1)
Spec == Init /\ [][Next]_vars
Out == [id |-> Trace[l].id, sc |-> IF Has(Trace[l], "gen") THEN cur.s ELSE <<>>, tasks |-> cur.p.tasks,
        unspec |-> cur.p.unspec, hazard |-> cur.p.hazard, known |-> cur.p.known, inplace |-> cur.p.inplace]
Emit == l <= N => PrintT(<<"PLAN", ToJson(Out)>>)
=============================================================================
