SPECIFICATION Spec
CONSTANTS Shared = FALSE
MaxCalls = 3
Forms <- AllForms
INVARIANT EachCallOwnInput
CHECK_DEADLOCK FALSE
