SPECIFICATION Spec
CONSTANTS
 MaxUnits = 2
 LocalNames = {"x", "y"}
 FreeNames = {"a", "ba"}
 Top = {"b"}
 MaxParams = 2
 MaxDecl = 2
 Start <- StartAB
 Cont <- ContABC
 DReserved = {"aa"}
 AllowWith = FALSE
 AllowVars = TRUE
 MaxUses = 2
 AllowFlat = FALSE
 MoveAfterRename = FALSE
 OldWith = FALSE
 RestoreOwn = FALSE
INVARIANTS FlagAsMeant StackDepth CaptureFree NoCollision PublicUnchanged NoReserved WithOwn WithCross Emit
CHECK_DEADLOCK FALSE
