SPECIFICATION Spec
CONSTANTS MaxN = 4
Coords <- C2
CtrlCoords <- C2
Letters <- LettersZ
FixZ = FALSE
FixDeg = TRUE
FixZeroL = TRUE
ForgetCp = TRUE
INVARIANTS Refines InRange
CHECK_DEADLOCK FALSE
