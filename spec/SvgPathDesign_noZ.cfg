SPECIFICATION Spec
CONSTANTS MaxN = 4
Coords <- C2
CtrlCoords <- C2
Letters <- LettersZ
GuardZ = FALSE
GuardDeg = TRUE
GuardZeroL = TRUE
INVARIANTS Refines InRange
CHECK_DEADLOCK FALSE
