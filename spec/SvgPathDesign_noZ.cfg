SPECIFICATION Spec
CONSTANTS MaxN = 3
Coords <- C3
CtrlCoords <- C2
GuardZ = FALSE
GuardDeg = TRUE
GuardZeroL = TRUE
INVARIANTS Refines InRange
CHECK_DEADLOCK FALSE
