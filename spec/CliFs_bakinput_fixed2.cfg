\* proposed patch fixes/C20-2 at design level: must hold
SPECIFICATION Spec
CONSTANTS
  NWorkers = 2
  MaxChunks = 1
  FaultTasks = 0
  Protocol = "fixed2"
  SetupIds = {"bakinput"}
INVARIANTS NeverLost ReadOnlyUntouched OthersUntouched
CHECK_DEADLOCK FALSE
