----------------------------- MODULE C02Drift -----------------------------
(* DRIFT information (never a verdict): does the design model JsRenamer still describe the code?
   One line = one scope tree emitted by the model checker, rendered in the plain style (anonymous
   function expressions and bare blocks, every reference as out("u", x)) and minified by the real
   code; `pairs` are the observed <<name-keeping spelling, shortened spelling>> of every identifier
   occurrence of the two outputs.  The model is evaluated with the REAL alphabet of js/vars.go
   (frequency order) and every tie order; the line drifts when no run of the model produces all
   observed pairs.  A drift means the transcription of renameScope/getName or of the parser's
   Declared/Undeclared lists in JsRenamer.tla is out of date - the abstract relation (C02Trace) is
   what judges the code. *)
EXTENDS JsRenamer, TraceIO
VARIABLE l
dvars == <<l, units, pc, newname, aux, fin, flag, stack>>

Unit(u) == [par |-> u.par, kind |-> u.kind, ps |-> u.ps, ls |-> ToSet(u.ls), vs |-> ToSet(u.vs), us |-> ToSet(u.us), w |-> u.w, fl |-> u.fl]
UnitsOf(e) == [i \in DOMAIN e.units |-> Unit(e.units[i])]

\* all finished renamings of the model (one per choice of tie orders)
RECURSIVE Finals(_, _, _, _)
Finals(us, a, i, nn) ==
  IF i > Len(us) THEN {nn}
  ELSE IF ~RenameOn(us, i) THEN Finals(us, a, i + 1, nn)
  ELSE UNION {Finals(us, a, i + 1, Assign(order, 1, 0, {CurName(nn, b) : b \in UndeclaredOf(us, a, i)}, nn)) :
                order \in Orders(us, a, i)}
PredictedPairs(a, nn) == LET r == RenSpelling(a, nn) IN {<<a.es[k][3], r[k]>> : k \in DOMAIN r} \cup {<<"out", "out">>}
NoDrift(e) ==
  LET us == UnitsOf(e)
      a  == Aux(us)
      ob == {<<e.pairs[i][1], e.pairs[i][2]>> : i \in DOMAIN e.pairs}
  IN \E nn \in Finals(us, a, 1, <<>>) : ob \subseteq PredictedPairs(a, nn)

DInit == l = 1 /\ units = <<>> /\ pc = 0 /\ newname = <<>> /\ aux = <<>> /\ fin = <<>> /\ flag = TRUE /\ stack = <<>>
DNext == l <= N /\ l' = l + 1 /\ UNCHANGED <<units, pc, newname, aux, fin, flag, stack>>
DSpec == DInit /\ [][DNext]_dvars
DriftFree == l <= N => (NoDrift(Trace[l]) \/ PrintT(<<"REJECT", l, "DRIFT">>))

StartReal == <<"e","t","n","s","o","i","a","r","c","l","d","u","h","m","f","p","g","v","b","j","y","_","w","O","x","C","E","k","A","S","M","F","T","z","D","N","L","R","P","H","I","B","V","$","W","U","K","q","Y","G","X","Q","Z","J">>
ContReal == <<"e","t","n","s","o","i","a","r","c","l","d","u","1","4","0","2","3","h","m","8","f","6","p","g","5","7","v","9","b","j","y","_","w","O","x","C","E","k","A","S","M","F","T","z","D","N","L","R","P","H","I","B","V","$","W","U","K","q","Y","G","X","Q","Z","J">>
=============================================================================
