------------------------------- MODULE Tables -------------------------------
(* The STANDARDS' side of property C17 ("Built-in replacement tables agree with the
   standards").  Everything in this module is transcribed from the standards named next
   to each definition -- never from the code under test (/repo).  spec/TablesMC.tla
   model-checks the internal consistency of this transcription; the colour list is
   additionally cross-checked against an independent machine source
   (golang.org/x/image/colornames, SVG 1.1 names) by tools/props/c17.py -- a disagreement
   there is a machinery error (exit 2), never a verdict.

   Names are TLA+ strings (atomic, used as set members / function arguments); text that
   has to be looked into travels as byte-code sequences in the trace lines instead. *)
EXTENDS Integers, Sequences, FiniteSets, TLC

(***************************************************************************)
(* HTML elements.  Source: HTML Living Standard, "Index of elements" and   *)
(* section 16.2 "Non-conforming features" (obsolete elements), plus the    *)
(* two embedded-content roots svg and math.                                *)
(***************************************************************************)
CurrentElements ==
  { "a", "abbr", "address", "area", "article", "aside", "audio", "b", "base", "bdi", "bdo",
    "blockquote", "body", "br", "button", "canvas", "caption", "cite", "code", "col",
    "colgroup", "data", "datalist", "dd", "del", "details", "dfn", "dialog", "div", "dl",
    "dt", "em", "embed", "fieldset", "figcaption", "figure", "footer", "form", "h1", "h2",
    "h3", "h4", "h5", "h6", "head", "header", "hgroup", "hr", "html", "i", "iframe", "img",
    "input", "ins", "kbd", "label", "legend", "li", "link", "main", "map", "mark", "menu",
    "meta", "meter", "nav", "noscript", "object", "ol", "optgroup", "option", "output", "p",
    "picture", "pre", "progress", "q", "rp", "rt", "ruby", "s", "samp", "script", "search",
    "section", "select", "slot", "small", "source", "span", "strong", "style", "sub",
    "summary", "sup", "table", "tbody", "td", "template", "textarea", "tfoot", "th", "thead",
    "time", "title", "tr", "track", "u", "ul", "var", "video", "wbr" }

ForeignRoots == { "svg", "math" }   \* HTML 4.8.16 / 4.8.17: embedded SVG and MathML (foreign content)

ObsoleteElements ==   \* HTML 16.2 (and elements only the parser still knows: image, isindex, keygen, ...)
  { "acronym", "applet", "basefont", "bgsound", "big", "blink", "center", "dir", "font",
    "frame", "frameset", "image", "isindex", "keygen", "listing", "marquee", "menuitem",
    "multicol", "nextid", "nobr", "noembed", "noframes", "param", "plaintext", "rb", "rtc",
    "spacer", "strike", "tt", "xmp",
    "bb", "command", "portal" }   \* former drafts / experimental

AllElements == CurrentElements \cup ForeignRoots \cup ObsoleteElements

(* HTML 13.1.2 "Elements": void elements (current) and the obsolete ones the parser treats alike *)
VoidElements ==
  { "area", "base", "br", "col", "embed", "hr", "img", "input", "link", "meta", "source",
    "track", "wbr",
    "basefont", "bgsound", "frame", "keygen", "param", "image", "isindex", "spacer", "nextid" }

(* HTML 13.1.2: "Raw text elements: script, style.  Escapable raw text elements: textarea, title." *)
RawTextElements          == { "script", "style" }
EscapableRawTextElements == { "textarea", "title" }

(* HTML 13.2.6.4.7 ("in body" insertion mode) / 13.2.6.4.4: start tags for which the tree
   builder runs the "generic raw text element parsing algorithm" (tokenizer -> RAWTEXT) or
   switches to PLAINTEXT: their content is raw text for every HTML parser although 13.1.2
   does not list them (they are obsolete or have a "nothing" content model).
   noscript is parsed as raw text when scripting is enabled. *)
ParserRawTextElements == { "xmp", "iframe", "noembed", "noframes", "plaintext", "noscript" }

(* Decision for C17 "every element treated as raw text is a raw-text or escapable-raw-text
   element": an element may be treated as raw text (content copied verbatim / handed to a
   sub-minifier as a whole) iff the HTML parser itself does not parse its content as HTML
   markup: the two lists of 13.1.2, the parser's raw-text elements above, and the foreign
   content roots svg / math (their content is XML-like foreign content, 13.2.6.5, not HTML
   text; copying it verbatim cannot change its meaning).  Any other element (div, span, p,
   pre, ...) has HTML-parsed content and must not be in the raw table. *)
RawOKElements == RawTextElements \cup EscapableRawTextElements \cup ParserRawTextElements \cup ForeignRoots

(* HTML 15.3.3 / 15.5.x: "listing, plaintext, pre, xmp { white-space: pre }",
   "textarea { white-space: pre-wrap }".  Used only for the black-box raw probe: for these
   elements an unchanged (verbatim) text child is what whitespace preservation requires and
   cannot be told apart from raw treatment by looking at input and output. *)
PreformattedElements == { "listing", "plaintext", "pre", "xmp", "textarea" }

(***************************************************************************)
(* Default 'display' of HTML elements.  Source: HTML Living Standard,      *)
(* chapter 15 "Rendering", the user-agent style sheet:                     *)
(*  15.3.1 Hidden elements; 15.3.2 The page; 15.3.3 Flow content;          *)
(*  15.3.4 Phrasing content; 15.3.6 Sections and headings; 15.3.7 Lists;   *)
(*  15.3.8 Tables; 15.3.10 Form controls; 15.3.12 fieldset and legend;     *)
(*  15.5.x details/summary, marquee, meter, progress, select.              *)
(* Elements without a rule have the CSS initial value 'inline' (this       *)
(* includes the replaced elements img, video, audio, canvas, embed, object,*)
(* iframe and unknown / custom elements).                                  *)
(***************************************************************************)
DisplayNone ==        \* 15.3.1: area, base, basefont, datalist, head, link, meta, noembed, noframes, param, rp, script, style, template, title { display: none }
  { "area", "base", "basefont", "datalist", "head", "link", "meta", "noembed", "noframes",
    "param", "rp", "script", "style", "template", "title" }
DisplayNoneScripting == { "noscript" }   \* 15.3.1: @media (scripting) { noscript { display: none !important } }
DisplayBlock ==
  { "html", "body",                                                                   \* 15.3.2
    "address", "blockquote", "center", "dialog", "div", "figure", "figcaption", "footer",
    "form", "header", "hr", "legend", "listing", "main", "p", "plaintext", "pre", "search",
    "xmp",                                                                            \* 15.3.3
    "article", "aside", "h1", "h2", "h3", "h4", "h5", "h6", "hgroup", "nav", "section", \* 15.3.6
    "dir", "dd", "dl", "dt", "menu", "ol", "ul",                                      \* 15.3.7
    "fieldset",                                                                       \* 15.3.12
    "details", "summary" }                                                            \* 15.5: details, summary { display: block }
DisplayListItem == { "li" }                                                           \* 15.3.7
DisplayTable ==                                                                       \* 15.3.8
  [ t \in {"table"} |-> "table" ] @@ [ t \in {"caption"} |-> "table-caption" ] @@
  [ t \in {"colgroup"} |-> "table-column-group" ] @@ [ t \in {"col"} |-> "table-column" ] @@
  [ t \in {"thead"} |-> "table-header-group" ] @@ [ t \in {"tbody"} |-> "table-row-group" ] @@
  [ t \in {"tfoot"} |-> "table-footer-group" ] @@ [ t \in {"tr"} |-> "table-row" ] @@
  [ t \in {"td", "th"} |-> "table-cell" ]
DisplayInlineBlock ==   \* 15.3.10: input, select, button, textarea { display: inline-block }; 15.5: marquee, meter, progress { display: inline-block }
  { "input", "select", "button", "textarea", "marquee", "meter", "progress" }
(* HTML 15.4 "Replaced elements" (embedded content: the box is the replaced content, child nodes are fallback and not
   rendered) and the foreign roots, whose content is laid out by SVG / MathML, not as HTML inline text *)
ReplacedElements == { "audio", "canvas", "embed", "iframe", "img", "object", "video", "svg", "math" }
DisplayLineBreak == { "br" }            \* 15.3.4: br { display-outside: newline } -- a forced line break
(* option / optgroup are rendered only through their *label* (HTML 4.10.10: the label of an
   option is its label attribute or its text IDL attribute = "strip and collapse ASCII
   whitespace" of the text content; 15.5 select: options are listed by label), and text
   between options inside select/optgroup/datalist is not rendered at all.  Whitespace at
   either side of their tags is therefore never rendered: class "label". *)
DisplayLabelOnly == { "option", "optgroup" }
(* HTML 15.6 "Frames and framesets": a frameset is rendered as a grid of its frames; text
   children are ignored by the parser ("in frameset" insertion mode drops everything but
   whitespace) and never rendered. *)
DisplayFrames == { "frameset", "frame" }

HtmlDisplay ==
  [ t \in DisplayNone |-> "none" ] @@ [ t \in DisplayNoneScripting |-> "none-scripting" ] @@
  [ t \in DisplayBlock |-> "block" ] @@ [ t \in DisplayListItem |-> "list-item" ] @@
  DisplayTable @@ [ t \in DisplayInlineBlock |-> "inline-block" ] @@
  [ t \in DisplayLineBreak |-> "line-break" ] @@ [ t \in DisplayLabelOnly |-> "label" ] @@
  [ t \in {"ruby"} |-> "ruby" ] @@ [ t \in {"rt"} |-> "ruby-text" ] @@
  [ t \in {"slot"} |-> "contents" ] @@ [ t \in DisplayFrames |-> "frames" ]

Display(tag) == IF tag \in DOMAIN HtmlDisplay THEN HtmlDisplay[tag] ELSE "inline"

(* C17: "every element next to which whitespace is dropped is one whose boundary makes that
   whitespace insignificant for rendering (block-level, table part, line break, or not
   rendered)".  block-level = block, list-item, table (outer display type block);
   table part = the table-* internal display types; line break = br; not rendered =
   display:none (noscript under scripting, which is what the standard's UA style sheet
   describes) and the label-only form options. *)
BlockLevelDisplays  == { "block", "list-item", "table" }
TablePartDisplays   == { "table-caption", "table-column-group", "table-column", "table-header-group",
                         "table-row-group", "table-footer-group", "table-row", "table-cell" }
LineBreakDisplays   == { "line-break" }
NotRenderedDisplays == { "none", "none-scripting", "label", "frames" }
WsInsignificantDisplays == BlockLevelDisplays \cup TablePartDisplays \cup LineBreakDisplays \cup NotRenderedDisplays
BlockOKTag(tag) == Display(tag) \in WsInsignificantDisplays
(* atomic inline-level boxes: inline-block (CSS 2 9.2.2: a single opaque box in the line, its content is laid out in a
   formatting context of its own, where a blank at the start or end of a line is removed - CSS Text 4.1.2) and replaced
   elements.  A blank INSIDE such an element next to its tags is therefore never a substitute for a blank OUTSIDE it. *)
AtomicInlineTag(tag) == Display(tag) = "inline-block" \/ (tag \in ReplacedElements /\ ~BlockOKTag(tag))

(***************************************************************************)
(* HTML attributes.  Source: HTML Living Standard, "Attributes" index      *)
(* (column "Value"), section 16.2 for obsolete attributes.                 *)
(***************************************************************************)
(* index entries whose value is "Boolean attribute" *)
BooleanAttrsCurrent ==
  { "allowfullscreen", "alpha", "async", "autofocus", "autoplay", "checked", "controls",
    "default", "defer", "disabled", "formnovalidate", "inert", "ismap", "itemscope", "loop",
    "multiple", "muted", "nomodule", "novalidate", "open", "playsinline", "readonly",
    "required", "reversed", "selected", "shadowrootclonable", "shadowrootcustomelementregistry",
    "shadowrootdelegatesfocus", "shadowrootserializable" }
(* boolean attributes of obsolete features that the standard still defines (16.2/16.3: compact,
   noshade, nowrap, nohref, noresize, truespeed, declare) and booleans that were in the
   standard's index and have since been removed (seamless, scoped, typemustmatch, sortable,
   allowpaymentrequest) or are defined as boolean content attributes by specifications the
   standard defers to (disablepictureinpicture, disableremoteplayback) *)
BooleanAttrsObsolete ==
  { "compact", "noshade", "nowrap", "nohref", "noresize", "truespeed", "declare",
    "seamless", "scoped", "typemustmatch", "sortable", "allowpaymentrequest",
    "disablepictureinpicture", "disableremoteplayback" }
BooleanAttrs == BooleanAttrsCurrent \cup BooleanAttrsObsolete

(* index entries whose value is "Valid URL potentially surrounded by spaces" or "Valid non-empty
   URL potentially surrounded by spaces" (itemid: "Valid URL potentially surrounded by spaces") *)
UrlAttrsCurrent ==
  { "action", "cite", "data", "formaction", "href", "itemid", "poster", "src" }
(* obsolete-but-defined single-URL attributes: manifest (html, removed from the index, was
   "Valid non-empty URL potentially surrounded by spaces"); HTML 4.01 DTD type %URI;:
   background (body), codebase (object, applet), classid (object), longdesc (img, frame,
   iframe), profile (head: %URI; in the DTD; the prose allows a list but only the first URI is
   significant), usemap is NOT here (hash-name reference); lowsrc / dynsrc (img, legacy
   URL attributes named in 16.2); icon (menuitem/command drafts).
   xmlns: Namespaces in XML 1.0 section 2.1/3: the attribute value is a URI reference (the
   namespace name); in the HTML syntax it has no effect (HTML 13.1.2.3), so URL treatment
   cannot change meaning there.  Attributes whose value is a *list* of URLs (ping, archive,
   itemtype, srcset, imagesrcset) are deliberately not here: treating a list as one URL
   (e.g. data: URI re-encoding of the whole value) is not meaning-preserving. *)
UrlAttrsObsolete ==
  { "manifest", "background", "codebase", "classid", "longdesc", "profile", "lowsrc", "dynsrc",
    "icon", "xmlns" }
UrlAttrs == UrlAttrsCurrent \cup UrlAttrsObsolete

(* the attribute index (non event-handler content attributes), used as the probe universe *)
IndexAttrs ==
  { "abbr", "accept", "accept-charset", "accesskey", "action", "allow", "allowfullscreen", "alpha",
    "alt", "as", "async", "autocapitalize", "autocomplete", "autocorrect", "autofocus", "autoplay",
    "blocking", "charset", "checked", "cite", "class", "closedby", "color", "colorspace", "cols",
    "colspan", "command", "commandfor", "content", "contenteditable", "controls", "coords",
    "crossorigin", "data", "datetime", "decoding", "default", "defer", "dir", "dirname", "disabled",
    "download", "draggable", "enctype", "enterkeyhint", "fetchpriority", "for", "form", "formaction",
    "formenctype", "formmethod", "formnovalidate", "formtarget", "headers", "headingoffset",
    "headingreset", "height", "hidden", "high", "href", "hreflang", "http-equiv", "id", "imagesizes",
    "imagesrcset", "inert", "inputmode", "integrity", "is", "ismap", "itemid", "itemprop", "itemref",
    "itemscope", "itemtype", "kind", "label", "lang", "list", "loading", "loop", "low", "max",
    "maxlength", "media", "method", "min", "minlength", "multiple", "muted", "name", "nomodule",
    "nonce", "novalidate", "open", "optimum", "pattern", "ping", "placeholder", "playsinline",
    "popover", "popovertarget", "popovertargetaction", "poster", "preload", "readonly",
    "referrerpolicy", "rel", "required", "reversed", "rows", "rowspan", "sandbox", "scope",
    "selected", "shadowrootclonable", "shadowrootcustomelementregistry", "shadowrootdelegatesfocus",
    "shadowrootmode", "shadowrootserializable", "shape", "size", "sizes", "slot", "span",
    "spellcheck", "src", "srcdoc", "srclang", "srcset", "start", "step", "style", "tabindex",
    "target", "title", "translate", "type", "usemap", "value", "width", "wrap", "writingsuggestions" }
ObsoleteAttrs ==
  { "align", "alink", "archive", "axis", "background", "bgcolor", "border", "cellpadding",
    "cellspacing", "char", "charoff", "classid", "clear", "code", "codebase", "codetype", "compact",
    "declare", "event", "face", "frame", "frameborder", "hspace", "language", "link", "longdesc",
    "lowsrc", "dynsrc", "icon", "manifest", "marginheight", "marginwidth", "methods", "nohref",
    "noresize", "noshade", "nowrap", "profile", "rev", "rules", "scheme", "scrolling", "standby",
    "summary", "text", "truespeed", "urn", "valign", "valuetype", "version", "vlink", "vspace",
    "xmlns", "seamless", "scoped", "typemustmatch", "sortable", "allowpaymentrequest",
    "disablepictureinpicture", "disableremoteplayback",
    "about", "property", "resource", "typeof", "vocab", "prefix", "datatype", "inlist", "role" }
AllAttrs == IndexAttrs \cup ObsoleteAttrs

(***************************************************************************)
(* JavaScript MIME types.  Source: WHATWG MIME Sniffing 4.6 "A JavaScript  *)
(* MIME type is any MIME type whose essence is one of ..." (referenced by  *)
(* HTML 4.12.1 for the script element's type attribute).                   *)
(***************************************************************************)
JsMimeTypes ==
  { "application/ecmascript", "application/javascript", "application/x-ecmascript",
    "application/x-javascript", "text/ecmascript", "text/javascript", "text/javascript1.0",
    "text/javascript1.1", "text/javascript1.2", "text/javascript1.3", "text/javascript1.4",
    "text/javascript1.5", "text/jscript", "text/livescript", "text/x-ecmascript", "text/x-javascript" }

(***************************************************************************)
(* CSS units.  Source: CSS Values and Units 4, section 6 "Distance Units:  *)
(* the <length> type" (6.1 relative: font-relative, viewport-percentage;   *)
(* 6.2 absolute), CSS Containment 3 (container query lengths), section 7.1 *)
(* "Angle Units", 7.2-7.4 and CSS Grid (the non length/angle ones).        *)
(***************************************************************************)
FontRelativeLengthUnits == { "em", "rem", "ex", "rex", "cap", "rcap", "ch", "rch", "ic", "ric", "lh", "rlh" }
ViewportLengthUnits ==
  { "vw", "vh", "vi", "vb", "vmin", "vmax",
    "svw", "svh", "svi", "svb", "svmin", "svmax",
    "lvw", "lvh", "lvi", "lvb", "lvmin", "lvmax",
    "dvw", "dvh", "dvi", "dvb", "dvmin", "dvmax" }
ContainerLengthUnits == { "cqw", "cqh", "cqi", "cqb", "cqmin", "cqmax" }
AbsoluteLengthUnits == { "cm", "mm", "q", "in", "pt", "pc", "px" }
LengthUnits == FontRelativeLengthUnits \cup ViewportLengthUnits \cup ContainerLengthUnits \cup AbsoluteLengthUnits
AngleUnits == { "deg", "grad", "rad", "turn" }
(* dimensions that are neither lengths nor angles: <time>, <frequency>, <resolution>, <flex> *)
OtherUnits == { "s", "ms", "hz", "khz", "dpi", "dpcm", "dppx", "x", "fr" }
ZeroUnitOKUnit(u) == u \in LengthUnits \cup AngleUnits

(***************************************************************************)
(* SVG attributes whose value is a <color> or <paint>.  Source: SVG 1.1    *)
(* (Second Edition) property index / SVG 2 chapter 13 "Painting": fill,    *)
(* stroke (<paint>); color, stop-color, flood-color, lighting-color        *)
(* (<color>); SVG Tiny 1.2: solid-color, viewport-fill (<paint>/<color>).  *)
(***************************************************************************)
SvgColourAttrs == { "fill", "stroke", "color", "stop-color", "flood-color", "lighting-color",
                    "solid-color", "viewport-fill" }
SvgOtherAttrs  == { "id", "class", "x", "y", "width", "height", "d", "font-family", "opacity",
                    "fill-opacity", "fill-rule", "stroke-width", "stroke-linecap", "filter",
                    "mask", "clip-path", "transform", "points", "viewBox", "stop-opacity" }

(***************************************************************************)
(* XML 1.0 (Fifth Edition) section 4.6 "Predefined Entities".              *)
(***************************************************************************)
XmlPredefined == ("lt" :> <<60>>) @@ ("gt" :> <<62>>) @@ ("amp" :> <<38>>) @@
                 ("apos" :> <<39>>) @@ ("quot" :> <<34>>)

(***************************************************************************)
(* HTML 13.2.5.80 "Numeric character reference end state": replacement of  *)
(* C1 control code points.                                                 *)
(***************************************************************************)
NumericRefC1 ==
  (128 :> \h20AC) @@ (130 :> \h201A) @@ (131 :> \h0192) @@ (132 :> \h201E) @@ (133 :> \h2026) @@
  (134 :> \h2020) @@ (135 :> \h2021) @@ (136 :> \h02C6) @@ (137 :> \h2030) @@ (138 :> \h0160) @@
  (139 :> \h2039) @@ (140 :> \h0152) @@ (142 :> \h017D) @@ (145 :> \h2018) @@ (146 :> \h2019) @@
  (147 :> \h201C) @@ (148 :> \h201D) @@ (149 :> \h2022) @@ (150 :> \h2013) @@ (151 :> \h2014) @@
  (152 :> \h02DC) @@ (153 :> \h2122) @@ (154 :> \h0161) @@ (155 :> \h203A) @@ (156 :> \h0153) @@
  (158 :> \h017E) @@ (159 :> \h0178)

(***************************************************************************)
(* CSS named colours.  Source: CSS Color Module Level 4, section 6.1       *)
(* "Named Colors" (148 keywords: the 147 of SVG 1.1 / CSS Color 3 incl. the*)
(* grey spellings, plus rebeccapurple).  'transparent' and 'currentcolor'  *)
(* are not in this table: they are not named colours with an opaque sRGB   *)
(* value.  Values are <<red, green, blue>> in 0..255.                      *)
(***************************************************************************)
CssColours ==
  ("aliceblue" :> <<\hf0,\hf8,\hff>>) @@ ("antiquewhite" :> <<\hfa,\heb,\hd7>>) @@
  ("aqua" :> <<\h00,\hff,\hff>>) @@ ("aquamarine" :> <<\h7f,\hff,\hd4>>) @@
  ("azure" :> <<\hf0,\hff,\hff>>) @@ ("beige" :> <<\hf5,\hf5,\hdc>>) @@
  ("bisque" :> <<\hff,\he4,\hc4>>) @@ ("black" :> <<\h00,\h00,\h00>>) @@
  ("blanchedalmond" :> <<\hff,\heb,\hcd>>) @@ ("blue" :> <<\h00,\h00,\hff>>) @@
  ("blueviolet" :> <<\h8a,\h2b,\he2>>) @@ ("brown" :> <<\ha5,\h2a,\h2a>>) @@
  ("burlywood" :> <<\hde,\hb8,\h87>>) @@ ("cadetblue" :> <<\h5f,\h9e,\ha0>>) @@
  ("chartreuse" :> <<\h7f,\hff,\h00>>) @@ ("chocolate" :> <<\hd2,\h69,\h1e>>) @@
  ("coral" :> <<\hff,\h7f,\h50>>) @@ ("cornflowerblue" :> <<\h64,\h95,\hed>>) @@
  ("cornsilk" :> <<\hff,\hf8,\hdc>>) @@ ("crimson" :> <<\hdc,\h14,\h3c>>) @@
  ("cyan" :> <<\h00,\hff,\hff>>) @@ ("darkblue" :> <<\h00,\h00,\h8b>>) @@
  ("darkcyan" :> <<\h00,\h8b,\h8b>>) @@ ("darkgoldenrod" :> <<\hb8,\h86,\h0b>>) @@
  ("darkgray" :> <<\ha9,\ha9,\ha9>>) @@ ("darkgreen" :> <<\h00,\h64,\h00>>) @@
  ("darkgrey" :> <<\ha9,\ha9,\ha9>>) @@ ("darkkhaki" :> <<\hbd,\hb7,\h6b>>) @@
  ("darkmagenta" :> <<\h8b,\h00,\h8b>>) @@ ("darkolivegreen" :> <<\h55,\h6b,\h2f>>) @@
  ("darkorange" :> <<\hff,\h8c,\h00>>) @@ ("darkorchid" :> <<\h99,\h32,\hcc>>) @@
  ("darkred" :> <<\h8b,\h00,\h00>>) @@ ("darksalmon" :> <<\he9,\h96,\h7a>>) @@
  ("darkseagreen" :> <<\h8f,\hbc,\h8f>>) @@ ("darkslateblue" :> <<\h48,\h3d,\h8b>>) @@
  ("darkslategray" :> <<\h2f,\h4f,\h4f>>) @@ ("darkslategrey" :> <<\h2f,\h4f,\h4f>>) @@
  ("darkturquoise" :> <<\h00,\hce,\hd1>>) @@ ("darkviolet" :> <<\h94,\h00,\hd3>>) @@
  ("deeppink" :> <<\hff,\h14,\h93>>) @@ ("deepskyblue" :> <<\h00,\hbf,\hff>>) @@
  ("dimgray" :> <<\h69,\h69,\h69>>) @@ ("dimgrey" :> <<\h69,\h69,\h69>>) @@
  ("dodgerblue" :> <<\h1e,\h90,\hff>>) @@ ("firebrick" :> <<\hb2,\h22,\h22>>) @@
  ("floralwhite" :> <<\hff,\hfa,\hf0>>) @@ ("forestgreen" :> <<\h22,\h8b,\h22>>) @@
  ("fuchsia" :> <<\hff,\h00,\hff>>) @@ ("gainsboro" :> <<\hdc,\hdc,\hdc>>) @@
  ("ghostwhite" :> <<\hf8,\hf8,\hff>>) @@ ("gold" :> <<\hff,\hd7,\h00>>) @@
  ("goldenrod" :> <<\hda,\ha5,\h20>>) @@ ("gray" :> <<\h80,\h80,\h80>>) @@
  ("green" :> <<\h00,\h80,\h00>>) @@ ("greenyellow" :> <<\had,\hff,\h2f>>) @@
  ("grey" :> <<\h80,\h80,\h80>>) @@ ("honeydew" :> <<\hf0,\hff,\hf0>>) @@
  ("hotpink" :> <<\hff,\h69,\hb4>>) @@ ("indianred" :> <<\hcd,\h5c,\h5c>>) @@
  ("indigo" :> <<\h4b,\h00,\h82>>) @@ ("ivory" :> <<\hff,\hff,\hf0>>) @@
  ("khaki" :> <<\hf0,\he6,\h8c>>) @@ ("lavender" :> <<\he6,\he6,\hfa>>) @@
  ("lavenderblush" :> <<\hff,\hf0,\hf5>>) @@ ("lawngreen" :> <<\h7c,\hfc,\h00>>) @@
  ("lemonchiffon" :> <<\hff,\hfa,\hcd>>) @@ ("lightblue" :> <<\had,\hd8,\he6>>) @@
  ("lightcoral" :> <<\hf0,\h80,\h80>>) @@ ("lightcyan" :> <<\he0,\hff,\hff>>) @@
  ("lightgoldenrodyellow" :> <<\hfa,\hfa,\hd2>>) @@ ("lightgray" :> <<\hd3,\hd3,\hd3>>) @@
  ("lightgreen" :> <<\h90,\hee,\h90>>) @@ ("lightgrey" :> <<\hd3,\hd3,\hd3>>) @@
  ("lightpink" :> <<\hff,\hb6,\hc1>>) @@ ("lightsalmon" :> <<\hff,\ha0,\h7a>>) @@
  ("lightseagreen" :> <<\h20,\hb2,\haa>>) @@ ("lightskyblue" :> <<\h87,\hce,\hfa>>) @@
  ("lightslategray" :> <<\h77,\h88,\h99>>) @@ ("lightslategrey" :> <<\h77,\h88,\h99>>) @@
  ("lightsteelblue" :> <<\hb0,\hc4,\hde>>) @@ ("lightyellow" :> <<\hff,\hff,\he0>>) @@
  ("lime" :> <<\h00,\hff,\h00>>) @@ ("limegreen" :> <<\h32,\hcd,\h32>>) @@
  ("linen" :> <<\hfa,\hf0,\he6>>) @@ ("magenta" :> <<\hff,\h00,\hff>>) @@
  ("maroon" :> <<\h80,\h00,\h00>>) @@ ("mediumaquamarine" :> <<\h66,\hcd,\haa>>) @@
  ("mediumblue" :> <<\h00,\h00,\hcd>>) @@ ("mediumorchid" :> <<\hba,\h55,\hd3>>) @@
  ("mediumpurple" :> <<\h93,\h70,\hdb>>) @@ ("mediumseagreen" :> <<\h3c,\hb3,\h71>>) @@
  ("mediumslateblue" :> <<\h7b,\h68,\hee>>) @@ ("mediumspringgreen" :> <<\h00,\hfa,\h9a>>) @@
  ("mediumturquoise" :> <<\h48,\hd1,\hcc>>) @@ ("mediumvioletred" :> <<\hc7,\h15,\h85>>) @@
  ("midnightblue" :> <<\h19,\h19,\h70>>) @@ ("mintcream" :> <<\hf5,\hff,\hfa>>) @@
  ("mistyrose" :> <<\hff,\he4,\he1>>) @@ ("moccasin" :> <<\hff,\he4,\hb5>>) @@
  ("navajowhite" :> <<\hff,\hde,\had>>) @@ ("navy" :> <<\h00,\h00,\h80>>) @@
  ("oldlace" :> <<\hfd,\hf5,\he6>>) @@ ("olive" :> <<\h80,\h80,\h00>>) @@
  ("olivedrab" :> <<\h6b,\h8e,\h23>>) @@ ("orange" :> <<\hff,\ha5,\h00>>) @@
  ("orangered" :> <<\hff,\h45,\h00>>) @@ ("orchid" :> <<\hda,\h70,\hd6>>) @@
  ("palegoldenrod" :> <<\hee,\he8,\haa>>) @@ ("palegreen" :> <<\h98,\hfb,\h98>>) @@
  ("paleturquoise" :> <<\haf,\hee,\hee>>) @@ ("palevioletred" :> <<\hdb,\h70,\h93>>) @@
  ("papayawhip" :> <<\hff,\hef,\hd5>>) @@ ("peachpuff" :> <<\hff,\hda,\hb9>>) @@
  ("peru" :> <<\hcd,\h85,\h3f>>) @@ ("pink" :> <<\hff,\hc0,\hcb>>) @@
  ("plum" :> <<\hdd,\ha0,\hdd>>) @@ ("powderblue" :> <<\hb0,\he0,\he6>>) @@
  ("purple" :> <<\h80,\h00,\h80>>) @@ ("rebeccapurple" :> <<\h66,\h33,\h99>>) @@
  ("red" :> <<\hff,\h00,\h00>>) @@ ("rosybrown" :> <<\hbc,\h8f,\h8f>>) @@
  ("royalblue" :> <<\h41,\h69,\he1>>) @@ ("saddlebrown" :> <<\h8b,\h45,\h13>>) @@
  ("salmon" :> <<\hfa,\h80,\h72>>) @@ ("sandybrown" :> <<\hf4,\ha4,\h60>>) @@
  ("seagreen" :> <<\h2e,\h8b,\h57>>) @@ ("seashell" :> <<\hff,\hf5,\hee>>) @@
  ("sienna" :> <<\ha0,\h52,\h2d>>) @@ ("silver" :> <<\hc0,\hc0,\hc0>>) @@
  ("skyblue" :> <<\h87,\hce,\heb>>) @@ ("slateblue" :> <<\h6a,\h5a,\hcd>>) @@
  ("slategray" :> <<\h70,\h80,\h90>>) @@ ("slategrey" :> <<\h70,\h80,\h90>>) @@
  ("snow" :> <<\hff,\hfa,\hfa>>) @@ ("springgreen" :> <<\h00,\hff,\h7f>>) @@
  ("steelblue" :> <<\h46,\h82,\hb4>>) @@ ("tan" :> <<\hd2,\hb4,\h8c>>) @@
  ("teal" :> <<\h00,\h80,\h80>>) @@ ("thistle" :> <<\hd8,\hbf,\hd8>>) @@
  ("tomato" :> <<\hff,\h63,\h47>>) @@ ("turquoise" :> <<\h40,\he0,\hd0>>) @@
  ("violet" :> <<\hee,\h82,\hee>>) @@ ("wheat" :> <<\hf5,\hde,\hb3>>) @@
  ("white" :> <<\hff,\hff,\hff>>) @@ ("whitesmoke" :> <<\hf5,\hf5,\hf5>>) @@
  ("yellow" :> <<\hff,\hff,\h00>>) @@ ("yellowgreen" :> <<\h9a,\hcd,\h32>>)

ColourNames == DOMAIN CssColours
(* the grey / gray spelling pairs of CSS Color 4 6.1 *)
GreyPairs == { <<"darkgray","darkgrey">>, <<"darkslategray","darkslategrey">>, <<"dimgray","dimgrey">>,
               <<"gray","grey">>, <<"lightgray","lightgrey">>, <<"lightslategray","lightslategrey">>,
               <<"slategray","slategrey">> }
=============================================================================
