SPECIFICATION Spec
CONSTANTS MaxLen = 6
Alphabet <- Alpha5
INVARIANTS DfaAgrees MeaningTotal DecimalSubset
CHECK_DEADLOCK FALSE
