----------------------------- MODULE SvgDoc -----------------------------
(* C05 - the document part of the property:

     "Minified SVG renders the same as the input: the element tree and all functional attributes
      (no-namespace, xml: and xlink:) are kept, only comments, editor metadata (metadata elements,
      foreign-namespace elements/attributes) and default-valued root attributes disappear. [...]
      every length, number, viewBox, colour and style value keeps its value."

   A document is the event sequence produced by a parser that is independent of the minifier
   (encoding/xml for standalone documents, x/net/html for SVG inside HTML):
     [t |-> "s", ns, name, attrs |-> << [ns, name, val, lc], ... >>, txt]     start of an element
     [t |-> "e", ...]   end of an element          [t |-> "x", txt |-> bytes]  character data
   ns of an element: "svg" (SVG namespace), "none" (no namespace), "html", "foreign";
   ns of an attribute: "" (no namespace), "xml", "xlink", "xmlns" (declarations), "foreign".
   Comments, processing instructions and the document type are not events: they may disappear.
   `lc` is the value trimmed, whitespace-collapsed and lower-cased, as a TLA+ string (strings are
   atomic in TLA+, keyword tables are indexed by it); val is the value as bytes.
   The `d` attribute is judged by SvgPath!PathVerdict on separate trace lines; here only its
   presence is compared. *)
EXTENDS NumVal, FiniteSets

IsWs(c) == c \in {32, 9, 10, 13, 12}
IsLetter(c) == (c >= 65 /\ c <= 90) \/ (c >= 97 /\ c <= 122)
LowerB(c) == IF c >= 65 /\ c <= 90 THEN c + 32 ELSE c
Lower(s) == [i \in 1..Len(s) |-> LowerB(s[i])]
NoWs(s) == SelectSeq(s, LAMBDA c : ~IsWs(c))
\* whitespace runs -> one blank, leading and trailing whitespace dropped
Collapse(s) ==
  FoldLeft(LAMBDA a, c : IF IsWs(c) THEN [a EXCEPT !.sp = (a.o # <<>>)]
                         ELSE [o |-> (IF a.sp THEN Append(a.o, 32) ELSE a.o) \o <<c>>, sp |-> FALSE],
           [o |-> <<>>, sp |-> FALSE], s).o
WsEq(a, b) == Collapse(a) = Collapse(b)

---------------------------------------------------------------------------
(* What may disappear.                                                        *)
SvgLike(ns) == ns \in {"svg", "none"}
\* "editor metadata (metadata elements, foreign-namespace elements ...)"
DeletableElement(e) == e.ns = "foreign" \/ (SvgLike(e.ns) /\ e.name = "metadata")

(* "default-valued root attributes": the values are the defaults of SVG 1.1 (sections 5.1.2, 7.8,
   5.1.2 version/baseProfile, contentScriptType/contentStyleType); they are the same on every
   `svg` element, so they are accepted there.  `type="text/css"` on `style` is the default given by
   contentStyleType and is accepted too (default-valued, nothing renders differently). *)
IsZeroDimension(v) ==
  LET c == Collapse(v) IN
  /\ Len(c) > 0 /\ Len(c) <= 40
  /\ \E i \in 1..Len(c) : /\ IsNumber(SubSeq(c, 1, i)) /\ Canon(SubSeq(c, 1, i)).zero
                          /\ (i = Len(c) \/ (i + 1 = Len(c) /\ c[Len(c)] = 37)
                              \/ \A j \in (i + 1)..Len(c) : IsLetter(c[j]))
DefaultRootAttr(a) ==
  /\ a.ns = ""
  /\ CASE a.name = "version" -> a.lc = "1.1"
       [] a.name \in {"x", "y"} -> IsZeroDimension(a.val)
       [] a.name \in {"preserveAspectRatio", "preserveaspectratio"} -> a.lc = "xmidymid meet"
       [] a.name \in {"baseProfile", "baseprofile"} -> a.lc = "none"
       \* (an HTML parser lower-cases the attribute names that are not in its SVG adjustment table)
       [] a.name \in {"contentScriptType", "contentscripttype"} -> a.lc = "application/ecmascript"
       [] a.name \in {"contentStyleType", "contentstyletype"} -> a.lc = "text/css"
       [] OTHER -> FALSE
Droppable(e, a) == \/ (SvgLike(e.ns) /\ e.name = "svg" /\ DefaultRootAttr(a))
                   \/ (SvgLike(e.ns) /\ e.name = "style" /\ a.ns = "" /\ a.name = "type" /\ a.lc = "text/css")
\* "all functional attributes (no-namespace, xml: and xlink:)"
Functional(e, a) == a.ns \in {"", "xml", "xlink"} /\ ~Droppable(e, a)

---------------------------------------------------------------------------
(* Strip: the document without what may disappear; adjacent character data merged.  *)
(* css: the CSS minifier is registered; the character data of a `style` element is then a style sheet
   rewritten by that minifier - what it may do is property C04, here it is left out of the tree. *)
Strip(evs, css) ==
  FoldLeft(LAMBDA a, e :
      IF e.t = "s" THEN
         IF a.skip > 0 THEN [a EXCEPT !.skip = @ + 1]
         ELSE IF DeletableElement(e) THEN [a EXCEPT !.skip = 1]
         ELSE [a EXCEPT !.o = Append(@, e), !.sty = (css /\ SvgLike(e.ns) /\ e.name = "style")]
      ELSE IF e.t = "e" THEN
         IF a.skip > 0 THEN [a EXCEPT !.skip = @ - 1] ELSE [a EXCEPT !.o = Append(@, e), !.sty = FALSE]
      ELSE IF a.skip > 0 \/ a.sty THEN a
      ELSE IF a.o # <<>> /\ a.o[Len(a.o)].t = "x"
           THEN [a EXCEPT !.o[Len(a.o)].txt = @ \o e.txt]
           ELSE [a EXCEPT !.o = Append(@, e)],
    [skip |-> 0, sty |-> FALSE, o |-> <<>>], evs).o

(* Tree: the element tree with character data reduced to its non-blank characters
   (blank-only character data is layout between tags; which blanks are significant for
   rendering is the business of the text clause below). *)
Tree(st) == SelectSeq([i \in 1..Len(st) |-> IF st[i].t = "x" THEN [st[i] EXCEPT !.txt = NoWs(@)] ELSE st[i]],
                      LAMBDA e : e.t # "x" \/ e.txt # <<>>)

NodeShapeEq(a, b) ==
  /\ a.t = b.t
  /\ a.t = "s" => (a.ns = b.ns /\ a.name = b.name)
  /\ a.t = "x" => a.txt = b.txt
ShapeEq(ta, tb) == Len(ta) = Len(tb) /\ \A i \in 1..Len(ta) : NodeShapeEq(ta[i], tb[i])

---------------------------------------------------------------------------
(* Values.                                                                     *)
IsUnit(u) == u = <<>> \/ u = <<37>> \/ \A i \in 1..Len(u) : IsLetter(u[i])
DimSplits(v) == {i \in 1..Len(v) : IsNumber(SubSeq(v, 1, i)) /\ IsUnit(SubSeq(v, i + 1, Len(v)))}
IsDim(v) == Len(v) > 0 /\ Len(v) <= 40 /\ Delta(0, v[1]) # -1 /\ DimSplits(v) # {}
MaxOf(S) == CHOOSE x \in S : \A y \in S : y <= x
DimOf(v) == LET i == MaxOf(DimSplits(v)) IN [num |-> SubSeq(v, 1, i), unit |-> Lower(SubSeq(v, i + 1, Len(v)))]
\* user units are px; a zero length is zero in every unit
UnitEq(u, w) == u = w \/ ({u, w} \subseteq {<<>>, <<112, 120>>})
DimEq(a0, b0) ==
  LET a == Collapse(a0)  b == Collapse(b0) IN
  /\ IsDim(a) /\ IsDim(b)
  /\ LET x == DimOf(a)  y == DimOf(b) IN
       \/ (Canon(x.num).zero /\ Canon(y.num).zero)
       \/ (ValueEq(x.num, y.num) /\ UnitEq(x.unit, y.unit))

\* items of a list separated by blanks and/or commas
Items(v) ==
  LET r == FoldLeft(LAMBDA a, c : IF IsWs(c) \/ c = 44
                                  THEN (IF a.cur = <<>> THEN a ELSE [o |-> Append(a.o, a.cur), cur |-> <<>>])
                                  ELSE [a EXCEPT !.cur = Append(@, c)],
                    [o |-> <<>>, cur |-> <<>>], v)
  IN IF r.cur = <<>> THEN r.o ELSE Append(r.o, r.cur)
NumListEq(a, b) ==
  LET x == Items(a)  y == Items(b) IN
  Len(x) = Len(y) /\ \A i \in 1..Len(x) : x[i] = y[i] \/ DimEq(x[i], y[i])

\* colours: the 147 colour keywords of SVG 1.1 (section 4.4), #rgb and #rrggbb
Named == [
  aliceblue |-> <<240, 248, 255>>,
  antiquewhite |-> <<250, 235, 215>>,
  aqua |-> <<0, 255, 255>>,
  aquamarine |-> <<127, 255, 212>>,
  azure |-> <<240, 255, 255>>,
  beige |-> <<245, 245, 220>>,
  bisque |-> <<255, 228, 196>>,
  black |-> <<0, 0, 0>>,
  blanchedalmond |-> <<255, 235, 205>>,
  blue |-> <<0, 0, 255>>,
  blueviolet |-> <<138, 43, 226>>,
  brown |-> <<165, 42, 42>>,
  burlywood |-> <<222, 184, 135>>,
  cadetblue |-> <<95, 158, 160>>,
  chartreuse |-> <<127, 255, 0>>,
  chocolate |-> <<210, 105, 30>>,
  coral |-> <<255, 127, 80>>,
  cornflowerblue |-> <<100, 149, 237>>,
  cornsilk |-> <<255, 248, 220>>,
  crimson |-> <<220, 20, 60>>,
  cyan |-> <<0, 255, 255>>,
  darkblue |-> <<0, 0, 139>>,
  darkcyan |-> <<0, 139, 139>>,
  darkgoldenrod |-> <<184, 134, 11>>,
  darkgray |-> <<169, 169, 169>>,
  darkgreen |-> <<0, 100, 0>>,
  darkgrey |-> <<169, 169, 169>>,
  darkkhaki |-> <<189, 183, 107>>,
  darkmagenta |-> <<139, 0, 139>>,
  darkolivegreen |-> <<85, 107, 47>>,
  darkorange |-> <<255, 140, 0>>,
  darkorchid |-> <<153, 50, 204>>,
  darkred |-> <<139, 0, 0>>,
  darksalmon |-> <<233, 150, 122>>,
  darkseagreen |-> <<143, 188, 143>>,
  darkslateblue |-> <<72, 61, 139>>,
  darkslategray |-> <<47, 79, 79>>,
  darkslategrey |-> <<47, 79, 79>>,
  darkturquoise |-> <<0, 206, 209>>,
  darkviolet |-> <<148, 0, 211>>,
  deeppink |-> <<255, 20, 147>>,
  deepskyblue |-> <<0, 191, 255>>,
  dimgray |-> <<105, 105, 105>>,
  dimgrey |-> <<105, 105, 105>>,
  dodgerblue |-> <<30, 144, 255>>,
  firebrick |-> <<178, 34, 34>>,
  floralwhite |-> <<255, 250, 240>>,
  forestgreen |-> <<34, 139, 34>>,
  fuchsia |-> <<255, 0, 255>>,
  gainsboro |-> <<220, 220, 220>>,
  ghostwhite |-> <<248, 248, 255>>,
  gold |-> <<255, 215, 0>>,
  goldenrod |-> <<218, 165, 32>>,
  gray |-> <<128, 128, 128>>,
  green |-> <<0, 128, 0>>,
  greenyellow |-> <<173, 255, 47>>,
  grey |-> <<128, 128, 128>>,
  honeydew |-> <<240, 255, 240>>,
  hotpink |-> <<255, 105, 180>>,
  indianred |-> <<205, 92, 92>>,
  indigo |-> <<75, 0, 130>>,
  ivory |-> <<255, 255, 240>>,
  khaki |-> <<240, 230, 140>>,
  lavender |-> <<230, 230, 250>>,
  lavenderblush |-> <<255, 240, 245>>,
  lawngreen |-> <<124, 252, 0>>,
  lemonchiffon |-> <<255, 250, 205>>,
  lightblue |-> <<173, 216, 230>>,
  lightcoral |-> <<240, 128, 128>>,
  lightcyan |-> <<224, 255, 255>>,
  lightgoldenrodyellow |-> <<250, 250, 210>>,
  lightgray |-> <<211, 211, 211>>,
  lightgreen |-> <<144, 238, 144>>,
  lightgrey |-> <<211, 211, 211>>,
  lightpink |-> <<255, 182, 193>>,
  lightsalmon |-> <<255, 160, 122>>,
  lightseagreen |-> <<32, 178, 170>>,
  lightskyblue |-> <<135, 206, 250>>,
  lightslategray |-> <<119, 136, 153>>,
  lightslategrey |-> <<119, 136, 153>>,
  lightsteelblue |-> <<176, 196, 222>>,
  lightyellow |-> <<255, 255, 224>>,
  lime |-> <<0, 255, 0>>,
  limegreen |-> <<50, 205, 50>>,
  linen |-> <<250, 240, 230>>,
  magenta |-> <<255, 0, 255>>,
  maroon |-> <<128, 0, 0>>,
  mediumaquamarine |-> <<102, 205, 170>>,
  mediumblue |-> <<0, 0, 205>>,
  mediumorchid |-> <<186, 85, 211>>,
  mediumpurple |-> <<147, 112, 219>>,
  mediumseagreen |-> <<60, 179, 113>>,
  mediumslateblue |-> <<123, 104, 238>>,
  mediumspringgreen |-> <<0, 250, 154>>,
  mediumturquoise |-> <<72, 209, 204>>,
  mediumvioletred |-> <<199, 21, 133>>,
  midnightblue |-> <<25, 25, 112>>,
  mintcream |-> <<245, 255, 250>>,
  mistyrose |-> <<255, 228, 225>>,
  moccasin |-> <<255, 228, 181>>,
  navajowhite |-> <<255, 222, 173>>,
  navy |-> <<0, 0, 128>>,
  oldlace |-> <<253, 245, 230>>,
  olive |-> <<128, 128, 0>>,
  olivedrab |-> <<107, 142, 35>>,
  orange |-> <<255, 165, 0>>,
  orangered |-> <<255, 69, 0>>,
  orchid |-> <<218, 112, 214>>,
  palegoldenrod |-> <<238, 232, 170>>,
  palegreen |-> <<152, 251, 152>>,
  paleturquoise |-> <<175, 238, 238>>,
  palevioletred |-> <<219, 112, 147>>,
  papayawhip |-> <<255, 239, 213>>,
  peachpuff |-> <<255, 218, 185>>,
  peru |-> <<205, 133, 63>>,
  pink |-> <<255, 192, 203>>,
  plum |-> <<221, 160, 221>>,
  powderblue |-> <<176, 224, 230>>,
  purple |-> <<128, 0, 128>>,
  red |-> <<255, 0, 0>>,
  rosybrown |-> <<188, 143, 143>>,
  royalblue |-> <<65, 105, 225>>,
  saddlebrown |-> <<139, 69, 19>>,
  salmon |-> <<250, 128, 114>>,
  sandybrown |-> <<244, 164, 96>>,
  seagreen |-> <<46, 139, 87>>,
  seashell |-> <<255, 245, 238>>,
  sienna |-> <<160, 82, 45>>,
  silver |-> <<192, 192, 192>>,
  skyblue |-> <<135, 206, 235>>,
  slateblue |-> <<106, 90, 205>>,
  slategray |-> <<112, 128, 144>>,
  slategrey |-> <<112, 128, 144>>,
  snow |-> <<255, 250, 250>>,
  springgreen |-> <<0, 255, 127>>,
  steelblue |-> <<70, 130, 180>>,
  tan |-> <<210, 180, 140>>,
  teal |-> <<0, 128, 128>>,
  thistle |-> <<216, 191, 216>>,
  tomato |-> <<255, 99, 71>>,
  turquoise |-> <<64, 224, 208>>,
  violet |-> <<238, 130, 238>>,
  wheat |-> <<245, 222, 179>>,
  white |-> <<255, 255, 255>>,
  whitesmoke |-> <<245, 245, 245>>,
  yellow |-> <<255, 255, 0>>,
  yellowgreen |-> <<154, 205, 50>>
]
HexVal(c) == IF c >= 48 /\ c <= 57 THEN c - 48 ELSE IF c >= 97 /\ c <= 102 THEN c - 87
             ELSE IF c >= 65 /\ c <= 70 THEN c - 55 ELSE -1
NoColour == <<-1, -1, -1>>
RGB(a) ==
  LET v == Collapse(a.val) IN
  IF a.lc \in DOMAIN Named THEN Named[a.lc]
  ELSE IF Len(v) = 4 /\ v[1] = 35 /\ \A i \in 2..4 : HexVal(v[i]) >= 0
       THEN <<17 * HexVal(v[2]), 17 * HexVal(v[3]), 17 * HexVal(v[4])>>
  ELSE IF Len(v) = 7 /\ v[1] = 35 /\ \A i \in 2..7 : HexVal(v[i]) >= 0
       THEN <<16 * HexVal(v[2]) + HexVal(v[3]), 16 * HexVal(v[4]) + HexVal(v[5]), 16 * HexVal(v[6]) + HexVal(v[7])>>
  ELSE NoColour
ColourEq(a, b) == RGB(a) # NoColour /\ RGB(a) = RGB(b)

ColourAttrs == {"fill", "stroke", "color", "stop-color", "flood-color", "lighting-color"}
(* Attributes whose value is a name, a reference or a string, not a quantity: "references" in the
   title of the property - `id="007"` and `href="#007"` must keep matching. *)
StringAttrs == {"id", "class", "href", "name", "unicode", "glyph-name", "font-family", "lang", "target",
                "type", "media", "attributeName", "in", "in2", "result", "u1", "u2", "g1", "g2"}

\* media types (RFC 2045): blanks around ";" and "=" are not part of the value, names are case-insensitive
MediaTypeAttrs == {"contentStyleType", "contentScriptType", "contentstyletype", "contentscripttype", "type"}
MediaTypeEq(a, b) == Lower(NoWs(a)) = Lower(NoWs(b))
\* "viewBox ... keeps its value": a viewBox value is a list of numbers; about anything else nothing is claimed
IsNumberList(v) == LET x == Items(v) IN x # <<>> /\ \A i \in 1..Len(x) : IsNumber(x[i])

(* "style value keeps its value": the style attribute is a list of declarations (split by the reader,
   names lower-cased); each keeps its name and its value, where a value may be respelled as a
   length/number or as a colour like an attribute value. *)
DeclOK(x, y) == x.name = y.name /\ (WsEq(x.val, y.val) \/ DimEq(x.val, y.val) \/ ColourEq(x, y))
StyleEq(a, b) == Len(a.decls) = Len(b.decls) /\ \A i \in 1..Len(a.decls) : DeclOK(a.decls[i], b.decls[i])

ValueOK(a, b) ==
  \/ WsEq(a.val, b.val)
  \/ /\ a.ns = ""
     /\ \/ a.name = "d"                                    \* judged on its own trace line (SvgPath)
        \/ (a.name \in ColourAttrs /\ ColourEq(a, b))
        \/ (a.name \in {"viewBox", "viewbox"} /\ (~IsNumberList(a.val) \/ NumListEq(a.val, b.val)))
        \/ (a.name \in MediaTypeAttrs /\ MediaTypeEq(a.val, b.val))
        \/ (a.name = "style" /\ StyleEq(a, b))
        \/ (a.name \notin StringAttrs /\ a.name \notin ColourAttrs /\ a.name \notin MediaTypeAttrs
            /\ a.name # "style" /\ DimEq(a.val, b.val))

---------------------------------------------------------------------------
(* Attribute clauses, element by element (the trees have the same shape).        *)
Idx(s) == 1..Len(s)
HasAttr(e, ns, name) == \E j \in Idx(e.attrs) : e.attrs[j].ns = ns /\ e.attrs[j].name = name
AttrOf(e, ns, name) == e.attrs[CHOOSE j \in Idx(e.attrs) : e.attrs[j].ns = ns /\ e.attrs[j].name = name]

\* xml: and xlink: attributes are kept
PrefixedKept(ea, eb) ==
  \A j \in Idx(ea.attrs) : LET a == ea.attrs[j] IN
     (a.ns \in {"xml", "xlink"} /\ Functional(ea, a)) => HasAttr(eb, a.ns, a.name)
\* no-namespace functional attributes are kept, and none is invented
PlainKept(ea, eb) ==
  /\ \A j \in Idx(ea.attrs) : LET a == ea.attrs[j] IN (a.ns = "" /\ Functional(ea, a)) => HasAttr(eb, "", a.name)
  /\ \A j \in Idx(eb.attrs) : LET b == eb.attrs[j] IN Functional(eb, b) => HasAttr(ea, b.ns, b.name)
\* every kept attribute keeps its value
ValuesKept(ea, eb) ==
  \A j \in Idx(ea.attrs) : LET a == ea.attrs[j] IN
     (Functional(ea, a) /\ HasAttr(eb, a.ns, a.name)) => ValueOK(a, AttrOf(eb, a.ns, a.name))

AllElements(ta, tb, P(_, _)) == \A i \in Idx(ta) : ta[i].t = "s" => P(ta[i], tb[i])

---------------------------------------------------------------------------
(* Text: "renders the same".  The character data of a `text` element (with its tspan, textPath
   ... descendants, in document order) is rendered as one string in which blank runs count as one
   blank and leading/trailing blanks are ignored (SVG 1.1 section 10.15, xml:space="default").
   Words must not be joined or split.                                            *)
Rendered(st) ==
  FoldLeft(LAMBDA a, e :
      IF e.t = "s" THEN
         IF a.d > 0 THEN [a EXCEPT !.d = @ + 1]
         ELSE IF SvgLike(e.ns) /\ e.name = "text" THEN [a EXCEPT !.d = 1, !.cur = <<>>]
         ELSE a
      ELSE IF e.t = "e" THEN
         IF a.d > 1 THEN [a EXCEPT !.d = @ - 1]
         ELSE IF a.d = 1 THEN [d |-> 0, cur |-> <<>>, o |-> Append(a.o, Collapse(a.cur))]
         ELSE a
      ELSE IF a.d > 0 THEN [a EXCEPT !.cur = @ \o e.txt] ELSE a,
    [d |-> 0, cur |-> <<>>, o |-> <<>>], st).o
=============================================================================
