----------------------------- MODULE CliUniverse -----------------------------
(* C19: the finite universe the generator draws from - candidate tree entries (nesting, hidden files
   and directories, unknown extensions, same-name files of different types, symbolic links to files and
   to a directory, a hard link, stale *.bak files) and the invocation shapes.  Shared by the design
   check (CliPlanGen) and the renderer (C19Plan).  File contents are filled in by the driver.          *)
EXTENDS CliPlan

E(p, k, t) == [p |-> p, k |-> k, c |-> <<>>, t |-> t]
a_js == <<97, 46, 106, 115>>
b_css == <<98, 46, 99, 115, 115>>
d_ == <<100>>
d_e == <<100, 47, 101>>
hd_ == <<46, 104, 100>>
\* the universe of non-directory entries
U == <<
  E(a_js, "f", <<>>),                                                  \*  1 a.js
  E(b_css, "f", <<>>),                                                 \*  2 b.css
  E(<<110, 46, 116, 120, 116>>, "f", <<>>),                            \*  3 n.txt        unknown extension
  E(<<46, 104, 46, 106, 115>>, "f", <<>>),                             \*  4 .h.js        hidden
  E(<<120, 46, 106, 115>>, "f", <<>>),                                 \*  5 x.js         same name,
  E(<<120, 46, 99, 115, 115>>, "f", <<>>),                             \*  6 x.css        different type
  E(<<100, 47, 99, 46, 106, 115>>, "f", <<>>),                         \*  7 d/c.js
  E(<<100, 47, 110, 46, 116, 120, 116>>, "f", <<>>),                   \*  8 d/n.txt
  E(<<100, 47, 46, 104, 46, 99, 115, 115>>, "f", <<>>),                \*  9 d/.h.css
  E(<<100, 47, 101, 47, 102, 46, 106, 115>>, "f", <<>>),               \* 10 d/e/f.js     nested
  E(<<108, 46, 106, 115>>, "l", a_js),                                 \* 11 l.js -> a.js
  E(<<100, 47, 107, 46, 99, 115, 115>>, "l", <<46, 46, 47, 98, 46, 99, 115, 115>>),  \* 12 d/k.css -> ../b.css
  E(<<97, 46, 106, 115, 46, 98, 97, 107>>, "f", <<>>),                 \* 13 a.js.bak     stale backup
  E(<<100, 47, 99, 46, 106, 115, 46, 98, 97, 107>>, "f", <<>>),        \* 14 d/c.js.bak
  E(<<103, 46, 106, 115>>, "h", a_js),                                 \* 15 g.js  hard link to a.js
  E(<<46, 104, 100, 47, 109, 46, 106, 115>>, "f", <<>>),               \* 16 .hd/m.js     hidden directory
  E(<<100, 108>>, "l", d_),                                            \* 17 dl -> d      directory link
  E(<<111, 46, 104, 116, 109, 108>>, "f", <<>>),                       \* 18 o.html
  E(<<100, 47, 112, 46, 106, 115, 111, 110>>, "f", <<>>)               \* 19 d/p.json
>>
\* what an entry needs besides its parent directories
Needs == [i \in 1..Len(U) |-> CASE i = 11 -> {1} [] i = 12 -> {2} [] i = 15 -> {1} [] OTHER -> {}]
NeedsDir == [i \in 1..Len(U) |-> IF i = 17 THEN {d_} ELSE {}]
DirsOf(p) == LET cs == Comps(p) IN {JoinComps(SubSeq(cs, 1, n)) : n \in 1..(Len(cs) - 1)}
TreeOf(S) ==
  LET dirs == UNION {DirsOf(U[i].p) \cup NeedsDir[i] : i \in S}
      es == {U[i] : i \in S} \cup {E(p, "d", <<>>) : p \in dirs}
  IN SetToSortSeq(es, LAMBDA x, y : BytesLess(x.p, y.p))
ValidSet(S) == \A i \in S : Needs[i] \subseteq S

Base == [inputs |-> <<>>, output |-> <<>>, stdin |-> FALSE, r |-> FALSE, a |-> FALSE, b |-> FALSE, s |-> FALSE,
         type |-> "", match |-> <<>>, filters |-> <<>>, ext |-> <<>>, preserve |-> <<>>,
         q |-> FALSE, v |-> FALSE, mime |-> FALSE]
out_js == <<111, 117, 116, 46, 106, 115>>
out_css == <<111, 117, 116, 46, 99, 115, 115>>
outS == <<111, 117, 116, 47>>
all_js == <<97, 108, 108, 46, 106, 115>>
all_css == <<97, 108, 108, 46, 99, 115, 115>>
dS == <<100, 47>>
dl_ == <<100, 108>>
dlS == <<100, 108, 47>>
dot == <<46>>
x_js == <<120, 46, 106, 115>>
x_css == <<120, 46, 99, 115, 115>>
n_txt == <<110, 46, 116, 120, 116>>
l_js == <<108, 46, 106, 115>>
g_js == <<103, 46, 106, 115>>
d_c_js == <<100, 47, 99, 46, 106, 115>>
o_html == <<111, 46, 104, 116, 109, 108>>
G_js == <<42, 46, 106, 115>>            \* *.js
G_css == <<42, 46, 99, 115, 115>>       \* *.css
G_txt == <<42, 46, 116, 120, 116>>      \* *.txt
G_de == <<100, 47, 101, 47, 42, 42>>    \* d/e/**
G_all == <<42, 42>>                     \* **
G_cjs == <<42, 42, 47, 99, 46, 106, 115>>   \* **/c.js
txt == <<116, 120, 116>>
Inc(p) == [inc |-> TRUE, pat |-> p]
Exc(p) == [inc |-> FALSE, pat |-> p]

Shapes == <<
  [Base EXCEPT !.inputs = <<a_js>>],                                                            \*  1 file -> stdout
  [Base EXCEPT !.inputs = <<a_js>>, !.output = out_js],                                         \*  2 file -> file
  [Base EXCEPT !.inputs = <<a_js>>, !.output = outS],                                           \*  3 file -> dir/
  [Base EXCEPT !.inputs = <<a_js>>, !.output = a_js],                                           \*  4 in place
  [Base EXCEPT !.inputs = <<a_js, b_css>>, !.output = outS],                                    \*  5 many -> dir/
  [Base EXCEPT !.inputs = <<x_js, x_css, d_c_js>>, !.output = outS],                            \*  6 same name, nested file
  [Base EXCEPT !.inputs = <<d_>>, !.output = outS, !.r = TRUE],                                 \*  7 -r dir
  [Base EXCEPT !.inputs = <<dS>>, !.output = outS, !.r = TRUE],                                 \*  8 -r dir/
  [Base EXCEPT !.inputs = <<dS>>, !.output = outS, !.r = TRUE, !.a = TRUE],                     \*  9 -r -a dir/
  [Base EXCEPT !.inputs = <<a_js, d_>>, !.output = outS],                                       \* 10 dir without -r is left out
  [Base EXCEPT !.inputs = <<dS>>, !.output = outS, !.r = TRUE, !.match = <<G_js>>],             \* 11 --match
  [Base EXCEPT !.inputs = <<dot>>, !.output = outS, !.r = TRUE, !.match = <<G_js, G_css>>],     \* 12 two --match, input .
  [Base EXCEPT !.inputs = <<d_>>, !.output = outS, !.r = TRUE, !.filters = <<Exc(G_de)>>],      \* 13 --exclude
  [Base EXCEPT !.inputs = <<dS>>, !.output = outS, !.r = TRUE, !.filters = <<Exc(G_all), Inc(G_cjs)>>],  \* 14 exclude then include
  [Base EXCEPT !.inputs = <<n_txt>>, !.output = out_js, !.type = "js"],                         \* 15 --type js
  [Base EXCEPT !.inputs = <<b_css, x_css>>, !.output = outS, !.type = "text/css"],              \* 16 --type media type
  [Base EXCEPT !.inputs = <<b_css>>, !.type = "text/css", !.mime = TRUE],                       \* 17 --mime (deprecated spelling)
  [Base EXCEPT !.inputs = <<dS>>, !.output = outS, !.r = TRUE, !.ext = <<[e |-> txt, t |-> "js"]>>],   \* 18 --ext.txt=js
  [Base EXCEPT !.stdin = TRUE, !.type = "js"],                                                  \* 19 stdin -> stdout
  [Base EXCEPT !.stdin = TRUE, !.type = "css", !.output = out_css],                             \* 20 stdin -> file
  [Base EXCEPT !.inputs = <<a_js, x_js>>, !.output = all_js, !.b = TRUE],                       \* 21 bundle -> file
  [Base EXCEPT !.inputs = <<x_js, a_js>>, !.b = TRUE],                                          \* 22 bundle -> stdout
  [Base EXCEPT !.inputs = <<a_js, d_>>, !.output = all_js, !.b = TRUE, !.r = TRUE],             \* 23 bundle file + dir
  [Base EXCEPT !.inputs = <<b_css, x_css>>, !.output = all_css, !.b = TRUE, !.type = "css"],    \* 24 bundle css
  [Base EXCEPT !.inputs = <<dS>>, !.output = outS, !.r = TRUE, !.s = TRUE],                     \* 25 sync
  [Base EXCEPT !.inputs = <<d_>>, !.output = outS, !.r = TRUE, !.s = TRUE, !.a = TRUE],         \* 26 sync -a
  [Base EXCEPT !.inputs = <<dot>>, !.output = outS, !.r = TRUE, !.s = TRUE, !.match = <<G_js>>],   \* 27 sync --match
  [Base EXCEPT !.inputs = <<dS>>, !.output = dS, !.r = TRUE, !.s = TRUE],                       \* 28 sync in place
  [Base EXCEPT !.inputs = <<dS>>, !.output = dS, !.r = TRUE],                                   \* 29 directory in place
  [Base EXCEPT !.inputs = <<d_>>, !.output = dot, !.r = TRUE],                                  \* 30 directory in place via -o .
  [Base EXCEPT !.inputs = <<dS>>, !.output = outS, !.r = TRUE, !.s = TRUE, !.preserve = <<"all">>],     \* 31 sync keeping links
  [Base EXCEPT !.inputs = <<dot>>, !.output = outS, !.r = TRUE, !.s = TRUE, !.a = TRUE, !.preserve = <<"links">>],  \* 32
  [Base EXCEPT !.inputs = <<a_js>>, !.output = out_js, !.preserve = <<"mode">>],                \* 33 -p mode
  [Base EXCEPT !.inputs = <<a_js, b_css>>, !.output = outS, !.q = TRUE],                        \* 34 -q
  [Base EXCEPT !.inputs = <<d_>>, !.output = outS, !.r = TRUE, !.v = TRUE],                     \* 35 -v (sequential)
  [Base EXCEPT !.inputs = <<dlS>>, !.output = outS, !.r = TRUE],                                \* 36 through a directory link
  [Base EXCEPT !.inputs = <<dl_>>, !.output = outS, !.r = TRUE],                                \* 37 directory link, no slash
  [Base EXCEPT !.inputs = <<l_js>>, !.output = outS],                                           \* 38 file link as input
  [Base EXCEPT !.inputs = <<l_js>>, !.output = l_js],                                           \* 39 in place through a link (hazard)
  [Base EXCEPT !.inputs = <<l_js>>, !.output = a_js],                                           \* 40 onto the link's target (alias)
  [Base EXCEPT !.inputs = <<a_js>>, !.output = g_js],                                           \* 41 onto a hard link (alias)
  [Base EXCEPT !.inputs = <<dS>>, !.output = dlS, !.r = TRUE],                                  \* 42 onto itself through a directory link (alias)
  [Base EXCEPT !.inputs = <<<<46, 104, 100>>>>, !.output = outS, !.r = TRUE, !.a = TRUE],       \* 43 hidden directory with -a
  [Base EXCEPT !.inputs = <<dS>>, !.output = outS, !.r = TRUE, !.type = "js"],                  \* 44 --type over a directory
  [Base EXCEPT !.inputs = <<o_html, a_js>>, !.output = outS],                                   \* 45 html + js
  [Base EXCEPT !.inputs = <<dot>>, !.output = dot, !.r = TRUE, !.a = TRUE],                     \* 46 whole tree in place, hidden too
  [Base EXCEPT !.inputs = <<dot>>, !.output = outS, !.r = TRUE, !.filters = <<Exc(<<100, 47, 42, 42>>)>>],  \* 47 --exclude d/**
  [Base EXCEPT !.inputs = <<a_js, n_txt>>, !.output = outS, !.s = TRUE],                        \* 48 sync of explicit files (known: syncfile)
  [Base EXCEPT !.inputs = <<a_js, dS>>, !.output = outS, !.s = TRUE, !.r = TRUE],               \* 49 sync of a file and a directory
  [Base EXCEPT !.inputs = <<d_c_js>>, !.output = <<111, 47, 112, 47, 113, 46, 106, 115>>],      \* 50 file -> o/p/q.js (directories are made)
  [Base EXCEPT !.inputs = <<dS, hd_>>, !.output = outS, !.r = TRUE, !.a = TRUE],                \* 51 two directories, one hidden
  [Base EXCEPT !.inputs = <<b_css, a_js>>, !.output = all_js, !.b = TRUE, !.type = "js"],       \* 52 bundle with --type over mixed names
  [Base EXCEPT !.inputs = <<dot>>, !.output = all_js, !.b = TRUE, !.r = TRUE, !.match = <<G_js>>],   \* 53 bundle of everything matching
  [Base EXCEPT !.inputs = <<dS>>, !.output = outS, !.r = TRUE, !.s = TRUE, !.filters = <<Exc(G_de)>>],  \* 54 sync: excluded files are copied
  [Base EXCEPT !.inputs = <<<<100, 47, 46>>>>, !.output = outS, !.r = TRUE],                    \* 55 d/. (README: same as d/) (known: slashdot)
  [Base EXCEPT !.inputs = <<d_>>, !.output = outS, !.r = TRUE, !.filters = <<Inc(G_cjs), Exc(<<100, 47, 42>>)>>],   \* 56 include then exclude d/*: the last match decides
  [Base EXCEPT !.inputs = <<dot>>, !.output = outS, !.r = TRUE, !.a = TRUE, !.match = <<G_css>>, !.filters = <<Exc(<<100, 47, 42, 42>>)>>],  \* 57 --match and --exclude together
  [Base EXCEPT !.inputs = <<dS>>, !.output = dlS, !.r = TRUE, !.s = TRUE],                      \* 58 sync onto itself through a directory link (known: syncalias)
  [Base EXCEPT !.stdin = TRUE, !.type = "text/html"],                                           \* 59 stdin with a media type -> stdout
  [Base EXCEPT !.stdin = TRUE, !.type = "json", !.mime = TRUE, !.output = <<111, 46, 106, 115, 111, 110>>],   \* 60 stdin --mime -> o.json
  [Base EXCEPT !.inputs = <<dS>>, !.output = outS, !.r = TRUE, !.preserve = <<"mode", "timestamps">>],    \* 61 -p mode,timestamps
  [Base EXCEPT !.inputs = <<a_js>>, !.output = a_js, !.preserve = <<"ownership">>],             \* 62 -p ownership, in place
  [Base EXCEPT !.inputs = <<dot>>, !.output = outS, !.r = TRUE, !.preserve = <<"all">>],        \* 63 -p all without sync: links are left out
  [Base EXCEPT !.inputs = <<dS>>, !.output = outS, !.r = TRUE, !.filters = <<Inc(G_cjs)>>],     \* 64 --include alone excludes nothing
  [Base EXCEPT !.inputs = <<dot>>, !.output = outS, !.r = TRUE, !.filters = <<Exc(G_css)>>],    \* 65 --exclude=*.css: * does not cross a slash
  [Base EXCEPT !.inputs = <<dot>>, !.output = outS, !.r = TRUE, !.match = <<<<99, 42>>, <<42, 46, 104, 116, 109, 108>>>>],   \* 66 --match=c* --match=*.html
  [Base EXCEPT !.inputs = <<dot>>, !.output = outS, !.r = TRUE, !.a = TRUE, !.filters = <<Exc(<<42, 42, 47, 101, 47, 42, 42>>), Exc(<<46, 104, 100, 47, 42, 42>>)>>],  \* 67 --exclude=**/e/** --exclude=.hd/**
  [Base EXCEPT !.inputs = <<o_html>>],                                                          \* 68 html -> stdout
  [Base EXCEPT !.inputs = <<dot>>, !.b = TRUE, !.r = TRUE, !.match = <<G_css>>],                \* 69 bundle of all css -> stdout
  [Base EXCEPT !.inputs = <<x_js, a_js>>, !.output = all_js, !.b = TRUE, !.type = "application/javascript"],    \* 70 bundle, media type given
  [Base EXCEPT !.inputs = <<n_txt, a_js>>, !.b = TRUE, !.type = "js", !.mime = TRUE],           \* 71 bundle --mime, a .txt file, -> stdout
  [Base EXCEPT !.inputs = <<n_txt, <<100, 47, 110, 46, 116, 120, 116>>>>, !.output = all_js, !.b = TRUE, !.ext = <<[e |-> txt, t |-> "js"]>>]   \* 72 bundle of .txt via --ext
>>

Mk(S, k) == [tree |-> TreeOf(S), inv |-> Shapes[k]]
=============================================================================
