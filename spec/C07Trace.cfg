SPECIFICATION Spec
INVARIANT Conforms
INVARIANT DesignAgrees
POSTCONDITION AcceptedLinear
CHECK_DEADLOCK FALSE
