SPECIFICATION Spec
CONSTANTS
  NG = 2
  MaxCalls = 1
  ShapeNames <- JsCold
  AllowReg = FALSE
  CopyOpts = TRUE
  TightCap = TRUE
  CopyArgs = TRUE
  HtmlDep = FALSE
  LazyInit = TRUE
  PoolBuf = FALSE
VIEW View
INVARIANT SharedReadOnly
CHECK_DEADLOCK FALSE
