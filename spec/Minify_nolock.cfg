SPECIFICATION MSpec
CONSTANTS MaxRegs = 2
MaxDepth = 2
Locked = FALSE
UpdatePos = TRUE
WholeInput = TRUE
INVARIANTS RegistryStable
CHECK_DEADLOCK FALSE
