----------------------------- MODULE XmlMachine -----------------------------
(* Design model (level D) of the token loop of /repo/xml/xml.go, checked against the abstract
   relation XmlEq of XmlInfoset (level A), and generator of the documents that are run through
   the real code.

   Phase "gen": the input is built one token at a time; every reachable `inp` is a prefix of a
   well-formed document over Vocab.  Phase "run": one action per branch of the switch in
   Minifier.Minify (omitSpace flag, Peek loop over comment/PI/CDATA/tags, empty-element
   collapsing, CDATA-to-text).  Phase "done": the invariant compares input and output.

   Tokens: [k, c]  k = "ST" <name>   "ET" </name>   "VT" <name/>   "TX" text   "CD" CDATA
                     "CM" comment    "PI" <?c?>      "DT" <!DOCTYPE c>
   c = byte codes (for TX: 1000+b stands for a numeric character reference to byte b).
   Output tokens additionally: "TC" = CDATA section rewritten as escaped text. *)
EXTENDS XmlInfoset, TLC, Json
CONSTANTS MaxLen, Vocab, Emit, EmitMod,
          Prefix      \* token indices every generated document starts with (<<>> = none; must leave the root open)
VARIABLES inp, depth, rootDone, phase, keep, pos, omit, out
vars == <<inp, depth, rootDone, phase, keep, pos, omit, out>>

NV == Len(Vocab)
Tok(i) == Vocab[i]
InTokens == [i \in 1..Len(inp) |-> Vocab[inp[i]]]

\* text as the lexer hands it over (references still spelled out) and as character data
RawWs(a) == a < 1000 /\ IsWs(a)
AllRawWs(c) == \A i \in 1..Len(c) : RawWs(c[i])
Decoded(c) == [i \in 1..Len(c) |-> c[i] % 1000]

---------------------------------------------------------------------------------------------
\* generator: grammar of well-formed documents (element names: only "a" nests, "b" is empty)
CanAppend(t) ==
  LET k == Tok(t).k
      last == IF inp = <<>> THEN "" ELSE Tok(inp[Len(inp)]).k
  IN CASE k = "ST" -> depth > 0 \/ ~rootDone
       [] k = "VT" -> depth > 0 \/ ~rootDone
       [] k = "ET" -> depth > 0
       [] k = "TX" -> last # "TX" /\ (depth > 0 \/ AllRawWs(Tok(t).c))
       [] k = "CD" -> depth > 0
       [] k = "DT" -> depth = 0 /\ ~rootDone /\ \A i \in 1..Len(inp) : Tok(inp[i]).k \in {"CM", "PI", "TX"}
       [] OTHER -> TRUE                     \* comments and PIs anywhere
Gen(t) ==
  /\ phase = "gen" /\ Len(inp) < MaxLen /\ CanAppend(t)
  \* room is left to close every open element (and to have a root at all): prunes dead prefixes only
  /\ LET d1 == CASE Tok(t).k = "ST" -> depth + 1 [] Tok(t).k = "ET" -> depth - 1 [] OTHER -> depth
         rd == rootDone \/ depth > 0 \/ Tok(t).k \in {"ST", "VT"}
     IN Len(inp) + 1 + d1 + (IF rd THEN 0 ELSE 1) <= MaxLen
  /\ inp' = Append(inp, t)
  /\ depth' = CASE Tok(t).k = "ST" -> depth + 1 [] Tok(t).k = "ET" -> depth - 1 [] OTHER -> depth
  /\ rootDone' = (rootDone \/ (depth = 0 /\ Tok(t).k = "VT") \/ (depth = 1 /\ Tok(t).k = "ET"))
  /\ UNCHANGED <<phase, keep, pos, omit, out>>
Start(kw) ==
  /\ phase = "gen" /\ depth = 0 /\ rootDone
  /\ phase' = "run" /\ keep' = kw /\ pos' = 1
  /\ omit' = TRUE                      \* omitSpace := true
  /\ out' = <<>>
  /\ UNCHANGED <<inp, depth, rootDone>>

---------------------------------------------------------------------------------------------
\* the token loop.  Cur = *tb.Shift(), Peek(i) = tb.Peek(i) (i = 0 is the token after Cur);
\* past the end there is the ErrorToken (io.EOF).
Cur == Tok(inp[pos])
PeekK(i) == IF pos + 1 + i > Len(inp) THEN "EOF" ELSE Tok(inp[pos + 1 + i]).k
PeekC(i) == IF pos + 1 + i > Len(inp) THEN <<>> ELSE Tok(inp[pos + 1 + i]).c
Running == phase = "run" /\ pos <= Len(inp)
Advance(n) == pos' = pos + n /\ UNCHANGED <<inp, depth, rootDone, phase, keep>>

\* parse.ReplaceMultipleWhitespaceAndEntities on a text token: runs of literal whitespace become
\* one blank (a newline if the run had \n or \r); references below 128 are decoded AFTER the
\* run test, so whitespace that comes from a reference is never merged.
Collapse(c) ==
  LET n == Len(c)
      runNl(i) == LET RECURSIVE f(_) f(j) == IF j > n \/ ~RawWs(c[j]) THEN FALSE
                                             ELSE (c[j] \in {10, 13}) \/ f(j + 1) IN f(i)
      m == [i \in 1..n |-> IF RawWs(c[i]) THEN (IF i > 1 /\ RawWs(c[i-1]) THEN -1
                                                 ELSE IF runNl(i) THEN 10 ELSE 32)
                           ELSE c[i] % 1000]
  IN SelectSeq(m, LAMBDA x : x # -1)

\* look-ahead of the TextToken branch: what stops the loop decides whether the trailing blank goes
\* "trim" = remove the blank and omitSpace := false;  "keep" = leave it (omitSpace stays true)
TrailDecision ==
  LET RECURSIVE look(_)
      look(i) ==
        CASE PeekK(i) = "EOF" -> "trim"
          [] PeekK(i) = "TX"  -> IF Len(PeekC(i)) > 0 /\ RawWs(PeekC(i)[1]) THEN "trim" ELSE "keep"
          [] PeekK(i) = "CD"  -> IF Len(PeekC(i)) > 0 /\ IsWs(PeekC(i)[1]) THEN "trim" ELSE "keep"
          [] PeekK(i) \in {"ST", "VT", "ET"} -> IF ~keep THEN "trim" ELSE "keep"
          [] OTHER -> look(i + 1)          \* comment, PI, DOCTYPE: i++
  IN look(0)

StepText ==
  /\ Running /\ Cur.k = "TX"
  /\ LET d0 == Collapse(Cur.c)
         d1 == IF omit /\ Len(d0) > 0 /\ IsWs(d0[1]) THEN Tail(d0) ELSE d0      \* trim left
         trail == Len(d1) > 0 /\ IsWs(d1[Len(d1)])
         dec == IF trail THEN TrailDecision ELSE "none"
         d2 == IF dec = "trim" THEN SubSeq(d1, 1, Len(d1) - 1) ELSE d1
     IN /\ omit' = (Len(d1) = 0 \/ (trail /\ dec = "keep"))
        /\ out' = Append(out, [k |-> "TX", c |-> d2])
  /\ Advance(1)

\* xml.EscapeCDATAVal: text is used when the escapes cost at most len("<![CDATA[]]>") bytes
EscCost(c) == FoldLeft(LAMBDA n, x : IF x = 60 THEN n + 3 ELSE IF x = 38 THEN n + 4 ELSE n, 0, c)
StepCDATAEmpty ==
  /\ Running /\ Cur.k = "CD" /\ Cur.c = <<>>            \* `continue`: nothing written, omitSpace untouched
  /\ UNCHANGED <<omit, out>> /\ Advance(1)
StepCDATA ==
  /\ Running /\ Cur.k = "CD" /\ Cur.c # <<>>
  /\ out' = Append(out, [k |-> IF EscCost(Cur.c) <= 12 THEN "TC" ELSE "CD", c |-> Cur.c])
  /\ omit' = IsWs(Cur.c[Len(Cur.c)])      \* the character data now ends with the CDATA's last character (fix 9bd7820)
  /\ Advance(1)
StepComment ==
  /\ Running /\ Cur.k = "CM"                            \* no case in the switch: dropped
  /\ UNCHANGED <<omit, out>> /\ Advance(1)
StepVerbatim ==
  /\ Running /\ Cur.k \in {"PI", "DT"}
  /\ out' = Append(out, Cur) /\ UNCHANGED omit /\ Advance(1)
\* StartTagToken (+ attributes) followed by StartTagCloseToken with its two-token look-ahead
StepStart ==
  /\ Running /\ Cur.k = "ST"
  /\ omit' = IF keep THEN FALSE ELSE omit
  /\ LET skip == ~keep /\ PeekK(0) = "TX" /\ AllRawWs(PeekC(0))      \* (fix 68b0b86: not under KeepWhitespace)
         nextK == IF skip THEN PeekK(1) ELSE PeekK(0)
     IN IF nextK = "ET"
        THEN out' = Append(out, [k |-> "VT", c |-> Cur.c]) /\ Advance(IF skip THEN 3 ELSE 2)
        ELSE out' = Append(out, Cur) /\ Advance(1)
StepVoid ==
  /\ Running /\ Cur.k = "VT"
  /\ omit' = IF keep THEN FALSE ELSE omit
  /\ out' = Append(out, Cur) /\ Advance(1)
StepEnd ==
  /\ Running /\ Cur.k = "ET"
  /\ omit' = IF keep THEN FALSE ELSE omit
  /\ out' = Append(out, Cur) /\ Advance(1)
StepEOF ==
  /\ phase = "run" /\ pos > Len(inp)
  /\ phase' = "done" /\ UNCHANGED <<inp, depth, rootDone, keep, pos, omit, out>>

PrefixDepth == FoldLeft(LAMBDA d, t : CASE Tok(t).k = "ST" -> d + 1 [] Tok(t).k = "ET" -> d - 1 [] OTHER -> d, 0, Prefix)
ASSUME Prefix = <<>> \/ PrefixDepth > 0
Init == /\ inp = Prefix /\ depth = PrefixDepth /\ rootDone = FALSE /\ phase = "gen" /\ keep = FALSE
        /\ pos = 0 /\ omit = FALSE /\ out = <<>>
Next == \/ \E t \in 1..NV : Gen(t)
        \/ \E kw \in BOOLEAN : Start(kw)
        \/ StepText \/ StepCDATAEmpty \/ StepCDATA \/ StepComment \/ StepVerbatim
        \/ StepStart \/ StepVoid \/ StepEnd \/ StepEOF
Spec == Init /\ [][Next]_vars

---------------------------------------------------------------------------------------------
\* token streams as infoset events
EventsOf(toks) ==
  FoldLeft(LAMBDA st, t :
    LET ev(k, name, data) == [k |-> k, d |-> st.d, name |-> name, attrs |-> <<>>, data |-> data] IN
    CASE t.k = "ST" -> [d |-> st.d + 1, evs |-> Append(st.evs, ev("S", t.c, <<>>))]
      [] t.k = "ET" -> [d |-> st.d - 1, evs |-> Append(st.evs, [ev("E", t.c, <<>>) EXCEPT !.d = st.d - 1])]
      [] t.k = "VT" -> [d |-> st.d, evs |-> st.evs \o <<ev("S", t.c, <<>>), ev("E", t.c, <<>>)>>]
      [] t.k = "TX" -> [d |-> st.d, evs |-> Append(st.evs, ev("T", <<>>, Decoded(t.c)))]
      [] t.k \in {"CD", "TC"} -> [d |-> st.d, evs |-> Append(st.evs, ev("T", <<>>, [i \in 1..Len(t.c) |-> t.c[i] + 1000]))]
      [] t.k = "CM" -> [d |-> st.d, evs |-> Append(st.evs, ev("C", <<>>, t.c))]
      [] t.k = "PI" -> [d |-> st.d, evs |-> Append(st.evs, ev("P", t.c, <<>>))]
      [] t.k = "DT" -> [d |-> st.d, evs |-> Append(st.evs, ev("D", <<>>, <<68, 79, 67, 84, 89, 80, 69, 32>> \o t.c))],
    [d |-> 0, evs |-> <<>>], toks).evs

\* bytes of a token stream (input as written, output as the minifier writes it)
Esc(c) == FoldLeft(LAMBDA acc, x : IF x = 60 THEN acc \o <<38, 108, 116, 59>>
                                   ELSE IF x = 38 THEN acc \o <<38, 97, 109, 112, 59>> ELSE Append(acc, x), <<>>, c)
Digits(n) == IF n >= 100 THEN <<48 + (n \div 100), 48 + ((n \div 10) % 10), 48 + (n % 10)>>
             ELSE IF n >= 10 THEN <<48 + (n \div 10), 48 + (n % 10)>> ELSE <<48 + n>>
RawText(c) == FoldLeft(LAMBDA acc, x : IF x >= 1000 THEN acc \o <<38, 35>> \o Digits(x - 1000) \o <<59>> ELSE Append(acc, x), <<>>, c)
Render(toks, isOut) ==
  FoldLeft(LAMBDA acc, t :
    acc \o (CASE t.k = "ST" -> <<60>> \o t.c \o <<62>>
              [] t.k = "ET" -> <<60, 47>> \o t.c \o <<62>>
              [] t.k = "VT" -> <<60>> \o t.c \o <<47, 62>>
              [] t.k = "TX" -> IF isOut THEN Esc(t.c) ELSE RawText(t.c)
              [] t.k = "TC" -> Esc(t.c)
              [] t.k = "CD" -> <<60, 33, 91, 67, 68, 65, 84, 65, 91>> \o t.c \o <<93, 93, 62>>
              [] t.k = "CM" -> <<60, 33, 45, 45>> \o t.c \o <<45, 45, 62>>
              [] t.k = "PI" -> <<60, 63>> \o t.c \o <<63, 62>>
              [] t.k = "DT" -> <<60, 33, 68, 79, 67, 84, 89, 80, 69, 32>> \o t.c \o <<62>>), <<>>, toks)

---------------------------------------------------------------------------------------------
(* Constructs on which the real code is known to break the property (known/C06.txt); the
   design model reproduces them, so they are excepted here by their syntactic shape and pinned
   as known findings on the real code.  Everything else must satisfy XmlEq.
   (K5 blank-only element content under KeepWhitespace and K11 stale omitSpace after CDATA were
   excepted here until they were fixed in /repo - 68b0b86, 9bd7820; the model now has the fixed
   behaviour and those documents are ordinary cases again.) *)
\* "The minified document is well-formed", as far as the token level can tell: character data as
\* written (text and CDATA rewritten as text, concatenated) never contains "]]>"
HasSub(s, pat) == \E i \in 1..(Len(s) - Len(pat) + 1) : SubSeq(s, i, i + Len(pat) - 1) = pat
WrittenText(toks) ==
  FoldLeft(LAMBDA acc, t : IF t.k \in {"TX", "TC"} THEN [acc EXCEPT ![Len(acc)] = @ \o Esc(t.c)]
                           ELSE Append(acc, <<>>), << <<>> >>, toks)
NoCdataEndInText(toks) == LET w == WrittenText(toks) IN \A i \in 1..Len(w) : ~HasSub(w[i], <<93, 93, 62>>)
\* K7/K8: a text run of the INPUT whose characters contain "]]>" - in a well-formed document the ">"
\* then comes from a reference or from a CDATA boundary; decoding / CDATA-to-text writes it literally
KnownCdataEnd == LET r == Runs(EventsOf(InTokens)) IN \E i \in 1..Len(r) : HasSub(Chars(r[i].atoms), <<93, 93, 62>>)

Known == KnownCdataEnd
Holds == XmlEq(EventsOf(InTokens), EventsOf(out), keep) /\ NoCdataEndInText(out)
DesignRefinesInfoset == phase = "done" => (Holds \/ Known)
\* the exceptions are not vacuous: each one is needed (checked with the *_probe configurations)
DesignStrict == phase = "done" => Holds
\* the run phase never reads past the input and always terminates in "done"
TypeOK == /\ phase \in {"gen", "run", "done"} /\ pos \in 0..Len(inp) + 1 /\ depth >= 0
          /\ (phase = "gen" => out = <<>>)
\* hands every complete behaviour to the driver: input bytes, keepWs, predicted output bytes
\* (EmitMod > 1: of the longest documents only a deterministic 1/EmitMod sample is handed out)
EmitCase == (Emit /\ phase = "done" /\ (Len(inp) < MaxLen \/ FoldLeft(LAMBDA a, b : a + b, 0, inp) % EmitMod = 0)) =>
              PrintT(ToJson([keep |-> keep, in |-> Render(InTokens, FALSE), out |-> Render(out, TRUE), known |-> Known, holds |-> Holds, tk |-> InTokens]))

---------------------------------------------------------------------------------------------
\* vocabularies
T(k, c) == [k |-> k, c |-> c]
Tags == << T("ST", <<97>>), T("ET", <<97>>), T("VT", <<98>>) >>
TextsQ == << T("TX", <<120>>), T("TX", <<32, 120>>), T("TX", <<120, 32>>), T("TX", <<32, 120, 32>>),
             T("TX", <<32>>), T("TX", <<120, 32, 121>>) >>
CDataQ == << T("CD", <<>>), T("CD", <<120>>), T("CD", <<32, 120>>), T("CD", <<120, 32>>), T("CD", <<60>>),
             T("CD", <<93, 93>>), T("CD", <<97, 38, 98>>) >>
OtherQ == << T("CM", <<99>>), T("PI", <<112>>) >>
VocabQuick == Tags \o TextsQ \o CDataQ \o OtherQ
\* exhaustive in the thorough tier (22 kinds): adds a reference to a blank, "]]" / ">" material, a CDATA that stays
\* CDATA is left to the random walks
TextsT == TextsQ \o << T("TX", <<1032, 120>>), T("TX", <<1062>>), T("TX", <<93, 93>>) >>
CDataT == << T("CD", <<>>), T("CD", <<120>>), T("CD", <<32, 120>>), T("CD", <<120, 32>>), T("CD", <<60>>),
             T("CD", <<93, 93>>), T("CD", <<62>>) >>
VocabThorough == Tags \o TextsT \o CDataT \o OtherQ \o << T("DT", <<97>>) >>
(* "Window" family: documents that start with an open root whose last character data did not end in a blank
   (text "x" or CDATA "x": omitSpace is false), followed by every continuation over a small vocabulary.  This
   reaches, within a bound the quick tier affords, the look-ahead situations that need history: a start tag
   whose whitespace-only text is looked at by StartTagClose and then looks ahead itself over comments / PIs
   while tokens are still unread in xml/buffer.go's TokenBuffer (pos > 0, unread > 0, no growth). *)
VocabWindow == << T("ST", <<97>>), T("ET", <<97>>), T("VT", <<98>>), T("TX", <<120>>), T("TX", <<32>>), T("TX", <<32, 120, 32>>),
                 T("CD", <<120>>), T("CD", <<32, 120, 32>>), T("CM", <<99>>), T("PI", <<112>>) >>
PrefixNone == <<>>
PrefixOpenText == <<1, 4>>           \* <a>x
PrefixOpenCdata == <<1, 7>>          \* <a><![CDATA[x]]>
PrefixOpenTextOpen == <<1, 4, 1>>    \* <a>x<a>
\* random walks only (not exhaustive): newline blanks, long blank runs, CDATA that is kept / blank-only / with "&",
\* blanks that come from references, CR LF
VocabSim == VocabThorough \o << T("TX", <<10, 32>>), T("TX", <<32, 32, 120, 9, 10, 121>>), T("CD", <<97, 38, 98>>),
                                 T("CD", <<60, 60, 60, 60, 60>>), T("CD", <<32>>),
                                 T("TX", <<1032>>), T("TX", <<120, 1010>>), T("TX", <<1009, 120, 32>>), T("CD", <<10>>),
                                 T("TX", <<120, 13, 10, 121>>), T("TX", <<1013, 10>>) >>
=============================================================================
