----------------------------- MODULE Closure -----------------------------
(* C09: "Whenever a minifier returns without error, its output is syntactically valid in the
   same language according to an independent parser, and feeding that output to the same
   minifier again succeeds."

   The pipeline that observes this is a small state machine

       Fresh --Minify--> Err1 | Out1 --Judge--> Judged --Minify--> Err2 | Out2

   Part 1 is that machine as a function on recorded events (Step / RunPipe), used by C09Trace
   on every two-pass record of the real code, with the property as the invariant PipeInv.

   Part 2 is the design-level argument for observing only TWO passes.  Over a finite universe
   of documents, for EVERY accepted-set, EVERY valid-set and EVERY minifier function that
   satisfies the one-step contract (what C09 states), TLC checks that arbitrarily long
   re-minification chains stay accepted and stay valid - i.e. the one-step property checked on
   the real code is inductive, and "accepted again" closes the set of accepted inputs under the
   minifier.  Validity is judged relative to the input: a minifier that accepts a document the
   independent parser rejects (lenient parsing) promises nothing about the validity of its
   output (garbage in, garbage out), only that the output is accepted again. *)
EXTENDS Integers, Sequences, FiniteSets, TLC

(* ------------------------------------------------------------------ 1. pipeline on records *)
\* a goal is one independent judgement: bad0 / bad1 = number of parts of the input / output
\* the independent parser rejects (0 or 1 for single-language documents, a count for the
\* embedded scripts / styles of an HTML document)
GoalOK(g) == g.bad1 <= g.bad0            \* "its output is syntactically valid" wherever the input was
PipeInit == [stage |-> "Fresh", acc1 |-> FALSE, judged |-> FALSE, valid |-> TRUE, acc2 |-> FALSE]
Step(s, e) ==
  CASE e.k = "min1"  /\ s.stage = "Fresh"  -> [s EXCEPT !.stage = IF e.ok THEN "Out1" ELSE "Err1", !.acc1 = e.ok]
    [] e.k = "judge" /\ s.stage = "Out1"   -> [s EXCEPT !.stage = "Judged", !.judged = TRUE, !.valid = e.ok]
    [] e.k = "min2"  /\ s.stage = "Judged" -> [s EXCEPT !.stage = IF e.ok THEN "Out2" ELSE "Err2", !.acc2 = e.ok]
    [] OTHER -> [s EXCEPT !.stage = "Stuck"]
Terminal == {"Err1", "Out2", "Err2"}
\* the property, as a predicate on pipeline states (checked in EVERY state the record drives the machine through)
PipeInv(s) ==
  /\ s.stage # "Stuck"
  /\ s.stage \in {"Judged", "Out2", "Err2"} => s.valid             \* Accepted1 => Valid1
  /\ s.stage \in {"Out2", "Err2"} => s.acc2                        \* Accepted1 => Accepted2
RECURSIVE RunPipe(_, _, _)
RunPipe(s, evs, i) == IF i > Len(evs) THEN <<s>> ELSE <<s>> \o RunPipe(Step(s, evs[i]), evs, i + 1)
PipeStates(evs) == RunPipe(PipeInit, evs, 1)

(* ------------------------------------------------------------------ 2. why two passes are enough *)
CONSTANTS D            \* number of abstract documents
Docs == 1..D
VARIABLES M,           \* the minifier: Docs -> Docs \cup {0}   (0 = error)
          V,           \* the independent parser's language
          d0, d, pass
vars == <<M, V, d0, d, pass>>

Accepts(x) == M[x] # 0
\* the one-step contract = C09 for a single call
Contract == \A x \in Docs : Accepts(x) => /\ Accepts(M[x])                      \* accepted again
                                          /\ (x \in V => M[x] \in V)            \* valid output for valid input
Init == /\ M \in [Docs -> Docs \cup {0}] /\ V \in SUBSET Docs
        /\ Contract
        /\ d0 \in Docs /\ d = d0 /\ pass = 0
Next == /\ Accepts(d) /\ pass < D + 1
        /\ d' = M[d] /\ pass' = pass + 1 /\ UNCHANGED <<M, V, d0>>
Spec == Init /\ [][Next]_vars
\* every later pass is accepted and stays valid
ChainAccepted == (pass >= 1) => Accepts(d)
ChainValid == (pass >= 1 /\ d0 \in V) => d \in V
=============================================================================
