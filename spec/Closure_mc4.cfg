SPECIFICATION Spec
CONSTANTS D = 4
INVARIANTS ChainAccepted ChainValid
CHECK_DEADLOCK FALSE
