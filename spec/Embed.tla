------------------------------- MODULE Embed -------------------------------
(* C11: embedded resources.  Extends the registry of C15.

   A host document is a sequence of slots (the literal text between them carries no embedded
   content): kind, type attribute, payload.  ExpectedType is the table of documented defaults.
   Abstract law (A), used by C11Trace on real executions:
     - a slot whose media type has no minifier (Lookup = None) passes through unchanged;
     - otherwise exactly one nested call, to Lookup(ExpectedType(slot)), with the slot's params;
       the slot of the output decodes to what that call returned;
     - if that call fails, the outer call fails with an error located inside the slot.
   Design model (D), checked here with TLC: a transcription of the host loops' bookkeeping
   (html: rawTag / rawType captured from the type attribute and reset at every start tag;
   svg: current tag and default style type), composed with the registry, run over every
   configuration (<= MaxRegs registrations from Menu) x host (<= MaxSlots slot shapes).
   Invariants relate D to A (NoLeak, OneEnterPerServedSlot, FailStops, AbsentPassesThrough).
   The same run prints every (configuration, host) pair for the driver. *)
EXTENDS EmbedOps

CONSTANTS MaxSlots

-----------------------------------------------------------------------------
(* Design model *)
VARIABLES hostKind, host, phase, pc, sub, rawTag, rawType, enters, outp, status
evars == <<lit, pats, hist, hostKind, host, phase, pc, sub, rawTag, rawType, enters, outp, status>>

\* registration menu: target (literal or pattern) x behaviour (cmd field: 0 recording stub, 1 failing stub)
Menu == << [lit |-> bTextCss, pat |-> 0], [lit |-> bJs, pat |-> 0], [lit |-> <<>>, pat |-> 4],
           [lit |-> <<>>, pat |-> 1], [lit |-> bSvg, pat |-> 0], [lit |-> bHtml, pat |-> 0],
           [lit |-> <<>>, pat |-> 2], [lit |-> <<>>, pat |-> 6] >>
\* slot shapes: kind, type attribute (hasType), data URI media type
\* body: "text" (a text token that can be minified), "empty" (no text token at all), "template" (text that contains
\* a template delimiter while TemplateDelims is set: README "preserve context within and surrounding" - written as is)
ShapeB(k, ht, ty, mt, b) == [kind |-> k, hasType |-> ht, type |-> ty, mt |-> mt, body |-> b]
Shape(k, ht, ty, mt) == ShapeB(k, ht, ty, mt, "text")
HtmlShapes == { Shape("script", FALSE, <<>>, <<>>), Shape("script", TRUE, bTextJs, <<>>), Shape("script", TRUE, bJsCharset, <<>>),
                Shape("script", TRUE, bModule, <<>>), Shape("script", TRUE, bLdJson, <<>>), Shape("script", TRUE, bTemplate, <<>>),
                Shape("style", FALSE, <<>>, <<>>), Shape("style", TRUE, bTextCss, <<>>), Shape("style", TRUE, bScss, <<>>),
                Shape("iframe", FALSE, <<>>, <<>>), Shape("svg", FALSE, <<>>, <<>>), Shape("math", FALSE, <<>>, <<>>),
                Shape("styleAttr", FALSE, <<>>, <<>>), Shape("onAttr", FALSE, <<>>, <<>>),
                Shape("dataUriAttr", FALSE, <<>>, bSvg), Shape("dataUriAttr", FALSE, <<>>, bTextCss),
                Shape("dataUriAttr", FALSE, <<>>, <<>>), Shape("dataUriAttr", FALSE, <<>>, bSvgCharset) }
\* raw elements whose text is never handed to a minifier: typed or untyped, empty or template body
UnconsumedShapes ==
  { ShapeB("script", FALSE, <<>>, <<>>, "empty"), ShapeB("script", TRUE, bTextJs, <<>>, "empty"), ShapeB("script", TRUE, bModule, <<>>, "empty"),
    ShapeB("script", TRUE, bLdJson, <<>>, "empty"), ShapeB("script", TRUE, bTemplate, <<>>, "empty"),
    ShapeB("style", FALSE, <<>>, <<>>, "empty"), ShapeB("style", TRUE, bTextCss, <<>>, "empty"), ShapeB("style", TRUE, bScss, <<>>, "empty"),
    ShapeB("iframe", FALSE, <<>>, <<>>, "empty"),
    ShapeB("script", FALSE, <<>>, <<>>, "template"), ShapeB("script", TRUE, bLdJson, <<>>, "template"),
    ShapeB("style", FALSE, <<>>, <<>>, "template"), ShapeB("style", TRUE, bScss, <<>>, "template"), ShapeB("iframe", FALSE, <<>>, <<>>, "template") }
SvgShapes  == { Shape("svgStyleText", FALSE, <<>>, <<>>), Shape("svgStyleCdata", FALSE, <<>>, <<>>), Shape("svgStyleAttr", FALSE, <<>>, <<>>),
                Shape("svgStyleText", TRUE, bTextCss, <<>>) }
CssShapes  == { Shape("cssDataUri", FALSE, <<>>, bSvg), Shape("cssDataUri", FALSE, <<>>, bTextCss), Shape("cssDataUri", FALSE, <<>>, <<>>),
                Shape("cssDataUri", FALSE, <<>>, bSvgCharset) }
\* host kind "csswarm": a style sheet minified on a registry on which an HTML document with an inline <svg> element was
\* minified before (two documents, one registry: what an earlier call derived from ITS params - inline=1 for the svg
\* minifier - must not reach the svg minifier of a later data: URI).  Within one document the same order is the slot
\* sequence  svg element, then data URI  of the html shapes.
ShapesOf(h) == CASE h = "html" -> HtmlShapes \cup UnconsumedShapes [] h = "svg" -> SvgShapes [] h = "css" -> CssShapes [] h = "csswarm" -> CssShapes

EInit == /\ RInit /\ hostKind = "none" /\ host = <<>> /\ phase = "config" /\ pc = 1 /\ sub = 0
         /\ rawTag = "none" /\ rawType = <<>> /\ enters = <<>> /\ outp = <<>> /\ status = "running"

ERegister(t, beh) ==
  /\ phase = "config" /\ Len(hist) < MaxRegs
  /\ LET id == Len(hist) + 1 IN
       IF Menu[t].pat = 0 THEN RegLit("AddFunc", Menu[t].lit, id, beh) ELSE RegPat("AddFuncRegexp", Menu[t].pat, id, beh)
  /\ hist' = Append(hist, [k |-> IF Menu[t].pat = 0 THEN "AddFunc" ELSE "AddFuncRegexp", t |-> t, beh |-> beh])
  /\ UNCHANGED <<hostKind, host, phase, pc, sub, rawTag, rawType, enters, outp, status>>
ChooseHost(h) ==
  /\ phase = "config" /\ phase' = "compose" /\ hostKind' = h
  /\ UNCHANGED <<lit, pats, hist, host, pc, sub, rawTag, rawType, enters, outp, status>>
\* (a third slot is taken from a reduced set so that three-slot hosts stay enumerable)
ThirdShapes == { Shape("script", FALSE, <<>>, <<>>), Shape("style", FALSE, <<>>, <<>>), Shape("iframe", FALSE, <<>>, <<>>),
                 Shape("script", TRUE, bModule, <<>>), Shape("svg", FALSE, <<>>, <<>>), Shape("styleAttr", FALSE, <<>>, <<>>),
                 Shape("onAttr", FALSE, <<>>, <<>>), Shape("dataUriAttr", FALSE, <<>>, bSvg) } \cup SvgShapes \cup CssShapes
AddSlot(s) ==
  /\ phase = "compose" /\ Len(host) < MaxSlots /\ s \in ShapesOf(hostKind)
  /\ (Len(host) < 2 \/ s \in ThirdShapes)
  /\ host' = Append(host, s)
  /\ UNCHANGED <<lit, pats, hist, hostKind, phase, pc, sub, rawTag, rawType, enters, outp, status>>
Start ==
  /\ phase = "compose" /\ phase' = "run"
  /\ UNCHANGED <<lit, pats, hist, hostKind, host, pc, sub, rawTag, rawType, enters, outp, status>>

\* the nested call: MinifyMimetype(mime, ..., params) as seen by the host loop
Dispatch(mime, params) ==
  LET e == Lookup(mime) IN
    IF e = None THEN /\ outp' = Append(outp, [slot |-> pc, how |-> "unchanged", id |-> 0])
                     /\ UNCHANGED <<enters, status>>
    ELSE /\ enters' = Append(enters, [slot |-> pc, mime |-> mime, params |-> params, id |-> e.id])
         /\ IF e.cmd = 1 THEN status' = "failed" /\ outp' = outp
            ELSE status' = status /\ outp' = Append(outp, [slot |-> pc, how |-> "minified", id |-> e.id])

\* html.go: StartTag of a raw text element resets the captured type; the attribute loop captures type=
\* ... and a text token that can be minified follows
HtmlStartTagText(s) ==
  /\ s.kind \in ElementKinds /\ sub = 0 /\ s.body = "text"
  /\ rawTag' = s.kind /\ rawType' = IF s.hasType THEN NormMediatype(s.type) ELSE <<>>   \* captured after minify.Mediatype (4519604)
  /\ sub' = 1 /\ UNCHANGED <<pc, enters, outp, status>>
\* ... and no text reaches a minifier: the element is empty (no text token) or its text holds a template
\* (written as is).  The captured type must not survive into the next raw element.
HtmlStartTagNoText(s) ==
  /\ s.kind \in ElementKinds /\ sub = 0 /\ s.body # "text"
  /\ rawTag' = s.kind /\ rawType' = IF s.hasType THEN NormMediatype(s.type) ELSE <<>>   \* captured after minify.Mediatype (4519604)
  /\ sub' = 2 /\ UNCHANGED <<pc, enters, outp, status>>
\* html.go: TextToken while rawTagHash is Script/Style/Iframe
HtmlRawText(s) ==
  /\ s.kind \in ElementKinds /\ sub = 1
  /\ LET t == IF rawTag = "iframe" THEN [mime |-> bHtml, params |-> NoParams]
              ELSE IF rawType # <<>> THEN Split(rawType)
              ELSE IF rawTag = "script" THEN [mime |-> bJs, params |-> NoParams]
              ELSE [mime |-> bTextCss, params |-> NoParams]
     IN Dispatch(t.mime, t.params)
  /\ sub' = 2 /\ UNCHANGED <<pc, rawTag, rawType>>
\* html.go: the end tag resets rawTagHash (rawTagMediatype is only reset by the next raw start tag)
HtmlEndTag(s) ==
  /\ s.kind \in ElementKinds /\ sub = 2
  /\ rawTag' = "none" /\ sub' = 0 /\ pc' = pc + 1 /\ UNCHANGED <<rawType, enters, outp, status>>
\* html.go: SvgToken / MathToken / style= / on*= / data: URL attribute; css.go url(); svg.go style text/CDATA/attribute
Single(s) ==
  /\ s.kind \notin ElementKinds /\ sub = 0
  /\ LET t == CASE s.kind = "svg" -> [mime |-> bSvg, params |-> InlineParams]
                [] s.kind = "math" -> [mime |-> bMathml, params |-> NoParams]
                [] s.kind \in {"styleAttr", "svgStyleAttr"} -> [mime |-> bTextCss, params |-> InlineParams]
                [] s.kind = "onAttr" -> [mime |-> bJs, params |-> InlineParams]
                [] s.kind \in DataUriKinds -> IF s.mt = <<>> THEN [mime |-> bTextPlain, params |-> NoParams] ELSE Split(s.mt)
                [] s.kind \in {"svgStyleText", "svgStyleCdata"} -> [mime |-> bTextCss, params |-> NoParams]
     IN Dispatch(t.mime, t.params)
  /\ pc' = pc + 1 /\ UNCHANGED <<sub, rawTag, rawType>>
Run ==
  /\ phase = "run" /\ status = "running" /\ pc <= Len(host)
  /\ LET s == host[pc] IN HtmlStartTagText(s) \/ HtmlStartTagNoText(s) \/ HtmlRawText(s) \/ HtmlEndTag(s) \/ Single(s)
  /\ UNCHANGED <<lit, pats, hist, hostKind, host, phase>>

ENext == \/ \E t \in DOMAIN Menu, beh \in {0, 1} : ERegister(t, beh)
         \/ \E h \in {"html", "svg", "css", "csswarm"} : ChooseHost(h)
         \/ \E s \in HtmlShapes \cup UnconsumedShapes \cup SvgShapes \cup CssShapes : AddSlot(s)
         \/ Start \/ Run
ESpec == EInit /\ [][ENext]_evars

-----------------------------------------------------------------------------
(* D => A *)
SlotType(i) == ExpectedType(host[i].kind, host[i].hasType, host[i].type, host[i].mt)
\* every nested call uses the media type and params of its own slot (nothing leaks from an earlier element)
NoLeak == \A j \in DOMAIN enters :
  LET en == enters[j] t == SlotType(en.slot) IN
    en.mime = t.mime /\ en.params = t.params /\ en.id = Lookup(t.mime).id
\* the situation "typed raw element whose text is never consumed, then an untyped raw element": the second one is
\* dispatched by its own default (instance of NoLeak, stated separately so that its antecedent shows in coverage)
UnconsumedTypeDoesNotLeak == \A j \in DOMAIN enters :
  LET i == enters[j].slot IN
    (i > 1 /\ host[i].kind \in ElementKinds /\ ~host[i].hasType /\ host[i-1].kind \in ElementKinds
       /\ host[i-1].hasType /\ host[i-1].body # "text")
    => enters[j].mime = (IF host[i].kind = "script" THEN bJs ELSE IF host[i].kind = "style" THEN bTextCss ELSE bHtml)
\* exactly one nested call per processed slot that has a minifier, none for the others, in order
Processed == IF phase # "run" THEN 0 ELSE IF sub = 2 THEN pc ELSE pc - 1
OneEnterPerServedSlot ==
  LET served == SelectSeq([i \in 1..Processed |-> i], LAMBDA i : host[i].body = "text" /\ Lookup(SlotType(i).mime) # None)
  IN [j \in DOMAIN enters |-> enters[j].slot] = served
\* a failing nested call stops the host; nothing is entered afterwards
FailStops == status = "failed" =>
  /\ enters # <<>> /\ Lookup(enters[Len(enters)].mime).cmd = 1
  /\ \A j \in 1..(Len(enters) - 1) : Lookup(enters[j].mime).cmd = 0
\* no minifier registered => the slot is copied unchanged
AbsentPassesThrough == \A j \in DOMAIN outp :
  (outp[j].how = "unchanged") <=> (Lookup(SlotType(outp[j].slot).mime) = None)
ETypeOK == /\ phase \in {"config", "compose", "run"} /\ status \in {"running", "failed"}
           /\ Len(host) <= MaxSlots /\ Len(hist) <= MaxRegs /\ sub \in 0..2 /\ pc \in 1..(Len(host) + 1)

(* Generator: complete runs are printed: host kind, registrations (menu index*10+behaviour), shapes *)
ShapeCode(s) ==
  <<s.kind, IF s.hasType THEN s.type ELSE <<0>>, s.mt, s.body>>
Finished == phase = "run" /\ (status = "failed" \/ pc > Len(host))
EEmit == Finished => PrintT(<<"EMBED", hostKind, [i \in DOMAIN hist |-> hist[i].t * 10 + hist[i].beh],
                              [i \in DOMAIN host |-> ShapeCode(host[i])]>>)
EmitMenu(unused) == \A t \in DOMAIN Menu : PrintT(<<"MENU", t, Menu[t].pat, Menu[t].lit>>)
EEmitAll == EEmit /\ (phase # "config" \/ hist # <<>> \/ EmitMenu(hist))
=============================================================================
