----------------------------- MODULE Totality -----------------------------
(* C10: "For arbitrary byte strings and any option values, every minifier and exported helper
   returns - output or error - without panicking, without unbounded recursion or memory growth,
   and within time proportional to the input size.  When the byte/string convenience entry
   points report an error they return the caller's original data unchanged."

   The specification is a call/return machine over model documents:

       Idle --Mutate(op)--> Idle          mutation operators on the current document
       Idle --Call(api, opt)--> Running --Return(ok | err)--> Idle

   There is NO Panic, Timeout or Crash transition: an observed panic / timeout / crash is not a
   behaviour of the specification (NoPanic).  Return is constrained by WithinBudget (cost linear
   in the input length) and, for the Bytes/String entry points, by ErrGivesOriginal.

   Uses: (GEN) with GenSpec TLC enumerates every document reachable by <= MaxOps mutation
   operators from the seeds (TotalitySeeds) - the state dump is the exhaustive mutant set that
   the harness feeds to every entry point with every option extreme; (MC) with Spec TLC explores
   the call machine on top; (TV) C10Trace evaluates the three predicates on every recorded call.

   The hazard configuration (AllowInPlace = TRUE) lets the design edit the caller's buffer while
   Running and return that same buffer on error; TLC must then FIND a violation of
   ErrGivesOriginalInv (non-vacuity of the clause; c10.py fails if it does not). *)
EXTENDS Integers, Sequences, FiniteSets, TLC, TotalitySeeds

CONSTANTS MaxOps,        \* mutation operators applied to a seed (1 or 2)
          Ops2,          \* operator names allowed as the second operator
          InjectBytes,   \* bytes injected
          Depths,        \* nesting depths d
          AllowInPlace   \* hazard model switch

VARIABLES seed, doc, nest, ops, lastop,       \* the document
          phase, call, buf, orig, ret, outcome   \* the call machine
dvars == <<seed, doc, nest, ops, lastop>>
cvars == <<phase, call, buf, orig, ret, outcome>>
vars == <<dvars, cvars>>

NSeeds == Len(SeedDoc)
SeedsUsed == 1..NSeeds                  \* overridden in configurations that leave out the long model documents
ShortSeeds == {i \in 1..NSeeds : Len(SeedDoc[i]) <= 12}
RECURSIVE FlatFrom(_, _)
FlatFrom(d, i) == IF i > Len(d) THEN <<>> ELSE d[i] \o FlatFrom(d, i + 1)
Flat(d) == FlatFrom(d, 1)
NonEmpty(d) == SelectSeq(d, LAMBDA t : t # <<>>)
LangIx(lang) == CHOOSE i \in 1..Len(NestLangs) : NestLangs[i] = lang

(* ------------------------------------------------------------------ mutation operators *)
OpAllowed(name) == ops = 0 \/ name \in Ops2
Truncate == /\ OpAllowed("trunc")
            /\ \E k \in 0..(Len(Flat(doc)) - 1) : doc' = NonEmpty(<<SubSeq(Flat(doc), 1, k)>>)
            /\ lastop' = "trunc"
Dup ==  /\ OpAllowed("dup")
        /\ \E i \in 1..Len(doc) : doc' = SubSeq(doc, 1, i) \o <<doc[i]>> \o SubSeq(doc, i + 1, Len(doc))
        /\ lastop' = "dup"
Del ==  /\ OpAllowed("del")
        /\ \E i \in 1..Len(doc) : doc' = SubSeq(doc, 1, i - 1) \o SubSeq(doc, i + 1, Len(doc))
        /\ lastop' = "del"
Swap == /\ OpAllowed("swap")
        /\ \E i \in 1..(Len(doc) - 1) : doc' = SubSeq(doc, 1, i - 1) \o <<doc[i + 1], doc[i]>> \o SubSeq(doc, i + 2, Len(doc))
        /\ lastop' = "swap"
Splice == /\ OpAllowed("splice")
          /\ \E s2 \in 1..NSeeds, i \in 0..Len(doc) :
                /\ SeedLang[s2] = SeedLang[seed]
                /\ \E j \in 1..Len(SeedDoc[s2]) : doc' = SubSeq(doc, 1, i) \o SubSeq(SeedDoc[s2], j, Len(SeedDoc[s2]))
          /\ lastop' = "splice"
Inject == /\ OpAllowed("inject")
          /\ \E k \in 0..Len(Flat(doc)), b \in InjectBytes :
                doc' = NonEmpty(<<SubSeq(Flat(doc), 1, k), <<b>>, SubSeq(Flat(doc), k + 1, Len(Flat(doc)))>>)
          /\ lastop' = "inject"
\* replace a string token ( "..." or '...' ) by the empty string "" / '', and by nothing at all (empty value)
IsStrTok(t) == Len(t) >= 3 /\ t[1] \in {34, 39} /\ t[Len(t)] = t[1]
EmptyStr == /\ OpAllowed("empty")
            /\ \E i \in 1..Len(doc) : /\ IsStrTok(doc[i])
                                      /\ \/ doc' = [doc EXCEPT ![i] = <<doc[i][1], doc[i][1]>>]
                                         \/ doc' = SubSeq(doc, 1, i - 1) \o SubSeq(doc, i + 1, Len(doc))
            /\ lastop' = "empty"
Mutate == /\ phase = "Idle" /\ ops < MaxOps /\ nest = <<0, 0>>
          /\ (Truncate \/ Dup \/ Del \/ Swap \/ Splice \/ Inject \/ EmptyStr)
          /\ ops' = ops + 1 /\ UNCHANGED <<seed, nest, cvars>>
\* nest the document d times inside construct c of its language (always the last operator; rendered by the harness)
Nest == /\ phase = "Idle" /\ ops < MaxOps /\ nest = <<0, 0>> /\ OpAllowed("nest")
        /\ \E c \in 1..NestCount[LangIx(SeedLang[seed])], d \in Depths : nest' = <<c, d>>
        /\ ops' = ops + 1 /\ lastop' = "nest" /\ UNCHANGED <<seed, doc, cvars>>

(* ------------------------------------------------------------------ call / return machine *)
Apis(lang) == CASE lang = "num" -> {"Number", "Decimal"}
                [] lang = "mediatype" -> {"Mediatype"}
                [] lang = "datauri" -> {"DataURI"}
                [] OTHER -> {"Minify", "Bytes", "String"}
\* option extremes (labels: TLC integers are 32 bit; the harness maps them to -1, 0, 1, 17, 10^6, MaxInt, MaxInt-1, 2^31, 2^62, MinInt)
Precs == {"-1", "0", "1", "17", "1000000", "MaxInt", "MaxInt-1", "2^31", "2^62", "MinInt"}
HasOrig(api) == api \in {"Bytes", "String"}

Call == /\ phase = "Idle"
        /\ \E api \in Apis(SeedLang[seed]), p \in Precs : call' = [api |-> api, prec |-> p]
        /\ phase' = "Running" /\ buf' = Flat(doc) /\ orig' = Flat(doc) /\ ret' = <<>> /\ outcome' = "none"
        /\ UNCHANGED dvars
\* hazard model only: the minifier works on the caller's buffer in place (lower-casing a tag name, writing a NUL)
EditInPlace == /\ AllowInPlace /\ phase = "Running" /\ Len(buf) > 0
               /\ \E i \in 1..Len(buf) : buf' = [buf EXCEPT ![i] = 0]
               /\ UNCHANGED <<dvars, phase, call, orig, ret, outcome>>
ReturnOk ==  /\ phase = "Running" /\ phase' = "Idle" /\ outcome' = "ok"
             /\ ret' = <<>>                                  \* any output; its content is the business of C01-C09
             /\ UNCHANGED <<dvars, call, buf, orig>>
ReturnErr == /\ phase = "Running" /\ phase' = "Idle" /\ outcome' = "err"
             /\ ret' = IF HasOrig(call.api) THEN (IF AllowInPlace THEN buf ELSE orig) ELSE <<>>
             /\ UNCHANGED <<dvars, call, buf, orig>>

Init == /\ seed \in SeedsUsed /\ doc = SeedDoc[seed] /\ nest = <<0, 0>> /\ ops = 0 /\ lastop = "seed"
        /\ phase = "Idle" /\ call = [api |-> "none", prec |-> "0"] /\ buf = <<>> /\ orig = <<>> /\ ret = <<>> /\ outcome = "none"
GenNext == Mutate \/ Nest
Next == Mutate \/ Nest \/ Call \/ EditInPlace \/ ReturnOk \/ ReturnErr
GenSpec == Init /\ [][GenNext]_vars
Spec == Init /\ [][Next]_vars

(* ------------------------------------------------------------------ the property, on events *)
\* an event is what the harness records for one call:
\*   [api, n, outcome, cpu_us, alloc (KiB), stack (KiB), small, orig, ret, orig_sha, ret_sha, nout]
NoPanic(e) == e.outcome \in {"ok", "err"}                   \* not "panic", "timeout", "mem", "crash"
\* "within time proportional to the input size" / "without unbounded ... memory growth": generous linear bounds
CpuBudget(len) == 250000 + 5 * len                           \* microseconds of process CPU time
MemBudgetKiB(len) == 46875 + (75 * len) \div 128               \* 48 MB + 600 bytes per input byte, in KiB (TLC integers are 32 bit)
WithinBudget(e) == e.cpu_us <= CpuBudget(e.n) /\ e.alloc + e.stack <= MemBudgetKiB(e.n)     \* alloc, stack: KiB allocated / stack growth
\* "When the byte/string convenience entry points report an error they return the caller's original data unchanged"
ErrGivesOriginal(e) ==
  (HasOrig(e.api) /\ e.outcome = "err") =>
     /\ e.ret_sha = e.orig_sha /\ e.nout = e.n
     /\ (e.small => e.ret = e.orig)                          \* small documents travel as bytes and are compared here

(* ------------------------------------------------------------------ configuration values *)
NoOps == {}
SecondOps == {"trunc", "del", "swap", "nest", "empty"}
InjAll == {0, 128, 255, 60, 38, 92, 34}                      \* 0x00 0x80 0xFF < & \ "
InjFew == {0, 60}
DepthsQuick == {10, 100, 1000, 10000}
DepthsFew == {10}
PrecsFew == {"0", "17"}

(* ------------------------------------------------------------------ design-level invariants *)
TypeOK == /\ ops \in 0..MaxOps /\ phase \in {"Idle", "Running"}
          /\ (nest # <<0, 0>> => lastop = "nest")
          /\ (phase = "Running" => call.api \in Apis(SeedLang[seed]))
\* documents stay small enough to enumerate every byte position (bound of the exhaustive claim)
DocBound == Len(Flat(doc)) <= 400
\* a call never changes the model document (calls are observations)
ErrGivesOriginalInv == (phase = "Idle" /\ outcome = "err" /\ HasOrig(call.api)) => ret = orig
=============================================================================
