SPECIFICATION Spec
CONSTANTS
  NG = 1
  MaxCalls = 2
  ShapeNames <- FailThenGood
  AllowReg = FALSE
  CopyOpts = TRUE
  TightCap = TRUE
  CopyArgs = TRUE
  HtmlDep = FALSE
  LazyInit = FALSE
  PoolBuf = TRUE
VIEW View
INVARIANT SharedReadOnly
CHECK_DEADLOCK FALSE
