SPECIFICATION Spec
CONSTANTS
 MaxUnits = 2
 LocalNames = {"x", "a"}
 FreeNames = {}
 Top = {"b"}
 MaxParams = 0
 MaxDecl = 1
 Start <- StartAB
 Cont <- ContABC
 DReserved = {"aa"}
 AllowWith = TRUE
 AllowVars = FALSE
 MaxUses = 1
 AllowFlat = FALSE
 MoveAfterRename = FALSE
 OldWith = TRUE
 RestoreOwn = FALSE
INVARIANTS CaptureFree
CHECK_DEADLOCK FALSE
