------------------------------- MODULE Minify -------------------------------
(* Top-level system specification: what the modules of the separate properties say together.

     Registry.tla   (C15)  registration history, literal map + ordered pattern list, Split, Lookup
     EmbedOps.tla   (C11)  documented default media types of embedded resources
     Stream.tla     (C12/C14, not instantiated: a design model with its own thirteen variables and
                    configurations) sees the registry only through three abstractions - `notexist`
                    (is a minifier selected), `Chosen(c)` (Content-Type, else the type of the request
                    path extension) and the uninterpreted result F(input).  They are given their meaning
                    here:   notexist  ==  Lookup(Split(mediatype).mime) = None
                            Chosen    ==  Chosen(ct) below (same rule), dispatched through Match
                            F(input)  ==  the result tree Node(id, input, nested result)
     Conc.tla       (C13)  the RWMutex that keeps registrations out of running calls is the switch
                    Locked here (TRUE = the code; FALSE = wrong design, used as vacuity guard).

   One behaviour: up to MaxRegs registrations (menu: html / css / svg literals and the pattern ^text/,
   each succeeding or failing), then one call through one entry point
       Minify | Bytes | String | Reader | Writer | Response (ResponseWriter / Middleware)
   with a media type string, the input cut into at most two chunks, and the call stack of nested
   minifier calls that the selected minifier makes for its embedded resource
       html --inline svg--> svg --style element--> css          (nesting <= MaxDepth).

   Cross-cutting invariants (none of the single modules states them):
     (a) SameDispatch / ServedByLookup   every entry point - the wrappers through Match included - is served
                                         by the entry the documented rules select (reference model over the history)
     (b) RegistryStable                  a nested call sees exactly the registry the outer call saw
     (c) ErrorLocated                    an error from depth d surfaces at depth 0 with a position inside
                                         the embedding construct of the outer document
     (d) SameBytes                       every entry point delivers the bytes of the plain call on the whole
                                         input, whatever the chunking (Bytes/String return the input on error,
                                         Response passes the input through when nothing is selected)
   Design switches for the negative controls (TLC must find the violation): Locked, UpdatePos, WholeInput. *)
EXTENDS EmbedOps

CONSTANTS MaxDepth,     \* nesting bound of the call stack
          Locked,       \* TRUE: Add* cannot run while a call is in progress (sync.RWMutex)
          UpdatePos,    \* TRUE: a nested error is shifted by the offset of its embedding construct (UpdateErrorPosition)
          WholeInput    \* TRUE: the worker minifies the whole input (parse.NewInput reads to EOF) whatever the chunking

VARIABLES phase,        \* "idle" | "select" | "read" | "work" | "done"
          cur,          \* the call: entry point, media type string, Content-Type (Response)
          chunks,       \* chunks of the input not yet consumed
          buf,          \* what the worker has read
          lastc,        \* the last chunk read (only the wrong design WholeInput = FALSE looks at it)
          stack,        \* call stack of minifier frames, depth 0 first
          res           \* result of the call as the caller sees it
mvars == <<lit, pats, hist, phase, cur, chunks, buf, lastc, stack, res>>

Input == <<1, 2>>
Chunkings == { <<Input>>, << <<1>>, <<2>> >> }
Entries == {"Minify", "Bytes", "String", "Reader", "Writer", "Response"}

\* registration menu: target, role of the registered minifier (what it embeds)
MMenu == << [lit |-> bHtml,    pat |-> 0, role |-> "html"],      \* embeds an inline svg
            [lit |-> bTextCss, pat |-> 0, role |-> "leaf"],
            [lit |-> bSvg,     pat |-> 0, role |-> "svg"],       \* embeds a style element
            [lit |-> <<>>,     pat |-> 1, role |-> "leaf"] >>    \* ^text/
RoleOf(id) == MMenu[hist[id].t].role
Fails(id) == hist[id].beh = 1
\* the embedded resource a role hands to the registry, and where it sits in the role's own text
SlotMime(role) == IF role = "html" THEN ExpectedType("svg", FALSE, <<>>, <<>>).mime
                  ELSE ExpectedType("svgStyleText", FALSE, <<>>, <<>>).mime
SlotLo(role) == IF role = "html" THEN 3 ELSE 2
SlotHi(role) == IF role = "html" THEN 8 ELSE 4

MQueries == { bHtml, QBytes(bHtml, 4), bTextCss, bSvg, QBytes(bSvg, 3), bTextPlain }
ExtType == bHtml                                       \* type of the request path extension (.html)
ContentTypes == { <<>>, bHtml, bTextPlain, QBytes(bSvg, 3) }
\* Stream.Chosen: "the first write will extract the Content-Type as the mediatype, otherwise it falls back to the extension"
Chosen(ct) == IF ct # <<>> THEN ct ELSE ExtType

\* Match as the code writes it (literal map, then an index loop over the patterns), kept apart from Registry.LookupIn
MatchIn(l, ps, q) ==
  LET mime == Split(q).mime
      idx  == {i \in DOMAIN ps : PatMatch(ps[i].pat, mime)}
  IN IF mime \in DOMAIN l THEN l[mime].id
     ELSE IF idx = {} THEN 0 ELSE ps[CHOOSE i \in idx : \A j \in idx : i <= j].id
\* the documented rules over the history alone (as Registry.RefLookup, for this menu)
MRef(h, mime) ==
  LET L == {i \in DOMAIN h : MMenu[h[i].t].pat = 0 /\ MMenu[h[i].t].lit = mime}
      P == {i \in DOMAIN h : MMenu[h[i].t].pat # 0 /\ PatMatch(MMenu[h[i].t].pat, mime)}
  IN IF L # {} THEN CHOOSE i \in L : \A j \in L : j <= i
     ELSE IF P # {} THEN CHOOSE i \in P : \A j \in P : i <= j ELSE 0

NoRes == [done |-> FALSE, id |-> 0, out |-> <<>>, err |-> "nil", errid |-> 0, errdepth |-> 0, pos |-> 0]
MInit == /\ RInit /\ phase = "idle" /\ cur = [entry |-> "none", q |-> <<>>, ct |-> <<>>]
         /\ chunks = <<>> /\ buf = <<>> /\ lastc = <<>> /\ stack = <<>> /\ res = NoRes

\* Add* : with the lock, only while no call holds the registry
MRegister(t, beh) ==
  /\ Len(hist) < MaxRegs /\ phase # "done"
  /\ Locked => phase = "idle"
  /\ LET id == Len(hist) + 1 IN
       IF MMenu[t].pat = 0 THEN RegLit("AddFunc", MMenu[t].lit, id, beh) ELSE RegPat("AddFuncRegexp", MMenu[t].pat, id, beh)
  /\ hist' = Append(hist, [k |-> IF MMenu[t].pat = 0 THEN "AddFunc" ELSE "AddFuncRegexp", t |-> t, beh |-> beh])
  /\ UNCHANGED <<phase, cur, chunks, buf, lastc, stack, res>>

StartCall(en, q, ct, ck) ==
  /\ phase = "idle" /\ phase' = "select"
  /\ cur' = [entry |-> en, q |-> q, ct |-> ct] /\ chunks' = ck
  /\ UNCHANGED <<lit, pats, hist, buf, lastc, stack, res>>

Frame(id, depth) == [id |-> id, depth |-> depth, seen |-> <<lit, pats>>, slotdone |-> FALSE, sub |-> <<"none">>]
Flatten(cs) == IF Len(cs) = 1 THEN cs[1] ELSE cs[1] \o cs[2]
\* selection: Minify/Bytes/String/Reader/Writer split the media type and go through MinifyMimetype,
\* the response writer takes Content-Type / extension and goes through Match
Select ==
  /\ phase = "select"
  /\ LET mt == IF cur.entry = "Response" THEN Chosen(cur.ct) ELSE cur.q
         id == IF cur.entry = "Response" THEN MatchIn(lit, pats, mt) ELSE Lookup(Split(mt).mime).id
     IN IF id = 0
        THEN /\ phase' = "done" /\ stack' = stack
             /\ res' = CASE cur.entry = "Response" -> [NoRes EXCEPT !.done = TRUE, !.out = <<"pass", Flatten(chunks)>>]
                         [] cur.entry \in {"Bytes", "String"} -> [NoRes EXCEPT !.done = TRUE, !.err = "notexist", !.out = <<"orig", Flatten(chunks)>>]
                         [] OTHER -> [NoRes EXCEPT !.done = TRUE, !.err = "notexist"]
        ELSE /\ phase' = "read" /\ stack' = <<Frame(id, 0)>> /\ res' = res
  /\ UNCHANGED <<lit, pats, hist, cur, chunks, buf, lastc>>

\* the worker reads its input chunk by chunk (pipe rendezvous / reader calls), to EOF
ReadChunk ==
  /\ phase = "read"
  /\ IF chunks = <<>> THEN phase' = "work" /\ UNCHANGED <<chunks, buf, lastc>>
     ELSE phase' = phase /\ buf' = buf \o Head(chunks) /\ lastc' = Head(chunks) /\ chunks' = Tail(chunks)
  /\ UNCHANGED <<lit, pats, hist, cur, stack, res>>

Top == stack[Len(stack)]
Node(f, inp) == <<"node", f.id, inp, f.sub>>
Payload(depth) == <<"slot", depth>>
\* position of an error at depth d, relative position p, as it surfaces at depth 0
Surface(d, p) ==
  LET f[k \in 0..d] == IF k = 0 THEN p ELSE f[k-1] + SlotLo(RoleOf(stack[d - k + 1].id))
  IN IF UpdatePos THEN f[d] ELSE p
\* a failing minifier fails on its payload at once: the error runs up the whole stack
Fail(p) ==
  /\ phase = "work" /\ stack # <<>> /\ Fails(Top.id)
  /\ res' = [NoRes EXCEPT !.done = TRUE, !.id = stack[1].id, !.err = "stub", !.errid = Top.id, !.errdepth = Top.depth,
                          !.pos = Surface(Top.depth, p),
                          !.out = IF cur.entry \in {"Bytes", "String"} THEN <<"orig", buf>> ELSE <<>>]
  /\ phase' = "done" /\ stack' = <<>>
  /\ UNCHANGED <<lit, pats, hist, cur, chunks, buf, lastc>>
\* the embedded resource of the frame on top goes through the registry AS IT IS NOW (m.MinifyMimetype)
Enter ==
  /\ phase = "work" /\ stack # <<>> /\ ~Fails(Top.id)
  /\ RoleOf(Top.id) # "leaf" /\ ~Top.slotdone /\ Top.depth < MaxDepth
  /\ LET e == Lookup(SlotMime(RoleOf(Top.id))) IN
       IF e = None THEN stack' = [stack EXCEPT ![Len(stack)].slotdone = TRUE, ![Len(stack)].sub = <<"unchanged">>]
       ELSE stack' = Append(stack, Frame(e.id, Top.depth + 1))
  /\ UNCHANGED <<lit, pats, hist, phase, cur, chunks, buf, lastc, res>>
Return ==
  /\ phase = "work" /\ stack # <<>> /\ ~Fails(Top.id)
  /\ RoleOf(Top.id) = "leaf" \/ Top.slotdone \/ Top.depth >= MaxDepth
  /\ IF Len(stack) = 1
     THEN /\ res' = [NoRes EXCEPT !.done = TRUE, !.id = Top.id, !.out = Node(Top, IF WholeInput THEN buf ELSE lastc)]
          /\ phase' = "done" /\ stack' = <<>>
     ELSE /\ stack' = [SubSeq(stack, 1, Len(stack) - 1) EXCEPT ![Len(stack) - 1].slotdone = TRUE,
                                                                ![Len(stack) - 1].sub = Node(Top, Payload(Top.depth))]
          /\ UNCHANGED <<phase, res>>
  /\ UNCHANGED <<lit, pats, hist, cur, chunks, buf, lastc>>

MNext == \/ \E t \in DOMAIN MMenu, beh \in {0, 1} : MRegister(t, beh)
         \/ \E en \in Entries \ {"Response"}, q \in MQueries, ck \in Chunkings : StartCall(en, q, <<>>, ck)
         \/ \E ct \in ContentTypes, ck \in Chunkings : StartCall("Response", <<>>, ct, ck)
         \/ Select \/ ReadChunk \/ Enter \/ Return \/ \E p \in {0, 1} : Fail(p)
MSpec == MInit /\ [][MNext]_mvars

-----------------------------------------------------------------------------
(* The plain call on the whole input, from the registry alone (what every entry point has to deliver) *)
RECURSIVE PlainSub(_, _)
PlainSub(id, depth) ==       \* result of the embedded resource of the minifier `id` running at `depth`
  IF RoleOf(id) = "leaf" \/ depth >= MaxDepth THEN <<"none">>
  ELSE LET e == MRef(hist, SlotMime(RoleOf(id))) IN
         IF e = 0 THEN <<"unchanged">> ELSE <<"node", e, Payload(depth + 1), PlainSub(e, depth + 1)>>
PlainOut(id) == <<"node", id, Input, PlainSub(id, 0)>>
\* the chain of minifiers the plain call runs through (depth 0, 1, 2) and the first one that fails
RECURSIVE Chain(_, _)
Chain(id, depth) ==
  IF RoleOf(id) = "leaf" \/ depth >= MaxDepth THEN <<id>>
  ELSE LET e == MRef(hist, SlotMime(RoleOf(id))) IN IF e = 0 \/ Fails(id) THEN <<id>> ELSE <<id>> \o Chain(e, depth + 1)
FirstFail(c) == IF \E i \in DOMAIN c : Fails(c[i]) THEN CHOOSE i \in DOMAIN c : Fails(c[i]) /\ \A j \in 1..(i-1) : ~Fails(c[j]) ELSE 0

CallMime == Split(IF cur.entry = "Response" THEN Chosen(cur.ct) ELSE cur.q).mime

\* (a) Match answers what MinifyMimetype uses, and both what the documented rules say - in every state, for every query
SameDispatch == \A q \in (MQueries \cup (ContentTypes \ {<<>>})) :
  /\ MatchIn(lit, pats, q) = Lookup(Split(q).mime).id
  /\ Locked => MatchIn(lit, pats, q) = MRef(hist, Split(q).mime)
\* ... and the call that ran was served by exactly that entry, through whichever entry point
ServedByLookup == (res.done /\ Locked) => res.id = MRef(hist, CallMime)
\* (b) no registration during use: every frame on the stack entered the registry that is still there
RegistryStable == \A k \in DOMAIN stack : stack[k].seen = <<lit, pats>>
\* (c) a nested failure surfaces with the identity of the failing minifier and a position inside the construct that embeds it
ErrorLocated == (res.done /\ res.err = "stub") =>
  LET c == Chain(MRef(hist, CallMime), 0) ff == FirstFail(c) IN
    /\ Locked => (ff # 0 /\ res.errid = c[ff] /\ res.errdepth = ff - 1)
    /\ res.errdepth >= 1 => /\ res.pos >= SlotLo(RoleOf(res.id)) /\ res.pos <= SlotHi(RoleOf(res.id))
    /\ (Locked /\ res.errdepth = 2) => /\ res.pos >= SlotLo(RoleOf(res.id)) + SlotLo(RoleOf(c[2]))
                                       /\ res.pos <= SlotLo(RoleOf(res.id)) + SlotHi(RoleOf(c[2]))
\* (d) same bytes as the plain call on the whole input, for every entry point and chunking
SameBytes == (res.done /\ Locked) =>
  LET id == MRef(hist, CallMime) IN
    IF id = 0 THEN CASE cur.entry = "Response" -> res.err = "nil" /\ res.out = <<"pass", Input>>       \* passes the input through
                     [] cur.entry \in {"Bytes", "String"} -> res.err = "notexist" /\ res.out = <<"orig", Input>>
                     [] OTHER -> res.err = "notexist" /\ res.out = <<>>                               \* writes nothing
    ELSE IF FirstFail(Chain(id, 0)) # 0
         THEN res.err = "stub" /\ (cur.entry \in {"Bytes", "String"} => res.out = <<"orig", Input>>)
         ELSE res.err = "nil" /\ res.out = PlainOut(id)
MTypeOK == /\ phase \in {"idle", "select", "read", "work", "done"} /\ Len(stack) <= MaxDepth + 1
           /\ \A k \in DOMAIN stack : stack[k].depth = k - 1 /\ stack[k].id \in DOMAIN hist
           /\ (phase \in {"idle", "select", "done"}) => stack = <<>>
=============================================================================
