SPECIFICATION Spec
CONSTANTS MaxN = 2
Coords <- C3
CtrlCoords <- C3
Letters <- LettersAll
FixZ = TRUE
FixDeg = TRUE
FixZeroL = TRUE
ForgetCp = TRUE
INVARIANTS Refines InRange
CHECK_DEADLOCK FALSE
