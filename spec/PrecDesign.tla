----------------------------- MODULE PrecDesign -----------------------------
(* Design-level check of the Precision clause of C16 (Options!PrecisionOK) against an
   independently constructed rounding: for EVERY lexeme of the number grammar up to MaxLen
   (generator automaton of NumVal, as in NumGen) and EVERY precision in Precs,
     - the lexeme itself is accepted (reflexive),
     - the lexeme rounded half-up to p significant digits, built digit by digit from the
       canonical mantissa and written as <digits>e<exponent>, is accepted        (Fault = "none"),
     - and the relation is not trivially true: truncation instead of rounding (Fault = "trunc"),
       rounding to p-1 digits (Fault = "short") and a change of the p-th digit (Fault = "digit")
       must each be rejected for some lexeme - TLC has to report Rounds violated for them.
   Exponents written in the lexeme are small here (Alphabet has one exponent digit at most by
   MaxLen), so they are handled as Ints. *)
EXTENDS Options
CONSTANTS MaxLen, Alphabet, Precs, Fault
VARIABLES lex, st, p
vars == <<lex, st, p>>

Init == lex = <<>> /\ st = 0 /\ p \in Precs
Next == /\ Len(lex) < MaxLen
        /\ \E c \in Alphabet : /\ Delta(st, c) # -1
                               /\ lex' = Append(lex, c)
                               /\ st' = Delta(st, c)
        /\ UNCHANGED p
Spec == Init /\ [][Next]_vars

RECURSIVE IntDigits(_, _)
IntDigits(n, acc) == IF n < 10 THEN <<n>> \o acc ELSE IntDigits(n \div 10, <<n % 10>> \o acc)
Codes(ds) == [i \in 1..Len(ds) |-> ds[i] + 48]
ExpLex(e) == IF e < 0 THEN <<101, 45>> \o Codes(IntDigits(0 - e, <<>>)) ELSE <<101>> \o Codes(IntDigits(e, <<>>))

(* the lexeme  [-]<digits>e<pos>  for mantissa digits ds whose last digit has decimal position pos *)
Written(neg, ds, pos) == (IF neg THEN <<45>> ELSE <<>>) \o Codes(IF ds = <<>> THEN <<0>> ELSE ds) \o ExpLex(pos)

Out(l, q) ==
  LET x == Canon(l) IN
  IF x.zero \/ q <= 0 \/ Len(x.mant) <= q THEN l
  ELSE LET keep == IF Fault = "short" THEN (IF q > 1 THEN q - 1 ELSE q) ELSE q
           head == SubSeq(x.mant, 1, keep)
           nxt == x.mant[keep + 1]
           up == IF Fault = "trunc" THEN FALSE ELSE nxt >= 5
           r0 == IF up THEN AddNat(head, <<1>>) ELSE head
           r == IF Fault = "digit" THEN AddNat(r0, <<1>>) ELSE r0
           pos == Small(x.exp) + x.k + Len(x.mant) - keep
       IN Written(x.neg, r, pos)

SmallExp == ~IsFar(Small(Canon(lex).exp)) /\ Small(Canon(lex).exp) < 1000 /\ Small(Canon(lex).exp) > -1000
Reflexive == st \in Accepting => PrecisionOK(lex, p, lex)
OutIsNumber == st \in Accepting /\ SmallExp => IsNumber(Out(lex, p))
Rounds == st \in Accepting /\ SmallExp => PrecisionOK(lex, p, Out(lex, p))
\* with p = 0 ("no trimming") only the exact value is accepted: one more digit is never
ExactAtZero == st \in Accepting /\ p = 0 /\ ~Canon(lex).zero /\ SmallExp =>
                 ~PrecisionOK(lex, 0, Written(Canon(lex).neg, AddNat(Canon(lex).mant, <<1>>), Small(Canon(lex).exp) + Canon(lex).k))

PAlpha5 == {48, 49, 52, 53, 57, 43, 45, 46, 101}        \* 0 1 4 5 9 + - . e
PrecsDesign == 0..5
=============================================================================
