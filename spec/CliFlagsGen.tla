----------------------------- MODULE CliFlagsGen -----------------------------
(* Generator: every documented flag alone with each of its values, and every pair of flags of
   the same minifier, crossed with the rich inputs of that minifier (tools/props/c16.py RICH).
   fl is the flag sequence handed to the real binary, opts the options it denotes. *)
EXTENDS CliFlags, TLC
CONSTANTS MaxFlags, NInputs
VARIABLES lang, fl, opts, inp, ty, how      \* ty = 0: flag case; otherwise row of TypeTable, how = index in Hows
vars == <<lang, fl, opts, inp, ty, how>>

\* rows whose failure is a pinned known finding: none at present (xhtml fixed by b1ff844)
KnownBrokenTypes == {}
OptsOf(s) == [i \in 1..Len(s) |-> [opt |-> RowOf(s[i].flag).opt, val |-> s[i].val]]
Init == \/ lang \in Langs /\ fl = <<>> /\ opts = <<>> /\ inp \in 1..NInputs /\ ty = 0 /\ how = 0
        \/ \E r \in TypeRows \ KnownBrokenTypes : /\ ty = r /\ lang = TypeTable[r].lang /\ how \in 1..Len(Hows)
                               /\ fl = <<>> /\ opts = <<>> /\ inp \in 1..NInputs
Next ==
  /\ ty = 0
  /\ Len(fl) < MaxFlags
  /\ \E i \in Rows : \E v \in Values(FlagTable[i]) :
       /\ FlagTable[i].lang = lang
       /\ \A j \in 1..Len(fl) : RowOf(fl[j].flag).opt # FlagTable[i].opt      \* one flag per option
       /\ Len(fl) > 0 => (CHOOSE k \in Rows : FlagTable[k].flag = fl[Len(fl)].flag) < i   \* unordered sets
       /\ fl' = Append(fl, [flag |-> FlagTable[i].flag, val |-> v])
       /\ opts' = OptsOf(fl')
  /\ UNCHANGED <<lang, inp, ty, how>>
Spec == Init /\ [][Next]_vars

\* every type of the table names a minifier that has flags in the flag table (a known language)
TypesKnown == \A r \in TypeRows : TypeTable[r].lang \in Langs
\* the table is a function: no flag twice, no (lang, option) twice
TableFunctional ==
  \A i, j \in Rows : i # j => /\ FlagTable[i].flag # FlagTable[j].flag
                              /\ (FlagTable[i].lang = FlagTable[j].lang => FlagTable[i].opt # FlagTable[j].opt)
\* what is handed to the library is what the table says, option by option
DenotesOK == \A i \in 1..Len(fl) : Denoted(fl, opts[i].opt) = opts[i].val /\ RowOf(fl[i].flag).lang = lang
=============================================================================
