SPECIFICATION Spec
CONSTANTS MaxRaw = 12
AnyInput = FALSE
INVARIANTS TypeOK NoError OutIsPrefix FinalOutput Progress Mirrors
CHECK_DEADLOCK FALSE
