SPECIFICATION Spec
CONSTANTS MaxRaw = 12
AnyInput = FALSE
PROPERTY StepsAgree
INVARIANTS RunAgrees TypeOK NoError OutIsPrefix FinalOutput Progress Mirrors
CHECK_DEADLOCK FALSE
