SPECIFICATION Spec
CONSTANTS MaxFiles = 2
INVARIANTS TypeOK EachSourceOnce Mirror FreshOutputIsSafe SyncCoversAll RefuseOnlyInPlace Emit
CHECK_DEADLOCK FALSE
