SPECIFICATION Spec
CONSTANTS MaxFiles = 2
INVARIANTS TypeOK EachSourceOnce Mirror FreshOutputIsSafe SyncCoversAll KnownOnlyInPlace Emit
CHECK_DEADLOCK FALSE
