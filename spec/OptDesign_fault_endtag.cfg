SPECIFICATION Spec
CONSTANTS MaxLen = 2
Fault = "endtag"
INVARIANTS Refines
CHECK_DEADLOCK FALSE
