SPECIFICATION Spec
CONSTANTS MaxLen = 2
BitSets <- BitsAll
Fault = "endtag"
INVARIANTS Refines
CHECK_DEADLOCK FALSE
