SPECIFICATION Spec
CONSTANTS Langs <- LangsAll
MaxF <- MaxFSim
AllBits = TRUE
FullPairs = TRUE
Precs <- PrecsAll
Vers <- VersAll
INVARIANTS Discriminating
CHECK_DEADLOCK FALSE
