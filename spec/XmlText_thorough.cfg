SPECIFICATION Spec
CONSTANTS MaxLen = 4
EmitMod = 12
Emit = TRUE
Alphabet <- AlphaThorough
INVARIANTS TypeOK DesignRefinesInfoset EmitCase
CHECK_DEADLOCK FALSE
