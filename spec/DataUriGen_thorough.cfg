SPECIFICATION Spec
CONSTANTS MaxLen = 4
Alphabet <- Alpha11
Kinds <- KindsAll
INVARIANTS DesignOK DesignIdem CodecOK ReflexiveOK AsIsOKOutsideKnown
CHECK_DEADLOCK FALSE
