----------------------------- MODULE MtMachineTest -----------------------------
EXTENDS MtMachine, TLC
CONSTANTS MaxLen, Alphabet
VARIABLE s
Init == s = <<>>
Next == Len(s) < MaxLen /\ \E c \in Alphabet : s' = Append(s, c)
Spec == Init /\ [][Next]_s
AsIsIndexSafe == AsIsRun(s).safe
AsIsOKOutsideKnown == ~MediatypeOK(s, AsIs(s)) => Known(s)
FixedOK == MediatypeOK(s, Fixed(s))
Alpha8 == {65, 97, 32, 34, 59, 61, 47, 92}
=============================================================================
