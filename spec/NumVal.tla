----------------------------- MODULE NumVal -----------------------------
(* The number grammar  [+-]?(d+.?d*|.d+)([eE][+-]?d+)?  on byte sequences, its exact
   rational meaning, and the relations of property C08:
     NumberOK(in, prec, out)  /  DecimalOK(in, prec, out).
   No machine integers are used for mantissas or exponents (see BigNat). *)
EXTENDS BigNat, SequencesExt

IsDigit(c) == c >= 48 /\ c <= 57
IsSign(c) == c = 43 \/ c = 45
IsE(c) == c = 101 \/ c = 69
IsDot(c) == c = 46

(* DFA of the grammar.  0 start, 1 sign, 2 d+, 3 d+., 4 (d+.|.)d+, 5 ".", 6 e, 7 e sign,
   8 exponent digits; -1 dead.  Accepting: 2 3 4 8. *)
Delta(s, c) ==
  CASE s = 0 -> IF IsSign(c) THEN 1 ELSE IF IsDigit(c) THEN 2 ELSE IF IsDot(c) THEN 5 ELSE -1
    [] s = 1 -> IF IsDigit(c) THEN 2 ELSE IF IsDot(c) THEN 5 ELSE -1
    [] s = 2 -> IF IsDigit(c) THEN 2 ELSE IF IsDot(c) THEN 3 ELSE IF IsE(c) THEN 6 ELSE -1
    [] s = 3 -> IF IsDigit(c) THEN 4 ELSE IF IsE(c) THEN 6 ELSE -1
    [] s = 4 -> IF IsDigit(c) THEN 4 ELSE IF IsE(c) THEN 6 ELSE -1
    [] s = 5 -> IF IsDigit(c) THEN 4 ELSE -1
    [] s = 6 -> IF IsSign(c) THEN 7 ELSE IF IsDigit(c) THEN 8 ELSE -1
    [] s = 7 -> IF IsDigit(c) THEN 8 ELSE -1
    [] s = 8 -> IF IsDigit(c) THEN 8 ELSE -1
    [] OTHER -> -1
\* (FoldLeft is evaluated eagerly by TLC; a recursive definition that mentions its own
\*  previous value more than once is exponential under TLC's lazy evaluation)
RunDFA(lex) == FoldLeft(LAMBDA s, c : IF s = -1 THEN -1 ELSE Delta(s, c), 0, lex)
Accepting == {2, 3, 4, 8}
IsNumber(lex) == RunDFA(lex) \in Accepting
IsDecimal(lex) == RunDFA(lex) \in {2, 3, 4}          \* no exponent part
HasExp(lex) == \E i \in 1..Len(lex) : IsE(lex[i])

FindFirst(s, P(_)) ==
  LET f[i \in 1..Len(s)+1] == IF i > Len(s) THEN 0 ELSE IF P(s[i]) THEN i ELSE f[i+1] IN f[1]
Dig(s) == [i \in 1..Len(s) |-> s[i] - 48]

(* Parts of a valid lexeme: sign, integer digits, fraction digits, signed exponent. *)
Parts(lex) ==
  LET neg == Len(lex) > 0 /\ lex[1] = 45
      body == IF Len(lex) > 0 /\ IsSign(lex[1]) THEN SubSeq(lex, 2, Len(lex)) ELSE lex
      ePos == FindFirst(body, IsE)
      mant == IF ePos = 0 THEN body ELSE SubSeq(body, 1, ePos-1)
      expS == IF ePos = 0 THEN <<>> ELSE SubSeq(body, ePos+1, Len(body))
      eNeg == Len(expS) > 0 /\ expS[1] = 45
      eDig == IF Len(expS) > 0 /\ IsSign(expS[1]) THEN SubSeq(expS, 2, Len(expS)) ELSE expS
      dPos == FindFirst(mant, IsDot)
      ip == IF dPos = 0 THEN mant ELSE SubSeq(mant, 1, dPos-1)
      fp == IF dPos = 0 THEN <<>> ELSE SubSeq(mant, dPos+1, Len(mant))
  IN [neg |-> neg, ip |-> Dig(ip), fp |-> Dig(fp), exp |-> SInt(eNeg, Dig(eDig))]

(* Canonical form relative to the lexeme's own written exponent:
   value = (-1)^neg * mant * 10^(exp + k), mant without leading/trailing zeros. *)
Canon(lex) ==
  LET p == Parts(lex)
      all == StripLZ(p.ip \o p.fp)
  IN [zero |-> all = <<>>, neg |-> p.neg /\ all # <<>>, mant |-> StripTZ(all),
      k |-> TrailZ(all) - Len(p.fp), exp |-> p.exp,
      full |-> all,                       \* digits as written (trailing zeros kept)
      q |-> 0 - Len(p.fp)]                \* position of the last written digit, relative to exp

\* exact equality of the denoted rationals
ValueEq(a, b) ==
  LET x == Canon(a)  y == Canon(b) IN
  IF x.zero \/ y.zero THEN x.zero /\ y.zero
  ELSE /\ x.neg = y.neg
       /\ x.mant = y.mant
       /\ LET d == Small(SSub(x.exp, y.exp)) IN ~IsFar(d) /\ d = y.k - x.k

(* |out - in| <= 1/2 * 10^q, where q is the position of the last retained significant
   digit of out: the last digit written, except that trailing zeros beyond the prec-th
   significant digit are place holders, not retained digits (495.1 -> "500" at precision 2
   retains 5 and 0: q = 1).  A non-zero digit is always a retained digit, so keeping more
   digits than prec is fine only if they are correct (14.9 -> "14" at precision 1 is not). *)
WithinHalfUlp(in, prec, out) ==
  LET x == Canon(in)  y == Canon(out)
      r == Small(SSub(y.exp, x.exp))      \* exponent of out relative to in's
  IN IF x.zero THEN y.zero
     ELSE IF IsFar(r) THEN FALSE
     ELSE LET qw == r + y.q               \* last written digit of out, relative scale
              qp == qw + Len(y.full) - prec \* prec-th significant digit of out
              qnz == qw + TrailZ(y.full)    \* last non-zero digit of out
              qm == IF qp < qnz THEN qp ELSE qnz
              q == IF y.zero \/ qm < qw THEN qw ELSE qm
              kin == x.k
          IN IF y.zero
             THEN \* 2*|in| <= 10^q
                  kin < q /\ (q - kin > Len(x.mant) + 1 \/ LeqNat(DblNat(x.mant), ShiftL(<<1>>, q - kin)))
             ELSE /\ x.neg = y.neg
                  /\ LET topIn == kin + Len(x.mant) - 1
                         topOut == qw + Len(y.full) - 1
                     IN /\ topIn - topOut <= 1 /\ topOut - topIn <= 1
                        /\ LET m == IF kin < qw THEN kin ELSE qw
                               A == ShiftL(x.mant, kin - m)
                               B == ShiftL(y.full, qw - m)
                           IN LeqNat(DblNat(AbsDiffNat(A, B)), ShiftL(<<1>>, q - m))

NumberOK(in, prec, out) ==
  /\ IsNumber(out)
  /\ Len(out) <= Len(in)
  /\ IF prec <= 0 THEN ValueEq(in, out) ELSE (ValueEq(in, out) \/ WithinHalfUlp(in, prec, out))

DecimalOK(in, prec, out) ==
  /\ IsDecimal(out)                      \* the decimal variant never introduces an exponent
  /\ Len(out) <= Len(in)
  /\ IF prec <= 0 THEN ValueEq(in, out) ELSE (ValueEq(in, out) \/ WithinHalfUlp(in, prec, out))
=============================================================================
