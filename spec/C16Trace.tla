----------------------------- MODULE C16Trace -----------------------------
(* Trace validation for C16 (library side).  One line = one call of a real minifier through
   the public registry API under one option configuration (harness/cmd/c16):
     [lang, o (option record), err, panic, tierr, toerr, ti, to (token streams of input and
      output), tz (html: token stream of the output with the comment/attribute options off), si, so (template spans); for lang = "js": fi fo idi ido dci dco ni no pvi pvo]
   Every clause is "option is on => its relation of spec/Options.tla holds"; the antecedents
   are never vacuous on generated documents (spec/OptGen.tla, invariant Discriminating). *)
EXTENDS Options, TraceIO
VARIABLE l
Init == l = 1
Next == l <= N /\ l' = l + 1
Spec == Init /\ [][Next]_l

HtmlOK(e) ==
  LET cl == HtmlClauses(e.ti, e.to, e.o, e.si, e.so, e.tz)
  IN \A i \in 1..Len(cl) : cl[i].ok \/ Reject(l, cl[i].name)

XmlOK(e) ==
  e.o.KeepWhitespace => (XmlKeepWhitespaceOK(e.ti, e.to) \/ Reject(l, "KeepWhitespace"))

JsonOK(e) ==
  /\ e.o.KeepNumbers => (JsonKeepNumbersOK(e.ti, e.to) \/ Reject(l, "KeepNumbers"))
  /\ ~e.o.KeepNumbers => (JsonPrecisionOK(e.ti, e.o.Precision, e.to) \/ Reject(l, "Precision"))

CssOK(e) ==
  /\ e.o.KeepCSS2 => (KeepCSS2OK(e.ti, e.to) \/ Reject(l, "KeepCSS2"))
  /\ CssPrecisionOK(e.ti, e.o.Precision, e.to) \/ Reject(l, "Precision")

SvgOK(e) ==
  /\ e.o.KeepComments => (SvgKeepCommentsOK(e.ti, e.to) \/ Reject(l, "KeepComments"))
  /\ ~e.o.KeepComments => (Kind(e.to, "C") = <<>> \/ Reject(l, "comment kept without KeepComments"))
  /\ SvgPrecisionOK(e.ti, e.o.Precision, e.to) \/ Reject(l, "Precision")

(* lines whose input comes from the repository's own tests (exp.suite) are judged on the Version and
   KeepVarNames clauses only: number literals of arbitrary programs may be folded away by documented
   rewrites, and an output that the independent parser rejects is C09's subject *)
IsSuite(e) == "suite" \in DOMAIN e.exp
JsOK(e) ==
  LET ex == IF IsSuite(e) THEN KnownUngated ELSE {} IN
  /\ JsVersionOK(e.fi, e.fo, e.o.Version, ex) \/ Reject(l, "Version (features)")
  /\ (NewFeatures(e.fi, e.fo) \cap ex # {} \/ JsEditionOK(e.pvi, e.pvo, e.o.Version)) \/ Reject(l, "Version (edition)")
  /\ e.o.KeepVarNames => (JsKeepVarNamesOK(e.idi, e.ido, e.dci, e.dco) \/ Reject(l, "KeepVarNames"))
  /\ IsSuite(e) \/ JsPrecisionOK(e.ni, e.o.Precision, e.no) \/ Reject(l, "Precision")
  /\ (e.o.Precision # 0 /\ ~IsSuite(e)) =>
       (JsPrecisionOnlyOK(e.ni, e.o.Precision, e.nos, e.no0, e.sk, e.sk0) \/ Reject(l, "Precision (nothing else)"))

LineOK(e) ==
  /\ ~e.panic \/ Reject(l, "panic")
  /\ ~e.err \/ Reject(l, "error on valid input")
  /\ (~e.toerr \/ IsSuite(e)) \/ Reject(l, "output rejected by the independent tokenizer")
  /\ (e.panic \/ e.err \/ e.toerr) \/
       CASE e.lang = "html" -> HtmlOK(e)
         [] e.lang = "xml"  -> XmlOK(e)
         [] e.lang = "json" -> JsonOK(e)
         [] e.lang = "css"  -> CssOK(e)
         [] e.lang = "svg"  -> SvgOK(e)
         [] e.lang = "js"   -> JsOK(e)
Conforms == l <= N => LineOK(Trace[l])
=============================================================================
