----------------------------- MODULE C16Trace -----------------------------
(* Trace validation for C16 (library side).  One line = one call of a real minifier through
   the public registry API under one option configuration (harness/cmd/c16):
     [lang, o (option record), err, panic, tierr, toerr, ti, to (token streams of input and
      output), si, so (template spans); for lang = "js": fi fo idi ido dci dco ni no pvi pvo]
   Every clause is "option is on => its relation of spec/Options.tla holds"; the antecedents
   are never vacuous on generated documents (spec/OptGen.tla, invariant Discriminating). *)
EXTENDS Options, TraceIO
VARIABLE l
Init == l = 1
Next == l <= N /\ l' = l + 1
Spec == Init /\ [][Next]_l

HtmlOK(e) ==
  LET o == e.o IN
  /\ o.KeepEndTags => (KeepEndTagsOK(e.ti, e.to, o.KeepDocumentTags) \/ Reject(l, "KeepEndTags"))
  /\ o.KeepDocumentTags => (KeepDocumentTagsOK(e.ti, e.to) \/ Reject(l, "KeepDocumentTags"))
  /\ o.KeepQuotes => (KeepQuotesOK(e.ti, e.to) \/ Reject(l, "KeepQuotes"))
  /\ o.KeepDefaultAttrVals => (KeepDefaultAttrValsOK(e.ti, e.to) \/ Reject(l, "KeepDefaultAttrVals"))
  /\ o.KeepWhitespace => (HtmlKeepWhitespaceOK(e.ti, e.to, o.Delims) \/ Reject(l, "KeepWhitespace"))
  /\ ~o.KeepConditionalComments =>    \* deprecated alias: exercised through the command line table only
       (CommentsOK(e.ti, e.to, o.KeepComments, o.KeepSpecialComments, o.Delims) \/ Reject(l, "Comments"))
  /\ o.Delims # <<>> => (TemplateOK(e.si, e.so) \/ Reject(l, "TemplateDelims"))

XmlOK(e) ==
  e.o.KeepWhitespace => (XmlKeepWhitespaceOK(e.ti, e.to) \/ Reject(l, "KeepWhitespace"))

JsonOK(e) ==
  /\ e.o.KeepNumbers => (JsonKeepNumbersOK(e.ti, e.to) \/ Reject(l, "KeepNumbers"))
  /\ ~e.o.KeepNumbers => (JsonPrecisionOK(e.ti, e.o.Precision, e.to) \/ Reject(l, "Precision"))

CssOK(e) ==
  /\ e.o.KeepCSS2 => (KeepCSS2OK(e.ti, e.to) \/ Reject(l, "KeepCSS2"))
  /\ CssPrecisionOK(e.ti, e.o.Precision, e.to) \/ Reject(l, "Precision")

SvgOK(e) ==
  /\ e.o.KeepComments => (SvgKeepCommentsOK(e.ti, e.to) \/ Reject(l, "KeepComments"))
  /\ ~e.o.KeepComments => (Kind(e.to, "C") = <<>> \/ Reject(l, "comment kept without KeepComments"))
  /\ SvgPrecisionOK(e.ti, e.o.Precision, e.to) \/ Reject(l, "Precision")

JsOK(e) ==
  /\ JsVersionOK(e.fi, e.fo, e.o.Version) \/ Reject(l, "Version (features)")
  /\ JsEditionOK(e.pvi, e.pvo, e.o.Version) \/ Reject(l, "Version (edition)")
  /\ e.o.KeepVarNames => (JsKeepVarNamesOK(e.idi, e.ido, e.dci, e.dco) \/ Reject(l, "KeepVarNames"))
  /\ JsPrecisionOK(e.ni, e.o.Precision, e.no) \/ Reject(l, "Precision")

LineOK(e) ==
  /\ ~e.panic \/ Reject(l, "panic")
  /\ ~e.err \/ Reject(l, "error on valid input")
  /\ ~e.toerr \/ Reject(l, "output rejected by the independent tokenizer")
  /\ (e.panic \/ e.err \/ e.toerr) \/
       CASE e.lang = "html" -> HtmlOK(e)
         [] e.lang = "xml"  -> XmlOK(e)
         [] e.lang = "json" -> JsonOK(e)
         [] e.lang = "css"  -> CssOK(e)
         [] e.lang = "svg"  -> SvgOK(e)
         [] e.lang = "js"   -> JsOK(e)
Conforms == l <= N => LineOK(Trace[l])
=============================================================================
