SPECIFICATION MSpec
CONSTANTS MaxRegs = 2
MaxDepth = 2
Locked = TRUE
UpdatePos = FALSE
WholeInput = TRUE
INVARIANTS ErrorLocated
CHECK_DEADLOCK FALSE
