----------------------------- MODULE BigNat -----------------------------
(* Arbitrary-size naturals as sequences of decimal digits 0..9 (most significant
   first; <<>> is zero).  TLC integers are 32 bit, number lexemes are not, so every
   numeric relation of the specification (C04, C05, C07, C08, C16) is built on
   this module instead of on Int. *)
EXTENDS Integers, Sequences

StripLZ(s) ==
  LET f[i \in 1..Len(s)+1] == IF i > Len(s) THEN i ELSE IF s[i] = 0 THEN f[i+1] ELSE i
  IN SubSeq(s, f[1], Len(s))

\* number of trailing zeros
TrailZ(s) ==
  LET g[i \in 0..Len(s)] == IF i = 0 THEN 0 ELSE IF s[i] = 0 THEN g[i-1] ELSE i
  IN Len(s) - g[Len(s)]
StripTZ(s) == SubSeq(s, 1, Len(s) - TrailZ(s))

Zeros(n) == [i \in 1..n |-> 0]
PadL(s, n) == IF Len(s) >= n THEN s ELSE Zeros(n - Len(s)) \o s
ShiftL(s, n) == IF s = <<>> THEN <<>> ELSE s \o Zeros(n)      \* s * 10^n

\* -1, 0, 1
CmpNat(a0, b0) ==
  LET a == StripLZ(a0)  b == StripLZ(b0) IN
  IF Len(a) < Len(b) THEN -1 ELSE IF Len(a) > Len(b) THEN 1
  ELSE LET f[i \in 1..Len(a)+1] ==
             IF i > Len(a) THEN 0 ELSE IF a[i] < b[i] THEN -1 ELSE IF a[i] > b[i] THEN 1 ELSE f[i+1]
       IN f[1]
LeqNat(a, b) == CmpNat(a, b) <= 0

AddNat(a0, b0) ==
  LET n == (IF Len(a0) > Len(b0) THEN Len(a0) ELSE Len(b0)) + 1
      a == PadL(a0, n)  b == PadL(b0, n)
      cy[i \in 1..n+1] == IF i = n+1 THEN 0 ELSE IF a[i] + b[i] + cy[i+1] >= 10 THEN 1 ELSE 0
  IN StripLZ([i \in 1..n |-> (a[i] + b[i] + cy[i+1]) % 10])
DblNat(a) == AddNat(a, a)

\* a - b, requires a >= b
SubNat(a0, b0) ==
  LET n == IF Len(a0) > Len(b0) THEN Len(a0) ELSE Len(b0)
      a == PadL(a0, n)  b == PadL(b0, n)
      br[i \in 1..n+1] == IF i = n+1 THEN 0 ELSE IF a[i] - b[i] - br[i+1] < 0 THEN 1 ELSE 0
  IN StripLZ([i \in 1..n |-> (a[i] - b[i] - br[i+1] + 10) % 10])
AbsDiffNat(a, b) == IF CmpNat(a, b) >= 0 THEN SubNat(a, b) ELSE SubNat(b, a)

\* signed: [neg |-> BOOLEAN, mag |-> digits]
SInt(neg, mag) == [neg |-> neg /\ StripLZ(mag) # <<>>, mag |-> StripLZ(mag)]
SSub(x, y) ==   \* x - y
  IF x.neg = y.neg
  THEN IF CmpNat(x.mag, y.mag) >= 0 THEN SInt(x.neg, SubNat(x.mag, y.mag))
                                    ELSE SInt(~x.neg, SubNat(y.mag, x.mag))
  ELSE SInt(x.neg, AddNat(x.mag, y.mag))

Far == 1000000000          \* sentinel: magnitude does not fit a small Int
RECURSIVE NatToInt(_, _, _)
NatToInt(s, i, acc) == IF i > Len(s) THEN acc ELSE NatToInt(s, i+1, acc*10 + s[i])
\* small Int value of a signed big integer, or +/-Far when it has more than 8 digits
Small(x) == IF Len(x.mag) > 8 THEN (IF x.neg THEN 0 - Far ELSE Far)
            ELSE IF x.neg THEN 0 - NatToInt(x.mag, 1, 0) ELSE NatToInt(x.mag, 1, 0)
IsFar(n) == n >= Far \/ n <= 0 - Far
=============================================================================
