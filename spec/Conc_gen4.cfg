SPECIFICATION SpecLazy
CONSTANTS
  NG = 4
  MaxCalls = 1
  ShapeNames <- DomainShapes
  AllowReg = FALSE
  CopyOpts = TRUE
  TightCap = TRUE
  CopyArgs = TRUE
  HtmlDep = FALSE
  LazyInit = FALSE
  PoolBuf = FALSE
INVARIANTS Emit Deterministic SharedReadOnly NoBlocking LockSane
CHECK_DEADLOCK FALSE
