SPECIFICATION Spec
CONSTANTS MaxSym = 13
MaxS = 3
MaxE = 1
MaxList = 1
Enabled <- NestNames
INVARIANTS WellFormed Bounded Emit
CHECK_DEADLOCK FALSE
