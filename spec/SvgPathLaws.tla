----------------------------- MODULE SvgPathLaws -----------------------------
(* C05 - model checking of the algebraic identities a path minifier relies on, against the
   interpreter of SvgPath (this is the design level: it says under which side conditions a
   rewrite keeps the denoted segment sequence; the real code is bound by trace validation).

   The state is the interpreter state reached by some command sequence of length n <= MaxN over
   every command letter in both cases; each transition is one more argument group with coordinates
   from Coords, radii from Radii, flags {0,1}.  In every reachable state every law is checked for
   every possible next group (invariant Laws), i.e. for all command sequences of length <= MaxN + 1.

     AbsRel      a command and its other-case twin with arguments shifted by the current point
     LineHV      L -> H / V when one coordinate does not change
     CubicSmooth C -> S when the first control point is the reflection of the previous one
     QuadSmooth  Q -> T likewise
     DegCurve    an exactly degenerate curve is the line to its end point (under Norm); the rewrite
                 also keeps what a FOLLOWING smooth command reflects iff the last control point
                 coincides with the END point (DegCurveNext) - with the START point it does not
                 (DegCurveUnsafe: the side condition is necessary)
     ZeroLine    a zero-length lineto denotes nothing (under Norm); removing it keeps what a
                 following smooth command reflects iff the previous command was not a curve
     CloseMove   after closepath the current point is the sub-path start and nothing is reflected *)
EXTENDS SvgPath
CONSTANTS MaxN, Coords, CtrlCoords, Radii, Rots
VARIABLES s, n
vars == <<s, n>>

Pairs(S) == {<<a, b>> : a \in S, b \in S}
Args(u) ==
  CASE u \in {77, 76, 84} -> Pairs(Coords)
    [] u \in {72, 86} -> {<<a>> : a \in Coords}
    [] u \in {83, 81} -> {<<p[1], p[2], q[1], q[2]>> : p \in Pairs(CtrlCoords), q \in Pairs(Coords)}
    [] u = 67 -> {<<p[1], p[2], q[1], q[2], r[1], r[2]>> : p \in Pairs(CtrlCoords), q \in Pairs(CtrlCoords), r \in Pairs(Coords)}
    [] u = 65 -> {<<rx, ry, ro, f1, f2, q[1], q[2]>> : rx \in Radii, ry \in Radii, ro \in Rots, f1 \in {0, 1}, f2 \in {0, 1}, q \in Pairs(Coords)}
    [] OTHER -> {<<>>}
Upper == {77, 76, 72, 86, 67, 83, 81, 84, 65, 90}

Init == s = S0 /\ n = 0
Next == /\ n < MaxN
        /\ \E u \in Upper : \E v \in Args(u) : \E rel \in BOOLEAN :
             /\ n = 0 => u = 77
             /\ s' = StepGroup(s, IF rel THEN u + 32 ELSE u, v).st
             /\ n' = n + 1
Spec == Init /\ [][Next]_vars

\* arguments of the relative twin of an absolute group
RelOf(u, v) ==
  CASE u \in {77, 76, 84} -> <<v[1] - s.x, v[2] - s.y>>
    [] u = 72 -> <<v[1] - s.x>>
    [] u = 86 -> <<v[1] - s.y>>
    [] u \in {83, 81} -> <<v[1] - s.x, v[2] - s.y, v[3] - s.x, v[4] - s.y>>
    [] u = 67 -> <<v[1] - s.x, v[2] - s.y, v[3] - s.x, v[4] - s.y, v[5] - s.x, v[6] - s.y>>
    [] u = 65 -> <<v[1], v[2], v[3], v[4], v[5], v[6] - s.x, v[7] - s.y>>
    [] OTHER -> <<>>
AbsRel == \A u \in Upper : \A v \in Args(u) : StepGroup(s, u, v) = StepGroup(s, u + 32, RelOf(u, v))

LineHV == \A v \in Args(76) :
  /\ v[2] = s.y => StepGroup(s, 76, v) = StepGroup(s, 72, <<v[1]>>)
  /\ v[1] = s.x => StepGroup(s, 76, v) = StepGroup(s, 86, <<v[2]>>)

\* what a following smooth command would use as its first control point
ReflC(t) == IF t.pk = "C" THEN <<2 * t.x - t.px, 2 * t.y - t.py>> ELSE <<t.x, t.y>>
ReflQ(t) == IF t.pk = "Q" THEN <<2 * t.x - t.px, 2 * t.y - t.py>> ELSE <<t.x, t.y>>
SameFuture(a, b) == /\ a.x = b.x /\ a.y = b.y /\ a.sx = b.sx /\ a.sy = b.sy
                    /\ ReflC(a) = ReflC(b) /\ ReflQ(a) = ReflQ(b)

CubicSmooth == \A v \in Args(67) :
  <<v[1], v[2]>> = ReflC(s) => StepGroup(s, 67, v) = StepGroup(s, 83, <<v[3], v[4], v[5], v[6]>>)
QuadSmooth == \A v \in Args(81) :
  <<v[1], v[2]>> = ReflQ(s) => StepGroup(s, 81, v) = StepGroup(s, 84, <<v[3], v[4]>>)

DegCurve ==
  /\ \A v \in Args(67) : LET r == StepGroup(s, 67, v)  ln == StepGroup(s, 76, <<v[5], v[6]>>) IN
       DegCubic(r.seg) =>
         /\ Norm(<<r.seg>>) = Norm(<<ln.seg>>)
         /\ (v[3] = v[5] /\ v[4] = v[6]) => SameFuture(r.st, ln.st)                           \* DegCurveNext
         /\ ((v[3] # v[5] \/ v[4] # v[6])) => ReflC(r.st) # ReflC(ln.st)                       \* DegCurveUnsafe
  /\ \A v \in Args(81) : LET r == StepGroup(s, 81, v)  ln == StepGroup(s, 76, <<v[3], v[4]>>) IN
       DegQuad(r.seg) =>
         /\ Norm(<<r.seg>>) = Norm(<<ln.seg>>)
         /\ (v[1] = v[3] /\ v[2] = v[4]) => SameFuture(r.st, ln.st)
         /\ ((v[1] # v[3] \/ v[2] # v[4])) => ReflQ(r.st) # ReflQ(ln.st)

ZeroLineLaw == LET r == StepGroup(s, 76, <<s.x, s.y>>) IN
  /\ Norm(<<r.seg>>) = <<>>
  /\ s.pk = "N" => r.st = s
  /\ (s.pk = "C" /\ (s.px # s.x \/ s.py # s.y)) => ReflC(r.st) # ReflC(s)
  /\ (s.pk = "Q" /\ (s.px # s.x \/ s.py # s.y)) => ReflQ(r.st) # ReflQ(s)

CloseMove == LET r == StepGroup(s, 90, <<>>) IN
  /\ r.st.x = s.sx /\ r.st.y = s.sy /\ ReflC(r.st) = <<s.sx, s.sy>> /\ ReflQ(r.st) = <<s.sx, s.sy>>
  /\ r = StepGroup(s, 122, <<>>)

Laws == AbsRel /\ LineHV /\ CubicSmooth /\ QuadSmooth /\ DegCurve /\ ZeroLineLaw /\ CloseMove
InRange == ~s.bad

C4 == {-1, 0, 1, 2}
C3 == {0, 1, 2}
C2 == {0, 1}
R2 == {1, 2}
=============================================================================
