SPECIFICATION SpecSim
CONSTANTS MaxLen = 48
Alphabet <- AlphaAll
Kinds <- KindsAll
INVARIANTS DesignOK CodecOK AsIsOKOutsideKnown
CHECK_DEADLOCK FALSE
