SPECIFICATION SpecSim
CONSTANTS MaxLen = 48
Alphabet <- AlphaAll
Kinds <- KindsAll
INVARIANTS DesignOK CodecOK
CHECK_DEADLOCK FALSE
