SPECIFICATION Spec
INVARIANT Emit
POSTCONDITION AcceptedLinear
CHECK_DEADLOCK FALSE
