----------------------------- MODULE C20Trace -----------------------------
(* C20, trace validation of system-call logs of the REAL command (strace -f), one event per line:

     [ev |-> "init", run, sc, lib]       a new run starts: sc = scenario [tree, inv, stdin] (as in C19),
                                         lib = the library's result for every planned minification
     [ev |-> "rename", a, b]  [ev |-> "open", a, fd, wr, creat, trunc]  [ev |-> "write", fd, data]
     [ev |-> "read", fd, n]   [ev |-> "copy", fd, fd2, n]  [ev |-> "close", fd]  [ev |-> "unlink", a]
     [ev |-> "mkdir", a]      [ev |-> "symlink", a, b]     [ev |-> "meta", a]    (chmod/chown/utimens)
     [ev |-> "pwrite", fd, data, n]  [ev |-> "ftrunc", fd, n]  [ev |-> "trunc", a, n]  [ev |-> "link", a, b]  [ev |-> "rmdir", a]
                                         (not issued by the unchanged command; modelled so that a changed one is judged, not skipped)
     [ev |-> "snap", final, fuzzy]       the tree found on disk when the process had ended or had been
                                         killed (fuzzy: another thread was inside a system call at the kill)

   Only successful calls on paths inside the scenario directory are logged.  The state is the model file
   system after the events so far (CliFsSem); the property is an INVARIANT, i.e. it is evaluated at every
   system-call boundary of every run - each of them is a point where the process could be killed:

     NeverLost  "for every input file either its original path still holds the complete original bytes, or a
                 sibling backup (<name>.bak) holds them, or the path already holds the complete new output"
     ReadOnly   "files that are only read are never modified"

   At a "snap" event the same two predicates are evaluated on the REAL disk content, and the model state is
   compared with the disk (a disagreement is a fault of this model: MODEL rejections are infrastructure
   errors, never verdicts).                                                                             *)
EXTENDS CliPlan, CliFsSem, TraceIO

VARIABLES l, fs, W
vars == <<l, fs, W>>
EmptyFs == [names |-> <<>>, data |-> <<>>, fds |-> <<>>, next |-> 1]

FsOfTree(T) ==
  LET n == Len(T)
      InoOf(i) == IF T[i].k = "h" THEN Min({j \in 1..n : T[j].p = T[i].t} \cup {n + 1}) ELSE i
  IN [names |-> [p \in {T[i].p : i \in 1..n} |->
                   LET i == Min({j \in 1..n : T[j].p = p}) IN
                   CASE T[i].k = "l" -> LinkNode(T[i].t)
                     [] T[i].k = "d" -> DirNode
                     [] OTHER -> FileNode(InoOf(i))],
      data  |-> [i \in {j \in 1..n : T[j].k = "f"} |-> T[i].c],
      fds   |-> <<>>,
      next  |-> n + 2]

\* the files the property talks about, from the plan of the scenario (CliPlan) and the library results
Watch(e) ==
  LET sc == e.sc
      T == sc.tree
      P == Plan(sc)
      tasks == P.tasks
      SrcBytes(p) == IF p = <<>> THEN sc.stdin ELSE Stat(T, Comps(p), TRUE).c
      LibOf(t) == {i \in DOMAIN e.lib : e.lib[i].type = t.type /\ e.lib[i].srcs = t.srcs /\ e.lib[i].sep = t.sep}
      Expect(t) == IF t.mode # "min" THEN SrcBytes(t.srcs[1])
                   ELSE LET L == e.lib[CHOOSE i \in LibOf(t) : TRUE] IN IF L.ok THEN L.out ELSE L.in
      Onto(k, j) == k \in P.inplace /\ Stat(T, Comps(tasks[k].srcs[j]), TRUE).ino = Stat(T, Comps(tasks[k].dst), TRUE).ino
      pairs == {kj \in UNION {{<<k, j>> : j \in DOMAIN tasks[k].srcs} : k \in DOMAIN tasks} :
                  tasks[kj[1]].srcs[kj[2]] # <<>> /\ tasks[kj[1]].mode # "link"}
  IN SetToSeq({[p |-> tasks[kj[1]].srcs[kj[2]], orig |-> SrcBytes(tasks[kj[1]].srcs[kj[2]]),
                ro |-> ~Onto(kj[1], kj[2]), new |-> IF Onto(kj[1], kj[2]) THEN Expect(tasks[kj[1]]) ELSE <<>>] : kj \in pairs})
BindingOK(e) ==
  LET sc == e.sc
      T == sc.tree
      P == Plan(sc)
      SrcBytes(p) == IF p = <<>> THEN sc.stdin ELSE Stat(T, Comps(p), TRUE).c
  IN /\ P.unspec = {} /\ P.hazard = {}
     /\ \A k \in DOMAIN P.tasks : P.tasks[k].mode = "min" =>
          \E i \in DOMAIN e.lib : /\ e.lib[i].type = P.tasks[k].type /\ e.lib[i].srcs = P.tasks[k].srcs /\ e.lib[i].sep = P.tasks[k].sep
                                  /\ e.lib[i].in = JoinBytes([j \in DOMAIN P.tasks[k].srcs |-> SrcBytes(P.tasks[k].srcs[j])], P.tasks[k].sep)

IsDirPath(f, p) == NodeAt(f, Real(f, p, TRUE)).k = "d"       \* directories are opened for listing only
Apply(f, e) ==
  CASE e.ev = "init"    -> FsOfTree(e.sc.tree)
    [] e.ev = "rename"  -> DoRename(f, e.a, e.b)
    [] e.ev = "open"    -> IF IsDirPath(f, e.a) THEN f ELSE DoOpen(f, e.a, e.fd, e.wr, e.creat, e.trunc)
    [] e.ev = "write"   -> DoWrite(f, e.fd, e.data)
    [] e.ev = "read"    -> DoRead(f, e.fd, e.n)
    [] e.ev = "copy"    -> DoCopyRange(f, e.fd, e.fd2, e.n)
    [] e.ev = "close"   -> DoClose(f, e.fd)
    [] e.ev = "unlink"  -> DoUnlink(f, e.a)
    [] e.ev = "mkdir"   -> DoMkdir(f, e.a)
    [] e.ev = "symlink" -> DoSymlink(f, e.b, e.a)
    [] e.ev = "pwrite"  -> DoPWrite(f, e.fd, e.data, e.n)
    [] e.ev = "ftrunc"  -> DoFTruncate(f, e.fd, e.n)
    [] e.ev = "trunc"   -> DoTruncate(f, e.a, e.n)
    [] e.ev = "link"    -> DoLink(f, e.a, e.b)
    [] e.ev = "rmdir"   -> DoRmdir(f, e.a)
    [] OTHER            -> f

Init == l = 1 /\ fs = EmptyFs /\ W = <<>>
Next == /\ l <= N
        /\ l' = l + 1
        /\ fs' = Apply(fs, Trace[l])
        /\ W' = IF Trace[l].ev = "init" THEN Watch(Trace[l]) ELSE W
Spec == Init /\ [][Next]_vars

Lost(f, w)     == ~w.ro /\ ~(\/ ContentAt(f, w.p) = Some(w.orig)
                             \/ ContentAt(f, w.p \o BakSuffix) = Some(w.orig)
                             \/ ContentAt(f, w.p) = Some(w.new))
Modified(f, w) == w.ro /\ ContentAt(f, w.p) # Some(w.orig)

\* evaluated in the state reached after event l-1: every system-call boundary is a crash point
NeverLost == (\A i \in DOMAIN W : ~Lost(fs, W[i])) \/ Reject(l - 1, "NeverLost: an input's bytes are nowhere (not at its path, not in <name>.bak, new output incomplete)")
ReadOnly  == (\A i \in DOMAIN W : ~Modified(fs, W[i])) \/ Reject(l - 1, "ReadOnly: a file that is only read was modified")

\* the event about to be applied must be possible in the model (otherwise the model is wrong, not the code)
Applicable ==
  l <= N =>
    LET e == Trace[l] IN
    CASE e.ev = "init"   -> BindingOK(e) \/ Reject(l, "BINDING scenario or library request does not match the plan")
      [] e.ev = "rename" -> CanRename(fs, e.a, e.b) \/ Reject(l, "MODEL rename impossible in the model")
      [] e.ev = "open"   -> IsDirPath(fs, e.a) \/ CanOpen(fs, e.a, e.creat) \/ Reject(l, "MODEL open impossible in the model")
      [] e.ev = "unlink" -> CanUnlink(fs, e.a) \/ Reject(l, "MODEL unlink impossible in the model")
      [] e.ev \in {"read", "copy"} -> TRUE
      [] OTHER -> TRUE

\* at a snapshot: the real disk satisfies the property, and the model agrees with the disk
SnapOK ==
  (l <= N /\ Trace[l].ev = "snap") =>
    LET e == Trace[l]
        d == FsOfTree(e.final)
    IN /\ (\A i \in DOMAIN W : ~Lost(d, W[i])) \/ Reject(l, "NeverLost ON DISK after the process ended or was killed")
       /\ (\A i \in DOMAIN W : ~Modified(d, W[i])) \/ Reject(l, "ReadOnly ON DISK: a file that is only read was modified")
       /\ e.fuzzy \/ (/\ Leaves(fs) = Leaves(d)
                      /\ \A p \in Leaves(d) : IF d.names[p].k = "l" THEN fs.names[p].k = "l" /\ fs.names[p].t = d.names[p].t
                                              ELSE fs.names[p].k = "f" /\ fs.data[fs.names[p].ino] = d.data[d.names[p].ino])
          \/ Reject(l, "MODEL file-system model disagrees with the disk")
=============================================================================
