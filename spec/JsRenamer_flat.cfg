SPECIFICATION Spec
CONSTANTS
 MaxUnits = 3
 LocalNames = {"x", "a"}
 FreeNames = {}
 Top = {"b"}
 MaxParams = 1
 MaxDecl = 1
 Start <- StartAB
 Cont <- ContABC
 DReserved = {"aa"}
 AllowWith = FALSE
 AllowVars = FALSE
 MaxUses = 1
 AllowFlat = TRUE
 MoveAfterRename = FALSE
 OldWith = FALSE
 RestoreOwn = FALSE
INVARIANTS FlagAsMeant StackDepth CaptureFree NoCollision PublicUnchanged NoReserved Emit
CHECK_DEADLOCK FALSE
