SPECIFICATION TSpec
CONSTANTS MaxRegs = 8
INVARIANT Conforms
POSTCONDITION AcceptedLinear
CHECK_DEADLOCK FALSE
