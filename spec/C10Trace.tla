----------------------------- MODULE C10Trace -----------------------------
(* Trace validation for C10.  One line = one call of a real entry point (harness/cmd/c10):
     [id, api, lang, opts, prec, n, outcome, cpu_us, wall_us, alloc, stack, nout,
      orig_sha, ret_sha, small, orig, ret, tail_ok, msg]
   outcome is "ok" / "err" (Return transitions of Totality) or "panic" / "timeout" / "mem" /
   "crash", for which Totality has no transition.  The three clauses of the property are the
   predicates of Totality evaluated on the event. *)
EXTENDS TraceIO
VARIABLE l
Init == l = 1
Next == l <= N /\ l' = l + 1
Spec == Init /\ [][Next]_l

T == INSTANCE Totality WITH MaxOps <- 0, Ops2 <- {}, InjectBytes <- {}, Depths <- {}, AllowInPlace <- FALSE,
       seed <- 1, doc <- <<>>, nest <- <<0, 0>>, ops <- 0, lastop <- "seed",
       phase <- "Idle", call <- [api |-> "none", prec |-> "0"], buf <- <<>>, orig <- <<>>, ret <- <<>>, outcome <- "none"

LineOK(e) ==
  /\ (T!NoPanic(e) \/ Reject(l, "NoPanic"))
  /\ (~T!NoPanic(e) \/ T!WithinBudget(e) \/ Reject(l, "WithinBudget"))
  /\ (T!ErrGivesOriginal(e) \/ Reject(l, "ErrGivesOriginal"))
Conforms == l <= N => LineOK(Trace[l])
=============================================================================
