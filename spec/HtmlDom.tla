----------------------------- MODULE HtmlDom -----------------------------
(* Property C03: "Parsing the minified HTML with an HTML5-conforming parser yields the same
   document as parsing the input, up to the changes the minifier documents".

   A document is the pre-order event list of the DOM built by an HTML5 parser:
       [k |-> "O", t |-> tag, a |-> <<[n |-> name, v |-> bytes], ...>>, x |-> <<>>]   open element
       [k |-> "C", t |-> tag, ...]                                                   close element
       [k |-> "T", x |-> bytes]                                                      text node
       [k |-> "M", x |-> bytes]                                                      comment node
   HtmlEq(in, out) is the conjunction of ShapeEq, TextEq, RenderEq and AttrEq below; every clause
   cites the sentence of the property it implements.  Tables come from HtmlTables (the standard). *)
EXTENDS HtmlTables, SequencesExt, FiniteSetsExt, TLC
NV == INSTANCE NumVal

----------------------------------------------------------------------------
(* byte-sequence helpers (each mentions its fold accumulator as an already evaluated value) *)
IsWs(c) == c = 32 \/ c = 10 \/ c = 9 \/ c = 13 \/ c = 12           \* ASCII whitespace (HTML)
LowerC(c) == IF c >= 65 /\ c <= 90 THEN c + 32 ELSE c
Lower(s) == [i \in 1..Len(s) |-> LowerC(s[i])]
StripWs(s) == SelectSeq(s, LAMBDA c : ~IsWs(c))
StartsWith(s, p) == Len(s) >= Len(p) /\ SubSeq(s, 1, Len(p)) = p
(* collapse runs of white space to one blank and trim: WsNorm(a) = WsNorm(b) iff a and b are the
   same sequence of words *)
WsNorm(s) ==
  FoldLeft(LAMBDA a, c : IF IsWs(c) THEN [o |-> a.o, p |-> a.o # <<>>]
                         ELSE [o |-> IF a.p THEN a.o \o <<32, c>> ELSE Append(a.o, c), p |-> FALSE],
           [o |-> <<>>, p |-> FALSE], s).o
Trim(s) ==
  LET idx == {i \in 1..Len(s) : ~IsWs(s[i])}
  IN IF idx = {} THEN <<>> ELSE SubSeq(s, Min(idx), Max(idx))
(* split at a delimiter byte *)
SplitBy(s, d) ==
  LET r == FoldLeft(LAMBDA a, c : IF c = d THEN [o |-> Append(a.o, a.cur), cur |-> <<>>]
                                  ELSE [o |-> a.o, cur |-> Append(a.cur, c)],
                    [o |-> <<>>, cur |-> <<>>], s)
  IN Append(r.o, r.cur)
IndexOf(s, d) == LET idx == {i \in 1..Len(s) : s[i] = d} IN IF idx = {} THEN 0 ELSE Min(idx)

----------------------------------------------------------------------------
(* Normal form of an event list: comment nodes removed and adjacent text merged
   [property: "comments removed"]; every element boundary carries the text that precedes it
   (pre) and the white-space mode of that text, computed from the ancestor stack. *)
(* text directly inside select/optgroup is inter-element white space by the content model (4.10.7,
   4.10.9) and is never rendered by the widget, also inside pre; the label of an option is its text
   with white space stripped and collapsed (4.10.10 option.text / label), whatever white-space says *)
Mode(stack) ==
  IF stack # <<>> /\ stack[Len(stack)] \in {"select", "optgroup", "option"} THEN "norm"
  ELSE IF \E i \in 1..Len(stack) : stack[i] \in PreEls /\ \A k \in (i + 1)..Len(stack) : stack[k] # "template"
       THEN "pre"      \* (template contents are a separate fragment, 4.12.3: ancestors beyond a template do not style them)
  ELSE IF stack # <<>> /\ stack[Len(stack)] \in RawTextEls THEN "raw"
  ELSE "norm"
Norm(ev) ==
  FoldLeft(LAMBDA a, e :
             CASE e.k = "M" -> a
               [] e.k = "T" -> [a EXCEPT !.txt = a.txt \o e.x]
               [] e.k = "O" -> [stack |-> Append(a.stack, e.t), txt |-> <<>>,
                                out |-> Append(a.out, [k |-> "O", t |-> e.t, a |-> e.a, pre |-> a.txt,
                                                       mode |-> Mode(a.stack)])]
               [] OTHER     -> [stack |-> IF a.stack = <<>> THEN <<>> ELSE SubSeq(a.stack, 1, Len(a.stack) - 1),
                                txt |-> <<>>,
                                out |-> Append(a.out, [k |-> "C", t |-> e.t, a |-> <<>>, pre |-> a.txt,
                                                       mode |-> Mode(a.stack)])],
           [stack |-> <<>>, txt |-> <<>>, out |-> <<>>], ev).out

(* 1. "every omitted start or end tag is re-inferred at the same place ... the end of a
      script/style/textarea/title element never moves": same element tree. *)
ShapeEq(A, B) ==
  /\ Len(A) = Len(B)
  /\ \A i \in 1..Len(A) : A[i].k = B[i].k /\ A[i].t = B[i].t

(* 1b. "comments removed": a comment may disappear, but a comment that is kept (KeepComments,
      KeepSpecialComments) is still part of "the same document": it stays between the same two
      element boundaries (its text may change: the markup inside a conditional comment is minified).
      CommentGaps = for every comment node the number of element boundaries before it. *)
CommentGaps(ev) ==
  FoldLeft(LAMBDA a, e : IF e.k = "M" THEN [a EXCEPT !.g = Append(a.g, a.n)]
                         ELSE IF e.k = "T" THEN a ELSE [a EXCEPT !.n = a.n + 1],
           [n |-> 0, g |-> <<>>], ev).g
CountIn(s, x) == Cardinality({i \in 1..Len(s) : s[i] = x})
CommentEq(in, out) ==
  LET gi == CommentGaps(in)  go == CommentGaps(out) IN
  \A j \in 1..Len(go) : CountIn(go, go[j]) <= CountIn(gi, go[j])

(* 2. "runs of inter-word whitespace collapsed or trimmed ... never touching pre/textarea or
      unminified raw-text content": text between the same two element boundaries has the same
      words; inside pre/textarea/listing and raw text elements (no sub-minifier is registered by
      this check) it is the same bytes.  title is escapable raw text, is not rendered and is not
      named by the property: its text falls under the general white-space rule. *)
TextEq(A, B) ==
  \A i \in 1..Len(A) :
     IF A[i].mode = "norm" THEN WsNorm(A[i].pre) = WsNorm(B[i].pre) ELSE A[i].pre = B[i].pre

(* 3. "never joining or splitting rendered words": flatten the tree to the inline formatting
      stream  word bytes | S (32) | B (-1, boundary of a box that is not inline, <br>, document
      edge) | atom (-2, edge of an atomic inline-level box).  display:none subtrees contribute
      nothing and are transparent.  noscript is transparent with its content rendered when
      scripting is disabled and display:none when it is enabled: both views (nos) are compared.
      Preserved white space (pre) is kept verbatim as c+1000. *)
B == -1
ATOM == -2
Hidden(tag, nos) == tag \in DisplayNone \/ (nos /\ tag = "noscript")
Flatten(A, nos) ==
  FoldLeft(LAMBDA a, n :
     LET txt == IF a.none > 0 THEN <<>>
                ELSE IF n.mode = "pre" THEN [i \in 1..Len(n.pre) |-> n.pre[i] + 1000]
                ELSE [i \in 1..Len(n.pre) |-> IF IsWs(n.pre[i]) THEN 32 ELSE n.pre[i]]
         hid == Hidden(n.t, nos)
         mark == IF a.none > 0 \/ hid THEN <<>>
                 ELSE IF n.t \in BlockEls THEN <<B>>
                 ELSE IF n.t \in AtomEls THEN (IF n.k = "O" THEN <<ATOM, B>> ELSE <<B, ATOM>>)
                 ELSE <<>>
     IN [o |-> a.o \o txt \o mark,
         none |-> IF hid THEN (IF n.k = "O" THEN a.none + 1 ELSE a.none - 1) ELSE a.none],
     [o |-> <<>>, none |-> 0], A).o
(* collapse S runs, drop S next to B and at the document edges, merge B runs *)
Reduce(s) ==
  FoldLeft(LAMBDA a, c :
     IF c = 32 THEN [o |-> a.o, p |-> a.o # <<>> /\ a.o[Len(a.o)] # B]
     ELSE IF c = B THEN [o |-> IF a.o # <<>> /\ a.o[Len(a.o)] = B THEN a.o ELSE Append(a.o, B), p |-> FALSE]
     ELSE [o |-> IF a.p THEN a.o \o <<32, c>> ELSE Append(a.o, c), p |-> FALSE],
     [o |-> <<>>, p |-> FALSE], s).o
RenderEq(A, Bn) ==
  /\ Reduce(Flatten(A, FALSE)) = Reduce(Flatten(Bn, FALSE))
  /\ Reduce(Flatten(A, TRUE)) = Reduce(Flatten(Bn, TRUE))

----------------------------------------------------------------------------
(* 4. "every remaining attribute decodes to the same value whatever quoting and character
      references are chosen" / "default or empty attributes dropped". *)
Colon == 58
IsSchemeChar(c) == (c >= 97 /\ c <= 122) \/ (c >= 65 /\ c <= 90) \/ (c >= 48 /\ c <= 57) \/ c = 43 \/ c = 45 \/ c = 46
DataScheme == <<100, 97, 116, 97, 58>>        \* data:
JsScheme == <<106, 97, 118, 97, 115, 99, 114, 105, 112, 116, 58>>    \* javascript:
(* URL: surrounding white space is stripped by the URL parser and the scheme is ASCII
   case-insensitive (RFC 3986 3.1).  data: URLs are re-encoded by minify.DataURI, which is
   property C18's subject: two data: URLs are not compared here. *)
UrlNorm(v) ==
  LET t == Trim(v)
      p == IndexOf(t, Colon)
  IN IF StartsWith(Lower(t), DataScheme) THEN DataScheme
     ELSE IF p > 1 /\ \A i \in 1..(p-1) : IsSchemeChar(t[i])
          THEN Lower(SubSeq(t, 1, p)) \o SubSeq(t, p + 1, Len(t))
          ELSE t
(* MIME type: type, subtype, parameter names are case-insensitive, white space around the
   separators is not significant (RFC 9110 8.3.1); quoted strings are left alone. *)
MimeNorm(v) ==
  FoldLeft(LAMBDA a, c : IF c = 34 THEN [o |-> Append(a.o, c), q |-> ~a.q]
                         ELSE IF a.q THEN [o |-> Append(a.o, c), q |-> TRUE]
                         ELSE IF IsWs(c) THEN a
                         ELSE [o |-> Append(a.o, LowerC(c)), q |-> FALSE],
           [o |-> <<>>, q |-> FALSE], v).o
(* event handler: README "strip default protocols (http:, https: and javascript:)"; a leading
   javascript: in handler source text is a statement label *)
JsNorm(v) ==
  LET t == Trim(v) IN IF StartsWith(Lower(t), JsScheme) THEN Trim(SubSeq(t, Len(JsScheme) + 1, Len(t))) ELSE t
(* comma separated tokens (2.3.8): tokens are stripped of surrounding white space *)
JoinComma(parts) == FoldLeft(LAMBDA a, p : IF a.first THEN [o |-> p, first |-> FALSE]
                                            ELSE [o |-> a.o \o <<44>> \o p, first |-> FALSE],
                             [o |-> <<>>, first |-> TRUE], parts).o
CommaNorm(v) == LET parts == SplitBy(v, 44) IN JoinComma([i \in 1..Len(parts) |-> Trim(parts[i])])
(* viewport: key=value pairs; white space is not significant and numeric values are compared by
   value (NumVal, the same meaning as property C08) *)
ViewportItemEq(x, y) ==
  \/ x = y
  \/ LET px == IndexOf(x, 61)  py == IndexOf(y, 61) IN
     /\ px > 0 /\ px = py /\ SubSeq(x, 1, px) = SubSeq(y, 1, py)
     /\ LET vx == SubSeq(x, px + 1, Len(x))  vy == SubSeq(y, py + 1, Len(y)) IN
        NV!IsNumber(vx) /\ NV!IsNumber(vy) /\ NV!ValueEq(vx, vy)
ViewportEq(vi, vo) ==
  LET a == SplitBy(StripWs(vi), 44)  b == SplitBy(StripWs(vo), 44) IN
  Len(a) = Len(b) /\ \A i \in 1..Len(a) : ViewportItemEq(a[i], b[i])

AttrVal(as, n) == LET idx == {i \in 1..Len(as) : as[i].n = n} IN IF idx = {} THEN <<-1>> ELSE as[Min(idx)].v
HasAttr(as, n) == \E i \in 1..Len(as) : as[i].n = n
Keywords == <<107, 101, 121, 119, 111, 114, 100, 115>>
Viewport == <<118, 105, 101, 119, 112, 111, 114, 116>>
ContentType == <<99, 111, 110, 116, 101, 110, 116, 45, 116, 121, 112, 101>>
HtmlUtf8 == <<116,101,120,116,47,104,116,109,108,59,99,104,97,114,115,101,116,61,117,116,102,45,56>>  \* text/html;charset=utf-8
Utf8 == <<117, 116, 102, 45, 56>>

(* same decoded value, up to what the value syntax of the attribute (standard) makes insignificant *)
ValEq(tag, n, vi, vo, ai) ==
  \/ vi = vo
  \/ IsBoolAttr(tag, n)                                                  \* README: "strip ... attribute boolean values"
  \/ n \in WsInsensitiveAttrs /\ WsNorm(vi) = WsNorm(vo)
  \/ n \in UrlAttrs /\ UrlNorm(vi) = UrlNorm(vo)
  \/ IsMimeAttr(tag, n) /\ MimeNorm(vi) = MimeNorm(vo)
  \/ n = "style" /\ Trim(vi) = Trim(vo)
  \/ n \in EventAttrs /\ JsNorm(vi) = JsNorm(vo)
  \/ tag = "meta" /\ n = "content" /\ Lower(Trim(AttrVal(ai, "name"))) = Keywords /\ CommaNorm(vi) = CommaNorm(vo)
  \/ tag = "meta" /\ n = "content" /\ Lower(Trim(AttrVal(ai, "name"))) = Viewport /\ ViewportEq(vi, vo)
  \/ tag = "meta" /\ n = "content" /\ Lower(Trim(AttrVal(ai, "http-equiv"))) = ContentType /\ MimeNorm(vi) = MimeNorm(vo)

(* README "shorten ... meta charset": <meta http-equiv=content-type content="text/html;charset=utf-8">
   is the pragma form of <meta charset=utf-8> (4.2.5.3) *)
IsCharsetPragma(tag, ai) ==
  /\ tag = "meta" /\ ~HasAttr(ai, "charset")
  /\ Lower(Trim(AttrVal(ai, "http-equiv"))) = ContentType
  /\ MimeNorm(AttrVal(ai, "content")) = HtmlUtf8

(* an attribute of the input may be absent from the output only if absence means the same *)
MayDrop(tag, n, v, ai, ao) ==
  LET t == Lower(Trim(v))
      ty == Lower(Trim(AttrVal(ai, "type")))
  IN
  \/ t \in DefaultOf(tag, n)                                             \* "default ... attributes dropped"
  \/ tag = "script" /\ n = "type" /\ MimeNorm(v) \in JsMimeTypes
  \/ t = <<>> /\ EmptyMeansAbsent(tag, n)                                 \* "empty attributes dropped"
  \/ tag = "input" /\ n = "value" /\ v = <<>> /\ ty \notin (InputValueDefaultOnTypes \cup InputValueIsLabelTypes)
  \/ tag = "input" /\ n = "value" /\ v = On /\ ty \in InputValueDefaultOnTypes
  \/ tag = "script" /\ n = "charset"                                      \* 16.2: has no effect
  \/ tag = "a" /\ n = "name" /\ HasAttr(ai, "id") /\ AttrVal(ai, "id") = v   \* 16.2: redundant with id
  \/ IsCharsetPragma(tag, ai) /\ n \in {"http-equiv", "content"} /\ AttrVal(ao, "charset") = Utf8

AttrsOK(tag, ai, ao) ==
  /\ \A j \in 1..Len(ao) :
        \/ \E k \in 1..Len(ai) : ai[k].n = ao[j].n /\ ValEq(tag, ao[j].n, ai[k].v, ao[j].v, ai)
        \/ IsCharsetPragma(tag, ai) /\ ao[j].n = "charset" /\ ao[j].v = Utf8
  /\ \A k \in 1..Len(ai) :
        \/ \E j \in 1..Len(ao) : ao[j].n = ai[k].n
        \/ MayDrop(tag, ai[k].n, ai[k].v, ai, ao)
AttrEq(A, Bn) == \A i \in 1..Len(A) : A[i].k = "O" => AttrsOK(A[i].t, A[i].a, Bn[i].a)

HtmlEq(in, out) ==
  LET A == Norm(in)  Bn == Norm(out) IN
  ShapeEq(A, Bn) /\ CommentEq(in, out) /\ TextEq(A, Bn) /\ RenderEq(A, Bn) /\ AttrEq(A, Bn)
=============================================================================
