----------------------------- MODULE JsLexAdj -----------------------------
(* C09, JavaScript printer: token separation.

   Three things live here.

   1. Lex: the ECMAScript lexical grammar (maximal munch, ES2022 section 12) on byte sequences,
      restricted to the byte alphabet of the adjacency programs and of what the minifier prints
      for them: identifiers/keywords, numeric literals, simple strings/templates, regular
      expression literals (goal symbol chosen from the previous token), punctuators, comments
      including the HTML-like  <!--  comment of Annex B.  A token the grammar does not allow is
      kind "err"; a byte this restricted lexer does not model gives kind "unk" (no judgement).

   2. Fuses: the class level rule table "these two (three) tokens may not be printed next to
      each other without a separator".  TLC checks, for every reachable token sequence, that the
      table agrees with Lex run on the concatenated spellings (FusesAgree) - so the table is a
      checked summary of the lexical grammar, not an opinion.

   3. The generator: an expression grammar automaton over the token classes (expect operand /
      after operand, one level of parentheses).  Its reachable accepting states are the
      adjacency programs handed to the real minifier; C09Trace then runs Lex on the bytes the
      real printer produced. *)
EXTENDS Integers, Sequences, FiniteSets, TLC

CONSTANTS MaxLen,      \* longest token sequence generated
          Core         \* TRUE: only the fusion-prone classes (allows a larger MaxLen)

Cls == <<
  [n |-> "id",     sp |-> <<97>>],                         \* a
  [n |-> "this",   sp |-> <<116, 104, 105, 115>>],
  [n |-> "n1",     sp |-> <<49>>],                         \* 1
  [n |-> "n0",     sp |-> <<48>>],                         \* 0
  [n |-> "ndot",   sp |-> <<49, 46>>],                     \* 1.
  [n |-> "nfrac",  sp |-> <<49, 46, 53>>],                 \* 1.5
  [n |-> "nlead",  sp |-> <<46, 53>>],                     \* .5
  [n |-> "nexp",   sp |-> <<49, 101, 51>>],                \* 1e3
  [n |-> "nhex",   sp |-> <<48, 120, 49, 102>>],           \* 0x1f
  [n |-> "nbig",   sp |-> <<49, 110>>],                    \* 1n
  [n |-> "str",    sp |-> <<39, 115, 39>>],                \* 's'
  [n |-> "tpl",    sp |-> <<96, 116, 96>>],                \* `t`
  [n |-> "re",     sp |-> <<47, 114, 47>>],                \* /r/
  [n |-> "reg",    sp |-> <<47, 114, 47, 103>>],           \* /r/g
  [n |-> "res",    sp |-> <<47, 115, 99, 114, 105, 112, 116, 62, 47>>],   \* /script>/
  [n |-> "plus",   sp |-> <<43>>],
  [n |-> "minus",  sp |-> <<45>>],
  [n |-> "inc",    sp |-> <<43, 43>>],
  [n |-> "dec",    sp |-> <<45, 45>>],
  [n |-> "not",    sp |-> <<33>>],
  [n |-> "tilde",  sp |-> <<126>>],
  [n |-> "typeof", sp |-> <<116, 121, 112, 101, 111, 102>>],
  [n |-> "void",   sp |-> <<118, 111, 105, 100>>],
  [n |-> "mul",    sp |-> <<42>>],
  [n |-> "div",    sp |-> <<47>>],
  [n |-> "mod",    sp |-> <<37>>],
  [n |-> "pow",    sp |-> <<42, 42>>],
  [n |-> "lt",     sp |-> <<60>>],
  [n |-> "gt",     sp |-> <<62>>],
  [n |-> "le",     sp |-> <<60, 61>>],
  [n |-> "ge",     sp |-> <<62, 61>>],
  [n |-> "eq",     sp |-> <<61, 61>>],
  [n |-> "ne",     sp |-> <<33, 61>>],
  [n |-> "seq",    sp |-> <<61, 61, 61>>],
  [n |-> "sne",    sp |-> <<33, 61, 61>>],
  [n |-> "shl",    sp |-> <<60, 60>>],
  [n |-> "shr",    sp |-> <<62, 62>>],
  [n |-> "ushr",   sp |-> <<62, 62, 62>>],
  [n |-> "and",    sp |-> <<38>>],
  [n |-> "or",     sp |-> <<124>>],
  [n |-> "xor",    sp |-> <<94>>],
  [n |-> "land",   sp |-> <<38, 38>>],
  [n |-> "lor",    sp |-> <<124, 124>>],
  [n |-> "nul",    sp |-> <<63, 63>>],
  [n |-> "in",     sp |-> <<105, 110>>],
  [n |-> "inst",   sp |-> <<105, 110, 115, 116, 97, 110, 99, 101, 111, 102>>],
  [n |-> "comma",  sp |-> <<44>>],
  [n |-> "dot",    sp |-> <<46>>],
  [n |-> "qdot",   sp |-> <<63, 46>>],
  [n |-> "lp",     sp |-> <<40>>],
  [n |-> "rp",     sp |-> <<41>>] >>

NCls == Len(Cls)
Ix(names) == {i \in 1..NCls : Cls[i].n \in names}
I(name) == CHOOSE i \in 1..NCls : Cls[i].n = name

OperandNames == {"id", "this", "n1", "n0", "ndot", "nfrac", "nlead", "nexp", "nhex", "nbig", "str", "tpl", "re", "reg", "res"}
PrefixNames  == {"plus", "minus", "inc", "dec", "not", "tilde", "typeof", "void"}
PostfixNames == {"inc", "dec"}
BinaryNames  == {"plus", "minus", "mul", "div", "mod", "pow", "lt", "gt", "le", "ge", "eq", "ne", "seq", "sne", "shl", "shr",
                 "ushr", "and", "or", "xor", "land", "lor", "nul", "in", "inst", "comma"}
MemberNames  == {"dot", "qdot"}
CoreNames    == {"id", "n1", "nlead", "re", "plus", "minus", "inc", "dec", "not", "typeof", "lt", "gt", "div", "in", "dot", "lp", "rp"}
Allowed(names) == IF Core THEN Ix(names \cap CoreNames) ELSE Ix(names)

(* ------------------------------------------------------------------ 1. the lexer *)
Lower   == 97..122
Upper   == 65..90
Digits  == 48..57
IdStart == Lower \cup Upper \cup {36, 95}                 \* letters $ _
IdPart  == IdStart \cup Digits
HexDig  == Digits \cup (97..102) \cup (65..70)
WS      == {32, 9, 11, 12}
NL      == {10, 13}
\* bytes the restricted lexer models at all
Known   == IdPart \cup WS \cup NL \cup {33, 34, 37, 38, 39, 40, 41, 42, 43, 44, 45, 46, 47, 58, 59, 60, 61, 62, 63, 91, 93, 94, 96, 123, 124, 125, 126}

At(b, i) == IF i >= 1 /\ i <= Len(b) THEN b[i] ELSE 0 - 1
Sub(b, i, n) == IF i + n - 1 <= Len(b) THEN SubSeq(b, i, i + n - 1) ELSE <<>>

\* first position >= j whose byte is not in S (Len(b)+1 when none); each parameter is mentioned once per step
RECURSIVE Run(_, _, _)
Run(b, j, S) == IF j > Len(b) THEN j ELSE IF b[j] \in S THEN Run(b, j + 1, S) ELSE j
\* first position >= j whose byte IS in S
RECURSIVE Find(_, _, _)
Find(b, j, S) == IF j > Len(b) THEN j ELSE IF b[j] \in S THEN j ELSE Find(b, j + 1, S)

P4 == {<<62, 62, 62, 61>>}                                                             \* >>>=
P3 == {<<61, 61, 61>>, <<33, 61, 61>>, <<62, 62, 62>>, <<46, 46, 46>>, <<42, 42, 61>>, <<60, 60, 61>>, <<62, 62, 61>>,
       <<38, 38, 61>>, <<124, 124, 61>>, <<63, 63, 61>>}                               \* === !== >>> ... **= <<= >>= &&= ||= ??=
P2 == {<<60, 61>>, <<62, 61>>, <<61, 61>>, <<33, 61>>, <<43, 43>>, <<45, 45>>, <<42, 42>>, <<60, 60>>, <<62, 62>>, <<38, 38>>,
       <<124, 124>>, <<63, 63>>, <<43, 61>>, <<45, 61>>, <<42, 61>>, <<37, 61>>, <<38, 61>>, <<124, 61>>, <<94, 61>>, <<61, 62>>}
       \* <= >= == != ++ -- ** << >> && || ?? += -= *= %= &= |= ^= =>     ( /= and ?. are handled where / and ? are )
P1 == {123, 125, 40, 41, 91, 93, 46, 59, 44, 60, 62, 43, 45, 42, 37, 38, 124, 94, 33, 126, 63, 58, 61}

\* keywords after which a / starts a regular expression (the others behave like identifiers)
KwOps == {<<116, 121, 112, 101, 111, 102>>, <<118, 111, 105, 100>>, <<105, 110>>, <<105, 110, 115, 116, 97, 110, 99, 101, 111, 102>>,
          <<114, 101, 116, 117, 114, 110>>, <<110, 101, 119>>, <<100, 101, 108, 101, 116, 101>>, <<116, 104, 114, 111, 119>>,
          <<99, 97, 115, 101>>, <<100, 111>>, <<101, 108, 115, 101>>, <<121, 105, 101, 108, 100>>, <<97, 119, 97, 105, 116>>}

Tok(kk, ln) == [k |-> kk, len |-> ln]
NoTok == [k |-> "none", sp |-> <<>>]

\* InputElementRegExp or InputElementDiv?  (section 12: decided by the syntactic context; for the
\* expression fragment used here the previous token decides)
RegexAfter(t) ==
  \/ t.k = "none"
  \/ t.k = "punct" /\ t.sp \notin {<<41>>, <<93>>, <<125>>}
  \/ t.k = "id" /\ t.sp \in KwOps
\* ++ / -- directly after the end of an operand are postfix operators: a division follows them
RegexAllowed(prev, prev2) ==
  IF prev.k = "punct" /\ prev.sp \in {<<43, 43>>, <<45, 45>>} THEN RegexAfter(prev2) ELSE RegexAfter(prev)

\* numeric literal starting at i (b[i] is a digit, or '.' followed by a digit)
NumTok(b, i) ==
  LET c == At(b, i) c2 == At(b, i + 1) IN
  IF c = 48 /\ c2 \in {120, 88} THEN                                   \* 0x
       LET e == Run(b, i + 2, HexDig) e2 == IF At(b, e) = 110 THEN e + 1 ELSE e IN
       IF e = i + 2 THEN Tok("err", 2) ELSE IF At(b, e2) \in IdPart THEN Tok("err", e2 - i + 1) ELSE Tok("num", e2 - i)
  ELSE IF c = 48 /\ c2 \in {98, 66, 111, 79} THEN                      \* 0b 0o
       LET e == Run(b, i + 2, Digits) e2 == IF At(b, e) = 110 THEN e + 1 ELSE e IN
       IF e = i + 2 THEN Tok("err", 2) ELSE IF At(b, e2) \in IdPart THEN Tok("err", e2 - i + 1) ELSE Tok("num", e2 - i)
  ELSE IF c = 48 /\ c2 \in Digits THEN Tok("unk", 2)                   \* legacy octal / 08: goal dependent, not modelled
  ELSE
       LET ie == IF c = 46 THEN i ELSE Run(b, i, Digits)                \* end of integer part
           fe == IF At(b, ie) = 46 THEN Run(b, ie + 1, Digits) ELSE ie  \* end of fraction (dot absorbed, digits optional)
           hasDot == fe > ie
           big == ~hasDot /\ At(b, fe) = 110                           \* BigInt suffix n (integers only)
           xs == IF At(b, fe) \in {101, 69} THEN (IF At(b, fe + 1) \in {43, 45} THEN fe + 2 ELSE fe + 1) ELSE fe
           xe == IF xs > fe THEN Run(b, xs, Digits) ELSE fe
           okx == xs = fe \/ xe > xs                                  \* exponent needs digits
           e == IF big THEN fe + 1 ELSE IF okx THEN xe ELSE fe
       IN IF ~okx /\ ~big THEN Tok("err", xs - i + 1)
          ELSE IF At(b, e) \in IdPart THEN Tok("err", e - i + 1)       \* "must not be immediately followed by IdentifierStart or DecimalDigit"
          ELSE Tok("num", e - i)

NextTok(b, i, prev, prev2) ==
  LET c == b[i] IN
  IF c \notin Known THEN Tok("unk", 1)
  ELSE IF c \in WS THEN Tok("ws", Run(b, i, WS) - i)
  ELSE IF c \in NL THEN Tok("nl", 1)
  ELSE IF c \in IdStart THEN Tok("id", Run(b, i, IdPart) - i)
  ELSE IF c \in Digits \/ (c = 46 /\ At(b, i + 1) \in Digits) THEN NumTok(b, i)
  ELSE IF c \in {39, 34} THEN                                           \* ' "  (no escapes in this fragment: a backslash is "unk")
       LET e == Find(b, i + 1, {c, 10, 13, 92}) IN
       IF At(b, e) = c THEN Tok("str", e - i + 1) ELSE IF At(b, e) = 92 THEN Tok("unk", e - i + 1) ELSE Tok("err", e - i)
  ELSE IF c = 96 THEN
       LET e == Find(b, i + 1, {96, 92, 36}) IN
       IF At(b, e) = 96 THEN Tok("tpl", e - i + 1) ELSE IF e > Len(b) THEN Tok("err", e - i) ELSE Tok("unk", e - i + 1)
  ELSE IF c = 47 THEN
       IF At(b, i + 1) = 47 THEN Tok("cmt", Find(b, i, NL) - i)
       ELSE IF At(b, i + 1) = 42 THEN Tok("unk", 2)                     \* block comments are not printed for these programs
       ELSE IF RegexAllowed(prev, prev2) THEN
            LET e == Find(b, i + 1, {47, 10, 13, 92, 91}) IN
            IF At(b, e) = 47 THEN Tok("regex", Run(b, e + 1, IdPart) - i)
            ELSE IF At(b, e) \in {92, 91} THEN Tok("unk", e - i + 1) ELSE Tok("err", e - i)
       ELSE IF At(b, i + 1) = 61 THEN Tok("punct", 2) ELSE Tok("punct", 1)
  ELSE IF c = 60 /\ Sub(b, i, 4) = <<60, 33, 45, 45>> THEN Tok("hcmt", Find(b, i, NL) - i)      \* <!--  (Annex B.1.1)
  ELSE IF c = 63 /\ At(b, i + 1) = 46 /\ At(b, i + 2) \notin Digits THEN Tok("punct", 2)         \* ?.  [lookahead not digit]
  ELSE IF Sub(b, i, 4) \in P4 THEN Tok("punct", 4)
  ELSE IF Sub(b, i, 3) \in P3 THEN Tok("punct", 3)
  ELSE IF Sub(b, i, 2) \in P2 THEN Tok("punct", 2)
  ELSE IF c \in P1 THEN Tok("punct", 1)
  ELSE Tok("unk", 1)

Trivia == {"ws", "nl", "cmt", "hcmt"}
RECURSIVE LexFrom(_, _, _, _, _)
LexFrom(b, i, prev, prev2, acc) ==
  IF i > Len(b) THEN acc
  ELSE LET t == NextTok(b, i, prev, prev2)
           tk == [k |-> t.k, sp |-> SubSeq(b, i, i + t.len - 1)]
       IN IF t.k \in Trivia THEN LexFrom(b, i + t.len, prev, prev2, Append(acc, tk))
          ELSE LexFrom(b, i + t.len, tk, prev, Append(acc, tk))
Lex(b) == LexFrom(b, 1, NoTok, NoTok, <<>>)
Significant(ts) == SelectSeq(ts, LAMBDA t : t.k \notin {"ws", "nl"})

Kinds(ts) == {ts[i].k : i \in DOMAIN ts}
\* byte-level judgements used by C09Trace: "valid" is a NECESSARY condition of syntactic validity
LexJudged(ts)      == "unk" \notin Kinds(ts)
LexValidScript(ts) == "err" \notin Kinds(ts)
LexValidModule(ts) == "err" \notin Kinds(ts) /\ "hcmt" \notin Kinds(ts)       \* HTML-like comments are a SyntaxError in modules

(* ------------------------------------------------------------------ 2. the rule table *)
Sp(i) == Cls[i].sp
Last(i) == Sp(i)[Len(Sp(i))]
First(i) == Sp(i)[1]
IsWordy(i)  == Cls[i].n \in {"id", "this", "typeof", "void", "in", "inst"}
IsNum(i)    == Cls[i].n \in {"n1", "n0", "ndot", "nfrac", "nlead", "nexp", "nhex", "nbig"}
IsRegex(i)  == Cls[i].n \in {"re", "reg", "res"}
\* punctuator pairs whose concatenation is (or starts) a different punctuator or a comment
\* punctuator pairs whose concatenation starts a longer punctuator or a comment
PunctFuse == {
  <<"plus", "plus">>, <<"plus", "inc">>, <<"minus", "minus">>, <<"minus", "dec">>,
  <<"mul", "mul">>, <<"mul", "pow">>,
  <<"lt", "lt">>, <<"lt", "le">>, <<"lt", "shl">>,
  <<"gt", "gt">>, <<"gt", "ge">>, <<"gt", "shr">>, <<"gt", "ushr">>,
  <<"shr", "gt">>, <<"shr", "ge">>, <<"shr", "shr">>, <<"shr", "ushr">>,
  <<"and", "and">>, <<"and", "land">>, <<"or", "or">>, <<"or", "lor">>,
  <<"div", "div">>, <<"div", "mul">>, <<"div", "pow">>,                      \* //  /*
  <<"div", "re">>, <<"div", "reg">>, <<"div", "res">>                        \* a / /r/  ->  a//r/
}
\* punctuators that become another punctuator when an = follows  ( += -= *= %= **= <= >= <<= >>= >>>= &= |= ^= &&= ||= ??= != == === !== /= )
AbsorbsEq == {"plus", "minus", "mul", "mod", "pow", "lt", "gt", "shl", "shr", "ushr", "and", "or", "xor", "land", "lor", "nul", "not", "eq", "ne", "div"}
\* token classes after which a / is the start of a regular expression literal
RegexOKAfter(x) == ~(IsWordy(x) \/ IsNum(x) \/ IsRegex(x) \/ Cls[x].n \in {"str", "tpl", "rp"}) \/ Cls[x].n \in {"typeof", "void", "in", "inst"}
FusesPair(x, y) ==
  \/ (IsWordy(x) \/ IsNum(x) \/ IsRegex(x)) /\ (First(y) \in IdPart)          \* words, numbers and regex flags swallow identifier characters
  \/ Cls[x].n \in {"n1", "n0"} /\ First(y) = 46                              \* 1 .  ->  "1."   (a plain integer absorbs a dot)
  \/ Cls[x].n \in {"dot", "qdot"} /\ First(y) \in Digits                      \* . 1  ->  ".1" ;  ?. 1  ->  "?" ".1"
  \/ IsRegex(y) /\ ~RegexOKAfter(x)                                           \* the / would be read as a division
  \/ First(y) = 61 /\ Cls[x].n \in AbsorbsEq
  \/ <<Cls[x].n, Cls[y].n>> \in PunctFuse
\* triples that fuse although neither pair does
FusesTriple(x, y, z) ==
  \/ <<Cls[x].n, Cls[y].n, Cls[z].n>> = <<"lt", "not", "dec">>                  \* < ! --   ->  <!--  HTML-like comment
  \/ <<Cls[x].n, Cls[y].n, Cls[z].n>> = <<"dot", "dot", "dot">>

Concat(sq) == IF sq = <<>> THEN <<>> ELSE LET f[i \in 1..Len(sq)] == IF i = 1 THEN Sp(sq[1]) ELSE f[i - 1] \o Sp(sq[i]) IN f[Len(sq)]
Spaced(sq) == IF sq = <<>> THEN <<>> ELSE LET f[i \in 1..Len(sq)] == IF i = 1 THEN Sp(sq[1]) ELSE f[i - 1] \o <<32>> \o Sp(sq[i]) IN f[Len(sq)]
Spellings(ts) == [i \in DOMAIN ts |-> ts[i].sp]
Intended(sq) == [i \in DOMAIN sq |-> Sp(sq[i])]
\* operational meaning of "fuses": printing the spellings back to back does not lex back to the same tokens
FusesLex(sq) == Spellings(Significant(Lex(Concat(sq)))) # Intended(sq)

(* ------------------------------------------------------------------ 3. the generator *)
VARIABLES seq,      \* token classes so far
          st,       \* "E" expect an operand, "A" after an operand, "M" after a member dot
          depth,    \* open parentheses (0 or 1)
          lock      \* 1: the next operand must be an identifier and takes no postfix (after prefix ++ / --); 2: no postfix
vars == <<seq, st, depth, lock>>

Init == seq = <<>> /\ st = "E" /\ depth = 0 /\ lock = 0

Add(c) == seq' = Append(seq, c)
Next ==
  /\ Len(seq) < MaxLen
  /\ \/ /\ st = "E" /\ lock = 0
        /\ \E c \in Allowed(PrefixNames) : /\ Add(c) /\ st' = "E" /\ depth' = depth
                                           /\ lock' = IF Cls[c].n \in {"inc", "dec"} THEN 1 ELSE 0
     \/ /\ st = "E"
        /\ \E c \in Allowed(OperandNames) : /\ (lock = 1 => Cls[c].n = "id")
                                            /\ Add(c) /\ st' = "A" /\ depth' = depth
                                            /\ lock' = IF lock = 1 THEN 2 ELSE 0
     \/ /\ st = "E" /\ lock = 0 /\ depth = 0 /\ I("lp") \in Allowed({"lp"})
        /\ Add(I("lp")) /\ st' = "E" /\ depth' = 1 /\ lock' = 0
     \/ /\ st = "A" /\ depth = 1 /\ I("rp") \in Allowed({"rp"})
        /\ Add(I("rp")) /\ st' = "A" /\ depth' = 0 /\ lock' = 2
     \/ /\ st = "A"
        /\ \E c \in Allowed(BinaryNames) : Add(c) /\ st' = "E" /\ depth' = depth /\ lock' = 0
     \/ /\ st = "A" /\ lock = 0 /\ Cls[seq[Len(seq)]].n = "id"
        /\ \E c \in Allowed(PostfixNames) : Add(c) /\ st' = "A" /\ depth' = depth /\ lock' = 2
     \/ /\ st = "A" /\ Cls[seq[Len(seq)]].n \in OperandNames \cup {"rp"}
        /\ \E c \in Allowed(MemberNames) : Add(c) /\ st' = "M" /\ depth' = depth /\ lock' = lock
     \/ /\ st = "M"
        /\ Add(I("id")) /\ st' = "A" /\ depth' = depth /\ lock' = IF lock = 2 THEN 2 ELSE 0
Spec == Init /\ [][Next]_vars

Complete == st = "A" /\ depth = 0            \* the sequence is an expression

(* ------------------------------------------------------------------ design-level invariants *)
nn == Len(seq)
\* separated by blanks every sequence lexes back to itself (the input side of the binding is unambiguous)
SpacedLexesBack == Spellings(Significant(Lex(Spaced(seq)))) = Intended(seq)
\* rule table = lexer, on the last pair and the last triple of every reachable sequence
\* (the pair / triple is printed back to back after the blank-separated rest of the program, so the lexer sees the real left context)
TailFuses(k) == Spellings(Significant(Lex(Spaced(SubSeq(seq, 1, nn - k)) \o <<32>> \o Concat(SubSeq(seq, nn - k + 1, nn))))) # Intended(seq)
FusesAgree ==
  /\ nn >= 2 => (FusesPair(seq[nn - 1], seq[nn]) <=> TailFuses(2))
  /\ nn >= 3 /\ ~FusesPair(seq[nn - 2], seq[nn - 1]) /\ ~FusesPair(seq[nn - 1], seq[nn])
        => (FusesTriple(seq[nn - 2], seq[nn - 1], seq[nn]) <=> TailFuses(3))
\* the lexer never meets a byte it does not model in generated programs
AllJudged == LexJudged(Lex(Spaced(seq)))
\* the pair table is complete over ALL class pairs, grammatical neighbours or not (evaluated once at start-up)
\* (a lone / at the start of input can only begin a regular expression, so a pair led by "div" is lexed after an operand)
FusesLexCtx(x, y) == IF Cls[x].n = "div" THEN Spellings(Significant(Lex(<<97, 32>> \o Concat(<<x, y>>)))) # <<<<97>>>> \o Intended(<<x, y>>)
                     ELSE FusesLex(<<x, y>>)
PairDisagreements == {<<Cls[p[1]].n, Cls[p[2]].n>> : p \in {q \in (1..NCls) \X (1..NCls) : FusesPair(q[1], q[2]) # FusesLexCtx(q[1], q[2])}}
ASSUME TableComplete == PairDisagreements = {}
=============================================================================
