----------------------------- MODULE DataUriDesign -----------------------------
(* C18 design model of minify.DataURI: the helper's algorithm as it is meant to work (decode,
   sub-minify, pick the shorter of base64 / percent-encoding, drop the default media type parts,
   never grow a validly encoded input), written as a function on byte sequences.  It includes the
   proposed repairs of the pinned findings (RFC 2397 parsing and decoding from DataUri.tla; D8).
   DataUriGen model-checks Design against the abstract relation (D => A); C18Trace compares it
   with the recorded behaviour of the code (DRIFT information, never a verdict). *)
EXTENDS DataUri

\* ------------------------------------------------------------------ design model
\* abstract sub-minifiers
SubFn(k, p) == CASE k = "id" -> p
                 [] k = "shrink" -> SelectSeq(p, LAMBDA c : c # 97)        \* drops every "a"
                 [] k = "grow3" -> p \o <<103, 103, 103>>
                 [] k = "grow64" -> p \o [i \in 1..64 |-> 103]
                 [] OTHER -> p
PolicyEscape(c) == MustEscape(c) \/ c = 38
Design(in, k) ==
  LET pi == Parse(in) IN
  IF ~pi.ok THEN in                                            \* D1 not a data URI
  ELSE LET d == Decode(pi) IN
  IF pi.b64 /\ ~d.strict THEN in                               \* D2 malformed base64 left alone
  ELSE
  LET q == IF k = "none" THEN d.payload ELSE SubFn(k, d.payload)
      segs == Split(StripWs(pi.mt), 59)
      ty == IF LowerSeq(segs[1]) = TextPlain THEN <<>> ELSE segs[1]                       \* D3 default type dropped
      ps == SelectSeq(Tail(segs), LAMBDA s : s # <<>> /\ LowerSeq(s) # CharsetAscii)      \* D4 default charset dropped
      mtOut == FoldLeft(LAMBDA a, s : a \o <<59>> \o s, ty, ps)
               \o (IF ps # <<>> /\ LowerSeq(ps[Len(ps)]) = Base64Tok THEN <<59>> ELSE <<>>)   \* a last parameter spelled base64 must not become the marker
      b64c == 7 + B64Len(Len(q))
      pctc == Len(q) + 2 * Count(q, PolicyEscape)
      r == Data5 \o mtOut \o (IF b64c < pctc THEN <<59>> \o Base64Tok \o <<44>> \o B64Encode(q)     \* D5 base64 shorter
                              ELSE <<44>> \o PctEncodeWith(q, PolicyEscape))                       \* D6 percent-encoding
  IN IF Len(in) < b64c /\ Len(in) < pctc THEN in               \* D7 input shorter than any re-encoding
     ELSE IF d.strict /\ Len(r) > Len(in) THEN in              \* D8 never grow a validly encoded input
     ELSE r
=============================================================================
