SPECIFICATION Spec
CONSTANTS MaxLen = 6
Alphabet <- Alpha8
INVARIANTS AsIsIndexSafe AsIsOKOutsideKnown FixedOK
CHECK_DEADLOCK FALSE
