SPECIFICATION Spec
CONSTANTS
  NG = 2
  MaxCalls = 2
  ShapeNames <- DomainShapes
  AllowReg = FALSE
  CopyOpts = TRUE
  TightCap = TRUE
  CopyArgs = TRUE
  HtmlDep = FALSE
  LazyInit = FALSE
  PoolBuf = FALSE
VIEW View
INVARIANTS Deterministic SharedReadOnly NoBlocking LockSane
CHECK_DEADLOCK TRUE
