SPECIFICATION Spec
CONSTANTS
  N = 2
  MaxCalls = 2
  ShapeNames <- DomainShapes
  AllowReg = FALSE
  CopyOpts = TRUE
  TightCap = TRUE
  CopyArgs = FALSE
  HtmlDep = FALSE
VIEW View
INVARIANTS Deterministic SharedReadOnly NoBlocking CompletesAlone LockSane
CHECK_DEADLOCK TRUE
