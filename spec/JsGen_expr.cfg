SPECIFICATION Spec
CONSTANTS MaxSym = 8
MaxS = 0
MaxE = 3
MaxList = 1
Enabled <- ExprNames
INVARIANTS WellFormed Bounded Emit
CHECK_DEADLOCK FALSE
