SPECIFICATION Spec
CONSTANTS MaxLen = 2
Alphabet <- Alpha11
Kinds <- KindsAll
INVARIANTS DesignOK DesignIdem CodecOK ReflexiveOK
CHECK_DEADLOCK FALSE
