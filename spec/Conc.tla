------------------------------- MODULE Conc -------------------------------
(* C13 - design model of ONE shared minify.M used from NG goroutines.

   Transcribed from /repo/minify.go (M.mutex, Match, MinifyMimetype, Add*, cmdMinifier.Minify),
   css/css.go + svg/svg.go (Minify: tmp copy of the option struct, Inline/newPrecision written to
   the copy), html/html.go (nested m.MinifyMimetype for <style>/<script>/<svg>/data URIs),
   common.go DataURI and css/css.go (append(urlBytes, ...) / append(dataBytes, ...): package-level
   byte slices used as append bases).

   The whole state is one record s so that the per-goroutine step function Do(s, g) can be reused by
   the trace specification ConcTrace (macro steps RunTo).  Every access to a shared location is a
   step of its own and is recorded in s.acc as <<location, "r"|"w">>; writes by *use* calls go to
   s.wr as well (SharedReadOnly).

   sync.RWMutex is modelled as Go implements it: rc = read holds (a goroutine re-entering through an
   embedding minifier holds several), wp = writer that has announced itself and waits for the readers
   to drain (from that moment NEW RLock calls block), wh = writer holding the lock.

   Design switches (the values of the real code are the defaults of the _mc configurations; the
   other values are used as negative controls - TLC must find the violation - and to explain the
   pinned known defects):
     CopyOpts    css/svg Minify work on a private copy of the option struct        (code: TRUE)
     TightCap    package-level slices have cap = len, so append never writes them  (code: TRUE)
     CopyArgs    cmdMinifier copies cmd.Args before substituting $in/$out          (code: TRUE since fix fd040d4;
                 FALSE = the defect fixed there: 2nd call ran on the 1st call's temp file, user's Args overwritten)
     HtmlDep     html option struct has the deprecated KeepConditionalComments set (writes the struct = known defect)
     LazyInit    a package-level table is built lazily by the first call that needs it
                 ("if table == nil { make; fill }" without synchronisation)              (code: FALSE; the js
                 renamer copies js.Keywords into a per-call map).  First access = write, a second goroutine
                 starting cold at the same moment sees the table half filled.  Only a COLD process shows it:
                 any completed earlier call (e.g. a reference call) has filled the table
     PoolBuf     an entry point takes its output buffer from a package-level pool and puts it back without
                 resetting it when the call FAILED after the minifier had written output  (code: FALSE; Bytes and
                 String allocate per call).  The pool is a shared location written by every call; the next call
                 that draws the dirty buffer returns its own bytes behind the leftovers
     AllowReg    Add* concurrent with use: documented as unsupported, OUTSIDE the property            *)
EXTENDS Integers, Sequences, FiniteSets, TLC, Json, SequencesExt

CONSTANTS NG, MaxCalls, ShapeNames, AllowReg, CopyOpts, TightCap, CopyArgs, HtmlDep, LazyInit, PoolBuf

G == 1 .. NG
Iota(n) == [i \in 1 .. n |-> i]      \* <<1, ..., n>> for the eager folds

(* ----------------------------- call shapes ------------------------------ *)
(* A call is a tree: media type, whether the caller passes inline=1, the nested calls the
   minifier makes for embedded content.  e = "minify" | "match" | "add".
   hold: the call goes through m.Writer / m.Reader and the USER stalls the pipe: the worker goroutine of
   the wrapper sits inside the real minifier (waiting for input / for its output to be read) holding the
   registry's read lock until the user goes on - a gate made of the stream wrapper itself.
   e = "match": m.Match looks up under the read lock, RETURNS (lock released), and the caller then runs the
   returned MinifierFunc: the minifier body executes without an outer read hold, its embedded resources
   re-enter the registry. *)
Leaf(mt, inl) == [e |-> "minify", mt |-> mt, inl |-> inl, hold |-> FALSE, fail |-> FALSE, kids |-> <<>>]
Node(mt, inl, kids) == [e |-> "minify", mt |-> mt, inl |-> inl, hold |-> FALSE, fail |-> FALSE, kids |-> kids]
Fail(n) == [n EXCEPT !.fail = TRUE]      \* the minifier returns an error AFTER it has written part of its output
Hold(n) == [n EXCEPT !.hold = TRUE]
Match(n) == [n EXCEPT !.e = "match"]

Cat == [
  css     |-> Leaf("css", FALSE),
  cssi    |-> Leaf("css", TRUE),                                     \* text/css; inline=1
  cssD    |-> Node("css", FALSE, << Leaf("svg", FALSE) >>),          \* url(data:image/svg+xml,...) -> DataURI -> m.Bytes
  js      |-> Leaf("js", FALSE),
  jsi     |-> Leaf("js", TRUE),
  json    |-> Leaf("json", FALSE),
  xml     |-> Leaf("xml", FALSE),
  upper   |-> Leaf("upper", FALSE),                                  \* user function registered with AddFuncRegexp
  svg0    |-> Leaf("svg", FALSE),
  svg1    |-> Node("svg", FALSE, << Leaf("css", FALSE) >>),          \* standalone svg with <style>
  svg2    |-> Node("svg", FALSE, << Leaf("css", FALSE), Leaf("css", TRUE) >>),   \* ... and a style attribute
  html0   |-> Leaf("html", FALSE),
  htmlC   |-> Node("html", FALSE, << Leaf("css", FALSE), Leaf("css", TRUE), Leaf("js", FALSE), Leaf("js", TRUE) >>),
  htmlD   |-> Node("html", FALSE, << Leaf("css", FALSE), Leaf("js", FALSE), Leaf("json", FALSE),
                                     Node("css", TRUE, << Leaf("svg", FALSE) >>), Leaf("js", TRUE) >>),
  htmlS   |-> Node("html", FALSE, << Node("svg", TRUE, << Leaf("css", FALSE) >>) >>),  \* inline svg with <style>
  htmlM   |-> Node("html", FALSE, << Node("svg", TRUE, << Leaf("css", FALSE) >>), Leaf("xml", FALSE) >>),   \* ... and <math>
  htmlS3  |-> Node("html", FALSE, << Node("svg", TRUE, << Leaf("css", FALSE) >>), Leaf("svg", TRUE),
                                     Node("svg", FALSE, << Leaf("css", FALSE) >>) >>), \* two inline svgs and an svg data URI
  htmlG   |-> Node("html", FALSE, << Leaf("gate", FALSE) >>),        \* parks two read-holds deep
  htmlGre |-> Node("html", FALSE, << Leaf("gatere", FALSE) >>),
  cssG    |-> Node("css", FALSE, << Leaf("gate", FALSE) >>),         \* css url(data:<gate type>,...): parks INSIDE the css minifier
  svgG    |-> Node("svg", FALSE, << Node("css", FALSE, << Leaf("gate", FALSE) >>) >>),   \* three read-holds deep
  htmlCG  |-> Node("html", FALSE, << Node("css", TRUE, << Leaf("gatere", FALSE) >>) >>), \* style attribute -> css -> gate
  htmlSG  |-> Node("html", FALSE, << Node("css", FALSE, << Leaf("gate", FALSE) >>) >>),  \* <style> -> css -> gate
  htmlIG  |-> Node("html", FALSE, << Node("html", FALSE, << Leaf("gate", FALSE) >>) >>), \* <iframe> -> html -> gate
  htmlVG  |-> Node("html", FALSE, << Node("svg", TRUE, << Node("css", FALSE, << Leaf("gate", FALSE) >>) >>) >>),  \* four read-holds deep
  gate    |-> Leaf("gate", FALSE),                                   \* user minifier that parks (literal)
  gatere  |-> Leaf("gatere", FALSE),                                 \* the same, served by a pattern
  cmd     |-> Leaf("cmd", FALSE),                                    \* AddCmd / AddCmdRegexp, stdin/stdout
  cmdin   |-> Leaf("cmdin", FALSE),                                  \* AddCmd with $in / $in $out placeholders
  cmdout  |-> Leaf("cmdin", FALSE),                                  \* ... with $out only (stdin in, result file out)
  none    |-> Leaf("none", FALSE),                                   \* no minifier registered
  \* stream wrappers stalled by the user: the worker is parked inside the REAL minifier
  cssH    |-> Hold(Leaf("css", FALSE)),
  cssDH   |-> Hold(Node("css", FALSE, << Leaf("svg", FALSE) >>)),
  jsH     |-> Hold(Leaf("js", FALSE)),
  jsonH   |-> Hold(Leaf("json", FALSE)),
  xmlH    |-> Hold(Leaf("xml", FALSE)),
  svg1H   |-> Hold(Node("svg", FALSE, << Leaf("css", FALSE) >>)),
  html0H  |-> Hold(Leaf("html", FALSE)),
  htmlCH  |-> Hold(Node("html", FALSE, << Leaf("css", FALSE), Leaf("css", TRUE), Leaf("js", FALSE), Leaf("js", TRUE) >>)),
  htmlSH  |-> Hold(Node("html", FALSE, << Node("svg", TRUE, << Leaf("css", FALSE) >>) >>)),
  \* Match, then the returned function is invoked by the caller
  matchL  |-> Match(Leaf("html", FALSE)),
  matchC  |-> Match(Leaf("css", TRUE)),
  matchS  |-> Match(Node("svg", FALSE, << Leaf("css", FALSE), Leaf("css", TRUE) >>)),
  matchP  |-> Match(Leaf("xml", FALSE)),
  matchJ  |-> Match(Leaf("json", FALSE)),
  matchJi |-> Match(Leaf("json", TRUE)),
  matchJs |-> Match(Leaf("js", FALSE)),
  matchU  |-> Match(Leaf("upper", FALSE)),
  matchCmd |-> Match(Leaf("cmd", FALSE)),
  matchN  |-> Match(Leaf("none", FALSE)),                            \* nil function
  matchG  |-> Match(Leaf("gate", FALSE)),                            \* parks holding NO read lock
  matchGre |-> Match(Leaf("gatere", FALSE)),
  \* calls that fail after output was written (truncated JSON, script syntax error below html, failing user minifier / command)
  jsonF   |-> Fail(Leaf("json", FALSE)),
  htmlF   |-> Fail(Node("html", FALSE, << Fail(Leaf("js", FALSE)) >>)),
  htmlFa  |-> Fail(Node("html", FALSE, << Leaf("css", TRUE), Fail(Leaf("js", TRUE)) >>)),
  htmlFj  |-> Fail(Node("html", FALSE, << Fail(Leaf("json", FALSE)) >>)),
  userF   |-> Fail(Leaf("failfn", FALSE)),
  cmdF    |-> Fail(Leaf("cmd", FALSE)),
  add     |-> [e |-> "add", mt |-> "css", inl |-> FALSE, hold |-> FALSE, fail |-> FALSE, kids |-> <<>>]
]
AllShapes == DOMAIN Cat

Literal == {"html", "css", "svg", "gate", "cmd", "cmdin"}            \* m.literal
Pattern == {"js", "json", "xml", "gatere", "upper", "failfn"}                 \* m.pattern
Registered(mt) == mt \in Literal \cup Pattern
IsGate(mt) == mt \in {"gate", "gatere"}
HasInline(mt) == mt \in {"css", "svg"}                               \* option struct with an Inline field
AppendsPkg(mt) == mt \in {"css", "html"}                             \* append(urlBytes/dataBytes, ...)

DomainShapes == AllShapes \ {"add"}                                  \* the property's domain (no registration during use)
CoreShapes == {"css", "cssi", "js", "svg0", "svg1", "html0", "htmlC", "htmlS", "htmlG", "cssG", "jsonF", "htmlF",
               "gate", "gatere", "cmdin", "none", "cssH", "htmlSH", "matchS", "matchG"}
SmallShapes == {"cssH", "htmlS", "cssG", "gatere", "matchS"}
PairShapes == {"cssi", "svg0", "htmlS", "gate"}
QuickShapes == {"cssi", "jsonF", "svg1", "htmlS", "htmlG", "svgG", "gatere", "matchS", "matchG", "cmdin", "none", "htmlCH"}

Tmpl == << 0, 0 >>                  \* cmd.Args still holds the registered template / slice base untouched
Res(mt, v, inl, pk, ar, kids) == [mt |-> mt, v |-> v, inl |-> inl, pk |-> pk, ar |-> ar, kids |-> kids]
NoRes == Res("", "none", FALSE, "own", Tmpl, <<>>)

(* ------------------------------- state ---------------------------------- *)
VARIABLES s, hist
vars == << s, hist >>

Frame(node, sh) == [node |-> node, sh |-> sh, pc |-> IF node.e = "add" THEN "wlock" ELSE "rlock",
                    i |-> 1, inl |-> FALSE, pk |-> "own", ar |-> Tmpl, found |-> FALSE, kres |-> <<>>,
                    lk |-> FALSE]                  \* this frame holds one read hold of the registry lock

InitS == [ st   |-> [g \in G |-> <<>>],          \* call stack of goroutine g (top = last)
           k    |-> [g \in G |-> 0],             \* calls completed by g
           rc   |-> 0, wp |-> 0, wh |-> 0,       \* the RWMutex
           gate |-> [g \in G |-> FALSE],         \* gate of g's current call is open
           opt  |-> [mt \in {"css", "svg", "html"} |-> FALSE],   \* shared option structs (Inline / mutated flag)
           pkg  |-> Tmpl,                        \* backing array of the package-level append bases
           args |-> Tmpl,                        \* exec.Cmd.Args of the registered command
           pool |-> "clean",                     \* pooled output buffer of the entry points (PoolBuf only)
           lazy |-> Tmpl,                        \* lazily built package-level table: Tmpl = nil, <<g, 1>> = g is filling it, <<g, 2>> = complete
           acc  |-> {},                          \* every kind of access to a shared location taken so far
           wr   |-> {},                          \* writes to shared locations by use calls
           bad  |-> {} ]                         \* calls whose result differs from the sequential one

Top(t, g) == t.st[g][Len(t.st[g])]
Active(t, g) == t.st[g] # <<>>
SetTop(t, g, f) == [t EXCEPT !.st[g][Len(t.st[g])] = f]
Acc(t, loc, rw) == [t EXCEPT !.acc = @ \cup {<< loc, rw >>}]
Wr(t, loc, g) == [t EXCEPT !.acc = @ \cup {<< loc, "w" >>}, !.wr = @ \cup {<< loc, g >>}]

\* what a sequential call on a fresh registry returns: a function of (input, options) only
RECURSIVE Expected(_)
Expected(node) ==
  IF node.e = "add" THEN Res(node.mt, "added", FALSE, "own", Tmpl, <<>>)
  ELSE IF ~Registered(node.mt) THEN Res(node.mt, IF node.e = "match" THEN "matchnil" ELSE "notexist", FALSE, "own", Tmpl, <<>>)
  ELSE Res(node.mt, IF node.fail THEN "err" ELSE IF node.e = "match" THEN "match" ELSE "ok", node.inl, "own", Tmpl,
           [i \in 1 .. Len(node.kids) |-> Expected(node.kids[i])])
\* for cmdin the expected result names the call's own temporary file
ExpectedAt(node, me) == IF node.mt = "cmdin" THEN [Expected(node) EXCEPT !.ar = me] ELSE Expected(node)

(* ---------------------- the step of goroutine g ------------------------- *)
(* Steps that touch only goroutine-private state (pushing the frame of the next embedded resource,
   computing the result) commute with every step of every other goroutine; they are merged into the
   preceding step.  Lock operations, gate waits and every access to a shared location are steps of
   their own. *)

\* the only steps that can be disabled: lock operations and a closed gate
Enabled(t, g) ==
  /\ Active(t, g)
  /\ LET f == Top(t, g) IN
       CASE f.pc = "rlock" -> t.wp = 0 /\ t.wh = 0      \* RLock blocks behind a pending or active writer
         [] f.pc = "wlock" -> t.wp = 0 /\ t.wh = 0      \* Lock: writers exclude each other
         [] f.pc = "wwait" -> t.rc = 0                  \* ... and wait for the readers to drain
         [] f.pc = "park"  -> t.gate[g]
         [] OTHER -> TRUE

ResultOf(f) ==
  IF ~f.found THEN Res(f.node.mt, IF f.node.e = "match" THEN "matchnil" ELSE "notexist", FALSE, "own", Tmpl, <<>>)
  ELSE Res(f.node.mt, IF f.node.fail THEN "err" ELSE IF f.node.e = "match" THEN "match" ELSE "ok", f.inl, f.pk, f.ar, f.kres)

\* the minifier body continues (private): next embedded resource, else the append, else the gate, else return
Continue(t, g, f) ==
  IF f.i <= Len(f.node.kids)
  THEN [SetTop(t, g, [f EXCEPT !.i = @ + 1, !.pc = "inkid"]) EXCEPT !.st[g] = Append(@, Frame(f.node.kids[f.i], f.sh))]
  ELSE SetTop(t, g, [f EXCEPT !.pc = IF AppendsPkg(f.node.mt) THEN "body"
                                     ELSE IF IsGate(f.node.mt) THEN "park" ELSE "runlock"])

\* the minifier has looked at its options; a stalled stream wrapper parks it here (input not yet complete /
\* first output not yet read), everything else goes on
AfterEnter(t, g, f) == IF f.node.hold THEN SetTop(t, g, [f EXCEPT !.pc = "park"]) ELSE Continue(t, g, f)

Do(t, g) ==
  LET f == Top(t, g)
      mt == f.node.mt
      me == << g, t.k[g] + 1 >>
  IN
  CASE f.pc = "rlock" ->                                 \* m.mutex.RLock()
         SetTop([t EXCEPT !.rc = @ + 1], g, [f EXCEPT !.pc = "lookup", !.lk = TRUE])
    [] f.pc = "lookup" ->                                \* m.literal[...] then range m.pattern
         LET t1 == Acc(t, "literal", "r")
             t2 == IF mt \in Literal THEN t1 ELSE Acc(t1, "pattern", "r")
             nx == IF f.node.e = "match" THEN "munlock" ELSE IF ~Registered(mt) THEN "runlock" ELSE "enter"
         IN SetTop(t2, g, [f EXCEPT !.pc = nx, !.found = Registered(mt)])
    [] f.pc = "munlock" ->                               \* Match returns: deferred RUnlock; the caller then invokes the function
         SetTop([t EXCEPT !.rc = @ - 1], g, [f EXCEPT !.lk = FALSE, !.pc = IF f.found THEN "enter" ELSE "runlock"])
    [] f.pc = "enter" ->                                 \* the minifier starts: option struct / exec.Cmd
         IF mt \in {"css", "svg"} THEN
           LET t1 == Acc(t, "opt", "r")
               eff == t.opt[mt] \/ f.node.inl              \* if !o.Inline { o.Inline = params["inline"] == "1" }
           IN IF CopyOpts THEN AfterEnter(t1, g, [f EXCEPT !.inl = eff])
              ELSE AfterEnter([Wr(t1, "opt", g) EXCEPT !.opt[mt] = eff], g, [f EXCEPT !.inl = eff])
         ELSE IF mt = "html" THEN
           LET t1 == Acc(t, "opt", "r")
           IN IF HtmlDep /\ ~t.opt["html"]                 \* o.KeepSpecialComments = true; o.KeepConditionalComments = false
              THEN AfterEnter([Wr(t1, "opt", g) EXCEPT !.opt["html"] = TRUE], g, f)
              ELSE AfterEnter(t1, g, f)
         ELSE IF mt \in {"cmd", "cmdin"} THEN              \* *cmd = *c.cmd ; for i, arg := range cmd.Args
           LET t1 == Acc(t, "args", "r")
           IN IF mt = "cmdin" /\ ~CopyArgs
              THEN IF t.args = Tmpl                        \* cmd.Args[i] = ... writes the registered command's array
                   THEN AfterEnter([Wr(t1, "args", g) EXCEPT !.args = me], g, [f EXCEPT !.ar = me])
                   ELSE AfterEnter(t1, g, [f EXCEPT !.ar = t.args])     \* no $in left: runs on the other call's file
              ELSE AfterEnter(t1, g, [f EXCEPT !.ar = IF mt = "cmdin" THEN me ELSE Tmpl])
         ELSE IF mt = "js" /\ LazyInit THEN                \* if table == nil { table = make(...); fill } ; use table
           LET t1 == Acc(Acc(t, "opt", "r"), "lazy", "r")
           IN IF t.lazy = Tmpl
              THEN SetTop([Wr(t1, "lazy", g) EXCEPT !.lazy = << g, 1 >>], g, [f EXCEPT !.inl = f.node.inl, !.pc = "lazyfill"])
              ELSE AfterEnter(t1, g, [f EXCEPT !.inl = f.node.inl, !.pk = IF t.lazy[2] = 2 THEN "own" ELSE "foreign"])   \* half filled: wrong names
         ELSE AfterEnter(Acc(t, "opt", "r"), g, [f EXCEPT !.inl = f.node.inl])   \* js, json, xml, user functions: params are private
    [] f.pc = "lazyfill" ->                              \* the table is complete
         AfterEnter([Wr(t, "lazy", g) EXCEPT !.lazy = << g, 2 >>], g, f)
    [] f.pc = "body" ->                                  \* append(urlBytes, ...): reads the base, writes it iff cap > len
         LET t1 == Acc(t, "pkg", "r")
         IN IF TightCap THEN SetTop(t1, g, [f EXCEPT !.pc = "runlock"])
            ELSE SetTop([Wr(t1, "pkg", g) EXCEPT !.pkg = me], g, [f EXCEPT !.pc = "fin"])
    [] f.pc = "fin" ->                                   \* loose cap only: the bytes are read back from the shared array
         SetTop(Acc(t, "pkg", "r"), g, [f EXCEPT !.pc = "runlock", !.pk = IF t.pkg = me THEN "own" ELSE "foreign"])
    [] f.pc = "park" ->                                  \* the gate opens / the user goes on with the stream
         IF IsGate(mt) THEN SetTop(t, g, [f EXCEPT !.pc = "runlock"]) ELSE Continue(t, g, f)
    [] f.pc = "runlock" ->                               \* defer m.mutex.RUnlock(); return
         LET r == ResultOf(f)
             t1 == [t EXCEPT !.rc = IF f.lk THEN @ - 1 ELSE @, !.st[g] = SubSeq(@, 1, Len(@) - 1)]
         IN IF Len(t.st[g]) > 1
            THEN LET p == Top(t1, g) IN Continue(t1, g, [p EXCEPT !.kres = Append(@, r)])
            ELSE IF ~PoolBuf
                 THEN [t1 EXCEPT !.k[g] = @ + 1, !.gate[g] = FALSE,
                                 !.bad = IF r = ExpectedAt(f.node, me) THEN @ ELSE @ \cup {me}]
                 ELSE \* buf := pool.Get(); defer pool.Put(buf); ... buf.Reset() only on success
                      LET r2 == IF t.pool = "dirty" THEN [r EXCEPT !.pk = "foreign"] ELSE r
                          t2 == [Wr(Acc(t1, "pool", "r"), "pool", g) EXCEPT !.pool = IF f.node.fail THEN "dirty" ELSE "clean"]
                      IN [t2 EXCEPT !.k[g] = @ + 1, !.gate[g] = FALSE,
                                    !.bad = IF r2 = ExpectedAt(f.node, me) THEN @ ELSE @ \cup {me}]
    \* ---- registration (only with AllowReg; outside the property) ----
    [] f.pc = "wlock" -> SetTop([t EXCEPT !.wp = g], g, [f EXCEPT !.pc = "wwait"])
    [] f.pc = "wwait" -> SetTop([t EXCEPT !.wp = 0, !.wh = g], g, [f EXCEPT !.pc = "wwrite"])
    [] f.pc = "wwrite" -> SetTop(Acc(t, "literal", "w"), g, [f EXCEPT !.pc = "wunlock"])
    [] f.pc = "wunlock" -> [t EXCEPT !.wh = 0, !.st[g] = <<>>, !.k[g] = @ + 1]

(* visible events of a step (what the driver can observe or cause) *)
Ev(e, g, k, sh) == [ev |-> e, g |-> g, k |-> k, sh |-> sh]
Vis(t, g) ==
  LET f == Top(t, g) IN
  IF f.pc = "enter" /\ (IsGate(f.node.mt) \/ f.node.hold) THEN << Ev("parked", g, t.k[g] + 1, f.sh) >>
  ELSE IF (f.pc = "runlock" /\ Len(t.st[g]) = 1) \/ f.pc = "wunlock" THEN << Ev("done", g, t.k[g] + 1, f.sh) >>
  ELSE <<>>

Begin(t, g, sh) == [t EXCEPT !.st[g] = << Frame(Cat[sh], sh) >>]
CanBegin(t, g) == ~Active(t, g) /\ t.k[g] < MaxCalls
AtGate(t, g) == Active(t, g) /\ Top(t, g).pc = "park"
OpenGate(t, g) == [t EXCEPT !.gate[g] = TRUE]
Parked(t, g) == AtGate(t, g) /\ ~t.gate[g]

(* ------------------------------- actions -------------------------------- *)
Init == s = InitS /\ hist = <<>>

Start(g) == /\ CanBegin(s, g)
            /\ \E sh \in ShapeNames :
                 /\ (Cat[sh].e = "add") => AllowReg
                 /\ s' = Begin(s, g, sh)
                 /\ hist' = Append(hist, Ev("start", g, s.k[g] + 1, sh))

Step(g) == /\ Enabled(s, g)
           /\ s' = Do(s, g)
           /\ hist' = hist \o Vis(s, g)

Release(g) == /\ AtGate(s, g) /\ ~s.gate[g]
              /\ s' = OpenGate(s, g)
              /\ hist' = Append(hist, Ev("release", g, s.k[g] + 1, Top(s, g).sh))

AllDone == \A g \in G : ~Active(s, g) /\ s.k[g] = MaxCalls
Finished == AllDone /\ UNCHANGED vars

Next == (\E g \in G : Start(g) \/ Step(g) \/ Release(g)) \/ Finished
Spec == Init /\ [][Next]_vars
\* for -simulate: walks end when every goroutine has returned (no stuttering tail)
NextGen == \E g \in G : Start(g) \/ Step(g) \/ Release(g)
SpecGen == Init /\ [][NextGen]_vars
\* the same with the driver holding every gate closed for as long as any other goroutine can move
\* (the schedules that matter for "parked readers never delay other calls")
Busy(g) == Active(s, g) /\ ~Parked(s, g)
NextLazy == \E g \in G : \/ Start(g) \/ Step(g)
                         \/ (Release(g) /\ \A h \in G \ {g} : ~Busy(h) /\ ~CanBegin(s, h))
SpecLazy == Init /\ [][NextLazy]_vars

View == s                      \* hist is a history variable: it does not distinguish states

(* ------------------------------ invariants ------------------------------ *)
\* "every call returns exactly the bytes a sequential call with the same input and options returns"
Deterministic == s.bad = {}

\* "option structs passed in by the user are never mutated" / "no data races": no use call ever
\* writes a shared location (no write => every pair of accesses is read/read => no race)
SharedReadOnly == s.wr = {}

\* "no call blocks on another": every goroutine that is inside a call can take its next step unless it
\* sits at its own closed gate ...
NoBlocking == \A g \in G : (Active(s, g) /\ ~Parked(s, g)) => Enabled(s, g)

\* ... and it can even run to completion with every other goroutine frozen where it is
RunAlone(t, g) ==
  FoldLeft(LAMBDA a, i : IF a.stop THEN a
                         ELSE IF ~Active(a.t, g) THEN [a EXCEPT !.stop = TRUE]
                         ELSE IF Parked(a.t, g) THEN [a EXCEPT !.t = OpenGate(a.t, g)]
                         ELSE IF ~Enabled(a.t, g) THEN [a EXCEPT !.stop = TRUE, !.ok = FALSE]
                         ELSE [a EXCEPT !.t = Do(a.t, g)],
           [t |-> t, ok |-> TRUE, stop |-> FALSE], Iota(80))
CompletesAlone == \A g \in G : Active(s, g) =>
                    LET a == RunAlone(s, g) IN a.ok /\ ~Active(a.t, g)

\* the lock counters mean what they say
Holds(t, g) == Cardinality({i \in 1 .. Len(t.st[g]) : t.st[g][i].lk})
SumHolds(t) == FoldLeft(LAMBDA a, g : a + Holds(t, g), 0, Iota(NG))
LockSane == /\ s.rc = SumHolds(s)
            /\ (s.wh # 0 => s.rc = 0)
            /\ (~AllowReg => s.wp = 0 /\ s.wh = 0)

\* generation: when everything has returned, print the history of visible events
Emit == AllDone => PrintT(<< "HIST", ToJson(hist) >>)
=============================================================================
