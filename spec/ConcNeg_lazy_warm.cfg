SPECIFICATION Spec
CONSTANTS
  NG = 1
  MaxCalls = 2
  ShapeNames <- JsCold
  AllowReg = FALSE
  CopyOpts = TRUE
  TightCap = TRUE
  CopyArgs = TRUE
  HtmlDep = FALSE
  LazyInit = TRUE
  PoolBuf = FALSE
VIEW View
INVARIANT Deterministic
CHECK_DEADLOCK FALSE
