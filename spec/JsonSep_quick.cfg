SPECIFICATION Spec
CONSTANTS MaxRaw = 9
AnyInput = FALSE
INVARIANTS TypeOK NoError OutIsPrefix FinalOutput Progress Mirrors
CHECK_DEADLOCK FALSE
