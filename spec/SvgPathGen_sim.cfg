SPECIFICATION Spec
CONSTANTS MaxTok = 120
MaxGroups = 1000
Letters <- LettersAll
Modes <- ModesAll
Coords <- CoordsSim
Radii <- RadiiSim
Rots <- RotsSim
ExclZ = TRUE
ExclDeg = TRUE
ExclZeroL = TRUE
INVARIANTS InRange Emit
CHECK_DEADLOCK FALSE
