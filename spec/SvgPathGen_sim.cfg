SPECIFICATION Spec
CONSTANTS MaxTok = 120
MaxGroups = 1000
Letters <- LettersAll
Modes <- ModesAll
Coords <- CoordsSim
MCoords <- CoordsSim
Radii <- RadiiSim
Rots <- RotsSim
ExclZ = FALSE
ExclDeg = FALSE
ExclZeroL = FALSE
INVARIANTS InRange Emit
CHECK_DEADLOCK FALSE
