----------------------------- MODULE MtMachine -----------------------------
(* C18 design models of minify.Mediatype (whitespace removal and lower-casing outside strings).

   AsIs(s)    transcription of the helper of the current tree (fix commit 0042ee0): one pass with a write
              index, blanks outside strings dropped, letters outside strings lower-cased byte by byte,
              a backslash inside a string protects the next byte.
   OldAsIs(s) transcription of the helper BEFORE the fix, kept as a wrong-design guard: one pass with a
              write index j, the start of the pending (not yet copied) stretch, the position lastString
              after the last closing quote and the inString flag; lower-casing in ranges [lastString, i)
              when a quote opens and at the end.  Go slices are 0-based and half-open; sequences here
              are 1-based, so b[lo:hi] is positions lo+1..hi.
   Known(s)   the narrow input constructs K6a / K6b on which the old design was wrong.

   Checked by TLC over every string of the generator (MediatypeGen):
     AsIsOK              the current design satisfies MediatypeOK on every string (nothing is excluded)
     OldIndexSafe        the index arithmetic of the old in-place copy never left the buffer
     OldWrongOnlyOnKnown the old design violates MediatypeOK exactly within the Known constructs
   and, as ASSUMEs below, the relation still rejects the old design on the witnesses of K6a and K6b. *)
EXTENDS DataUri

LowerRange(b, lo, hi) == [k \in 1..Len(b) |-> IF k > lo /\ k <= hi THEN Lower(b[k]) ELSE b[k]]
\* Go: copy(b[dst:], b[lo:hi])  (memmove semantics: reads the old contents)
CopyRange(b, dst, lo, hi) ==
  [k \in 1..Len(b) |-> IF k - 1 >= dst /\ k - 1 < dst + (hi - lo) THEN b[lo + (k - 1 - dst) + 1] ELSE b[k]]

OldRun(s) ==
  LET n == Len(s)
      step(st, k) ==                                   \* k = 1-based position, i = k - 1 the Go index
        LET i == k - 1  c == st.b[k] IN
        IF ~st.inString /\ IsWs(c) THEN                                            \* A1 blank outside a string
           IF st.start # 0
              THEN [st EXCEPT !.b = CopyRange(st.b, st.j, st.start, i), !.j = st.j + (i - st.start), !.start = i + 1,
                              !.safe = st.safe /\ st.j <= st.start /\ st.start <= i]                \* A1a flush pending stretch
              ELSE [st EXCEPT !.j = st.j + i, !.start = i + 1]                                      \* A1b first blank
        ELSE IF c = 34 THEN
           IF ~st.inString
              THEN [st EXCEPT !.inString = TRUE,                                                    \* A2 quote opens
                              !.b = IF i - st.lastString < 1024 THEN LowerRange(st.b, st.lastString, i) ELSE st.b,
                              !.safe = st.safe /\ st.lastString <= i]
              ELSE [st EXCEPT !.inString = FALSE, !.lastString = st.j + (i + 1 - st.start)]         \* A3 quote closes
        ELSE st                                                                                     \* A4 any other byte
      st0 == [b |-> s, j |-> 0, start |-> 0, lastString |-> 0, inString |-> FALSE, safe |-> TRUE]
      e == FoldLeft(step, st0, Idx(s))
  IN IF e.start # 0
     THEN LET b1 == CopyRange(e.b, e.j, e.start, n)   j1 == e.j + (n - e.start) IN                  \* A5 final flush
          [out |-> SubSeq(LowerRange(b1, e.lastString, j1), 1, j1),
           safe |-> e.safe /\ e.j <= e.start /\ e.lastString <= j1 /\ j1 <= n]
     ELSE [out |-> LowerRange(e.b, e.lastString, n), safe |-> e.safe /\ e.lastString <= n]          \* A6 nothing removed
OldAsIs(s) == OldRun(s).out

\* the current helper: one pass, lower-case as you go, a backslash inside a string protects the next byte
AsIs(s) ==
  FoldLeft(LAMBDA st, c :
             IF st.mode = 0 /\ IsWs(c) THEN st                                                      \* F1 drop blank
             ELSE IF st.mode = 0 THEN [mode |-> IF c = 34 THEN 1 ELSE 0, acc |-> Append(st.acc, Lower(c))]   \* F2 outside
             ELSE IF st.mode = 1 THEN [mode |-> IF c = 92 THEN 2 ELSE IF c = 34 THEN 0 ELSE 1, acc |-> Append(st.acc, c)]  \* F3 inside
             ELSE [mode |-> 1, acc |-> Append(st.acc, c)],                                          \* F4 quoted-pair
           [mode |-> 0, acc |-> <<>>], s).acc

\* ---- the constructs of the fixed findings K6a / K6b, decided on the input only
Modes(s) ==   \* mode on entry of every position (0 outside, 1 inside a quoted string, 2 after a backslash inside)
  FoldLeft(LAMBDA st, c : [mode |-> QStep(st.mode, c), acc |-> Append(st.acc, st.mode)], [mode |-> 0, acc |-> <<>>], s).acc
\* K6b: an escaped quote inside a quoted string
K6b(s) == LET m == Modes(s) IN \E k \in 1..(Len(s) - 1) : m[k] = 1 /\ s[k] = 92 /\ s[k+1] = 34
(* K6a: at least two blanks removed, then a quoted string that closes and - with no blank in
   between - another quote that opens, and an upper-case letter inside a string within the last
   `removed` bytes up to and including that closing quote *)
K6a(s) ==
  LET m == Modes(s)
      r == FoldLeft(LAMBDA st, k :
                 LET c == s[k] IN
                 IF m[k] = 0 /\ IsWs(c) THEN [st EXCEPT !.removed = @ + 1, !.blank = TRUE]
                 ELSE IF m[k] = 0 /\ c = 34 THEN
                      [st EXCEPT !.hit = @ \/ (st.close > 0 /\ ~st.blank /\ st.removed >= 2 /\
                                               \E x \in 1..st.close : x > st.close - st.removed /\ m[x] # 0 /\ IsUpper(s[x]))]
                 ELSE IF m[k] = 1 /\ c = 34 THEN [st EXCEPT !.close = k, !.blank = FALSE]
                 ELSE st,
               [removed |-> 0, close |-> 0, blank |-> TRUE, hit |-> FALSE], Idx(s))
  IN r.hit
Known(s) == K6b(s) \/ K6a(s)

\* ---- the old design is still rejected on the witnesses of the fixed findings, the current one accepted
W_K6a == <<97,47,98,32,59,32,120,61,34,65,66,34,59,121,61,34,67,34>>        \* a/b ; x="AB";y="C"
W_K6b == <<97,47,98,59,120,61,34,92,34,65,34>>                              \* a/b;x="\"A"
ASSUME /\ ~MediatypeOK(W_K6a, OldAsIs(W_K6a)) /\ MediatypeOK(W_K6a, AsIs(W_K6a)) /\ Known(W_K6a)
       /\ ~MediatypeOK(W_K6b, OldAsIs(W_K6b)) /\ MediatypeOK(W_K6b, AsIs(W_K6b)) /\ Known(W_K6b)
=============================================================================
