----------------------------- MODULE SvgPathPrint -----------------------------
(* C05 - byte-level PREDICTION of the shortener's output (design level, used for the DRIFT
   comparison only: a difference between Predict(input) and the bytes the real code wrote means
   that this model no longer describes the code - information for maintaining the specification,
   never a verdict and never an exit status).

   Scope: path data whose numbers have at most 4 decimals (any spelling), interpreted exactly at the
   scale K of the most precise one; there the two candidate spellings of a number - the shortened
   input lexeme and the shortened float of the other-case twin - are both the canonical spelling
   NumDec of minify.Number (integer with 0 / 00 / exponent, plain decimal, or digits with a negative
   exponent; the input-form dependent "normalised" case of Number needs values below 10^-4 and is
   out of scope), float noise is rounded away by the 15-digit precision of the twin, and the choice
   between the absolute and the relative twin is a comparison of byte counts.

   Transcribed from svg/pathdata.go: ShortenPathData (a repeated command letter continues the
   command, except M), copyInstruction (decisions: SvgPathDecide!Copy), shortenCurPosInstruction /
   shortenAltPosInstruction (command letter elision, also L after M), copyNumber (blank, ".0" after
   a non-integer spelling, trailing 00 -> e2) and copyFlag.                                *)
EXTENDS SvgPathDecide

\* decimal digits of a natural number, as byte codes
RECURSIVE DigitsAcc(_, _)
DigitsAcc(n, acc) == IF n < 10 THEN <<48 + n>> \o acc ELSE DigitsAcc(n \div 10, <<48 + (n % 10)>> \o acc)
DigitBytes(n) == DigitsAcc(n, <<>>)

(* minify.Number (precision 0 / 15) on the value v / 10^K, then copyNumber's 00 -> e2.
   D = significant digits, n = their number, normExp: value = 0.D * 10^normExp.              *)
Pow10(k) == CASE k = 0 -> 1 [] k = 1 -> 10 [] k = 2 -> 100 [] k = 3 -> 1000 [] OTHER -> 10000
LenNat(i) == Len(DigitBytes(IF i < 0 THEN 0 - i ELSE i))
NumDec(v, K) ==
  IF v = 0 THEN <<48>>
  ELSE LET a == IF v < 0 THEN 0 - v ELSE v
           ds == DigitBytes(a)
           L == Len(ds)
           tz == TrailZ([i \in 1..L |-> ds[i] - 48])
           D == SubSeq(ds, 1, L - tz)
           n == L - tz
           normExp == L - K
           intExp == normExp - n
           body ==
             IF n <= normExp                                            \* case 1: integer
             THEN (IF intExp >= 2 THEN D \o <<101>> \o DigitBytes(intExp)   \* 3+: Number, 2: copyNumber
                   ELSE IF intExp = 1 THEN D \o <<48>> ELSE D)
             ELSE IF 0 - LenNat(intExp) - 1 <= normExp                   \* case 3: plain decimal
             THEN (IF normExp <= 0 THEN <<46>> \o [i \in 1..(0 - normExp) |-> 48] \o D
                   ELSE SubSeq(D, 1, normExp) \o <<46>> \o SubSeq(D, normExp + 1, n))
             ELSE D \o <<101, 45>> \o DigitBytes(0 - intExp)             \* case 4: negative exponent
       IN (IF v < 0 THEN <<45>> ELSE <<>>) \o body
NotInt(coord) == \E i \in 1..Len(coord) : coord[i] \in {101, 46}

\* printer state (PathDataState) and output buffer
P0 == [cmd |-> 0, pd |-> FALSE, pi |-> FALSE, pf |-> FALSE]
PutNumber(acc, v, K) ==
  LET coord == NumDec(v, K)
      ps == acc.ps
      digit == coord[1] >= 48 /\ coord[1] <= 57
      blank == ps.pd /\ (digit \/ (coord[1] = 46 /\ ps.pi))
  IN IF ps.pd /\ digit /\ coord[1] = 48 /\ ~ps.pi
     THEN [acc EXCEPT !.buf = @ \o <<46, 48>>]                       \* ".0": state unchanged
     ELSE [buf |-> acc.buf \o (IF blank THEN <<32>> ELSE <<>>) \o coord,
           ps |-> [ps EXCEPT !.pd = TRUE, !.pi = ~NotInt(coord), !.pf = FALSE]]
PutFlag(acc, f) ==
  [buf |-> acc.buf \o (IF acc.ps.pf THEN <<>> ELSE <<32>>) \o <<48 + f>>,
   ps |-> [acc.ps EXCEPT !.pf = TRUE, !.pd = FALSE, !.pi = FALSE]]
PutHeader(ps, cmd) ==
  IF cmd # ps.cmd /\ ~((ps.cmd = 77 /\ cmd = 76) \/ (ps.cmd = 109 /\ cmd = 108))
  THEN [buf |-> <<cmd>>, ps |-> [ps EXCEPT !.cmd = cmd, !.pd = FALSE, !.pi = FALSE]]
  ELSE [buf |-> <<>>, ps |-> ps]
\* one candidate: command letter (if not elided) and its numbers
Render(ps, o, K) ==
  LET arc == IsArc(o.c) IN
  FoldLeft(LAMBDA acc, j : IF arc /\ j \in {4, 5} THEN PutFlag(acc, o.a[j]) ELSE PutNumber(acc, o.a[j], K),
           PutHeader(ps, o.c), [j \in 1..Len(o.a) |-> j])

(* ShortenPathData: consecutive commands with the same letter are one command (except M / m) *)
Merge(cmds) ==
  FoldLeft(LAMBDA acc, cm :
             IF acc # <<>> /\ acc[Len(acc)].c = cm.c /\ cm.c \notin {77, 109}
             THEN [acc EXCEPT ![Len(acc)].a = @ \o cm.a]
             ELSE Append(acc, cm),
           <<>>, cmds)


\* one command: all its coordinate sets
PredictCmd(st, cm, nxt, K) ==
  LET ar == Arity(cm.c) IN
  IF ar = 0
  THEN [st EXCEPT !.d = CopyZ(st.d).p, !.buf = @ \o <<122>>,
                  !.ps = IF FixZ THEN [P0 EXCEPT !.cmd = 122] ELSE @]
  ELSE LET groups == Len(cm.a) \div ar
           st0 == IF cm.c \in {77, 109} THEN [st EXCEPT !.ps.cmd = 0] ELSE st    \* "reprint M always"
       IN FoldLeft(LAMBDA s, i :
             LET c == GroupLetter(cm.c, i)
                 v == [j \in 1..ar |-> ArgVal(cm.c, j, cm.a[(i - 1) * ar + j], K)]
                 multi == groups > 1
                 lastg == i = groups
                 r0 == Copy(s.d, c, v, multi, lastg, nxt, FALSE)
                 r1 == Copy(s.d, c, v, multi, lastg, nxt, TRUE)
             IN IF r0.out.c = 0 THEN [s EXCEPT !.d = r0.p]                         \* dropped
                ELSE LET cur == Render(s.ps, r0.out, K)  alt == Render(s.ps, r1.out, K)
                         pick == IF Len(alt.buf) < Len(cur.buf) THEN alt ELSE cur
                     IN [d |-> r0.p, ps |-> pick.ps, buf |-> s.buf \o pick.buf],
           st0, [i \in 1..groups |-> i])

Predict(cmds0) ==
  LET cmds == Merge(cmds0)
      K == Scale(cmds0)
      n == Len(cmds)
  IN FoldLeft(LAMBDA st, i : PredictCmd(st, cmds[i], IF i < n THEN Class(IF IsRel(cmds[i + 1].c) THEN cmds[i + 1].c - 32 ELSE cmds[i + 1].c) ELSE "O", K),
              [d |-> D0, ps |-> P0, buf |-> <<>>], [i \in 1..n |-> i]).buf

(* The comparison applies to valid, non-empty path data with at most 4 decimals that fits 32-bit arithmetic
   and whose numbers are exact in binary floating point (integers, multiples of 1/2) or +-0.0005 (the compact
   family of the generator): the shortener computes with float64, and with other decimals its equality tests
   and cancellations see float noise (0.1 + 0.2 # 0.3) that this exact model does not have. *)
FloatSafe(w, K) == K = 0 \/ (2 * w) % Pow10(K) = 0 \/ (K = 4 /\ (w = 5 \/ w = -5))
Predictable(in) ==
  LET p == PathParse(in) IN
  /\ p.ok /\ p.cmds # <<>> /\ Scale(p.cmds) <= 4
  /\ ~Interp(p.cmds, Scale(p.cmds)).st.bad
  /\ \A i \in 1..Len(p.cmds) : \A j \in 1..Len(p.cmds[i].a) :
        LET w == Fix(p.cmds[i].a[j], Scale(p.cmds)) IN
        w > -100000000 /\ w < 100000000 /\ FloatSafe(w, Scale(p.cmds))
NoDrift(in, out) == ~Predictable(in) \/ Predict(PathParse(in).cmds) = out
=============================================================================
