----------------------------- MODULE SvgPathPrint -----------------------------
(* C05 - byte-level PREDICTION of the shortener's output (design level, used for the DRIFT
   comparison only: a difference between Predict(input) and the bytes the real code wrote means
   that this model no longer describes the code - information for maintaining the specification,
   never a verdict and never an exit status).

   Scope: path data whose numbers are all integers (any spelling); there the two candidate
   spellings of a number - the shortened input lexeme and the shortened float of the other-case
   twin - are both the canonical integer spelling NumInt, float arithmetic is exact, and the choice
   between the absolute and the relative twin is a comparison of byte counts.

   Transcribed from svg/pathdata.go: ShortenPathData (a repeated command letter continues the
   command, except M), copyInstruction (decisions: SvgPathDecide!Copy), shortenCurPosInstruction /
   shortenAltPosInstruction (command letter elision, also L after M), copyNumber (blank, ".0" after
   a non-integer spelling, trailing 00 -> e2) and copyFlag.                                *)
EXTENDS SvgPathDecide

\* decimal digits of a natural number, as byte codes
RECURSIVE DigitsAcc(_, _)
DigitsAcc(n, acc) == IF n < 10 THEN <<48 + n>> \o acc ELSE DigitsAcc(n \div 10, <<48 + (n % 10)>> \o acc)
DigitBytes(n) == DigitsAcc(n, <<>>)

(* minify.Number on an integer, then copyNumber's 00 -> e2: m, m0, me2, me3 ... *)
NumInt(v) ==
  IF v = 0 THEN <<48>>
  ELSE LET a == IF v < 0 THEN 0 - v ELSE v
           ds == DigitBytes(a)
           z == TrailZ([i \in 1..Len(ds) |-> ds[i] - 48])
           body == IF z >= 2 THEN SubSeq(ds, 1, Len(ds) - z) \o <<101>> \o DigitBytes(z) ELSE ds
       IN (IF v < 0 THEN <<45>> ELSE <<>>) \o body
HasE(coord) == \E i \in 1..Len(coord) : coord[i] = 101

\* printer state (PathDataState) and output buffer
P0 == [cmd |-> 0, pd |-> FALSE, pi |-> FALSE, pf |-> FALSE]
PutNumber(acc, v) ==
  LET coord == NumInt(v)
      ps == acc.ps
      digit == coord[1] >= 48 /\ coord[1] <= 57
  IN IF ps.pd /\ digit /\ coord[1] = 48 /\ ~ps.pi
     THEN [acc EXCEPT !.buf = @ \o <<46, 48>>]                       \* ".0": state unchanged
     ELSE [buf |-> acc.buf \o (IF ps.pd /\ digit THEN <<32>> ELSE <<>>) \o coord,
           ps |-> [ps EXCEPT !.pd = TRUE, !.pi = ~HasE(coord), !.pf = FALSE]]
PutFlag(acc, f) ==
  [buf |-> acc.buf \o (IF acc.ps.pf THEN <<>> ELSE <<32>>) \o <<48 + f>>,
   ps |-> [acc.ps EXCEPT !.pf = TRUE, !.pd = FALSE, !.pi = FALSE]]
PutHeader(ps, cmd) ==
  IF cmd # ps.cmd /\ ~((ps.cmd = 77 /\ cmd = 76) \/ (ps.cmd = 109 /\ cmd = 108))
  THEN [buf |-> <<cmd>>, ps |-> [ps EXCEPT !.cmd = cmd, !.pd = FALSE, !.pi = FALSE]]
  ELSE [buf |-> <<>>, ps |-> ps]
\* one candidate: command letter (if not elided) and its numbers
Render(ps, o) ==
  LET arc == IsArc(o.c) IN
  FoldLeft(LAMBDA acc, j : IF arc /\ j \in {4, 5} THEN PutFlag(acc, o.a[j]) ELSE PutNumber(acc, o.a[j]),
           PutHeader(ps, o.c), [j \in 1..Len(o.a) |-> j])

(* ShortenPathData: consecutive commands with the same letter are one command (except M / m) *)
Merge(cmds) ==
  FoldLeft(LAMBDA acc, cm :
             IF acc # <<>> /\ acc[Len(acc)].c = cm.c /\ cm.c \notin {77, 109}
             THEN [acc EXCEPT ![Len(acc)].a = @ \o cm.a]
             ELSE Append(acc, cm),
           <<>>, cmds)

IntArg(c, j, lx) == ArgVal(c, j, lx, 0)

\* one command: all its coordinate sets
PredictCmd(st, cm, nxt) ==
  LET ar == Arity(cm.c) IN
  IF ar = 0
  THEN [st EXCEPT !.d = CopyZ(st.d).p, !.buf = @ \o <<122>>,
                  !.ps = IF FixZ THEN [P0 EXCEPT !.cmd = 122] ELSE @]
  ELSE LET groups == Len(cm.a) \div ar
           st0 == IF cm.c \in {77, 109} THEN [st EXCEPT !.ps.cmd = 0] ELSE st    \* "reprint M always"
       IN FoldLeft(LAMBDA s, i :
             LET c == GroupLetter(cm.c, i)
                 v == [j \in 1..ar |-> IntArg(cm.c, j, cm.a[(i - 1) * ar + j])]
                 multi == groups > 1
                 lastg == i = groups
                 r0 == Copy(s.d, c, v, multi, lastg, nxt, FALSE)
                 r1 == Copy(s.d, c, v, multi, lastg, nxt, TRUE)
             IN IF r0.out.c = 0 THEN [s EXCEPT !.d = r0.p]                         \* dropped
                ELSE LET cur == Render(s.ps, r0.out)  alt == Render(s.ps, r1.out)
                         pick == IF Len(alt.buf) < Len(cur.buf) THEN alt ELSE cur
                     IN [d |-> r0.p, ps |-> pick.ps, buf |-> s.buf \o pick.buf],
           st0, [i \in 1..groups |-> i])

Predict(cmds0) ==
  LET cmds == Merge(cmds0)
      n == Len(cmds)
  IN FoldLeft(LAMBDA st, i : PredictCmd(st, cmds[i], IF i < n THEN Class(IF IsRel(cmds[i + 1].c) THEN cmds[i + 1].c - 32 ELSE cmds[i + 1].c) ELSE "O"),
              [d |-> D0, ps |-> P0, buf |-> <<>>], [i \in 1..n |-> i]).buf

\* the comparison applies to: valid, non-empty path data, integers only, small enough for 32-bit arithmetic
Predictable(in) ==
  LET p == PathParse(in) IN
  /\ p.ok /\ p.cmds # <<>> /\ Scale(p.cmds) = 0
  /\ ~Interp(p.cmds, 0).st.bad
  /\ \A i \in 1..Len(p.cmds) : \A j \in 1..Len(p.cmds[i].a) :
        LET w == Fix(p.cmds[i].a[j], 0) IN w > -100000000 /\ w < 100000000
NoDrift(in, out) == ~Predictable(in) \/ Predict(PathParse(in).cmds) = out
=============================================================================
