SPECIFICATION Spec
CONSTANTS
 Input <- In2
 MaxOut = 2
 PieceLen = 2
 MaxBuf = 3
 Modes <- ModesC14
 PatchCL = TRUE
 Mut = "none"
 RecordHist = FALSE
 Monitor = FALSE
 FullProduct = FALSE
VIEW View
INVARIANTS FaultSurfaces NoSilentTruncation CloseWaits NotExistSurfaces NoPartialInput
PROPERTIES NoWriteAfterClose CloseReturned
