----------------------------- MODULE EmbedOps -----------------------------
(* C11: the state-free part of the embedded-resource specification, shared by the design model
   (Embed.tla) and the trace specification (C11Trace.tla): slot kinds, the table of documented
   default media types, and the behaviour of the recording stub (test fixture). *)
EXTENDS Registry

bJs      == <<97,112,112,108,105,99,97,116,105,111,110,47,106,97,118,97,115,99,114,105,112,116>>   \* application/javascript
bTextJs  == <<116,101,120,116,47,106,97,118,97,115,99,114,105,112,116>>                            \* text/javascript
bHtml    == <<116,101,120,116,47,104,116,109,108>>                                                 \* text/html
bMathml  == <<97,112,112,108,105,99,97,116,105,111,110,47,109,97,116,104,109,108,43,120,109,108>>  \* application/mathml+xml
bModule  == <<109,111,100,117,108,101>>                                                            \* module
bLdJson  == <<97,112,112,108,105,99,97,116,105,111,110,47,108,100,43,106,115,111,110>>             \* application/ld+json
bTemplate == <<116,101,120,116,47,116,101,109,112,108,97,116,101>>                                 \* text/template
bJsCharset == bTextJs \o <<SEMI, SP>> \o bCharset \o <<EQ>> \o bUtf8                               \* text/javascript; charset=UTF-8
bSvgCharset == bSvg \o <<SEMI>> \o bCharset \o <<EQ>> \o bUtf8                                          \* image/svg+xml;charset=UTF-8
bScss    == <<116,101,120,116,47,120,45,115,99,115,115>>                                           \* text/x-scss
InlineParams == << <<bInline, b1>> >>
NoParams == <<>>

Lower(c) == IF c >= 65 /\ c <= 90 THEN c + 32 ELSE c
\* minify.Mediatype, as documented: "removing all whitespace and lowercasing all parts except strings"
\* (quoted strings keep their bytes; a backslash inside a string escapes the next byte)
NormStep(s, c) ==
  IF s.str THEN
       IF s.esc THEN [s EXCEPT !.esc = FALSE, !.out = Append(s.out, c)]
       ELSE IF c = 92 THEN [s EXCEPT !.esc = TRUE, !.out = Append(s.out, c)]
       ELSE IF c = 34 THEN [s EXCEPT !.str = FALSE, !.out = Append(s.out, c)]
       ELSE [s EXCEPT !.out = Append(s.out, c)]
  ELSE IF c \in {32, 9, 10, 12, 13} THEN s
  ELSE IF c = 34 THEN [s EXCEPT !.str = TRUE, !.out = Append(s.out, c)]
  ELSE [s EXCEPT !.out = Append(s.out, Lower(c))]
NormMediatype(b) == FoldLeft(NormStep, [str |-> FALSE, esc |-> FALSE, out |-> <<>>], b).out

ElementKinds == {"script", "style", "iframe"}
HtmlKinds == ElementKinds \cup {"svg", "math", "styleAttr", "onAttr", "dataUriAttr"}
SvgKinds == {"svgStyleText", "svgStyleCdata", "svgStyleAttr"}
CssKinds == {"cssDataUri"}
DataUriKinds == {"dataUriAttr", "cssDataUri"}

(* The documented defaults: script -> application/javascript (README KeepDefaultAttrVals),
   style -> text/css, iframe -> text/html, svg -> image/svg+xml inline, math ->
   application/mathml+xml, style= -> text/css inline, on*= -> application/javascript inline,
   data: URI -> its own media type (text/plain when absent, RFC 2397), SVG style element/
   attribute -> text/css.  A type attribute is split into mimetype and parameters. *)
ExpectedType(kind, hasType, type, mt) ==
  \* (HTML media types are case-insensitive: the type attribute is taken in its normalised form, which is also the
  \*  form in which the attribute is emitted; for the parameters see AltParams)
  CASE kind = "script"  -> IF hasType /\ type # <<>> THEN Split(NormMediatype(type)) ELSE [mime |-> bJs, params |-> NoParams]
    [] kind = "style"   -> IF hasType /\ type # <<>> THEN Split(NormMediatype(type)) ELSE [mime |-> bTextCss, params |-> NoParams]
    [] kind = "iframe"  -> [mime |-> bHtml, params |-> NoParams]
    [] kind = "svg"     -> [mime |-> bSvg, params |-> InlineParams]
    [] kind = "math"    -> [mime |-> bMathml, params |-> NoParams]
    [] kind = "styleAttr" -> [mime |-> bTextCss, params |-> InlineParams]
    [] kind = "onAttr"  -> [mime |-> bJs, params |-> InlineParams]
    [] kind \in DataUriKinds -> IF mt = <<>> THEN [mime |-> bTextPlain, params |-> NoParams] ELSE Split(mt)
    [] kind \in {"svgStyleText", "svgStyleCdata"} ->
         IF hasType /\ type # <<>> THEN Split(type) ELSE [mime |-> bTextCss, params |-> NoParams]
    [] kind = "svgStyleAttr" -> [mime |-> bTextCss, params |-> InlineParams]

\* The property fixes which minifier is chosen from the type attribute, not the letter case in which parameter
\* values reach it: the parameters of the attribute text as written are accepted as well as those of its normalised form
AltParams(kind, hasType, type) ==
  IF kind \in {"script", "style"} /\ hasType /\ type # <<>> THEN Split(type).params
  ELSE <<>>
HasAlt(kind, hasType, type) == kind \in {"script", "style"} /\ hasType /\ type # <<>>

\* test fixture shared with the driver: "S<sid>:" followed by the payload without blanks and newlines
StubOut(sid, payload) == <<83, 48 + sid, 58>> \o SelectSeq(payload, LAMBDA c : c # 32 /\ c # 10)

=============================================================================
