SPECIFICATION Spec
CONSTANTS MaxLen = 5
Alphabet <- Alpha5
INVARIANTS DfaAgrees MeaningTotal DecimalSubset
CHECK_DEADLOCK FALSE
