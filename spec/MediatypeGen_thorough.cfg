SPECIFICATION Spec
CONSTANTS MaxLen = 7
Alphabet <- Alpha8
INVARIANTS NormalFormSafe NormalFormFixed IdentitySafe InsideProtected
CHECK_DEADLOCK FALSE
