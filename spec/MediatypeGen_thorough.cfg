SPECIFICATION Spec
CONSTANTS MaxLen = 7
Alphabet <- Alpha8
INVARIANTS NormalFormSafe NormalFormFixed IdentitySafe InsideProtected AsIsOK AsIsIdem OldIndexSafe OldWrongOnlyOnKnown
CHECK_DEADLOCK FALSE
