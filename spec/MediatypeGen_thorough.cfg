SPECIFICATION Spec
CONSTANTS MaxLen = 7
Alphabet <- Alpha8
INVARIANTS NormalFormSafe NormalFormFixed IdentitySafe InsideProtected AsIsIndexSafe AsIsOKOutsideKnown FixedOK FixedIdem
CHECK_DEADLOCK FALSE
