SPECIFICATION Spec
CONSTANTS MaxTok = 3
INVARIANTS DesignOK DesignIdem DesignShrinkOK AsIsOKOutsideKnown
CHECK_DEADLOCK FALSE
