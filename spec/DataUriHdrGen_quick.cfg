SPECIFICATION Spec
CONSTANTS MaxTok = 3
INVARIANTS DesignOK DesignIdem DesignShrinkOK
CHECK_DEADLOCK FALSE
