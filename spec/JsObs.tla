----------------------------- MODULE JsObs -----------------------------
(* C01, engine recorder: trace validation of observational equivalence.

   One line of the trace = one program pair (input text, text produced by the real
   js.Minifier) executed by an independent engine (V8, fresh vm context) under one seeded
   environment; both observations are recorded by js/c01_run.js as sequences of atoms:
     a, b : [calls   : sequence of host interactions, each a sequence of atoms
                       <<kind, host path, serialised argument, ...>>,
             globals : sequence of <<name, serialised final value>> sorted by name,
             comp    : <<"normal"|"throw"|"timeout", error class, serialised thrown value, epilogue>>]
   a = observation of the input, b = observation of the minified text.
   Function source text, .name/.length of functions, regular expression source text and the
   wording of engine error messages are never part of the serialisation: that is how the
   reflection the property excludes is kept out of the relation. *)
EXTENDS TraceIO
VARIABLE l
Init == l = 1
Next == l <= N /\ l' = l + 1
Spec == Init /\ [][Next]_l

Min(x, y) == IF x < y THEN x ELSE y
\* "the same sequence of calls into host functions with structurally equal arguments"
SameCalls(a, b) ==
  /\ Len(a.calls) = Len(b.calls)
  /\ \A i \in 1..Min(Len(a.calls), Len(b.calls)) : a.calls[i] = b.calls[i]
\* "the same final values of global variables": same names, and the same value under each name
GlobalMap(o) == {<<o.globals[i][1], o.globals[i][2]>> : i \in 1..Len(o.globals)}
SameGlobals(a, b) == GlobalMap(a) = GlobalMap(b) /\ Len(a.globals) = Len(b.globals)
\* "the same completion (normal, or the same thrown value / error class)"
SameCompletion(a, b) ==
  /\ a.comp[1] = b.comp[1]
  /\ a.comp[1] = "throw" => (a.comp[2] = b.comp[2] /\ a.comp[3] = b.comp[3])
  /\ a.comp[4] = b.comp[4]

ObsEq(a, b) == SameCalls(a, b) /\ SameGlobals(a, b) /\ SameCompletion(a, b)

LineOK(e) ==
  /\ SameCompletion(e.a, e.b) \/ Reject(l, "completion")
  /\ SameCalls(e.a, e.b) \/ Reject(l, "host call sequence")
  /\ SameGlobals(e.a, e.b) \/ Reject(l, "final globals")
Conforms == l <= N => LineOK(Trace[l])
=============================================================================
