SPECIFICATION Spec
CONSTANTS
  NG = 2
  MaxCalls = 1
  ShapeNames <- FailThenGood
  AllowReg = FALSE
  CopyOpts = TRUE
  TightCap = TRUE
  CopyArgs = TRUE
  HtmlDep = FALSE
  LazyInit = FALSE
  PoolBuf = TRUE
VIEW View
INVARIANT Deterministic
CHECK_DEADLOCK FALSE
