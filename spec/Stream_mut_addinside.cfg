SPECIFICATION Spec
CONSTANTS
 Input <- In0
 MaxOut = 2
 PieceLen = 2
 MaxBuf = 3
 Modes <- ModesWH
 PatchCL = TRUE
 Mut = "addinside"
 RecordHist = FALSE
 Monitor = TRUE
 FullProduct = TRUE
INVARIANTS ChunkingInvariance PassThrough CloseWaits ContentLengthGone SelectionRule FaultSurfaces NoSilentTruncation NotExistSurfaces NoPartialInput MonitorQuiet MonitorFinal
PROPERTIES NoWriteAfterClose CloseReturned
