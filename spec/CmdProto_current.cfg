SPECIFICATION Spec
CONSTANTS Shared = TRUE
MaxCalls = 3
Form <- FormInOut
INVARIANT EachCallOwnInput
CHECK_DEADLOCK FALSE
