----------------------------- MODULE C06Trace -----------------------------
(* Trace validation for C06.  One line = one call of the real xml.Minifier on a well-formed
   document (harness/cmd/c06):
     [keep, panic, err, outwf, ein, eout]
   ein/eout = events of input and output as read by encoding/xml (Strict) and the raw start-tag
   scanner of the harness (see XmlInfoset for the event format).  Lines whose input the reader
   does not accept are outside the quantification ("all well-formed XML 1.0 documents") and
   are not put into the trace. *)
EXTENDS XmlInfoset, TraceIO
VARIABLE l
Init == l = 1
Next == l <= N /\ l' = l + 1
Spec == Init /\ [][Next]_l

LineOK(e) ==
  /\ (~e.panic \/ Reject(l, "panic"))
  /\ (e.panic \/ e.err = "" \/ Reject(l, "error returned for a well-formed document"))
  \* "The minified document is well-formed"
  /\ (e.panic \/ e.outwf \/ Reject(l, "output not well-formed"))
  /\ (e.panic \/ ~e.outwf) \/
     LET rc == RunClauses(e.ein, e.eout, e.keep) IN
     /\ (StructEq(e.ein, e.eout) \/ Reject(l, "elements/attributes/PIs/DOCTYPE differ"))
     /\ (CommentsOK(e.ein, e.eout) \/ Reject(l, "comment not present in the input"))
     /\ (rc.match \/ Reject(l, "character data differs beyond whitespace collapsing, or CDATA characters changed"))
     /\ (rc.words \/ Reject(l, "words joined, split or dropped"))
     /\ (rc.keep \/ Reject(l, "KeepWhitespace: space next to a tag removed entirely"))
Conforms == l <= N => LineOK(Trace[l])
=============================================================================
