----------------------------- MODULE TableText -----------------------------
(* Byte-sequence / code-point operators used by the C17 table audit (TableAudit) and
   self-tested by TablesMC: character-reference syntax (HTML 13.2.5.72-80, XML 1.0 4.1),
   UTF-8 (RFC 3629), CSS hex colours (CSS Color 4, 5.2).  All text is a sequence of byte
   codes (or of code points); TLA+ strings are never looked into.
   Every recursive operator carries an accumulator and mentions its recursive call once. *)
EXTENDS Integers, Sequences, SequencesExt, Tables

IsDigit(c) == c \in 48..57
IsHexDigit(c) == c \in 48..57 \/ c \in 97..102 \/ c \in 65..70
IsAlpha(c) == c \in 97..122 \/ c \in 65..90
IsAlnum(c) == IsDigit(c) \/ IsAlpha(c)
IsWs(c) == c \in {9, 10, 12, 13, 32}         \* HTML / CSS ASCII whitespace
HexVal(c) == IF c \in 48..57 THEN c - 48 ELSE IF c \in 97..102 THEN c - 87 ELSE c - 55
AllOf(s, P(_)) == \A i \in 1..Len(s) : P(s[i])
Lower(c) == IF c \in 65..90 THEN c + 32 ELSE c

MaxCP == 1114111                                \* U+10FFFF
(* value of a digit string, saturating just above U+10FFFF so that 32-bit Ints never overflow *)
DecValue(ds) == FoldLeft(LAMBDA acc, d : IF acc > MaxCP THEN acc ELSE acc * 10 + (d - 48), 0, ds)
HexValue(ds) == FoldLeft(LAMBDA acc, d : IF acc > MaxCP THEN acc ELSE acc * 16 + HexVal(d), 0, ds)

(* HTML 13.2.5.80 numeric character reference end state *)
HtmlNumericCP(v) ==
  IF v = 0 \/ v > MaxCP \/ v \in 55296..57343 THEN 65533
  ELSE IF v \in DOMAIN NumericRefC1 THEN NumericRefC1[v]
  ELSE v
(* XML 1.0 4.1: the referenced character itself; it must match the Char production *)
XmlCharOK(v) == v \in {9, 10, 13} \/ v \in 32..55295 \/ v \in 57344..65533 \/ v \in 65536..MaxCP

(* reference syntax of a whole byte sequence r *)
IsDecRef(r) == Len(r) >= 4 /\ r[1] = 38 /\ r[2] = 35 /\ r[Len(r)] = 59 /\ AllOf(SubSeq(r, 3, Len(r) - 1), IsDigit)
IsHexRef(r) == Len(r) >= 5 /\ r[1] = 38 /\ r[2] = 35 /\ r[3] \in {120, 88} /\ r[Len(r)] = 59
               /\ AllOf(SubSeq(r, 4, Len(r) - 1), IsHexDigit)
IsNamedRef(r) == Len(r) >= 3 /\ r[1] = 38 /\ r[Len(r)] = 59 /\ AllOf(SubSeq(r, 2, Len(r) - 1), IsAlnum)
(* starts like a reference but is not terminated by ';' (HTML 13.2.5.73: in an attribute value
   such a named reference is NOT decoded when followed by '=' or an alphanumeric; a numeric one
   swallows following digits) *)
IsUnterminatedRef(r) == Len(r) >= 2 /\ r[1] = 38 /\ (r[2] = 35 \/ IsAlnum(r[2])) /\ r[Len(r)] # 59
HasAmp(r) == \E i \in 1..Len(r) : r[i] = 38

(* UTF-8 decoding (RFC 3629: shortest form only, no surrogates, <= U+10FFFF); an ill-formed
   sequence yields a trailing -1 *)
Cont(c) == c \in 128..191
RECURSIVE U8Dec(_, _, _)
U8Dec(b, i, acc) ==
  IF i > Len(b) THEN acc
  ELSE IF b[i] < 128 THEN U8Dec(b, i + 1, Append(acc, b[i]))
  ELSE IF b[i] \in 194..223 /\ i + 1 <= Len(b) /\ Cont(b[i+1])
    THEN U8Dec(b, i + 2, Append(acc, (b[i] - 192) * 64 + (b[i+1] - 128)))
  ELSE IF b[i] \in 224..239 /\ i + 2 <= Len(b) /\ Cont(b[i+1]) /\ Cont(b[i+2])
          /\ (b[i] # 224 \/ b[i+1] >= 160) /\ (b[i] # 237 \/ b[i+1] < 160)
    THEN U8Dec(b, i + 3, Append(acc, (b[i] - 224) * 4096 + (b[i+1] - 128) * 64 + (b[i+2] - 128)))
  ELSE IF b[i] \in 240..244 /\ i + 3 <= Len(b) /\ Cont(b[i+1]) /\ Cont(b[i+2]) /\ Cont(b[i+3])
          /\ (b[i] # 240 \/ b[i+1] >= 144) /\ (b[i] # 244 \/ b[i+1] < 144)
    THEN U8Dec(b, i + 4, Append(acc, (b[i] - 240) * 262144 + (b[i+1] - 128) * 4096 + (b[i+2] - 128) * 64 + (b[i+3] - 128)))
  ELSE Append(acc, -1)
U8Decode(b) == U8Dec(b, 1, <<>>)

(* UTF-8 encoding and digit strings: only used by the self-test in TablesMC *)
U8Encode(cp) ==
  IF cp < 128 THEN <<cp>>
  ELSE IF cp < 2048 THEN <<192 + (cp \div 64), 128 + (cp % 64)>>
  ELSE IF cp < 65536 THEN <<224 + (cp \div 4096), 128 + ((cp \div 64) % 64), 128 + (cp % 64)>>
  ELSE <<240 + (cp \div 262144), 128 + ((cp \div 4096) % 64), 128 + ((cp \div 64) % 64), 128 + (cp % 64)>>
DigitChar(d) == IF d < 10 THEN 48 + d ELSE 87 + d
RECURSIVE DigitsOf(_, _, _)
DigitsOf(n, base, acc) ==
  IF n < base THEN <<DigitChar(n)>> \o acc
  ELSE DigitsOf(n \div base, base, <<DigitChar(n % base)>> \o acc)

(* strip leading / trailing whitespace *)
RECURSIVE FirstNonWs(_, _)
FirstNonWs(s, i) == IF i > Len(s) \/ ~IsWs(s[i]) THEN i ELSE FirstNonWs(s, i + 1)
RECURSIVE LastNonWs(_, _)
LastNonWs(s, i) == IF i < 1 \/ ~IsWs(s[i]) THEN i ELSE LastNonWs(s, i - 1)
TrimWs(s) == SubSeq(s, FirstNonWs(s, 1), LastNonWs(s, Len(s)))

(* CSS Color 4, 5.2 "The RGB hexadecimal notations": #rgb, #rgba, #rrggbb, #rrggbbaa -> <<r,g,b,a>> *)
NoColour == <<-1, -1, -1, -1>>
HexRGBA(b) ==
  IF Len(b) \in {4, 5, 7, 9} /\ b[1] = 35 /\ AllOf(Tail(b), IsHexDigit) THEN
    IF Len(b) = 4 THEN <<17 * HexVal(b[2]), 17 * HexVal(b[3]), 17 * HexVal(b[4]), 255>>
    ELSE IF Len(b) = 5 THEN <<17 * HexVal(b[2]), 17 * HexVal(b[3]), 17 * HexVal(b[4]), 17 * HexVal(b[5])>>
    ELSE IF Len(b) = 7 THEN <<16 * HexVal(b[2]) + HexVal(b[3]), 16 * HexVal(b[4]) + HexVal(b[5]), 16 * HexVal(b[6]) + HexVal(b[7]), 255>>
    ELSE <<16 * HexVal(b[2]) + HexVal(b[3]), 16 * HexVal(b[4]) + HexVal(b[5]), 16 * HexVal(b[6]) + HexVal(b[7]), 16 * HexVal(b[8]) + HexVal(b[9])>>
  ELSE NoColour
NamedRGBA(name) == IF name \in ColourNames THEN CssColours[name] \o <<255>> ELSE NoColour
=============================================================================
