SPECIFICATION Spec
CONSTANTS MaxLen = 3
Fault = "none"
INVARIANTS RefinesNamed Reflexive BranchesKnown BranchLog
CHECK_DEADLOCK FALSE
