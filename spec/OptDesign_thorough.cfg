SPECIFICATION Spec
CONSTANTS MaxLen = 3
BitSets <- BitsCover3
Fault = "none"
INVARIANTS RefinesNamed Reflexive BranchesKnown
CHECK_DEADLOCK FALSE
