SPECIFICATION SpecSim
CONSTANTS MaxTok = 48
ScalarIds <- AllScalars
KeyIds <- AllKeys
CHECK_DEADLOCK FALSE
