\* vacuity guard: the protocol before bdbfbd6 renames over a stale <name>.bak - OthersUntouched MUST be violated
SPECIFICATION Spec
CONSTANTS
  NWorkers = 1
  MaxChunks = 1
  FaultTasks = 0
  Protocol = "old"
  SetupIds = {"bak"}
INVARIANTS NeverLost ReadOnlyUntouched OthersUntouched
CHECK_DEADLOCK FALSE
