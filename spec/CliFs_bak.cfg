SPECIFICATION Spec
CONSTANTS
  NWorkers = 1
  MaxChunks = 1
  FaultTasks = 0
  SetupIds = {"bak"}
INVARIANTS NeverLost ReadOnlyUntouched OthersUntouched
CHECK_DEADLOCK FALSE
