SPECIFICATION Spec
CONSTANTS MaxLen = 4
Alphabet <- PAlpha5
Precs <- PrecsDesign
Fault = "none"
INVARIANTS Reflexive OutIsNumber Rounds ExactAtZero
CHECK_DEADLOCK FALSE
