----------------------------- MODULE XmlInfoset -----------------------------
(* Property C06: "XML minification preserves the infoset up to insignificant whitespace".

   A document is the sequence of events an XML processor reports for it:
     [k |-> "S", d, name, attrs, data]   start tag     attrs = << [n |-> name, v |-> value atoms] >>
     [k |-> "E", ...]                      end tag       (an empty-element tag is S followed by E)
     [k |-> "T", ...]                      character data, data = atoms
     [k |-> "P", ...]                      processing instruction, name = target, data = content
     [k |-> "D", ...]                      DOCTYPE declaration, data = its text
     [k |-> "C", ...]                      comment
   d is the number of open elements; names/data are sequences of byte codes.
   Text atoms: byte c of character data, c + 1000 when the byte stood in a CDATA section.
   Attribute value atoms: literal byte c, c + 1000 when produced by a character or entity
   reference (XML 1.0 3.3.3 treats the two differently).

   XmlEq(in, out, keepWs) is the relation of the property; each conjunct cites its sentence.
   Everything is written with folds/comprehensions (TLC evaluates them eagerly and linearly). *)
EXTENDS Integers, Sequences, FiniteSets, SequencesExt

IsWs(c) == c \in {9, 10, 13, 32}                     \* XML 1.0 production [3] S
Chr(a) == a % 1000
Chars(atoms) == [i \in 1..Len(atoms) |-> atoms[i] % 1000]
IsSoftWs(a) == a < 1000 /\ IsWs(a)                   \* whitespace of ordinary character data
Elems(s) == {s[i] : i \in 1..Len(s)}

(* The words of a text run, written as one sequence with a single 32 between consecutive
   words: equal results <=> equal word sequences (a word never contains 32). *)
Words(s) ==
  LET marked == [i \in 1..Len(s) |->
                   IF IsWs(s[i]) THEN (IF i > 1 /\ ~IsWs(s[i-1]) THEN 32 ELSE -1) ELSE s[i]]
      c1 == SelectSeq(marked, LAMBDA x : x # -1)
  IN IF Len(c1) > 0 /\ c1[Len(c1)] = 32 THEN SubSeq(c1, 1, Len(c1) - 1) ELSE c1

(* "per text run the same character data up to collapsing whitespace runs and trimming next to
   tags" + "CDATA sections converted to text keep exactly their characters":
   the output run o (characters) is the input run (atoms) in which every whitespace character of
   ordinary text was either dropped or kept as one whitespace character, every other character
   and EVERY character of a CDATA section (whitespace included) appears exactly, in order.
   Decided by running the obvious NFA: P = set of positions of o reachable so far. *)
RunMatch(atoms, o) ==
  LET m == Len(o)
      step(P, a) ==
        IF IsSoftWs(a) THEN P \cup {q + 1 : q \in {p \in P : p < m /\ IsWs(o[p+1])}}
        ELSE {q + 1 : q \in {p \in P : p < m /\ o[p+1] = Chr(a)}}
  IN m \in FoldLeft(step, {0}, atoms)

(* "with whitespace keeping enabled a space next to a tag is never removed entirely":
   tag = start tag, end tag or empty-element tag of an element.  r, o = the character data
   between two consecutive tags in input and output; comments and PIs in between do not count
   (README: "preserve whitespace between inline tags"; xml_test.go TestXMLKeepWhitespace expects
   `<x> <?xml?> </x>` -> `<x><?xml?> </x>`: one blank between the tags survives). *)
KeepOK(r, o) ==
  /\ (r.left /\ Len(r.atoms) > 0 /\ IsWs(Chr(r.atoms[1]))) => (Len(o) > 0 /\ IsWs(o[1]))
  /\ (r.right /\ Len(r.atoms) > 0 /\ IsWs(Chr(r.atoms[Len(r.atoms)]))) => (Len(o) > 0 /\ IsWs(o[Len(o)]))

IsMarkup(e) == e.k \in {"S", "E", "P", "D"}
IsTag(e) == e.k \in {"S", "E"}
(* Text runs: the character data between two consecutive markup events, comments removed
   ("comments are the only nodes removed") and adjacent pieces merged (CDATA included).
   There is exactly one (possibly empty) run before, between and after the markup events, so
   runs of input and output correspond by position.  Whitespace outside the root element is
   not part of the infoset and is left out.  left/right: the neighbour is an element tag. *)
RunsBetween(evs, Boundary(_)) ==
  FoldLeft(LAMBDA acc, e :
             IF e.k = "T" /\ e.d > 0 THEN [acc EXCEPT ![Len(acc)].atoms = @ \o e.data]
             ELSE IF Boundary(e)
                  THEN Append([acc EXCEPT ![Len(acc)].right = IsTag(e)],
                              [atoms |-> <<>>, left |-> IsTag(e), right |-> FALSE])
                  ELSE acc,
           << [atoms |-> <<>>, left |-> FALSE, right |-> FALSE] >>, evs)
Runs(evs) == RunsBetween(evs, IsMarkup)          \* text runs of the infoset
TagRuns(evs) == RunsBetween(evs, IsTag)          \* character data from tag to tag (KeepWhitespace clause)

(* XML 1.0 2.11 + 3.3.3: value of an attribute as the application sees it.  A literal CR LF
   pair is one line break; literal tab/LF/CR become a space; characters that come from
   references are appended as they are. *)
AttrNorm(v) ==
  LET n == Len(v)
      idx == SelectSeq([i \in 1..n |-> i], LAMBDA i : ~(v[i] = 13 /\ i < n /\ v[i+1] = 10))
  IN [j \in 1..Len(idx) |->
        LET a == v[idx[j]] IN IF a >= 1000 THEN a - 1000 ELSE IF IsWs(a) THEN 32 ELSE a]

(* Content of a PI / DOCTYPE "up to insignificant whitespace": quoted literals verbatim, '=',
   and maximal runs of other non-blank bytes; w = the token was separated by whitespace from
   the token before it (not recorded around '=', where pseudo-attribute syntax makes blanks
   meaningless).  Leading and trailing blanks are not recorded. *)
LexTokens(s) ==
  LET flush(st) == IF st.cur = <<>> THEN st
                   ELSE [st EXCEPT !.toks = Append(@, [t |-> st.cur, w |-> st.w]), !.cur = <<>>,
                                   !.ws = FALSE, !.eq = FALSE]
      begin(st) == IF st.cur = <<>> THEN [st EXCEPT !.w = st.ws /\ ~st.eq /\ st.toks # <<>>] ELSE st
      step(st, c) ==
        IF st.q # 0 THEN
             IF c = st.q THEN flush([st EXCEPT !.cur = Append(@, c), !.q = 0])
             ELSE [st EXCEPT !.cur = Append(@, c)]
        ELSE IF c = 34 \/ c = 39 THEN
             LET f == begin(flush(st)) IN [f EXCEPT !.cur = <<c>>, !.q = c]
        ELSE IF IsWs(c) THEN [flush(st) EXCEPT !.ws = TRUE]
        ELSE IF c = 61 THEN
             LET f == flush(st) IN [f EXCEPT !.toks = Append(@, [t |-> <<61>>, w |-> FALSE]),
                                             !.eq = TRUE, !.ws = FALSE]
        ELSE LET b == begin(st) IN [b EXCEPT !.cur = Append(@, c)]
  IN flush(FoldLeft(step, [q |-> 0, cur |-> <<>>, toks |-> <<>>, ws |-> FALSE, eq |-> FALSE, w |-> FALSE], s)).toks

(* What the infoset holds for a markup event.
   "same element tree and names, same attributes with the same normalized values, same
   processing instructions and DOCTYPE" *)
Key(e) ==
  CASE e.k = "S" -> [k |-> "S", name |-> e.name, n |-> Len(e.attrs),
                     a |-> {<<e.attrs[i].n, AttrNorm(e.attrs[i].v)>> : i \in 1..Len(e.attrs)}, t |-> <<>>]
    [] e.k = "E" -> [k |-> "E", name |-> e.name, n |-> 0, a |-> {}, t |-> <<>>]
    [] OTHER     -> [k |-> e.k, name |-> e.name, n |-> 0, a |-> {}, t |-> LexTokens(e.data)]
Keys(evs) == FoldLeft(LAMBDA acc, e : IF IsMarkup(e) THEN Append(acc, Key(e)) ELSE acc, <<>>, evs)

Comments(evs) == FoldLeft(LAMBDA acc, e : IF e.k = "C" THEN Append(acc, e.data) ELSE acc, <<>>, evs)
IsSubsequence(small, big) ==
  FoldLeft(LAMBDA p, x : IF p <= Len(small) /\ small[p] = x THEN p + 1 ELSE p, 1, big) = Len(small) + 1

---------------------------------------------------------------------------------------------
\* the clauses, separately named so that a rejected trace line says which sentence failed
StructEq(in, out) == Keys(in) = Keys(out)
CommentsOK(in, out) == IsSubsequence(Comments(out), Comments(in))     \* no node appears from nowhere
RunClauses(in, out, keepWs) ==
  LET ri == Runs(in)
      ro == Runs(out)
      ki == TagRuns(in)
      ko == TagRuns(out)
  IN IF Len(ri) # Len(ro) \/ Len(ki) # Len(ko) THEN [match |-> FALSE, words |-> FALSE, keep |-> ~keepWs]   \* runs do not correspond (StructEq fails too)
     ELSE [match |-> \A i \in 1..Len(ri) : RunMatch(ri[i].atoms, Chars(ro[i].atoms)),
           \* "words are never joined, split, or dropped"
           words |-> \A i \in 1..Len(ri) : Words(Chars(ri[i].atoms)) = Words(Chars(ro[i].atoms)),
           keep  |-> keepWs => \A i \in 1..Len(ki) : KeepOK(ki[i], Chars(ko[i].atoms))]

XmlEq(in, out, keepWs) ==
  LET rc == RunClauses(in, out, keepWs)
  IN StructEq(in, out) /\ CommentsOK(in, out) /\ rc.match /\ rc.words /\ rc.keep
=============================================================================
