SPECIFICATION Spec
CONSTANTS MaxN = 2
Coords <- C4
CtrlCoords <- C3
Radii <- R2
Rots <- C2
INVARIANTS Laws InRange
CHECK_DEADLOCK FALSE
