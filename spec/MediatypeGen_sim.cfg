SPECIFICATION SpecSim
CONSTANTS MaxLen = 48
Alphabet <- AlphaAll
INVARIANTS NormalFormSafe NormalFormFixed IdentitySafe AsIsOK OldIndexSafe OldWrongOnlyOnKnown
CHECK_DEADLOCK FALSE
