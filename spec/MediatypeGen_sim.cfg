SPECIFICATION SpecSim
CONSTANTS MaxLen = 48
Alphabet <- AlphaAll
INVARIANTS NormalFormSafe NormalFormFixed IdentitySafe AsIsIndexSafe AsIsOKOutsideKnown FixedOK
CHECK_DEADLOCK FALSE
