SPECIFICATION SpecSim
CONSTANTS MaxLen = 48
Alphabet <- AlphaAll
INVARIANTS NormalFormSafe NormalFormFixed IdentitySafe
CHECK_DEADLOCK FALSE
