SPECIFICATION Spec
CONSTANTS Shared = FALSE
MaxCalls = 3
Form <- FormIn
INVARIANT EachCallOwnInput
CHECK_DEADLOCK FALSE
