----------------------------- MODULE C08Trace -----------------------------
(* Trace validation for C08.  One line = one call of the real minify.Number /
   minify.Decimal on a fresh buffer:
     [fn, in, prec, out, panic, canary, inplace]
   in/out are byte sequences; canary = guard bytes on both sides of the slice intact;
   inplace = the result lies inside the slice that was passed in. *)
EXTENDS NumVal, TraceIO
VARIABLE l
Init == l = 1
Next == l <= N /\ l' = l + 1
Spec == Init /\ [][Next]_l

LineOK(e) ==
  /\ (~e.panic \/ Reject(l, "panic"))
  /\ (e.canary \/ Reject(l, "touched bytes outside the slice"))
  /\ e.panic \/
     IF e.fn = "Number" THEN NumberOK(e.in, e.prec, e.out) \/ Reject(l, "NumberOK")
     ELSE DecimalOK(e.in, e.prec, e.out) \/ Reject(l, "DecimalOK")
Conforms == l <= N => LineOK(Trace[l])
=============================================================================
