----------------------------- MODULE CssShorthand -----------------------------
(* Property-specific meaning of declaration values (property C04: "shorthands that expand to
   the same longhands (omitted components equal their initial values)", "equal unicode-range
   code-point sets").  Every meaning is a sequence of canonical tokens (CssValue.CT); a
   meaning that contains OOD says that the INPUT value is outside what these functions
   interpret (invalid for the property's grammar, var() inside a shorthand, ...): the relation
   then holds vacuously (stated limit; decided from the input alone, never on mismatch).

   Sources: CSS Backgrounds and Borders 3 (background, border, box-shadow families), CSS Box 3
   (margin, padding), CSS Fonts 3 (font, font-family, font-weight), CSS Flexbox 1 (flex family),
   CSS UI 3 (outline), CSS Multi-column 1 (column-rule), CSS Text Decoration 3
   (text-decoration, text-emphasis), CSS Fonts 3 section 4.5 (unicode-range). *)
EXTENDS CssValue

Kw(u) == Mk("kw", u, <<>>, <<>>)
IsKwIn(ct, S) == ct.c = "ident" /\ ct.u \in S
NoSep(cts) == \A i \in 1..Len(cts) : ~(IsComma(cts[i]) \/ IsSlashCT(cts[i]))
LenFuncs == {"calc", "min", "max", "clamp"}
OpaqueFuncs == {"var", "env", "attr"}
HasOpaque(cts) == \E i \in 1..Len(cts) : cts[i].c = "func" /\ cts[i].u \in OpaqueFuncs
IsLP(ct) == ct.c \in {"dim", "pct"} \/ (ct.c = "num" /\ ct.b = <<>>) \/ (ct.c = "func" /\ ct.u \in LenFuncs)
NumCT(neg, e, mant) == Mk("num", "", <<neg, e>> \o mant, <<>>)
One == NumCT(0, 0, <<1>>)
N400 == NumCT(0, 2, <<4>>)
N700 == NumCT(0, 2, <<7>>)
PctCT(e, mant) == Mk("pct", "", <<0, e>> \o mant, <<>>)
Pct50 == PctCT(1, <<5>>)
Pct100 == PctCT(2, <<1>>)

(* ---- margin / padding / border-width: 1 to 4 values -> top right bottom left ---- *)
TRBL(cts) ==
  LET n == Len(cts) IN
  IF n \notin 1..4 \/ ~NoSep(cts) THEN <<OOD>>
  ELSE CASE n = 1 -> <<cts[1], cts[1], cts[1], cts[1]>>
         [] n = 2 -> <<cts[1], cts[2], cts[1], cts[2]>>
         [] n = 3 -> <<cts[1], cts[2], cts[3], cts[2]>>
         [] OTHER -> cts

(* ---- border, border-<side>, outline, column-rule, text-decoration, text-emphasis:
        components in any order, an omitted component has its initial value ---- *)
DropInitial(cts, initials) == SelectSeq(cts, LAMBDA ct : ~IsKwIn(ct, initials))

(* ---- a longhand whose initial value is a keyword: `initial` alone means that keyword ---- *)
InitialIs(cts, ct0) ==
  IF Len(cts) = 1 /\ IsKwIn(cts[1], {"initial"}) THEN <<ct0>> ELSE cts
CurrentColor == Kw("currentcolor")
CC(cts) == [i \in 1..Len(cts) |-> IF IsKwIn(cts[i], {"currentcolor"}) THEN CurrentColor ELSE cts[i]]
\* border-color: 1-4 colours; the CSS-wide keyword `initial` is only valid as the whole value
BorderColor(cts) ==
  LET x == CC(InitialIs(cts, CurrentColor)) IN
  IF \E i \in 1..Len(x) : IsKwIn(x[i], {"initial"}) THEN <<Invalid>> \o x
  ELSE TRBL(x)

(* ---- flex: <grow> <shrink>? || <basis>  (CSS Flexbox 1 section 7.1.1) ---- *)
AutoKw == Kw("auto")
Basis(ct) == IF IsZeroCT(ct) THEN ZeroCT ELSE IF IsKwIn(ct, {"auto"}) THEN AutoKw ELSE ct
IsNum(ct) == ct.c = "num"
IsBasis(ct) == ct.c \in {"dim", "pct"} \/ IsKwIn(ct, {"auto", "content"}) \/ (ct.c = "func" /\ ct.u \in LenFuncs)
Flex(cts) ==
  LET n == Len(cts) IN
  CASE n = 1 ->
         IF IsKwIn(cts[1], {"none"}) THEN <<ZeroCT, ZeroCT, AutoKw>>
         ELSE IF IsKwIn(cts[1], {"auto"}) THEN <<One, One, AutoKw>>
         ELSE IF IsKwIn(cts[1], {"initial"}) THEN <<ZeroCT, One, AutoKw>>
         ELSE IF IsNum(cts[1]) THEN <<cts[1], One, ZeroCT>>
         ELSE IF IsBasis(cts[1]) THEN <<One, One, Basis(cts[1])>>
         ELSE IF cts[1].c = "ident" THEN cts ELSE <<OOD>>
    [] n = 2 ->
         IF IsNum(cts[1]) /\ IsNum(cts[2]) THEN <<cts[1], cts[2], ZeroCT>>
         ELSE IF IsNum(cts[1]) /\ IsBasis(cts[2]) THEN <<cts[1], One, Basis(cts[2])>>
         ELSE IF IsBasis(cts[1]) /\ IsNum(cts[2]) THEN <<cts[2], One, Basis(cts[1])>>
         ELSE <<OOD>>
    [] n = 3 ->
         IF IsNum(cts[1]) /\ IsNum(cts[2]) /\ (IsBasis(cts[3]) \/ IsZeroCT(cts[3])) THEN <<cts[1], cts[2], Basis(cts[3])>>
         ELSE IF IsBasis(cts[1]) /\ IsNum(cts[2]) /\ IsNum(cts[3]) THEN <<cts[2], cts[3], Basis(cts[1])>>
         ELSE <<OOD>>
    [] OTHER -> <<OOD>>
FlexBasis(cts) == IF Len(cts) = 1 THEN <<Basis(InitialIs(cts, AutoKw)[1])>> ELSE cts

(* ---- box-shadow: per layer  inset? && <length>{2,4} && <color>?  ; omitted blur/spread = 0 ---- *)
IsLen(ct) == ct.c = "dim" \/ (ct.c = "num" /\ ct.b = <<>>) \/ (ct.c = "func" /\ ct.u \in LenFuncs)
ShadowLayer(cts) ==
  LET n == Len(cts)
      li == SelectSeq([i \in 1..n |-> i], LAMBDA i : IsLen(cts[i]))
      k == Len(li)
  IN IF n = 0 THEN <<Marker("empty")>>
     ELSE IF n = 1 /\ IsKwIn(cts[1], {"none"}) THEN <<Kw("none")>>
     ELSE IF HasOpaque(cts) \/ k \notin 2..4 \/ li[k] - li[1] # k - 1 THEN <<OOD>>
     ELSE SelectSeq(cts, LAMBDA ct : ~IsLen(ct)) \o <<Marker("lengths")>>
          \o [j \in 1..4 |-> IF j <= k THEN (IF IsZeroCT(cts[li[j]]) THEN ZeroCT ELSE cts[li[j]]) ELSE ZeroCT]
Layers(cts, F(_)) ==
  LET ls == SplitCommas(cts) IN Flatten([j \in 1..Len(ls) |-> F(ls[j]) \o <<Marker(",")>>])
BoxShadow(cts) == Layers(InitialIs(cts, Kw("none")), ShadowLayer)

(* ---- background-size: one value x means  x auto ---- *)
IsSizeTok(ct) == IsLP(ct) \/ IsKwIn(ct, {"auto"})
SizeNorm(ct) == IF IsKwIn(ct, {"auto"}) THEN AutoKw ELSE ct
BgSizeLayer(cts) ==
  IF Len(cts) = 0 THEN <<Marker("empty")>>
  ELSE IF Len(cts) = 1 /\ IsKwIn(cts[1], {"cover", "contain"}) THEN <<Kw(cts[1].u)>>
  ELSE IF Len(cts) = 1 /\ IsSizeTok(cts[1]) THEN <<SizeNorm(cts[1]), AutoKw>>
  ELSE IF Len(cts) = 2 /\ IsSizeTok(cts[1]) /\ IsSizeTok(cts[2]) THEN <<SizeNorm(cts[1]), SizeNorm(cts[2])>>
  ELSE <<OOD>>

(* ---- background-repeat: repeat-x = repeat no-repeat, repeat-y = no-repeat repeat, k = k k ---- *)
RepKw == {"repeat", "space", "round", "no-repeat"}
BgRepeatLayer(cts) ==
  IF Len(cts) = 0 THEN <<Marker("empty")>>
  ELSE IF Len(cts) = 1 /\ IsKwIn(cts[1], {"repeat-x"}) THEN <<Kw("repeat"), Kw("no-repeat")>>
  ELSE IF Len(cts) = 1 /\ IsKwIn(cts[1], {"repeat-y"}) THEN <<Kw("no-repeat"), Kw("repeat")>>
  ELSE IF Len(cts) = 1 /\ IsKwIn(cts[1], RepKw) THEN <<Kw(cts[1].u), Kw(cts[1].u)>>
  ELSE IF Len(cts) = 2 /\ IsKwIn(cts[1], RepKw) /\ IsKwIn(cts[2], RepKw) THEN <<Kw(cts[1].u), Kw(cts[2].u)>>
  ELSE <<OOD>>

(* ---- background-position (CSS Backgrounds 3 section 3.6): one pair
        <<horizontal offset from the left edge, vertical offset from the top edge>>;
        right p% = left (100-p)%, bottom p% = top (100-p)%, center = 50%,
        an offset from the right/bottom edge that is not a percentage stays "from the end" ---- *)
\* 100 - p for a canonical percentage number b (<<>> or <<neg, e>> \o mant), exact
PctComplement(b) ==
  LET neg == IF b = <<>> THEN 0 ELSE b[1]
      e == IF b = <<>> THEN 0 ELSE b[2]
      mant == IF b = <<>> THEN <<>> ELSE SubSeq(b, 3, Len(b))
      s == IF e < 0 THEN e ELSE 0
      A == SInt(FALSE, <<1, 0, 0>> \o Zeros(0 - s))
      B == SInt(neg = 1, mant \o Zeros(e - s))
      r == SSub(A, B)
      tz == TrailZ(r.mag)
  IN IF r.mag = <<>> THEN <<>> ELSE <<IF r.neg THEN 1 ELSE 0, s + tz>> \o StripTZ(r.mag)
NormLP(ct) == IF IsZeroCT(ct) THEN ZeroCT ELSE ct
FromStart(off) == IF off = <<>> THEN ZeroCT ELSE NormLP(off[1])
FromEnd(off) ==
  IF off = <<>> THEN Pct100
  ELSE IF IsZeroCT(off[1]) THEN Pct100
  ELSE IF off[1].c = "pct" THEN NormLP(Mk("pct", "", PctComplement(off[1].b), <<>>))
  ELSE Mk("from-end", "", <<>>, off)
PosClass(ct) ==
  IF IsKwIn(ct, {"left", "right"}) THEN "H" ELSE IF IsKwIn(ct, {"top", "bottom"}) THEN "V"
  ELSE IF IsKwIn(ct, {"center"}) THEN "C" ELSE IF IsLP(ct) THEN "L" ELSE "X"
IsPosTok(ct) == PosClass(ct) # "X"
\* a group is <<keyword-or-length CT, offset (<<>> or <<ct>>)>>
Axis(g) ==
  LET k == g[1] IN
  IF IsKwIn(k, {"left", "top"}) THEN FromStart(g[2])
  ELSE IF IsKwIn(k, {"right", "bottom"}) THEN FromEnd(g[2])
  ELSE IF IsKwIn(k, {"center"}) THEN Pct50
  ELSE NormLP(k)
BgPos1(cts) ==
  LET n == Len(cts)
      c == [i \in 1..n |-> PosClass(cts[i])]
      G(i) == <<cts[i], <<>>>>
      GO(i) == <<cts[i], <<cts[i + 1]>>>>
      ctr == <<Kw("center"), <<>>>>
      pair(h, v) == <<Axis(h), Axis(v)>>
      bad == <<OOD>>
  IN
  CASE n = 1 -> IF c[1] \in {"H", "L"} THEN <<Axis(G(1)), Pct50>>
                ELSE IF c[1] = "V" THEN <<Pct50, Axis(G(1))>>
                ELSE IF c[1] = "C" THEN <<Pct50, Pct50>> ELSE bad
    [] n = 2 -> IF c[1] \in {"H", "C", "L"} /\ c[2] \in {"V", "C", "L"} THEN pair(G(1), G(2))
                ELSE IF c[1] = "V" /\ c[2] \in {"H", "C"} THEN pair(G(2), G(1))
                ELSE IF c[1] = "C" /\ c[2] = "H" THEN pair(G(2), G(1))
                ELSE bad
    [] n = 3 -> \* K L K  |  K K L
                IF c[1] \in {"H", "V"} /\ c[2] = "L" /\ c[3] \in {"H", "V", "C"} /\ c[3] # c[1]
                THEN IF c[1] = "H" THEN pair(GO(1), G(3)) ELSE pair(G(3), GO(1))
                ELSE IF c[1] \in {"H", "V", "C"} /\ c[2] \in {"H", "V"} /\ c[3] = "L" /\ c[2] # c[1]
                THEN IF c[2] = "H" THEN pair(GO(2), G(1)) ELSE pair(G(1), GO(2))
                ELSE bad
    [] n = 4 -> IF c[1] \in {"H", "V"} /\ c[2] = "L" /\ c[3] \in {"H", "V"} /\ c[4] = "L" /\ c[3] # c[1]
                THEN IF c[1] = "H" THEN pair(GO(1), GO(3)) ELSE pair(GO(3), GO(1))
                ELSE bad
    [] OTHER -> bad
BgPosLayer(cts) == IF Len(cts) = 0 THEN <<Marker("empty")>> ELSE BgPos1(cts)

(* ---- background (one layer): every component that is left out has its initial value:
        color transparent, image none, position 0% 0%, size auto auto, repeat repeat repeat,
        attachment scroll, origin padding-box, clip border-box (CSS Backgrounds 3, 3.10) ---- *)
Transparent == Mk("colour", "", <<0, 0, 0, 0, 0>>, <<>>)
BoxKw == {"border-box", "padding-box", "content-box"}
AttKw == {"scroll", "fixed", "local"}
BgClass(ct) ==
  IF ct.c = "colour" \/ IsKwIn(ct, {"currentcolor"}) THEN "col"
  ELSE IF ct.c \in {"url", "durl"} \/ (ct.c = "func" /\ ct.u \notin LenFuncs) THEN "img"
  ELSE IF IsKwIn(ct, {"none"}) THEN "none"
  ELSE IF IsSlashCT(ct) THEN "slash"
  ELSE IF IsPosTok(ct) THEN "pos"
  ELSE IF IsKwIn(ct, {"auto", "cover", "contain"}) THEN "size"
  ELSE IF IsKwIn(ct, RepKw \cup {"repeat-x", "repeat-y"}) THEN "rep"
  ELSE IF IsKwIn(ct, AttKw) THEN "att"
  ELSE IF IsKwIn(ct, BoxKw) THEN "box"
  ELSE "bad"
Contig(idx) == Len(idx) = 0 \/ idx[Len(idx)] - idx[1] = Len(idx) - 1
BgLayer(cts) ==
  LET n == Len(cts)
      cl == [i \in 1..n |-> BgClass(cts[i])]
      idxOf(S) == SelectSeq([i \in 1..n |-> i], LAMBDA i : cl[i] \in S)
      sl == idxOf({"slash"})
      s == IF Len(sl) = 1 THEN sl[1] ELSE 0
      isSz(i) == i <= n /\ cl[i] \in {"size", "pos"} /\ PosClass(cts[i]) \in {"L", "X"}
      nsz == IF s = 0 THEN 0 ELSE IF isSz(s + 1) /\ isSz(s + 2) THEN 2 ELSE IF isSz(s + 1) THEN 1 ELSE 0
      szIdx == [j \in 1..nsz |-> s + j]
      inSz(i) == s > 0 /\ i > s /\ i <= s + nsz
      posIdx == SelectSeq(idxOf({"pos"}), LAMBDA i : ~inSz(i))
      strayAuto == \E i \in 1..n : cl[i] = "size" /\ ~inSz(i)
      colIdx == idxOf({"col"})
      imgIdx == idxOf({"img"})
      noneIdx == idxOf({"none"})
      repIdx == idxOf({"rep"})
      attIdx == idxOf({"att"})
      boxIdx == idxOf({"box"})
      sub(idx) == [j \in 1..Len(idx) |-> cts[idx[j]]]
      pos == IF Len(posIdx) = 0 THEN <<ZeroCT, ZeroCT>> ELSE BgPos1(sub(posIdx))
      size == IF s = 0 THEN <<AutoKw, AutoKw>> ELSE BgSizeLayer(sub(szIdx))
      rep == IF Len(repIdx) = 0 THEN <<Kw("repeat"), Kw("repeat")>> ELSE BgRepeatLayer(sub(repIdx))
      bad == \/ HasOpaque(cts) \/ \E i \in 1..n : cl[i] = "bad"
             \/ Len(sl) > 1 \/ (s > 0 /\ (nsz = 0 \/ Len(posIdx) = 0 \/ posIdx[Len(posIdx)] # s - 1))
             \/ strayAuto \/ ~Contig(posIdx) \/ Len(posIdx) > 4
             \/ Len(colIdx) > 1 \/ Len(imgIdx) + Len(noneIdx) > 1
             \/ Len(repIdx) > 2 \/ ~Contig(repIdx) \/ Len(attIdx) > 1 \/ Len(boxIdx) > 2
  IN IF n = 0 THEN <<Marker("empty")>>
     ELSE IF bad THEN <<OOD>>
     ELSE (IF Len(colIdx) = 0 THEN <<Transparent>> ELSE <<IF cts[colIdx[1]].c = "colour" THEN cts[colIdx[1]] ELSE CurrentColor>>)
          \o <<Marker("image")>> \o sub(imgIdx)
          \o <<Marker("position")>> \o pos \o <<Marker("size")>> \o size \o <<Marker("repeat")>> \o rep
          \o <<Kw(IF Len(attIdx) = 0 THEN "scroll" ELSE cts[attIdx[1]].u)>>
          \o (IF Len(boxIdx) = 0 THEN <<Kw("padding-box"), Kw("border-box")>>
              ELSE IF Len(boxIdx) = 1 THEN <<Kw(cts[boxIdx[1]].u), Kw(cts[boxIdx[1]].u)>>
              ELSE <<Kw(cts[boxIdx[1]].u), Kw(cts[boxIdx[2]].u)>>)

(* ---- font-family: comma separated; a quoted name and the same words as identifiers are the
        same family (names are matched case-insensitively, CSS Fonts 3 section 3.1 / 5.1); a
        single unquoted generic or CSS-wide keyword is NOT a family name ---- *)
GenericFamilies == {"serif", "sans-serif", "monospace", "cursive", "fantasy", "system-ui",
                    "inherit", "initial", "unset", "default", "revert"}
JoinWords(parts) == FoldLeft(LAMBDA acc, p : IF acc = <<>> THEN p ELSE acc \o <<32>> \o p, <<>>, parts)
Family1(cts) ==
  IF Len(cts) = 0 THEN <<Marker("empty")>>
  ELSE IF Len(cts) = 1 /\ cts[1].c = "str" THEN <<Mk("family", "", LowerS(cts[1].b), <<>>)>>
  ELSE IF \A i \in 1..Len(cts) : cts[i].c = "ident" THEN
       IF Len(cts) = 1 /\ cts[1].u \in GenericFamilies THEN <<Kw(cts[1].u)>>
       ELSE <<Mk("family", "", JoinWords([i \in 1..Len(cts) |-> LowerS(cts[i].b)]), <<>>)>>
  ELSE <<OOD>>
FontFamily(cts) == Layers(cts, Family1)

(* ---- font: [style || variant || weight || stretch]? size [/ line-height]? family ---- *)
FontPreKw == {"normal", "italic", "oblique", "small-caps", "bold", "bolder", "lighter",
              "ultra-condensed", "extra-condensed", "condensed", "semi-condensed",
              "semi-expanded", "expanded", "extra-expanded", "ultra-expanded"}
FontSizeKw == {"xx-small", "x-small", "small", "medium", "large", "x-large", "xx-large", "xxx-large", "smaller", "larger"}
IsFontPre(ct) == IsKwIn(ct, FontPreKw) \/ (ct.c = "num" /\ ct.b # <<>>)
IsFontSize(ct) == IsLP(ct) \/ IsKwIn(ct, FontSizeKw)
FontPre(ct) ==
  IF IsKwIn(ct, {"normal"}) \/ ct = N400 THEN <<>>
  ELSE IF IsKwIn(ct, {"bold"}) THEN <<N700>>
  ELSE IF ct.c = "ident" THEN <<Kw(ct.u)>> ELSE <<ct>>
\* line-height: normal | <number> | <length-percentage>  (CSS 2.1 section 10.8.1)
IsLineHeight(ct) == ct.c = "num" \/ IsLP(ct) \/ IsKwIn(ct, {"normal"})
Font(cts) ==
  LET n == Len(cts)
      f[i \in 1..n + 1] == IF i > n THEN i ELSE IF IsFontPre(cts[i]) THEN f[i + 1] ELSE i
      si == f[1]
      hasLh == si + 2 <= n /\ IsSlashCT(cts[si + 1])
      fi == IF hasLh THEN si + 3 ELSE si + 1
  IN IF n <= 1 THEN cts
     ELSE IF HasOpaque(cts) \/ si > n \/ ~IsFontSize(cts[si]) \/ fi > n \/ (si + 1 <= n /\ IsSlashCT(cts[si + 1]) /\ ~hasLh)
             \/ (hasLh /\ ~IsLineHeight(cts[si + 2])) THEN <<OOD>>
     ELSE Flatten([i \in 1..si - 1 |-> FontPre(cts[i])])
          \o <<Marker("size"), NormLP(cts[si]), Marker("line-height")>>
          \o (IF hasLh /\ ~IsKwIn(cts[si + 2], {"normal"}) THEN <<cts[si + 2]>> ELSE <<>>)
          \o <<Marker("family")>> \o FontFamily(SubSeq(cts, fi, n))
\* normal = 400 and bold = 700 wherever an absolute weight stands (CSS Fonts 3 section 3.2; the
\* @font-face descriptor takes one or two of them)
FontWeight(cts) ==
  [i \in 1..Len(cts) |-> IF IsKwIn(cts[i], {"normal"}) THEN N400 ELSE IF IsKwIn(cts[i], {"bold"}) THEN N700 ELSE cts[i]]

(* ---- unicode-range: the set of code points (CSS Fonts 3 section 4.5), as the sorted list of
        maximal intervals <<lo1, hi1, lo2, hi2, ...>> ---- *)
MaxCP == 1114111
HexNum(s) == FoldLeft(LAMBDA acc, c : acc * 16 + HexVal(c), 0, s)
\* s = lower-cased source text "u+...."
URange1(s) ==
  LET body == SubSeq(s, 3, Len(s))
      dpos == FindFirst(body, LAMBDA c : c = 45)
      p1 == IF dpos = 0 THEN body ELSE SubSeq(body, 1, dpos - 1)
      p2 == IF dpos = 0 THEN <<>> ELSE SubSeq(body, dpos + 1, Len(body))
      wild == \E i \in 1..Len(p1) : p1[i] = 63
      lo == HexNum([i \in 1..Len(p1) |-> IF p1[i] = 63 THEN 48 ELSE p1[i]])
      hi == IF wild THEN HexNum([i \in 1..Len(p1) |-> IF p1[i] = 63 THEN 102 ELSE p1[i]])
            ELSE IF dpos = 0 THEN lo ELSE HexNum(p2)
  IN [ok |-> Len(p1) \in 1..6 /\ Len(p2) <= 6 /\ lo <= hi /\ hi <= MaxCP, lo |-> lo, hi |-> hi]
UnicodeRange(cts) ==
  LET parts == SplitCommas(cts)
      n == Len(parts)
      isInit == Len(cts) = 1 /\ IsKwIn(cts[1], {"initial"})
      okShape == \A j \in 1..n : Len(parts[j]) = 1 /\ parts[j][1].c = "urange"
      rs == [j \in 1..n |-> URange1(parts[j][1].b)]
      R == {<<rs[j].lo, rs[j].hi>> : j \in 1..n}
      Cov(x) == \E r \in R : r[1] <= x /\ x <= r[2]
      starts == {r[1] : r \in {q \in R : ~Cov(q[1] - 1)}}
      ends == {r[2] : r \in {q \in R : ~Cov(q[2] + 1)}}
      MinOf(S) == CHOOSE x \in S : \A y \in S : x <= y
      ivs == {<<a, MinOf({e \in ends : e >= a})>> : a \in starts}
      sorted == SetToSortSeq(ivs, LAMBDA p, q : p[1] < q[1])
  IN IF isInit THEN <<Mk("cps", "", <<0, MaxCP>>, <<>>)>>
     ELSE IF ~okShape THEN (IF \E i \in 1..Len(cts) : cts[i].c \in {"urange", "comma"} THEN <<OOD>> ELSE cts)
     ELSE IF \E j \in 1..n : ~rs[j].ok THEN <<OOD>>
     ELSE <<Mk("cps", "", Flatten([j \in 1..Len(sorted) |-> sorted[j]]), <<>>)>>
=============================================================================
