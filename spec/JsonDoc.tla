----------------------------- MODULE JsonDoc -----------------------------
(* RFC 8259 on raw token sequences (property C07).

   A JSON text is handed to the specification as the sequence of its RAW lexemes
   (byte sequences): the harness only splits at insignificant whitespace (the four
   bytes of RFC 8259 section 2), at the six structural characters and at string
   boundaries; everything that decides validity or equality is defined here:

     Kind(t)          classification of one raw lexeme by the RFC's lexical grammar
                      (string, number, literal; anything else is "junk")
     Step / RunPDA    the RFC's structural grammar as a push-down recogniser on kinds
     ValidText(ts)    ts is the token sequence of a valid JSON text
     JsonEq(a,b,keep) the value relation of the property: same tokens position by
                      position (hence same nesting, same member order including
                      duplicate keys), strings and literals byte-identical, numbers
                      numerically equal (NumVal.ValueEq, exact rationals) or, with number
                      keeping, byte-identical
     RDValid(ks)      the same structural grammar once more, as a recursive descent over
                      the productions  value / elements / members  (JsonDocMC checks that
                      both formulations agree on every kind sequence up to a bound). *)
EXTENDS NumVal

\* ---------------------------------------------------------------- lexical grammar
(* number = [ minus ] int [ frac ] [ exp ]     (RFC 8259 section 6)
   0 start, 1 after '-', 2 int "0", 3 int 1-9 d*, 4 after '.', 5 frac digits,
   6 after e/E, 7 after exponent sign, 8 exponent digits.  Accepting 2 3 5 8. *)
JNumDelta(s, c) ==
  CASE s = 0 -> IF c = 45 THEN 1 ELSE IF c = 48 THEN 2 ELSE IF c >= 49 /\ c <= 57 THEN 3 ELSE -1
    [] s = 1 -> IF c = 48 THEN 2 ELSE IF c >= 49 /\ c <= 57 THEN 3 ELSE -1
    [] s = 2 -> IF c = 46 THEN 4 ELSE IF IsE(c) THEN 6 ELSE -1
    [] s = 3 -> IF IsDigit(c) THEN 3 ELSE IF c = 46 THEN 4 ELSE IF IsE(c) THEN 6 ELSE -1
    [] s = 4 -> IF IsDigit(c) THEN 5 ELSE -1
    [] s = 5 -> IF IsDigit(c) THEN 5 ELSE IF IsE(c) THEN 6 ELSE -1
    [] s = 6 -> IF IsSign(c) THEN 7 ELSE IF IsDigit(c) THEN 8 ELSE -1
    [] s = 7 -> IF IsDigit(c) THEN 8 ELSE -1
    [] s = 8 -> IF IsDigit(c) THEN 8 ELSE -1
    [] OTHER -> -1
IsJsonNumber(b) == FoldLeft(LAMBDA s, c : IF s = -1 THEN -1 ELSE JNumDelta(s, c), 0, b) \in {2, 3, 5, 8}

(* string = quotation-mark *char quotation-mark   (RFC 8259 section 7)
   char = unescaped (%x20-21 / %x23-5B / %x5D-10FFFF, here: any byte >= 0x20 but '"' and '\')
        / '\' ( '"' '\' '/' b f n r t / u 4HEXDIG )
   0 start, 1 inside, 2 after '\', 3..6 hex digits still expected (4..1), 7 closed. *)
IsHex(c) == IsDigit(c) \/ (c >= 65 /\ c <= 70) \/ (c >= 97 /\ c <= 102)
JStrDelta(s, c) ==
  CASE s = 0 -> IF c = 34 THEN 1 ELSE -1
    [] s = 1 -> IF c = 34 THEN 7 ELSE IF c = 92 THEN 2 ELSE IF c < 32 THEN -1 ELSE 1
    [] s = 2 -> IF c \in {34, 92, 47, 98, 102, 110, 114, 116} THEN 1 ELSE IF c = 117 THEN 3 ELSE -1
    [] s \in {3, 4, 5} -> IF IsHex(c) THEN s + 1 ELSE -1
    [] s = 6 -> IF IsHex(c) THEN 1 ELSE -1
    [] OTHER -> -1
IsJsonString(b) == FoldLeft(LAMBDA s, c : IF s = -1 THEN -1 ELSE JStrDelta(s, c), 0, b) = 7

LitTrue == <<116, 114, 117, 101>>
LitFalse == <<102, 97, 108, 115, 101>>
LitNull == <<110, 117, 108, 108>>
IsJsonLiteral(b) == b = LitTrue \/ b = LitFalse \/ b = LitNull       \* lower case only (section 3)

Structural == {123, 125, 91, 93, 58, 44}
KindNames == {"{", "}", "[", "]", ":", ",", "str", "num", "lit", "junk"}
(* The harness's splitter guarantees: a lexeme that starts with a structural byte is exactly
   that byte; one that starts with '"' runs to the closing quote (or to the end of the text). *)
Kind(b) ==
  IF b = <<>> THEN "junk"
  ELSE IF Len(b) = 1 /\ b[1] \in Structural
       THEN (CASE b[1] = 123 -> "{" [] b[1] = 125 -> "}" [] b[1] = 91 -> "[" [] b[1] = 93 -> "]"
               [] b[1] = 58 -> ":" [] OTHER -> ",")
  ELSE IF b[1] = 34 THEN (IF IsJsonString(b) THEN "str" ELSE "junk")
  ELSE IF IsJsonLiteral(b) THEN "lit"
  ELSE IF IsJsonNumber(b) THEN "num"
  ELSE "junk"
Kinds(ts) == [i \in 1..Len(ts) |-> Kind(ts[i])]

\* ---------------------------------------------------------------- structural grammar
(* JSON-text = ws value ws;  value = false / null / true / object / array / number / string
   object = { [ member *( , member ) ] }   member = string : value
   array  = [ [ value *( , value ) ] ]                               (sections 2, 4, 5)
   Push-down recogniser: stk = open containers (1 object, 2 array), innermost last;
   ph = what may come next:
     "val" a value            "valOrEnd" a value or ]       "keyOrEnd" a key or }
     "key" a key              "colon" the name separator    "sep" , or the matching close
     "done" nothing (the top-level value is complete)       "bad" dead *)
IsScalar(k) == k \in {"str", "num", "lit"}
PInit == [stk |-> <<>>, ph |-> "val"]
PBad == [stk |-> <<>>, ph |-> "bad"]
After(stk) == [stk |-> stk, ph |-> IF stk = <<>> THEN "done" ELSE "sep"]
PopS(stk) == SubSeq(stk, 1, Len(stk) - 1)
Step(s, k) ==
  CASE s.ph \in {"val", "valOrEnd"} /\ IsScalar(k) -> After(s.stk)
    [] s.ph \in {"val", "valOrEnd"} /\ k = "{" -> [stk |-> Append(s.stk, 1), ph |-> "keyOrEnd"]
    [] s.ph \in {"val", "valOrEnd"} /\ k = "[" -> [stk |-> Append(s.stk, 2), ph |-> "valOrEnd"]
    [] s.ph = "valOrEnd" /\ k = "]" -> After(PopS(s.stk))
    [] s.ph = "keyOrEnd" /\ k = "}" -> After(PopS(s.stk))
    [] s.ph \in {"keyOrEnd", "key"} /\ k = "str" -> [stk |-> s.stk, ph |-> "colon"]
    [] s.ph = "colon" /\ k = ":" -> [stk |-> s.stk, ph |-> "val"]
    [] s.ph = "sep" /\ k = "," -> [stk |-> s.stk, ph |-> IF s.stk[Len(s.stk)] = 1 THEN "key" ELSE "val"]
    [] s.ph = "sep" /\ k = "}" /\ s.stk[Len(s.stk)] = 1 -> After(PopS(s.stk))
    [] s.ph = "sep" /\ k = "]" /\ s.stk[Len(s.stk)] = 2 -> After(PopS(s.stk))
    [] OTHER -> PBad
RunPDAFrom(s0, ks) == FoldLeft(Step, s0, ks)
RunPDA(ks) == RunPDAFrom(PInit, ks)
ValidKinds(ks) == RunPDA(ks).ph = "done"
ValidText(ts) == ValidKinds(Kinds(ts))

\* ---------------------------------------------------------------- value relation (C07)
(* "same nesting, same member order including duplicate keys, byte-identical strings and
    literals, and numbers that are numerically equal (exactly, at precision 0).  With number
    keeping enabled every number lexeme is byte-identical" *)
TokEq(a, b, keep) ==
  IF a = b THEN Kind(a) # "junk"                               \* byte-identical lexemes of any kind
  ELSE ~keep /\ Kind(a) = "num" /\ Kind(b) = "num" /\ ValueEq(a, b)   \* only numbers may be respelled
JsonEq(as, bs, keep) ==
  /\ Len(as) = Len(bs)
  /\ \A i \in 1..Len(as) : TokEq(as[i], bs[i], keep)
\* first position at which the relation fails (0 = none); diagnostics only
FirstDiff(as, bs, keep) ==
  LET n == IF Len(as) < Len(bs) THEN Len(as) ELSE Len(bs)
      bad == {i \in 1..n : ~TokEq(as[i], bs[i], keep)}
  IN IF bad # {} THEN CHOOSE i \in bad : \A j \in bad : i <= j
     ELSE IF Len(as) # Len(bs) THEN n + 1 ELSE 0

\* ---------------------------------------------------------------- the grammar once more
(* Recursive descent over the productions; each operator returns the index just after the
   phrase that starts at i, or 0.  Only used on short sequences (JsonDocMC): the LET-bound
   results are mentioned more than once, which TLC may re-evaluate. *)
RECURSIVE RDValue(_, _), RDElems(_, _), RDMembers(_, _)
RDValue(ks, i) ==
  IF i > Len(ks) THEN 0
  ELSE IF IsScalar(ks[i]) THEN i + 1
  ELSE IF ks[i] = "[" THEN (IF i + 1 <= Len(ks) /\ ks[i+1] = "]" THEN i + 2 ELSE RDElems(ks, i + 1))
  ELSE IF ks[i] = "{" THEN (IF i + 1 <= Len(ks) /\ ks[i+1] = "}" THEN i + 2 ELSE RDMembers(ks, i + 1))
  ELSE 0
RDElems(ks, i) ==
  LET j == RDValue(ks, i) IN
  IF j = 0 \/ j > Len(ks) THEN 0
  ELSE IF ks[j] = "," THEN RDElems(ks, j + 1)
  ELSE IF ks[j] = "]" THEN j + 1 ELSE 0
RDMembers(ks, i) ==
  IF i + 1 > Len(ks) \/ ks[i] # "str" \/ ks[i+1] # ":" THEN 0
  ELSE LET j == RDValue(ks, i + 2) IN
       IF j = 0 \/ j > Len(ks) THEN 0
       ELSE IF ks[j] = "," THEN RDMembers(ks, j + 1)
       ELSE IF ks[j] = "}" THEN j + 1 ELSE 0
RDValid(ks) == RDValue(ks, 1) = Len(ks) + 1
=============================================================================
