----------------------------- MODULE C07Trace -----------------------------
(* Trace validation for C07 (JSON minification preserves the value).

   One JSON text handed to the real json.Minify is recorded as one or more consecutive
   lines (long texts are cut into windows of W tokens; `first`/`last` mark the windows of
   one text, the recogniser states are carried from line to line in si / so):

     [id, first, last, keep, it, ot, ilen, olen, igo, ogo, panic, err, ows, nn]

   it / ot   raw lexemes (byte sequences) of the input / of the minifier's output in this
             window, split by the harness's own splitter (whitespace, structural bytes, string
             boundaries only - no validity judgement on the Go side)
   ilen/olen byte lengths of the whole input / output text
   keep      Minifier.KeepNumbers;  Precision is 0 in every call
   igo / ogo encoding/json.Valid on the whole input / output: a second opinion on validity.
             A disagreement with the recogniser below is reported as "oracle ..." and is an
             infrastructure error of the check, never a verdict.
   panic     the call panicked (no complete output exists)

   Scope: "For every RFC 8259 JSON text" - lines whose input is not a valid text are outside
   the property and only cross-checked. *)
EXTENDS JsonSepFn, JsonNumFn, TraceIO
VARIABLES l, si, so

StartI(e) == IF e.first THEN PInit ELSE si
StartO(e) == IF e.first THEN PInit ELSE so
Init == l = 1 /\ si = PInit /\ so = PInit
Next == /\ l <= N /\ l' = l + 1
        \* (after the last window of a text the next line starts afresh: nothing to carry)
        /\ si' = IF Trace[l].last THEN PInit ELSE RunPDAFrom(StartI(Trace[l]), Kinds(Trace[l].it))
        /\ so' = IF Trace[l].last THEN PInit ELSE RunPDAFrom(StartO(Trace[l]), Kinds(Trace[l].ot))
Spec == Init /\ [][Next]_<<l, si, so>>

\* a window is fine for the recogniser if it is not dead and, on the last window, complete
Fine(s, last) == IF last THEN s.ph = "done" ELSE s.ph # "bad"

LineOK(e) ==
  LET inFine == Fine(RunPDAFrom(StartI(e), Kinds(e.it)), e.last)
      outFine == Fine(RunPDAFrom(StartO(e), Kinds(e.ot)), e.last)
  IN
  \* the two validity oracles must agree on the input (on the last window: exactly)
  /\ (IF e.last THEN inFine = e.igo ELSE (e.igo => inFine)) \/ Reject(l, "oracle input validity")
  /\ e.igo /\ inFine =>
       \* "the output is a valid JSON text"
       /\ ~e.panic \/ Reject(l, "panic")
       /\ e.panic \/ outFine \/ Reject(l, "output is not a valid JSON text")
       /\ e.panic \/ ~e.last \/ (outFine = e.ogo) \/ Reject(l, "oracle output validity")
       \* "denoting the same value: same nesting, same member order including duplicate keys,
       \*  byte-identical strings and literals, numbers numerically equal (exactly, at precision 0).
       \*  With number keeping enabled every number lexeme is byte-identical"
       /\ e.panic \/ JsonEq(e.it, e.ot, e.keep) \/ Reject(l, "value differs")
       \* "[With number keeping enabled ...] and the output is never longer than the input"
       /\ e.panic \/ ~(e.keep /\ e.last) \/ e.olen <= e.ilen \/ Reject(l, "longer than the input with number keeping")
Conforms == l <= N => LineOK(Trace[l])

(* Design-model drift (information, never a verdict; the driver files "drift" separately).
   For a text that fits one window and consists of proper lexemes - valid or not -, the model
   JsonSepFn.DRun predicts whether the loop ends with an error and which tokens it has written
   by then; the model knows no number rewriting, so kinds are compared. *)
NoDrift(e) ==
  (e.first /\ e.last /\ ~e.panic) =>
    LET ki == Kinds(e.it) IN
    (\A i \in 1..Len(ki) : ki[i] # "junk") =>
      LET d == DRun(ki)
          np == SelectSeq([i \in 1..Len(ki) |-> i], LAMBDA i : ki[i] = "num")    \* positions of the numbers
      IN
      /\ (d.mode = "err") = e.err
      /\ d.out = Kinds(e.ot)
      /\ e.ows = 0
      \* number branch: without number keeping the lexeme written is Repair(minify.Number(lexeme)), and
      \* Number's result is in the normal form the repair relies on; e.nn = results of the public
      \* minify.Number on the input's number lexemes, in order (recorded when the loop ended normally)
      /\ (~e.keep /\ ~e.err /\ Len(e.ot) = Len(e.it)) =>
            /\ Len(e.nn) = Len(np)
            /\ \A j \in 1..Len(np) : NormalForm(e.nn[j]) /\ e.ot[np[j]] = Repair(e.nn[j])
DesignAgrees == l <= N => (NoDrift(Trace[l]) \/ Reject(l, "drift"))
=============================================================================
