SPECIFICATION Spec
CONSTANTS MaxNodes = 3
MaxDepth = 3
DocMode = FALSE
Vocab <- VocabFrag
TextKinds <- TK6
OptSets <- AllOpts
Bugs <- NoBugs
INVARIANTS BuilderSound DesignRefines Emit
CHECK_DEADLOCK FALSE
