----------------------------- MODULE DataUriAsIs -----------------------------
(* C18 design model "as is": transcription of minify.DataURI of the current tree (after the fix commits
   28726ca K2, e6331d3 K3, 8f5eddf K5, 29221d0 K1) together with the two functions of the parse module it
   relies on (parse.DataURI, parse.DecodeURL) and the escaping table parse.DataURIEncodingTable, as
   functions on byte sequences.

   Uses:
   * DataUriGen / DataUriHdrGen model-check  AsIsOKOutsideKnown:  wherever this transcription
     violates the relation DataUriOK, the input is the one remaining narrow construct KnownUri (pinned
     finding K4, base64 token that is not the final ";base64" marker: needs a fix in the parse module);
   * C18Trace compares the transcription with every recorded call that had no minifier
     registered (DRIFT information: the model no longer describes the code; never a verdict);
   * OldUri is the transcription of the code BEFORE the fixes, kept as a wrong-design guard: the
     ASSUMEs at the end demand that the relation still rejects it on the witnesses of the fixed
     findings K1, K2, K3, K5 (if the relation ever stopped seeing those defects, TLC stops here). *)
EXTENDS DataUri

\* parse.DataURIEncodingTable: what EncodeURL escapes (control, blank, " # % & < > [ \ ] ^ ` { | } DEL, non-ASCII)
TableEscape(c) == c < 33 \/ c > 126 \/ c \in {34, 35, 37, 38, 60, 62, 91, 92, 93, 94, 96, 123, 124, 125}

\* parse.DecodeURL: %XX with two hex digits -> byte, "+" -> blank
AsIsDecodeURL(s) ==
  FoldLeft(LAMBDA st, i :
             IF st.skip > 0 THEN [st EXCEPT !.skip = @ - 1]
             ELSE IF s[i] = 37 /\ i + 2 <= Len(s) /\ IsHex(s[i+1]) /\ IsHex(s[i+2])
                  THEN [skip |-> 2, acc |-> Append(st.acc, 16 * HexVal(s[i+1]) + HexVal(s[i+2]))]
                  ELSE [skip |-> 0, acc |-> Append(st.acc, IF s[i] = 43 THEN 32 ELSE s[i])],
           [skip |-> 0, acc |-> <<>>], Idx(s)).acc

\* encoding/base64.StdEncoding.Decode: CR and LF are skipped, padding is required
GoB64Text(raw) == SelectSeq(raw, LAMBDA c : c # 10 /\ c # 13)
GoB64OK(raw) == B64Strict(GoB64Text(raw))

(* parse.DataURI(dataURI): scan the text after "data:" for "=", ";" and ","; a segment that (trimmed)
   reads "base64" and is not followed by "=" switches to base64 and restarts the next segment AT the
   separator; every other segment is appended trimmed, with its separator; at the first "," the media
   type is replaced by text/plain if it is empty or starts with ";". *)
AsIsParse(u) ==
  IF ~(Len(u) > 5 /\ SubSeq(u, 1, 5) = Data5) THEN [ok |-> FALSE, mt |-> <<>>, b64 |-> FALSE, raw |-> <<>>]
  ELSE
  LET d == SubSeq(u, 6, Len(u))                         \* dataURI[5:]
      step(st, j) ==                                    \* j 1-based; Go index j-1; st.i = Go index i
        IF st.done THEN st
        ELSE LET c == d[j] IN
        IF c # 61 /\ c # 59 /\ c # 44 THEN st
        ELSE
        LET seg == Trim(SubSeq(d, st.i + 1, j - 1))
            st1 == IF c # 61 /\ seg = Base64Tok
                   THEN [st EXCEPT !.mt = IF Len(st.mt) > 0 THEN SubSeq(st.mt, 1, Len(st.mt) - 1) ELSE st.mt,
                                   !.b64 = TRUE, !.i = j - 1]                                    \* P1 base64 segment
                   ELSE IF c # 44 THEN [st EXCEPT !.mt = st.mt \o seg \o <<c>>, !.i = j]         \* P2 segment + separator
                   ELSE [st EXCEPT !.mt = st.mt \o seg]                                          \* P3 last segment
        IN IF c = 44 THEN [st1 EXCEPT !.done = TRUE, !.comma = j] ELSE st1
      e == FoldLeft(step, [mt |-> <<>>, b64 |-> FALSE, i |-> 0, done |-> FALSE, comma |-> 0], Idx(d))
  IN IF ~e.done THEN [ok |-> FALSE, mt |-> <<>>, b64 |-> FALSE, raw |-> <<>>]
     ELSE [ok |-> TRUE,
           mt |-> IF Len(e.mt) = 0 \/ e.mt[1] = 59 THEN TextPlain ELSE e.mt,                      \* P4 default type
           b64 |-> e.b64, raw |-> SubSeq(d, e.comma + 1, Len(d))]

\* common.go validDataURIPayload(origData): base64 header, or only bytes the table leaves alone / "&" / %XX
ValidPayloadAsIs(u) ==
  LET comma == SelectInSeq(u, LAMBDA c : c = 44) IN
  IF comma = 0 THEN FALSE
  ELSE LET hd == Trim(SubSeq(u, 1, comma - 1)) IN
       IF Len(hd) >= 7 /\ SubSeq(hd, Len(hd) - 6, Len(hd)) = <<59>> \o Base64Tok THEN TRUE
       ELSE \A j \in (comma + 1)..Len(u) :
              IF u[j] = 37 THEN j + 2 <= Len(u) /\ IsHex(u[j+1]) /\ IsHex(u[j+2])
              ELSE u[j] = 38 \/ ~TableEscape(u[j])

\* the two rewrites of the input that precede parse.DataURI
PreParse(u) ==
  LET \* K2 fix: "data:" [blanks] ";..."  ->  "data:text/plain;..."
      r0 == IF Len(u) > 5 /\ SubSeq(u, 1, 5) = Data5
            THEN SelectInSeq(SubSeq(u, 6, Len(u)), LAMBDA c : ~IsWs(c)) ELSE 0      \* first non-blank after "data:"
      i0 == IF r0 = 0 THEN 0 ELSE r0 + 5
      u1 == IF i0 > 0 /\ u[i0] = 59 THEN Data5 \o TextPlain \o SubSeq(u, i0, Len(u)) ELSE u
      \* K1 fix: "+" in percent-form data  ->  "%2B"
      comma == SelectInSeq(u1, LAMBDA c : c = 44)
      hd == IF comma = 0 THEN <<>> ELSE Trim(SubSeq(u1, 1, comma - 1))
      isB64 == Len(hd) >= 7 /\ SubSeq(hd, Len(hd) - 6, Len(hd)) = <<59>> \o Base64Tok
  IN IF comma = 0 \/ isB64 THEN u1
     ELSE SubSeq(u1, 1, comma - 1) \o
          FoldLeft(LAMBDA a, c : IF c = 43 THEN a \o <<37, 50, 66>> ELSE Append(a, c), <<>>, SubSeq(u1, comma, Len(u1)))

AsIsUri(in, hasSub, Sub(_)) ==
  LET p == AsIsParse(PreParse(in)) IN
  IF ~p.ok THEN in                                                        \* U1 not a data URI
  ELSE IF p.b64 /\ ~GoB64OK(p.raw) THEN in                                \* U2 base64 error
  ELSE
  LET data0 == IF p.b64 THEN B64Decode(GoB64Text(p.raw)) ELSE AsIsDecodeURL(p.raw)
      data == IF hasSub THEN Sub(data0) ELSE data0
      b64c == 7 + B64Len(Len(data))
      pctc == Len(data) + 2 * Count(data, TableEscape)
  IN IF Len(in) < b64c /\ Len(in) < pctc THEN in                          \* U3 original shorter than both
     ELSE
     LET useB64 == b64c < pctc
         mt1 == IF useB64 THEN p.mt \o <<59>> \o Base64Tok ELSE p.mt      \* U4 / U5
         enc == IF useB64 THEN B64Encode(data) ELSE PctEncodeWith(data, TableEscape)
         mt2 == IF Len(mt1) >= 10 /\ LowerSeq(SubSeq(mt1, 1, 10)) = TextPlain /\ (Len(mt1) = 10 \/ mt1[11] = 59)
                THEN SubSeq(mt1, 11, Len(mt1)) ELSE mt1                   \* U6 text/plain stripped as a whole type name
         hit == SelectInSeq(Idx(mt2), LAMBDA i :
                   /\ i + 16 <= Len(mt2) /\ mt2[i] = 59
                   /\ LowerSeq(SubSeq(mt2, i + 1, i + 16)) = CharsetAscii
                   /\ (i + 16 = Len(mt2) \/ mt2[i + 17] = 59))
         mt3 == IF hit = 0 THEN mt2 ELSE SubSeq(mt2, 1, hit - 1) \o SubSeq(mt2, hit + 17, Len(mt2))   \* U7
         res == Data5 \o mt3 \o <<44>> \o enc
     IN IF Len(in) < Len(res) /\ ValidPayloadAsIs(in) THEN in              \* U8 never grow a validly encoded input
        ELSE res
AsIsNone(in) == AsIsUri(in, FALSE, LAMBDA x : x)       \* no minifier registered
\* what a minifier registered for the payload type is handed by this design (<<>>: it is not reached)
AsIsCalls(in, Sub(_)) ==
  LET p == AsIsParse(PreParse(in)) IN
  IF ~p.ok \/ (p.b64 /\ ~GoB64OK(p.raw)) THEN <<>>
  ELSE LET data0 == IF p.b64 THEN B64Decode(GoB64Text(p.raw)) ELSE AsIsDecodeURL(p.raw)
       IN << [in |-> data0, out |-> Sub(data0), err |-> FALSE] >>

\* ---- wrong-design guard: the helper BEFORE the fixes (no pre-parse rewrites, prefix-only text/plain test, no final length test)
OldUri(in, hasSub, Sub(_)) ==
  LET p == AsIsParse(in) IN
  IF ~p.ok THEN in                                                        \* U1 not a data URI
  ELSE IF p.b64 /\ ~GoB64OK(p.raw) THEN in                                \* U2 base64 error
  ELSE
  LET data0 == IF p.b64 THEN B64Decode(GoB64Text(p.raw)) ELSE AsIsDecodeURL(p.raw)
      data == IF hasSub THEN Sub(data0) ELSE data0
      b64c == 7 + B64Len(Len(data))
      pctc == Len(data) + 2 * Count(data, TableEscape)
  IN IF Len(in) < b64c /\ Len(in) < pctc THEN in                          \* U3 original shorter than both
     ELSE
     LET useB64 == b64c < pctc
         mt1 == IF useB64 THEN p.mt \o <<59>> \o Base64Tok ELSE p.mt      \* U4 / U5
         enc == IF useB64 THEN B64Encode(data) ELSE PctEncodeWith(data, TableEscape)
         mt2 == IF Len(mt1) >= 10 /\ LowerSeq(SubSeq(mt1, 1, 10)) = TextPlain
                THEN SubSeq(mt1, 11, Len(mt1)) ELSE mt1                   \* U6 text/plain prefix stripped
         \* first ";charset=us-ascii" (any case) that is followed by the end or ";"
         hit == SelectInSeq(Idx(mt2), LAMBDA i :
                   /\ i + 16 <= Len(mt2) /\ mt2[i] = 59
                   /\ LowerSeq(SubSeq(mt2, i + 1, i + 16)) = CharsetAscii
                   /\ (i + 16 = Len(mt2) \/ mt2[i + 17] = 59))
         mt3 == IF hit = 0 THEN mt2 ELSE SubSeq(mt2, 1, hit - 1) \o SubSeq(mt2, hit + 17, Len(mt2))   \* U7
     IN Data5 \o mt3 \o <<44>> \o enc
OldNone(in) == OldUri(in, FALSE, LAMBDA x : x)

\* ---- the input construct of the remaining pinned finding K4 (same predicate as the generator's)
KnownUri(u) ==
  LET p == Parse(u) IN
  /\ p.ok
  /\ LET segs == Split(p.mt, 59)
         tsegs == [i \in 1..Len(segs) |-> Trim(segs[i])]
         pieces(s) == Split(s, 61)
     IN \E i \in 1..Len(tsegs) : \E k \in 1..Len(pieces(tsegs[i])) : Trim(pieces(tsegs[i])[k]) = Base64Tok     \* K4

\* ---- the old design is still rejected on the witnesses of the fixed findings
W_K1 == <<100,97,116,97,58,116,101,120,116,47,112,108,97,105,110,44,97,43,98>>              \* data:text/plain,a+b
W_K2 == <<100,97,116,97,58,59,99,104,97,114,115,101,116,61,117,116,102,45,56,44,120>>        \* data:;charset=utf-8,x
W_K3 == <<100,97,116,97,58,116,101,120,116,47,112,108,97,105,110,120,44,120>>                \* data:text/plainx,x
W_K5 == <<100,97,116,97,58,44,97,38,98>>                                                     \* data:,a&b
ASSUME /\ ~DataUriOK(W_K1, OldNone(W_K1), {}, <<>>) /\ DataUriOK(W_K1, AsIsNone(W_K1), {}, <<>>)
       /\ ~DataUriOK(W_K2, OldNone(W_K2), {}, <<>>) /\ DataUriOK(W_K2, AsIsNone(W_K2), {}, <<>>)
       /\ ~DataUriOK(W_K3, OldNone(W_K3), {}, <<>>) /\ DataUriOK(W_K3, AsIsNone(W_K3), {}, <<>>)
       /\ ~DataUriOK(W_K5, OldNone(W_K5), {}, <<>>) /\ DataUriOK(W_K5, AsIsNone(W_K5), {}, <<>>)
=============================================================================
