SPECIFICATION Spec
CONSTANTS MaxOps = 0
Ops2 <- NoOps
InjectBytes <- InjFew
Depths <- DepthsFew
AllowInPlace = TRUE
INVARIANTS ErrGivesOriginalInv
CHECK_DEADLOCK FALSE
