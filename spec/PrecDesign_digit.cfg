SPECIFICATION Spec
CONSTANTS MaxLen = 5
Alphabet <- PAlpha5
Precs <- PrecsDesign
Fault = "digit"
INVARIANTS Rounds
CHECK_DEADLOCK FALSE
