----------------------------- MODULE JsCore -----------------------------
(* C01: big-step semantics, in TLA+, of the ECMAScript fragment on which the rewrites of
   the JS minifier act, and the observation the property defines.

   Fragment (ECMA-262, 13th ed.; section numbers in the comments):
     statements   expr;  if/else  return  throw  var/let  block  for(;;)  while  break  continue
                  function declaration (top level) + call   try/catch   empty
     expressions  ! - + typeof void   && || ??   ?:   ,   =   == != === !==   + - < > <= >=
                  f(args)  a.b  a?.b  a?.()  0[0]   identifiers   literals
                  undefined null true false integers NaN strings
   AST node   : <<t, s, kids, n, x>>   t kind, s operator/name, kids sequence of nodes,
                n integer payload, x sequence of character codes (string payload)
   value      : [t, n, x, p]   t in u null b n nan nz s fn hf ho bi err tdz
   Run(prog, env) = [calls, globals, comp] is the observation of property C01:
     "the same sequence of calls into host functions with structurally equal arguments, the same
      final values of global variables, and the same completion (normal, or the same thrown value /
      error class)".  Function source text, .name/.length and error message wording are not part of
   any serialised value: programs that would expose them evaluate to the completion "unsup" and are
   outside what this semantics judges (the engine recorder still judges them). *)
EXTENDS Integers, Sequences, FiniteSets, TLC, SequencesExt

\* ---------------------------------------------------------------- AST access
NT(e) == e[1]
NS(e) == e[2]
NK(e) == e[3]
NN(e) == e[4]
NX(e) == e[5]
Kid(e, i) == e[3][i]
NKids(e) == Len(e[3])

\* ---------------------------------------------------------------- values
V(t, n, x, p) == [t |-> t, n |-> n, x |-> x, p |-> p]
Undef == V("u", 0, <<>>, "")
Null == V("null", 0, <<>>, "")
Bool(b) == V("b", IF b THEN 1 ELSE 0, <<>>, "")
Num(n) == V("n", n, <<>>, "")
NaNV == V("nan", 0, <<>>, "")
NegZero == V("nz", 0, <<>>, "")
Str(x) == V("s", 0, x, "")
FnV(i) == V("fn", i, <<>>, "")          \* user function number i of the program
HostFn(name, k) == V("hf", k, <<>>, name)   \* host function: logs the call, returns HostRet(k)
HostObj(name) == V("ho", 0, <<>>, name)     \* host object: logs get/set/conversion
Builtin(name) == V("bi", 0, <<>>, name)
Err(cls) == V("err", 0, <<>>, cls)          \* error object created by the engine (message not observable)
TDZ == V("tdz", 0, <<>>, "")

IsNullish(v) == v.t = "u" \/ v.t = "null"
IsObject(v) == v.t \in {"fn", "hf", "ho", "bi", "err"}
IsCallable(v) == v.t \in {"fn", "hf", "bi"}
IsNumeric(v) == v.t \in {"n", "nan", "nz"}

\* what host function kind k returns
HostRet(k) == CASE k = 0 -> Undef [] k = 1 -> Num(1) [] k = 2 -> Str(<<115>>) [] k = 3 -> Null [] OTHER -> Num(0)
\* what reading a property of a host object returns, and what converting it to a primitive returns
HostGet == Num(1)
HostPrim(hint) == IF hint = "string" THEN Str(<<49>>) ELSE Num(1)

\* ---------------------------------------------------------------- strings (sequences of character codes)
RECURSIVE Digits(_)
Digits(n) == IF n < 10 THEN <<48 + n>> ELSE Digits(n \div 10) \o <<48 + (n % 10)>>
NumStr(n) == IF n < 0 THEN <<45>> \o Digits(0 - n) ELSE Digits(n)
CUndefined == <<117, 110, 100, 101, 102, 105, 110, 101, 100>>
CNull == <<110, 117, 108, 108>>
CTrue == <<116, 114, 117, 101>>
CFalse == <<102, 97, 108, 115, 101>>
CNaN == <<78, 97, 78>>
CObject == <<111, 98, 106, 101, 99, 116>>
CBoolean == <<98, 111, 111, 108, 101, 97, 110>>
CNumber == <<110, 117, 109, 98, 101, 114>>
CString == <<115, 116, 114, 105, 110, 103>>
CFunction == <<102, 117, 110, 99, 116, 105, 111, 110>>

\* 7.1.4.1 StringToNumber for the strings that can arise here (no white space, no exponent/hex forms)
IsDigitSeq(x) == x # <<>> /\ \A i \in 1..Len(x) : x[i] >= 48 /\ x[i] <= 57
StrToNum(x) ==
  LET neg == x # <<>> /\ x[1] = 45
      pos == x # <<>> /\ x[1] = 43
      body == IF neg \/ pos THEN Tail(x) ELSE x
  IN IF x = <<>> THEN Num(0)
     ELSE IF IsDigitSeq(body) /\ Len(body) <= 8
       THEN LET m == FoldLeft(LAMBDA a, c : a * 10 + (c - 48), 0, body)
            IN IF neg THEN (IF m = 0 THEN NegZero ELSE Num(0 - m)) ELSE Num(m)
       ELSE NaNV
\* strings whose numeric meaning this model does not cover ("Infinity", long digit strings, white space)
StrNumUnsup(x) ==
  \/ (\E i \in 1..Len(x) : x[i] \in {32, 9, 10, 13, 73, 120, 88, 101, 69, 46})
  \/ Len(x) > 8 /\ IsDigitSeq(IF x[1] \in {43, 45} THEN Tail(x) ELSE x)

\* 7.1.2 ToBoolean
ToBool(v) == CASE v.t \in {"u", "null", "nan", "nz"} -> FALSE
               [] v.t = "b" -> v.n = 1
               [] v.t = "n" -> v.n # 0
               [] v.t = "s" -> v.x # <<>>
               [] OTHER -> TRUE
\* 7.1.4 ToNumber on primitives
PrimToNum(v) == CASE v.t = "u" -> NaNV
                  [] v.t = "null" -> Num(0)
                  [] v.t = "b" -> Num(v.n)
                  [] v.t = "s" -> StrToNum(v.x)
                  [] OTHER -> v
\* 7.1.17 ToString on primitives
PrimToStr(v) == CASE v.t = "u" -> CUndefined
                  [] v.t = "null" -> CNull
                  [] v.t = "b" -> (IF v.n = 1 THEN CTrue ELSE CFalse)
                  [] v.t = "n" -> NumStr(v.n)
                  [] v.t = "nan" -> CNaN
                  [] v.t = "nz" -> <<48>>
                  [] OTHER -> v.x
\* 13.5.3 typeof
TypeOf(v) == CASE v.t = "u" -> CUndefined
               [] v.t \in {"null", "ho", "err"} -> CObject
               [] v.t = "b" -> CBoolean
               [] IsNumeric(v) -> CNumber
               [] v.t = "s" -> CString
               [] OTHER -> CFunction

\* numbers: integers, NaN and negative zero (6.1.6.1)
NumNeg(v) == CASE v.t = "n" -> (IF v.n = 0 THEN NegZero ELSE Num(0 - v.n)) [] v.t = "nz" -> Num(0) [] OTHER -> NaNV
NumAdd(a, b) == CASE a.t = "nan" \/ b.t = "nan" -> NaNV
                  [] a.t = "nz" /\ b.t = "nz" -> NegZero
                  [] a.t = "nz" -> b
                  [] b.t = "nz" -> a
                  [] OTHER -> Num(a.n + b.n)
NumVal(v) == IF v.t = "n" THEN v.n ELSE 0
\* 7.2.13 IsLessThan on numbers / strings; the result "u" means undefined (a NaN operand)
NumLess(a, b) == IF a.t = "nan" \/ b.t = "nan" THEN "u" ELSE IF NumVal(a) < NumVal(b) THEN "t" ELSE "f"
RECURSIVE SeqLess(_, _)
SeqLess(x, y) == IF y = <<>> THEN FALSE ELSE IF x = <<>> THEN TRUE
                 ELSE IF x[1] # y[1] THEN x[1] < y[1] ELSE SeqLess(Tail(x), Tail(y))

\* 7.2.15 IsStrictlyEqual
StrictEq(a, b) ==
  CASE IsNumeric(a) /\ IsNumeric(b) -> a.t # "nan" /\ b.t # "nan" /\ NumVal(a) = NumVal(b)
    [] a.t # b.t -> FALSE
    [] a.t \in {"u", "null"} -> TRUE
    [] a.t = "b" -> a.n = b.n
    [] a.t = "s" -> a.x = b.x
    [] a.t = "fn" -> a.n = b.n
    [] a.t \in {"hf", "ho", "bi"} -> a.p = b.p
    [] OTHER -> FALSE          \* two error objects are never the same object here

\* ---------------------------------------------------------------- serialisation (same atoms as js/c01_prelude.js)
Quote(x) == <<34>> \o x \o <<34>>
Ser(v) == CASE v.t = "u" -> <<117>>
            [] v.t = "null" -> CNull
            [] v.t = "b" -> (IF v.n = 1 THEN <<84>> ELSE <<70>>)
            [] v.t = "n" -> <<110, 58>> \o NumStr(v.n)
            [] v.t = "nan" -> <<110, 58>> \o CNaN
            [] v.t = "nz" -> <<110, 58, 45, 48>>
            [] v.t = "s" -> <<115, 58>> \o Quote(v.x)
            [] v.t \in {"fn", "bi"} -> <<102, 110>>
            [] v.t \in {"hf", "ho"} -> <<72, 58>>           \* "H:" + path; the path travels next to it
            [] v.t = "err" -> <<69, 58>>                    \* "E:" + class, likewise
            [] OTHER -> <<63>>
\* an observed atom: <<codes, name>> (name = host path or error class, "" otherwise)
Atom(v) == <<Ser(v), IF v.t \in {"hf", "ho", "err"} THEN v.p ELSE "">>

\* ---------------------------------------------------------------- state and completions
(* st = [g     global object: name -> value (environment bindings, var, function declarations, implicit globals)
         gl    global lexical declarations (top-level let)
         sc    scope stack of the running function / of top-level blocks (innermost last): name -> value
         infn  inside a function activation
         strict, fns (function declaration nodes), log (host interactions), fuel] *)
Put(m, k, v) == [y \in (DOMAIN m) \cup {k} |-> IF y = k THEN v ELSE m[y]]
Comp(c, v, st) == [c |-> c, v |-> v, st |-> st]
Norm(v, st) == Comp("n", v, st)
Throw(v, st) == Comp("thr", v, st)
Unsup(st) == Comp("unsup", Undef, st)
\* sequencing: continue with F only after a normal completion (each argument is mentioned once)
Then(r, F(_)) == IF r.c = "n" THEN F(r) ELSE r
Log(st, entry) == [st EXCEPT !.log = Append(@, entry)]

MaxOf(S) == CHOOSE i \in S : \A j \in S : j <= i
Where(st, nm) ==
  LET hits == {i \in 1..Len(st.sc) : nm \in DOMAIN st.sc[i]}
  IN IF hits # {} THEN <<"sc", MaxOf(hits)>>
     ELSE IF nm \in DOMAIN st.gl THEN <<"gl", 0>>
     ELSE IF nm \in DOMAIN st.g THEN <<"g", 0>>
     ELSE IF nm \in {"undefined", "NaN", "isNaN"} THEN <<"bi", 0>>
     ELSE <<"none", 0>>
BuiltinVal(nm) == CASE nm = "undefined" -> Undef [] nm = "NaN" -> NaNV [] OTHER -> Builtin(nm)
GetAt(st, w, nm) == CASE w[1] = "sc" -> st.sc[w[2]][nm] [] w[1] = "gl" -> st.gl[nm] [] w[1] = "g" -> st.g[nm]
                      [] OTHER -> BuiltinVal(nm)
SetAt(st, w, nm, v) == CASE w[1] = "sc" -> [st EXCEPT !.sc[w[2]] = Put(@, nm, v)]
                         [] w[1] = "gl" -> [st EXCEPT !.gl = Put(@, nm, v)]
                         [] OTHER -> [st EXCEPT !.g = Put(@, nm, v)]

\* 9.1.1.4 / 6.2.5.5 GetValue of an identifier reference
ReadVar(st, nm) ==
  LET w == Where(st, nm)
  IN IF w[1] = "none" THEN Throw(Err("ReferenceError"), st)
     ELSE LET v == GetAt(st, w, nm) IN IF v.t = "tdz" THEN Comp("tdz", Undef, st) ELSE Norm(v, st)
\* 6.2.5.6 PutValue on an identifier reference
WriteVar(st, nm, v) ==
  LET w == Where(st, nm)
  IN CASE w[1] = "none" -> IF st.strict THEN Throw(Err("ReferenceError"), st) ELSE Norm(v, [st EXCEPT !.g = Put(@, nm, v)])
       [] w[1] = "bi" -> IF st.strict THEN Throw(Err("TypeError"), st) ELSE Norm(v, st)      \* undefined, NaN are read-only
       [] OTHER -> IF GetAt(st, w, nm).t = "tdz" THEN Comp("tdz", Undef, st) ELSE Norm(v, SetAt(st, w, nm, v))

\* 7.1.1 ToPrimitive: primitives are themselves; host objects log the conversion; functions and error objects
\* would expose source text / message wording
ToPrim(v, hint, st) ==
  CASE ~IsObject(v) -> Norm(v, st)
    [] v.t = "ho" -> Norm(HostPrim(hint), Log(st, <<"prim", v.p, hint>>))
    [] OTHER -> Unsup(st)
ToNumC(v, st) == Then(ToPrim(v, "number", st),
                      LAMBDA r : IF r.v.t = "s" /\ StrNumUnsup(r.v.x) THEN Unsup(r.st) ELSE Norm(PrimToNum(r.v), r.st))

\* 13.15.3 ApplyStringOrNumericBinaryOperator for +
Plus(a, b, st) ==
  Then(ToPrim(a, "default", st), LAMBDA ra :
  Then(ToPrim(b, "default", ra.st), LAMBDA rb :
    IF ra.v.t = "s" \/ rb.v.t = "s" THEN Norm(Str(PrimToStr(ra.v) \o PrimToStr(rb.v)), rb.st)
    ELSE IF (ra.v.t = "s" /\ StrNumUnsup(ra.v.x)) THEN Unsup(rb.st)
    ELSE Norm(NumAdd(PrimToNum(ra.v), PrimToNum(rb.v)), rb.st)))
Minus(a, b, st) ==
  Then(ToNumC(a, st), LAMBDA ra : Then(ToNumC(b, ra.st), LAMBDA rb : Norm(NumAdd(ra.v, NumNeg(rb.v)), rb.st)))
\* 7.2.13 IsLessThan(x, y, LeftFirst); swap = operands exchanged (for > and <=), neg = result negated (<= >=)
Less(a, b, swap, neg, st) ==
  Then(ToPrim(a, "number", st), LAMBDA ra :
  Then(ToPrim(b, "number", ra.st), LAMBDA rb :
    LET x == IF swap THEN rb.v ELSE ra.v
        y == IF swap THEN ra.v ELSE rb.v
    IN IF x.t = "s" /\ y.t = "s"
         THEN Norm(Bool(IF neg THEN ~SeqLess(x.x, y.x) ELSE SeqLess(x.x, y.x)), rb.st)
       ELSE IF (x.t = "s" /\ StrNumUnsup(x.x)) \/ (y.t = "s" /\ StrNumUnsup(y.x)) THEN Unsup(rb.st)
       ELSE LET l == NumLess(PrimToNum(x), PrimToNum(y))
            IN Norm(Bool(IF neg THEN l = "f" ELSE l = "t"), rb.st)))
\* 7.2.14 IsLooselyEqual
RECURSIVE LooseEq(_, _, _)
LooseEq(a, b, st) ==
  CASE (IsNumeric(a) /\ IsNumeric(b)) \/ a.t = b.t -> Norm(Bool(StrictEq(a, b)), st)
    [] IsNullish(a) /\ IsNullish(b) -> Norm(Bool(TRUE), st)
    [] IsNullish(a) \/ IsNullish(b) -> Norm(Bool(FALSE), st)
    [] IsNumeric(a) /\ b.t = "s" -> IF StrNumUnsup(b.x) THEN Unsup(st) ELSE Norm(Bool(StrictEq(a, StrToNum(b.x))), st)
    [] a.t = "s" /\ IsNumeric(b) -> IF StrNumUnsup(a.x) THEN Unsup(st) ELSE Norm(Bool(StrictEq(StrToNum(a.x), b)), st)
    [] a.t = "b" -> LooseEq(Num(a.n), b, st)
    [] b.t = "b" -> LooseEq(a, Num(b.n), st)
    [] IsObject(a) /\ IsObject(b) -> Norm(Bool(StrictEq(a, b)), st)
    [] IsObject(b) -> Then(ToPrim(b, "default", st), LAMBDA r : LooseEq(a, r.v, r.st))
    [] IsObject(a) -> Then(ToPrim(a, "default", st), LAMBDA r : LooseEq(r.v, b, r.st))
    [] OTHER -> Norm(Bool(FALSE), st)

BinOp(op, a, b, st) ==
  CASE op = "+" -> Plus(a, b, st)
    [] op = "-" -> Minus(a, b, st)
    [] op = "<" -> Less(a, b, FALSE, FALSE, st)
    [] op = ">" -> Less(a, b, TRUE, FALSE, st)
    [] op = "<=" -> Less(a, b, TRUE, TRUE, st)
    [] op = ">=" -> Less(a, b, FALSE, TRUE, st)
    [] op = "==" -> LooseEq(a, b, st)
    [] op = "!=" -> Then(LooseEq(a, b, st), LAMBDA r : Norm(Bool(r.v.n = 0), r.st))
    [] op = "===" -> Norm(Bool(StrictEq(a, b)), st)
    [] op = "!==" -> Norm(Bool(~StrictEq(a, b)), st)
    [] OTHER -> Unsup(st)

\* property names whose lookup on primitives / functions is plainly undefined (nothing on the prototypes)
PlainProp(p) == p \in {"b", "c", "d", "x", "y", "p", "q"}
\* 13.3.2 property read: base value v, property name p
GetProp(v, p, st) ==
  CASE IsNullish(v) -> Throw(Err("TypeError"), st)
    [] v.t = "ho" -> Norm(HostGet, Log(st, <<"get", v.p, p>>))
    [] v.t \in {"err"} -> Unsup(st)
    [] PlainProp(p) -> Norm(Undef, st)
    [] OTHER -> Unsup(st)
\* 6.2.5.6 PutValue on a property reference
SetProp(v, p, val, st) ==
  CASE IsNullish(v) -> Throw(Err("TypeError"), st)
    [] v.t = "ho" -> Norm(val, Log(st, <<"set", v.p, p, Atom(val)>>))
    [] v.t \in {"fn", "hf", "bi", "err"} -> Unsup(st)           \* would need object state
    [] OTHER -> IF st.strict THEN Throw(Err("TypeError"), st) ELSE Norm(val, st)   \* primitives: silently ignored when sloppy

\* ---------------------------------------------------------------- declarations instantiated on entry (10.2.11, 16.1.7)
RECURSIVE VarNames(_)
\* names declared with var in a statement (not crossing function boundaries)
VarNames(s) ==
  CASE NT(s) = "var" /\ NS(s) = "var" -> {NS(NK(s)[i]) : i \in 1..NKids(s)}
    [] NT(s) \in {"if", "block", "for", "while", "try", "prog", "body"} -> UNION {VarNames(NK(s)[i]) : i \in 1..NKids(s)}
    [] OTHER -> {}
\* names declared with let directly in a statement list
LetNames(list) == UNION {IF NT(list[i]) = "var" /\ NS(list[i]) = "let" THEN {NS(NK(list[i])[j]) : j \in 1..NKids(list[i])} ELSE {}
                         : i \in 1..Len(list)}
MapOf(names, v) == [y \in names |-> v]
Merge(m, names, v) == [y \in (DOMAIN m) \cup names |-> IF y \in DOMAIN m THEN m[y] ELSE v]

\* ---------------------------------------------------------------- evaluation
RECURSIVE EvalE(_, _), EvalArgs(_, _, _, _), EvalS(_, _), EvalList(_, _, _), Loop(_, _, _), CallFn(_, _, _), Decls(_, _, _)

\* evaluates kids from..Len of e as arguments; result value carrier: r.v is unused, args accumulate in acc
EvalArgs(list, i, acc, st) ==
  IF i > Len(list) THEN Comp("n", Undef, [st EXCEPT !.tmp = acc])
  ELSE Then(EvalE(list[i], st), LAMBDA r : EvalArgs(list, i + 1, Append(acc, r.v), r.st))

\* 10.2.1 [[Call]] of the values that can be called here
CallVal(f, args, st) ==
  CASE f.t = "hf" -> Norm(HostRet(f.n), Log(st, <<"call", f.p>> \o [i \in 1..Len(args) |-> Atom(args[i])]))
    [] f.t = "bi" -> IF f.p = "isNaN"
                       THEN Then(ToNumC(IF args = <<>> THEN Undef ELSE args[1], st), LAMBDA r : Norm(Bool(r.v.t = "nan"), r.st))
                       ELSE Unsup(st)
    [] f.t = "fn" -> CallFn(f.n, args, st)
    [] OTHER -> Throw(Err("TypeError"), st)

CallFn(i, args, st) ==
  IF st.fuel <= 0 THEN Comp("fuel", Undef, st)
  ELSE
    LET fnode == st.fns[i]
        params == NK(Kid(fnode, 1))
        body == Kid(fnode, 2)
        pm == [y \in {NS(params[j]) : j \in 1..Len(params)} |->
                 LET js == {j \in 1..Len(params) : NS(params[j]) = y} IN
                 IF MaxOf(js) <= Len(args) THEN args[MaxOf(js)] ELSE Undef]
        scope == Merge(Merge(pm, VarNames(body), Undef), LetNames(NK(body)), TDZ)
        inner == [st EXCEPT !.sc = <<scope>>, !.infn = TRUE, !.fuel = @ - 1]
        r == EvalList(NK(body), 1, inner)
        back == [r.st EXCEPT !.sc = st.sc, !.infn = st.infn]
    IN CASE r.c = "ret" -> Norm(r.v, back)
         [] r.c = "n" -> Norm(Undef, back)
         [] r.c \in {"brk", "cnt"} -> Unsup(back)
         [] OTHER -> Comp(r.c, r.v, back)

EvalE(e, st) ==
  LET t == NT(e) IN
  CASE t = "lit" ->
         Norm(CASE NS(e) = "null" -> Null [] NS(e) = "T" -> Bool(TRUE) [] NS(e) = "F" -> Bool(FALSE)
                [] NS(e) = "n" -> Num(NN(e)) [] OTHER -> Str(NX(e)), st)
    [] t = "id" -> ReadVar(st, NS(e))
    [] t = "un" ->
         IF NS(e) = "typeof" /\ NT(Kid(e, 1)) = "id" /\ Where(st, NS(Kid(e, 1)))[1] = "none"
           THEN Norm(Str(CUndefined), st)                                          \* 13.5.3: unresolvable reference
         ELSE Then(EvalE(Kid(e, 1), st), LAMBDA r :
           CASE NS(e) = "!" -> Norm(Bool(~ToBool(r.v)), r.st)
             [] NS(e) = "void" -> Norm(Undef, r.st)
             [] NS(e) = "typeof" -> Norm(Str(TypeOf(r.v)), r.st)
             [] NS(e) = "-" -> Then(ToNumC(r.v, r.st), LAMBDA q : Norm(NumNeg(q.v), q.st))
             [] NS(e) = "+" -> ToNumC(r.v, r.st)
             [] OTHER -> Unsup(r.st))
    [] t = "bin" -> Then(EvalE(Kid(e, 1), st), LAMBDA ra : Then(EvalE(Kid(e, 2), ra.st), LAMBDA rb : BinOp(NS(e), ra.v, rb.v, rb.st)))
    [] t = "log" ->
         Then(EvalE(Kid(e, 1), st), LAMBDA r :
           CASE NS(e) = "&&" -> IF ToBool(r.v) THEN EvalE(Kid(e, 2), r.st) ELSE r
             [] NS(e) = "||" -> IF ToBool(r.v) THEN r ELSE EvalE(Kid(e, 2), r.st)
             [] OTHER -> IF IsNullish(r.v) THEN EvalE(Kid(e, 2), r.st) ELSE r)
    [] t = "cond" -> Then(EvalE(Kid(e, 1), st), LAMBDA r : IF ToBool(r.v) THEN EvalE(Kid(e, 2), r.st) ELSE EvalE(Kid(e, 3), r.st))
    [] t = "seq" -> Then(EvalArgs(NK(e), 1, <<>>, st), LAMBDA r : Norm(r.st.tmp[Len(r.st.tmp)], r.st))
    [] t = "asg" ->
         IF NS(e) # "=" THEN Unsup(st)
         ELSE IF NT(Kid(e, 1)) = "id"
           THEN Then(EvalE(Kid(e, 2), st), LAMBDA r : WriteVar(r.st, NS(Kid(e, 1)), r.v))
         ELSE IF NT(Kid(e, 1)) = "mem" /\ NN(Kid(e, 1)) = 0
           \* 13.15.2: the base is evaluated first, then the right-hand side, then PutValue
           THEN Then(EvalE(Kid(Kid(e, 1), 1), st), LAMBDA rb :
                Then(EvalE(Kid(e, 2), rb.st), LAMBDA rv : SetProp(rb.v, NS(Kid(e, 1)), rv.v, rv.st)))
         ELSE Unsup(st)
    [] t = "mem" ->
         LET rb == EvalE(Kid(e, 1), st) IN
         IF rb.c # "n" THEN rb
         ELSE IF NN(e) = 1 /\ IsNullish(rb.v) THEN Comp("short", Undef, rb.st)     \* 13.3.9 optional chain short-circuit
         ELSE GetProp(rb.v, NS(e), rb.st)
    [] t = "idx" ->
         \* only  number[number]  (the minifier spells undefined as 0[0]): no such property on Number.prototype
         Then(EvalE(Kid(e, 1), st), LAMBDA ra : Then(EvalE(Kid(e, 2), ra.st), LAMBDA rb :
           IF ra.v.t = "n" /\ rb.v.t = "n" THEN Norm(Undef, rb.st) ELSE Unsup(rb.st)))
    [] t = "chain" -> LET r == EvalE(Kid(e, 1), st) IN IF r.c = "short" THEN Norm(Undef, r.st) ELSE r
    [] t = "call" ->
         LET callee == Kid(e, 1)
             args == SubSeq(NK(e), 2, NKids(e))
         IN IF NT(callee) = "mem"
              THEN LET rb == EvalE(Kid(callee, 1), st) IN
                   IF rb.c # "n" THEN rb
                   ELSE IF NN(callee) = 1 /\ IsNullish(rb.v) THEN Comp("short", Undef, rb.st)
                   ELSE Then(GetProp(rb.v, NS(callee), rb.st), LAMBDA rf :
                        IF NN(e) = 1 /\ IsNullish(rf.v) THEN Comp("short", Undef, rf.st)
                        ELSE Then(EvalArgs(args, 1, <<>>, rf.st), LAMBDA ra : CallVal(rf.v, ra.st.tmp, ra.st)))
            ELSE Then(EvalE(callee, st), LAMBDA rf :
                   IF NN(e) = 1 /\ IsNullish(rf.v) THEN Comp("short", Undef, rf.st)
                   ELSE Then(EvalArgs(args, 1, <<>>, rf.st), LAMBDA ra : CallVal(rf.v, ra.st.tmp, ra.st)))
    [] OTHER -> Unsup(st)

\* 14.3: declarators left to right; `var x` without initialiser does nothing, `let x` initialises to undefined
Decls(s, i, cur) ==
  IF i > NKids(s) THEN Norm(Undef, cur)
  ELSE LET d == Kid(s, i)
           nm == NS(d)
       IN IF NKids(d) = 0
            THEN IF NS(s) = "var" THEN Decls(s, i + 1, cur)
                 ELSE Decls(s, i + 1, SetAt(cur, Where(cur, nm), nm, Undef))
          ELSE Then(EvalE(Kid(d, 1), cur), LAMBDA r :
                 IF NS(s) = "var" THEN Then(WriteVar(r.st, nm, r.v), LAMBDA w : Decls(s, i + 1, w.st))
                 ELSE Decls(s, i + 1, SetAt(r.st, Where(r.st, nm), nm, r.v)))

\* statement list; completions other than normal end the list
EvalList(list, i, st) ==
  IF i > Len(list) THEN Norm(Undef, st)
  ELSE Then(EvalS(list[i], st), LAMBDA r : EvalList(list, i + 1, r.st))

\* for(init; test; update) body  and  while(test) body  (test/update may be the filler <<"empty",...>>)
Loop(e, first, st) ==
  IF st.fuel <= 0 THEN Comp("fuel", Undef, st)
  ELSE
    LET test == Kid(e, 2)
        upd == Kid(e, 3)
        body == Kid(e, 4)
        st1 == [st EXCEPT !.fuel = @ - 1]
        ru == IF first \/ NT(upd) = "empty" THEN Norm(Undef, st1) ELSE EvalE(upd, st1)
    IN Then(ru, LAMBDA r0 :
       Then(IF NT(test) = "empty" THEN Norm(Bool(TRUE), r0.st) ELSE EvalE(test, r0.st), LAMBDA rt :
         IF ~ToBool(rt.v) THEN Norm(Undef, rt.st)
         ELSE LET rb == EvalS(body, rt.st) IN
              CASE rb.c = "brk" -> Norm(Undef, rb.st)
                [] rb.c \in {"n", "cnt"} -> Loop(e, FALSE, rb.st)
                [] OTHER -> rb))

EvalS(s, st) ==
  LET t == NT(s) IN
  CASE t = "expr" -> Then(EvalE(Kid(s, 1), st), LAMBDA r : Norm(Undef, r.st))
    [] t = "empty" -> Norm(Undef, st)
    [] t = "var" -> IF NS(s) \in {"var", "let"} THEN Decls(s, 1, st) ELSE Unsup(st)
    [] t = "if" ->
         Then(EvalE(Kid(s, 1), st), LAMBDA r :
           IF ToBool(r.v) THEN EvalS(Kid(s, 2), r.st)
           ELSE IF NKids(s) = 3 THEN EvalS(Kid(s, 3), r.st) ELSE Norm(Undef, r.st))
    [] t = "ret" -> IF ~st.infn THEN Unsup(st)
                    ELSE IF NKids(s) = 0 THEN Comp("ret", Undef, st)
                    ELSE Then(EvalE(Kid(s, 1), st), LAMBDA r : Comp("ret", r.v, r.st))
    [] t = "throw" -> Then(EvalE(Kid(s, 1), st), LAMBDA r : Throw(r.v, r.st))
    [] t = "break" -> Comp("brk", Undef, st)
    [] t = "cont" -> Comp("cnt", Undef, st)
    [] t = "block" ->
         LET inner == [st EXCEPT !.sc = Append(@, MapOf(LetNames(NK(s)), TDZ))]
             r == EvalList(NK(s), 1, inner)
         IN Comp(r.c, r.v, [r.st EXCEPT !.sc = SubSeq(@, 1, Len(st.sc))])
    [] t = "for" ->
         \* the init part has its own scope when it is a let declaration
         LET init == Kid(s, 1)
             inner == [st EXCEPT !.sc = Append(@, IF NT(init) = "var" /\ NS(init) = "let" THEN MapOf(LetNames(<<init>>), TDZ) ELSE MapOf({}, TDZ))]
             ri == CASE NT(init) = "empty" -> Norm(Undef, inner) [] NT(init) = "var" -> EvalS(init, inner) [] OTHER -> EvalE(init, inner)
             r == Then(ri, LAMBDA q : Loop(s, TRUE, q.st))
         IN Comp(r.c, r.v, [r.st EXCEPT !.sc = SubSeq(@, 1, Len(st.sc))])
    [] t = "while" -> Loop(<<"for", "", <<<<"empty", "", <<>>, 0, <<>>>>, Kid(s, 1), <<"empty", "", <<>>, 0, <<>>>>, Kid(s, 2)>>, 0, <<>>>>, TRUE, st)
    [] t = "try" ->
         LET rb == EvalS(Kid(s, 1), st) IN
         IF rb.c # "thr" THEN rb
         ELSE LET param == Kid(s, 2)
                  h == Kid(s, 3)
                  sc0 == SubSeq(rb.st.sc, 1, Len(st.sc))
                  inner == [rb.st EXCEPT !.sc = Append(sc0, IF NT(param) = "id" THEN MapOf({NS(param)}, rb.v) ELSE MapOf({}, Undef))]
                  r == EvalS(h, inner)
              IN Comp(r.c, r.v, [r.st EXCEPT !.sc = SubSeq(@, 1, Len(st.sc))])
    [] t = "func" -> IF st.infn \/ Len(st.sc) > 0 THEN Unsup(st) ELSE Norm(Undef, st)     \* top-level declarations were hoisted
    [] OTHER -> Unsup(st)

\* ---------------------------------------------------------------- programs and observations
TopFuncs(prog) == SelectSeq(NK(prog), LAMBDA s : NT(s) = "func")
\* env: function from the free names of the program to values (names mapped to the marker value "unbound" stay undeclared)
Unbound == V("unbound", 0, <<>>, "")
Run(prog, env, fuel) ==
  LET fns == TopFuncs(prog)
      bound == {nm \in DOMAIN env : env[nm].t # "unbound"}
      g0 == [nm \in bound |-> env[nm]]
      g1 == Merge(g0, VarNames(prog), Undef)
      \* function declarations are initialised on entry, later declarations of the same name win (16.1.7)
      g2 == [nm \in (DOMAIN g1) \cup {NS(fns[i]) : i \in 1..Len(fns)} |->
               LET is == {i \in 1..Len(fns) : NS(fns[i]) = nm} IN IF is # {} THEN FnV(MaxOf(is)) ELSE g1[nm]]
      st0 == [g |-> g2, gl |-> MapOf(LetNames(NK(prog)), TDZ), sc |-> <<>>, infn |-> FALSE, strict |-> NS(prog) = "strict",
              fns |-> fns, log |-> <<>>, fuel |-> fuel, tmp |-> <<>>]
      r == EvalList(NK(prog), 1, st0)
  IN [c |-> r.c,
      calls |-> r.st.log,
      globals |-> {<<nm, "var", Atom(r.st.g[nm])>> : nm \in DOMAIN r.st.g}
                  \cup {<<nm, "lex", Atom(r.st.gl[nm])>> : nm \in {x \in DOMAIN r.st.gl : r.st.gl[x].t # "tdz"}},
      comp |-> CASE r.c = "n" -> <<"normal", "", <<>>>>
                 [] r.c = "thr" -> <<"throw", IF r.v.t = "err" THEN r.v.p ELSE "value", Ser(r.v)>>
                 [] OTHER -> <<r.c, "", <<>>>>]

\* the completion kinds that put a run outside what this semantics judges
OutOfModel(o) == o.c \in {"unsup", "fuel", "tdz", "ret", "brk", "cnt", "short"}

\* C01 on two observations
ObsEq(a, b) == a.calls = b.calls /\ a.globals = b.globals /\ a.comp = b.comp
=============================================================================
