--------------------------- MODULE RegistryTyped ---------------------------
(* C15, unbounded: the registry over the finite universe of Registry.tla's design model
   (9 query mimetypes, of which 1..3 can be registered literally; 3 patterns with overlapping
   match sets) for registration histories of ANY length, checked with Apalache by an inductive
   invariant (no bound on the number of registrations).

   State.  Apalache has no unbounded sequences, so the ordered pattern list is carried in the
   form in which the scan of MinifyMimetype/Match uses it:
       n            number of registrations so far (the id of a registration is its position)
       litId[m]     id of the entry in the literal map for mimetype m, 0 = none        (M.literal)
       patFirst[p]  id of the FIRST element of the pattern list with pattern p, 0 = none (M.pattern:
                    elements are in id order, a later duplicate of p can never be the first match)
   That this is the same lookup as Registry.tla's literal map + list is checked by TLC on all
   histories of the bounded model (Registry.AbstractionAgrees).
   The history is unbounded, so the properties are stated about ONE registration event chosen
   arbitrarily out of it and remembered in the ghost variables w (the event) and wSup (a later
   literal registration of the same mimetype happened).  Since the choice is arbitrary, what holds
   for w holds for every event of every history:
       LiteralWins         a literally registered mimetype is served by a literal entry
       ReRegisterReplaces  ... namely by the last registration of that literal
       FirstPatternWins    a mimetype without literal entry that a registered pattern matches is served
                           by a matching pattern registered no later than that one
   The six registration kinds collapse to two actions (Add/AddFunc/AddCmd replace the literal entry,
   AddRegexp/AddFuncRegexp/AddCmdRegexp append): the kind never takes part in the dispatch.

   apalache-mc check --init=Init    --inv=IndInv --length=0 RegistryTyped.tla     (base)
   apalache-mc check --init=IndInit --inv=IndInv --length=1 RegistryTyped.tla     (step)
   apalache-mc check --init=IndInit --inv=Safety --length=0 RegistryTyped.tla     (IndInv => properties) *)
EXTENDS Integers

VARIABLES
  \* @type: Int;
  n,
  \* @type: Int -> Int;
  litId,
  \* @type: Int -> Int;
  patFirst,
  \* @type: { kind: Str, t: Int, id: Int };
  w,
  \* @type: Bool;
  wSup

Mimes == 1..9          \* text/css image/svg+xml text/xml application/xml text/plain application/json Text/CSS text/* */*
LitMimes == 1..3       \* the mimetypes that are registered literally
PatIds == 1..3         \* ^text/   [/+]xml$   .*
\* @type: Set(<<Int, Int>>);
MatchTable == { <<1, 1>>, <<1, 3>>, <<1, 5>>, <<1, 8>>,
                <<2, 2>>, <<2, 3>>, <<2, 4>>,
                <<3, 1>>, <<3, 2>>, <<3, 3>>, <<3, 4>>, <<3, 5>>, <<3, 6>>, <<3, 7>>, <<3, 8>>, <<3, 9>> }
Matches(p, m) == <<p, m>> \in MatchTable

NoEvent == [kind |-> "none", t |-> 0, id |-> 0]

Init ==
  /\ n = 0
  /\ litId = [m \in Mimes |-> 0]
  /\ patFirst = [p \in PatIds |-> 0]
  /\ w = NoEvent
  /\ wSup = FALSE

\* the ghost either keeps its event or takes the one that happens now
Remember(kind, t, supersedes) ==
  \/ /\ w' = [kind |-> kind, t |-> t, id |-> n + 1] /\ wSup' = FALSE
  \/ /\ w' = w /\ wSup' = (wSup \/ supersedes)

\* Add / AddFunc / AddCmd
RegLit(m) ==
  /\ n' = n + 1
  /\ litId' = [litId EXCEPT ![m] = n + 1]
  /\ patFirst' = patFirst
  /\ Remember("lit", m, w.kind = "lit" /\ w.t = m)
\* AddRegexp / AddFuncRegexp / AddCmdRegexp
RegPat(p) ==
  /\ n' = n + 1
  /\ patFirst' = IF patFirst[p] = 0 THEN [patFirst EXCEPT ![p] = n + 1] ELSE patFirst
  /\ litId' = litId
  /\ Remember("pat", p, FALSE)
Next == (\E m \in LitMimes : RegLit(m)) \/ (\E p \in PatIds : RegPat(p))
\* wrong design, vacuity guard of the inductive step: a re-registered pattern moves to its new position
\* ("last registered pattern wins");  check --init=IndInit --next=NextLastWins --inv=IndInv --length=1  must fail
RegPatLast(p) ==
  /\ n' = n + 1
  /\ patFirst' = [patFirst EXCEPT ![p] = n + 1]
  /\ litId' = litId
  /\ Remember("pat", p, FALSE)
NextLastWins == (\E m \in LitMimes : RegLit(m)) \/ (\E p \in PatIds : RegPatLast(p))

\* literal first, else the first-registered matching pattern, else 0 (ErrNotExist)
Cands(m) == {p \in PatIds : patFirst[p] # 0 /\ Matches(p, m)}
WinnerPat(m) == CHOOSE p \in Cands(m) : \A q \in Cands(m) : patFirst[p] <= patFirst[q]
LookupId(m) == IF litId[m] # 0 THEN litId[m] ELSE IF Cands(m) = {} THEN 0 ELSE patFirst[WinnerPat(m)]
ViaLiteral(m) == litId[m] # 0

TypeOK ==
  /\ n >= 0
  /\ \A m \in Mimes : litId[m] >= 0 /\ litId[m] <= n /\ (m \notin LitMimes => litId[m] = 0)
  /\ \A p \in PatIds : patFirst[p] >= 0 /\ patFirst[p] <= n
  \* every registration has its own id
  /\ \A m1, m2 \in Mimes : (litId[m1] # 0 /\ litId[m1] = litId[m2]) => m1 = m2
  /\ \A p1, p2 \in PatIds : (patFirst[p1] # 0 /\ patFirst[p1] = patFirst[p2]) => p1 = p2
  /\ \A m \in Mimes, p \in PatIds : litId[m] # 0 => litId[m] # patFirst[p]
  /\ w.kind \in {"none", "lit", "pat"}
GhostOK ==
  /\ w.kind = "none" => (w = NoEvent /\ ~wSup)
  /\ w.kind # "none" => (w.id >= 1 /\ w.id <= n)
  /\ w.kind = "lit" => /\ w.t \in LitMimes
                       /\ (~wSup => litId[w.t] = w.id)
                       /\ (wSup => litId[w.t] > w.id)
  /\ w.kind = "pat" => /\ w.t \in PatIds /\ ~wSup
                       /\ patFirst[w.t] # 0 /\ patFirst[w.t] <= w.id
IndInv == TypeOK /\ GhostOK

\* an arbitrary state of the right shape that satisfies the invariant
IndInit ==
  /\ n \in Int
  /\ litId \in [Mimes -> Int]
  /\ patFirst \in [PatIds -> Int]
  /\ w \in [kind : {"none", "lit", "pat"}, t : Int, id : Int]
  /\ wSup \in BOOLEAN
  /\ IndInv

LiteralWins == \A m \in Mimes :
  (litId[m] # 0 \/ (w.kind = "lit" /\ w.t = m)) => (ViaLiteral(m) /\ LookupId(m) = litId[m] /\ LookupId(m) # 0)
ReRegisterReplaces ==
  /\ (w.kind = "lit" /\ ~wSup) => LookupId(w.t) = w.id       \* the last registration of a literal serves it
  /\ (w.kind = "lit" /\ wSup) => LookupId(w.t) > w.id        \* ... an earlier one never does
FirstPatternWins == \A m \in Mimes :
  (w.kind = "pat" /\ Matches(w.t, m) /\ ~ViaLiteral(m)) =>
     /\ Cands(m) # {} /\ LookupId(m) # 0 /\ LookupId(m) <= w.id     \* nobody registered later than w wins over it
     /\ Matches(WinnerPat(m), m) /\ LookupId(m) = patFirst[WinnerPat(m)]
NotExistIffNothing == \A m \in Mimes :
  LookupId(m) = 0 <=> (litId[m] = 0 /\ \A p \in PatIds : Matches(p, m) => patFirst[p] = 0)
Safety == LiteralWins /\ ReRegisterReplaces /\ FirstPatternWins /\ NotExistIffNothing
=============================================================================
