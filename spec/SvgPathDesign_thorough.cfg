SPECIFICATION Spec
CONSTANTS MaxN = 3
Coords <- C2
CtrlCoords <- C2
Letters <- LettersAll
GuardZ = TRUE
GuardDeg = TRUE
GuardZeroL = TRUE
INVARIANTS Refines InRange
CHECK_DEADLOCK FALSE
