SPECIFICATION Spec
CONSTANTS MaxLen = 4
Alphabet <- PAlpha5
Precs <- PrecsDesign
Fault = "short"
INVARIANTS Rounds
CHECK_DEADLOCK FALSE
