SPECIFICATION Spec
CONSTANTS MaxLen = 2
Pieces <- AllPieces
Bugs <- BugAmp
INVARIANTS PlainOK TrimOK TextOK
CHECK_DEADLOCK FALSE
