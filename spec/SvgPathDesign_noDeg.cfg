SPECIFICATION Spec
CONSTANTS MaxN = 4
Coords <- C3
CtrlCoords <- C3
Letters <- LettersDeg
GuardZ = TRUE
GuardDeg = FALSE
GuardZeroL = TRUE
INVARIANTS Refines InRange
CHECK_DEADLOCK FALSE
