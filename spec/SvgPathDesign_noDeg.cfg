SPECIFICATION Spec
CONSTANTS MaxN = 3
Coords <- C3
CtrlCoords <- C2
GuardZ = TRUE
GuardDeg = FALSE
GuardZeroL = TRUE
INVARIANTS Refines InRange
CHECK_DEADLOCK FALSE
