SPECIFICATION Spec
CONSTANTS MaxN = 3
Coords <- C3
CtrlCoords <- C2
Letters <- LettersDeg
FixZ = TRUE
FixDeg = FALSE
FixZeroL = TRUE
ForgetCp = TRUE
INVARIANTS Refines InRange
CHECK_DEADLOCK FALSE
