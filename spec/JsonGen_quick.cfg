SPECIFICATION Spec
CONSTANTS MaxTok = 6
ScalarIds <- Scalars14
KeyIds <- Keys3
INVARIANTS TableOK PdaAgrees CompleteIffValid RelationOK
CHECK_DEADLOCK FALSE
