----------------------------- MODULE HtmlMachine -----------------------------
(* Design model (level D) for property C03 and generator of conforming documents.

   1. GENERATOR.  The state is a token sequence that is a viable prefix of a *conforming*
      HTML fragment (or document, DocMode) over a representative vocabulary, written with
      every start and end tag explicit.  The enabling conditions are the content models of the
      HTML standard (4.x "Content model:" paragraphs) for that vocabulary.  TLC enumerates
      all of them up to MaxNodes / MaxDepth.
   2. MACHINE.  MachineOut(toks, o) is a transcription of the token loop of html/html.go
      (omitSpace, inPre, rawTagHash, text skipping in select, look-ahead for the trailing
      blank, for </p> and for </optgroup>, removal of html/head/body/colgroup tags).
   3. BUILDER.  Build(toks) is the tree construction of the standard (13.2.6) restricted to
      the vocabulary: it re-infers omitted tags.
   Invariants: an explicit conforming document builds to itself (BuilderSound), and for every
   complete document and option set HtmlDom.HtmlEq(Build(in), Build(MachineOut(in)))  (D => A).
   Constructs on which the *real code* is known to violate the property (known/C03.txt) are
   excluded by the guard marked X7 (and X11 in the content model); everything else is enumerated.  The guards X1,
   X3, X4, X5 and X6 were lifted after the fixes c371690 675df8b 0c8c9ee c6de520 e347d35 8649a6a 13c309a 27d359f 6cae351 63d09b5 ba7df1a; the behaviour
   before each fix is kept as a switch in Bugs: the negative configurations HtmlMachine_neg_*.cfg set one
   switch each and TLC must then report a violation of DesignRefines (checked by tools/props/c03.py). *)
EXTENDS HtmlDom, Json
CONSTANTS MaxNodes, MaxDepth, DocMode, Vocab, TextKinds, OptSets,
          Bugs      \* wrong-design switches: behaviours of the token loop before the fix: commits (must violate)
VARIABLES toks, stack, nodes, solid, prev
vars == <<toks, stack, nodes, solid, prev>>

----------------------------------------------------------------------------
(* ---- vocabulary and content models (HTML standard, chapter 4) ---- *)
HeadKids == {"title", "meta", "link", "style", "script"}
Phrasing == {"span", "b", "a", "label", "img", "button", "select", "input", "br", "script", "textarea",
             "my-el", "noscript", "template", "ruby", "i", "em"}
Flow == Phrasing \cup {"div", "p", "ul", "table", "h1", "pre", "dl", "section", "blockquote"}
Interactive == {"a", "button", "select", "input", "label", "textarea"}
Transparent == {"a", "my-el", "noscript"}
RawKinds == {"script", "style", "textarea", "title"}           \* content is text only
ScriptSupporting == {"script", "template"}

RECURSIVE KidsAt(_, _)
KidsAt(st, i) ==
  IF i = 0 THEN (IF DocMode THEN {"html"} ELSE Flow)
  ELSE LET t == st[i] IN
    CASE t \in Transparent -> KidsAt(st, i - 1) \ (IF t = "a" THEN Interactive ELSE IF t = "noscript" THEN {"noscript"} ELSE {})
      [] t = "template" -> KidsAt(st, i - 1) \ {"optgroup"}   \* template contents: what the context allows (4.12.3)
                                   \* (X11: template contents are not parsed "in select": an omitted </optgroup> is not re-inferred there)
      [] t \in {"div", "li", "td", "dd", "section", "blockquote", "body"} -> Flow
      [] t = "dt" -> Flow \ {"section", "h1"}
      [] t \in {"p", "h1", "span", "b", "i", "em", "pre", "rt"} -> Phrasing
      [] t = "label" -> Phrasing \ {"label"}
      [] t = "button" -> Phrasing \ Interactive
      [] t = "ruby" -> (Phrasing \ {"ruby"}) \cup {"rt", "rp"}
      [] t = "ul" -> {"li"} \cup ScriptSupporting
      [] t = "dl" -> {"dt", "dd"} \cup ScriptSupporting
      [] t = "table" -> {"colgroup", "tbody"} \cup ScriptSupporting
      [] t = "colgroup" -> {"col"}
      [] t = "tbody" -> {"tr"} \cup ScriptSupporting
      [] t = "tr" -> {"td"} \cup ScriptSupporting
      [] t = "select" -> {"option", "optgroup"} \cup ScriptSupporting
      [] t = "optgroup" -> {"option"} \cup ScriptSupporting
      [] t = "html" -> {"head", "body"}
      [] t = "head" -> HeadKids
      [] OTHER -> {}                                               \* option, rp, raw kinds, void
Kids(st) == KidsAt(st, Len(st)) \cap Vocab
(* may the element on top of the stack contain text other than inter-element white space? *)
RECURSIVE TextAt(_, _)
TextAt(st, i) ==
  IF i = 0 THEN TRUE
  ELSE LET t == st[i] IN
    IF t \in Transparent \/ t = "template" THEN TextAt(st, i - 1)
    ELSE t \in {"div", "li", "td", "dd", "dt", "section", "blockquote", "body", "p", "h1", "span", "b", "i",
                "em", "pre", "rt", "rp", "label", "button", "ruby", "option"} \cup RawKinds
TextOK(st) == TextAt(st, Len(st))
Top(st) == IF st = <<>> THEN "#frag" ELSE st[Len(st)]

AllWs(x) == \A i \in 1..Len(x) : IsWs(x[i])
S(t, h) == [k |-> "S", t |-> t, h |-> h, x |-> <<>>]
E(t) == [k |-> "E", t |-> t, h |-> FALSE, x |-> <<>>]
T(x) == [k |-> "T", t |-> "", h |-> FALSE, x |-> x]
M == [k |-> "M", t |-> "", h |-> FALSE, x |-> <<99>>]
LastTok == IF toks = <<>> THEN M ELSE toks[Len(toks)]
(* history variables (functions of toks): solid = last token that is neither a comment nor inter-element
   white space; prev = last token that is not a comment *)
NoTok == [k |-> "none", t |-> "", h |-> FALSE, x |-> <<>>]
LastSolid == solid
Prev == prev

(* end tags the real minifier drops without look-ahead *)
AlwaysOmit == {"thead", "tbody", "tfoot", "tr", "th", "td", "option", "dd", "dt", "li", "rb", "rtc"}    \* (rt, rp: look-ahead since c6de520)
WsEdgeL(x) == x # <<>> /\ IsWs(x[1])
WsEdgeR(x) == x # <<>> /\ IsWs(x[Len(x)])

(* ---- known-defect constructs excluded from generation (narrow, syntactic) ---- *)
(* X1 (script-supporting element after an omitted end tag), X3 (</p> before a custom element end tag), X4 (white
   space around noscript/template), X5 (attribute-less colgroup tags) and X6 (<body> before an element that
   belongs in head) were lifted after the fixes e347d35 13c309a 27d359f c6de520 0c8c9ee 8649a6a c371690 675df8b
   6cae351 63d09b5 ba7df1a: those constructs are generated again. *)
(* X7: empty attribute-less script/style *)
X7 == LastTok.k = "S" /\ LastTok.t \in {"script", "style"} /\ ~LastTok.h

----------------------------------------------------------------------------
(* ---- generator ---- *)
Init == toks = <<>> /\ stack = <<>> /\ nodes = 0 /\ solid = NoTok /\ prev = NoTok
DocTags == {"html", "head", "body"}
Cost(t) == IF t \in DocTags THEN 0 ELSE 1
HasTitle == \E i \in 1..Len(toks) : toks[i].k = "S" /\ toks[i].t = "title"

Open(t, h) ==
  /\ t \in Kids(stack)
  /\ nodes + Cost(t) <= MaxNodes
  /\ (t \in VoidEls \/ Len(stack) < MaxDepth + (IF DocMode THEN 2 ELSE 0))
  /\ (t = "title" => ~HasTitle)
  /\ (t = "head" => LastTok.k = "S" /\ LastTok.t = "html")            \* head first, body after </head>
  /\ (t = "body" => LastTok.k = "E" /\ LastTok.t = "head")
  /\ (t = "colgroup" => (LastSolid.k = "S" /\ LastSolid.t = "table") \/ (LastSolid.k = "E" /\ LastSolid.t = "colgroup"))   \* colgroups come first in a table
  /\ toks' = Append(toks, S(t, h))
  /\ solid' = S(t, h) /\ prev' = S(t, h)
  /\ stack' = IF t \in VoidEls THEN stack ELSE Append(stack, t)
  /\ nodes' = nodes + Cost(t)
Close ==
  /\ stack # <<>>
  /\ LET t == Top(stack) IN
     /\ (t \in {"script", "style"} => ~X7)
     /\ (t \in {"dl", "ruby", "html", "head", "title"}
           => LastSolid.k # "S" \/ LastSolid.t # t)                     \* required children present
     /\ (t = "html" => LastSolid.k = "E" /\ LastSolid.t = "body")
     /\ (t = "dl" => LastSolid.t = "dd")                               \* dt group must be followed by dd
     /\ toks' = Append(toks, E(t))
     /\ solid' = E(t) /\ prev' = E(t)
     /\ stack' = SubSeq(stack, 1, Len(stack) - 1)
     /\ UNCHANGED nodes
Text(x) ==
  /\ LastTok.k # "T"                                                   \* adjacent text is one token
  /\ nodes < MaxNodes
  /\ IF Top(stack) \in RawKinds
       THEN LastTok.k = "S"                                             \* a raw text element holds one text token
       ELSE /\ (TextOK(stack) \/ AllWs(x))
            /\ Top(stack) \notin {"html", "head"} \/ AllWs(x)
  /\ (DocMode => stack # <<>>)
  /\ (Top(stack) = "option" => ~AllWs(x))
  /\ (Top(stack) = "pre" /\ LastTok.k = "S" => x[1] # 10)               \* a leading newline of pre is dropped by the parser
  /\ toks' = Append(toks, T(x))
  /\ solid' = (IF AllWs(x) THEN solid ELSE T(x)) /\ prev' = T(x)
  /\ nodes' = nodes + 1
  /\ UNCHANGED stack
Comment ==
  /\ LastTok.k # "M"
  /\ nodes < MaxNodes
  /\ Top(stack) \notin RawKinds
  /\ (DocMode => stack # <<>> /\ Top(stack) # "html")
  /\ toks' = Append(toks, M)
  /\ UNCHANGED <<solid, prev>>
  /\ nodes' = nodes + 1
  /\ UNCHANGED stack
DocDone == DocMode /\ toks # <<>> /\ stack = <<>>
Next ==
  /\ ~DocDone
  /\ \/ \E t \in Kids(stack), h \in BOOLEAN :
           /\ (DocMode /\ stack = <<>> => t = "html")
           /\ (h => t \in {"html", "body", "colgroup", "script", "style", "a", "div", "span", "p", "td", "img", "my-el", "option", "select"})
           /\ (t \in {"a", "img"} => h)
           /\ Open(t, h)
     \/ Close
     \/ \E x \in TextKinds : Text(x)
     \/ Comment
Spec == Init /\ [][Next]_vars
Complete == stack = <<>> /\ toks # <<>>

----------------------------------------------------------------------------
(* ---- MACHINE: transcription of html/html.go (traits from html/table.go; design level) ---- *)
MBlock == {"address", "article", "aside", "blockquote", "br", "caption", "col", "colgroup", "dd", "details", "div",
           "dl", "dt", "fieldset", "figcaption", "figure", "footer", "form", "h1", "h2", "h3", "h4", "h5", "h6",
           "head", "header", "hgroup", "hr", "html", "legend", "li", "main", "menu", "nav", "ol",
           "option", "p", "pre", "section", "style", "summary", "table", "tbody", "td", "tfoot", "th", "thead",
           "title", "tr", "ul"}
MObject == {"audio", "embed", "button", "canvas", "iframe", "img", "input", "meter", "object", "progress", "q", "rt", "select", "svg",
            "textarea", "video", "wbr", "rtc"}
MNormalOnly == {"abbr", "area", "b", "base", "bdi", "bdo", "body", "cite", "code", "data", "datalist", "dfn", "dialog",
                "em", "i", "kbd", "link", "mark", "meta", "optgroup", "output", "param", "picture", "rp",
                "ruby", "s", "samp", "slot", "small", "source", "span", "strong", "sub", "sup", "template", "time",
                "track", "u", "var", "rb"}
MRaw == {"iframe", "math", "script", "style", "svg", "textarea"}
MOmitP == {"address", "article", "aside", "blockquote", "details", "div", "dl", "fieldset", "figcaption", "figure",
           "footer", "form", "h1", "h2", "h3", "h4", "h5", "h6", "header", "hr", "main", "menu", "nav", "ol", "p",
           "pre", "section", "table", "ul"}
MKeepP == {"a", "audio", "canvas", "del", "ins", "label", "map", "noscript", "video", "slot"}
IsMBlock(t) == t \in MBlock \/ ("noscript-block" \in Bugs /\ t = "noscript")          \* c371690
MKnown == MBlock \cup MObject \cup MNormalOnly \cup MRaw \cup MKeepP              \* elements of tagMap (Traits # 0)

Collapse(x) ==
  FoldLeft(LAMBDA a, c : IF IsWs(c) THEN (IF a # <<>> /\ a[Len(a)] = 32 THEN a ELSE Append(a, 32)) ELSE Append(a, c),
           <<>>, x)

(* omitSpace is saved at <template>/<noscript> and restored at the end tag (6cae351); the two older template
   behaviours are the switches "hidden-leak" (no restore) and "template-os" (675df8b, which predates the restore) *)
Restore == "hidden-leak" \notin Bugs /\ "template-os" \notin Bugs
(* afterColgroup: a column group precedes.  63d09b5 looked at an explicit </colgroup> only; since bdcb619 any
   colgroup or col tag sets it.  On documents written with every tag (all this generator produces) the two agree,
   so the older behaviour is no wrong-design switch here: it is exercised on the real code by the second-pass
   inputs and by COLGROUP_OMITTED_DOCS in tools/props/c03.py. *)
AcAfter(t) == t.t \in {"colgroup", "col"}
MachineOut(in, o) ==
  LET n == Len(in)
      IsText(j) == j <= n /\ in[j].k = "T"
      (* look-ahead that decides the trailing blank of a text token *)
      LA[j \in 1..(n + 1)] ==
        IF j > n THEN "trim"
        ELSE LET t == in[j] IN
          CASE t.k = "T" -> IF AllWs(t.x) THEN LA[j + 1] ELSE "keep"
            [] t.k = "M" -> LA[j + 1]
            [] t.k = "S" -> IF o.kws THEN "keep" ELSE IF IsMBlock(t.t) THEN "trim" ELSE "keep"
            [] OTHER     -> IF o.kws THEN "keep" ELSE IF IsMBlock(t.t) THEN "trim" ELSE LA[j + 1]
      (* look-ahead for </p> *)
      PL[j \in 1..(n + 1)] ==
        IF j > n THEN TRUE
        ELSE LET t == in[j] IN
          CASE t.k = "T" -> IF AllWs(t.x) THEN PL[j + 1] ELSE FALSE
            [] t.k = "E" -> IF "p-unknown" \in Bugs THEN t.t \notin (MKeepP \ {"slot"})            \* 8649a6a
                            ELSE t.t \in MKnown /\ t.t \notin MKeepP
            [] t.k = "S" -> t.t \in MOmitP
            [] OTHER     -> FALSE
      (* look-ahead for </rt> and </rp> (c6de520) *)
      RL[j \in 1..(n + 1)] ==
        IF j > n THEN TRUE
        ELSE LET t == in[j] IN
          CASE t.k = "T" -> IF AllWs(t.x) THEN RL[j + 1] ELSE FALSE
            [] t.k = "S" -> t.t \in {"rt", "rp"}
            [] t.k = "E" -> t.t \in {"ruby", "rtc"}
            [] OTHER     -> FALSE
      (* is the next token after white space a script-supporting start tag? (e347d35) *)
      SL[j \in 1..(n + 1)] ==
        IF j > n THEN FALSE
        ELSE LET t == in[j] IN
          CASE t.k = "T" -> IF AllWs(t.x) THEN SL[j + 1] ELSE FALSE
            [] t.k = "M" -> IF "script-la-no-comment" \in Bugs THEN FALSE ELSE SL[j + 1]                  \* 13c309a
            [] t.k = "S" -> t.t \in {"script", "template"}
            [] OTHER     -> FALSE
      (* does body start with an element that the "after head" rules would put into head? (ba7df1a) *)
      BL[j \in 1..(n + 1)] ==
        IF j > n THEN FALSE
        ELSE LET t == in[j] IN
          CASE t.k = "T" -> IF AllWs(t.x) THEN BL[j + 1] ELSE FALSE
            [] t.k = "M" -> BL[j + 1]
            [] t.k = "S" -> t.t \in {"meta", "link", "script", "style", "template", "noscript", "base", "title"}
            [] OTHER     -> FALSE
      (* is the next tag after white space and comments a template start tag? (63d09b5) *)
      TL[j \in 1..(n + 1)] ==
        IF j > n THEN FALSE
        ELSE LET t == in[j] IN
          CASE t.k = "T" -> IF AllWs(t.x) THEN TL[j + 1] ELSE FALSE
            [] t.k = "M" -> TL[j + 1]
            [] t.k = "S" -> t.t \in {"template", "col"}                                                        \* bdcb619
            [] OTHER     -> FALSE
      (* look-ahead for </optgroup> *)
      OL[j \in 1..(n + 1)] ==
        IF j > n THEN TRUE
        ELSE IF in[j].k = "T" \/ (in[j].k = "M" /\ "optgroup-comment" \notin Bugs) THEN OL[j + 1]       \* 0c8c9ee
        ELSE in[j].t # "option" /\ ("optgroup-before-script" \in Bugs                                    \* 27d359f
                                     \/ ~(in[j].k = "S" /\ in[j].t \in {"script", "template"}))
      Step(s, i) ==
        LET t == in[i] IN
        IF s.drop > 0 THEN [s EXCEPT !.drop = s.drop - 1]
        ELSE IF t.k = "M" THEN [s EXCEPT !.skip = FALSE]
        ELSE IF t.k = "T" THEN
          IF s.skip THEN [s EXCEPT !.skip = FALSE]
          ELSE IF s.raw \/ s.pre THEN [s EXCEPT !.out = Append(s.out, t)]
          ELSE LET d0 == Collapse(t.x)
                   d1 == IF s.os /\ IsWs(d0[1]) THEN SubSeq(d0, 2, Len(d0)) ELSE d0
               IN IF d1 = <<>> THEN [s EXCEPT !.os = TRUE]
                  ELSE IF IsWs(d1[Len(d1)])
                       THEN IF LA[i + 1] = "trim"
                            THEN [s EXCEPT !.os = FALSE, !.out = Append(s.out, T(SubSeq(d1, 1, Len(d1) - 1)))]
                            ELSE [s EXCEPT !.os = TRUE, !.out = Append(s.out, T(d1))]
                       ELSE [s EXCEPT !.os = FALSE, !.out = Append(s.out, T(d1))]
        ELSE IF t.k = "S" THEN
          LET emptyRaw == ~t.h /\ t.t \in {"script", "style"} /\ i < n /\ in[i + 1].k = "E"
              s1 == [s EXCEPT !.skip = FALSE, !.raw = t.t \in MRaw, !.pre = IF t.t = "pre" THEN TRUE ELSE s.pre,
                              !.hs = IF t.t \in {"template", "noscript"} /\ Restore THEN Append(s.hs, s.os) ELSE s.hs]   \* 6cae351
              base == ~t.h /\ ((~o.kdoc /\ t.t \in {"html", "head", "body"}) \/ t.t = "colgroup")
              superfluous ==
                CASE t.t = "colgroup" -> base /\ ("colgroup-always" \in Bugs                                      \* 63d09b5
                                                  \/ (~s.ac /\ i < n /\ in[i + 1].k = "S" /\ in[i + 1].t = "col"))
                  [] t.t = "body" -> base /\ ("body-always" \in Bugs \/ ~BL[i + 1])                             \* ba7df1a
                  [] OTHER -> base
          IN IF emptyRaw THEN [s1 EXCEPT !.drop = 1, !.raw = FALSE]
             ELSE IF superfluous THEN [s1 EXCEPT !.ac = AcAfter(t)]
             ELSE LET os1 == IF o.kws \/ t.t \in MObject THEN FALSE ELSE IF IsMBlock(t.t) THEN TRUE ELSE s1.os
                      os2 == IF t.t \in MNormalOnly /\ i < n /\ in[i + 1].k = "E" /\ in[i + 1].t = t.t THEN FALSE ELSE os1
                  IN [s1 EXCEPT !.os = os2, !.out = Append(s1.out, t), !.ac = AcAfter(t),
                                !.skip = t.t \in {"select", "optgroup"} /\ IsText(i + 1)]
        ELSE \* end tag
          LET pop == t.t \in {"template", "noscript"} /\ Restore /\ s.hs # <<>>
              saved == IF pop THEN s.hs[Len(s.hs)] ELSE FALSE
              s1 == [s EXCEPT !.skip = FALSE, !.raw = FALSE, !.pre = IF t.t = "pre" THEN FALSE ELSE s.pre,
                              !.hs = IF pop THEN SubSeq(s.hs, 1, Len(s.hs) - 1) ELSE s.hs,
                              !.os = IF t.t = "template" /\ "template-os" \in Bugs THEN TRUE                   \* 675df8b
                                     ELSE IF pop THEN (IF t.t = "template" THEN saved ELSE s.os /\ saved)      \* 6cae351
                                     ELSE s.os,
                              !.ac = AcAfter(t)]                                                                \* 63d09b5 bdcb619
          IN IF (~o.kdoc /\ t.t \in {"html", "head", "body"})
                \/ (t.t = "colgroup" /\ ("colgroup-always" \in Bugs \/ ~TL[i + 1])) THEN s1
             ELSE LET listed == t.t \in AlwaysOmit \/ ("rt-always" \in Bugs /\ t.t \in {"rt", "rp"})
                      omit == ~o.ket /\ (\/ listed /\ ("omit-before-script" \in Bugs \/ ~SL[i + 1])
                                         \/ ~listed /\ t.t \in {"rt", "rp"} /\ RL[i + 1]
                                         \/ t.t = "p" /\ PL[i + 1]
                                         \/ t.t = "optgroup" /\ OL[i + 1])
                      s2 == IF omit THEN s1
                            ELSE [s1 EXCEPT !.os = IF o.kws \/ t.t \in MObject THEN FALSE
                                                   ELSE IF IsMBlock(t.t) THEN TRUE ELSE s1.os,
                                            !.out = Append(s1.out, t)]
                  IN [s2 EXCEPT !.skip = t.t \in {"option", "optgroup"} /\ IsText(i + 1)]
  IN FoldLeft(Step, [os |-> TRUE, pre |-> FALSE, raw |-> FALSE, skip |-> FALSE, drop |-> 0, hs |-> <<>>, ac |-> FALSE, out |-> <<>>],
              [i \in 1..n |-> i]).out

----------------------------------------------------------------------------
(* ---- BUILDER: tree construction of the standard (13.2.6) for the vocabulary ---- *)
Implied == {"dd", "dt", "li", "optgroup", "option", "p", "rb", "rp", "rt", "rtc"}
ImpliedThorough == Implied \cup {"caption", "colgroup", "tbody", "td", "tfoot", "th", "thead", "tr"}
Special == {"address", "article", "aside", "blockquote", "body", "br", "button", "caption", "col", "colgroup", "dd",
            "details", "div", "dl", "dt", "fieldset", "figure", "footer", "form", "h1", "head", "header", "hr", "html",
            "img", "input", "li", "link", "main", "meta", "nav", "noscript", "ol", "p", "pre", "script", "section",
            "select", "style", "summary", "table", "tbody", "td", "template", "textarea", "tfoot", "th", "thead",
            "title", "tr", "ul", "wbr"}
ScopeBase == {"html", "table", "td", "th", "caption", "template", "object", "marquee", "applet"}
EvO(t, h) == [k |-> "O", t |-> t, a |-> IF h THEN <<[n |-> "class", v |-> <<120>>]>> ELSE <<>>, x |-> <<>>]
EvC(t) == [k |-> "C", t |-> t, a |-> <<>>, x |-> <<>>]
EvT(x) == [k |-> "T", t |-> "", a |-> <<>>, x |-> x]
EvM == [k |-> "M", t |-> "", a |-> <<>>, x |-> <<99>>]

InScope(st, t, barriers) == \E i \in 1..Len(st) : st[i] = t /\ \A k \in (i + 1)..Len(st) : st[k] \notin barriers
(* close the open elements st[j..] (innermost first) *)
CloseDownTo(s, j) ==
  LET m == Len(s.st) IN
  IF j > m THEN s
  ELSE [s EXCEPT !.st = SubSeq(s.st, 1, j - 1),
                 !.ev = s.ev \o [k \in 1..(m - j + 1) |-> EvC(s.st[m - k + 1])]]
Nearest(st, ts) == LET idx == {i \in 1..Len(st) : st[i] \in ts} IN IF idx = {} THEN 0 ELSE Max(idx)
(* generate implied end tags: pop while the current node is in set *)
GenImplied(s, set) ==
  LET m == Len(s.st)
      keep == {i \in 1..m : s.st[i] \notin set}
      j == IF keep = {} THEN 1 ELSE Max(keep) + 1
  IN CloseDownTo(s, j)
PopThrough(s, ts) == LET j == Nearest(s.st, ts) IN IF j = 0 THEN s ELSE CloseDownTo(s, j)
PopToTop(s, ts) == LET j == Nearest(s.st, ts) IN CloseDownTo(s, j + 1)        \* make an element of ts current
Ins(s, t, h) == [s EXCEPT !.st = Append(s.st, t), !.ev = Append(s.ev, EvO(t, h))]
InsVoid(s, t, h) == [s EXCEPT !.ev = s.ev \o <<EvO(t, h), EvC(t)>>]
ClosePIfOpen(s) ==
  IF InScope(s.st, "p", ScopeBase \cup {"button"}) THEN PopThrough(GenImplied(s, Implied \ {"p"}), {"p"}) ELSE s
CurIs(s, ts) == s.st # <<>> /\ s.st[Len(s.st)] \in ts

(* open html/head/body as needed before content that belongs in body *)
EnsureBody(s) ==
  IF s.frag \/ s.phase = "body" \/ s.phase = "afterbody" THEN s
  ELSE LET s0 == IF s.phase = "init" THEN Ins(s, "html", FALSE) ELSE s
           s1 == IF s.phase \in {"init", "beforehead"} THEN [s0 EXCEPT !.ev = s0.ev \o <<EvO("head", FALSE), EvC("head")>>]
                 ELSE IF s.phase = "inhead" THEN PopThrough(s0, {"head"}) ELSE s0
       IN [Ins(s1, "body", FALSE) EXCEPT !.phase = "body"]
EnsureHead(s) ==
  IF s.frag \/ s.phase \in {"inhead", "body", "afterbody"} THEN s
  ELSE IF s.phase = "afterhead" THEN [s EXCEPT !.ev = Append(s.ev, EvO("#misplaced-into-head", FALSE))]
  ELSE LET s0 == IF s.phase = "init" THEN Ins(s, "html", FALSE) ELSE s
       IN [Ins(s0, "head", FALSE) EXCEPT !.phase = "inhead"]

StartTag(s0, t, h) ==
  CASE t = "html" -> IF s0.frag \/ s0.phase # "init" THEN s0 ELSE [Ins(s0, "html", h) EXCEPT !.phase = "beforehead"]
    [] t = "head" -> IF s0.frag \/ s0.phase \notin {"init", "beforehead"} THEN s0
                     ELSE LET s1 == IF s0.phase = "init" THEN Ins(s0, "html", FALSE) ELSE s0
                          IN [Ins(s1, "head", h) EXCEPT !.phase = "inhead"]
    [] t = "body" -> IF s0.frag \/ s0.phase \in {"body", "afterbody"} THEN s0
                     ELSE LET s1 == IF s0.phase = "init" THEN Ins(s0, "html", FALSE) ELSE s0
                              s2 == IF s0.phase \in {"init", "beforehead"}
                                    THEN [s1 EXCEPT !.ev = s1.ev \o <<EvO("head", FALSE), EvC("head")>>]
                                    ELSE IF s0.phase = "inhead" THEN PopThrough(s1, {"head"}) ELSE s1
                          IN [Ins(s2, "body", h) EXCEPT !.phase = "body"]
    [] OTHER ->
      LET headish == t \in {"title", "meta", "link", "style", "script", "template", "base"}
          s == IF ~s0.frag /\ s0.phase \notin {"body", "afterbody"} /\ headish THEN EnsureHead(s0) ELSE EnsureBody(s0)
      IN
      CASE t \in {"div", "ul", "dl", "section", "blockquote", "pre", "p", "h1"} -> Ins(ClosePIfOpen(s), t, h)
        [] t = "table" -> Ins(ClosePIfOpen(s), t, h)
        [] t = "li" ->
             LET j == Nearest(s.st, {"li"})
                 blocked == j = 0 \/ \E k \in (j + 1)..Len(s.st) : s.st[k] \in (Special \ {"address", "div", "p"})
                 s1 == IF blocked THEN s ELSE CloseDownTo(s, j)
             IN Ins(ClosePIfOpen(s1), t, h)
        [] t \in {"dd", "dt"} ->
             LET j == Nearest(s.st, {"dd", "dt"})
                 blocked == j = 0 \/ \E k \in (j + 1)..Len(s.st) : s.st[k] \in (Special \ {"address", "div", "p"})
                 s1 == IF blocked THEN s ELSE CloseDownTo(s, j)
             IN Ins(ClosePIfOpen(s1), t, h)
        [] t = "colgroup" -> Ins(PopToTop(s, {"table", "template", "html"}), t, h)
        [] t = "col" -> IF CurIs(s, {"colgroup"}) THEN InsVoid(s, t, h)
                        ELSE InsVoid(Ins(PopToTop(s, {"table", "template", "html"}), "colgroup", FALSE), t, h)
        [] t = "tbody" -> Ins(PopToTop(s, {"table", "template", "html"}), t, h)
        [] t = "tr" -> LET s1 == PopToTop(s, {"tbody", "thead", "tfoot", "table", "template", "html"})
                           s2 == IF CurIs(s1, {"table"}) THEN Ins(s1, "tbody", FALSE) ELSE s1
                       IN Ins(s2, t, h)
        [] t \in {"td", "th"} ->
                       LET s1 == PopToTop(s, {"tr", "tbody", "thead", "tfoot", "table", "template", "html"})
                           s2 == IF CurIs(s1, {"table"}) THEN Ins(s1, "tbody", FALSE) ELSE s1
                           s3 == IF CurIs(s2, {"tbody", "thead", "tfoot"}) THEN Ins(s2, "tr", FALSE) ELSE s2
                       IN Ins(s3, t, h)
        [] t = "option" -> Ins(IF CurIs(s, {"option"}) THEN CloseDownTo(s, Len(s.st)) ELSE s, t, h)
        [] t = "optgroup" ->
                       LET s1 == IF CurIs(s, {"option"}) THEN CloseDownTo(s, Len(s.st)) ELSE s
                           s2 == IF CurIs(s1, {"optgroup"}) THEN CloseDownTo(s1, Len(s1.st)) ELSE s1
                       IN Ins(s2, t, h)
        [] t \in {"rt", "rp"} ->
                       Ins(IF InScope(s.st, "ruby", ScopeBase) THEN GenImplied(s, Implied \ {"rtc"}) ELSE s, t, h)
        [] t \in VoidEls -> InsVoid(s, t, h)
        [] OTHER -> LET s1 == IF CurIs(s, {"colgroup"}) /\ t \notin {"template"} THEN CloseDownTo(s, Len(s.st)) ELSE s
                    IN Ins(s1, t, h)

EndTag(s, t) ==
  CASE t \in {"html", "body"} -> IF s.frag \/ s.phase # "body" THEN s ELSE [s EXCEPT !.phase = "afterbody"]
    [] t = "head" -> IF ~s.frag /\ s.phase = "inhead" THEN [PopThrough(s, {"head"}) EXCEPT !.phase = "afterhead"] ELSE s
    [] t = "p" -> IF InScope(s.st, "p", ScopeBase \cup {"button"})
                  THEN PopThrough(GenImplied(s, Implied \ {"p"}), {"p"})
                  ELSE [EnsureBody(s) EXCEPT !.ev = @ \o <<EvO("p", FALSE), EvC("p")>>]
    [] t = "li" -> IF InScope(s.st, "li", ScopeBase \cup {"ol", "ul"})
                   THEN PopThrough(GenImplied(s, Implied \ {"li"}), {"li"}) ELSE s
    [] t \in {"dd", "dt"} -> IF InScope(s.st, t, ScopeBase) THEN PopThrough(GenImplied(s, Implied \ {t}), {t}) ELSE s
    [] t \in {"div", "ul", "dl", "section", "blockquote", "pre", "button", "h1"} ->
                   IF InScope(s.st, t, ScopeBase) THEN PopThrough(GenImplied(s, Implied), {t}) ELSE s
    [] t \in {"table", "tbody", "tr", "td", "th"} ->
                   IF InScope(s.st, t, {"html", "table", "template"} \ {t}) THEN PopThrough(s, {t}) ELSE s
    [] t = "colgroup" -> IF CurIs(s, {"colgroup"}) THEN CloseDownTo(s, Len(s.st)) ELSE s
    [] t = "select" -> IF Nearest(s.st, {"select"}) > 0 THEN PopThrough(s, {"select"}) ELSE s
    [] t = "option" -> IF CurIs(s, {"option"}) THEN CloseDownTo(s, Len(s.st)) ELSE s
    [] t = "optgroup" ->
         LET m == Len(s.st)
             s1 == IF m >= 2 /\ s.st[m] = "option" /\ s.st[m - 1] = "optgroup" THEN CloseDownTo(s, m) ELSE s
         IN IF CurIs(s1, {"optgroup"}) THEN CloseDownTo(s1, Len(s1.st)) ELSE s
    [] t = "template" -> IF Nearest(s.st, {"template"}) > 0 THEN PopThrough(GenImplied(s, ImpliedThorough), {"template"}) ELSE s
    [] OTHER ->   \* any other end tag
         LET j == Nearest(s.st, {t}) IN
         IF j > 0 /\ \A k \in (j + 1)..Len(s.st) : s.st[k] \notin Special THEN CloseDownTo(s, j) ELSE s

TextTok(s, x) ==
  IF s.frag \/ s.phase = "body" \/ s.phase = "afterbody" \/ CurIs(s, {"title", "style", "script", "template"})
    THEN [s EXCEPT !.ev = Append(s.ev, EvT(x))]
  ELSE IF AllWs(x) THEN (IF s.phase \in {"inhead", "afterhead"} THEN [s EXCEPT !.ev = Append(s.ev, EvT(x))] ELSE s)
  ELSE LET s1 == EnsureBody(s) IN [s1 EXCEPT !.ev = Append(s1.ev, EvT(x))]

Build(in, frag) ==
  LET r == FoldLeft(LAMBDA s, t :
                      CASE t.k = "S" -> StartTag(s, t.t, t.h)
                        [] t.k = "E" -> EndTag(s, t.t)
                        [] t.k = "T" -> TextTok(s, t.x)
                        [] OTHER -> [s EXCEPT !.ev = Append(s.ev, EvM)],
                    [st |-> <<>>, ev |-> <<>>, phase |-> IF frag THEN "body" ELSE "init", frag |-> frag], in)
      r1 == IF frag THEN r ELSE EnsureBody(r)
  IN CloseDownTo(r1, 1).ev

(* the explicit reading of a fully tagged document: every tag is an element boundary *)
Explicit(in) ==
  FoldLeft(LAMBDA ev, t :
             CASE t.k = "S" -> IF t.t \in VoidEls THEN ev \o <<EvO(t.t, t.h), EvC(t.t)>> ELSE Append(ev, EvO(t.t, t.h))
               [] t.k = "E" -> Append(ev, EvC(t.t))
               [] t.k = "T" -> Append(ev, EvT(t.x))
               [] OTHER -> Append(ev, EvM),
           <<>>, in)

----------------------------------------------------------------------------
(* ---- invariants ---- *)
Frag == ~DocMode
(* a conforming, fully tagged document builds to itself *)
(* (events are wrapped in a root element, as the harness does, so that text after the last tag is compared) *)
Wrap(ev) == <<EvO("#root", FALSE)>> \o ev \o <<EvC("#root")>>
BuilderSound == Complete => HtmlEq(Wrap(Explicit(toks)), Wrap(Build(toks, Frag)))
(* D => A: the design satisfies the property relation for every option set *)
DesignRefines ==
  Complete => \A o \in OptSets : HtmlEq(Wrap(Build(toks, Frag)), Wrap(Build(MachineOut(toks, o), Frag)))
(* GEN: complete documents leave TLC as JSON lines (compact token tuples [k, tag, hasAttr, bytes]; one
   string per line, because PrintT wraps tuples that are longer than 80 columns),
   Emit together with the design's predicted output per option set (used for DRIFT reporting) *)
Enc(ts) == [i \in 1..Len(ts) |-> <<ts[i].k, ts[i].t, IF ts[i].h THEN 1 ELSE 0, ts[i].x>>]
B01(b) == IF b THEN 1 ELSE 0
OptSeq == SetToSeq(OptSets)
Emit == Complete =>
  PrintT("GEN " \o ToJson([t |-> Enc(toks),
                            o |-> [i \in 1..Len(OptSeq) |->
                                     [f |-> <<B01(OptSeq[i].ket), B01(OptSeq[i].kws), B01(OptSeq[i].kdoc)>>,
                                      o |-> Enc(MachineOut(toks, OptSeq[i]))]]]))
EmitToks == Complete => PrintT("GEN " \o ToJson([t |-> Enc(toks), o |-> <<>>]))
(* one eighth of the complete states, chosen by a checksum of the token sequence (deterministic) *)
KCode(k) == CASE k = "S" -> 1 [] k = "E" -> 2 [] k = "T" -> 3 [] OTHER -> 5
Checksum == FoldLeft(LAMBDA a, i : (a * 3 + i * (KCode(toks[i].k) + Len(toks[i].x) + (IF toks[i].h THEN 7 ELSE 0))) % 1009,
                     0, [i \in 1..Len(toks) |-> i])
EmitQuarter == Complete /\ Checksum % 4 = 0 => Emit          \* one quarter, with the design's predictions
EmitSample == Complete /\ Checksum % 8 = 0 => PrintT("GEN " \o ToJson([t |-> Enc(toks), o |-> <<>>]))

AllOpts == [ket : BOOLEAN, kws : BOOLEAN, kdoc : BOOLEAN]
Opts4 == {[ket |-> FALSE, kws |-> FALSE, kdoc |-> FALSE], [ket |-> TRUE, kws |-> FALSE, kdoc |-> FALSE],
          [ket |-> FALSE, kws |-> TRUE, kdoc |-> FALSE], [ket |-> FALSE, kws |-> FALSE, kdoc |-> TRUE]}
Opts1 == {[ket |-> FALSE, kws |-> FALSE, kdoc |-> FALSE]}
TK6 == {<<97>>, <<32, 97>>, <<97, 32>>, <<32, 97, 32>>, <<32>>, <<97, 32, 98>>}
TK4 == {<<97>>, <<32, 97, 32>>, <<32>>, <<97, 32, 98>>}
TK3 == {<<97>>, <<32, 97, 32>>, <<32>>}
VocabFrag == {"div", "p", "ul", "li", "table", "tbody", "tr", "td", "colgroup", "col", "h1", "pre", "span", "b", "a",
              "label", "img", "button", "select", "option", "optgroup", "input", "br", "script", "textarea", "my-el",
              "noscript", "template", "ruby", "rt", "dl", "dt", "dd"}
VocabSmall == {"div", "p", "ul", "li", "span", "a", "img", "select", "option", "optgroup", "script", "my-el", "pre",
               "table", "tbody", "tr", "td", "template", "noscript", "button"}
VocabQuick == {"div", "p", "ul", "li", "span", "a", "img", "select", "option", "optgroup", "script", "my-el", "pre",
               "table", "tbody", "template", "noscript", "textarea"}
VocabTable == {"table", "tbody", "tr", "td", "colgroup", "col", "script", "template"}
VocabList == {"ul", "li", "dl", "dt", "dd", "p", "div", "script", "span", "a"}
VocabSelect == {"select", "optgroup", "option", "script", "template", "span", "p", "pre"}
VocabInline == {"span", "a", "img", "button", "textarea", "br", "p", "my-el"}
VocabNeg == {"p", "span", "noscript", "template", "my-el", "ruby", "rt", "ul", "li", "script", "select", "optgroup", "option"}
NoBugs == {}
BugNoscript == {"noscript-block"}
BugTemplate == {"template-os"}
BugRt == {"rt-always"}
BugScript == {"omit-before-script"}
BugPUnknown == {"p-unknown"}
BugOptgroup == {"optgroup-comment"}
BugScriptComment == {"script-la-no-comment"}
BugOptgroupScript == {"optgroup-before-script"}
BugHiddenLeak == {"hidden-leak"}
BugColgroup == {"colgroup-always"}
BugBody == {"body-always"}
VocabDoc == {"html", "head", "body", "title", "meta", "style", "script", "div", "p", "span", "ul", "li", "a", "img"}
=============================================================================
