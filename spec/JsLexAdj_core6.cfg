SPECIFICATION Spec
CONSTANTS MaxLen = 6
Core = TRUE
INVARIANTS SpacedLexesBack FusesAgree AllJudged
CHECK_DEADLOCK FALSE
