SPECIFICATION Spec
CONSTANTS MaxN = 2
Coords <- C3
CtrlCoords <- C2
Letters <- LettersAll
GuardZ = TRUE
GuardDeg = TRUE
GuardZeroL = TRUE
INVARIANTS Refines InRange
CHECK_DEADLOCK FALSE
