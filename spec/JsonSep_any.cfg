SPECIFICATION Spec
CONSTANTS MaxRaw = 5
AnyInput = TRUE
PROPERTY StepsAgree
INVARIANTS RunAgrees TypeOK NoError OutIsPrefix FinalOutput Progress Mirrors Lenient
CHECK_DEADLOCK FALSE
