----------------------------- MODULE JsonSep -----------------------------
(* Design model (level D) of the separator logic of json.Minify for C07: a transcription of
   the loop in /repo/json/json.go together with the state machine of the parser it drives
   (parse/v2/json Parser.Next: state stack, needComma), at the level of token kinds.

     for { state := p.State(); gt, text := p.Next(); if gt == Error {return}
           if !skipComma && gt != EndObject && gt != EndArray {
               if state == ObjectKey || state == Array { write "," } else if state == ObjectValue { write ":" } }
           skipComma = gt == StartObject || gt == StartArray
           write text }

   The parser CONSUMES ':' and ',' silently and the minifier RE-INSERTS them from the state
   that was current before the call.  Checked here (D => A), for every valid JSON text up to
   the bound: the loop ends without error and the emitted token sequence is the input's -
   separators included - and every prefix of the output is a prefix of the input.  One
   action per branch of Next(), so that TLC's per-action coverage shows which branches the
   valid inputs reach; with AnyInput = TRUE the generator is unconstrained and the error
   branches are exercised as well (nothing is claimed for invalid inputs).

   A disagreement between this model and the code is DRIFT (information), never a verdict. *)
EXTENDS JsonSepFn, TLC
CONSTANTS MaxRaw,       \* bound on the raw token count of the input (separators included)
          AnyInput      \* FALSE: valid texts only;  TRUE: every kind sequence
VARIABLES inp, g,       \* input (kinds) under construction and its recogniser state
          mode,         \* "gen" | "run" | "end" | "err"
          pos,          \* next input token of the parser
          pst,          \* parser state stack: "V" value, "K" object key, "O" object value, "A" array
          nc,           \* Parser.needComma
          sc,           \* skipComma of the minifier loop
          out           \* tokens written so far
vars == <<inp, g, mode, pos, pst, nc, sc, out>>
GenKinds == {"{", "}", "[", "]", ":", ",", "str", "num", "lit"}

Init == /\ inp = <<>> /\ g = PInit /\ mode = "gen" /\ pos = 1 /\ pst = <<"V">>
        /\ nc = FALSE /\ sc = TRUE /\ out = <<>>

Gen == /\ mode = "gen" /\ Len(inp) < MaxRaw
       /\ \E k \in GenKinds :
            /\ AnyInput \/ (Step(g, k).ph # "bad" /\ Len(inp) + 1 + Len(Step(g, k).stk) <= MaxRaw)
            /\ inp' = Append(inp, k) /\ g' = Step(g, k)
       /\ UNCHANGED <<mode, pos, pst, nc, sc, out>>
Start == /\ mode = "gen" /\ (AnyInput \/ g.ph = "done")
         /\ mode' = "run" /\ UNCHANGED <<inp, g, pos, pst, nc, sc, out>>

\* ---- Parser.Next, common prefix: skip whitespace (not modelled), optional comma ----
Peek(i) == IF i <= Len(inp) THEN inp[i] ELSE "eof"
State == pst[Len(pst)]
CommaErr == Peek(pos) = "," /\ State \notin {"A", "K"}
Pos1 == IF Peek(pos) = "," THEN pos + 1 ELSE pos
Nc1 == IF Peek(pos) = "," THEN FALSE ELSE nc
C == Peek(Pos1)
NeedCommaErr == Nc1 /\ C \notin {"}", "]", "eof"}
Ready == mode = "run" /\ ~CommaErr /\ ~NeedCommaErr
SetTop(s, v) == [s EXCEPT ![Len(s)] = v]
PopFix(s) == LET q == SubSeq(s, 1, Len(s) - 1) IN IF q[Len(q)] = "O" THEN SetTop(q, "K") ELSE q

\* ---- the minifier's part of one iteration: separator from the state before Next() ----
Emit(gt) ==
  LET sep == IF ~sc /\ gt \notin {"}", "]"}
             THEN (IF State \in {"K", "A"} THEN <<",">> ELSE IF State = "O" THEN <<":">> ELSE <<>>)
             ELSE <<>>
  IN /\ out' = out \o sep \o <<gt>>
     /\ sc' = (gt \in {"{", "["})
Fail == mode' = "err" /\ UNCHANGED <<inp, g, pos, pst, nc, sc, out>>

ErrComma == mode = "run" /\ CommaErr /\ Fail                                   \* "unexpected comma character"
ErrNeedComma == mode = "run" /\ ~CommaErr /\ NeedCommaErr /\ Fail              \* "expected comma character or ..."
StartObject == /\ Ready /\ C = "{"
               /\ pst' = Append(pst, "K") /\ pos' = Pos1 + 1 /\ nc' = Nc1 /\ Emit("{")
               /\ UNCHANGED <<inp, g, mode>>
EndObject == /\ Ready /\ C = "}" /\ State = "K"
             /\ pst' = PopFix(pst) /\ pos' = Pos1 + 1 /\ nc' = TRUE /\ Emit("}")
             /\ UNCHANGED <<inp, g, mode>>
ErrBrace == Ready /\ C = "}" /\ State # "K" /\ Fail                            \* "unexpected right brace character"
StartArray == /\ Ready /\ C = "["
              /\ pst' = Append(pst, "A") /\ pos' = Pos1 + 1 /\ nc' = Nc1 /\ Emit("[")
              /\ UNCHANGED <<inp, g, mode>>
EndArray == /\ Ready /\ C = "]" /\ State = "A"
            /\ pst' = PopFix(pst) /\ pos' = Pos1 + 1 /\ nc' = TRUE /\ Emit("]")
            /\ UNCHANGED <<inp, g, mode>>
ErrBracket == Ready /\ C = "]" /\ State # "A" /\ Fail                          \* "unexpected right bracket character"
NotBracket == C \notin {"{", "}", "[", "]"}
Key == /\ Ready /\ NotBracket /\ State = "K" /\ C = "str" /\ Peek(Pos1 + 1) = ":"
       /\ pst' = SetTop(pst, "O") /\ pos' = Pos1 + 2 /\ nc' = Nc1 /\ Emit("str")
       /\ UNCHANGED <<inp, g, mode>>
ErrKey == /\ Ready /\ NotBracket /\ State = "K" /\ ~(C = "str" /\ Peek(Pos1 + 1) = ":")
          /\ Fail                                                               \* "expected object key ..." / "expected colon ..."
Scalar == /\ Ready /\ NotBracket /\ State # "K" /\ IsScalar(C)
          /\ pst' = (IF State = "O" THEN SetTop(pst, "K") ELSE pst) /\ pos' = Pos1 + 1 /\ nc' = TRUE /\ Emit(C)
          /\ UNCHANGED <<inp, g, mode>>
EndOfInput == /\ Ready /\ State # "K" /\ C = "eof"                              \* io.EOF: Minify returns nil
              /\ mode' = "end" /\ UNCHANGED <<inp, g, pos, pst, nc, sc, out>>
ErrChar == Ready /\ NotBracket /\ State # "K" /\ C \in {":", ","} /\ Fail      \* "unexpected character"

Next == \/ Gen \/ Start \/ StartObject \/ EndObject \/ StartArray \/ EndArray \/ Key \/ Scalar \/ EndOfInput
        \/ ErrComma \/ ErrNeedComma \/ ErrBrace \/ ErrBracket \/ ErrKey \/ ErrChar
Spec == Init /\ [][Next]_vars

\* ---- D => A --------------------------------------------------------------------
InScope == mode # "gen" /\ ValidKinds(inp)
TypeOK == /\ pst # <<>> /\ pst[1] = "V" /\ \A i \in 2..Len(pst) : pst[i] \in {"K", "O", "A"}
          /\ pos <= Len(inp) + 1 /\ mode \in {"gen", "run", "end", "err"}
NoError == InScope => mode # "err"
OutIsPrefix == InScope => (Len(out) <= Len(inp) /\ out = SubSeq(inp, 1, Len(out)))
FinalOutput == (InScope /\ mode = "end") => out = inp
\* every reachable non-generating state takes a step or has ended: the loop cannot get stuck
Progress == mode = "run" => ENABLED (StartObject \/ EndObject \/ StartArray \/ EndArray \/ Key \/ Scalar \/ EndOfInput
                                     \/ ErrComma \/ ErrNeedComma \/ ErrBrace \/ ErrBracket \/ ErrKey \/ ErrChar)
\* the parser's stack mirrors the recogniser's stack over what has been consumed
Mirrors == (InScope /\ mode = "run") =>
             LET r == RunPDA(SubSeq(inp, 1, Len(out))) IN
             /\ Len(pst) = Len(r.stk) + 1
             /\ \A i \in 1..Len(r.stk) : IF r.stk[i] = 1 THEN pst[i+1] \in {"K", "O"} ELSE pst[i+1] = "A"
\* the functional form of the model (JsonSepFn.DIter, used by the trace specification to predict the
\* code's output) is this action system: every step of the loop is DIter, and DRun is where it ends
Rec == [pos |-> pos, pst |-> pst, nc |-> nc, sc |-> sc, out |-> out, mode |-> mode]
StepsAgree == [][mode = "run" => Rec' = DIter(inp, Rec)]_vars
RunAgrees == mode \in {"end", "err"} => Rec = DRun(inp)
\* the design also explains what the code does with the trailing-comma inputs it tolerates
\* (not claimed by C07; recorded so that the model is an honest transcription)
Lenient == (mode = "end" /\ inp = <<"[", "num", ",", "]">>) => out = <<"[", "num", "]">>
=============================================================================
