SPECIFICATION Spec
CONSTANTS MaxFlags = 3
NInputs = 2
INVARIANTS TypesKnown TableFunctional DenotesOK
CHECK_DEADLOCK FALSE
