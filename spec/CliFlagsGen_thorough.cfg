SPECIFICATION Spec
CONSTANTS MaxFlags = 3
NInputs = 2
INVARIANTS TableFunctional DenotesOK
CHECK_DEADLOCK FALSE
