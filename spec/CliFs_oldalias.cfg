\* vacuity guard: the protocol before 282e2ab recognises its backup by the spelling dst+".bak" - NoLeftoverBackup MUST be violated
SPECIFICATION Spec
CONSTANTS
  NWorkers = 1
  MaxChunks = 1
  FaultTasks = 0
  Protocol = "old"
  SetupIds = {"alias"}
INVARIANTS NeverLost NoLeftoverBackup
CHECK_DEADLOCK FALSE
