SPECIFICATION ESpec
CONSTANTS MaxRegs = 3
MaxSlots = 5
INVARIANTS ETypeOK NoLeak UnconsumedTypeDoesNotLeak OneEnterPerServedSlot FailStops AbsentPassesThrough EEmitAll
CHECK_DEADLOCK FALSE
