----------------------------- MODULE C11Trace -----------------------------
(* Trace validation for C11.  One line = one run of a real host minifier (html / svg / css) on a
   rendered host document, with a real minify.M built from `regs`:
     regs     registrations in order (op, sid, lit, pat, beh)        beh: stub|fail|fail2|plainfail|real
     slots    the embedded resources of the input in document order  (kind, type attribute, payload, raw URI, range)
     calls    the nested calls in order (who ran, params, payload received, bytes returned, failed,
              for real minifiers also the result of a direct call on the same payload)
     outslots the same slots projected from the output by an independent host parser
     err      the error returned by the outer call;  linelens: byte length of every input line
   The abstract registry is rebuilt from `regs` (Registry.LookupIn) and the commutation law of
   Embed.tla is evaluated slot by slot with a cursor into the nested calls. *)
EXTENDS EmbedOps, TraceIO
VARIABLE l
tvars == <<l, lit, pats, hist>>
TInit == l = 1 /\ RInit
TNext == l <= N /\ l' = l + 1 /\ UNCHANGED <<lit, pats, hist>>
TSpec == TInit /\ [][TNext]_tvars

\* short codes (PrintT wraps long tuples; the texts are in tools/props/c11.py CLAUSES)
RJ(code, i) == Reject(l, code \o "@" \o ToString(i))
BehCode(b) == CASE b = "stub" -> 0 [] b = "fail" -> 1 [] b = "fail2" -> 2 [] b = "plainfail" -> 3 [] b = "real" -> 4
\* the registry after the registrations of the line (same rules as Registry.RegLit / RegPat)
BuildReg(regs) ==
  FoldLeft(LAMBDA st, r :
             IF r.pat = 0
             THEN [st EXCEPT !.lit = (r.lit :> [id |-> r.sid, kind |-> r.op, cmd |-> BehCode(r.beh)]) @@ st.lit]
             ELSE [st EXCEPT !.pats = Append(st.pats, [pat |-> r.pat, id |-> r.sid, kind |-> r.op, cmd |-> BehCode(r.beh)])],
           [lit |-> <<>>, pats |-> <<>>], regs)

IsWs(c) == c \in {32, 9, 10, 12, 13}
TrimL(s) == LET f[i \in 1..(Len(s) + 1)] == IF i > Len(s) THEN i ELSE IF IsWs(s[i]) THEN f[i + 1] ELSE i
            IN SubSeq(s, f[1], Len(s))
TrimR(s) == LET f[i \in 0..Len(s)] == IF i = 0 THEN 0 ELSE IF IsWs(s[i]) THEN f[i - 1] ELSE i
            IN SubSeq(s, 1, f[Len(s)])
Trim(s) == TrimR(TrimL(s))
bJsScheme == <<106,97,118,97,115,99,114,105,112,116,58>>                       \* javascript:
\* README: "strip default protocols (http:, https: and javascript:)"
StripJs(s) == IF Len(s) >= 11 /\ [i \in 1..11 |-> Lower(s[i])] = bJsScheme THEN SubSeq(s, 12, Len(s)) ELSE s

AttrKinds == {"styleAttr", "onAttr", "svgStyleAttr"}
\* contexts whose text is subject to character references of the host syntax
EntityKinds == AttrKinds \cup {"svgStyleText"}
\* the embedded content as its minifier is entitled to see it: attribute contexts are trimmed, on* loses javascript:
Content(slot) ==
  CASE slot.kind = "onAttr" -> Trim(StripJs(Trim(slot.payload)))
    [] slot.kind \in AttrKinds \cup {"svgStyleText"} -> Trim(slot.payload)
    [] OTHER -> slot.payload
SameParams(kvs, ps) == {<<kvs[i][1], kvs[i][2]>> : i \in DOMAIN kvs} = ParamSet(ps) /\ Len(kvs) = Cardinality(ParamSet(ps))

\* "is replaced by exactly what the minifier ... produces for that content": the nested call got the content.
\* In entity contexts the host may hand over a form in which some character references are still
\* escaped (ambiguous ampersands); then the independent decoding of what it handed over must be the content.
Exact(slot, c) == IF slot.kind \in AttrKinds \cup {"svgStyleText"} THEN Trim(c.payload) = Content(slot) ELSE c.payload = Content(slot)
PayloadOK(slot, c) ==
  \/ Exact(slot, c)
  \/ slot.kind \in EntityKinds /\ Trim(c.payloaddec) = Content(slot)

OutData(o) == IF o.found THEN o.data ELSE <<>>          \* an attribute that became empty is dropped
\* length of the base64 form "data:" mediatype ";base64," data  of an n-byte result (the media type is at most the slot's own)
B64Form(slot, n) == 5 + Len(slot.mt) + 8 + 4 * ((n + 2) \div 3)
\* "... correctly re-escaped for the host syntax": the slot of the output decodes to exactly the nested result
SlotOutOK(slot, c, o) ==
  /\ o.bad = ""
  /\ CASE slot.kind \in DataUriKinds ->
            \/ o.found /\ o.data = c.out
            \* README (CSS): "rewrite data URIs with base64 or ASCII whichever is shorter": a URI left
            \* exactly as it was is acceptable only when it is shorter than the base64 form of the result
            \* (never longer than the input, /repo 8f5eddf; the bound does not depend on the escaping table)
            \/ o.found /\ o.raw = slot.raw /\ Len(slot.raw) < B64Form(slot, Len(c.out))
       [] slot.kind \in EntityKinds ->
            IF Exact(slot, c) THEN OutData(o) = c.out ELSE OutData(o) = c.outdec
       [] OTHER -> OutData(o) = c.out
\* "If no minifier is registered for the type the embedded bytes pass through unchanged"
AbsentOK(slot, o) ==
  /\ o.bad = ""
  /\ CASE slot.kind \in DataUriKinds -> o.found /\ o.data = slot.payload
       [] slot.kind \in EntityKinds -> Trim(OutData(o)) = Content(slot)
       [] OTHER -> o.found /\ o.data = slot.payload

\* "the outer call fails with an error located inside the outer document": a position that exists in
\* the input and lies within the construct that embeds the failing resource
Located(e, slot) ==
  /\ e.err.kind = "parse"
  /\ e.err.line \in 1..Len(e.linelens) /\ e.err.col >= 1 /\ e.err.col <= e.linelens[e.err.line] + 1
  /\ (e.err.line > slot.loline \/ (e.err.line = slot.loline /\ e.err.col >= slot.locol))
  /\ (e.err.line < slot.hiline \/ (e.err.line = slot.hiline /\ e.err.col <= slot.hicol))

\* one slot, given the cursor st = [ci: next nested call, stopped: a nested call failed]
SlotStep(e, reg, calls, st, i) ==
  IF st.stopped THEN st
  \* README TemplateDelims: "preserve context within and surrounding the given opening and closing delimiters":
  \* text that holds a template is written as it is and is not an embedded resource for any minifier
  ELSE IF e.slots[i].tmpl THEN st
  \* an empty raw element has no content to hand over: no nested call and nothing in the output ...
  ELSE IF e.slots[i].kind \in ElementKinds /\ e.slots[i].payload = <<>>
          /\ ~(st.ci <= Len(calls) /\ calls[st.ci].payload = <<>>)          \* ... unless the host does call with the empty content
       THEN IF OutData(e.outslots[i]) = <<>> \/ RJ("ABSENT", i) THEN st ELSE st
  ELSE
    LET slot == e.slots[i]
        o    == e.outslots[i]
        t    == ExpectedType(slot.kind, slot.hastype, slot.type, slot.mt)
        en   == LookupIn(reg.lit, reg.pats, t.mime)
    IN IF en = None
       THEN IF AbsentOK(slot, o) \/ RJ("ABSENT", i)
            THEN st ELSE st
       ELSE IF st.ci > Len(calls)
       THEN IF RJ("NOCALL", i)
            THEN [st EXCEPT !.stopped = TRUE] ELSE st
       ELSE
         LET c == calls[st.ci]
             ok == /\ (c.sid = en.id) \/ RJ("WRONGMIN", i)
                   /\ (\/ SameParams(c.params, t.params)
                       \/ HasAlt(slot.kind, slot.hastype, slot.type) /\ SameParams(c.params, AltParams(slot.kind, slot.hastype, slot.type)))
                        \/ RJ("PARAMS", i)
                   /\ PayloadOK(slot, c) \/ RJ("PAYLOAD", i)
                   /\ (en.cmd # 0 \/ c.sid # en.id \/ c.out = StubOut(c.sid, c.payload)) \/ RJ("ORACLE", i)
                   \* "minified exactly as their own minifier would": same bytes as a direct call on the same content
                   /\ (en.cmd # 4 \/ c.sid # en.id \/ (c.hasdirect /\ c.out = c.direct /\ c.fail = c.directfail))
                        \/ RJ("DIRECT", i)
                   /\ IF c.fail
                      THEN IF slot.kind \in DataUriKinds
                           THEN (e.err.kind # "nil") \/ RJ("SWALLOWURI", i)
                           ELSE /\ (e.err.kind # "nil") \/ RJ("SWALLOW", i)
                                /\ (e.err.kind = "nil" \/ (\/ Located(e, slot)
                                                           \* an error value without position information (not a *parse.Error) can only be
                                                           \* handed on as it is: by the stub itself, or by a real minifier that met it deeper down
                                                           \/ en.cmd = 3 /\ e.err.kind = "stub" /\ e.err.sid = c.sid
                                                           \/ en.cmd = 4 /\ e.err.kind = "stub"))
                                     \/ RJ("LOCATED", i)
                      ELSE SlotOutOK(slot, c, o) \/ RJ("SLOTOUT", i)
         IN IF ok THEN [ci |-> st.ci + 1, stopped |-> c.fail /\ slot.kind \notin DataUriKinds]
            ELSE [ci |-> st.ci + 1, stopped |-> c.fail /\ slot.kind \notin DataUriKinds]

LineOK(e) ==
  LET reg   == BuildReg(e.regs)
      calls == SelectSeq(e.calls, LAMBDA c : c.depth = 0)
      fin   == FoldLeft(LAMBDA st, i : SlotStep(e, reg, calls, st, i), [ci |-> 1, stopped |-> FALSE], [i \in 1..Len(e.slots) |-> i])
  IN /\ (e.err.kind # "panic") \/ RJ("PANIC", 0)
     /\ e.err.kind = "panic" \/
        /\ (fin.ci = Len(calls) + 1) \/ RJ(IF fin.stopped THEN "AFTERFAIL" ELSE "EXTRACALL", 0)
        /\ (fin.stopped \/ e.err.kind = "nil") \/ RJ("OUTERFAIL", 0)
        /\ (fin.stopped \/ e.err.kind # "nil" \/ e.outbad = "") \/ RJ("OUTBAD", 0)
Conforms == l <= N => LineOK(Trace[l])
=============================================================================
