SPECIFICATION Spec
CONSTANTS MaxLen = 5
Alphabet <- Alpha8
INVARIANTS NormalFormSafe NormalFormFixed IdentitySafe InsideProtected AsIsIndexSafe AsIsOKOutsideKnown FixedOK FixedIdem
CHECK_DEADLOCK FALSE
