SPECIFICATION Spec
CONSTANTS MaxLen = 5
Alphabet <- Alpha8
INVARIANTS NormalFormSafe NormalFormFixed IdentitySafe InsideProtected AsIsOK AsIsIdem OldIndexSafe OldWrongOnlyOnKnown
CHECK_DEADLOCK FALSE
