SPECIFICATION Spec
CONSTANTS MaxLen = 5
Alphabet <- Alpha8
INVARIANTS NormalFormSafe NormalFormFixed IdentitySafe InsideProtected
CHECK_DEADLOCK FALSE
