SPECIFICATION TSpec
CONSTANTS MaxRegs = 8
INVARIANT Conforms
POSTCONDITION AcceptedAll
CHECK_DEADLOCK FALSE
