SPECIFICATION Spec
CONSTANTS MaxLen = 6
Fault = "none"
INVARIANTS Refines
CHECK_DEADLOCK FALSE
