SPECIFICATION Spec
CONSTANTS MaxLen = 6
BitSets <- BitsAll
Fault = "none"
INVARIANTS Refines
CHECK_DEADLOCK FALSE
