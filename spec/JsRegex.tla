----------------------------- MODULE JsRegex -----------------------------
(* C09, JavaScript: regular expression literals.

   minifyRegExp removes "unnecessary" backslashes.  Whether a backslash is necessary depends on
   the character, on its position (outside a class, inside a class, first / last in a class) and on
   the flags: with u or v a lone ] } ( ) ... outside a class or a class like [(^--] is an early
   SyntaxError that the legacy grammar tolerates.  A state is (punctuator, position, flags); the
   harness renders  x=/a\Pb/F  etc.; the output must still be a program V8 and acorn accept
   (Closure.PipeInv) - the minifier's own second pass does not validate patterns. *)
EXTENDS Integers, Sequences, FiniteSets, TLC

Puncts == {"!", "#", "$", "%", "&", "'", "(", ")", "*", "+", ",", "-", ".", "/", ":", ";", "<", "=", ">", "?", "@", "[", "]", "^",
           "_", "`", "{", "|", "}", "~", "DQ", "BS"           \* DQ = double quote, BS = backslash
}
Positions == {"out", "in", "first", "last", "only", "pair", "range"
}
Flags == {"", "u", "v", "g", "i", "m", "s", "y", "d", "gu", "giv"
}

VARIABLES pc, pos, fl
vars == <<pc, pos, fl>>
Init == pc \in Puncts /\ pos \in Positions /\ fl \in Flags
Next == FALSE /\ UNCHANGED vars
Spec == Init /\ [][Next]_vars
TypeOK == pc \in Puncts /\ pos \in Positions /\ fl \in Flags
=============================================================================
