SPECIFICATION Spec
CONSTANTS MaxLen = 2
Fault = "ws"
INVARIANTS Refines
CHECK_DEADLOCK FALSE
