SPECIFICATION Spec
CONSTANTS MaxLen = 2
BitSets <- BitsAll
Fault = "ws"
INVARIANTS Refines
CHECK_DEADLOCK FALSE
