SPECIFICATION Spec
CONSTANTS MaxLen = 5
Alphabet <- PAlpha5
Precs <- PrecsDesign
Fault = "none"
INVARIANTS Reflexive OutIsNumber Rounds ExactAtZero
CHECK_DEADLOCK FALSE
