SPECIFICATION Spec
CONSTANTS MaxNodes = 3
MaxDepth = 3
DocMode = FALSE
Vocab <- VocabQuick
TextKinds <- TK3
OptSets <- Opts4
Bugs <- NoBugs
INVARIANTS BuilderSound DesignRefines Emit
CHECK_DEADLOCK FALSE
