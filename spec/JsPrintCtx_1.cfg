SPECIFICATION Spec
CONSTANTS MaxD = 1
INVARIANT TypeOK
CHECK_DEADLOCK FALSE
