SPECIFICATION Spec
CONSTANTS MaxLen = 2
BitSets <- BitsAll
Fault = "none"
INVARIANTS RefinesNamed Reflexive BranchesKnown BranchLog
CHECK_DEADLOCK FALSE
