SPECIFICATION Spec
CONSTANTS MaxSym = 40
MaxS = 3
MaxE = 3
MaxList = 4
Enabled <- AllEnabled
INVARIANTS Emit
CHECK_DEADLOCK FALSE
