SPECIFICATION Spec
INVARIANT Conforms
POSTCONDITION AcceptedLinear
CHECK_DEADLOCK FALSE
