----------------------------- MODULE C19Trace -----------------------------
(* C19, trace validation.  One line = one run of the REAL command:
     sc  the scenario [tree, inv, stdin]  (stdin = bytes fed to standard input, <<>> if unused)
     obs [exit, stdout, final, lib]  final = the file tree after the run (same entry format as sc.tree),
         lib = the LIBRARY's own result for every planned minification: [type, srcs, sep, in, ok, out]
   The relation is the property statement read against Plan(sc) (CliPlan):
     (a) "writes, for each selected file, exactly the bytes the library produces for that file's type to
          the destination implied by the output argument (file, directory mirror of the input tree, or
          stdout; bundles are the minification of the inputs concatenated in order with the documented
          separator)"
     (b) "copies unselected files verbatim in sync mode"
     (c) "and modifies no other file"
     (d) "If minifying a file fails the destination receives the original bytes, the other files are still
          processed, and the exit status is non-zero"
     (e) "a file minified onto itself ends up with the new content and no leftover backup"
   Directories are not files: they are ignored on both sides.                                          *)
EXTENDS CliPlan, TraceIO
VARIABLES l, P            \* P = Plan(scenario of line l), computed once per line
vars == <<l, P>>
PlanOf(i) == IF i > N THEN <<>> ELSE Plan(Trace[i].sc)
Init == l = 1 /\ P = PlanOf(1)
Next == l <= N /\ l' = l + 1 /\ P' = PlanOf(l + 1)
Spec == Init /\ [][Next]_vars

NonDir(T) == {T[i] : i \in {j \in DOMAIN T : T[j].k # "d"}}

LineOK(rec) ==
  LET sc == rec.sc
      obs == rec.obs
      T == sc.tree
      F == obs.final
      tasks == P.tasks
      \* content of a source as the command finds it (links followed); <<>> names standard input
      SrcBytes(p) == IF p = <<>> THEN sc.stdin ELSE Stat(T, Comps(p), TRUE).c
      LibOf(t) == {i \in DOMAIN obs.lib : obs.lib[i].type = t.type /\ obs.lib[i].srcs = t.srcs /\ obs.lib[i].sep = t.sep}
      \* (a) bundles: the library sees the sources joined in order with the separator
      LibInputOK(t) == \A i \in LibOf(t) : obs.lib[i].in = JoinBytes([k \in DOMAIN t.srcs |-> SrcBytes(t.srcs[k])], t.sep)
      Fails(t) == t.mode = "min" /\ \E i \in LibOf(t) : ~obs.lib[i].ok
      \* (a)/(d): library output, or the original bytes when the library reports an error
      Expect(t) == LET L == obs.lib[CHOOSE i \in LibOf(t) : TRUE] IN IF L.ok THEN L.out ELSE L.in
      DstEntry(k) == Lookup(F, P.dstReal[k])
      TaskOK(k) ==
        LET t == tasks[k] IN
        CASE k \in P.refuse ->         \* (c)+(d): <source>.bak is taken, the file fails: original bytes stay, non-zero exit (below)
               (DstEntry(k).k = "f" /\ DstEntry(k).c = Stat(T, Comps(t.dst), TRUE).c)
               \/ Reject(l, "a file whose backup name is taken must be left with its original bytes")
          [] t.mode = "copy" ->        \* (b)
               (DstEntry(k).k = "f" /\ DstEntry(k).c = SrcBytes(t.srcs[1])) \/ Reject(l, "sync copy is not verbatim")
          [] t.mode = "link" ->
               (DstEntry(k).k = "l" /\ DstEntry(k).t = Stat(T, Comps(t.srcs[1]), FALSE).t) \/ Reject(l, "link not recreated")
          [] OTHER ->
               /\ (LibOf(t) # {} /\ LibInputOK(t)) \/ Reject(l, "BINDING library request does not match the plan")
               /\ LibOf(t) = {} \/
                  IF Len(t.srcs) > 1 /\ Fails(t)
                  THEN \* (d) for a bundle: "the destination receives the original bytes" - every source's bytes, in order
                       \* (joined with the separator as the library saw them, or plainly concatenated: both readings accepted);
                       \* in particular not the bytes of one source alone when the bundle is written onto one of its sources
                       LET got == IF t.dst = <<>> THEN obs.stdout ELSE IF DstEntry(k).k = "f" THEN DstEntry(k).c ELSE <<-1>>
                       IN (got = Expect(t) \/ got = JoinBytes([j \in DOMAIN t.srcs |-> SrcBytes(t.srcs[j])], <<>>))
                          \/ Reject(l, "failing bundle: destination does not hold the original bytes of all its sources")
                  ELSE IF t.dst = <<>>
                  THEN (obs.stdout = Expect(t)) \/ Reject(l, "stdout is not the library output")
                  ELSE (DstEntry(k).k = "f" /\ DstEntry(k).c = Expect(t))
                       \/ Reject(l, IF Fails(t) THEN "failing file: destination does not hold the original bytes"
                                    ELSE IF k \in P.inplace THEN "in place: destination does not hold the library output"
                                    ELSE "destination does not hold the library output")
      dsts == {P.dstReal[k] : k \in {j \in DOMAIN tasks : tasks[j].dst # <<>>}}
      \* (c) every file or link that is not a destination is exactly as before
      Same(e, f) == IF e.k = "l" THEN f.k = "l" /\ f.t = e.t
                    ELSE f.k = "f" /\ f.c = (IF e.k = "h" THEN Lookup(T, JoinComps(Comps(e.t))).c ELSE e.c)
      Untouched == \A e \in NonDir(T) : e.p \in dsts \/ Same(e, Lookup(F, e.p))
      \* (c)/(e) nothing new appears except the destinations (in particular no *.bak)
      NothingNew == \A f \in NonDir(F) : f.p \in dsts \/ Lookup(T, f.p).k # "none"
      AnyFail == \E k \in DOMAIN tasks : Fails(tasks[k]) \/ k \in P.refuse
  IN /\ (P.unspec = {} /\ P.hazard = {}) \/ Reject(l, "BINDING scenario is not determined by the documentation")
     /\ \A k \in DOMAIN tasks : TaskOK(k)
     /\ Untouched \/ Reject(l, "a file that is not a destination was modified or removed")
     /\ NothingNew \/ Reject(l, "a file appeared that is not a destination (leftover backup?)")
     /\ (AnyFail => obs.exit # 0) \/ Reject(l, "a file failed to minify but the exit status is zero")
Conforms == l <= N => LineOK(Trace[l])
=============================================================================
