----------------------------- MODULE JsGen -----------------------------
(* C01: generator automaton of programs of the JsCore fragment.

   A program is written in prefix (Polish) notation as a sequence of production names; the automaton
   appends one production per step to the leftmost open slot, so the reachable states are exactly the
   viable prefixes and the states with no open slot are the complete programs handed to the real
   minifier (rendered to JavaScript text by tools/props/c01_gen.py, every compound operand in
   parentheses, so that the minifier's precedence-driven parenthesis removal is exercised).

     sym : sequence of production names chosen so far
     stk : open slots, innermost last; a slot is <<kind, ds, de>>  (kind of phrase expected, remaining statement
           nesting, remaining expression nesting)
   Kinds: "P" program, "L0"/"L1" statement list outside/inside the function f, "S0"/"S1" statement,
          "E0"/"E1" expression (1 = inside the function: the parameter p and `return` are available). *)
EXTENDS Integers, Sequences, FiniteSets, TLC, SequencesExt, Json
CONSTANTS MaxSym,      \* bound on the number of productions of a program
          MaxS,        \* statement nesting
          MaxE,        \* expression nesting
          MaxList,     \* statements per list
          Enabled      \* the productions that may be used (a subset of AllNames)
VARIABLES sym, stk
vars == <<sym, stk>>

P(name, kind, kids) == [name |-> name, kind |-> kind, kids |-> kids]
\* expression productions for context c ("0" top level, "1" inside f)
ExprProds(c) ==
  LET E == "E" \o c IN
  { P("a", E, <<>>), P("b", E, <<>>), P("x", E, <<>>), P("y", E, <<>>),
    P("undefined", E, <<>>), P("null", E, <<>>), P("true", E, <<>>), P("false", E, <<>>), P("0", E, <<>>), P("1", E, <<>>),
    P("NaN", E, <<>>), P("''", E, <<>>), P("'s'", E, <<>>), P("typeof zz", E, <<>>),
    P("a()", E, <<>>), P("b()", E, <<>>), P("a.b", E, <<>>), P("a?.b", E, <<>>), P("a?.b.c", E, <<>>), P("a?.b()", E, <<>>), P("a?.()", E, <<>>),
    P("!", E, <<E>>), P("neg", E, <<E>>), P("typeof", E, <<E>>), P("void", E, <<E>>),
    P("&&", E, <<E, E>>), P("||", E, <<E, E>>), P("??", E, <<E, E>>), P("==", E, <<E, E>>), P("!=", E, <<E, E>>),
    P("===", E, <<E, E>>), P("!==", E, <<E, E>>), P("+", E, <<E, E>>), P("-", E, <<E, E>>), P("<", E, <<E, E>>),
    P("?:", E, <<E, E, E>>), P(",", E, <<E, E>>), P("x=", E, <<E>>), P("y=", E, <<E>>), P("a.b=", E, <<E>>),
    P("a(_)", E, <<E>>), P("out(_)", E, <<E>>), P("f(_)", E, <<E>>), P("_.b", E, <<E>>), P("_?.b", E, <<E>>),
    P("==null", E, <<E>>), P("===undefined", E, <<E>>) }
  \cup (IF c = "1" THEN {P("p", E, <<>>), P("p=", E, <<E>>)} ELSE {})
StmtProds(c) ==
  LET S == "S" \o c  E == "E" \o c  L == "L" \o c IN
  { P("expr;", S, <<E>>), P("if", S, <<E, S>>), P("ifelse", S, <<E, S, S>>), P("var x=", S, <<E>>), P("var x", S, <<>>),
    P("let y=", S, <<E>>), P("block", S, <<L>>), P("throw", S, <<E>>), P("try", S, <<S, S>>), P("for2", S, <<S>>),
    P("while2", S, <<S>>), P("empty;", S, <<>>), P("break?", S, <<>>) }
  \cup (IF c = "1" THEN {P("return", S, <<E>>), P("return;", S, <<>>)} ELSE {})
ListProds(c) == LET S == "S" \o c  L == "L" \o c IN {P("one", L, <<S>>), P("cons", L, <<S, L>>)}
Prods == ExprProds("0") \cup ExprProds("1") \cup StmtProds("0") \cup StmtProds("1") \cup ListProds("0") \cup ListProds("1")
           \cup {P("prog", "P", <<"L0">>), P("progf", "P", <<"L1", "L0">>)}
AllNames == {p.name : p \in Prods}

IsE(k) == k = "E0" \/ k = "E1"
IsS(k) == k = "S0" \/ k = "S1"
IsL(k) == k = "L0" \/ k = "L1"
\* may production p fill the slot sl (nesting budgets)?
Fits(p, sl) ==
  /\ p.kind = sl[1]
  /\ p.name \in Enabled
  /\ IsE(sl[1]) /\ p.kids # <<>> => sl[3] >= 1
  /\ IsS(sl[1]) /\ (\E i \in 1..Len(p.kids) : IsS(p.kids[i]) \/ IsL(p.kids[i])) => sl[2] >= 1
  /\ IsL(sl[1]) /\ p.name = "cons" => sl[2] >= 2            \* (for lists ds counts the statements still allowed)
\* the slots opened by production p used in slot sl
KidSlot(p, sl, k) ==
  CASE IsE(k) -> <<k, 0, IF IsE(sl[1]) THEN sl[3] - 1 ELSE MaxE>>
    [] IsS(k) -> IF IsL(sl[1]) THEN <<k, sl[3], MaxE>> ELSE <<k, sl[2] - 1, MaxE>>
    [] IsL(k) -> IF IsL(sl[1]) THEN <<k, sl[2] - 1, sl[3]>>          \* rest of the same list
                 ELSE IF sl[1] = "P" THEN <<k, MaxList, MaxS>> ELSE <<k, MaxList, sl[2] - 1>>   \* lists carry <<kind, count, nesting>>
    [] OTHER -> <<k, 0, 0>>
Open(p, sl) == [i \in 1..Len(p.kids) |-> KidSlot(p, sl, p.kids[Len(p.kids) + 1 - i])]    \* first child on top

Init == sym = <<>> /\ stk = <<<<"P", 0, 0>>>>
Next == /\ stk # <<>>
        /\ \E p \in Prods :
             /\ Fits(p, stk[Len(stk)])
             /\ Len(sym) + 1 + (Len(stk) - 1) + Len(p.kids) <= MaxSym      \* every open slot needs at least one more production
             /\ sym' = Append(sym, p.name)
             /\ stk' = SubSeq(stk, 1, Len(stk) - 1) \o Open(p, stk[Len(stk)])
Spec == Init /\ [][Next]_vars

Complete == stk = <<>>
\* ---- design-level invariants of the automaton
Arity(nm) == LET p == CHOOSE q \in Prods : q.name = nm IN Len(p.kids)
\* prefix notation is well formed: the number of open slots, recomputed from scratch, agrees with the stack and never
\* reaches zero before the end
OpenCount(s) == FoldLeft(LAMBDA n, nm : IF n = 0 THEN -1000 ELSE n - 1 + Arity(nm), 1, s)
WellFormed == OpenCount(sym) = Len(stk)
Bounded == Len(sym) + Len(stk) <= MaxSym
\* emit every complete program once (BFS: every distinct state is checked once)
Emit == Complete => PrintT(ToJson(<<"PROG">> \o sym))

\* ---- production sets for the configurations
LeafNames == {"a", "b", "x", "undefined", "null", "0", "1", "'s'", "a()", "a.b", "a?.b", "p"}
Lists == {"one", "cons", "prog", "progf"}
FlowNames == Lists \cup {"expr;", "if", "ifelse", "return", "return;", "var x=", "throw", "a", "b", "a()", "b()", "p", "x", "undefined", "1",
                         "!", "&&", "out(_)", "f(_)", "x=", "p="}
ExprNames == Lists \cup {"expr;", "a", "b", "null", "undefined", "0", "'s'", "a()", "!", "&&", "||", "??", "==", "===", "+", "<", "?:", ",",
                         "out(_)", "typeof", "void", "neg", "==null", "a?.b"}
NullishNames == Lists \cup {"expr;", "return", "a", "b", "p", "undefined", "null", "a.b", "a?.b", "a?.b.c", "a?.b()", "a?.()", "_.b", "_?.b", "??",
                            "==null", "===undefined", "?:", "||", "&&", "out(_)", "f(_)", "a(_)", "void", "0"}
\* statement nesting (dangling else): if / if-else / loop nests with branch bodies that can (out(..);) and cannot (loops)
\* become expressions
NestNames == {"prog", "one", "expr;", "if", "ifelse", "for2", "a", "b", "0", "1", "out(_)"}
AllEnabled == AllNames
=============================================================================
