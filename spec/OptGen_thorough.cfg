SPECIFICATION Spec
CONSTANTS Langs <- LangsAll
MaxF <- MaxFThorough
AllBits = TRUE
FullPairs = FALSE
Precs <- PrecsAll
Vers <- VersAll
INVARIANTS Slice TypeOK Discriminating CompletionSmall
CHECK_DEADLOCK FALSE
