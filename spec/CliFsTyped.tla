----------------------------- MODULE CliFsTyped -----------------------------
(* C20, unbounded argument (Apalache).  The per-file protocol of cmd/minify/main.go minify(t) for ONE file
   minified onto itself, as CliFs models it with Protocol = "fixed2", but with

     - uninterpreted contents: what a path holds is only a kind - "absent", "orig" (the complete original
       bytes), "other" (bytes of somebody else: a stale <name>.bak), "w" (the output being written) - and, for
       "w", the number of chunks written so far;
     - an ARBITRARY number N >= 0 of write(2) chunks (N is an unconstrained constant: ConstInit),
     - failures of the output open, of any single write, of the minifier (then the chunks written are the
       original bytes again, which makes no difference to the argument), and a crash in every state.

   IndInv is an inductive invariant: it constrains every variable, holds initially
   (--init=Init --inv=IndInv --length=0), is preserved by every step from ANY state satisfying it
   (--init=IndInit --inv=IndInv --length=1), and implies NeverLost (--init=IndInit --inv=NeverLost --length=0).
   Hence NeverLost holds in every reachable state for every N - no bound on the chunks, no enumeration of
   contents.  TLC on CliFs (2-3 workers, concrete chunks <= 2) and the trace validation of the real binary
   remain the deciding engines of the check; this is an additional, optional argument.                     *)
EXTENDS Integers

CONSTANT
  \* @type: Int;
  N                      \* number of write(2) calls the complete new content needs

VARIABLES
  \* @type: Str;
  pc,
  \* @type: Str;
  fKind,                 \* what the path <name> holds
  \* @type: Int;
  fK,                    \* chunks of the output written to <name> (meaningful when fKind = "w")
  \* @type: Str;
  bKind,                 \* what the path <name>.bak holds
  \* @type: Bool;
  err                    \* io.Copy returned an error

ConstInit == N \in Nat

PCs == {"start", "openin", "openout", "read", "write", "closein", "closeout", "unlinkbak", "unlinkdst", "restore",
        "attrs", "done", "dead"}
Kinds == {"absent", "orig", "other", "w"}

Init ==
  /\ pc = "start"
  /\ fKind = "orig" /\ fK = 0
  /\ bKind \in {"absent", "other"}          \* a stale <name>.bak may be there
  /\ err = FALSE

\* SameFile holds (the file is minified onto itself).  os.Lstat(<name>.bak): refuse if the name is taken
\* (bdbfbd6/f452f5d), else os.Rename(<name>, <name>.bak)
Start ==
  /\ pc = "start"
  /\ IF bKind # "absent"
     THEN pc' = "done" /\ UNCHANGED <<fKind, fK, bKind, err>>
     ELSE pc' = "openin" /\ bKind' = fKind /\ fKind' = "absent" /\ UNCHANGED <<fK, err>>
\* open <name>.bak for reading (a failure ends the task: Error, return false)
OpenIn ==
  /\ pc = "openin"
  /\ pc' \in {"openout", "done"}
  /\ UNCHANGED <<fKind, fK, bKind, err>>
\* OpenFile(<name>, O_WRONLY|O_TRUNC|O_CREATE); on failure the input is closed and that is all
OpenOut ==
  /\ pc = "openout"
  /\ \/ pc' = "read" /\ fKind' = "w" /\ fK' = 0 /\ UNCHANGED <<bKind, err>>
     \/ pc' = "done" /\ UNCHANGED <<fKind, fK, bKind, err>>
\* io.ReadAll (a read error closes both and returns) and m.Minify into memory (on error the original bytes are written)
ReadMinify ==
  /\ pc = "read"
  /\ pc' \in {"write", "done"}
  /\ UNCHANGED <<fKind, fK, bKind, err>>
\* io.Copy: one write(2) per chunk; any of them may fail
Write ==
  /\ pc = "write"
  /\ \/ fK < N /\ fK' = fK + 1 /\ pc' = "write" /\ UNCHANGED <<fKind, bKind, err>>
     \/ fK < N /\ err' = TRUE /\ pc' = "closein" /\ UNCHANGED <<fKind, fK, bKind>>
     \/ fK = N /\ pc' = "closein" /\ UNCHANGED <<fKind, fK, bKind, err>>
CloseIn  == pc = "closein"  /\ pc' = "closeout" /\ UNCHANGED <<fKind, fK, bKind, err>>
CloseOut == pc = "closeout" /\ pc' = (IF err THEN "unlinkdst" ELSE "unlinkbak") /\ UNCHANGED <<fKind, fK, bKind, err>>
\* err == nil: os.Remove(<name>.bak)
UnlinkBak == pc = "unlinkbak" /\ pc' = "attrs" /\ bKind' = "absent" /\ UNCHANGED <<fKind, fK, err>>
\* err # nil: os.Remove(<name>) ...
UnlinkDst == pc = "unlinkdst" /\ pc' = "restore" /\ fKind' = "absent" /\ UNCHANGED <<fK, bKind, err>>
\* ... and os.Rename(<name>.bak, <name>)
Restore == pc = "restore" /\ pc' = "attrs" /\ fKind' = bKind /\ bKind' = "absent" /\ UNCHANGED <<fK, err>>
Attrs == pc = "attrs" /\ pc' = "done" /\ UNCHANGED <<fKind, fK, bKind, err>>
\* SIGKILL at any instant: the disk stays as it is
Crash == pc \notin {"done", "dead"} /\ pc' = "dead" /\ UNCHANGED <<fKind, fK, bKind, err>>

Next == \/ Start \/ OpenIn \/ OpenOut \/ ReadMinify \/ Write \/ CloseIn \/ CloseOut \/ UnlinkBak \/ UnlinkDst
        \/ Restore \/ Attrs \/ Crash

\* "for every input file either its original path still holds the complete original bytes, or a sibling backup
\*  (<name>.bak) holds them, or the path already holds the complete new output"
Complete == fKind = "w" /\ fK = N
NeverLost == fKind = "orig" \/ bKind = "orig" \/ Complete

TypeOK == pc \in PCs /\ fKind \in Kinds /\ bKind \in Kinds /\ fK \in Int /\ err \in BOOLEAN /\ N \in Nat

\* what is on disk, per control point
IndInv ==
  /\ TypeOK
  /\ 0 <= fK /\ fK <= N
  /\ pc = "start" => (fKind = "orig" /\ bKind \in {"absent", "other"} /\ ~err /\ fK = 0)
  /\ pc \in {"openin", "openout"} => (fKind = "absent" /\ bKind = "orig" /\ ~err /\ fK = 0)
  /\ pc = "read" => (fKind = "w" /\ fK = 0 /\ bKind = "orig" /\ ~err)
  /\ pc = "write" => (fKind = "w" /\ bKind = "orig" /\ ~err)
  /\ pc \in {"closein", "closeout"} => (fKind = "w" /\ bKind = "orig" /\ (err \/ fK = N))
  /\ pc = "unlinkbak" => (fKind = "w" /\ fK = N /\ bKind = "orig" /\ ~err)
  /\ pc = "unlinkdst" => (fKind = "w" /\ bKind = "orig" /\ err)
  /\ pc = "restore" => (fKind = "absent" /\ bKind = "orig" /\ err)
  /\ pc \in {"attrs", "done", "dead"} => NeverLost

\* an arbitrary state satisfying IndInv (every variable is assigned from its type, then constrained)
IndInit ==
  /\ pc \in PCs /\ fKind \in Kinds /\ bKind \in Kinds /\ fK \in Int /\ err \in BOOLEAN
  /\ IndInv

\* ---- guards against a vacuous argument ------------------------------------------------------------------
\* IndInit is satisfiable at interesting control points: these "invariants" MUST be reported violated at length 0
NotWriting  == ~(pc = "write" /\ fK > 2 /\ fK < N)
NotRestoring == pc # "restore"
\* a wrong design - the backup is removed while the output is still being written - MUST break the induction step
EarlyUnlink == pc = "write" /\ bKind' = "absent" /\ UNCHANGED <<pc, fKind, fK, err>>
WrongNext == Next \/ EarlyUnlink
\* and so must truncating in place without a backup (the state before bdbfbd6's predecessor of all fixes: no rename)
NoRename == pc = "start" /\ pc' = "read" /\ fKind' = "w" /\ fK' = 0 /\ UNCHANGED <<bKind, err>>
WrongNext2 == Next \/ NoRename
=============================================================================
