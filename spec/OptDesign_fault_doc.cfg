SPECIFICATION Spec
CONSTANTS MaxLen = 2
BitSets <- BitsAll
Fault = "doc"
INVARIANTS Refines
CHECK_DEADLOCK FALSE
