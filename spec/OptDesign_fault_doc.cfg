SPECIFICATION Spec
CONSTANTS MaxLen = 2
Fault = "doc"
INVARIANTS Refines
CHECK_DEADLOCK FALSE
