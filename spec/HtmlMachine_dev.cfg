SPECIFICATION Spec
CONSTANTS MaxNodes = 3
MaxDepth = 3
DocMode = FALSE
Vocab <- VocabFrag
TextKinds <- TK4
OptSets <- Opts4

INVARIANTS BuilderSound DesignRefines
CHECK_DEADLOCK FALSE
