SPECIFICATION Spec
CONSTANTS MaxLen = 6
Alphabet <- Alpha4E
Precs <- PrecsT
INVARIANTS NoPanic SliceInside DoneOK EmitDone
CHECK_DEADLOCK FALSE
