SPECIFICATION Spec
CONSTANTS MaxLen = 5
Alphabet <- Alpha5D
Precs <- PrecsQ
OldCarry = FALSE
INVARIANTS NoPanic SliceInside DoneOK EmitDone
CHECK_DEADLOCK FALSE
