SPECIFICATION Spec
CONSTANTS MaxLen = 3
Emit = TRUE
Alphabet <- AlphaQuick
INVARIANTS TypeOK DesignRefinesInfoset EmitCase
CHECK_DEADLOCK FALSE
