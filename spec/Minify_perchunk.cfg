SPECIFICATION MSpec
CONSTANTS MaxRegs = 2
MaxDepth = 2
Locked = TRUE
UpdatePos = TRUE
WholeInput = FALSE
INVARIANTS SameBytes
CHECK_DEADLOCK FALSE
