SPECIFICATION Spec
CONSTANTS MaxLen = 4
INVARIANTS OwnMode Stateless Emit
CHECK_DEADLOCK FALSE
