SPECIFICATION Spec
CONSTANTS
  NG = 2
  MaxCalls = 1
  ShapeNames <- RegShapes
  AllowReg = TRUE
  CopyOpts = TRUE
  TightCap = TRUE
  CopyArgs = TRUE
  HtmlDep = FALSE
  LazyInit = FALSE
  PoolBuf = FALSE
VIEW View
INVARIANT NoBlocking
CHECK_DEADLOCK FALSE
