----------------------------- MODULE XmlText -----------------------------
(* Design model (level D) of what /repo/xml/xml.go does to ONE text token - references and blanks:
   parse.ReplaceMultipleWhitespaceAndEntities(data, EntitiesMap, TextRevEntitiesMap), the left/right trim
   of the TextToken branch and the empty-element look-ahead - in the fixed context <a>TEXT</a>, checked
   against the text clauses of XmlInfoset (RunMatch, Words, KeepOK) and "the output is well-formed";
   generator of the texts that are run through the real code (XmlMachine covers the neighbour
   combinations, this module covers the characters of a text exhaustively).

   A text is a sequence of items:
     c          literal byte c             1000 + c   decimal reference &#c;
     2000 + c   named reference (&lt; &gt; &amp; &apos; &quot;)      3000 + c   hex reference &#xc; *)
EXTENDS XmlInfoset, TLC, Json
CONSTANTS MaxLen, Alphabet, Emit, EmitMod
VARIABLES keep, txt, phase, outk, outc
vars == <<keep, txt, phase, outk, outc>>

RawWs(x) == x < 1000 /\ IsWs(x)
AllRawWs(v) == \A i \in 1..Len(v) : RawWs(v[i])
Decoded(v) == [i \in 1..Len(v) |-> v[i] % 1000]

Init == /\ keep \in BOOLEAN /\ txt = <<>> /\ phase = "gen" /\ outk = "" /\ outc = <<>>
Gen(x) == /\ phase = "gen" /\ Len(txt) < MaxLen
          /\ txt' = Append(txt, x) /\ UNCHANGED <<keep, phase, outk, outc>>

\* runs of literal blanks become one blank (a newline if the run had LF or CR); references are decoded after
\* the run test, so a blank that comes from a reference is never merged.  Every reference below 128 and the
\* named references apos, gt, quot become the character; '<' and '&' are written &lt; / &amp; again (at
\* rendering); numeric references from 128 on stay references (hex ones are respelled in decimal).
Collapse(c) ==
  LET n == Len(c)
      runNl(i) == LET RECURSIVE f(_) f(j) == IF j > n \/ ~RawWs(c[j]) THEN FALSE
                                             ELSE (c[j] \in {10, 13}) \/ f(j + 1) IN f(i)
      m == [i \in 1..n |-> IF RawWs(c[i]) THEN (IF i > 1 /\ RawWs(c[i-1]) THEN -1
                                                 ELSE IF runNl(i) THEN 10 ELSE 32)
                           ELSE c[i] % 1000]
  IN SelectSeq(m, LAMBDA x : x # -1)

Rewrite ==
  /\ phase = "gen" /\ Len(txt) > 0 /\ phase' = "done"
  /\ IF ~keep /\ AllRawWs(txt)
     THEN outk' = "void" /\ outc' = <<>>                      \* StartTagClose look-ahead: <a> </a> -> <a/>
     ELSE LET d0 == Collapse(txt)
              \* omitSpace: true at the document start and untouched by <a> without KeepWhitespace, false after <a> with it
              d1 == IF ~keep /\ IsWs(d0[1]) THEN Tail(d0) ELSE d0
              \* trailing blank before the end tag: removed unless KeepWhitespace
              d2 == IF Len(d1) > 0 /\ IsWs(d1[Len(d1)]) /\ ~keep THEN SubSeq(d1, 1, Len(d1) - 1) ELSE d1
          IN outk' = "pair" /\ outc' = d2
  /\ UNCHANGED <<keep, txt>>
Next == (\E x \in Alphabet : Gen(x)) \/ Rewrite
Spec == Init /\ [][Next]_vars

---------------------------------------------------------------------------------------------
HasSub(s, pat) == \E i \in 1..(Len(s) - Len(pat) + 1) : SubSeq(s, i, i + Len(pat) - 1) = pat
\* bytes of the output text: '<' '&' escaped, characters from 128 on as decimal references
Digits(n) == IF n >= 100 THEN <<48 + (n \div 100), 48 + ((n \div 10) % 10), 48 + (n % 10)>>
             ELSE IF n >= 10 THEN <<48 + (n \div 10), 48 + (n % 10)>> ELSE <<48 + n>>
OutItem(x) == IF x = 60 THEN <<38, 108, 116, 59>> ELSE IF x = 38 THEN <<38, 97, 109, 112, 59>>
              ELSE IF x >= 128 THEN <<38, 35>> \o Digits(x) \o <<59>> ELSE <<x>>
OutBytes(c) == FoldLeft(LAMBDA acc, x : acc \o OutItem(x), <<>>, c)
\* "The minified document is well-formed": no "]]>" in the character data as written
WellFormed == ~HasSub(OutBytes(outc), <<93, 93, 62>>)
InRun == [atoms |-> Decoded(txt), left |-> TRUE, right |-> TRUE]
Holds == /\ WellFormed
         /\ RunMatch(InRun.atoms, outc)                         \* same character data up to collapsing / trimming
         /\ Words(InRun.atoms) = Words(outc)                    \* words never joined, split or dropped
         /\ keep => KeepOK(InRun, outc)                         \* KeepWhitespace: blank next to a tag not removed entirely
\* K7: the characters of the input contain "]]>" (the ">" then comes from a reference): decoded literally
KnownCdataEnd == HasSub(Decoded(txt), <<93, 93, 62>>)
Known == KnownCdataEnd
DesignRefinesInfoset == phase = "done" => (Holds \/ Known)
TypeOK == phase \in {"gen", "done"} /\ Len(txt) <= MaxLen

HexDigit(d) == IF d < 10 THEN 48 + d ELSE 87 + d
Hex(n) == IF n >= 16 THEN <<HexDigit(n \div 16), HexDigit(n % 16)>> ELSE <<HexDigit(n)>>
Named(c) == CASE c = 60 -> <<108, 116>> [] c = 62 -> <<103, 116>> [] c = 38 -> <<97, 109, 112>>
              [] c = 39 -> <<97, 112, 111, 115>> [] c = 34 -> <<113, 117, 111, 116>>
InItem(x) == IF x < 1000 THEN <<x>>
             ELSE IF x < 2000 THEN <<38, 35>> \o Digits(x - 1000) \o <<59>>
             ELSE IF x < 3000 THEN <<38>> \o Named(x - 2000) \o <<59>>
             ELSE <<38, 35, 120>> \o Hex(x - 3000) \o <<59>>
InDoc == <<60, 97, 62>> \o FoldLeft(LAMBDA acc, x : acc \o InItem(x), <<>>, txt) \o <<60, 47, 97, 62>>
OutDoc == IF outk = "void" THEN <<60, 97, 47, 62>> ELSE <<60, 97, 62>> \o OutBytes(outc) \o <<60, 47, 97, 62>>
\* (EmitMod > 1: of the longest texts only a deterministic 1/EmitMod sample is handed out)
EmitCase == (Emit /\ phase = "done" /\ (Len(txt) < MaxLen \/ FoldLeft(LAMBDA a, b : a + b, 0, txt) % EmitMod = 0)) =>
              PrintT(ToJson([keep |-> keep, in |-> InDoc, out |-> OutDoc, known |-> Known, holds |-> Holds]))

\*  a blank LF ] > ; #  |  &lt; &amp; &gt; &quot; &apos;  |  &#60; &#38; &#62; &#32; &#10; &#13; &#233;  |  &#x41; &#x26; &#xe9;
AlphaQuick == {97, 32, 10, 93, 62, 59, 35} \cup {2060, 2038, 2062, 2034, 2039}
              \cup {1060, 1038, 1062, 1032, 1010, 1013, 1233} \cup {3065, 3038, 3233}
AlphaThorough == AlphaQuick \cup {9, 13, 39, 34, 1009, 1093, 3010, 3062}
=============================================================================
